# Per-property build configuration: race detector, mutex instrumentation, watchdog.
prop_config() {
  local p=$1 tier=$2
  case "$p" in
    C05|C10|C13|C16|C18) RACE="-race";;
  esac
  case "$p" in
    C10|C13) INSTR="group rtpconn unbounded diskwriter token";;
  esac
}

# Extra binaries a check needs, built from the same scratch copy ($2 = scratch root).
prop_extra_build() {
  case "$1" in
    C08) ( cd "$2/galene" && "$VGO" build -trimpath -o "$2/bin/galenectl" ./galenectl ) ;;
  esac
}
