# Per-property build configuration: race detector, mutex instrumentation, watchdog.
prop_config() {
  local p=$1 tier=$2
  case "$p" in
    C05|C10|C13|C14|C16|C18) RACE="-race";;
  esac
  case "$p" in
    C10|C13|C16) INSTR="group rtpconn unbounded diskwriter token";;
  esac
}
