# Sourced by ./check and setup.sh.  Pins the Go toolchain that builds /repo offline.
# (GOTOOLCHAIN=local with the *default* go 1.23 cannot build /repo, which wants go 1.24;
#  the cached go1.24.0 toolchain is called by absolute path instead - see DESIGN.md section 2.)
export GOPROXY=off GOFLAGS=-mod=mod GOSUMDB=off
VERIF_DIR=${VERIF_DIR:-$(cd "$(dirname "${BASH_SOURCE[0]}")/.." && pwd)}
REPO_DIR=${REPO_DIR:-/repo}
GOMODCACHE_DIR=$(env -u GOFLAGS go env GOMODCACHE 2>/dev/null || echo /root/go/pkg/mod)
PINNED_GO="$GOMODCACHE_DIR/golang.org/toolchain@v0.0.1-go1.24.0.linux-amd64/bin/go"
if [ -x "$PINNED_GO" ]; then
  VGO="$PINNED_GO"
elif command -v go1.26 >/dev/null 2>&1; then
  VGO="$(command -v go1.26)"
else
  VGO="$(command -v go)"
fi
export GOTOOLCHAIN=local
export VGO VERIF_DIR REPO_DIR
