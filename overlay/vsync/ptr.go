package vsync

import "unsafe"

func uintptrOf[T any](p *T) uintptr { return uintptr(unsafe.Pointer(p)) }
