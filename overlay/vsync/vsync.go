//go:build !vsynclight

// Package vsync is dropped into a scratch copy of galene by the check scripts; the
// vinstr tool rewrites every sync.Mutex struct field of the selected packages into
// vsync.Mutex[class].  A vsync.Mutex embeds a real sync.Mutex (the race detector's view
// is unchanged).  When the monitor is enabled, every Lock/Unlock
//   - records "goroutine g waits for m" / "g holds m" in a wait-for graph,
//   - adds lock-order edges h -> m for every h already held by g,
//   - perturbs the schedule (Gosched or a 1-200 us sleep) before the acquisition and
//     after the release: exactly between critical sections, never inside one.
//
// A scanner goroutine looks for cycles in the wait-for graph (an actual deadlock, which
// is stable once formed) and then dumps all goroutines and exits with status 3.
package vsync

import (
	"bytes"
	"fmt"
	"os"
	"runtime"
	"sort"
	"strconv"
	"strings"
	"sync"
	"sync/atomic"
	"time"
)

type Class interface{ VsyncClass() string }

type Mutex[C Class] struct {
	mu sync.Mutex
}

var enabled atomic.Bool
var perturbPct atomic.Int32
var rng atomic.Uint64

type held struct {
	addr  uintptr
	class string
	site  string
}

var mon struct {
	mu      sync.Mutex
	holds   map[uint64][]held
	waiting map[uint64]held
	owner   map[uintptr]uint64
	edges   map[[2]string][2]string // class pair -> acquisition sites (first occurrence)
	iedges  map[[2]uintptr]struct{} // instance pairs
	same    map[[2]string]bool      // class pair seen on one pair of instances in both orders
	events  int64
	classes map[string]int64
}

// Enable switches the monitor on.  perturb is the percentage of lock operations that are
// preceded/followed by a yield or short sleep; seed makes the choice sequence reproducible
// (the schedule itself is not).  If scan is true a scanner goroutine checks for wait-for
// cycles every 50 ms and on finding one prints a VSYNC-DEADLOCK report and exits(3).
func Enable(perturb int, seed uint64, scan bool) {
	mon.mu.Lock()
	mon.holds = map[uint64][]held{}
	mon.waiting = map[uint64]held{}
	mon.owner = map[uintptr]uint64{}
	mon.edges = map[[2]string][2]string{}
	mon.iedges = map[[2]uintptr]struct{}{}
	mon.same = map[[2]string]bool{}
	mon.classes = map[string]int64{}
	mon.mu.Unlock()
	perturbPct.Store(int32(perturb))
	rng.Store(seed*0x9E3779B97F4A7C15 + 1)
	enabled.Store(true)
	if scan {
		go scanner()
	}
}

func SetPerturb(p int) { perturbPct.Store(int32(p)) }

func scanner() {
	for {
		time.Sleep(50 * time.Millisecond)
		if d := WaitCycle(); d != "" {
			// confirm: a cycle in the wait-for graph is stable, look again
			time.Sleep(100 * time.Millisecond)
			if d2 := WaitCycle(); d2 != "" {
				buf := make([]byte, 1<<20)
				n := runtime.Stack(buf, true)
				fmt.Fprintf(os.Stderr, "\nVSYNC-DEADLOCK %s\nVSYNC-DEADLOCK-KEY %s\n--- goroutines ---\n%s\nVSYNC-DEADLOCK-END\n", d2, CycleKey(d2), buf[:n])
				os.Exit(3)
			}
		}
	}
}

func goid() uint64 {
	var buf [64]byte
	n := runtime.Stack(buf[:], false)
	f := bytes.Fields(buf[:n])
	if len(f) < 2 {
		return 0
	}
	id, _ := strconv.ParseUint(string(f[1]), 10, 64)
	return id
}

// site names the two innermost galene functions on the stack (no line numbers: stable keys).
func site() string {
	pc := make([]uintptr, 10)
	n := runtime.Callers(3, pc)
	fr := runtime.CallersFrames(pc[:n])
	var parts []string
	for {
		f, more := fr.Next()
		if i := strings.LastIndex(f.Function, "galene/"); i >= 0 && !strings.Contains(f.Function, "galene/vsync") {
			parts = append(parts, f.Function[i+7:])
		}
		if !more || len(parts) >= 2 {
			break
		}
	}
	if len(parts) == 0 {
		return "harness"
	}
	return strings.Join(parts, "<-")
}

var quiet sync.Map // goroutine id -> struct{}: goroutines that are not perturbed

// SetQuiet exempts (or re-includes) the calling goroutine from schedule perturbation, so
// that a workload can delay one party at its lock operations while another runs at full
// speed through the window.
func SetQuiet(q bool) {
	if q {
		quiet.Store(goid(), struct{}{})
	} else {
		quiet.Delete(goid())
	}
}

var maxSleepUs atomic.Int64

// SetMaxSleep sets the longest sleep (in microseconds, default 200) a perturbed lock
// operation may be preceded by: a workload that wants to hold one party inside a narrow
// window (between two of its lock operations) for long enough for another party to pass.
func SetMaxSleep(us int64) { maxSleepUs.Store(us) }

func perturb() {
	p := perturbPct.Load()
	if p == 0 {
		return
	}
	if _, q := quiet.Load(goid()); q {
		return
	}
	x := rng.Add(0x9E3779B97F4A7C15)
	x ^= x >> 31
	x *= 0xBF58476D1CE4E5B9
	x ^= x >> 29
	if int32(x%100) < p {
		if x&1024 == 0 {
			runtime.Gosched()
		} else {
			ms := uint64(maxSleepUs.Load())
			if ms == 0 {
				ms = 200
			}
			time.Sleep(time.Duration(1+(x>>40)%ms) * time.Microsecond)
		}
	}
}

func (m *Mutex[C]) Lock() {
	if !enabled.Load() {
		m.mu.Lock()
		return
	}
	perturb()
	var c C
	g := goid()
	h := held{addr: uintptrOf(m), class: c.VsyncClass(), site: site()}
	mon.mu.Lock()
	mon.events++
	mon.classes[h.class]++
	mon.waiting[g] = h
	for _, o := range mon.holds[g] {
		k := [2]string{o.class, h.class}
		if _, ok := mon.edges[k]; !ok {
			mon.edges[k] = [2]string{o.site, h.site}
		}
		mon.iedges[[2]uintptr{o.addr, h.addr}] = struct{}{}
		if _, rev := mon.iedges[[2]uintptr{h.addr, o.addr}]; rev {
			mon.same[k] = true
			mon.same[[2]string{h.class, o.class}] = true
		}
	}
	mon.mu.Unlock()
	m.mu.Lock()
	mon.mu.Lock()
	delete(mon.waiting, g)
	mon.holds[g] = append(mon.holds[g], h)
	mon.owner[h.addr] = g
	mon.mu.Unlock()
}

func (m *Mutex[C]) TryLock() bool {
	if !enabled.Load() {
		return m.mu.TryLock()
	}
	if !m.mu.TryLock() {
		return false
	}
	var c C
	g := goid()
	h := held{addr: uintptrOf(m), class: c.VsyncClass(), site: site()}
	mon.mu.Lock()
	mon.holds[g] = append(mon.holds[g], h)
	mon.owner[h.addr] = g
	mon.mu.Unlock()
	return true
}

func (m *Mutex[C]) Unlock() {
	if !enabled.Load() {
		m.mu.Unlock()
		return
	}
	a := uintptrOf(m)
	mon.mu.Lock()
	g, ok := mon.owner[a]
	if ok {
		delete(mon.owner, a)
		hs := mon.holds[g]
		for i := len(hs) - 1; i >= 0; i-- {
			if hs[i].addr == a {
				hs = append(hs[:i], hs[i+1:]...)
				break
			}
		}
		if len(hs) == 0 {
			delete(mon.holds, g)
		} else {
			mon.holds[g] = hs
		}
	}
	mon.mu.Unlock()
	m.mu.Unlock()
	perturb()
}

// WaitCycle returns a description of an actual wait-for cycle, or "".
func WaitCycle() string {
	mon.mu.Lock()
	defer mon.mu.Unlock()
	for g0 := range mon.waiting {
		seen := map[uint64]bool{}
		g := g0
		var path []string
		for {
			w, ok := mon.waiting[g]
			if !ok {
				break
			}
			o, ok := mon.owner[w.addr]
			if !ok {
				break
			}
			hsite := ""
			for _, h := range mon.holds[o] {
				if h.addr == w.addr {
					hsite = h.site
				}
			}
			path = append(path, fmt.Sprintf("g%d waits for %s at [%s] held by g%d since [%s]", g, w.class, w.site, o, hsite))
			if o == g0 {
				return strings.Join(path, " ; ")
			}
			if seen[o] {
				break
			}
			seen[o] = true
			g = o
		}
	}
	return ""
}

// CycleKey turns a WaitCycle description into a stable signature: the sorted list of
// (lock class, waiting site) pairs, goroutine numbers removed.
func CycleKey(desc string) string {
	var parts []string
	for _, p := range strings.Split(desc, " ; ") {
		i := strings.Index(p, "waits for ")
		j := strings.Index(p, " held by")
		if i < 0 || j < 0 {
			continue
		}
		parts = append(parts, p[i+len("waits for "):j])
	}
	sort.Strings(parts)
	return strings.Join(parts, " | ")
}

// OrderCycles reports 2-cycles in the lock-order graph: classes acquired in both orders.
// confirmedSameInstances says whether both orders were seen on one pair of instances.
func OrderCycles() []string {
	mon.mu.Lock()
	defer mon.mu.Unlock()
	var out []string
	for k, s := range mon.edges {
		if k[0] > k[1] {
			continue
		}
		if k[0] == k[1] {
			continue
		}
		if r, ok := mon.edges[[2]string{k[1], k[0]}]; ok {
			out = append(out, fmt.Sprintf("%s -> %s [%s => %s]  AND  %s -> %s [%s => %s]  same-instances=%v", k[0], k[1], s[0], s[1], k[1], k[0], r[0], r[1], mon.same[k]))
		}
	}
	sort.Strings(out)
	return out
}

// Edges lists the class-level lock-order edges observed.
func Edges() []string {
	mon.mu.Lock()
	defer mon.mu.Unlock()
	var out []string
	for k := range mon.edges {
		out = append(out, k[0]+" -> "+k[1])
	}
	sort.Strings(out)
	return out
}

func Stats() (events int64, edges int, perClass map[string]int64) {
	mon.mu.Lock()
	defer mon.mu.Unlock()
	pc := map[string]int64{}
	for k, v := range mon.classes {
		pc[k] = v
	}
	return mon.events, len(mon.edges), pc
}
