//go:build vsynclight

// Light variant of package vsync (build tag vsynclight): the same API and the same
// schedule perturbation in front of every lock operation, but NO monitor.  The full
// monitor keeps its wait-for graph under one global mutex and draws its random numbers
// from one atomic counter, so every instrumented lock operation synchronises with every
// other one: in the race detector's eyes two accesses that are separated by ANY two lock
// operations are ordered, and many real races go unreported.  This variant shares nothing
// between goroutines on the lock path (randomness comes from the clock, the goroutine id
// and the mutex address), so the happens-before relation the race detector sees is that
// of galene's own synchronisation.  The check scripts build the race-hunting binary of
// C10 and C13 with it.
package vsync

import (
	"bytes"
	"runtime"
	"strconv"
	"sync"
	"sync/atomic"
	"time"
	"unsafe"
)

type Class interface{ VsyncClass() string }

type Mutex[C Class] struct {
	mu sync.Mutex
}

var enabled atomic.Bool
var perturbPct atomic.Int32
var maxSleepUs atomic.Int64
var seed0 atomic.Uint64
var quiet sync.Map

// Light reports which variant is linked in.
const Light = true

func Enable(perturb int, seed uint64, scan bool) {
	perturbPct.Store(int32(perturb))
	seed0.Store(seed*0x9E3779B97F4A7C15 + 1)
	enabled.Store(true)
}

func SetPerturb(p int)       { perturbPct.Store(int32(p)) }
func SetMaxSleep(us int64)   { maxSleepUs.Store(us) }
func WaitCycle() string      { return "" }
func CycleKey(string) string { return "" }
func OrderCycles() []string  { return nil }
func Edges() []string        { return nil }
func Stats() (events int64, edges int, perClass map[string]int64) {
	return 0, 0, map[string]int64{}
}

func goid() uint64 {
	var buf [64]byte
	n := runtime.Stack(buf[:], false)
	f := bytes.Fields(buf[:n])
	if len(f) < 2 {
		return 0
	}
	id, _ := strconv.ParseUint(string(f[1]), 10, 64)
	return id
}

func SetQuiet(q bool) {
	if q {
		quiet.Store(goid(), struct{}{})
	} else {
		quiet.Delete(goid())
	}
}

func perturb(addr uintptr) {
	p := perturbPct.Load()
	if p == 0 {
		return
	}
	g := goid()
	if _, q := quiet.Load(g); q {
		return
	}
	x := uint64(time.Now().UnixNano()) ^ g*0x9E3779B97F4A7C15 ^ uint64(addr)<<17 ^ seed0.Load()
	x ^= x >> 31
	x *= 0xBF58476D1CE4E5B9
	x ^= x >> 29
	x *= 0x94D049BB133111EB
	x ^= x >> 32
	if int32(x%100) < p {
		if x&1024 == 0 {
			runtime.Gosched()
		} else {
			ms := uint64(maxSleepUs.Load())
			if ms == 0 {
				ms = 200
			}
			time.Sleep(time.Duration(1+(x>>40)%ms) * time.Microsecond)
		}
	}
}

func (m *Mutex[C]) Lock() {
	if enabled.Load() {
		perturb(uintptr(unsafe.Pointer(m)))
	}
	m.mu.Lock()
}

func (m *Mutex[C]) TryLock() bool { return m.mu.TryLock() }

func (m *Mutex[C]) Unlock() {
	m.mu.Unlock()
	if enabled.Load() {
		perturb(uintptr(unsafe.Pointer(m)))
	}
}
