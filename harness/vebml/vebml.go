// Package vebml is a small, strict, independent reader for the subset of
// EBML/Matroska that a recorder produces: EBML header, one Segment (known or
// unknown size) with Info, Tracks and Clusters (known or unknown size) holding
// SimpleBlocks.  It shares no code with the writer under test.  Anything it
// does not understand at Segment or Cluster level, any element that overruns
// its parent, and any partial element at the end of the file is an error.
package vebml

import (
	"encoding/binary"
	"fmt"
	"math"
)

const (
	idEBML         = 0x1A45DFA3
	idDocType      = 0x4282
	idDocTypeVer   = 0x4287
	idDocTypeRVer  = 0x4285
	idEBMLVersion  = 0x4286
	idEBMLRVersion = 0x42F7
	idEBMLMaxID    = 0x42F2
	idEBMLMaxSize  = 0x42F3

	idSegment     = 0x18538067
	idSeekHead    = 0x114D9B74
	idInfo        = 0x1549A966
	idTracks      = 0x1654AE6B
	idCluster     = 0x1F43B675
	idCues        = 0x1C53BB6B
	idTags        = 0x1254C367
	idAttachments = 0x1941A469
	idChapters    = 0x1043A770
	idVoid        = 0xEC
	idCRC32       = 0xBF

	idTimecodeScale = 0x2AD7B1

	idTrackEntry  = 0xAE
	idTrackNumber = 0xD7
	idTrackUID    = 0x73C5
	idTrackType   = 0x83
	idCodecID     = 0x86
	idName        = 0x536E
	idVideo       = 0xE0
	idAudio       = 0xE1
	idPixelWidth  = 0xB0
	idPixelHeight = 0xBA
	idSamplingHz  = 0xB5
	idChannels    = 0x9F

	idTimecode    = 0xE7
	idPrevSize    = 0xAB
	idPosition    = 0xA7
	idSimpleBlock = 0xA3
	idBlockGroup  = 0xA0
	idBlock       = 0xA1
)

const unknownSize = int64(-1)

// Track is one declared TrackEntry.
type Track struct {
	Number      uint64
	UID         uint64
	Type        uint64 // 1 video, 2 audio
	CodecID     string
	Name        string
	PixelWidth  uint64
	PixelHeight uint64
	SamplingHz  float64
	Channels    uint64
	HasVideo    bool
	HasAudio    bool
}

// Block is one SimpleBlock (or Block inside a BlockGroup) in file order.
type Block struct {
	Track    uint64
	Timecode int64 // cluster timecode + relative timecode, in TimecodeScale units
	Rel      int16
	Cluster  int // index of the containing cluster
	Keyframe bool
	Data     []byte
	Offset   int64 // file offset of the element
}

// Cluster summarises one Cluster element.
type Cluster struct {
	Offset      int64
	Timecode    uint64
	HasTimecode bool
	Blocks      int
	UnknownSize bool
}

// File is a completely parsed document.
type File struct {
	DocType            string
	DocTypeVersion     uint64
	DocTypeReadVersion uint64
	EBMLVersion        uint64
	SegmentUnknownSize bool
	TimecodeScale      uint64
	HasInfo            bool
	HasTracks          bool
	Tracks             []Track
	Clusters           []Cluster
	Blocks             []Block
	Size               int64
}

type reader struct {
	b []byte
}

// readID reads an element ID (1..4 bytes, marker bits kept).
func (r *reader) readID(pos int64) (uint32, int64, error) {
	if pos >= int64(len(r.b)) {
		return 0, 0, fmt.Errorf("offset %d: element id beyond end of file", pos)
	}
	b0 := r.b[pos]
	n := 0
	switch {
	case b0&0x80 != 0:
		n = 1
	case b0&0x40 != 0:
		n = 2
	case b0&0x20 != 0:
		n = 3
	case b0&0x10 != 0:
		n = 4
	default:
		return 0, 0, fmt.Errorf("offset %d: invalid element id first byte 0x%02x", pos, b0)
	}
	if pos+int64(n) > int64(len(r.b)) {
		return 0, 0, fmt.Errorf("offset %d: truncated element id", pos)
	}
	var id uint32
	for i := 0; i < n; i++ {
		id = id<<8 | uint32(r.b[pos+int64(i)])
	}
	return id, int64(n), nil
}

// readSize reads an element data size; all-ones means unknown.
func (r *reader) readSize(pos int64) (int64, int64, error) {
	v, n, allOnes, err := r.readVint(pos)
	if err != nil {
		return 0, 0, err
	}
	if allOnes {
		return unknownSize, n, nil
	}
	if v > math.MaxInt64/2 {
		return 0, 0, fmt.Errorf("offset %d: absurd element size", pos)
	}
	return int64(v), n, nil
}

func (r *reader) readVint(pos int64) (uint64, int64, bool, error) {
	if pos >= int64(len(r.b)) {
		return 0, 0, false, fmt.Errorf("offset %d: vint beyond end of file", pos)
	}
	b0 := r.b[pos]
	if b0 == 0 {
		return 0, 0, false, fmt.Errorf("offset %d: vint longer than 8 bytes", pos)
	}
	n := 1
	mask := byte(0x80)
	for b0&mask == 0 {
		n++
		mask >>= 1
	}
	if pos+int64(n) > int64(len(r.b)) {
		return 0, 0, false, fmt.Errorf("offset %d: truncated vint", pos)
	}
	v := uint64(b0 &^ mask)
	allOnes := (b0 &^ mask) == mask-1
	for i := 1; i < n; i++ {
		c := r.b[pos+int64(i)]
		if c != 0xFF {
			allOnes = false
		}
		v = v<<8 | uint64(c)
	}
	return v, int64(n), allOnes, nil
}

func (r *reader) uintAt(pos, size int64) (uint64, error) {
	if size > 8 {
		return 0, fmt.Errorf("offset %d: unsigned integer of %d bytes", pos, size)
	}
	var v uint64
	for i := int64(0); i < size; i++ {
		v = v<<8 | uint64(r.b[pos+i])
	}
	return v, nil
}

func (r *reader) floatAt(pos, size int64) (float64, error) {
	switch size {
	case 0:
		return 0, nil
	case 4:
		return float64(math.Float32frombits(binary.BigEndian.Uint32(r.b[pos:]))), nil
	case 8:
		return math.Float64frombits(binary.BigEndian.Uint64(r.b[pos:])), nil
	}
	return 0, fmt.Errorf("offset %d: float of %d bytes", pos, size)
}

func (r *reader) stringAt(pos, size int64) string {
	s := r.b[pos : pos+size]
	for len(s) > 0 && s[len(s)-1] == 0 {
		s = s[:len(s)-1]
	}
	return string(s)
}

// header reads id and size at pos and checks the element fits into [pos,end).
func (r *reader) header(pos, end int64) (id uint32, dataPos, size int64, err error) {
	id, n, err := r.readID(pos)
	if err != nil {
		return 0, 0, 0, err
	}
	size, m, err := r.readSize(pos + n)
	if err != nil {
		return 0, 0, 0, err
	}
	dataPos = pos + n + m
	if dataPos > end {
		return 0, 0, 0, fmt.Errorf("offset %d: element header overruns its parent", pos)
	}
	if size != unknownSize && dataPos+size > end {
		return 0, 0, 0, fmt.Errorf("offset %d: element 0x%X of %d bytes overruns its parent/end of file (%d bytes left)", pos, id, size, end-dataPos)
	}
	return id, dataPos, size, nil
}

func segmentChild(id uint32) bool {
	switch id {
	case idSeekHead, idInfo, idTracks, idCluster, idCues, idTags, idAttachments, idChapters, idVoid, idCRC32:
		return true
	}
	return false
}

func clusterChild(id uint32) bool {
	switch id {
	case idTimecode, idPrevSize, idPosition, idSimpleBlock, idBlockGroup, idVoid, idCRC32:
		return true
	}
	return false
}

// Parse reads a whole document.  On error the partially filled File is
// returned as well so that the caller can report how far it got.
func Parse(data []byte) (*File, error) {
	r := &reader{b: data}
	f := &File{Size: int64(len(data)), TimecodeScale: 1000000}
	end := int64(len(data))
	if end == 0 {
		return f, fmt.Errorf("empty file")
	}
	id, dp, size, err := r.header(0, end)
	if err != nil {
		return f, err
	}
	if id != idEBML {
		return f, fmt.Errorf("offset 0: file does not start with an EBML header (id 0x%X)", id)
	}
	if size == unknownSize {
		return f, fmt.Errorf("EBML header of unknown size")
	}
	if err := r.parseEBMLHeader(f, dp, dp+size); err != nil {
		return f, err
	}
	pos := dp + size
	// skip Void between header and segment
	for {
		if pos >= end {
			return f, fmt.Errorf("offset %d: no Segment", pos)
		}
		id, dp, size, err = r.header(pos, end)
		if err != nil {
			return f, err
		}
		if id == idVoid && size != unknownSize {
			pos = dp + size
			continue
		}
		break
	}
	if id != idSegment {
		return f, fmt.Errorf("offset %d: expected Segment, found element 0x%X", pos, id)
	}
	segEnd := end
	if size == unknownSize {
		f.SegmentUnknownSize = true
	} else {
		segEnd = dp + size
	}
	if err := r.parseSegment(f, dp, segEnd); err != nil {
		return f, err
	}
	if segEnd != end {
		return f, fmt.Errorf("offset %d: %d bytes of trailing data after the Segment", segEnd, end-segEnd)
	}
	return f, nil
}

func (r *reader) parseEBMLHeader(f *File, pos, end int64) error {
	for pos < end {
		id, dp, size, err := r.header(pos, end)
		if err != nil {
			return err
		}
		if size == unknownSize {
			return fmt.Errorf("offset %d: unknown-size element inside the EBML header", pos)
		}
		switch id {
		case idDocType:
			f.DocType = r.stringAt(dp, size)
		case idDocTypeVer:
			f.DocTypeVersion, err = r.uintAt(dp, size)
		case idDocTypeRVer:
			f.DocTypeReadVersion, err = r.uintAt(dp, size)
		case idEBMLVersion:
			f.EBMLVersion, err = r.uintAt(dp, size)
		}
		if err != nil {
			return err
		}
		pos = dp + size
	}
	return nil
}

func (r *reader) parseSegment(f *File, pos, end int64) error {
	for pos < end {
		id, dp, size, err := r.header(pos, end)
		if err != nil {
			return err
		}
		if !segmentChild(id) {
			return fmt.Errorf("offset %d: element 0x%X is not a Segment child (garbage or misplaced data)", pos, id)
		}
		if id == idCluster {
			if !f.HasTracks {
				return fmt.Errorf("offset %d: Cluster before Tracks", pos)
			}
			next, err := r.parseCluster(f, pos, dp, size, end)
			if err != nil {
				return err
			}
			pos = next
			continue
		}
		if size == unknownSize {
			return fmt.Errorf("offset %d: element 0x%X has unknown size", pos, id)
		}
		switch id {
		case idInfo:
			f.HasInfo = true
			if err := r.parseInfo(f, dp, dp+size); err != nil {
				return err
			}
		case idTracks:
			if f.HasTracks {
				return fmt.Errorf("offset %d: second Tracks element", pos)
			}
			if len(f.Clusters) > 0 {
				return fmt.Errorf("offset %d: Tracks after a Cluster", pos)
			}
			f.HasTracks = true
			if err := r.parseTracks(f, dp, dp+size); err != nil {
				return err
			}
		}
		pos = dp + size
	}
	return nil
}

func (r *reader) parseInfo(f *File, pos, end int64) error {
	for pos < end {
		id, dp, size, err := r.header(pos, end)
		if err != nil {
			return err
		}
		if size == unknownSize {
			return fmt.Errorf("offset %d: unknown-size element inside Info", pos)
		}
		if id == idTimecodeScale {
			v, err := r.uintAt(dp, size)
			if err != nil {
				return err
			}
			if v == 0 {
				return fmt.Errorf("offset %d: TimecodeScale 0", pos)
			}
			f.TimecodeScale = v
		}
		pos = dp + size
	}
	return nil
}

func (r *reader) parseTracks(f *File, pos, end int64) error {
	for pos < end {
		id, dp, size, err := r.header(pos, end)
		if err != nil {
			return err
		}
		if size == unknownSize {
			return fmt.Errorf("offset %d: unknown-size element inside Tracks", pos)
		}
		if id == idTrackEntry {
			t, err := r.parseTrackEntry(dp, dp+size)
			if err != nil {
				return err
			}
			f.Tracks = append(f.Tracks, t)
		} else if id != idVoid && id != idCRC32 {
			return fmt.Errorf("offset %d: element 0x%X inside Tracks", pos, id)
		}
		pos = dp + size
	}
	return nil
}

func (r *reader) parseTrackEntry(pos, end int64) (Track, error) {
	var t Track
	for pos < end {
		id, dp, size, err := r.header(pos, end)
		if err != nil {
			return t, err
		}
		if size == unknownSize {
			return t, fmt.Errorf("offset %d: unknown-size element inside TrackEntry", pos)
		}
		switch id {
		case idTrackNumber:
			t.Number, err = r.uintAt(dp, size)
		case idTrackUID:
			t.UID, err = r.uintAt(dp, size)
		case idTrackType:
			t.Type, err = r.uintAt(dp, size)
		case idCodecID:
			t.CodecID = r.stringAt(dp, size)
		case idName:
			t.Name = r.stringAt(dp, size)
		case idVideo:
			t.HasVideo = true
			p := dp
			for p < dp+size {
				cid, cdp, csz, err := r.header(p, dp+size)
				if err != nil {
					return t, err
				}
				if csz == unknownSize {
					return t, fmt.Errorf("offset %d: unknown-size element inside Video", p)
				}
				switch cid {
				case idPixelWidth:
					t.PixelWidth, err = r.uintAt(cdp, csz)
				case idPixelHeight:
					t.PixelHeight, err = r.uintAt(cdp, csz)
				}
				if err != nil {
					return t, err
				}
				p = cdp + csz
			}
		case idAudio:
			t.HasAudio = true
			p := dp
			for p < dp+size {
				cid, cdp, csz, err := r.header(p, dp+size)
				if err != nil {
					return t, err
				}
				if csz == unknownSize {
					return t, fmt.Errorf("offset %d: unknown-size element inside Audio", p)
				}
				switch cid {
				case idSamplingHz:
					t.SamplingHz, err = r.floatAt(cdp, csz)
				case idChannels:
					t.Channels, err = r.uintAt(cdp, csz)
				}
				if err != nil {
					return t, err
				}
				p = cdp + csz
			}
		}
		if err != nil {
			return t, err
		}
		pos = dp + size
	}
	return t, nil
}

// parseCluster parses one cluster starting at pos (data at dp) and returns the
// offset of the first byte after it.  An unknown-size cluster ends where an
// element that is a Segment child but not a Cluster child starts, or at end.
func (r *reader) parseCluster(f *File, pos, dp, size, segEnd int64) (int64, error) {
	c := Cluster{Offset: pos, UnknownSize: size == unknownSize}
	ci := len(f.Clusters)
	end := segEnd
	if size != unknownSize {
		end = dp + size
	}
	p := dp
	for p < end {
		id, cdp, csz, err := r.header(p, end)
		if err != nil {
			return 0, fmt.Errorf("cluster %d: %w", ci, err)
		}
		if !clusterChild(id) {
			if size == unknownSize && segmentChild(id) {
				break // next top-level element ends this cluster
			}
			return 0, fmt.Errorf("cluster %d: offset %d: element 0x%X is not a Cluster child (garbage or misplaced data)", ci, p, id)
		}
		if csz == unknownSize {
			return 0, fmt.Errorf("cluster %d: offset %d: unknown-size element 0x%X inside a Cluster", ci, p, id)
		}
		switch id {
		case idTimecode:
			if c.HasTimecode {
				return 0, fmt.Errorf("cluster %d: two Timecode elements", ci)
			}
			if c.Blocks > 0 {
				return 0, fmt.Errorf("cluster %d: Timecode after a block", ci)
			}
			c.Timecode, err = r.uintAt(cdp, csz)
			if err != nil {
				return 0, err
			}
			c.HasTimecode = true
		case idSimpleBlock:
			if !c.HasTimecode {
				return 0, fmt.Errorf("cluster %d: SimpleBlock before the cluster Timecode", ci)
			}
			b, err := r.parseBlock(cdp, csz, true)
			if err != nil {
				return 0, fmt.Errorf("cluster %d: offset %d: %w", ci, p, err)
			}
			b.Offset = p
			b.Cluster = ci
			b.Timecode = int64(c.Timecode) + int64(b.Rel)
			f.Blocks = append(f.Blocks, b)
			c.Blocks++
		case idBlockGroup:
			if !c.HasTimecode {
				return 0, fmt.Errorf("cluster %d: BlockGroup before the cluster Timecode", ci)
			}
			q := cdp
			for q < cdp+csz {
				gid, gdp, gsz, err := r.header(q, cdp+csz)
				if err != nil {
					return 0, err
				}
				if gsz == unknownSize {
					return 0, fmt.Errorf("cluster %d: unknown-size element inside a BlockGroup", ci)
				}
				if gid == idBlock {
					b, err := r.parseBlock(gdp, gsz, false)
					if err != nil {
						return 0, fmt.Errorf("cluster %d: offset %d: %w", ci, q, err)
					}
					b.Offset = q
					b.Cluster = ci
					b.Timecode = int64(c.Timecode) + int64(b.Rel)
					f.Blocks = append(f.Blocks, b)
					c.Blocks++
				}
				q = gdp + gsz
			}
		}
		p = cdp + csz
	}
	if !c.HasTimecode {
		return 0, fmt.Errorf("cluster %d: no Timecode", ci)
	}
	f.Clusters = append(f.Clusters, c)
	return p, nil
}

func (r *reader) parseBlock(pos, size int64, simple bool) (Block, error) {
	var b Block
	if size < 4 {
		return b, fmt.Errorf("block of %d bytes", size)
	}
	tn, n, _, err := r.readVint(pos)
	if err != nil {
		return b, err
	}
	if n+3 > size {
		return b, fmt.Errorf("block header longer than the block")
	}
	b.Track = tn
	b.Rel = int16(binary.BigEndian.Uint16(r.b[pos+n:]))
	flags := r.b[pos+n+2]
	if flags&0x06 != 0 {
		return b, fmt.Errorf("laced block (flags 0x%02x) not expected from a recorder", flags)
	}
	if simple {
		b.Keyframe = flags&0x80 != 0
	}
	b.Data = r.b[pos+n+3 : pos+size]
	return b, nil
}
