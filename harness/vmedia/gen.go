package vmedia

// RunGen: one end-to-end session whose source stream comes from vdown.Generate (VP8 or
// VP9 SVC, multi-packet frames, temporal patterns, up-switch flags), sent by a pion
// publisher through the real server to several scripted pion subscribers.  For each
// subscriber the result holds what it received (parsed with pion's depacketisers, in
// arrival order) and the server's own record of what the down track withheld.

import (
	"fmt"
	"math/rand/v2"
	"time"

	"github.com/pion/rtcp"
	"github.com/pion/rtp"

	"verif/harness/vclient"
	"verif/harness/vdown"
	"verif/harness/vrtc"
	"verif/harness/vsrv"
)

// SubScript is what one subscriber does.
type SubScript struct {
	Name    string
	Request string // initial request: "video" or "video-low"
	// SwitchAt >= 0: at that source packet index the subscriber changes its request to SwitchTo
	SwitchAt int
	SwitchTo string
	// bandwidth feedback: during [From, Until) a REMB of Bps is sent every 150 packets
	Rembs []RembPhase
}

type RembPhase struct {
	From, Until int
	Bps         float32
}

// GenRx is one received packet.
type GenRx struct {
	Idx    int // index of the source packet (embedded id), -1 if unreadable
	Seq    uint16
	Marker bool
	TS     uint32
	P      *vdown.Parsed
}

type GenSub struct {
	Script   SubScript
	SSRC     uint32
	Rx       []GenRx
	Withheld map[int]bool // source packet indices the server's down track withheld
	// SwitchAcked: source index by which the changed request has certainly been processed by
	// the server (50 ping/pong round trips on the subscriber's socket completed), -1 if none
	SwitchAcked int
}

type GenResult struct {
	OK   bool
	Why  string
	Src  []*vdown.Pkt
	Subs []*GenSub
}

func waitDown(p *vrtc.Peer, id string) bool {
	for i := 0; i < 2000; i++ {
		if d := p.Down(id); d != nil && d.PC != nil && d.PC.ConnectionState().String() == "connected" {
			return true
		}
		time.Sleep(10 * time.Millisecond)
	}
	return false
}

// RunGen executes one session.  Packets are sent at about one per millisecond.
func RunGen(srv *vsrv.Server, name string, cfg *vdown.StreamCfg, scripts []SubScript, r *rand.Rand, withAudio ...bool) GenResult {
	var res GenResult
	audio := len(withAudio) > 0 && withAudio[0]
	installRecorder()
	g := "g-" + name
	desc := map[string]any{"users": map[string]any{"u": map[string]any{"password": "pw", "permissions": "present"}}}
	if cfg.Codec == vdown.VP9 {
		desc["codecs"] = []string{"vp9", "opus"}
	}
	srv.WriteGroup(g, desc)
	type member struct {
		c *vclient.Client
		p *vrtc.Peer
	}
	var members []member
	defer func() {
		for _, m := range members {
			m.p.Shutdown()
			m.c.Close()
		}
	}()
	dial := func(id string) (member, bool) {
		c, err := vclient.Dial(srv, id)
		if err != nil {
			return member{}, false
		}
		if m, ok := c.Join(g, "u", "pw"); !ok || m.Str("kind") != "join" {
			c.Close()
			return member{}, false
		}
		m := member{c, vrtc.NewPeer(c)}
		members = append(members, m)
		return m, true
	}
	pub, ok := dial("gpub-" + name)
	if !ok {
		res.Why = "publisher join failed"
		return res
	}
	var subs []member
	for _, sc := range scripts {
		m, ok := dial("gsub-" + sc.Name + "-" + name)
		if !ok {
			res.Why = "subscriber join failed"
			return res
		}
		m.c.Send(vclient.Msg{"type": "request", "request": map[string]any{"": []string{sc.Request}}})
		subs = append(subs, m)
		res.Subs = append(res.Subs, &GenSub{Script: sc, SwitchAcked: -1})
	}
	streamID := "gst-" + name
	specs := []vrtc.TrackSpec{{Kind: "video", ID: "v0", VP9: cfg.Codec == vdown.VP9}}
	if audio {
		// a microphone in the same stream (nobody requests it): the stream has two tracks, one video
		specs = append(specs, vrtc.TrackSpec{Kind: "audio", ID: "a0"})
	}
	up, err := pub.p.Publish(streamID, "camera", specs, "")
	if err != nil || up.Wait(20*time.Second) != "connected" {
		res.Why = "publisher did not connect"
		return res
	}
	tr := up.Track("v0")
	aseq, ats := uint16(r.UintN(65536)), uint32(r.Uint64())
	mic := func(i int) {
		if audio && i%20 == 0 {
			if at := up.Track("a0"); at != nil {
				at.Local.WriteRTP(vrtc.OpusPacket(aseq, ats, 0xFFFFFFFE))
				aseq++
				ats += 960
			}
		}
	}
	// Warm-up: the server offers a stream to subscribers only once media flows.  Until every
	// subscriber's down stream is connected, single-layer frames that are NOT keyframes are
	// sent (the first, key, picture of the warm-up stream is skipped): with no keyframe in
	// the cache the server replays nothing to a joining down track, so that every packet of
	// the real stream reaches every down track in order.  Numbers continue into the real stream.
	wcfg := *cfg
	wcfg.SLayers, wcfg.TPattern, wcfg.TMax, wcfg.KeyEvery, wcfg.KeyProb, wcfg.MaxPktsPerFrame, wcfg.Pictures = 1, []uint8{0}, 0, 0, 0, 1, 3000
	warm := vdown.Generate(&wcfg, r)
	connected := -1
	sent := 0
	for i, p := range warm {
		if p.Pic == 0 {
			continue
		}
		if connected < 0 && i%20 == 0 {
			all := true
			for _, m := range subs {
				if d := m.p.Down(streamID); d == nil || d.PC == nil || d.PC.ConnectionState().String() != "connected" {
					all = false
				}
			}
			if all {
				connected = i
			}
		}
		if connected >= 0 && i > connected+250 {
			break
		}
		// warm-up packets carry the id 0xFFFFFFFF so that they cannot be taken for real ones
		if parsed, err := vdown.Parse(cfg.Codec, p.Bytes); err == nil && len(parsed.Body) >= 5 {
			off := len(p.Bytes) - len(parsed.Body)
			copy(p.Bytes[off+1:off+5], []byte{0xff, 0xff, 0xff, 0xff})
		}
		var pkt rtp.Packet
		if err := pkt.Unmarshal(p.Bytes); err != nil {
			res.Why = "generator produced an unparsable packet"
			return res
		}
		pkt.Header.CSRC = nil
		tr.Local.WriteRTP(&pkt)
		mic(i)
		sent = i
		time.Sleep(time.Millisecond)
	}
	if connected < 0 {
		res.Why = "a subscriber's down stream did not connect"
		return res
	}
	last := warm[sent]
	cfg.StartSeq = last.Seqno() + 1
	cfg.StartPid = last.Pid + 1
	cfg.StartTS = wcfg.StartTS + uint32(last.Pic+1)*3000
	src := vdown.Generate(cfg, r)
	res.Src = src
	remb := func(m member, bps float32) {
		if d := m.p.Down(streamID); d != nil && d.PC != nil {
			for _, t := range d.Tracks() {
				d.PC.WriteRTCP([]rtcp.Packet{&rtcp.ReceiverEstimatedMaximumBitrate{Bitrate: bps, SSRCs: []uint32{uint32(t.Remote.SSRC())}}})
			}
		}
	}
	acked := make([]chan struct{}, len(subs))
	for i, p := range src {
		var pkt rtp.Packet
		if err := pkt.Unmarshal(p.Bytes); err != nil {
			res.Why = "generator produced an unparsable packet"
			return res
		}
		pkt.Header.CSRC = nil
		tr.Local.WriteRTP(&pkt)
		mic(i)
		for k, sub := range res.Subs {
			sc := sub.Script
			if sc.SwitchAt == i {
				subs[k].c.Send(vclient.Msg{"type": "request", "request": map[string]any{"": []string{sc.SwitchTo}}})
				ch := make(chan struct{})
				acked[k] = ch
				go func(c *vclient.Client) {
					defer close(ch)
					for n := 0; n < 50; n++ {
						if !c.Ping(10 * time.Second) {
							return
						}
					}
				}(subs[k].c)
			}
			if acked[k] != nil && sub.SwitchAcked < 0 {
				select {
				case <-acked[k]:
					sub.SwitchAcked = i
				default:
				}
			}
			for _, ph := range sc.Rembs {
				if i >= ph.From && i < ph.Until && (i-ph.From)%150 == 0 {
					remb(subs[k], ph.Bps)
				}
			}
		}
		time.Sleep(time.Millisecond)
	}
	time.Sleep(400 * time.Millisecond)
	for k, sub := range res.Subs {
		d := subs[k].p.Down(streamID)
		if d == nil {
			continue
		}
		for _, t := range d.Tracks() {
			for _, p := range t.Packets() {
				raw, err := p.Marshal()
				if err != nil {
					continue
				}
				parsed, err := vdown.Parse(cfg.Codec, raw)
				rx := GenRx{Idx: -1, Seq: p.SequenceNumber, Marker: p.Marker, TS: p.Timestamp, P: parsed}
				if err == nil && parsed != nil {
					rx.Idx = parsed.Idx
				}
				sub.SSRC = p.SSRC
				sub.Rx = append(sub.Rx, rx)
			}
		}
		sub.Withheld = map[int]bool{}
		withheldMu.Lock()
		for s := range withheld[sub.SSRC] {
			// source numbers are unique within a session shorter than 65536 packets
			sub.Withheld[int(uint16(s-cfg.StartSeq))] = true
		}
		withheldMu.Unlock()
	}
	res.OK = true
	_ = fmt.Sprint
	return res
}
