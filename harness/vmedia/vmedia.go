// Package vmedia runs one end-to-end media session against the real server in the
// current (child) process: a pion publisher sends an id-tagged VP8 stream with three
// temporal layers, subscriber A is there from the start, lowers the server's layer with
// REMB and sends NACKs, subscriber B joins late (the server replays the packets since the
// last keyframe to it concurrently with live forwarding).  It returns what each
// subscriber received so that the C01 / C03 / C04 oracles can judge it.
package vmedia

import (
	"bufio"
	"fmt"
	"math/rand/v2"
	"os"
	"strings"
	"sync"
	"time"

	"github.com/jech/galene/rtpconn"
	"github.com/pion/rtcp"
	"github.com/pion/rtp"
	pcodecs "github.com/pion/rtp/codecs"

	"verif/harness/vclient"
	"verif/harness/vrtc"
	"verif/harness/vsrv"
)

// Rx is one packet as a subscriber received it.
type Rx struct {
	SSRC   uint32
	ID     uint32
	Seq    uint16
	Marker bool
	TS     uint32
	Pid    uint16
	Tid    uint8
	Raw    string // payload bytes
	Order  int    // arrival order
}

type Result struct {
	OK        bool
	Why       string
	Sent      int      // number of source packets sent (ids 0..Sent-1, all sent in order)
	ExtPadded int      // how many of them carried both a header extension and padding
	SrcTid    []uint8  // tid of each source packet
	SrcStart  []bool   // frame start (all frames are single packets here)
	A, B      []Rx     // in arrival order, including retransmissions
	NACKed    []uint16 // outgoing numbers A asked for again
	RembAt    int      // id around which A sent the low REMB (-1 none)
	BJoinedAt int      // id around which B's request was sent
	UDPErrors int64    // movement of the kernel's UDP error counters during the session
	Start     uint16   // source sequence number of id 0
	PidStart  uint16   // picture id of id 0
}

// Source rebuilds the packet the publisher sent under id.
// ExtPadded tells whether source packet id was sent with both a header extension and padding.
func ExtPadded(id int) bool { return id%11 == 3 }

func (res Result) Source(id int) *rtp.Packet {
	key := id%40 == 0
	return vrtc.VP8Packet(res.Start+uint16(id), uint32(id)*3000, (res.PidStart+uint16(id))&0x7FFF, res.SrcTid[id], key, uint32(id), 20+id%50)
}

// The server's own account of what it deliberately withheld: every successful
// packetmap.Drop of a down track, keyed by the SSRC that down track sends with (trace
// point VerifTraceWithheld, build tag verif).  Ids a subscriber did not receive and that
// are not in this set were lost (in the kernel, in pion, or in the server's congested
// writer, which galene treats like network loss), not withheld.
var (
	withheldMu   sync.Mutex
	withheld     = map[uint32]map[uint16]bool{}
	withheldOnce sync.Once
)

func installRecorder() {
	withheldOnce.Do(func() {
		rtpconn.VerifSetTraceHook(func(ssrc uint32, kind int, a, b uint16) {
			if kind != rtpconn.VerifTraceWithheld {
				return
			}
			withheldMu.Lock()
			m := withheld[ssrc]
			if m == nil {
				m = map[uint16]bool{}
				withheld[ssrc] = m
			}
			m[a] = true
			withheldMu.Unlock()
		})
	})
}

// Withheld returns the ids (source sequence number minus res.Start) the server withheld
// from the down track sending with ssrc.
func (res Result) Withheld(ssrc uint32) map[int]bool {
	out := map[int]bool{}
	withheldMu.Lock()
	defer withheldMu.Unlock()
	for s := range withheld[ssrc] {
		out[int(s-res.Start)] = true
	}
	return out
}

func udpErrors() int64 {
	f, err := os.Open("/proc/net/snmp")
	if err != nil {
		return 0
	}
	defer f.Close()
	sc := bufio.NewScanner(f)
	var hdr []string
	for sc.Scan() {
		l := sc.Text()
		if !strings.HasPrefix(l, "Udp:") {
			continue
		}
		f := strings.Fields(l)
		if hdr == nil {
			hdr = f
			continue
		}
		var sum int64
		for i, h := range hdr {
			if h == "InErrors" || h == "RcvbufErrors" || h == "SndbufErrors" || h == "InCsumErrors" {
				var v int64
				fmt.Sscan(f[i], &v)
				sum += v
			}
		}
		return sum
	}
	return 0
}

func collect(d *vrtc.Down) []Rx {
	var out []Rx
	if d == nil {
		return nil
	}
	for _, t := range d.Tracks() {
		for k, p := range t.Packets() {
			out = append(out, toRx(p, k))
		}
	}
	return out
}

func toRx(p *rtp.Packet, order int) Rx {
	r := Rx{SSRC: p.SSRC, Seq: p.SequenceNumber, Marker: p.Marker, TS: p.Timestamp, Raw: string(p.Payload), Order: order}
	var v pcodecs.VP8Packet
	if _, err := v.Unmarshal(p.Payload); err == nil {
		r.Pid = v.PictureID
		r.Tid = v.TID
	}
	if id, ok := vrtc.IDOf("video", p.Payload); ok {
		r.ID = id
	}
	return r
}

// Run executes one session.  n = number of source packets (1 per millisecond).
func Run(srv *vsrv.Server, name string, n int, r *rand.Rand) Result {
	res := Result{RembAt: -1, BJoinedAt: -1}
	installRecorder()
	g := "m-" + name
	srv.WriteGroup(g, map[string]any{"users": map[string]any{"u": map[string]any{"password": "pw", "permissions": "present"}}})
	dial := func(id string) (*vclient.Client, *vrtc.Peer, bool) {
		c, err := vclient.Dial(srv, id)
		if err != nil {
			return nil, nil, false
		}
		if m, ok := c.Join(g, "u", "pw"); !ok || m.Str("kind") != "join" {
			c.Close()
			return nil, nil, false
		}
		return c, vrtc.NewPeer(c), true
	}
	pc, pub, ok := dial("pub-" + name)
	if !ok {
		res.Why = "publisher join failed"
		return res
	}
	defer func() { pub.Shutdown(); pc.Close() }()
	ac, subA, ok := dial("subA-" + name)
	if !ok {
		res.Why = "subscriber A join failed"
		return res
	}
	defer func() { subA.Shutdown(); ac.Close() }()
	ac.Send(vclient.Msg{"type": "request", "request": map[string]any{"": []string{"video"}}})
	streamID := "st-" + name
	up, err := pub.Publish(streamID, "camera", []vrtc.TrackSpec{{Kind: "video", ID: "v0"}}, "")
	if err != nil || up.Wait(20*time.Second) != "connected" {
		res.Why = "publisher did not connect"
		return res
	}
	tr := up.Track("v0")
	before := udpErrors()
	start := uint16(r.UintN(65536))
	if r.IntN(2) == 0 {
		start = uint16(65536 - 100 - r.IntN(n/2)) // wrap during the session
	}
	res.Start = start
	pidStart := uint16(r.UintN(32768))
	if r.IntN(2) == 0 {
		pidStart = uint16(32768 - 50 - r.IntN(n/2)) // picture id wraps during the session
	}
	res.PidStart = pidStart
	pattern := []uint8{0, 2, 1, 2}
	var bc *vclient.Client
	var subB *vrtc.Peer
	rembAt := n / 3
	bAt := n / 2
	nackAt := n * 3 / 4
	for i := 0; i < n; i++ {
		tid := pattern[i%4]
		key := i%40 == 0
		if key {
			tid = 0
		}
		res.SrcTid = append(res.SrcTid, tid)
		res.SrcStart = append(res.SrcStart, true)
		pkt := vrtc.VP8Packet(start+uint16(i), uint32(i)*3000, (pidStart+uint16(i))&0x7FFF, tid, key, uint32(i), 20+i%50)
		switch i % 11 {
		case 3:
			// a header extension and RTP padding on the way in (the server strips the former;
			// the payload a receiver sees is the same)
			pkt.Header.Extension, pkt.Header.ExtensionProfile = true, 0xBEDE
			pkt.Header.SetExtension(5, []byte{0xAA})
			pkt.Header.Padding, pkt.PaddingSize = true, byte(1+i%9)
			res.ExtPadded++
		case 7:
			pkt.Header.Extension, pkt.Header.ExtensionProfile = true, 0xBEDE
			pkt.Header.SetExtension(5, []byte{0xAA, 0xBB})
		case 9:
			pkt.Header.Padding, pkt.PaddingSize = true, byte(1+i%5)
		}
		tr.Local.WriteRTP(pkt)
		if i == rembAt {
			// a tiny REMB: the server must drop temporal layers for A (after its 1 s estimator interval)
			if d := subA.Down(streamID); d != nil && d.PC != nil {
				for _, t := range d.Tracks() {
					d.PC.WriteRTCP([]rtcp.Packet{&rtcp.ReceiverEstimatedMaximumBitrate{Bitrate: 20000, SSRCs: []uint32{uint32(t.Remote.SSRC())}}})
					res.RembAt = i
				}
			}
		}
		if i > rembAt && i < nackAt && i%200 == 0 {
			if d := subA.Down(streamID); d != nil && d.PC != nil {
				for _, t := range d.Tracks() {
					d.PC.WriteRTCP([]rtcp.Packet{&rtcp.ReceiverEstimatedMaximumBitrate{Bitrate: 20000, SSRCs: []uint32{uint32(t.Remote.SSRC())}}})
				}
			}
		}
		if i == bAt {
			var ok bool
			bc, subB, ok = dial("subB-" + name)
			if ok {
				bc.Send(vclient.Msg{"type": "request", "request": map[string]any{"": []string{"video"}}})
				res.BJoinedAt = i
			}
		}
		if i == nackAt {
			// ask again for a handful of numbers A has received, and a few it has not
			if d := subA.Down(streamID); d != nil && d.PC != nil {
				for _, t := range d.Tracks() {
					pk := t.Packets()
					if len(pk) < 50 {
						continue
					}
					var pairs []rtcp.NackPair
					for k := 0; k < 6; k++ {
						s := pk[len(pk)-2-r.IntN(40)].SequenceNumber
						pairs = append(pairs, rtcp.NackPair{PacketID: s})
						res.NACKed = append(res.NACKed, s)
					}
					d.PC.WriteRTCP([]rtcp.Packet{&rtcp.TransportLayerNack{MediaSSRC: uint32(t.Remote.SSRC()), Nacks: pairs}})
				}
			}
		}
		time.Sleep(time.Millisecond)
	}
	res.Sent = n
	time.Sleep(400 * time.Millisecond)
	res.UDPErrors = udpErrors() - before
	res.A = collect(subA.Down(streamID))
	if subB != nil {
		res.B = collect(subB.Down(streamID))
		subB.Shutdown()
		bc.Close()
	}
	res.OK = true
	return res
}
