// Package vrtc gives a vclient.Client real pion PeerConnections: publishing streams to
// galene and receiving the streams galene offers.  The pion API is built WITHOUT
// interceptors, so every RTCP packet is sent and seen by the harness itself (no NACK
// generator / responder, no automatic reports).
package vrtc

import (
	"errors"
	"fmt"
	"strings"
	"sync"
	"sync/atomic"
	"time"

	"github.com/pion/interceptor"
	"github.com/pion/rtcp"
	"github.com/pion/rtp"
	"github.com/pion/sdp/v3"
	"github.com/pion/webrtc/v4"

	"verif/harness/vclient"
)

func newAPI() *webrtc.API {
	m := &webrtc.MediaEngine{}
	videoFb := []webrtc.RTCPFeedback{{Type: "goog-remb"}, {Type: "nack"}, {Type: "nack", Parameter: "pli"}, {Type: "ccm", Parameter: "fir"}}
	m.RegisterCodec(webrtc.RTPCodecParameters{
		RTPCodecCapability: webrtc.RTPCodecCapability{MimeType: webrtc.MimeTypeVP8, ClockRate: 90000, RTCPFeedback: videoFb},
		PayloadType:        96,
	}, webrtc.RTPCodecTypeVideo)
	m.RegisterCodec(webrtc.RTPCodecParameters{
		RTPCodecCapability: webrtc.RTPCodecCapability{MimeType: webrtc.MimeTypeVP9, ClockRate: 90000, SDPFmtpLine: "profile-id=0", RTCPFeedback: videoFb},
		PayloadType:        98,
	}, webrtc.RTPCodecTypeVideo)
	m.RegisterCodec(webrtc.RTPCodecParameters{
		RTPCodecCapability: webrtc.RTPCodecCapability{MimeType: webrtc.MimeTypeOpus, ClockRate: 48000, Channels: 2, SDPFmtpLine: "minptime=10;useinbandfec=1"},
		PayloadType:        111,
	}, webrtc.RTPCodecTypeAudio)
	s := webrtc.SettingEngine{}
	s.SetICEMulticastDNSMode(0)         // disabled
	s.DisableSRTPReplayProtection(true) // retransmissions repeat a sequence number: the harness wants to see them
	return webrtc.NewAPI(webrtc.WithMediaEngine(m), webrtc.WithSettingEngine(s), webrtc.WithInterceptorRegistry(&interceptor.Registry{}))
}

// MLine is one media section of an offer as the subscriber sees it.
type MLine struct {
	Kind      string // audio | video
	Direction string // sendonly, recvonly, sendrecv, inactive
	StreamID  string // msid stream
	TrackID   string // msid track
	Mid       string
	Rejected  bool // port 0
}

// ParseMLines extracts the media sections of an SDP.
func ParseMLines(sdpText string) ([]MLine, error) {
	var d sdp.SessionDescription
	if err := d.Unmarshal([]byte(sdpText)); err != nil {
		return nil, err
	}
	var out []MLine
	for _, md := range d.MediaDescriptions {
		ml := MLine{Kind: md.MediaName.Media, Direction: "sendrecv", Rejected: md.MediaName.Port.Value == 0}
		for _, a := range md.Attributes {
			switch a.Key {
			case "sendonly", "recvonly", "sendrecv", "inactive":
				ml.Direction = a.Key
			case "msid":
				f := strings.Fields(a.Value)
				if len(f) > 0 {
					ml.StreamID = f[0]
				}
				if len(f) > 1 {
					ml.TrackID = f[1]
				}
			case "mid":
				ml.Mid = a.Value
			}
		}
		out = append(out, ml)
	}
	return out, nil
}

// Active returns the sections through which media is offered to the receiver.
func Active(ms []MLine) []MLine {
	var out []MLine
	for _, m := range ms {
		if !m.Rejected && (m.Direction == "sendonly" || m.Direction == "sendrecv") {
			out = append(out, m)
		}
	}
	return out
}

type TrackSpec struct {
	Kind string // audio | video
	ID   string // track id chosen by the publisher (reappears in the subscriber's msid)
	VP9  bool   // video only: publish as VP9 (profile 0) instead of VP8
}

type UpTrack struct {
	Spec   TrackSpec
	Local  *webrtc.TrackLocalStaticRTP
	Sender *webrtc.RTPSender

	mu   sync.Mutex
	rtcp []RTCPEvent
}

type RTCPEvent struct {
	Stamp int64
	P     rtcp.Packet
}

func (t *UpTrack) RTCP() []RTCPEvent {
	t.mu.Lock()
	defer t.mu.Unlock()
	return append([]RTCPEvent(nil), t.rtcp...)
}

func (t *UpTrack) readRTCP() {
	buf := make([]byte, 1500)
	for {
		n, _, err := t.Sender.Read(buf)
		if err != nil {
			return
		}
		ps, err := rtcp.Unmarshal(buf[:n])
		if err != nil {
			continue
		}
		st := vclient.Tick()
		t.mu.Lock()
		for _, p := range ps {
			t.rtcp = append(t.rtcp, RTCPEvent{st, p})
		}
		t.mu.Unlock()
	}
}

// Up is a stream published by this peer.
type Up struct {
	ID     string
	Label  string
	PC     *webrtc.PeerConnection
	Tracks []*UpTrack
	peer   *Peer

	mu        sync.Mutex
	answered  bool
	aborted   bool
	connected bool
	cond      *sync.Cond
}

// Down is a stream offered to this peer by the server.
type Down struct {
	ID       string
	Label    string
	Source   string
	Username string
	Replace  string
	PC       *webrtc.PeerConnection

	mu      sync.Mutex
	Offers  [][]MLine // one entry per offer received for this id
	Closed  bool
	tracks  []*DownTrack
	pending []webrtc.ICECandidateInit
}

type DownTrack struct {
	Remote *webrtc.TrackRemote
	mu     sync.Mutex
	pkts   []*rtp.Packet
}

func (t *DownTrack) Packets() []*rtp.Packet {
	t.mu.Lock()
	defer t.mu.Unlock()
	return append([]*rtp.Packet(nil), t.pkts...)
}

func (d *Down) Tracks() []*DownTrack {
	d.mu.Lock()
	defer d.mu.Unlock()
	return append([]*DownTrack(nil), d.tracks...)
}

func (d *Down) LastOffer() []MLine {
	d.mu.Lock()
	defer d.mu.Unlock()
	if len(d.Offers) == 0 {
		return nil
	}
	return d.Offers[len(d.Offers)-1]
}

// Peer attaches WebRTC behaviour to a signalling client.
type Peer struct {
	C      *vclient.Client
	api    *webrtc.API
	Answer bool // answer the server's offers (default true)

	holdOffers bool
	held       []vclient.Msg

	// AnswerDelay makes this peer a slow answerer: it waits that long before it answers an
	// offer (and handles nothing else meanwhile), so that the server's next push finds its
	// previous offer still outstanding.
	AnswerDelay time.Duration
	inHandle    atomic.Int32

	mu    sync.Mutex
	ups   map[string]*Up
	downs map[string]*Down
	// every signalling message relevant to streams, in arrival order
	log   []SigEvent
	queue chan vclient.Event
	done  chan struct{}
}

type SigEvent struct {
	Stamp int64
	Type  string // offer, close, abort, answer, renegotiate
	ID    string
	M     vclient.Msg
}

func NewPeer(c *vclient.Client) *Peer {
	p := &Peer{C: c, api: newAPI(), Answer: true, ups: map[string]*Up{}, downs: map[string]*Down{}, queue: make(chan vclient.Event, 4096), done: make(chan struct{})}
	c.OnMsg = func(e vclient.Event) {
		switch e.M.Str("type") {
		case "offer", "answer", "ice", "close", "abort", "renegotiate":
			select {
			case p.queue <- e:
			default:
			}
		}
	}
	go p.loop()
	return p
}

func (p *Peer) Sig() []SigEvent {
	p.mu.Lock()
	defer p.mu.Unlock()
	return append([]SigEvent(nil), p.log...)
}

func (p *Peer) Down(id string) *Down {
	p.mu.Lock()
	defer p.mu.Unlock()
	return p.downs[id]
}

func (p *Peer) Downs() map[string]*Down {
	p.mu.Lock()
	defer p.mu.Unlock()
	m := map[string]*Down{}
	for k, v := range p.downs {
		m[k] = v
	}
	return m
}

func (p *Peer) loop() {
	for {
		select {
		case e := <-p.queue:
			p.inHandle.Add(1)
			p.handle(e)
			p.inHandle.Add(-1)
		case <-p.done:
			return
		}
	}
}

func candidateOf(m vclient.Msg) (webrtc.ICECandidateInit, bool) {
	c, ok := m["candidate"].(map[string]any)
	if !ok {
		return webrtc.ICECandidateInit{}, false
	}
	var init webrtc.ICECandidateInit
	init.Candidate, _ = c["candidate"].(string)
	if s, ok := c["sdpMid"].(string); ok {
		init.SDPMid = &s
	}
	if f, ok := c["sdpMLineIndex"].(float64); ok {
		v := uint16(f)
		init.SDPMLineIndex = &v
	}
	if s, ok := c["usernameFragment"].(string); ok {
		init.UsernameFragment = &s
	}
	return init, true
}

func (p *Peer) handle(e vclient.Event) {
	m := e.M
	id := m.Str("id")
	typ := m.Str("type")
	if typ != "ice" {
		p.mu.Lock()
		p.log = append(p.log, SigEvent{e.Stamp, typ, id, m})
		p.mu.Unlock()
	}
	switch typ {
	case "answer":
		p.mu.Lock()
		up := p.ups[id]
		p.mu.Unlock()
		if up == nil {
			return
		}
		err := up.PC.SetRemoteDescription(webrtc.SessionDescription{Type: webrtc.SDPTypeAnswer, SDP: m.Str("sdp")})
		up.mu.Lock()
		up.answered = err == nil
		up.cond.Broadcast()
		up.mu.Unlock()
	case "abort":
		p.mu.Lock()
		up := p.ups[id]
		delete(p.ups, id)
		p.mu.Unlock()
		if up != nil {
			up.mu.Lock()
			up.aborted = true
			up.cond.Broadcast()
			up.mu.Unlock()
			up.PC.Close()
		}
	case "ice":
		init, ok := candidateOf(m)
		if !ok {
			return
		}
		p.mu.Lock()
		up := p.ups[id]
		down := p.downs[id]
		p.mu.Unlock()
		if up != nil {
			if up.PC.RemoteDescription() != nil {
				up.PC.AddICECandidate(init)
			}
		} else if down != nil {
			down.mu.Lock()
			if down.PC != nil && down.PC.RemoteDescription() != nil {
				down.PC.AddICECandidate(init)
			} else {
				down.pending = append(down.pending, init)
			}
			down.mu.Unlock()
		}
	case "offer":
		p.gotOffer(m)
	case "close":
		p.mu.Lock()
		down := p.downs[id]
		p.mu.Unlock()
		if down != nil {
			down.mu.Lock()
			down.Closed = true
			pc := down.PC
			down.mu.Unlock()
			if pc != nil {
				pc.Close()
			}
		}
	}
}

func (p *Peer) gotOffer(m vclient.Msg) {
	id := m.Str("id")
	mls, _ := ParseMLines(m.Str("sdp"))
	p.mu.Lock()
	down := p.downs[id]
	if down == nil || down.Closed {
		down = &Down{ID: id}
		p.downs[id] = down
	}
	// a replacement closes the old stream on the client side as well
	if r := m.Str("replace"); r != "" && r != id {
		if old := p.downs[r]; old != nil {
			old.mu.Lock()
			old.Closed = true
			opc := old.PC
			old.mu.Unlock()
			if opc != nil {
				opc.Close()
			}
		}
	}
	p.mu.Unlock()
	down.mu.Lock()
	down.Label, down.Source, down.Username, down.Replace = m.Str("label"), m.Str("source"), m.Str("username"), m.Str("replace")
	down.Offers = append(down.Offers, mls)
	down.mu.Unlock()
	if !p.Answer {
		return
	}
	down.mu.Lock()
	pc := down.PC
	down.mu.Unlock()
	if pc == nil {
		var err error
		pc, err = p.api.NewPeerConnection(webrtc.Configuration{})
		if err != nil {
			return
		}
		pc.OnTrack(func(tr *webrtc.TrackRemote, _ *webrtc.RTPReceiver) {
			dt := &DownTrack{Remote: tr}
			down.mu.Lock()
			down.tracks = append(down.tracks, dt)
			down.mu.Unlock()
			for {
				pkt, _, err := tr.ReadRTP()
				if err != nil {
					return
				}
				dt.mu.Lock()
				dt.pkts = append(dt.pkts, pkt)
				dt.mu.Unlock()
			}
		})
		down.mu.Lock()
		down.PC = pc
		down.mu.Unlock()
	}
	if err := pc.SetRemoteDescription(webrtc.SessionDescription{Type: webrtc.SDPTypeOffer, SDP: m.Str("sdp")}); err != nil {
		return
	}
	down.mu.Lock()
	pend := down.pending
	down.pending = nil
	down.mu.Unlock()
	for _, c := range pend {
		pc.AddICECandidate(c)
	}
	ans, err := pc.CreateAnswer(nil)
	if err != nil {
		return
	}
	gather := webrtc.GatheringCompletePromise(pc)
	if err := pc.SetLocalDescription(ans); err != nil {
		return
	}
	select {
	case <-gather:
	case <-time.After(10 * time.Second):
	}
	if p.AnswerDelay > 0 {
		time.Sleep(p.AnswerDelay)
	}
	p.C.Send(vclient.Msg{"type": "answer", "id": id, "sdp": pc.LocalDescription().SDP})
}

// Busy says whether the peer still has signalling messages to handle (or is handling one).
func (p *Peer) Busy() bool {
	return p.inHandle.Load() > 0 || len(p.queue) > 0
}

// OfferSDP builds a sendonly audio+video offer with all candidates gathered (for WHIP).
// The caller owns the returned PeerConnection.
func OfferSDP() (string, *webrtc.PeerConnection, error) {
	pc, err := newAPI().NewPeerConnection(webrtc.Configuration{})
	if err != nil {
		return "", nil, err
	}
	for _, k := range []struct {
		kind string
		cap  webrtc.RTPCodecCapability
	}{{"audio", webrtc.RTPCodecCapability{MimeType: webrtc.MimeTypeOpus, ClockRate: 48000, Channels: 2}}, {"video", webrtc.RTPCodecCapability{MimeType: webrtc.MimeTypeVP8, ClockRate: 90000}}} {
		local, err := webrtc.NewTrackLocalStaticRTP(k.cap, k.kind, "whip")
		if err != nil {
			pc.Close()
			return "", nil, err
		}
		if _, err := pc.AddTransceiverFromTrack(local, webrtc.RTPTransceiverInit{Direction: webrtc.RTPTransceiverDirectionSendonly}); err != nil {
			pc.Close()
			return "", nil, err
		}
	}
	offer, err := pc.CreateOffer(nil)
	if err != nil {
		pc.Close()
		return "", nil, err
	}
	gather := webrtc.GatheringCompletePromise(pc)
	if err := pc.SetLocalDescription(offer); err != nil {
		pc.Close()
		return "", nil, err
	}
	select {
	case <-gather:
	case <-time.After(10 * time.Second):
	}
	return pc.LocalDescription().SDP, pc, nil
}

// Publish creates a PeerConnection with the given tracks and sends the offer.
func (p *Peer) Publish(id, label string, tracks []TrackSpec, replace string) (*Up, error) {
	pc, err := p.api.NewPeerConnection(webrtc.Configuration{})
	if err != nil {
		return nil, err
	}
	up := &Up{ID: id, Label: label, PC: pc, peer: p}
	up.cond = sync.NewCond(&up.mu)
	for _, ts := range tracks {
		var cap webrtc.RTPCodecCapability
		if ts.Kind == "audio" {
			cap = webrtc.RTPCodecCapability{MimeType: webrtc.MimeTypeOpus, ClockRate: 48000, Channels: 2}
		} else {
			cap = webrtc.RTPCodecCapability{MimeType: webrtc.MimeTypeVP8, ClockRate: 90000}
			if ts.VP9 {
				cap = webrtc.RTPCodecCapability{MimeType: webrtc.MimeTypeVP9, ClockRate: 90000, SDPFmtpLine: "profile-id=0"}
			}
		}
		local, err := webrtc.NewTrackLocalStaticRTP(cap, ts.ID, "stream-"+id)
		if err != nil {
			pc.Close()
			return nil, err
		}
		tr, err := pc.AddTransceiverFromTrack(local, webrtc.RTPTransceiverInit{Direction: webrtc.RTPTransceiverDirectionSendonly})
		if err != nil {
			pc.Close()
			return nil, err
		}
		ut := &UpTrack{Spec: ts, Local: local, Sender: tr.Sender()}
		up.Tracks = append(up.Tracks, ut)
		go ut.readRTCP()
	}
	pc.OnConnectionStateChange(func(s webrtc.PeerConnectionState) {
		if s == webrtc.PeerConnectionStateConnected {
			up.mu.Lock()
			up.connected = true
			up.cond.Broadcast()
			up.mu.Unlock()
		}
	})
	offer, err := pc.CreateOffer(nil)
	if err != nil {
		pc.Close()
		return nil, err
	}
	gather := webrtc.GatheringCompletePromise(pc)
	if err := pc.SetLocalDescription(offer); err != nil {
		pc.Close()
		return nil, err
	}
	select {
	case <-gather:
	case <-time.After(10 * time.Second):
	}
	p.mu.Lock()
	p.ups[id] = up
	p.mu.Unlock()
	msg := vclient.Msg{"type": "offer", "id": id, "label": label, "source": p.C.ID, "sdp": pc.LocalDescription().SDP}
	if replace != "" {
		msg["replace"] = replace
	}
	if p.holdOffers {
		p.held = append(p.held, msg)
		return up, nil
	}
	if err := p.C.Send(msg); err != nil {
		return nil, err
	}
	return up, nil
}

// HoldOffers makes Publish prepare everything (PeerConnection, gathered offer) but keep the
// signalling message back; SendHeld then sends the messages back to back, so that they sit
// in the server's read queue together.
func (p *Peer) HoldOffers(on bool) { p.holdOffers = on }

func (p *Peer) SendHeld() error {
	h := p.held
	p.held = nil
	for _, m := range h {
		if err := p.C.Send(m); err != nil {
			return err
		}
	}
	return nil
}

// Wait blocks until the stream is answered+connected, aborted, or the watchdog fires.
// It returns "connected", "aborted" or "timeout".
func (u *Up) Wait(timeout time.Duration) string {
	timer := time.AfterFunc(timeout, func() {
		u.mu.Lock()
		u.cond.Broadcast()
		u.mu.Unlock()
	})
	defer timer.Stop()
	deadline := time.Now().Add(timeout)
	u.mu.Lock()
	defer u.mu.Unlock()
	for {
		if u.aborted {
			return "aborted"
		}
		if u.connected && u.answered {
			return "connected"
		}
		if !time.Now().Before(deadline) {
			return "timeout"
		}
		u.cond.Wait()
	}
}

func (u *Up) Aborted() bool {
	u.mu.Lock()
	defer u.mu.Unlock()
	return u.aborted
}

// Close closes the published stream (sends 'close').
func (u *Up) Close() {
	u.peer.C.Send(vclient.Msg{"type": "close", "id": u.ID})
	u.peer.mu.Lock()
	delete(u.peer.ups, u.ID)
	u.peer.mu.Unlock()
	u.PC.Close()
}

// Track returns the published track with the given id.
func (u *Up) Track(id string) *UpTrack {
	for _, t := range u.Tracks {
		if t.Spec.ID == id {
			return t
		}
	}
	return nil
}

// Shutdown closes every PeerConnection of the peer (no signalling).
func (p *Peer) Shutdown() {
	close(p.done)
	p.mu.Lock()
	defer p.mu.Unlock()
	for _, u := range p.ups {
		u.PC.Close()
	}
	for _, d := range p.downs {
		d.mu.Lock()
		if d.PC != nil {
			d.PC.Close()
		}
		d.mu.Unlock()
	}
}

// CloseAllDowns closes every down stream on the client side (what a client does when it
// leaves a group: the server drops its down connections without sending 'close').
func (p *Peer) CloseAllDowns() {
	p.mu.Lock()
	defer p.mu.Unlock()
	for _, d := range p.downs {
		d.mu.Lock()
		d.Closed = true
		pc := d.PC
		d.mu.Unlock()
		if pc != nil {
			pc.Close()
		}
	}
}

var ErrNoTrack = errors.New("no such track")

// Opus / VP8 packet builders with an embedded id ------------------------------------

// VP8Packet builds a one-packet VP8 frame: descriptor with 15-bit picture id and TID.
func VP8Packet(seq uint16, ts uint32, pid uint16, tid uint8, keyframe bool, id uint32, fill int) *rtp.Packet {
	desc := []byte{0x90, 0xA0, 0x80 | byte(pid>>8)&0x7F, byte(pid), tid<<6 | 0x20}
	hdr := byte(0x01)
	if keyframe {
		hdr = 0x00
	}
	payload := append(desc, hdr, byte(id>>24), byte(id>>16), byte(id>>8), byte(id), 0x9d, 0x01, 0x2a, 0x40, 0x01, 0xf0, 0x00)
	for i := 0; i < fill; i++ {
		payload = append(payload, byte(i*7+int(id)))
	}
	return &rtp.Packet{Header: rtp.Header{Version: 2, PayloadType: 96, SequenceNumber: seq, Timestamp: ts, Marker: true}, Payload: payload}
}

// OpusPacket builds an opaque audio packet carrying an id.
func OpusPacket(seq uint16, ts uint32, id uint32) *rtp.Packet {
	return &rtp.Packet{Header: rtp.Header{Version: 2, PayloadType: 111, SequenceNumber: seq, Timestamp: ts}, Payload: []byte{0xfc, byte(id >> 24), byte(id >> 16), byte(id >> 8), byte(id), 1, 2, 3}}
}

// IDOf extracts the embedded id of a packet built by VP8Packet (after the 5-byte descriptor
// and the header byte) or OpusPacket.
func IDOf(kind string, payload []byte) (uint32, bool) {
	off := 1
	if kind == "video" {
		off = 6
	}
	if len(payload) < off+4 {
		return 0, false
	}
	return uint32(payload[off])<<24 | uint32(payload[off+1])<<16 | uint32(payload[off+2])<<8 | uint32(payload[off+3]), true
}

func (t *UpTrack) String() string { return fmt.Sprintf("%s/%s", t.Spec.Kind, t.Spec.ID) }
