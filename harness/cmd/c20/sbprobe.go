package main

// probeBuilder is a line-by-line copy of the sample builder pinned by galene
// (github.com/jech/samplebuilder v0.0.0-20241027120643-76c654ae55e1,
// Copyright (c) 2021 by Juliusz Chroboczek, MIT licence), used for the
// ATTRIBUTION of failures only, never for a verdict.  With no repair enabled
// it behaves exactly like the pinned package (the harness checks this on every
// use by comparing its output with the pinned package's output on the same
// packets) and records when one of three defects is exercised:
//
//	A  ring-wrap-off-by-one: pop() computes the number of packets of a frame
//	   that wraps around the end of the ring with cap() instead of
//	   len(packets), releasing one packet too few: the sample lacks its last
//	   packet, which stays behind and blocks the builder for up to maxLate
//	   packets.
//	B  duplicate-of-newest-releases-all: Push() of a packet with the sequence
//	   number of the newest buffered packet takes the "packet in the future"
//	   branch with count 0xFFFF and releases the whole buffer.
//	C  h264-stap-a-split: a packet whose payload is a "partition head" (every
//	   single-NAL/STAP-A packet, every FU-A start) starts a new sample even
//	   when it continues the timestamp of an unfinished (no marker) sample.
//
// Each defect can be repaired separately (fixA, fixB, fixC); the repaired
// builder is the counterfactual "what would a correct builder have released".

import (
	"github.com/pion/rtp"
)

type probePacket struct {
	start, end bool
	packet     *rtp.Packet
}

type probeSample struct {
	data []byte
	ts   uint32
}

type probeBuilder struct {
	packets    []probePacket
	head, tail uint16

	maxLate      uint16
	depacketizer rtp.Depacketizer

	lastSeqnoValid bool
	lastSeqno      uint16

	lastTimestampValid bool
	lastTimestamp      uint32

	fixA, fixB, fixC    bool
	trigA, trigB, trigC int
}

func newProbeBuilder(maxLate uint16, depacketizer rtp.Depacketizer) *probeBuilder {
	if maxLate < 2 {
		maxLate = 2
	}
	if maxLate > 0x7FFF {
		maxLate = 0x7FFF
	}
	return &probeBuilder{
		packets:      make([]probePacket, 2*maxLate+1),
		maxLate:      maxLate,
		depacketizer: depacketizer,
	}
}

func (s *probeBuilder) Len() int {
	if s.tail <= s.head {
		return int(s.head - s.tail)
	}
	return int(s.head + uint16(len(s.packets)) - s.tail)
}

func (s *probeBuilder) cap() uint16 {
	return uint16(len(s.packets)) - 1
}

func (s *probeBuilder) inc(n uint16) uint16 {
	if n < uint16(len(s.packets))-1 {
		return n + 1
	}
	return 0
}

func (s *probeBuilder) dec(n uint16) uint16 {
	if n > 0 {
		return n - 1
	}
	return uint16(len(s.packets)) - 1
}

func (s *probeBuilder) isStart(p *rtp.Packet) bool {
	return s.depacketizer.IsPartitionHead(p.Payload)
}

func (s *probeBuilder) isEnd(p *rtp.Packet) bool {
	return s.depacketizer.IsPartitionTail(p.Marker, p.Payload)
}

func (s *probeBuilder) release() bool {
	if s.head == s.tail {
		return false
	}
	s.lastSeqnoValid = true
	s.lastSeqno = s.packets[s.tail].packet.SequenceNumber
	s.packets[s.tail] = probePacket{}
	s.tail = s.inc(s.tail)
	for s.tail != s.head && s.packets[s.tail].packet == nil {
		s.tail = s.inc(s.tail)
	}
	if s.tail == s.head {
		s.head = 0
		s.tail = 0
	}
	return true
}

func (s *probeBuilder) releaseAll() {
	for s.tail != s.head {
		s.release()
	}
}

func (s *probeBuilder) drop() (bool, uint32) {
	if s.tail == s.head {
		return false, 0
	}
	ts := s.packets[s.tail].packet.Timestamp
	s.release()
	for s.tail != s.head {
		if s.packets[s.tail].start ||
			s.packets[s.tail].packet.Timestamp != ts {
			break
		}
		s.release()
	}
	if !s.lastTimestampValid {
		s.lastTimestamp = ts
		s.lastTimestampValid = true
	}
	return true, ts
}

func (s *probeBuilder) Push(p *rtp.Packet) {
	if s.lastSeqnoValid {
		if (s.lastSeqno-p.SequenceNumber)&0x8000 == 0 {
			// late packet
			if s.lastSeqno-p.SequenceNumber > s.maxLate {
				s.lastSeqnoValid = false
			} else {
				return
			}
		} else {
			last := p.SequenceNumber - s.maxLate
			if (last-s.lastSeqno)&0x8000 == 0 {
				if s.head != s.tail {
					seqno := s.packets[s.tail].packet.SequenceNumber - 1
					if (last-seqno)&0x8000 == 0 {
						last = seqno
					}
				}
				s.lastSeqno = last
			}
		}
	}

	if s.head == s.tail {
		// empty
		s.packets[0] = probePacket{
			start:  s.isStart(p),
			end:    s.isEnd(p),
			packet: p,
		}
		s.tail = 0
		s.head = 1
		return
	}

	seqno := p.SequenceNumber
	ts := p.Timestamp
	last := s.dec(s.head)
	lastSeqno := s.packets[last].packet.SequenceNumber
	if seqno == lastSeqno+1 {
		// sequential
		if s.tail == s.inc(s.head) {
			s.drop()
		}
		start := false
		// drop may have dropped the whole buffer
		if s.tail != s.head {
			start = s.packets[last].end ||
				s.packets[last].packet.Timestamp != p.Timestamp
			if !start && s.isStart(p) {
				// defect C: a partition head continuing an unfinished sample
				s.trigC++
				if !s.fixC {
					start = true
				}
			}
			if start {
				s.packets[last].end = true
			}
		} else {
			start = s.isStart(p)
		}
		s.packets[s.head] = probePacket{
			start:  start,
			end:    s.isEnd(p),
			packet: p,
		}
		s.head = s.inc(s.head)
		return
	}

	if ((seqno - lastSeqno) & 0x8000) == 0 {
		// packet in the future
		if seqno == lastSeqno {
			// defect B: a duplicate of the newest packet is no future packet
			s.trigB++
			if s.fixB {
				return
			}
		}
		count := seqno - lastSeqno - 1
		if count >= s.cap() {
			s.releaseAll()
			s.Push(p)
			return
		}
		// make free space
		for uint16(s.Len())+count+1 >= s.cap() {
			dropped, _ := s.drop()
			if !dropped {
				// this shouldn't happen
				return
			}
		}
		index := (s.head + count) % uint16(len(s.packets))
		start := s.isStart(p)
		s.packets[index] = probePacket{
			start:  start,
			end:    s.isEnd(p),
			packet: p,
		}
		s.head = s.inc(index)
		return
	}

	// packet is in the past
	count := lastSeqno - seqno + 1
	if count >= s.cap() {
		// too old
		return
	}

	var index uint16
	if s.head >= count {
		index = s.head - count
	} else {
		index = s.head + uint16(len(s.packets)) - count
	}

	// extend if necessary
	if s.tail < s.head {
		// buffer is contigous
		if index < s.tail || index > s.head {
			s.tail = index
		}
	} else {
		// buffer is discontigous
		if index < s.tail && index > s.head {
			s.tail = index
		}
	}

	if s.packets[index].packet != nil {
		// duplicate packet
		return
	}

	// compute start and end flags, both for us and our neighbours
	start := s.isStart(p)
	if index != s.tail {
		prev := s.dec(index)
		if s.packets[prev].packet != nil {
			if start && s.packets[prev].packet.Timestamp == ts && !s.packets[prev].end {
				// defect C
				s.trigC++
				if s.fixC {
					start = false
				}
			}
			if s.packets[prev].packet.Timestamp != ts {
				start = true
			}
			if !start {
				start = s.packets[prev].end
			} else {
				s.packets[prev].end = true
			}
		}
	}
	end := s.isEnd(p)
	next := s.inc(index)
	if s.packets[next].packet != nil {
		if s.packets[next].packet.Timestamp != ts {
			end = true
		}
		if !end && s.packets[next].start {
			// same timestamp, no marker on p, yet the next packet claims to
			// start a sample: only because of its payload (defect C)
			s.trigC++
			if s.fixC {
				s.packets[next].start = false
			}
		}
		if !end {
			end = s.packets[next].start
		} else {
			s.packets[next].start = true
		}
	}

	// done!
	s.packets[index] = probePacket{
		start:  start,
		end:    end,
		packet: p,
	}
}

func (s *probeBuilder) pop(force bool) *probeSample {
again:
	if s.tail == s.head {
		return nil
	}

	if !s.packets[s.tail].start {
		diff := s.packets[s.dec(s.head)].packet.SequenceNumber -
			s.packets[s.tail].packet.SequenceNumber
		if force || diff > s.maxLate {
			s.drop()
			goto again
		}
		return nil
	}

	seqno := s.packets[s.tail].packet.SequenceNumber
	if !force && s.lastSeqnoValid && s.lastSeqno+1 != seqno {
		// packet loss before tail
		return nil
	}

	ts := s.packets[s.tail].packet.Timestamp
	last := s.tail
	for last != s.head && !s.packets[last].end {
		if s.packets[last].packet == nil {
			if force {
				s.drop()
				goto again
			}
			return nil
		}
		last = s.inc(last)
	}

	if last == s.head {
		return nil
	}

	var data []byte
	count := last - s.tail + 1
	if last < s.tail {
		// defect A: the ring has len(packets) = cap()+1 slots
		s.trigA++
		if s.fixA {
			count = uint16(len(s.packets)) + last - s.tail + 1
		} else {
			count = s.cap() + last - s.tail + 1
		}
	}
	for i := uint16(0); i < count; i++ {
		buf, err := s.depacketizer.Unmarshal(
			s.packets[s.tail].packet.Payload,
		)
		s.release()
		if err != nil {
			return nil
		}
		data = append(data, buf...)
	}

	s.lastTimestampValid = true
	s.lastTimestamp = ts

	return &probeSample{data: data, ts: ts}
}
