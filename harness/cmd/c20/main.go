// C20 - recordings contain exactly the frames that were sent, in order, intact.
//
// Monitor: the harness plays the publisher side of a connection (conn.Up,
// conn.UpTrack) towards the real diskwriter.Client.  It owns the ground truth
// (every frame of every track: index, RTP timestamp, capture instant, exact
// bytes - a keyed hash stream, so any sample identifies its frame), the
// delivery history (order, duplicates, which packets are withheld from Write
// and whether the "server cache" behind GetPacket has them) and the sender
// reports.  After publisher departure / Close it parses the produced
// .webm/.mkv with its own reader (verif/harness/vebml) and evaluates the
// clauses of the property over what it finds.  No hooks, public API only.
//
// judge() finds symptoms; attribute() (attribute.go) files each of them under
// exactly one ROOT-CAUSE key, independent of delivery class and symptom, and
// only when the cause is established with certainty for that very session
// (pinned sample builder run alone plus an instrumented, repairable copy of it
// in sbprobe.go; replay of the session without its sender reports); the rest is
// "unattributed:<symptom>:<delivery class>".  C20_DEBUG=<session> dumps one
// session, C20_DEBUG_REF=1 adds what the pinned builder released.
package main

import (
	"encoding/binary"
	"fmt"
	"math"
	"math/rand/v2"
	"os"
	"path/filepath"
	"runtime"
	"sort"
	"strings"
	"sync"
	"sync/atomic"
	"time"

	"github.com/pion/webrtc/v4"

	"github.com/jech/galene/conn"
	"github.com/jech/galene/diskwriter"
	"github.com/jech/galene/group"

	"verif/harness/vebml"
	"verif/harness/vk"
)

// ---------------------------------------------------------------------------
// parameters of one session

type params struct {
	Session   uint64 `json:"session"`
	Thorough  bool   `json:"thorough"`
	Video     string `json:"video"` // "", vp8, vp9, h264
	Audio     bool   `json:"audio"`
	NV        int    `json:"video_frames"`
	Fps       int    `json:"fps"`
	PPF       string `json:"packets_per_frame"` // s, m, l
	Class     string `json:"delivery"`
	SRV       string `json:"sr_video"` // before, after, never
	SRA       string `json:"sr_audio"`
	SeqWrapV  bool   `json:"seqno_wrap_video"`
	SeqWrapA  bool   `json:"seqno_wrap_audio"`
	TsWrapV   bool   `json:"ts_wrap_video"`
	TsWrapA   bool   `json:"ts_wrap_audio"`
	End       string `json:"end"` // departure, close
	FirstKF   int    `json:"first_keyframe"`
	KfEvery   int    `json:"keyframe_every"`
	Desc      int    `json:"vp8_descriptor"`
	Ext       bool   `json:"rtp_extension"`
	AOffMs    int    `json:"audio_offset_ms"`
	DelayA    int    `json:"audio_path_delay_ms"`
	DelayV    int    `json:"video_path_delay_ms"`
	H264Multi bool   `json:"h264_multi_nal_keyframes,omitempty"`
	VeryLong  bool   `json:"very_long_hold,omitempty"`
	// which tracks (v, a, av) start a little below 2^32, so that the timestamp
	// wraps after the track's sender report and before or at the first keyframe
	WrapAtStart string `json:"wrap_at_start,omitempty"`
	Early       bool   `json:"early_codec_session,omitempty"`
}

var classes = []string{"inorder", "reorder", "dup", "reorder-dup", "gap-cache", "gap-cache-reorder-dup", "gap-lost", "gap-mixed", "late-start"}

// Sessions of the "long-hold" delivery class live in an index space of their
// own (longHoldBase + k), so that a replay file's (session, thorough) pair
// still identifies a case and the other classes keep their indices.
const (
	longHoldBase = uint64(1) << 20
	veryLongOff  = uint64(1) << 16 // k >= veryLongOff: holds of more than a minute
	// the recorder's muxer (mkvcore's multi track block sorter) starts writing a
	// track's oldest blocks once it holds more than videoMaxLate+16 of them
	sorterWindow = 272
	// wrap-at-start sessions (wrapStartBase + k) and the H264/VP9 sessions that
	// every tier runs before anything else (earlyBase + k) have index spaces of
	// their own for the same reason
	wrapStartBase = uint64(1) << 21
	earlyBase     = uint64(1) << 22
)

// genLongHold: audio next to LOW RATE video (3-6 frames/s of 1-2 packets, 10-40
// s of media, nothing runs in real time), everything in order and nothing lost
// except one or two video packets in mid-stream that reach the recorder 30-200
// video packets late: inside the recorder's reorder window for video (256
// packets), but many seconds late, so that hundreds of audio packets are
// recorded while the sample builder holds the video back.  The essentials
// (codec, frame rate, sender report timing, end) are a function of k alone.
func genLongHold(r *rand.Rand, idx uint64, thorough bool) params {
	k := idx - longHoldBase
	p := params{Session: idx, Thorough: thorough, Class: "long-hold", Audio: true, Video: "vp8", PPF: "s"}
	if thorough {
		p.Video = []string{"vp8", "vp9", "vp8", "h264"}[(k/4)%4]
	}
	p.Fps = 3 + int(k%4)
	p.NV = 60 + r.IntN(61)
	if k >= veryLongOff {
		// one packet per frame at 3 frames/s: 185-200 packets are more than a
		// minute, see planLongHold
		p.VeryLong, p.Fps, p.PPF, p.NV = true, 3, "1", 330+r.IntN(31)
	}
	sr := [][2]string{{"before", "before"}, {"never", "never"}, {"before", "never"}, {"never", "before"}, {"after", "after"}, {"never", "after"}, {"after", "before"}}[k%7]
	p.SRV, p.SRA = sr[0], sr[1]
	p.End = []string{"departure", "close"}[(k/2)%2]
	p.SeqWrapV = r.IntN(100) < 35
	p.SeqWrapA = r.IntN(100) < 35
	p.TsWrapV = r.IntN(100) < 25
	p.TsWrapA = r.IntN(100) < 25
	p.FirstKF = r.IntN(3)
	if r.IntN(2) == 0 {
		p.KfEvery = 15 + r.IntN(46)
	}
	p.Desc = r.IntN(3)
	p.Ext = r.IntN(3) == 0
	p.AOffMs = -r.IntN(301)
	if p.SRA == "before" && p.SRV == "before" {
		p.AOffMs = r.IntN(601) - 300
	}
	if r.IntN(2) == 0 {
		d := []int{30, 80, 150}[r.IntN(3)]
		if r.IntN(2) == 0 {
			p.DelayA = d
		} else {
			p.DelayV = d
		}
	}
	return p
}

// wrapStartClasses: every other wrap-at-start session is delivered in order,
// the others go through the delivery classes one by one.
var wrapStartClasses = []string{"inorder", "reorder", "inorder", "dup", "inorder", "gap-cache", "inorder", "reorder-dup", "inorder", "gap-cache-reorder-dup", "inorder", "late-start", "inorder", "gap-lost", "inorder", "gap-mixed"}

// genWrapStart: audio next to video, one sender report per track, both received
// before the first packet of either track (the recorder knows the mapping to
// the sender's clock from the start, and no sender report can move an origin
// later on), and the timestamps of the video track, of the audio track or of
// both start a little below 2^32: the wrap falls after the track's sender
// report and before or at the packet that fixes its origin (buildVideo,
// buildAudio).  Which track wraps, the delivery class and the codec are a
// function of k alone.
func genWrapStart(r *rand.Rand, idx uint64, thorough bool) params {
	k := idx - wrapStartBase
	video := "vp8"
	if thorough {
		video = []string{"vp8", "vp9", "h264", "vp8", "vp9"}[(k/48)%5]
	}
	p := genRegular(r, idx, false, wrapStartClasses[k%uint64(len(wrapStartClasses))], video+"+a")
	p.Thorough = thorough
	p.WrapAtStart = []string{"v", "a", "av"}[k%3]
	p.SRV, p.SRA = "before", "before"
	p.TsWrapV, p.TsWrapA = false, false
	p.FirstKF = 0
	if r.IntN(2) == 0 {
		p.FirstKF = 1 + r.IntN(5)
	}
	// the recorder knows both clocks: audio may start before or after the video
	p.AOffMs = r.IntN(601) - 300
	return p
}

// genEarly: the H264 and VP9 sessions that every tier runs one after the other
// before any other session starts (what a recording leaves behind in the
// process is then seen by everything that follows).  Codec, audio and delivery
// class are a function of k alone.
func genEarly(r *rand.Rand, idx uint64, thorough bool) params {
	k := idx - earlyBase
	set := []string{"h264+a", "vp9+a", "h264", "h264+a", "vp9", "h264+a"}[k%6]
	class := []string{"inorder", "inorder", "gap-cache", "inorder", "gap-cache", "reorder-dup"}[k%6]
	p := genRegular(r, idx, false, class, set)
	p.Thorough = thorough
	p.Early = true
	if k%6 == 3 {
		p.H264Multi = true // keyframes as browsers send them: STAP-A{SPS,PPS} + IDR
	}
	return p
}

func genParams(r *rand.Rand, idx uint64, thorough bool) params {
	switch {
	case idx >= earlyBase:
		return genEarly(r, idx, thorough)
	case idx >= wrapStartBase:
		return genWrapStart(r, idx, thorough)
	case idx >= longHoldBase:
		return genLongHold(r, idx, thorough)
	}
	sets := []string{"vp8+a", "vp8+a", "vp8+a", "vp8", "a", "vp8+a", "vp8+a"}
	if thorough {
		sets = []string{"vp8+a", "vp8+a", "vp8+a", "vp8", "a", "vp8+a", "vp9+a", "h264+a", "vp9", "h264", "vp9+a"}
	}
	set := sets[(idx/uint64(len(classes)))%uint64(len(sets))]
	return genRegular(r, idx, thorough, classes[idx%uint64(len(classes))], set)
}

// genRegular draws everything but the delivery class and the codec set.
func genRegular(r *rand.Rand, idx uint64, thorough bool, class, set string) params {
	p := params{Session: idx, Thorough: thorough}
	p.Class = class
	p.Audio = strings.HasSuffix(set, "a")
	p.Video = strings.TrimSuffix(strings.TrimSuffix(set, "a"), "+")
	p.NV = 20 + r.IntN(41)
	if thorough && r.IntN(25) == 0 {
		p.NV = 300 + r.IntN(1200)
	}
	p.Fps = []int{15, 25, 30, 60}[r.IntN(4)]
	switch x := r.IntN(100); {
	case x < 30:
		p.PPF = "s"
	case x < 75:
		p.PPF = "m"
	default:
		p.PPF = "l"
	}
	if p.NV > 100 && p.PPF == "l" {
		p.PPF = "m"
	}
	sr := func() string {
		switch x := r.IntN(100); {
		case x < 35:
			return "before"
		case x < 75:
			return "after"
		default:
			return "never"
		}
	}
	p.SRV, p.SRA = sr(), sr()
	p.SeqWrapV = r.IntN(100) < 35
	p.SeqWrapA = r.IntN(100) < 35
	p.TsWrapV = r.IntN(100) < 25
	p.TsWrapA = r.IntN(100) < 25
	p.End = []string{"departure", "close"}[r.IntN(2)]
	if r.IntN(100) >= 60 {
		p.FirstKF = 1 + r.IntN(5)
	}
	if r.IntN(100) >= 30 {
		p.KfEvery = 5 + r.IntN(36)
	}
	if p.Class == "late-start" {
		p.KfEvery = 3 + r.IntN(8)
	}
	p.Desc = r.IntN(3)
	p.Ext = r.IntN(3) == 0
	p.AOffMs = -r.IntN(301)
	if p.SRA == "before" && p.SRV == "before" {
		// audio may also start after the video when the recorder knows the
		// mapping to the sender's clock from the start
		p.AOffMs = r.IntN(601) - 300
	}
	if r.IntN(2) == 0 {
		d := []int{30, 80, 150}[r.IntN(3)]
		if r.IntN(2) == 0 {
			p.DelayA = d
		} else {
			p.DelayV = d
		}
	}
	if p.Video == "h264" && r.IntN(8) == 0 {
		// STAP-A{SPS,PPS} + IDR keyframes.  Not where a packet can be missing
		// for good (gap-lost, gap-mixed, late-start): when the STAP-A is lost
		// the IDR's first packet is a partition head no RTP-level recorder can
		// tell from the start of a frame, so "complete frames only" and "no
		// frame lost" cannot both be met there.
		p.H264Multi = p.Class != "gap-lost" && p.Class != "gap-mixed" && p.Class != "late-start"
	}
	if p.Video == "" {
		p.SRV, p.SeqWrapV, p.TsWrapV, p.DelayV = "", false, false, 0
	}
	if !p.Audio {
		p.SRA, p.SeqWrapA, p.TsWrapA, p.DelayA, p.AOffMs = "", false, false, 0, 0
	}
	return p
}

func (p params) shape() string {
	sh := fmt.Sprintf("%s a%v %s srv=%s sra=%s sw%v%v tw%v%v ppf=%s", p.Video, p.Audio, p.Class, p.SRV, p.SRA, p.SeqWrapV, p.SeqWrapA, p.TsWrapV, p.TsWrapA, p.PPF)
	if p.WrapAtStart != "" {
		sh += " wrap-at-start=" + p.WrapAtStart
	}
	return sh
}

// ---------------------------------------------------------------------------
// ground truth

type frame struct {
	idx   int
	ts    uint32
	capMs float64 // capture instant on the publisher's single virtual clock
	key   bool
	data  []byte // the sample that must appear in the file, exactly
	p0    int    // index of its first packet in the track
	pn    int    // number of packets
	cuts  []int  // sample length after each packet but the last (VP8/VP9)
}

type packet struct {
	seq   uint16
	raw   []byte
	frame int
}

const (
	wNo     = 0
	wCached = 1 // withheld from Write, present in the server cache
	wLost   = 2 // withheld from Write, absent from the cache
)

type track struct {
	s      *session
	id     int // 0 audio, 1 video
	kind   webrtc.RTPCodecType
	codec  string // opus, vp8, vp9, h264
	mime   string
	clock  uint32
	ts0    uint32
	frames []frame
	pkts   []packet
	bySeq  map[uint16]int

	withheld []int8

	// observed while driving
	mu         sync.Mutex
	local      conn.DownTrack
	delivered  []bool  // written at least once
	firstPush  []int64 // global event number of the first time the recorder got the packet (-1 never)
	recovered  []bool  // served through GetPacket
	feed       []int   // packets handed to the recorder, in order (GetPacket results, then the written packet)
	getCalls   int
	getHits    int
	kfRequests int
	delLocal   int
	selfFetch  int // GetPacket asked for the very packet being written
	writing    int // packet index inside Write, -1 outside

	late       [][2]int // long-hold: (packet index, number of packets of this track it arrives late)
	maxDelay   float64  // max (arrival - capture) over delivery events, ms
	maxGapRun  int
	firstEvent int // packet index of the first delivery event
	srEvents   []int64
	srRTP      []uint32 // RTP timestamps of the sender reports, in order
	wrapAt     float64  // wrap-at-start: capture instant at which the timestamp wraps (0: not forced)
}

func (t *track) AddLocal(d conn.DownTrack) error {
	t.mu.Lock()
	t.local = d
	t.mu.Unlock()
	return nil
}
func (t *track) DelLocal(conn.DownTrack) bool {
	t.mu.Lock()
	t.delLocal++
	t.mu.Unlock()
	return true
}
func (t *track) Kind() webrtc.RTPCodecType { return t.kind }
func (t *track) Label() string             { return "" }
func (t *track) Codec() webrtc.RTPCodecCapability {
	ch := uint16(0)
	if t.codec == "opus" {
		ch = 2
	}
	return webrtc.RTPCodecCapability{MimeType: t.mime, ClockRate: t.clock, Channels: ch}
}
func (t *track) RequestKeyframe() error {
	t.mu.Lock()
	t.kfRequests++
	t.mu.Unlock()
	return nil
}

// GetPacket is the server's packet cache as the recorder sees it: a packet is
// there if the server already forwarded it, or if it was withheld from the
// recorder only (wCached).
func (t *track) GetPacket(seqno uint16, result []byte, nack bool) uint16 {
	t.mu.Lock()
	defer t.mu.Unlock()
	t.getCalls++
	pi, ok := t.bySeq[seqno]
	if !ok {
		return 0
	}
	if !(t.delivered[pi] || t.withheld[pi] == wCached) {
		return 0
	}
	raw := t.pkts[pi].raw
	if len(result) < len(raw) {
		return 0
	}
	n := copy(result, raw)
	t.getHits++
	if pi == t.writing {
		t.selfFetch++
	}
	t.recovered[pi] = true
	if t.firstPush[pi] < 0 {
		t.firstPush[pi] = t.s.evno
	}
	t.feed = append(t.feed, pi)
	return uint16(n)
}

type up struct {
	id    string
	added int
	del   int
}

func (u *up) AddLocal(conn.Down) error { u.added++; return nil }
func (u *up) DelLocal(conn.Down) bool  { u.del++; return true }
func (u *up) Id() string               { return u.id }
func (u *up) Label() string            { return "camera" }
func (u *up) User() (string, string)   { return "pub", "al/ice" }

func fillHash(buf []byte, a, b, c, d uint64) {
	x := (a+1)*0x9E3779B97F4A7C15 ^ (b+1)*0xBF58476D1CE4E5B9 ^ (c+1)*0x94D049BB133111EB ^ (d+1)*0xD6E8FEB86659FD93
	if x == 0 {
		x = 1
	}
	for i := range buf {
		x ^= x << 13
		x ^= x >> 7
		x ^= x << 17
		buf[i] = byte(x >> 32)
	}
}

func rtpHeader(pt uint8, marker bool, seq uint16, ts uint32, ssrc uint32, ext bool) []byte {
	h := make([]byte, 12, 24)
	h[0] = 0x80
	h[1] = pt
	if marker {
		h[1] |= 0x80
	}
	binary.BigEndian.PutUint16(h[2:], seq)
	binary.BigEndian.PutUint32(h[4:], ts)
	binary.BigEndian.PutUint32(h[8:], ssrc)
	if ext {
		h[0] |= 0x10
		// one-byte header extension, one element (id 3, 3 bytes: abs-send-time like)
		h = append(h, 0xBE, 0xDE, 0x00, 0x01, 0x32, byte(seq>>3), byte(seq), byte(ts>>8))
	}
	return h
}

// chunkSizes splits a frame into n packets of 1..1400 payload bytes.
func chunkSizes(r *rand.Rand, n int, firstMin int) []int {
	out := make([]int, n)
	mode := r.IntN(10)
	for i := range out {
		switch {
		case mode < 4:
			out[i] = 1 + r.IntN(1400)
		case mode < 8:
			if i < n-1 {
				out[i] = 1000 + r.IntN(401)
			} else {
				out[i] = 1 + r.IntN(1400)
			}
		default:
			out[i] = 1 + r.IntN(30)
		}
	}
	if out[0] < firstMin {
		out[0] = firstMin + r.IntN(20)
	}
	return out
}

func ppfCount(r *rand.Rand, class string, key bool) int {
	switch class {
	case "1":
		return 1
	case "s":
		return 1 + r.IntN(2)
	case "m":
		if key {
			return 2 + r.IntN(9)
		}
		return 1 + r.IntN(8)
	default:
		if key {
			return 8 + r.IntN(23)
		}
		if r.IntN(3) == 0 {
			return 1 + r.IntN(30)
		}
		return 1 + r.IntN(12)
	}
}

const captureBase = 10000.0 // ms; the virtual capture clock starts here

var ntpBase = uint64(3913056000) << 32 // 2024-01-01, far from any boundary

func ntpAt(capMs float64) uint64 {
	sec := math.Floor(capMs / 1000)
	frac := capMs/1000 - sec
	return ntpBase + uint64(sec)<<32 + uint64(frac*4294967296.0)
}

func (t *track) rtpAt(capMs float64) uint32 {
	return t.ts0 + uint32(int64(math.Round(capMs*float64(t.clock)/1000)))
}

func buildVideo(s *session, r *rand.Rand) *track {
	p := s.p
	t := &track{s: s, id: 1, kind: webrtc.RTPCodecTypeVideo, codec: p.Video, clock: 90000, bySeq: map[uint16]int{}}
	t.mime = map[string][]string{
		"vp8":  {"video/VP8", "video/vp8"},
		"vp9":  {"video/VP9", "video/vp9"},
		"h264": {"video/H264", "video/h264"},
	}[p.Video][r.IntN(2)]
	t.ts0 = r.Uint32()
	if p.TsWrapV {
		// the 32-bit timestamp wraps inside the session
		t.ts0 = uint32(0) - uint32(90*(captureBase+float64(r.IntN(p.NV*1000/p.Fps+1))))
	}
	seq := uint16(r.UintN(60000))
	interval := 1000.0 / float64(p.Fps)
	picID := uint16(r.UintN(1 << 15))
	tl0 := uint8(r.UintN(256))
	w, h := uint32(64*(1+r.IntN(20))), uint32(48*(1+r.IntN(20)))
	ssrc := r.Uint32()
	var capMs = captureBase
	type fr struct {
		key    bool
		chunks []int
		cap    float64
	}
	var plan []fr
	total := 0
	for i := 0; i < p.NV; i++ {
		key := i == p.FirstKF || (p.KfEvery > 0 && i > p.FirstKF && (i-p.FirstKF)%p.KfEvery == 0)
		n := ppfCount(r, p.PPF, key)
		firstMin := 1
		if key {
			firstMin = 10
		}
		if p.Video == "h264" {
			firstMin = 2
		}
		plan = append(plan, fr{key, chunkSizes(r, n, firstMin), capMs})
		total += n
		capMs += interval
		if r.IntN(20) == 0 {
			capMs += interval * float64(1+r.IntN(3)) // the encoder skipped frames
		}
	}
	if strings.Contains(p.WrapAtStart, "v") {
		// The timestamp wraps at or shortly before the first keyframe: exactly
		// there (the keyframe's timestamp is 0..89), between the first frame and
		// the first keyframe, or up to 50 ms before the first packet.  The
		// track's sender report precedes the wrap (buildSession).
		kfCap := plan[p.FirstKF].cap
		back := int64(r.IntN(90))
		switch lead := kfCap - plan[0].cap; r.IntN(3) {
		case 1:
			back += int64(90 * lead * r.Float64())
		case 2:
			back += int64(90 * (lead + 1 + float64(r.IntN(50))))
		}
		t.ts0 = uint32(back) - uint32(int64(math.Round(kfCap*90)))
		t.wrapAt = kfCap - float64(back)/90
	}
	if p.SeqWrapV {
		seq = uint16(65536 - 1 - r.IntN(total))
	}
	for i, f := range plan {
		size := 0
		for _, c := range f.chunks {
			size += c
		}
		fm := frame{idx: i, capMs: f.cap, key: f.key, p0: len(t.pkts), pn: len(f.chunks)}
		if p.Video != "h264" {
			sum := 0
			for _, c := range f.chunks[:len(f.chunks)-1] {
				sum += c
				fm.cuts = append(fm.cuts, sum)
			}
		}
		fm.ts = t.rtpAt(f.cap)
		body := make([]byte, size)
		fillHash(body, s.p.Session, 1, uint64(i), uint64(size))
		switch p.Video {
		case "vp8":
			if f.key {
				body[0] &^= 1
				body[3], body[4], body[5] = 0x9d, 0x01, 0x2a
				body[6], body[7] = byte(w), byte(w>>8)&0x3f
				body[8], body[9] = byte(h), byte(h>>8)&0x3f
			} else {
				body[0] |= 1
			}
			fm.data = body
			off := 0
			for k, c := range f.chunks {
				var d []byte
				sbit := byte(0)
				if k == 0 {
					sbit = 0x10
				}
				switch p.Desc {
				case 0:
					d = []byte{sbit}
				case 1:
					d = []byte{0x80 | sbit, 0x80, 0x80 | byte(picID>>8), byte(picID)}
				default:
					d = []byte{0x80 | sbit, 0xE0, 0x80 | byte(picID>>8), byte(picID), tl0, byte(i%3) << 6}
				}
				raw := rtpHeader(96, k == len(f.chunks)-1, seq, fm.ts, ssrc, p.Ext)
				raw = append(raw, d...)
				raw = append(raw, body[off:off+c]...)
				off += c
				t.bySeq[seq] = len(t.pkts)
				t.pkts = append(t.pkts, packet{seq: seq, raw: raw, frame: i})
				seq++
			}
			picID = (picID + 1) & 0x7fff
			tl0++
		case "vp9":
			if f.key {
				body[0] = 0x82
			} else {
				body[0] = 0x86
			}
			fm.data = body
			off := 0
			for k, c := range f.chunks {
				d0 := byte(0x80) // I
				if !f.key {
					d0 |= 0x40 // P
				}
				if k == 0 {
					d0 |= 0x08 // B
				}
				if k == len(f.chunks)-1 {
					d0 |= 0x04 // E
				}
				ss := f.key && k == 0 && p.Desc != 0
				if ss {
					d0 |= 0x02 // V
				}
				d := []byte{d0, 0x80 | byte(picID>>8), byte(picID)}
				if ss {
					d = append(d, 0x10, byte(w>>8), byte(w), byte(h>>8), byte(h))
				}
				raw := rtpHeader(98, k == len(f.chunks)-1, seq, fm.ts, ssrc, p.Ext)
				raw = append(raw, d...)
				raw = append(raw, body[off:off+c]...)
				off += c
				t.bySeq[seq] = len(t.pkts)
				t.pkts = append(t.pkts, packet{seq: seq, raw: raw, frame: i})
				seq++
			}
			picID = (picID + 1) & 0x7fff
		case "h264":
			// one NAL unit per frame (SPS type 7 stands for a keyframe, as the
			// recorder's keyframe test looks at the first NAL only); single NAL
			// packet or FU-A fragments.  The sample is the Annex-B byte stream.
			if p.H264Multi && f.key {
				// realistic keyframe: STAP-A{SPS,PPS} then the IDR slice (FU-A or single)
				sps := make([]byte, 8+r.IntN(20))
				pps := make([]byte, 4+r.IntN(6))
				fillHash(sps, s.p.Session, 3, uint64(i), 1)
				fillHash(pps, s.p.Session, 3, uint64(i), 2)
				sps[0], pps[0] = 0x67, 0x68
				body[0] = 0x65
				var sample []byte
				for _, nal := range [][]byte{sps, pps, body} {
					sample = append(sample, 0, 0, 0, 1)
					sample = append(sample, nal...)
				}
				fm.data = sample
				stap := []byte{0x78, byte(len(sps) >> 8), byte(len(sps))}
				stap = append(stap, sps...)
				stap = append(stap, byte(len(pps)>>8), byte(len(pps)))
				stap = append(stap, pps...)
				raw := rtpHeader(102, false, seq, fm.ts, ssrc, p.Ext)
				raw = append(raw, stap...)
				t.bySeq[seq] = len(t.pkts)
				t.pkts = append(t.pkts, packet{seq: seq, raw: raw, frame: i})
				seq++
				fm.pn++
			} else {
				if f.key {
					body[0] = 0x67
				} else {
					body[0] = 0x41
				}
				fm.data = append([]byte{0, 0, 0, 1}, body...)
			}
			if len(f.chunks) == 1 {
				raw := rtpHeader(102, true, seq, fm.ts, ssrc, p.Ext)
				raw = append(raw, body...)
				t.bySeq[seq] = len(t.pkts)
				t.pkts = append(t.pkts, packet{seq: seq, raw: raw, frame: i})
				seq++
			} else {
				// FU-A: the NAL header byte is carried in the FU indicator/header,
				// the fragments carry body[1:]; give the first fragment the slack.
				rest := body[1:]
				n := len(f.chunks)
				sizes := make([]int, n)
				left := len(rest)
				for k := 0; k < n; k++ {
					c := f.chunks[k]
					if k == 0 {
						c--
					}
					if c < 1 {
						c = 1
					}
					if k == n-1 {
						c = left
					}
					if c > left-(n-1-k) {
						c = left - (n - 1 - k)
					}
					sizes[k] = c
					left -= c
				}
				off := 0
				for k := 0; k < n; k++ {
					fu := []byte{body[0]&0x60 | 28, body[0] & 0x1f}
					if k == 0 {
						fu[1] |= 0x80
					}
					if k == n-1 {
						fu[1] |= 0x40
					}
					raw := rtpHeader(102, k == n-1, seq, fm.ts, ssrc, p.Ext)
					raw = append(raw, fu...)
					raw = append(raw, rest[off:off+sizes[k]]...)
					off += sizes[k]
					t.bySeq[seq] = len(t.pkts)
					t.pkts = append(t.pkts, packet{seq: seq, raw: raw, frame: i})
					seq++
				}
			}
		}
		t.frames = append(t.frames, fm)
	}
	return t
}

func buildAudio(s *session, r *rand.Rand, fromMs, toMs float64) *track {
	p := s.p
	t := &track{s: s, id: 0, kind: webrtc.RTPCodecTypeAudio, codec: "opus", clock: 48000, bySeq: map[uint16]int{}}
	t.mime = []string{"audio/opus", "audio/OPUS"}[r.IntN(2)]
	n := int((toMs-fromMs)/20) + 1
	if n < 5 {
		n = 5
	}
	t.ts0 = r.Uint32()
	if p.TsWrapA {
		t.ts0 = uint32(0) - uint32(48*(fromMs+float64(20*r.IntN(n))))
	}
	if strings.Contains(p.WrapAtStart, "a") {
		// The audio timestamp wraps up to 50 ms before the first audio packet,
		// exactly at it (its timestamp is 0..47), or between it and the oldest
		// audio packet that can still reach the recorder after the first
		// keyframe's first packet (the audio origin is fixed by an audio packet
		// that arrives after the video's: path delays and 400 ms of reordering
		// at most, see planTrack): in any case after the track's sender report
		// (buildSession) and before the audio packet that fixes the origin.
		back := int64(r.IntN(48))
		switch r.IntN(3) {
		case 1:
			hi := s.video.frames[p.FirstKF].capMs + float64(p.DelayV-p.DelayA) - 420
			if hi > fromMs {
				back -= int64(48 * (hi - fromMs) * r.Float64())
			}
		case 2:
			back += int64(48 * (1 + r.IntN(50)))
		}
		t.ts0 = uint32(back) - uint32(int64(math.Round(fromMs*48)))
		t.wrapAt = fromMs - float64(back)/48
	}
	seq := uint16(r.UintN(60000))
	if p.SeqWrapA {
		seq = uint16(65536 - 1 - r.IntN(n))
	}
	ssrc := r.Uint32()
	for i := 0; i < n; i++ {
		size := 1 + r.IntN(400)
		if r.IntN(20) == 0 {
			size = 1 + r.IntN(1400)
		}
		if r.IntN(30) == 0 {
			size = 1 + r.IntN(3) // DTX-like
		}
		capMs := fromMs + 20*float64(i)
		body := make([]byte, size)
		fillHash(body, s.p.Session, 0, uint64(i), uint64(size))
		fm := frame{idx: i, capMs: capMs, key: true, data: body, p0: i, pn: 1, ts: t.rtpAt(capMs)}
		raw := rtpHeader(111, false, seq, fm.ts, ssrc, p.Ext)
		raw = append(raw, body...)
		t.bySeq[seq] = len(t.pkts)
		t.pkts = append(t.pkts, packet{seq: seq, raw: raw, frame: i})
		seq++
		t.frames = append(t.frames, fm)
	}
	return t
}

// ---------------------------------------------------------------------------
// delivery history

type event struct {
	arr float64 // virtual arrival instant, ms
	trk int
	pkt int // -1: sender report
	ord int
	dup bool
}

// planTrack decides, for one track, which packets are withheld and in which
// order (and how often) the others reach the recorder.
func planTrack(t *track, r *rand.Rand, class string, delay float64) []event {
	n := len(t.pkts)
	t.withheld = make([]int8, n)
	audio := t.codec == "opus"
	reorder := strings.Contains(class, "reorder") || class == "gap-mixed"
	dups := strings.Contains(class, "dup") || class == "gap-mixed"
	gapCache := strings.HasPrefix(class, "gap-cache") || class == "gap-mixed"
	gapLost := class == "gap-lost" || class == "gap-mixed"
	start := 0
	if class == "late-start" {
		// the recorder's first packet is not the first packet of the stream;
		// what precedes it is lost or comes late
		maxStart := 20
		if audio {
			maxStart = 8 // stays inside the audio reorder window together with the displacement
		}
		start = 1 + r.IntN(min(maxStart, n/3))
		reorder = r.IntN(2) == 0
	}
	maxRun := 35
	if audio {
		maxRun = 4
	}
	if gapCache || gapLost {
		runs := 1 + r.IntN(4) + n/150
		for k := 0; k < runs; k++ {
			l := 1 + r.IntN(3)
			if r.IntN(3) == 0 {
				l = 1 + r.IntN(maxRun)
			}
			at := 1 + r.IntN(max(1, n-2))
			kind := int8(wCached)
			if gapLost && (!gapCache || r.IntN(2) == 0) {
				kind = wLost
			}
			for j := at; j < at+l && j < n-1; j++ {
				t.withheld[j] = kind
			}
		}
		if gapLost {
			// make sure something really is unrecoverable
			any := false
			for _, w := range t.withheld {
				any = any || w == wLost
			}
			if !any {
				t.withheld[1+r.IntN(max(1, n-2))] = wLost
			}
		}
	}
	if class == "late-start" {
		for j := 0; j < start; j++ {
			tooOld := t.frames[t.pkts[start].frame].capMs-t.frames[t.pkts[j].frame].capMs > 300
			if tooOld || r.IntN(5) != 0 {
				t.withheld[j] = wLost
			}
		}
	}
	run := 0
	for _, w := range t.withheld {
		if w != wNo {
			run++
			if run > t.maxGapRun {
				t.maxGapRun = run
			}
		} else {
			run = 0
		}
	}
	// slots: every non-withheld packet, in sending order, at its capture instant
	var seq []int
	for i := 0; i < n; i++ {
		if t.withheld[i] == wNo {
			seq = append(seq, i)
		}
	}
	slot := func(q int) float64 {
		if q >= len(seq) {
			q = len(seq) - 1
		}
		pi := seq[q]
		f := t.frames[t.pkts[pi].frame]
		return f.capMs + delay + 0.001*float64(pi-f.p0)
	}
	rho := 0.0
	if reorder {
		rho = []float64{0.02, 0.1, 0.3}[r.IntN(3)]
	}
	maxDisp := 10
	if audio {
		maxDisp = 6
	}
	// a packet is never more than maxLateMs late: the recorder takes a sample
	// that is 2^16 ticks (0.73 s of video) older than its origin for a
	// timestamp wrap, which no real network delay within the window produces
	const maxLateMs = 400.0
	later := func(pos, d int) float64 {
		for ; d > 0; d-- {
			if a := slot(pos + d); a-slot(pos) <= maxLateMs {
				return a
			}
		}
		return slot(pos)
	}
	var evs []event
	for pos, pi := range seq {
		arr := slot(pos)
		if class == "late-start" && pi < start {
			// arrives after the packet the recorder sees first
			arr = later(pos, start-pi+r.IntN(maxDisp)) + 0.0003
		} else if rho > 0 && r.Float64() < rho {
			arr = later(pos, 1+r.IntN(maxDisp)) + 0.0005
		}
		evs = append(evs, event{arr: arr, trk: t.id, pkt: pi, ord: len(evs)})
		if dups && r.IntN(12) == 0 {
			k := 1 + r.IntN(3)
			for ; k > 0; k-- {
				evs = append(evs, event{arr: slot(pos+r.IntN(maxDisp)) + 0.0007, trk: t.id, pkt: pi, ord: len(evs), dup: true})
			}
		}
	}
	// a packet the recorder had to fetch may also arrive late by itself
	if gapCache && dups {
		for pi, w := range t.withheld {
			if w == wCached && r.IntN(4) == 0 {
				q := sort.SearchInts(seq, pi)
				evs = append(evs, event{arr: slot(q+1+r.IntN(maxDisp)) + 0.0009, trk: t.id, pkt: pi, ord: len(evs), dup: true})
			}
		}
	}
	sort.SliceStable(evs, func(i, j int) bool {
		if evs[i].arr != evs[j].arr {
			return evs[i].arr < evs[j].arr
		}
		return evs[i].ord < evs[j].ord
	})
	hi := -1
	for _, e := range evs {
		d := e.arr - t.frames[t.pkts[e.pkt].frame].capMs
		if d > t.maxDelay {
			t.maxDelay = d
		}
		// a cached packet reaches the recorder when a later one shows the gap
		for pi := hi + 1; pi < e.pkt; pi++ {
			if t.withheld[pi] == wCached {
				if d := e.arr - t.frames[t.pkts[pi].frame].capMs; d > t.maxDelay {
					t.maxDelay = d
				}
			}
		}
		if e.pkt > hi {
			hi = e.pkt
		}
	}
	t.firstEvent = evs[0].pkt
	return evs
}

// planLongHold delivers the video track of a long-hold session: every packet
// at its capture instant (+ path delay), in order, nothing withheld, except one
// or two victims that arrive right after the packet sent 30..200 packets after
// them.  A victim lies at least three frames behind the first keyframe (the
// file exists, the origin is fixed) and is never the first packet of a frame
// of several packets (see the assumption about K1 in main).
func planLongHold(t *track, r *rand.Rand, delay float64) []event {
	n := len(t.pkts)
	t.withheld = make([]int8, n)
	arr := make([]float64, n)
	for pi := range t.pkts {
		f := &t.frames[t.pkts[pi].frame]
		arr[pi] = f.capMs + delay + 0.001*float64(pi-f.p0)
	}
	firstKf := 0
	for i := range t.frames {
		if t.frames[i].key {
			firstKf = i
			break
		}
	}
	pmin := t.frames[min(firstKf+3, len(t.frames)-1)].p0
	eligible := func(pi int) bool {
		f := &t.frames[t.pkts[pi].frame]
		return pi >= pmin && (f.pn == 1 || pi > f.p0)
	}
	pick := func(l int, not int) int {
		var cands []int
		for pi := pmin; pi+l <= n-1; pi++ {
			if eligible(pi) && pi != not {
				cands = append(cands, pi)
			}
		}
		if len(cands) == 0 {
			return -1
		}
		return cands[r.IntN(len(cands))]
	}
	room := n - 1 - pmin // the largest lateness that still ends on a packet of the session
	// first victim: held for 6.5 .. 22 s of media where the session has room
	pps := float64(n) / math.Max(1, (t.frames[len(t.frames)-1].capMs-t.frames[0].capMs)/1000)
	l1 := int(math.Ceil((6.5 + 15.5*r.Float64()) * pps))
	l1 = max(30, min(l1, 200, room))
	late := map[int]int{}
	v1 := pick(l1, -1)
	if t.s.p.VeryLong {
		// a packet sent 18-30 s into the stream arrives 185-200 packets (more
		// than a minute) later
		l1 = 185 + r.IntN(16)
		var cands []int
		for pi := pmin; pi+l1 <= n-1; pi++ {
			if c := t.frames[t.pkts[pi].frame].capMs - captureBase; eligible(pi) && c >= 18000 && c < 30000 {
				cands = append(cands, pi)
			}
		}
		v1 = cands[r.IntN(len(cands))]
	}
	if v1 >= 0 {
		late[v1] = l1
	}
	if !t.s.p.VeryLong && r.IntN(2) == 0 {
		// second victim: any lateness in the window, anywhere (the two holds may
		// be nested, overlap or be apart)
		l2 := 30 + r.IntN(171)
		l2 = max(30, min(l2, room))
		if v2 := pick(l2, v1); v2 >= 0 {
			late[v2] = l2
		}
	}
	var evs []event
	for pi := 0; pi < n; pi++ {
		a := arr[pi]
		if l, ok := late[pi]; ok {
			a = arr[min(pi+l, n-1)] + 0.0005
			t.late = append(t.late, [2]int{pi, l})
		}
		evs = append(evs, event{arr: a, trk: t.id, pkt: pi, ord: len(evs)})
	}
	sort.SliceStable(evs, func(i, j int) bool {
		if evs[i].arr != evs[j].arr {
			return evs[i].arr < evs[j].arr
		}
		return evs[i].ord < evs[j].ord
	})
	// The late packets do not enter the arrival skew allowed between the
	// tracks' origins: both origins are fixed around the first keyframe, long
	// before a victim is due.
	t.maxDelay = delay + 0.002
	t.firstEvent = evs[0].pkt
	return evs
}

// addSR inserts sender reports for one track into its event list.
func addSR(t *track, evs []event, r *rand.Rand, when string) []event {
	switch when {
	case "before":
		evs = append(evs, event{arr: evs[0].arr - 5 - float64(r.IntN(2000)), trk: t.id, pkt: -1})
	case "after":
		l := len(evs)
		n := 1 + r.IntN(max(1, min(l/2, 200)))
		every := 40 + r.IntN(400)
		for k := n; k < l; k += every {
			evs = append(evs, event{arr: evs[k].arr + 0.0001, trk: t.id, pkt: -1})
		}
	}
	if when == "before" && r.IntN(2) == 0 {
		every := 40 + r.IntN(400)
		l := len(evs) - 1
		for k := every; k < l; k += every {
			evs = append(evs, event{arr: evs[k].arr + 0.0001, trk: t.id, pkt: -1})
		}
	}
	return evs
}

// ---------------------------------------------------------------------------
// one session

type session struct {
	p      params
	run    *vk.Run
	group  string
	dir    string
	tracks []*track // audio first if present
	audio  *track
	video  *track
	events []event
	evno   int64 // number of the event being delivered
	noSR   bool  // replay without sender reports
	wallMs float64
	// index of the first session of this process that left a Matroska (.mkv)
	// recording behind, as known when this session began (-1: none yet)
	afterMkv int64

	files   []string
	endErr  error
	openFds []string
	summary map[string]any
}

func buildSession(run *vk.Run, p params, noSR bool) *session {
	s := &session{p: p, run: run, noSR: noSR}
	r := run.Rand(2, p.Session)
	var from, to float64 = captureBase, captureBase + 2000
	if p.Video != "" {
		s.video = buildVideo(s, r)
		from = s.video.frames[0].capMs
		to = s.video.frames[len(s.video.frames)-1].capMs + 100
	}
	if p.Audio {
		s.audio = buildAudio(s, r, from+float64(p.AOffMs), to)
		s.tracks = append(s.tracks, s.audio)
	}
	if s.video != nil {
		s.tracks = append(s.tracks, s.video)
	}
	var all []event
	for _, t := range s.tracks {
		delay, when := float64(p.DelayA), p.SRA
		if t.id == 1 {
			delay, when = float64(p.DelayV), p.SRV
		}
		var evs []event
		if p.Class == "long-hold" && t.id == 1 {
			evs = planLongHold(t, r, delay)
		} else {
			evs = planTrack(t, r, p.Class, delay)
		}
		if p.WrapAtStart == "" {
			evs = addSR(t, evs, r, when)
		}
		all = append(all, evs...)
		t.delivered = make([]bool, len(t.pkts))
		t.writing = -1
		t.recovered = make([]bool, len(t.pkts))
		t.firstPush = make([]int64, len(t.pkts))
		for i := range t.firstPush {
			t.firstPush[i] = -1
		}
	}
	if p.WrapAtStart != "" {
		// one sender report per track, both before the first packet of either
		// track reaches the recorder and (the report describes an instant 3 ms
		// before it is received, see drive) before the forced timestamp wraps
		first := math.Inf(1)
		for _, e := range all {
			first = math.Min(first, e.arr)
		}
		for _, t := range s.tracks {
			if t.wrapAt > 0 {
				first = math.Min(first, t.wrapAt)
			}
		}
		for _, t := range s.tracks {
			all = append(all, event{arr: first - 5 - float64(r.IntN(2000)), trk: t.id, pkt: -1})
		}
	}
	if noSR {
		// the same session without its sender reports (attribution only)
		kept := all[:0]
		for _, e := range all {
			if e.pkt >= 0 {
				kept = append(kept, e)
			}
		}
		all = kept
	}
	for i := range all {
		all[i].ord = i
	}
	sort.SliceStable(all, func(i, j int) bool {
		if all[i].arr != all[j].arr {
			return all[i].arr < all[j].arr
		}
		return all[i].ord < all[j].ord
	})
	s.events = all
	return s
}

func (s *session) trackById(id int) *track {
	if id == 0 {
		return s.audio
	}
	return s.video
}

// drive plays the session against the real recorder.
func (s *session) drive() error {
	s.afterMkv = firstMkv.Load()
	s.group = fmt.Sprintf("s%06d", s.p.Session)
	if s.noSR {
		s.group += "n"
	}
	s.dir = filepath.Join(diskwriter.Directory, s.group)
	g, err := group.Add(s.group, &group.Description{})
	if err != nil {
		return fmt.Errorf("group.Add: %v", err)
	}
	defer group.Delete(s.group)
	client, err := diskwriter.New(g)
	if err != nil {
		return fmt.Errorf("diskwriter.New: %v", err)
	}
	u := &up{id: "c-" + s.group}
	var ts []conn.UpTrack
	for _, t := range s.tracks {
		ts = append(ts, t)
	}
	if len(ts) == 2 && s.p.Session%2 == 1 {
		ts[0], ts[1] = ts[1], ts[0]
	}
	if err := client.PushConn(g, u.id, u, ts, ""); err != nil {
		return fmt.Errorf("PushConn: %v", err)
	}
	for _, t := range s.tracks {
		if t.local == nil {
			return fmt.Errorf("recorder did not attach to track %s", t.codec)
		}
	}
	t0 := time.Now()
	scratch := make([]byte, 1504)
	for i, e := range s.events {
		s.evno = int64(i)
		t := s.trackById(e.trk)
		if e.pkt < 0 {
			// sender report: an (NTP, RTP) pair for an instant shortly before now
			at := e.arr - 3
			t.local.SetTimeOffset(ntpAt(at), t.rtpAt(at))
			t.srEvents = append(t.srEvents, int64(i))
			t.srRTP = append(t.srRTP, t.rtpAt(at))
			continue
		}
		raw := t.pkts[e.pkt].raw
		// the server stores a packet in its cache before forwarding it
		t.mu.Lock()
		t.delivered[e.pkt] = true
		t.writing = e.pkt
		t.mu.Unlock()
		// like the server's writer loop, hand over a buffer that is reused
		// for the next packet
		buf := scratch[:len(raw)]
		copy(buf, raw)
		n, err := t.local.Write(buf)
		for i := range buf {
			buf[i] = 0xA5
		}
		t.mu.Lock()
		t.writing = -1
		if t.firstPush[e.pkt] < 0 {
			t.firstPush[e.pkt] = int64(i)
		}
		t.feed = append(t.feed, e.pkt)
		t.mu.Unlock()
		if err != nil || n != len(raw) {
			return fmt.Errorf("Write returned (%d, %v) for a %d byte packet", n, err, len(raw))
		}
	}
	s.wallMs = float64(time.Since(t0)) / float64(time.Millisecond)
	s.evno = int64(len(s.events))
	if s.p.End == "departure" {
		s.endErr = client.PushConn(g, u.id, nil, nil, "")
	} else {
		s.endErr = client.Close()
	}
	// what the recorder left behind, right after the call returned
	ents, _ := os.ReadDir(s.dir)
	for _, e := range ents {
		if !e.IsDir() {
			s.files = append(s.files, filepath.Join(s.dir, e.Name()))
		}
	}
	sort.Strings(s.files)
	s.openFds = openFilesUnder(s.dir)
	if s.p.End == "departure" {
		client.Close()
	}
	return nil
}

// openFilesUnder lists regular files below dir that this process still holds open.
func openFilesUnder(dir string) []string {
	ents, err := os.ReadDir("/proc/self/fd")
	if err != nil {
		return nil
	}
	var out []string
	for _, e := range ents {
		l, err := os.Readlink("/proc/self/fd/" + e.Name())
		if err != nil {
			continue
		}
		if strings.HasPrefix(l, dir+"/") {
			out = append(out, l)
		}
	}
	return out
}

// ---------------------------------------------------------------------------
// oracle

type sample struct {
	data []byte
	tc   int64
	file int
	pos  int
	ts   uint32 // reference run only
	ctc  int64  // timecode of the cluster holding the block, ms (file only)
}

type issue struct {
	clause string // frame-corrupt, recovered-frame-padded, frame-duplicated, frame-out-of-order, frame-missing, not-flushed, timecode-decreases
	frame  int
	what   string
	sig    string // for comparison with the reference run
}

type match struct {
	frame int // -1 if the sample is no frame of the track
	tc    int64
	file  int
}

func lcp(a, b []byte) int {
	n := min(len(a), len(b))
	for i := 0; i < n; i++ {
		if a[i] != b[i] {
			return i
		}
	}
	return n
}

func lcs(a, b []byte) int {
	n := min(len(a), len(b))
	for i := 0; i < n; i++ {
		if a[len(a)-1-i] != b[len(b)-1-i] {
			return i
		}
	}
	return n
}

func allZero(b []byte) bool {
	for _, c := range b {
		if c != 0 {
			return false
		}
	}
	return true
}

// hasRecovered tells whether a packet of the frame was served through GetPacket.
func (t *track) hasRecovered(f *frame) (bool, int) {
	for k := f.p0; k < f.p0+f.pn; k++ {
		if t.recovered[k] {
			return true, k - f.p0
		}
	}
	return false, 0
}

// longestZeroRun: ground-truth frames are hash streams, a long run of zero
// bytes in a sample is padding.
func longestZeroRun(d []byte) int {
	best, cur := 0, 0
	for _, c := range d {
		if c <= 1 { // 0x01: the start codes a depacketiser makes out of zero-length NAL units
			cur++
			if cur > best {
				best = cur
			}
		} else {
			cur = 0
		}
	}
	return best
}

// describeInexact explains a sample that equals no frame.
func (t *track) describeInexact(d []byte, after int) (clause string, fi int, what string) {
	clause, fi, what = t.describeInexact1(d, after)
	if clause == "frame-corrupt" && t.getHits > 0 {
		if z := longestZeroRun(d); z >= 64 {
			return "recovered-frame-padded", -1, fmt.Sprintf("%s; it contains a run of %d zero (or empty-NAL start code) bytes, which no frame sent contains, and %d packets of this track were withheld from Write and served by GetPacket", what, z, t.getHits)
		}
	}
	return
}

func (t *track) describeInexact1(d []byte, after int) (clause string, fi int, what string) {
	best, bestL := -1, 0
	for i := range t.frames {
		l := lcp(d, t.frames[i].data)
		if l > bestL || (l == bestL && l > 0 && best < after && i >= after) {
			best, bestL = i, l
		}
	}
	if bestL < len(d) && len(d) >= 8 {
		// the end of a frame without its beginning (H264: the Annex-B start
		// code of a NAL unit inside the frame)
		for i := range t.frames {
			if fd := t.frames[i].data; len(fd) > len(d) && lcs(d, fd) == len(d) {
				return "frame-truncated", i, fmt.Sprintf("only the last %d of the %d bytes of frame %d (%d packets) were written", len(d), len(fd), i, t.frames[i].pn)
			}
		}
	}
	if best < 0 {
		// maybe it is the tail of a frame
		for i := range t.frames {
			if l := lcs(d, t.frames[i].data); l > bestL {
				best, bestL = i, l
			}
		}
		if best < 0 {
			return "frame-corrupt", -1, fmt.Sprintf("a %d byte sample that shares no prefix or suffix with any frame sent", len(d))
		}
		f := &t.frames[best]
		return "frame-corrupt", best, fmt.Sprintf("a %d byte sample that only shares its last %d bytes with frame %d (%d bytes, %d packets)", len(d), bestL, best, len(f.data), f.pn)
	}
	f := &t.frames[best]
	if len(d) > len(f.data) {
		p := lcp(d, f.data)
		sfx := len(f.data) - p
		if lcs(d, f.data) >= sfx && allZero(d[p:len(d)-sfx]) {
			rec, k := t.hasRecovered(f)
			if rec {
				return "recovered-frame-padded", best, fmt.Sprintf("frame %d was sent as %d bytes in %d packets and written as %d bytes: %d zero bytes inserted at offset %d; packet %d of the frame (seqno %d, %d bytes on the wire) was withheld from Write and served by GetPacket", best, len(f.data), f.pn, len(d), len(d)-len(f.data), p, k, t.pkts[f.p0+k].seq, len(t.pkts[f.p0+k].raw))
			}
			return "frame-padded", best, fmt.Sprintf("frame %d was sent as %d bytes and written as %d bytes: %d zero bytes inserted at offset %d", best, len(f.data), len(d), len(d)-len(f.data), p)
		}
		if rec, k := t.hasRecovered(f); rec && longestZeroRun(d) >= 64 {
			// several recovered packets, several runs of padding
			return "recovered-frame-padded", best, fmt.Sprintf("frame %d was sent as %d bytes in %d packets and written as %d bytes (first difference at offset %d, a run of %d zero bytes inside); packet %d of the frame (seqno %d) was withheld from Write and served by GetPacket", best, len(f.data), f.pn, len(d), p, longestZeroRun(d), k, t.pkts[f.p0+k].seq)
		}
		return "frame-corrupt", best, fmt.Sprintf("a %d byte sample starting like frame %d (%d bytes, %d packets) for %d bytes", len(d), best, len(f.data), f.pn, p)
	}
	if bestL == len(d) {
		return "frame-truncated", best, fmt.Sprintf("only the first %d of the %d bytes of frame %d (%d packets) were written", len(d), len(f.data), best, f.pn)
	}
	return "frame-corrupt", best, fmt.Sprintf("a %d byte sample that equals frame %d (%d bytes, %d packets) only for its first %d bytes", len(d), best, len(f.data), f.pn, bestL)
}

// checkSamples evaluates the per-track clauses over a sequence of samples
// (from the file, or from the reference sample builder).
func (t *track) checkSamples(ss []sample, required []bool, withTc bool) ([]issue, []match) {
	var issues []issue
	byData := map[string][]int{}
	for i := range t.frames {
		k := string(t.frames[i].data)
		byData[k] = append(byData[k], i)
	}
	seen := make([]bool, len(t.frames))
	matches := make([]match, len(ss))
	last := -1
	lastFile := -1
	var lastTc int64
	haveTc := false
	for si, s := range ss {
		if s.file != lastFile {
			// frame order and timecodes are per file
			lastFile = s.file
			last = -1
			haveTc = false
		}
		matches[si] = match{frame: -1, tc: s.tc, file: s.file}
		cands := byData[string(s.data)]
		if len(cands) == 0 {
			clause, fi, what := t.describeInexact(s.data, last+1)
			issues = append(issues, issue{clause: clause, frame: fi, what: what, sig: "x:" + sig(s.data)})
			if fi >= 0 && clause != "frame-corrupt" && !seen[fi] {
				// a damaged copy of frame fi: report the damage, not also its absence
				seen[fi] = true
				if fi > last {
					last = fi
				}
			}
		} else {
			fi := -1
			for _, c := range cands {
				if c > last && !seen[c] {
					fi = c
					break
				}
			}
			if fi > last+1 && len(s.data) < 16 {
				// a very short sample may equal a far-away tiny frame by accident
				// while really being the beginning of a nearer one
				for j := last + 1; j < fi; j++ {
					atCut := false
					for _, c := range t.frames[j].cuts {
						atCut = atCut || c == len(s.data)
					}
					if fd := t.frames[j].data; atCut && len(fd) > len(s.data) && string(fd[:len(s.data)]) == string(s.data) {
						issues = append(issues, issue{clause: "frame-truncated", frame: j, what: fmt.Sprintf("only the first %d of the %d bytes of frame %d (%d packets) were written", len(s.data), len(fd), j, t.frames[j].pn), sig: "x:" + sig(s.data)})
						fi = -2
						seen[j] = true
						last = j
						break
					}
				}
			}
			if fi == -2 {
				// reported above
			} else if fi < 0 {
				// not a later frame: a duplicate or an inversion
				dup := -1
				for _, c := range cands {
					if seen[c] {
						dup = c
					}
				}
				if dup >= 0 && allSeen(seen, cands) {
					issues = append(issues, issue{clause: "frame-duplicated", frame: dup, what: fmt.Sprintf("frame %d (%d bytes) is in the recording twice", dup, len(s.data)), sig: fmt.Sprintf("d:%d", dup)})
					matches[si].frame = dup
				} else {
					for _, c := range cands {
						if !seen[c] {
							fi = c
							break
						}
					}
					issues = append(issues, issue{clause: "frame-out-of-order", frame: fi, what: fmt.Sprintf("frame %d is written after frame %d", fi, last), sig: fmt.Sprintf("o:%d", fi)})
					seen[fi] = true
					matches[si].frame = fi
				}
			} else {
				seen[fi] = true
				last = fi
				matches[si].frame = fi
			}
		}
		if withTc {
			if haveTc && s.tc < lastTc {
				issues = append(issues, issue{clause: "timecode-decreases", frame: matches[si].frame, what: fmt.Sprintf("timecode goes from %d ms back to %d ms at frame %d", lastTc, s.tc, matches[si].frame), sig: "t"})
			}
			lastTc, haveTc = s.tc, true
		}
	}
	if required != nil {
		// frames that must be there
		lastReq := -1
		for i, rq := range required {
			if rq {
				lastReq = i
			}
		}
		for i, rq := range required {
			if rq && !seen[i] {
				// a missing suffix is a flush failure, a hole is a lost frame
				suffix := true
				for j := i; j <= lastReq; j++ {
					if required[j] && seen[j] {
						suffix = false
						break
					}
				}
				clause := "frame-missing"
				if suffix {
					clause = "not-flushed"
				}
				issues = append(issues, issue{clause: clause, frame: i, what: fmt.Sprintf("frame %d (%d bytes, %d packets, all of them delivered or in the cache) is not in the recording", i, len(t.frames[i].data), t.frames[i].pn), sig: fmt.Sprintf("m:%d", i)})
			}
		}
	}
	return issues, matches
}

// originMoved returns by how many ms the offset between file time and capture
// time varies among the exact blocks of a track (0 when the origin is fixed).
func originMoved(t *track, ms []match) float64 {
	var lo, hi float64
	n := 0
	for _, m := range ms {
		if m.frame < 0 {
			continue
		}
		off := float64(m.tc) - t.frames[m.frame].capMs
		if n == 0 || off < lo {
			lo = off
		}
		if n == 0 || off > hi {
			hi = off
		}
		n++
	}
	return hi - lo
}

func allSeen(seen []bool, c []int) bool {
	for _, i := range c {
		if !seen[i] {
			return false
		}
	}
	return true
}

func sig(d []byte) string {
	h := uint64(1469598103934665603)
	for _, c := range d {
		h ^= uint64(c)
		h *= 1099511628211
	}
	return fmt.Sprintf("%d:%x", len(d), h)
}

// availability of packets and frames, from the delivery history alone
func (t *track) available(pi int) bool {
	if t.delivered[pi] {
		return true
	}
	// a cached packet is recoverable once a later packet shows the gap; the
	// recorder cannot know about packets before the first one it saw
	return t.withheld[pi] == wCached && pi > t.firstEvent
}

func (t *track) complete(f *frame) bool {
	for k := f.p0; k < f.p0+f.pn; k++ {
		if !t.available(k) {
			return false
		}
	}
	return true
}

func (s *session) replay() map[string]any {
	m := map[string]any{"session": s.p.Session, "thorough": s.p.Thorough, "params": s.p, "delivery": s.summary}
	if s.afterMkv >= 0 && uint64(s.afterMkv) != s.p.Session {
		// what an earlier recording left behind in the process may matter: a
		// replay runs that session first
		m["after_h264_session"] = s.afterMkv
	}
	return m
}

// firstMkv: the first session of this process whose recording came out as a
// well-formed Matroska (.mkv) file with at least one block (-1: none so far).
var firstMkv atomic.Int64

func init() { firstMkv.Store(-1) }

// Violations are collected and reported after all sessions ran, simplest
// delivery history first, so that the witness printed (and the replay file
// written) for a key is the smallest one found, independent of scheduling.
type pendingViolation struct {
	key, what string
	replay    any
	rank      [3]int
}

var (
	pendingMu sync.Mutex
	pending   []pendingViolation
)

var classRank = map[string]int{"inorder": 0, "gap-cache": 1, "gap-lost": 2, "dup": 3, "reorder": 4, "late-start": 5, "reorder-dup": 6, "gap-cache-reorder-dup": 7, "gap-mixed": 8, "long-hold": 9}

func (s *session) violation(key, what string) {
	v := pendingViolation{
		key:    key,
		what:   fmt.Sprintf("session %d (%s%s, %s, end=%s): %s", s.p.Session, s.p.Video, map[bool]string{true: "+opus", false: ""}[s.p.Audio], s.p.Class, s.p.End, what),
		replay: s.replay(),
		rank:   [3]int{classRank[s.p.Class], len(s.events), int(s.p.Session)},
	}
	pendingMu.Lock()
	pending = append(pending, v)
	pendingMu.Unlock()
}

func reportViolations(run *vk.Run) {
	pendingMu.Lock()
	defer pendingMu.Unlock()
	sort.SliceStable(pending, func(i, j int) bool {
		a, b := pending[i].rank, pending[j].rank
		for k := range a {
			if a[k] != b[k] {
				return a[k] < b[k]
			}
		}
		return false
	})
	for _, v := range pending {
		run.Violation(v.key, v.what, v.replay)
	}
	pending = nil
}

func (s *session) summarise() {
	sum := map[string]any{"events": len(s.events), "wall_ms": s.wallMs}
	for _, t := range s.tracks {
		cached, lost, dups, late := 0, 0, 0, 0
		for _, w := range t.withheld {
			if w == wCached {
				cached++
			} else if w == wLost {
				lost++
			}
		}
		hi := -1
		var firstWithheld []int
		for _, e := range s.events {
			if e.trk != t.id || e.pkt < 0 {
				continue
			}
			if e.dup {
				dups++
			}
			if e.pkt < hi {
				late++
			} else {
				hi = e.pkt
			}
		}
		for i, w := range t.withheld {
			if w != wNo && len(firstWithheld) < 12 {
				firstWithheld = append(firstWithheld, i)
			}
		}
		rec := 0
		for _, b := range t.recovered {
			if b {
				rec++
			}
		}
		sum[t.codec] = map[string]any{
			"frames": len(t.frames), "packets": len(t.pkts), "first_seqno": t.pkts[0].seq, "first_ts": t.frames[0].ts,
			"withheld_cached": cached, "withheld_lost": lost, "duplicates": dups, "late_arrivals": late,
			"first_withheld_packets": firstWithheld, "first_delivered_packet": t.firstEvent,
			"getpacket_calls": t.getCalls, "recovered": rec, "sender_reports": len(t.srEvents), "keyframe_requests": t.kfRequests,
		}
		if len(t.late) > 0 {
			sum[t.codec].(map[string]any)["late_packets_and_lateness"] = t.late
		}
	}
	s.summary = sum
}

// judge evaluates the clauses of the property over what the recorder left
// behind and returns the symptoms found; it decides no keys (see attribute).
// Counters are only touched for the primary run of a session.
func (s *session) judge(primary bool) *verdict {
	run := s.run
	p := s.p
	v := &verdict{s: s, per: map[int][]sample{}, matches: map[int][]match{}, required: map[int][]bool{}, containerOK: true}
	count := func(k string, n int64) {
		if primary {
			run.Count(k, n)
		}
	}
	s.summarise()
	if s.endErr != nil {
		v.add("end-call-failed", -1, -1, fmt.Sprintf("the closing call returned %v", s.endErr), "")
	}

	// ---- what must be in the recording, from the delivery history alone
	type expect struct {
		required []bool
		lossy    bool
		anchor   int
	}
	exp := map[int]*expect{}
	for _, t := range s.tracks {
		e := &expect{required: make([]bool, len(t.frames)), anchor: -1}
		lastLost := -1
		for pi := range t.pkts {
			if !t.available(pi) {
				e.lossy = true
				lastLost = pi
			}
		}
		if t.id == 1 {
			for i := range t.frames {
				f := &t.frames[i]
				if f.key && f.p0 >= t.firstEvent && t.complete(f) {
					e.anchor = i
					break
				}
			}
			// The completeness clause is conditional: "when every packet reaches the recorder
			// or can be recovered from the cache ... no frame after the first keyframe is
			// missing".  A track that has lost a packet for good does not meet the condition
			// (the recorder may sacrifice complete frames behind a hole it cannot know to be
			// permanent: thorough seed 8, session 3698), so nothing is REQUIRED of it; what it
			// does record is still judged by every other clause.
			if e.anchor >= 0 && !e.lossy {
				for i := e.anchor; i < len(t.frames); i++ {
					f := &t.frames[i]
					if t.complete(f) && f.p0 > lastLost {
						e.required[i] = true
					}
				}
				// the first complete keyframe itself: the recorder has all of it
				if !e.lossy {
					e.required[e.anchor] = true
				}
			}
		} else if s.video == nil {
			// audio only: everything from the first packet the recorder saw
			for i := range t.frames {
				f := &t.frames[i]
				if f.p0 >= t.firstEvent && t.complete(f) && f.p0 > lastLost && !e.lossy {
					e.required[i] = true
				}
			}
		}
		exp[t.id] = e
	}

	// ---- the files
	if len(s.openFds) > 0 {
		v.add("file-left-open", -1, -1, fmt.Sprintf("after the %s call returned the recorder still holds %v open", p.End, s.openFds), "")
	}
	if len(s.files) > 1 {
		v.add("recording-split", -1, -1, fmt.Sprintf("the recorder split this one connection (constant resolution, less than two minutes of media, no 2^31 timestamp distance) into %d files", len(s.files)), "")
	}
	per := v.per
	type fblock struct {
		trk, frame int
		tc         int64
	}
	fileBlocks := make([][]fblock, len(s.files))
	containerOK := true
	defer func() { v.containerOK = containerOK }()
	nblocks := 0
	for fi, path := range s.files {
		data, err := os.ReadFile(path)
		if err != nil {
			run.Inconclusive(fmt.Sprintf("cannot read %s: %v", path, err))
			return v
		}
		f, perr := vebml.Parse(data)
		base := filepath.Base(path)
		if perr != nil {
			containerOK = false
			v.add("malformed-container", -1, -1, fmt.Sprintf("%s (%d bytes) does not parse: %v (got %d clusters, %d blocks)", base, len(data), perr, len(f.Clusters), len(f.Blocks)), "")
		}
		wantDoc := "webm"
		wantExt := ".webm"
		if p.Video == "h264" {
			wantDoc, wantExt = "matroska", ".mkv"
		}
		if perr == nil || f.DocType != "" {
			if f.DocType != wantDoc {
				containerOK = false
				how := ""
				if s.afterMkv >= 0 {
					how = fmt.Sprintf(" (session %d of this process had recorded H264 into a .mkv file before this session began)", s.afterMkv)
				}
				var codecs []string
				for _, t := range s.tracks {
					codecs = append(codecs, t.codec)
				}
				v.add("wrong-doctype", -1, -1, fmt.Sprintf("%s, the recording of a connection with %s, is a document of type %q, want %q%s", base, strings.Join(codecs, " + "), f.DocType, wantDoc, how), "")
			} else if wantDoc == "webm" && s.afterMkv >= 0 && perr == nil {
				count("webm_files_checked_after_an_mkv_recording", 1)
			}
		}
		if filepath.Ext(path) != wantExt {
			v.add("malformed-container", -1, -1, fmt.Sprintf("%s: want extension %s", base, wantExt), "")
		}
		if perr == nil && (!f.HasInfo || !f.HasTracks) {
			containerOK = false
			v.add("malformed-container", -1, -1, fmt.Sprintf("%s has Info=%v Tracks=%v", base, f.HasInfo, f.HasTracks), "")
		}
		// declared tracks = the tracks of the connection
		num2trk := map[uint64]int{}
		if f.HasTracks {
			wantCodec := map[string]string{"opus": "A_OPUS", "vp8": "V_VP8", "vp9": "V_VP9", "h264": "V_MPEG4/ISO/AVC"}
			var decl []string
			okTracks := len(f.Tracks) == len(s.tracks)
			for _, ft := range f.Tracks {
				decl = append(decl, fmt.Sprintf("#%d %s type %d", ft.Number, ft.CodecID, ft.Type))
				found := false
				for _, t := range s.tracks {
					wantType := uint64(2)
					if t.id == 1 {
						wantType = 1
					}
					if ft.CodecID == wantCodec[t.codec] && ft.Type == wantType {
						if _, dup := num2trk[ft.Number]; !dup && ft.Number != 0 {
							num2trk[ft.Number] = t.id
							found = true
						}
					}
				}
				if !found {
					okTracks = false
				}
			}
			if len(num2trk) != len(s.tracks) {
				okTracks = false
			}
			if !okTracks {
				containerOK = false
				v.add("malformed-container", -1, -1, fmt.Sprintf("%s declares %v for a connection with %s", base, decl, p.shape()), "")
			}
		}
		scale := float64(f.TimecodeScale) / 1e6
		for bi, b := range f.Blocks {
			ti, ok := num2trk[b.Track]
			if !ok {
				containerOK = false
				v.add("malformed-container", -1, -1, fmt.Sprintf("%s: block %d belongs to track %d which is not declared", base, bi, b.Track), "")
				break
			}
			tc := int64(math.Round(float64(b.Timecode) * scale))
			ctc := int64(math.Round(float64(b.Timecode-int64(b.Rel)) * scale))
			per[ti] = append(per[ti], sample{data: b.Data, tc: tc, file: fi, pos: bi, ctc: ctc})
			nblocks++
		}
		// the file must not change any more
		if st, err := os.Stat(path); err == nil && st.Size() != int64(len(data)) {
			v.add("file-still-growing", -1, -1, fmt.Sprintf("%s grew from %d to %d bytes after the closing call returned", base, len(data), st.Size()), "")
		}
	}
	count("files_parsed", int64(len(s.files)))
	if primary && p.Video == "h264" && containerOK && nblocks > 0 && len(s.files) > 0 && filepath.Ext(s.files[0]) == ".mkv" {
		firstMkv.CompareAndSwap(-1, int64(p.Session))
	}
	if len(s.files) > 1 {
		count("sessions_with_several_files", 1)
	}

	if debug && primary {
		s.dump(per)
	}

	// ---- per track clauses
	anyIssue := false
	for _, t := range s.tracks {
		e := exp[t.id]
		ss := per[t.id]
		if t.id == 0 && s.video != nil {
			// audio next to video: everything from the first audio frame written
			// (what precedes the file's first keyframe is legitimately dropped)
			_, m := t.checkSamples(ss, nil, false)
			first := -1
			for _, x := range m {
				if x.frame >= 0 && (first < 0 || x.frame < first) {
					first = x.frame
				}
			}
			lastLost := -1
			for pi := range t.pkts {
				if !t.available(pi) {
					lastLost = pi
				}
			}
			if first >= 0 {
				for i := first; i < len(t.frames); i++ {
					f := &t.frames[i]
					if t.complete(f) && f.p0 > lastLost && f.p0 >= t.firstEvent {
						e.required[i] = true
					}
				}
			}
			e.anchor = first
		}
		issues, matches := t.checkSamples(ss, e.required, true)
		exact := 0
		for _, m := range matches {
			if m.frame >= 0 {
				exact++
				if len(t.frames[m.frame].data) >= 16 { // identifies its frame beyond doubt
					fileBlocks[m.file] = append(fileBlocks[m.file], fblock{t.id, m.frame, m.tc})
				}
			}
		}
		count("blocks_verified_exact", int64(exact))
		if t.id == 0 {
			count("audio_blocks_verified_exact", int64(exact))
		} else {
			count("video_blocks_verified_exact", int64(exact))
		}
		nreq := 0
		for _, b := range e.required {
			if b {
				nreq++
			}
		}
		count("frames_required_present", int64(nreq))
		v.matches[t.id] = matches
		v.required[t.id] = e.required
		v.firstWritten[t.id] = e.anchor
		for _, is := range issues {
			anyIssue = true
			v.add(is.clause, t.id, is.frame, t.codec+" track: "+is.what, is.sig)
		}
	}

	// ---- audio and video share one time origin
	comparedAfterSR := 0
	if s.audio != nil && s.video != nil {
		interval := 1000.0 / float64(p.Fps)
		base := math.Max(interval, 40)
		loose := base + s.audio.maxDelay + s.video.maxDelay + 20*float64(s.audio.maxGapRun+1) + s.wallMs
		sync := int64(-1) // event after which both tracks have had a sender report
		if len(s.audio.srEvents) > 0 && len(s.video.srEvents) > 0 {
			sync = max(s.audio.srEvents[0], s.video.srEvents[0])
		}
		for fi, blocks := range fileBlocks {
			var lo, hi [2]float64
			var loS, hiS [2]float64
			var n, nS [2]int
			var wlo, whi [2]fblock
			for _, b := range blocks {
				t := s.trackById(b.trk)
				f := &t.frames[b.frame]
				off := float64(b.tc) - f.capMs
				if n[b.trk] == 0 || off < lo[b.trk] {
					lo[b.trk] = off
					wlo[b.trk] = b
				}
				if n[b.trk] == 0 || off > hi[b.trk] {
					hi[b.trk] = off
					whi[b.trk] = b
				}
				n[b.trk]++
				// pushed to the recorder after both tracks were synchronised by
				// sender reports: from here on the alignment is exact
				if sync >= 0 && t.firstPush[f.p0] > sync {
					if nS[b.trk] == 0 || off < loS[b.trk] {
						loS[b.trk] = off
					}
					if nS[b.trk] == 0 || off > hiS[b.trk] {
						hiS[b.trk] = off
					}
					nS[b.trk]++
				}
			}
			if n[0] == 0 || n[1] == 0 {
				continue
			}
			count("av_origin_files_compared", 1)
			d := math.Max(hi[0]-lo[1], hi[1]-lo[0])
			if d >= loose {
				a, vb := whi[0], wlo[1]
				if hi[1]-lo[0] > hi[0]-lo[1] {
					a, vb = wlo[0], whi[1]
				}
				v.add("av-origin", -1, -1, fmt.Sprintf("file %d: audio frame %d (captured at %.1f ms) has timecode %d ms and video frame %d (captured at %.1f ms) has timecode %d ms: the two tracks disagree about the origin by %.1f ms (allowed %.1f ms: max(frame interval, 40) + the arrival skew the harness itself introduced + %.1f ms of wall time)",
					fi, a.frame, s.audio.frames[a.frame].capMs, a.tc, vb.frame, s.video.frames[vb.frame].capMs, vb.tc, d, loose, s.wallMs), "")
			}
			if nS[0] > 0 && nS[1] > 0 {
				count("av_origin_files_compared_after_sender_reports", 1)
				comparedAfterSR++
				d := math.Max(hiS[0]-loS[1], hiS[1]-loS[0])
				if d >= base {
					v.add("av-origin-after-sender-reports", -1, -1, fmt.Sprintf("file %d: after both tracks got a sender report, frames captured at the same instant get timecodes %.1f ms apart (allowed %.1f ms); audio offsets %.1f..%.1f ms, video offsets %.1f..%.1f ms", fi, d, base, loS[0], hiS[0], loS[1], hiS[1]), "")
				}
			}
		}
	}

	v.nblocks = nblocks
	if !primary {
		return v
	}
	if p.Class == "long-hold" {
		s.longHoldCoverage(v)
	}
	if p.WrapAtStart != "" {
		s.wrapStartCoverage(v, comparedAfterSR)
	}
	if p.Early {
		count("early_sessions", 1)
		if nblocks > 0 && containerOK && len(s.files) == 1 {
			// (containerOK: parsed, the DocType and the extension of the codec,
			// the declared tracks)
			count("early_"+p.Video+"_sessions_with_wellformed_"+map[bool]string{true: "mkv", false: "webm"}[p.Video == "h264"], 1)
		}
	}

	// ---- accounting
	count("sessions", 1)
	count("sessions_end_"+p.End, 1)
	count("class_"+p.Class, 1)
	for _, t := range s.tracks {
		count("frames_sent", int64(len(t.frames)))
		count("packets_sent", int64(len(t.pkts)))
		count("getpacket_calls", int64(t.getCalls))
		rec := 0
		for _, b := range t.recovered {
			if b {
				rec++
			}
		}
		count("packets_recovered_from_cache", int64(rec))
		if rec > 0 {
			count("tracks_with_cache_recovery", 1)
		}
		m := s.summary[t.codec].(map[string]any)
		if m["late_arrivals"].(int) > 0 {
			count("tracks_with_reordering", 1)
		}
		if m["duplicates"].(int) > 0 {
			count("tracks_with_duplicates", 1)
		}
		if m["withheld_lost"].(int) > 0 {
			count("tracks_with_unrecoverable_gaps", 1)
		}
		first, lastSeq := t.pkts[0].seq, t.pkts[len(t.pkts)-1].seq
		if lastSeq < first {
			count("tracks_with_seqno_wrap", 1)
		}
		if t.frames[len(t.frames)-1].ts < t.frames[0].ts {
			count("tracks_with_timestamp_wrap", 1)
		}
		when := p.SRA
		if t.id == 1 {
			when = p.SRV
		}
		count("tracks_sr_"+when, 1)
		count("codec_"+t.codec, 1)
	}
	if nblocks > 0 && containerOK {
		count("sessions_with_wellformed_file", 1)
	}
	nontrivial := nblocks > 0
	if nontrivial {
		run.Distinct(p.shape())
	}
	if p.Session < 3 {
		// the first delivery events written out: a = audio, v = video packet
		// index, SR = sender report; then what the recording held
		var head []string
		for i, e := range s.events {
			if i >= 40 {
				break
			}
			switch {
			case e.pkt < 0:
				head = append(head, fmt.Sprintf("SR%s", map[int]string{0: "a", 1: "v"}[e.trk]))
			default:
				head = append(head, fmt.Sprintf("%s%d", map[int]string{0: "a", 1: "v"}[e.trk], e.pkt))
			}
		}
		run.Sample(map[string]any{"params": p, "delivery": s.summary, "first_events": strings.Join(head, " "), "files": len(s.files), "blocks": nblocks, "clean": !anyIssue})
	}
	return v
}

// longHoldCoverage counts what a long-hold session exercised: video frames
// that the recorder could only hand to its muxer (the sample builder releases
// frames in order, so a frame waits for every older packet) after more than
// sorterWindow audio packets NEWER than the frame had been recorded, i.e. behind
// audio that the muxer had already written to the file, and whether they were
// all found in the recording.  From the delivery history and the matches only.
func (s *session) longHoldCoverage(v *verdict) {
	run, t := s.run, s.video
	evOf := make([]int, len(t.pkts))
	type aev struct {
		ev  int
		cap float64
	}
	var audio []aev
	for i, e := range s.events {
		if e.pkt < 0 {
			continue
		}
		if e.trk == 1 {
			evOf[e.pkt] = i
		} else {
			audio = append(audio, aev{i, s.audio.frames[e.pkt].capMs})
		}
	}
	present := make([]bool, len(t.frames))
	for _, m := range v.matches[1] {
		if m.frame >= 0 {
			present[m.frame] = true
		}
	}
	required := v.required[1]
	release, held, behind, behindPresent, maxNewer := -1, 0, 0, 0, 0
	for i := range t.frames {
		f := &t.frames[i]
		own := -1
		for k := f.p0; k < f.p0+f.pn; k++ {
			own = max(own, evOf[k])
		}
		release = max(release, own)
		if !required[i] {
			continue
		}
		if release > own {
			held++
		}
		newer := 0
		for _, a := range audio {
			if a.ev < release && a.cap > f.capMs {
				newer++
			}
		}
		maxNewer = max(maxNewer, newer)
		// 25 packets (0.5 s) of margin for the alignment of the two tracks
		if newer > sorterWindow+25 {
			behind++
			if present[i] {
				behindPresent++
			}
		}
	}
	videoClean := true
	for _, f := range v.findings {
		videoClean = videoClean && f.trk != 1
	}
	run.Count("long_hold_sessions", 1)
	if s.p.VeryLong {
		run.Count("long_hold_sessions_held_over_a_minute", 1)
	}
	run.Count("long_hold_late_video_packets", int64(len(t.late)))
	run.Count("long_hold_video_frames_held_back", int64(held))
	run.Count("long_hold_frames_released_behind_written_audio", int64(behind))
	run.Count("long_hold_frames_released_behind_written_audio_present", int64(behindPresent))
	if behind > 0 {
		run.Count("long_hold_sessions_past_sorter_window", 1)
		if videoClean && behindPresent == behind {
			run.Count("long_hold_sessions_past_sorter_window_complete", 1)
		}
	}
	if debug {
		fmt.Printf("long-hold: late %v, %d frames held back, %d released behind written audio (%d present), at most %d newer audio packets recorded before a frame's release\n", t.late, held, behind, behindPresent, maxNewer)
	}
}

// wrapStartCoverage counts what a wrap-at-start session exercised, from the
// delivery history and the verdict only: on which tracks the 32-bit timestamp
// wrapped between the instant the track's sender report describes and the
// packet that places the track in the file (video: the first packet of a
// keyframe to reach the recorder; audio: the first audio packet to reach it
// after that one), and whether the recording then was one file, complete (no
// symptom of any kind) and aligned (audio and video compared under the tight
// bound that applies once both tracks have had a sender report).
func (s *session) wrapStartCoverage(v *verdict, comparedAfterSR int) {
	run := s.run
	between := func(sr, ts uint32) bool { return int32(ts-sr) > 0 && ts < sr }
	kfEv, kfTs := int64(-1), uint32(0)
	for _, pi := range s.video.feed {
		if f := &s.video.frames[s.video.pkts[pi].frame]; f.key && pi == f.p0 {
			kfEv, kfTs = s.video.firstPush[pi], f.ts
			break
		}
	}
	n := 0
	run.Count("wrap_at_start_sessions", 1)
	if kfEv >= 0 && len(s.video.srRTP) > 0 && between(s.video.srRTP[0], kfTs) {
		run.Count("wrap_at_start_video_wraps_between_sender_report_and_first_keyframe", 1)
		n++
	}
	if kfEv >= 0 && len(s.audio.srRTP) > 0 {
		first := -1
		for pi := range s.audio.pkts {
			if fp := s.audio.firstPush[pi]; fp > kfEv && (first < 0 || fp < s.audio.firstPush[first]) {
				first = pi
			}
		}
		if first >= 0 && between(s.audio.srRTP[0], s.audio.frames[first].ts) {
			run.Count("wrap_at_start_audio_wraps_between_sender_report_and_origin_packet", 1)
			n++
		}
	}
	if debug {
		fmt.Printf("wrap-at-start: %d tracks wrapped between sender report and origin packet; video sr %v kf ts %d; audio sr %v\n", n, s.video.srRTP, kfTs, s.audio.srRTP)
	}
	if n == 0 {
		return
	}
	run.Count("wrap_at_start_sessions_wrap_in_between", 1)
	if len(v.findings) == 0 && len(s.files) == 1 && comparedAfterSR == 1 && v.firstWritten[0] >= 0 && v.firstWritten[1] >= 0 {
		run.Count("wrap_at_start_sessions_wrap_in_between_complete_and_aligned", 1)
	}
}

var debug = os.Getenv("C20_DEBUG") != ""

// dump prints the session for debugging (C20_DEBUG=<session index>).
func (s *session) dump(per map[int][]sample) {
	fmt.Printf("params %+v\nfiles %v wall %.1f ms\n", s.p, s.files, s.wallMs)
	for _, t := range s.tracks {
		fmt.Printf("track %s: %d frames %d packets first seq %d ts0 %d firstEvent %d\n", t.codec, len(t.frames), len(t.pkts), t.pkts[0].seq, t.ts0, t.firstEvent)
		for i := range t.frames {
			if t.id == 0 && os.Getenv("C20_DEBUG_AUDIO") == "" {
				break
			}
			f := &t.frames[i]
			w := ""
			for k := f.p0; k < f.p0+f.pn; k++ {
				w += fmt.Sprintf("%d", t.withheld[k])
			}
			fmt.Printf("  frame %d key=%v len=%d p0=%d pn=%d cap=%.1f ts=%d withheld=%s complete=%v\n", i, f.key, len(f.data), f.p0, f.pn, f.capMs, f.ts, w, t.complete(f))
		}
		fmt.Printf("  feed: %v\n", t.feed)
		_, m := t.checkSamples(per[t.id], nil, false)
		fmt.Printf("  file samples:")
		for i, x := range m {
			fmt.Printf(" %d@%d(%dB)f%d", x.frame, x.tc, len(per[t.id][i].data), x.file)
		}
		fmt.Printf("\n")
		if os.Getenv("C20_DEBUG_REF") != "" {
			fmt.Printf("  ref samples:")
			pin := t.pinned()
			_, pm := t.checkSamples(pin, nil, false)
			for i, x := range pm {
				fmt.Printf(" %d(%dB)p%d", x.frame, len(pin[i].data), pin[i].pos)
			}
			fmt.Printf("\n")
		}
	}
	fmt.Printf("events:")
	for i, e := range s.events {
		if e.pkt < 0 {
			fmt.Printf(" [%d:SR%d]", i, e.trk)
		} else {
			fmt.Printf(" %d:%s%d", i, map[int]string{0: "a", 1: "v"}[e.trk], e.pkt)
		}
	}
	fmt.Printf("\n")
}

// ---------------------------------------------------------------------------

// play drives one (variant of a) session with a watchdog; ok is false when the
// session could not be judged (already reported).
func play(run *vk.Run, s *session) bool {
	done := make(chan error, 1)
	go func() {
		defer func() {
			if x := recover(); x != nil {
				buf := make([]byte, 4096)
				buf = buf[:runtime.Stack(buf, false)]
				done <- fmt.Errorf("panic: %v\n%s", x, buf)
			}
		}()
		done <- s.drive()
	}()
	select {
	case err := <-done:
		if err != nil {
			if strings.HasPrefix(err.Error(), "panic:") {
				s.summarise()
				s.violation("unattributed:recorder-panic:"+s.p.Class, err.Error())
			} else {
				run.Inconclusive(fmt.Sprintf("session %d: %v", s.p.Session, err))
			}
			return false
		}
	case <-time.After(180 * time.Second):
		run.Inconclusive(fmt.Sprintf("session %d: watchdog, the recorder did not return within 180 s (%s)", s.p.Session, s.p.shape()))
		return false
	}
	return true
}

func runSession(run *vk.Run, idx uint64, thorough bool) {
	r := run.Rand(1, idx)
	p := genParams(r, idx, thorough)
	s := buildSession(run, p, false)
	if !play(run, s) {
		run.Eval(1)
		return
	}
	v := s.judge(true)
	s.attribute(v, func() (*session, *verdict) {
		// the same session, replayed without its sender reports
		s2 := buildSession(run, p, true)
		if !play(run, s2) {
			return nil, nil
		}
		run.Count("sessions_replayed_without_sender_reports", 1)
		v2 := s2.judge(false)
		os.RemoveAll(s2.dir)
		return s2, v2
	})
	s.report(v)
	run.Eval(1)
	os.RemoveAll(s.dir)
}

func main() {
	if mode, ok := vk.InChild(); ok && mode == "e2e" {
		e2eChild()
	}
	run := vk.Start("C20")
	diskwriter.Directory = filepath.Join(run.Scratch, "rec")
	group.Directory = filepath.Join(run.Scratch, "groups")
	os.MkdirAll(diskwriter.Directory, 0o755)
	os.MkdirAll(group.Directory, 0o755)
	run.MaxReplays = 40

	rule := "sessions generated from (seed, index): codec set x delivery class (in order / reordered <= 10 packets / duplicated / withheld-but-cached / withheld-and-lost / mixed / late start; plus a fixed list of long-hold sessions: Opus next to video of 3-6 frames/s and 1-2 packets per frame, 60-120 frames, in order and complete except one or two mid-stream video packets that arrive 30-200 video packets - 6.5 s or more of media - late, in the thorough tier also four sessions with a packet more than a minute late; a fixed list of wrap-at-start sessions: audio + video, one sender report per track received before the first packet, the timestamps of the video track, the audio track or both start just below 2^32 so that the wrap falls after the sender report and before or at the first keyframe / the first audio packet recorded, every other one delivered in order and the others through all delivery classes; and six H264 / VP9 sessions that every tier runs one after the other before any other session, so that every WebM recording is made in a process that has written a Matroska file) x sender-report timing per track (before, midstream and repeated, never) x seqno and timestamp wrap x packets-per-frame class x end (departure, Close); each session drives the real diskwriter through conn.Up/UpTrack/DownTrack and its file is read back with an independent EBML reader; distinct_nontrivial = distinct (codecs, delivery class, SR timing, wrap flags, packets-per-frame class) among sessions whose recording holds at least one block. An end-to-end tier (e2e.go) then has the real server record id-tagged multi-packet VP8 (+ Opus) streams published over SRTP (record/unrecord over the websocket, pion publisher, packet cache and writer pool in front of the diskwriter, seqno and timestamp wraps, four ways of ending) and judges every block of the WebM files it leaves behind against the frames sent (counters e2e_*)"

	if rep, ok := vk.ReplayInput(); ok {
		if sd, ok := rep["seed"].(float64); ok {
			run.Seed = int64(sd)
		}
		if m, ok := rep["replay"].(map[string]any); ok {
			if si, ok := m["session"].(float64); ok {
				th, _ := m["thorough"].(bool)
				if before, ok := m["after_h264_session"].(float64); ok {
					// the session ran in a process that had recorded H264 before
					runSession(run, uint64(before), th)
				}
				runSession(run, uint64(si), th)
			} else {
				e2eReplay(run, m)
			}
		}
		reportViolations(run)
		run.Finish("exploration", "replay of one recorded session")
	}

	n := run.Pick(306, 5004)
	nLong := run.Pick(8, 168)  // long-hold sessions (index space longHoldBase + k), run first: they are the longest
	nVery := run.Pick(0, 4)    // of which, holds of more than a minute (k >= veryLongOff)
	nWrap := run.Pick(24, 240) // wrap-at-start sessions (index space wrapStartBase + k)
	nEarly := 6                // H264 and VP9 sessions (index space earlyBase + k), one after the other before anything else
	thorough := !run.Quick()
	if d := os.Getenv("C20_DEBUG"); d != "" {
		var i uint64
		fmt.Sscan(d, &i)
		runSession(run, i, thorough)
		reportViolations(run)
		run.Finish("exploration", "debug run of one session")
	}
	// The quick tier's regular sessions are VP8 only.  A few H264 (.mkv) and VP9
	// sessions run first, alone: whatever a Matroska recording leaves behind in
	// the process is there for every session that follows.
	for k := 0; k < nEarly; k++ {
		runSession(run, earlyBase+uint64(k), thorough)
	}
	var list []uint64
	for k := 0; k < nVery; k++ {
		list = append(list, longHoldBase+veryLongOff+uint64(k))
	}
	for k := 0; k < nLong; k++ {
		list = append(list, longHoldBase+uint64(k))
	}
	for k := 0; k < nWrap; k++ {
		list = append(list, wrapStartBase+uint64(k))
	}
	for i := 0; i < n; i++ {
		list = append(list, uint64(i))
	}
	workers := runtime.GOMAXPROCS(0)
	if workers > 16 {
		workers = 16
	}
	var wg sync.WaitGroup
	var next atomic.Uint64
	for w := 0; w < workers; w++ {
		wg.Add(1)
		go func() {
			defer wg.Done()
			for {
				i := next.Add(1) - 1
				if i >= uint64(len(list)) {
					return
				}
				runSession(run, list[i], thorough)
			}
		}()
	}
	wg.Wait()
	reportViolations(run)
	e2eTier(run)

	run.FloorCounter("sessions", int64((n+nLong+nVery+nWrap+nEarly)*9/10))
	run.FloorCounter("wrap_at_start_sessions_wrap_in_between", int64(nWrap*3/4))
	run.FloorCounter("wrap_at_start_video_wraps_between_sender_report_and_first_keyframe", int64(nWrap/2))
	run.FloorCounter("wrap_at_start_audio_wraps_between_sender_report_and_origin_packet", int64(nWrap/2))
	run.FloorCounter("wrap_at_start_sessions_wrap_in_between_complete_and_aligned", int64(nWrap/3))
	run.FloorCounter("early_h264_sessions_with_wellformed_mkv", 2)
	run.FloorCounter("early_vp9_sessions_with_wellformed_webm", 1)
	run.FloorCounter("webm_files_checked_after_an_mkv_recording", int64(run.Pick(200, 3000)))
	run.FloorCounter("long_hold_sessions_past_sorter_window_complete", int64(run.Pick(4, 80)))
	run.FloorCounter("long_hold_frames_released_behind_written_audio_present", int64(run.Pick(20, 400)))
	run.FloorCounter("blocks_verified_exact", int64(run.Pick(5000, 200000)))
	run.FloorCounter("audio_blocks_verified_exact", int64(run.Pick(2000, 80000)))
	run.FloorCounter("video_blocks_verified_exact", int64(run.Pick(1500, 60000)))
	run.FloorCounter("frames_required_present", int64(run.Pick(3000, 120000)))
	run.FloorCounter("packets_recovered_from_cache", int64(run.Pick(50, 2000)))
	run.FloorCounter("tracks_with_reordering", int64(run.Pick(20, 600)))
	run.FloorCounter("tracks_with_duplicates", int64(run.Pick(20, 600)))
	run.FloorCounter("tracks_with_unrecoverable_gaps", int64(run.Pick(10, 300)))
	run.FloorCounter("tracks_with_seqno_wrap", int64(run.Pick(20, 600)))
	run.FloorCounter("tracks_with_timestamp_wrap", int64(run.Pick(10, 300)))
	run.FloorCounter("tracks_sr_before", int64(run.Pick(20, 600)))
	run.FloorCounter("tracks_sr_after", int64(run.Pick(20, 600)))
	run.FloorCounter("tracks_sr_never", int64(run.Pick(20, 600)))
	run.FloorCounter("av_origin_files_compared", int64(run.Pick(40, 1500)))
	run.FloorCounter("av_origin_files_compared_after_sender_reports", int64(run.Pick(10, 400)))
	run.FloorCounter("sessions_end_departure", int64(run.Pick(30, 1000)))
	run.FloorCounter("sessions_end_close", int64(run.Pick(30, 1000)))
	if thorough {
		run.FloorCounter("codec_vp9", 300)
		run.FloorCounter("codec_h264", 300)
	}
	run.Assume("streams are RTP-conformant: the marker bit ends every video frame (RFC 7741/6184, VP9 payload), one Opus frame per packet, 20 ms; keyframes carry their header in the first packet; constant resolution within a session")
	run.Assume("delivery stays inside the recorder's reorder window: displacement <= 10 packets (6 for audio) and never more than 400 ms late, withheld runs of 1..35 packets (1..4 for audio; runs may merge, always far below 256); a late start precedes the first packet by at most 20 packets (8 for audio); the server cache holds a withheld packet from the start and any other packet once it was forwarded; the buffer passed to Write is reused afterwards, as the server's writer loop does")
	run.Assume("long-hold class: the reorder window is the recorder's, counted in packets of the track (256 for video), not in time: a video packet 30-200 video packets late is inside it however many seconds that is, so every frame from the first keyframe on is demanded; the late packets lie at least three frames behind the first keyframe (mid-stream: the file exists and the origin is fixed, so the known finding wrap-heuristic-misfire, which needs a sample released before the origin, is out of reach) and are never the first packet of a frame of several packets (arriving late behind an emptied sample builder such a packet lands in the last slot of the ring and its frame wraps around: known finding samplebuilder:ring-wrap-off-by-one, exercised by the reorder classes); they do not enter the arrival skew allowed between the two tracks' origins, which are fixed long before")
	run.Assume("wrap-at-start sessions: each track gets exactly one sender report and both are received before the first packet of either track, so no sender report arrives once an origin is fixed: the known finding sender-report-moves-origin is out of reach there, and a symptom that depends on the sender reports cannot be filed under it; a report describes an instant 8 ms or more before the forced wrap, the video wrap lies at or before the first keyframe's capture instant, the audio wrap at or before the first audio packet or the oldest audio packet that reordering lets arrive after the first keyframe packet (whether the wrap really fell between a track's sender report and the packet that places the track in the file is measured per session from the delivery history: counters wrap_at_start_*); the known findings origin-set-by-later-keyframe and wrap-heuristic-misfire stay reachable in the reordering classes and are filed by the attribution that serves every session")
	run.Assume("the document type of a recording depends on the process history: six H264 / VP9 sessions run alone before every other session in both tiers, every other session (and every replay, which runs the first H264 session before the recorded one) sees a process that has already written a .mkv file; the order of the remaining sessions is not controlled")
	run.Assume("completeness is demanded from the first complete keyframe that starts at or after the first packet the recorder saw (audio next to video: from the first audio frame written), for every frame when nothing is unrecoverable, and otherwise only for the frames behind the last unrecoverable packet (they are buffered in the recorder when it is closed: flush)")
	run.Assume("the harness does not sleep, so audio only starts after the video when both tracks carry sender reports from the start; without sender reports the recorder can only align tracks by arrival: the allowed audio/video origin error then includes the arrival skew the harness introduced (path delay, displacement, withheld runs) and the measured wall time of the session; blocks pushed after both tracks received a sender report must agree within max(one video frame interval, 40 ms)")
	run.Assume("H264 keyframes made of STAP-A{SPS,PPS} + IDR are only generated where no packet can be missing for good (not in gap-lost, gap-mixed, late-start): once the STAP-A is lost the IDR's first packet is a partition head that no RTP-level recorder can tell from a frame start, so 'complete frames only' and 'no frame lost' cannot both be met there")
	run.Assume("attribution changes the violation key only, never the verdict: samplebuilder:* needs (a) the recorded track byte-identical to what a correct recorder makes of the PINNED builder's releases for the observed packets, (b) a clean track from a REPAIRED builder on the same packets, (c) the defect's trigger observed in an instrumented copy whose output equals the pinned package's, (d) symptoms coming back when only that defect is left unrepaired; sender-report-moves-origin needs the symptom to vanish when the same session is replayed against the real recorder without its sender reports")
	run.Finish("exploration", rule)
}
