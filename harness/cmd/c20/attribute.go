package main

// Attribution: every symptom found by judge() gets exactly one root-cause key.
// A symptom is only filed under a root cause when that cause is established
// with certainty for this very session; everything else is
// "unattributed:<symptom>:<delivery class>".
//
//	samplebuilder:ring-wrap-off-by-one
//	samplebuilder:duplicate-of-newest-releases-all
//	samplebuilder:h264-stap-a-split
//	    The track's recording is byte for byte what a correct recorder makes
//	    of the samples the PINNED builder releases for the packets the
//	    recorder was observed to receive (so the recorder added nothing of its
//	    own), a REPAIRED builder (sbprobe.go) on the same packets yields a
//	    track without any symptom, the defect's trigger was observed in the
//	    instrumented copy, and leaving just this defect unrepaired brings
//	    symptoms back.
//	    When the track as a whole cannot be explained that way (another
//	    defect, e.g. the wrap heuristic, split the recording), single
//	    symptoms still are (attributeHandedOver): every block of the track is
//	    byte for byte a sample the pinned builder released, in release order
//	    (the recorder dropped samples but made none of its own); a block that
//	    equals no frame is then the builder's when the pinned builder released
//	    those very bytes, the repaired builder releases no such sample, and
//	    leaving just this defect unrepaired brings it back; a missing frame is
//	    the builder's when the pinned builder never released it intact and the
//	    repaired one does.  (H264 shape of the ring wrap: a two packet FU-A
//	    frame released without its last packet depacketises to 0 bytes, and
//	    pion's H264Packet keeps the orphaned fragment and prepends it to the
//	    next fragmented NAL unit.)
//	sender-report-moves-origin
//	    The session has a sender report after recording began, and the same
//	    session replayed against the real recorder WITHOUT its sender reports
//	    (same packets, same delivery) does not show the symptom.
//	wrap-heuristic-misfire
//	    The pinned builder released a video sample 2^16 ticks or more older
//	    than the first keyframe packet that had arrived (the recorder's
//	    origin), which the recorder takes for a 2^31 timestamp wrap; and the
//	    recording was split or left open.
//	stale-keyframe, closing-flush-creates-file
//	    Recorder defects 3 and 2 (fixed by c20-fix3/fix2), trigger observed in
//	    the pinned builder's release schedule.  (stale-keyframe only loses the
//	    frames released before the first keyframe that was not stale came out,
//	    i.e. while no file existed; later it only cost a keyframe flag.)
//	muxer-drops-block-32s-behind-cluster
//	    A missing video frame that the pinned builder released intact (the
//	    recorder had it and handed it to the muxer) in the same burst as a
//	    later frame h that IS in the file; h's block has a negative relative
//	    timecode (it lies behind the start of its cluster, so nothing but this
//	    burst's older video blocks was written between the two and the cluster
//	    is the one that was current for the missing frame as well), and the
//	    missing frame's timecode, computed from h's, is 32767 ms or more behind
//	    that cluster's: mkvcore's block writer drops such a block
//	    (ErrIgnoreOldFrame; galene installs no error handler).
//	recovered-frame-padded, packet-not-fetched-from-cache
//	    Self-evident from the sample / from the GetPacket calls observed.
//	wrong-doctype:after-mkv-recording, wrong-doctype
//	    The EBML header of the file names another document type than the one
//	    that goes with the codecs recorded (webm for Opus/VP8/VP9, matroska
//	    for H264).  Nothing in a session's packets or their delivery decides
//	    the document type, so the delivery class is no part of the key; what
//	    is: whether an earlier session of the same process had left a
//	    Matroska (.mkv) recording behind when this one began.

import (
	"fmt"

	"github.com/jech/samplebuilder"
	"github.com/pion/rtp"
	"github.com/pion/rtp/codecs"
)

type finding struct {
	symptom string
	trk     int // -1: the session as a whole
	frame   int
	what    string
	sig     string
	key     string
}

type verdict struct {
	s            *session
	findings     []*finding
	per          map[int][]sample
	matches      map[int][]match
	required     map[int][]bool
	firstWritten [2]int
	nblocks      int
	containerOK  bool
}

func (v *verdict) add(symptom string, trk, frame int, what, sig string) {
	v.findings = append(v.findings, &finding{symptom: symptom, trk: trk, frame: frame, what: what, sig: sig})
}

func (v *verdict) open() []*finding {
	var out []*finding
	for _, f := range v.findings {
		if f.key == "" {
			out = append(out, f)
		}
	}
	return out
}

// allPushed: every packet of the frame reached the recorder (by Write or GetPacket).
func (t *track) allPushed(f *frame) bool {
	for k := f.p0; k < f.p0+f.pn; k++ {
		if t.firstPush[k] < 0 {
			return false
		}
	}
	return true
}

func (t *track) depacketizer() (uint16, rtp.Depacketizer) {
	switch t.codec {
	case "opus":
		return 32, &codecs.OpusPacket{}
	case "vp8":
		return 256, &codecs.VP8Packet{}
	case "vp9":
		return 256, &codecs.VP9Packet{}
	}
	return 256, &codecs.H264Packet{}
}

func (t *track) feedPacket(pi int) *rtp.Packet {
	raw := append([]byte(nil), t.pkts[pi].raw...)
	p := new(rtp.Packet)
	if err := p.Unmarshal(raw); err != nil {
		return nil
	}
	return p
}

// pinned runs the pinned sample builder alone over the observed feed, popping
// the way the recorder does (after every push until nil, forced at the end).
func (t *track) pinned() []sample {
	ml, d := t.depacketizer()
	b := samplebuilder.New(ml, d, t.clock)
	var out []sample
	for fi, pi := range t.feed {
		p := t.feedPacket(pi)
		if p == nil {
			continue
		}
		b.Push(p)
		for {
			s, ts := b.PopWithTimestamp()
			if s == nil {
				break
			}
			out = append(out, sample{data: s.Data, pos: fi, ts: ts})
		}
	}
	for {
		s, ts := b.ForcePopWithTimestamp()
		if s == nil {
			break
		}
		out = append(out, sample{data: s.Data, pos: len(t.feed), ts: ts})
	}
	return out
}

// probe runs the instrumented copy with the given repairs.
func (t *track) probe(fixA, fixB, fixC bool) ([]sample, *probeBuilder) {
	ml, d := t.depacketizer()
	b := newProbeBuilder(ml, d)
	b.fixA, b.fixB, b.fixC = fixA, fixB, fixC
	var out []sample
	for fi, pi := range t.feed {
		p := t.feedPacket(pi)
		if p == nil {
			continue
		}
		b.Push(p)
		for {
			s := b.pop(false)
			if s == nil {
				break
			}
			out = append(out, sample{data: s.data, pos: fi, ts: s.ts})
		}
	}
	for {
		s := b.pop(true)
		if s == nil {
			break
		}
		out = append(out, sample{data: s.data, pos: len(t.feed), ts: s.ts})
	}
	return out, b
}

func sameSamples(a, b []sample) bool {
	if len(a) != len(b) {
		return false
	}
	for i := range a {
		if a[i].pos != b[i].pos || a[i].ts != b[i].ts || string(a[i].data) != string(b[i].data) {
			return false
		}
	}
	return true
}

// firstFeed maps a packet to the feed position at which the recorder first got it.
func (t *track) firstFeed() map[int]int {
	m := map[int]int{}
	for fi, pi := range t.feed {
		if _, ok := m[pi]; !ok {
			m[pi] = fi
		}
	}
	return m
}

// recorderModel is what a correct recorder writes to a track given the
// samples a builder released (with their release positions in the feed):
// video starts at the first sample carrying the timestamp of a keyframe whose
// first packet the recorder had seen by then, and never goes back before the
// origin (the first keyframe packet to arrive, then the first keyframe
// written); audio is a tail of what the builder released (what precedes the
// creation of the file or the audio origin is dropped).
func (t *track) recorderModelVideo(out []sample) []sample {
	ff := t.firstFeed()
	byTs := map[uint32]int{}
	for i := range t.frames {
		byTs[t.frames[i].ts] = i
	}
	originSet, origin := false, uint32(0)
	originAt := -1
	for fi, pi := range t.feed {
		if f := &t.frames[t.pkts[pi].frame]; f.key && pi == f.p0 {
			originSet, origin, originAt = true, f.ts, fi
			break
		}
	}
	var res []sample
	started := false
	for _, smp := range out {
		if originSet && smp.pos >= originAt && int32(smp.ts-origin) < 0 {
			continue // before the origin
		}
		if !started {
			g, ok := byTs[smp.ts]
			if !ok || !t.frames[g].key {
				continue
			}
			if fp, ok := ff[t.frames[g].p0]; !ok || fp > smp.pos {
				continue // the recorder cannot know this is a keyframe
			}
			started = true
			origin, originSet, originAt = smp.ts, true, -1
		}
		res = append(res, smp)
	}
	return res
}

func dataOf(ss []sample) []string {
	out := make([]string, len(ss))
	for i := range ss {
		out[i] = string(ss[i].data)
	}
	return out
}

func equalStrings(a, b []string) bool {
	if len(a) != len(b) {
		return false
	}
	for i := range a {
		if a[i] != b[i] {
			return false
		}
	}
	return true
}

// faithful: the track in the file is exactly what a correct recorder makes of
// the pinned builder's releases.
func (v *verdict) faithful(t *track, pin []sample) bool {
	file := dataOf(v.per[t.id])
	for _, smp := range v.per[t.id] {
		if smp.file != 0 {
			return false
		}
	}
	if t.id == 1 {
		return equalStrings(file, dataOf(t.recorderModelVideo(pin)))
	}
	// audio: a tail of the releases
	all := dataOf(pin)
	if len(file) > len(all) {
		return false
	}
	return equalStrings(file, all[len(all)-len(file):])
}

// cleanWith: would the track be free of symptoms (other than those already
// explained by another cause) had the builder released out?
func (v *verdict) cleanWith(t *track, out []sample) bool {
	explained := map[string]bool{}
	for _, f := range v.findings {
		if f.trk == t.id && f.key != "" && f.sig != "" {
			explained[f.sig] = true
		}
	}
	var ss []sample
	if t.id == 1 {
		ss = t.recorderModelVideo(out)
	} else {
		// from the first audio frame the recording starts with
		first := v.firstWritten[0]
		if v.s.video == nil {
			first = 0
		}
		_, m := t.checkSamples(out, nil, false)
		for i, x := range m {
			if x.frame < 0 || x.frame >= first {
				ss = append(ss, out[i])
			}
		}
		if first < 0 {
			ss = nil
		}
	}
	issues, _ := t.checkSamples(ss, v.required[t.id], false)
	for _, is := range issues {
		if !explained[is.sig] {
			return false
		}
	}
	return true
}

var builderDefects = map[string]string{
	"A": "samplebuilder:ring-wrap-off-by-one",
	"B": "samplebuilder:duplicate-of-newest-releases-all",
	"C": "samplebuilder:h264-stap-a-split",
}

// handedOver: every block of the track is byte for byte a sample the pinned
// builder released, in release order within each file: the recorder dropped
// samples (before a keyframe, before its origin, around a split) but made none
// of its own.
func (v *verdict) handedOver(t *track, pin []sample) bool {
	file, i := -1, 0
	for _, smp := range v.per[t.id] {
		if smp.file != file {
			file, i = smp.file, 0
		}
		for i < len(pin) && string(pin[i].data) != string(smp.data) {
			i++
		}
		if i == len(pin) {
			return false
		}
		i++
	}
	return len(v.per[t.id]) > 0
}

// releases: which frames a builder released intact, and how often it released
// a sample (by signature, as in issue.sig) that equals no frame.
func (t *track) releases(out []sample) (intact []bool, inexact map[string]int) {
	intact, inexact = make([]bool, len(t.frames)), map[string]int{}
	_, ms := t.checkSamples(out, nil, false)
	for i, m := range ms {
		if m.frame >= 0 {
			intact[m.frame] = true
		} else {
			inexact["x:"+sig(out[i].data)]++
		}
	}
	return
}

// attributeHandedOver files single symptoms of a track under defects of the
// pinned sample builder when the track as a whole could not be: see the
// comment at the top of this file.  trig: how often the instrumented copy saw
// each defect exercised on the packets the recorder received.
func (s *session) attributeHandedOver(v *verdict, t *track, pin []sample, trig map[string]int) {
	if !v.handedOver(t, pin) {
		return
	}
	pinIntact, pinInexact := t.releases(pin)
	all, _ := t.probe(true, true, true)
	allIntact, allInexact := t.releases(all)
	// what comes out when just one defect is left unrepaired
	var triggered []string
	oneIntact, oneInexact := map[string][]bool{}, map[string]map[string]int{}
	for _, x := range []string{"A", "B", "C"} {
		if trig[x] == 0 {
			continue
		}
		triggered = append(triggered, x)
		out, _ := t.probe(x != "A", x != "B", x != "C")
		oneIntact[x], oneInexact[x] = t.releases(out)
	}
	exercised := fmt.Sprintf("defect exercised %d times: ring wrap %d, duplicate of newest %d, partition head inside a sample %d", trig["A"]+trig["B"]+trig["C"], trig["A"], trig["B"], trig["C"])
	repaired := fmt.Sprintf("a repaired builder on the same packets releases %d samples", len(all))
	if len(allInexact) == 0 {
		repaired += ", every one of them a frame sent"
	}
	used := map[string]bool{}
	var needed []string
	var lastF *finding
	for _, f := range v.open() {
		if f.trk != t.id {
			continue
		}
		var need []string
		var how string
		switch {
		case len(f.sig) > 2 && f.sig[:2] == "x:":
			// a block that equals no frame
			if pinInexact[f.sig] == 0 || allInexact[f.sig] > 0 {
				continue
			}
			for _, x := range triggered {
				if oneInexact[x][f.sig] > 0 {
					need = append(need, x)
				}
			}
			how = "the recorder wrote what it was handed: the pinned sample builder, run alone on the packets the recorder received, releases these very bytes (and every other block of the track, in this order); " + repaired + " and none like this one"
			if t.codec == "h264" && trig["A"] > 0 {
				how += "; H264 shape of the ring wrap: a FU-A frame released without its last packet depacketises to nothing or to less than the frame, and pion's H264Packet keeps the orphaned fragments and prepends them to the next fragmented NAL unit"
			}
		case (f.symptom == "frame-missing" || f.symptom == "not-flushed") && f.frame >= 0:
			if pinIntact[f.frame] || !allIntact[f.frame] {
				continue
			}
			for _, x := range triggered {
				if !oneIntact[x][f.frame] {
					need = append(need, x)
				}
			}
			how = "the recorder never got this frame: the pinned sample builder, run alone on the packets the recorder received, does not release it intact (every block of the track is a sample it did release, in this order); " + repaired + ", this frame among them"
		default:
			continue
		}
		back := "; leaving just this defect unrepaired brings the symptom back ("
		if len(need) == 0 {
			// only the defects together bring it back
			need = triggered
			back = "; no single defect left unrepaired brings the symptom back, all those exercised together do ("
		}
		f.key = builderDefects[need[0]]
		used[need[0]] = true
		for _, x := range need {
			found := false
			for _, y := range needed {
				found = found || x == y
			}
			if !found {
				needed = append(needed, x)
			}
		}
		lastF = f
		f.what += " - " + how + back + exercised + ")"
	}
	for _, x := range needed {
		if !used[x] {
			// every necessary defect gets reported
			v.findings = append(v.findings, &finding{symptom: lastF.symptom, trk: t.id, frame: -1, key: builderDefects[x], what: t.codec + " track: also needed to explain the symptoms of this track (removing any one of the defects alone does not make them go away)"})
		}
	}
}

// attributeClusterDrop: see muxer-drops-block-32s-behind-cluster at the top of
// this file.
func (s *session) attributeClusterDrop(v *verdict, pin []sample) {
	t := s.video
	_, ms := t.checkSamples(pin, nil, false)
	relPos := map[int]int{}
	for i, m := range ms {
		if m.frame >= 0 {
			relPos[m.frame] = pin[i].pos
		}
	}
	blk := map[int]sample{}
	for i, m := range v.matches[1] {
		if m.frame >= 0 {
			blk[m.frame] = v.per[1][i]
		}
	}
	for _, f := range v.open() {
		if f.trk != 1 || f.frame < 0 || f.symptom != "frame-missing" {
			continue
		}
		pos, ok := relPos[f.frame]
		if !ok {
			continue
		}
		g := &t.frames[f.frame]
		for h := f.frame + 1; h < len(t.frames); h++ {
			if p, ok := relPos[h]; !ok || p != pos {
				break // the burst ends here
			}
			b, ok := blk[h]
			if !ok {
				continue
			}
			// the later of the two timecodes the frame can have (the origin is
			// known modulo the 90 ticks of a millisecond only)
			tc := b.tc - int64(t.frames[h].ts-g.ts)/90
			if b.tc < b.ctc && tc-b.ctc <= -32767 {
				f.key = "muxer-drops-block-32s-behind-cluster"
				f.what += fmt.Sprintf(" - the recorder had the frame: the pinned sample builder, run alone on the packets the recorder received, releases it intact at feed position %d in one burst with frame %d, which is in the file at %d ms in a cluster that starts at %d ms (relative timecode %d: nothing but this burst's video was written in between); this frame's timecode is %d ms, %d ms behind the cluster: the muxer (mkvcore block writer) silently drops a block 32767 ms or more behind its current cluster", pos, h, b.tc, b.ctc, b.tc-b.ctc, tc, b.ctc-tc)
			}
			break
		}
	}
}

// staleInfo: which keyframes the pinned builder released only after the first
// packet of another keyframe had arrived, and when the first keyframe that is
// not stale came out.
func (t *track) staleInfo(pin []sample) (stale []bool, released []bool, goodKfAt int, relIdx []int, goodKfIdx int) {
	n := len(t.frames)
	stale, released = make([]bool, n), make([]bool, n)
	goodKfAt, goodKfIdx = -1, -1
	relIdx = make([]int, n) // index in pin of the sample carrying the frame's timestamp
	for i := range relIdx {
		relIdx[i] = -1
	}
	ff := t.firstFeed()
	byTs := map[uint32]int{}
	for i := range t.frames {
		byTs[t.frames[i].ts] = i
	}
	originSet, originTs := false, uint32(0)
	for _, pi := range t.feed {
		if f := &t.frames[t.pkts[pi].frame]; f.key && pi == f.p0 {
			originSet, originTs = true, f.ts
			break
		}
	}
	for si, smp := range pin {
		g, ok := byTs[smp.ts]
		if !ok {
			continue
		}
		released[g] = true
		if relIdx[g] < 0 {
			relIdx[g] = si
		}
		if !t.frames[g].key {
			continue
		}
		if originSet && int32(smp.ts-originTs) < 0 {
			continue
		}
		own, ok := ff[t.frames[g].p0]
		if !ok {
			continue
		}
		st := false
		for h := range t.frames {
			if h == g || !t.frames[h].key {
				continue
			}
			if fp, ok := ff[t.frames[h].p0]; ok && fp > own && fp <= smp.pos {
				st = true
			}
		}
		if st {
			stale[g] = true
		} else if goodKfAt < 0 {
			goodKfAt, goodKfIdx = smp.pos, si
		}
	}
	return
}

// wrapMisfire: the pinned builder released a video sample at least 2^16 ticks
// older than the timestamp of the first keyframe packet that had arrived.
func (t *track) wrapMisfire(pin []sample) (bool, string) {
	if t.id != 1 {
		return false, ""
	}
	originAt := -1
	var origin uint32
	for fi, pi := range t.feed {
		if f := &t.frames[t.pkts[pi].frame]; f.key && pi == f.p0 {
			originAt, origin = fi, f.ts
			break
		}
	}
	if originAt < 0 {
		return false, ""
	}
	for _, smp := range pin {
		if smp.pos >= originAt && int32(smp.ts-origin) < 0 && origin-smp.ts >= 0x10000 {
			return true, fmt.Sprintf("the sample builder released a sample with timestamp %d at feed position %d, %d ticks (%.0f ms) before the origin %d set by the first keyframe packet (feed position %d)", smp.ts, smp.pos, origin-smp.ts, float64(origin-smp.ts)/90, origin, originAt)
		}
	}
	return false, ""
}

func (s *session) hasMidstreamSR() bool {
	first := int64(-1)
	for i, e := range s.events {
		if e.pkt >= 0 {
			first = int64(i)
			break
		}
	}
	for _, t := range s.tracks {
		for _, ev := range t.srEvents {
			if ev > first {
				return true
			}
		}
	}
	return false
}

// attribute gives every finding of v a key.  rerun is nil for the replay of a
// session without sender reports (no second intervention).
func (s *session) attribute(v *verdict, rerun func() (*session, *verdict)) {
	if len(v.findings) == 0 {
		return
	}
	class := s.p.Class
	kind := func(f *finding) string {
		if f.trk < 0 {
			return "session"
		}
		return s.trackById(f.trk).kind.String()
	}

	// ---- self-evident ones
	for _, f := range v.findings {
		if f.symptom == "recovered-frame-padded" {
			f.key = "recovered-frame-padded"
		}
		if f.symptom == "wrong-doctype" {
			f.key = "wrong-doctype"
			if s.afterMkv >= 0 && s.p.Video != "h264" {
				f.key = "wrong-doctype:after-mkv-recording"
			}
		}
		if (f.symptom == "frame-missing" || f.symptom == "not-flushed") && f.trk >= 0 && f.frame >= 0 {
			t := s.trackById(f.trk)
			fr := &t.frames[f.frame]
			if !t.allPushed(fr) {
				k := fr.p0
				for k < fr.p0+fr.pn-1 && t.firstPush[k] >= 0 {
					k++
				}
				f.key = "packet-not-fetched-from-cache"
				f.what += fmt.Sprintf(" (packet %d of the frame, seqno %d, was withheld from Write, sits in the cache, and the recorder never got it from GetPacket although it saw later packets)", k-fr.p0, t.pkts[k].seq)
			}
		}
	}

	// ---- the origin is set by the first keyframe PACKET to arrive; a keyframe
	// (and what follows it) with an older timestamp that is completed later
	// lies before the origin and is dropped
	if s.video != nil {
		t := s.video
		for _, pi := range t.feed {
			if kf := &t.frames[t.pkts[pi].frame]; kf.key && pi == kf.p0 {
				for _, f := range v.open() {
					if f.trk == 1 && f.frame >= 0 && (f.symptom == "frame-missing" || f.symptom == "not-flushed") && int32(t.frames[f.frame].ts-kf.ts) < 0 {
						f.key = "origin-set-by-later-keyframe"
						f.what += fmt.Sprintf(" (the first packet of keyframe %d, timestamp %d, reached the recorder before this frame's keyframe did and fixed the origin; this frame, timestamp %d, lies before it)", kf.idx, kf.ts, t.frames[f.frame].ts)
					}
				}
				break
			}
		}
	}

	// ---- the pinned sample builder, track by track
	type probeRes struct {
		pin    []sample
		same   bool
		pb     *probeBuilder
		causes []string
	}
	probes := map[int]*probeRes{}
	for _, t := range s.tracks {
		pr := &probeRes{pin: t.pinned()}
		var cp []sample
		cp, pr.pb = t.probe(false, false, false)
		pr.same = sameSamples(pr.pin, cp)
		probes[t.id] = pr
		has := false
		for _, f := range v.open() {
			has = has || f.trk == t.id
		}
		if !has || !pr.same || t.selfFetch > 0 {
			continue
		}
		trig := map[string]int{"A": pr.pb.trigA, "B": pr.pb.trigB, "C": pr.pb.trigC}
		if trig["A"]+trig["B"]+trig["C"] == 0 {
			continue
		}
		if !v.faithful(t, pr.pin) {
			// the track as a whole is not what a correct recorder makes of the
			// pinned builder's releases (a split recording, say): single
			// symptoms may still be the builder's beyond doubt
			s.attributeHandedOver(v, t, pr.pin, trig)
			continue
		}
		if all, _ := t.probe(true, true, true); !v.cleanWith(t, all) {
			s.attributeHandedOver(v, t, pr.pin, trig)
			continue
		}
		// which defects are necessary
		var need []string
		for _, x := range []string{"A", "B", "C"} {
			if trig[x] == 0 {
				continue
			}
			out, _ := t.probe(x != "A", x != "B", x != "C")
			if !v.cleanWith(t, out) {
				need = append(need, x)
			}
		}
		if len(need) == 0 {
			for _, x := range []string{"A", "B", "C"} {
				if trig[x] > 0 {
					need = append(need, x)
				}
			}
		}
		for _, x := range need {
			pr.causes = append(pr.causes, builderDefects[x])
		}
		i := 0
		for _, f := range v.open() {
			if f.trk != t.id {
				continue
			}
			// spread the findings over the necessary defects, the first one first
			f.key = pr.causes[min(i, len(pr.causes)-1)]
			i++
			f.what += fmt.Sprintf(" - the recording holds exactly what the pinned sample builder released for the packets the recorder received; a repaired builder on the same packets gives a clean track (defect exercised %d times: ring wrap %d, duplicate of newest %d, partition head inside a sample %d)", trig["A"]+trig["B"]+trig["C"], trig["A"], trig["B"], trig["C"])
		}
		for len(pr.causes) > i && i > 0 {
			// every necessary defect gets reported
			last := v.findings[len(v.findings)-1]
			v.findings = append(v.findings, &finding{symptom: last.symptom, trk: t.id, frame: -1, key: pr.causes[i], what: t.codec + " track: also needed to explain the symptoms of this track (removing any one of the defects alone does not give a clean track)"})
			i++
		}
	}
	if len(v.open()) == 0 {
		return
	}

	// ---- the muxer drops what is 32.767 s or more behind its current cluster
	if s.video != nil {
		s.attributeClusterDrop(v, probes[1].pin)
	}
	if len(v.open()) == 0 {
		return
	}

	// ---- sender reports: replay the session without them
	if rerun != nil && s.hasMidstreamSR() {
		s2, v2 := rerun()
		if v2 != nil {
			s2.attribute(v2, nil)
			moved := 0.0
			for _, t := range s.tracks {
				if m := originMoved(t, v.matches[t.id]); m > moved {
					moved = m
				}
			}
			for _, f := range v.open() {
				var twin *finding
				for _, g := range v2.findings {
					if g.symptom == f.symptom && g.trk == f.trk && g.frame == f.frame {
						twin = g
					}
				}
				if twin != nil {
					f.key = twin.key
					f.what += " [same symptom when the session is replayed without sender reports: " + twin.what + "]"
					continue
				}
				switch f.symptom {
				case "timecode-decreases", "frame-missing", "not-flushed", "recording-split", "file-left-open", "frame-out-of-order":
				default:
					// a wrong alignment (av-origin) or anything else is not
					// what an origin moving forward does
					continue
				}
				f.key = "sender-report-moves-origin"
				f.what += fmt.Sprintf(" - the session has sender reports after recording began (events audio %v, video %v) and the same session replayed without any sender report does not show this", srOf(s.audio), srOf(s.video))
				if moved > 2 {
					f.what += fmt.Sprintf("; in the recording the offset between file time and capture time changes by %.0f ms within a track", moved)
				}
			}
		}
	}
	if len(v.open()) == 0 {
		return
	}

	// ---- the 2^16 "wrap" heuristic
	if s.video != nil {
		if hit, how := s.video.wrapMisfire(probes[1].pin); hit {
			for _, f := range v.open() {
				switch f.symptom {
				case "recording-split", "file-left-open", "frame-missing", "not-flushed", "malformed-container", "timecode-decreases", "frame-out-of-order":
					f.key = "wrap-heuristic-misfire"
					f.what += "; " + how + ", which the recorder takes for a timestamp wrap: it closes the file and forgets its origins"
				}
			}
		}
	}

	// ---- recorder defects 2 and 3 (c20-fix2, c20-fix3), from the release schedule
	if s.video != nil {
		pr := probes[1]
		stale, released, goodKfAt, relIdx, goodKfIdx := s.video.staleInfo(pr.pin)
		staleAt := func(i int) bool {
			for g := i; g >= 0; g-- {
				if s.video.frames[g].key && released[g] {
					return stale[g]
				}
			}
			return false
		}
		closingFlush := len(s.openFds) > 0 && s.audio != nil && goodKfAt == len(s.video.feed)
		for _, f := range v.open() {
			switch {
			case closingFlush && (f.symptom == "file-left-open" || f.symptom == "frame-missing" || f.symptom == "not-flushed" || f.symptom == "malformed-container"):
				f.key = "closing-flush-creates-file"
				f.what += "; no video keyframe had been released by the sample builder before the closing call (its forced flush released the first one), so the file was created during the close, after the audio writer had already been closed"
			case f.trk == 1 && f.frame >= 0 && (f.symptom == "frame-missing" || f.symptom == "not-flushed") && staleAt(f.frame) && (goodKfIdx < 0 || relIdx[f.frame] < goodKfIdx):
				// (once a keyframe that was not stale has come out the file
				// exists, and a stale keyframe is merely written without its flag)
				f.key = "stale-keyframe"
				f.what += " (its keyframe was released by the sample builder only after the first packet of another keyframe had arrived)"
			}
		}
	}
	if len(v.open()) == 0 {
		return
	}

	for _, f := range v.open() {
		f.key = "unattributed:" + f.symptom + ":" + class
		if f.trk >= 0 {
			pr := probes[f.trk]
			f.what += fmt.Sprintf(" [%s track; probe: copy==pinned %v, triggers A=%d B=%d C=%d]", kind(f), pr.same, pr.pb.trigA, pr.pb.trigB, pr.pb.trigC)
		}
	}
}

func srOf(t *track) []int64 {
	if t == nil {
		return nil
	}
	return t.srEvents
}

// report files the findings as violations (one per key and session).
func (s *session) report(v *verdict) {
	seen := map[string]bool{}
	for _, f := range v.findings {
		if seen[f.key] {
			continue
		}
		seen[f.key] = true
		s.violation(f.key, f.symptom+": "+f.what)
	}
}
