package main

// End-to-end tier of C20: the real server (websocket signalling, pion up connection over
// SRTP, packet cache, writer pool, diskwriter) records streams the harness publishes, and
// the WebM files it leaves behind are read back with vebml and judged against the frames
// that were sent.
//
// One session = one group with an operator (permission "op" in a group that allows
// recording) and a presenter.  The presenter publishes VP8 (+ Opus in two sessions out of
// three) built by the harness: multi-packet frames (S bit on the first packet, marker on
// the last), every frame carrying its index and a keyed hash filler, so a recorded block
// equals at most one sent frame.  Phases of the stream:
//
//	pre-roll   a keyframe and deltas, until the last keyframe is > 70 packets back
//	record     the operator sends groupaction record and waits for the RECORDING user
//	attach     single-packet deltas until the server's PLI reaches the publisher: the
//	           recorder's tracks are attached (the only down tracks of this stream), and
//	           they were attached where the server does NOT replay its cache from the last
//	           keyframe concurrently with live forwarding (rtpWriterLoop does that when
//	           the keyframe is < 40 packets back; the replay reorders and duplicates
//	           packets, which is the trigger of two open sample-builder findings)
//	main       the PRNG-determined number of frames, keyframe every 30..60 frames
//	end        unrecord in mid-stream / unrecord after the stream / the publisher closes
//	           the stream / the publisher leaves; each has a logical barrier after which
//	           the server's closing call has returned
//
// One session in six starts its camera only after the recording began (audio-only
// pre-roll; the server pushes the connection to the recorder a second time when the
// video track shows up).  The path is real and lossy under load (the publisher never
// retransmits), so completeness is NOT demanded here; frames missing / present are only
// counted.  Judged per file and track: every block is byte-identical to one sent frame,
// no frame twice, send order, timecodes never decrease, the first video block is a
// keyframe, the container parses and declares only tracks of the connection, no file is
// left open.  A separate child probes one history that can kill the server (longGap).
// C20_E2E_STRESS="batches sessions frames" overloads the path on purpose,
// C20_E2E_NO_PROBES=1 leaves out the late-camera sessions and the long-gap child.

import (
	"encoding/binary"
	"fmt"
	"math/rand/v2"
	"os"
	"path/filepath"
	"sort"
	"strings"
	"sync"
	"time"

	"github.com/jech/samplebuilder"
	"github.com/pion/rtcp"
	"github.com/pion/rtp"
	"github.com/pion/rtp/codecs"

	"github.com/jech/galene/rtpconn"

	"verif/harness/vclient"
	"verif/harness/vebml"
	"verif/harness/vk"
	"verif/harness/vrtc"
	"verif/harness/vsrv"
)

type e2eArgs struct {
	Index    uint64 `json:"index"`
	Sessions int    `json:"sessions"`
	Frames   int    `json:"frames"`
	Probe    string `json:"probe,omitempty"`
}

// what the server's receive loops stored in their caches, per up track (trace point)
var e2eStored = struct {
	mu sync.Mutex
	m  map[uint32][]uint16
}{m: map[uint32][]uint16{}}

func e2eStoredOf(ssrc uint32) []uint16 {
	e2eStored.mu.Lock()
	defer e2eStored.mu.Unlock()
	return append([]uint16(nil), e2eStored.m[ssrc]...)
}

type e2ePlan struct {
	Batch      uint64 `json:"e2e_batch"`
	Session    int    `json:"e2e_session"`
	Frames     int    `json:"frames"`
	IntervalUs int    `json:"frame_interval_us"`
	Audio      bool   `json:"audio"`
	Desc       int    `json:"vp8_descriptor"`
	SeqWrapV   bool   `json:"seqno_wrap_video"`
	SeqWrapA   bool   `json:"seqno_wrap_audio"`
	TsWrapV    bool   `json:"ts_wrap_video"`
	TsWrapA    bool   `json:"ts_wrap_audio"`
	End        string `json:"end"`
	VideoLate  bool   `json:"video_starts_after_record,omitempty"`
	Probe      string `json:"probe,omitempty"`
	Tail       int    `json:"frames_after_unrecord"`
	Width      int    `json:"width"`
	Height     int    `json:"height"`
}

var e2eEnds = []string{"unrecord-midstream", "close", "unrecord", "leave"}

func e2eMakePlan(run *vk.Run, a e2eArgs, si int) e2ePlan {
	r := run.Rand(20, a.Index, uint64(si))
	k := si + int(a.Index)
	p := e2ePlan{Batch: a.Index, Session: si}
	p.Frames = a.Frames*3/4 + r.IntN(a.Frames/2+1)
	p.IntervalUs = []int{4000, 5000, 6000}[r.IntN(3)]
	p.Audio = k%3 != 2
	p.Desc = r.IntN(3)
	p.SeqWrapV = k%2 == 0
	p.TsWrapV = k%3 == 0
	p.SeqWrapA = p.Audio && r.IntN(2) == 0
	p.TsWrapA = p.Audio && r.IntN(3) == 0
	p.End = e2eEnds[k%len(e2eEnds)]
	// an audio session in which the camera starts after the recording began
	p.VideoLate = k%6 == 1 && os.Getenv("C20_E2E_NO_PROBES") == ""
	p.Tail = 20 + r.IntN(60)
	p.Width, p.Height = 64*(1+r.IntN(20)), 48*(1+r.IntN(20))
	return p
}

func (p e2ePlan) name() string { return fmt.Sprintf("%d-%d", p.Batch, p.Session) }

// ---------------------------------------------------------------------------
// ground truth

type e2eFrame struct {
	idx   int
	ts    uint32
	key   bool
	capUs int64
	data  []byte
	pkts  []*rtp.Packet
	phase string
}

type e2eTrack struct {
	kind   string
	ssrc   uint32
	frames []*e2eFrame
	byData map[string]int
	bySeq  map[uint16][2]int // seqno -> frame, packet within the frame
	npkts  int
}

type e2eGen struct {
	p          e2ePlan
	r          *rand.Rand
	tag        uint64
	capUs      int64 // capture instant of the next video frame on the virtual clock
	nextAudio  int64
	vseq, aseq uint16
	vts0, ats0 uint32
	pid        uint16
	tl0        uint8
	vt, at     *e2eTrack
}

func e2eNewGen(run *vk.Run, p e2ePlan) *e2eGen {
	r := run.Rand(21, p.Batch, uint64(p.Session))
	g := &e2eGen{p: p, r: r, tag: r.Uint64()}
	g.vt = &e2eTrack{kind: "video", byData: map[string]int{}, bySeq: map[uint16][2]int{}}
	g.at = &e2eTrack{kind: "audio", byData: map[string]int{}, bySeq: map[uint16][2]int{}}
	// pre-roll and attach take a few hundred packets / half a second of the virtual
	// clock; wraps are placed well behind that, inside the main stream
	mainUs := int64(p.Frames) * int64(p.IntervalUs)
	g.vseq = uint16(r.UintN(20000))
	if p.SeqWrapV {
		g.vseq = uint16(65536 - 300 - r.IntN(p.Frames))
	}
	g.aseq = uint16(r.UintN(20000))
	if p.SeqWrapA {
		g.aseq = uint16(65536 - 40 - r.IntN(int(mainUs/20000/2)+1))
	}
	g.vts0 = uint32(r.UintN(1 << 31))
	if p.TsWrapV {
		g.vts0 = uint32(0) - uint32((600000+r.Int64N(mainUs/2))*9/100)
	}
	g.ats0 = uint32(r.UintN(1 << 31))
	if p.TsWrapA {
		g.ats0 = uint32(0) - uint32((600000+r.Int64N(mainUs/2))*48/1000)
	}
	g.pid = uint16(r.UintN(1 << 15))
	g.tl0 = uint8(r.UintN(256))
	g.nextAudio = int64(r.IntN(20000))
	return g
}

func e2eChunks(r *rand.Rand, n, firstMin int) []int {
	out := make([]int, n)
	mode := r.IntN(10)
	for i := range out {
		switch {
		case mode < 4:
			out[i] = 1 + r.IntN(1150)
		case mode < 8:
			if i < n-1 {
				out[i] = 1000 + r.IntN(151)
			} else {
				out[i] = 1 + r.IntN(1150)
			}
		default:
			out[i] = 1 + r.IntN(40)
		}
	}
	if out[0] < firstMin {
		out[0] = firstMin + r.IntN(20)
	}
	return out
}

func (g *e2eGen) video(key bool, npk int, phase string) *e2eFrame {
	t := g.vt
	idx := len(t.frames)
	sizes := e2eChunks(g.r, npk, 18)
	total := 0
	for _, c := range sizes {
		total += c
	}
	body := make([]byte, total)
	fillHash(body, g.tag, 1, uint64(idx), uint64(total))
	if key {
		w, h := g.p.Width, g.p.Height
		body[0] &^= 1
		body[3], body[4], body[5] = 0x9d, 0x01, 0x2a
		body[6], body[7] = byte(w), byte(w>>8)&0x3f
		body[8], body[9] = byte(h), byte(h>>8)&0x3f
	} else {
		body[0] |= 1
	}
	binary.BigEndian.PutUint32(body[10:], uint32(idx))
	binary.BigEndian.PutUint32(body[14:], uint32(g.tag))
	f := &e2eFrame{idx: idx, key: key, capUs: g.capUs, data: body, phase: phase}
	f.ts = g.vts0 + uint32(g.capUs*9/100)
	off := 0
	for k, c := range sizes {
		sbit := byte(0)
		if k == 0 {
			sbit = 0x10
		}
		var d []byte
		switch g.p.Desc {
		case 0:
			d = []byte{sbit}
		case 1:
			d = []byte{0x80 | sbit, 0x80, 0x80 | byte(g.pid>>8), byte(g.pid)}
		default:
			d = []byte{0x80 | sbit, 0xE0, 0x80 | byte(g.pid>>8), byte(g.pid), g.tl0, byte(idx%3) << 6}
		}
		payload := append(d, body[off:off+c]...)
		off += c
		f.pkts = append(f.pkts, &rtp.Packet{Header: rtp.Header{Version: 2, PayloadType: 96, SequenceNumber: g.vseq, Timestamp: f.ts, Marker: k == len(sizes)-1}, Payload: payload})
		t.bySeq[g.vseq] = [2]int{idx, k}
		g.vseq++
		t.npkts++
	}
	g.pid = (g.pid + 1) & 0x7fff
	g.tl0++
	t.byData[string(body)] = idx
	t.frames = append(t.frames, f)
	g.capUs += int64(g.p.IntervalUs)
	if phase == "main" && g.r.IntN(25) == 0 {
		g.capUs += int64(g.p.IntervalUs) * int64(1+g.r.IntN(2)) // the encoder skipped frames
	}
	return f
}

func (g *e2eGen) audio() *e2eFrame {
	t := g.at
	idx := len(t.frames)
	size := 8 + g.r.IntN(150)
	if g.r.IntN(20) == 0 {
		size = 8 + g.r.IntN(1000)
	}
	body := make([]byte, size)
	fillHash(body, g.tag, 0, uint64(idx), uint64(size))
	binary.BigEndian.PutUint32(body[1:], uint32(idx))
	f := &e2eFrame{idx: idx, key: true, capUs: g.nextAudio, data: body, phase: "audio"}
	f.ts = g.ats0 + uint32(g.nextAudio*48/1000)
	f.pkts = []*rtp.Packet{{Header: rtp.Header{Version: 2, PayloadType: 111, SequenceNumber: g.aseq, Timestamp: f.ts}, Payload: append([]byte(nil), body...)}}
	t.bySeq[g.aseq] = [2]int{idx, 0}
	g.aseq++
	t.npkts++
	t.byData[string(body)] = idx
	t.frames = append(t.frames, f)
	g.nextAudio += 20000
	return f
}

func (g *e2eGen) deltaPackets() int {
	switch x := g.r.IntN(100); {
	case x < 25:
		return 1
	case x < 55:
		return 2
	case x < 80:
		return 3
	case x < 92:
		return 4
	}
	return 5 + g.r.IntN(2)
}

// ---------------------------------------------------------------------------
// one session against the real server

type e2eSess struct {
	run   *vk.Run
	p     e2ePlan
	gen   *e2eGen
	group string
	dir   string

	op, pubc *vclient.Client
	pub      *vrtc.Peer
	up       *vrtc.Up
	vtr, atr *vrtc.UpTrack
	t0       time.Time
	burst    bool // no pacing

	diskID       string
	plisBefore   int
	attachFrames int
	unrecordAt   int // video frame index before which unrecord was sent (-1: not in mid-stream)
	inconclusive string
}

const e2eWatchdog = 90 * time.Second

func (s *e2eSess) plis() int {
	n := 0
	for _, e := range s.vtr.RTCP() {
		if _, ok := e.P.(*rtcp.PictureLossIndication); ok {
			n++
		}
	}
	return n
}

// pace sleeps until the virtual clock reaches capUs; when the sender has fallen behind
// by more than 100 ms the virtual clock is held back instead of sending a burst.
// Pacing only: no verdict depends on it.
func (s *e2eSess) pace(capUs int64) {
	if s.burst {
		return
	}
	due := s.t0.Add(time.Duration(capUs) * time.Microsecond)
	d := time.Until(due)
	if d > 0 {
		time.Sleep(d)
	} else if d < -100*time.Millisecond {
		s.t0 = s.t0.Add(-d)
	}
}

func (s *e2eSess) resume() {
	s.t0 = time.Now().Add(-time.Duration(s.gen.capUs) * time.Microsecond)
}

func (s *e2eSess) send(f *e2eFrame) bool {
	for s.p.Audio && s.gen.nextAudio <= f.capUs {
		af := s.gen.audio()
		s.pace(af.capUs)
		if err := s.atr.Local.WriteRTP(af.pkts[0]); err != nil {
			return false
		}
	}
	s.pace(f.capUs)
	for _, pk := range f.pkts {
		if err := s.vtr.Local.WriteRTP(pk); err != nil {
			return false
		}
	}
	return true
}

// audioOnly advances the virtual clock by us microseconds with the video silent.
func (s *e2eSess) audioOnly(us int64) bool {
	g := s.gen
	g.capUs += us
	for g.nextAudio <= g.capUs {
		af := g.audio()
		s.pace(af.capUs)
		if err := s.atr.Local.WriteRTP(af.pkts[0]); err != nil {
			return false
		}
	}
	return true
}

func isRecordingUser(kind string) func(vclient.Msg) bool {
	return func(m vclient.Msg) bool {
		return m.Str("type") == "user" && m.Str("kind") == kind && m.Str("username") == "RECORDING"
	}
}

// waitDiskGone: the operator is told that the recording client has left the group; the
// server deletes it after diskwriter's Close has returned.
func (s *e2eSess) waitDiskGone(from int) bool {
	_, ok := s.op.WaitForFrom(from, func(m vclient.Msg) bool {
		return m.Str("type") == "user" && m.Str("kind") == "delete" && m.Str("id") == s.diskID
	}, e2eWatchdog)
	return ok
}

// play runs the session; it returns why the session could not be established ("" = ok).
// s.inconclusive is set when a barrier after the stream timed out.
func (s *e2eSess) play(srv *vsrv.Server) string {
	run, p, g := s.run, s.p, s.gen
	name := p.name()
	s.group = "rec-" + name
	s.dir = filepath.Join(srv.RecDir, s.group)
	s.unrecordAt = -1
	err := srv.WriteGroup(s.group, map[string]any{
		"allow-recording": true,
		"users": map[string]any{
			"oper": map[string]any{"password": "pw", "permissions": "op"},
			"cam":  map[string]any{"password": "pw", "permissions": "present"},
		},
	})
	if err != nil {
		return "group file: " + err.Error()
	}
	if s.op, err = vclient.Dial(srv, "op-"+name); err != nil {
		return "operator dial: " + err.Error()
	}
	defer s.op.Close()
	m, ok := s.op.Join(s.group, "oper", "pw")
	if !ok || m.Str("kind") != "join" {
		return "operator join failed"
	}
	canRecord := false
	for _, perm := range m.StrList("permissions") {
		canRecord = canRecord || perm == "record"
	}
	if !canRecord {
		return "operator has no record permission"
	}
	if s.pubc, err = vclient.Dial(srv, "pub-"+name); err != nil {
		return "publisher dial: " + err.Error()
	}
	defer s.pubc.Close()
	if m, ok := s.pubc.Join(s.group, "cam", "pw"); !ok || m.Str("kind") != "join" {
		return "publisher join failed"
	}
	s.pub = vrtc.NewPeer(s.pubc)
	defer s.pub.Shutdown()
	specs := []vrtc.TrackSpec{{Kind: "video", ID: "v0"}}
	if p.Audio {
		specs = append(specs, vrtc.TrackSpec{Kind: "audio", ID: "a0"})
	}
	s.up, err = s.pub.Publish("st-"+name, "camera", specs, "")
	if err != nil || s.up.Wait(45*time.Second) != "connected" {
		return "publisher did not connect"
	}
	s.vtr, s.atr = s.up.Track("v0"), s.up.Track("a0")
	ssrcOf := func(t *vrtc.UpTrack) uint32 {
		if enc := t.Sender.GetParameters().Encodings; len(enc) > 0 {
			return uint32(enc[0].SSRC)
		}
		return 0
	}
	g.vt.ssrc = ssrcOf(s.vtr)
	if p.Audio {
		g.at.ssrc = ssrcOf(s.atr)
	}

	stored := func(t *e2eTrack) bool { return len(e2eStoredOf(t.ssrc)) > 0 }
	record := func() string {
		if s.plisBefore = s.plis(); s.plisBefore > 0 {
			return "a keyframe request reached the publisher before any receiver existed"
		}
		from := s.op.EventCount()
		run.Note("session " + name + ": record")
		s.op.Send(vclient.Msg{"type": "groupaction", "kind": "record"})
		dm, ok := s.op.WaitForFrom(from, isRecordingUser("add"), e2eWatchdog)
		if !ok {
			return "the recording client did not show up"
		}
		s.diskID = dm.Str("id")
		s.resume()
		return ""
	}
	s.resume()
	deadline := time.Now().Add(30 * time.Second)
	if p.VideoLate {
		// the microphone is there first: audio only until the recorder has it
		for n := 0; n < 15 || !stored(g.at); n++ {
			if time.Now().After(deadline) {
				return "the server stored no audio packet in the pre-roll"
			}
			if !s.audioOnly(20000) {
				return "publisher connection lost in the pre-roll"
			}
		}
		if why := record(); why != "" {
			return why
		}
		for n := 0; n < 10; n++ {
			if !s.audioOnly(20000) {
				return "publisher connection lost after record"
			}
		}
		// the camera starts: the server learns about the video track from its first
		// packet and pushes the connection again 200 ms later; by then the keyframe
		// is more than 40 packets old (60 packets are sent at once)
		s.resume()
		s.burst = true
		ok := s.send(g.video(true, 2+g.r.IntN(5), "preroll"))
		for sent := 0; ok && sent < 60; {
			f := g.video(false, 2, "preroll")
			sent += len(f.pkts)
			ok = s.send(f)
		}
		s.burst = false
		if !ok {
			return "publisher connection lost when the video started"
		}
		s.resume()
	} else {
		// pre-roll: the tracks come into being on the server, the last keyframe
		// moves more than 40 packets into the past
		want := 70 + g.r.IntN(60)
		if !s.send(g.video(true, 2+g.r.IntN(5), "preroll")) {
			return "publisher connection lost in the pre-roll"
		}
		for sent := 0; sent < want || !stored(g.vt) || (p.Audio && !stored(g.at)); {
			if time.Now().After(deadline) {
				return "the server did not store packets of every track in the pre-roll"
			}
			f := g.video(false, 2+g.r.IntN(3), "preroll")
			sent += len(f.pkts)
			if !s.send(f) {
				return "publisher connection lost in the pre-roll"
			}
		}
		if why := record(); why != "" {
			return why
		}
	}

	// attach: the recorder's tracks are attached when the receive loop sees the next
	// packets; it asks for a keyframe (no replay: the keyframe is > 40 packets back)
	deadline = time.Now().Add(30 * time.Second)
	for s.plis() == 0 {
		if time.Now().After(deadline) {
			return "no keyframe request observed after record (recorder not attached?)"
		}
		s.attachFrames++
		npk := 1
		if p.VideoLate {
			npk = 2
		}
		if !s.send(g.video(false, npk, "attach")) {
			return "publisher connection lost while the recorder attached"
		}
	}
	if p.Probe == "long-gap" {
		return s.longGap()
	}

	// main stream
	from := 0
	nextKey := 3 + g.r.IntN(18)
	for i := 0; i < p.Frames; i++ {
		if p.End == "unrecord-midstream" && i == p.Frames-p.Tail {
			s.unrecordAt = len(g.vt.frames)
			from = s.op.EventCount()
			run.Note("session " + name + ": unrecord (mid-stream)")
			s.op.Send(vclient.Msg{"type": "groupaction", "kind": "unrecord"})
		}
		var f *e2eFrame
		if i == nextKey {
			f = g.video(true, 2+g.r.IntN(7), "main")
			nextKey = i + 30 + g.r.IntN(31)
		} else {
			f = g.video(false, g.deltaPackets(), "main")
		}
		if !s.send(f) {
			return "publisher connection lost in the main stream"
		}
	}
	time.Sleep(150 * time.Millisecond) // let the last packets arrive (pacing only)

	// end + barrier
	run.Note("session " + name + ": end " + p.End)
	switch p.End {
	case "unrecord-midstream":
		if !s.waitDiskGone(from) {
			s.inconclusive = "the recording client did not leave after unrecord"
		}
	case "unrecord":
		from = s.op.EventCount()
		s.op.Send(vclient.Msg{"type": "groupaction", "kind": "unrecord"})
		if !s.waitDiskGone(from) {
			s.inconclusive = "the recording client did not leave after unrecord"
		}
	case "close":
		s.up.Close()
		if !s.pubc.Ping(e2eWatchdog) {
			s.inconclusive = "no pong after the publisher closed its stream"
		}
	case "leave":
		if !s.pubc.Leave(s.group) {
			s.inconclusive = "the publisher's leave was not acknowledged"
		}
	}
	if s.inconclusive == "" && (p.End == "close" || p.End == "leave") {
		// the file is closed by now; remove the idle recording client as well
		from = s.op.EventCount()
		s.op.Send(vclient.Msg{"type": "groupaction", "kind": "unrecord"})
		if !s.waitDiskGone(from) {
			s.inconclusive = "the recording client did not leave after the final unrecord"
		}
	}
	return ""
}

// longGap is the probe of one delivery history inside the property's quantifier ("gaps
// that the cache cannot fill"): with the recorder attached and nothing else buffered, the
// first packet of a two-packet frame is followed by a packet 511 sequence numbers ahead
// (510 packets that never existed).  The session only reports whether the server is
// still there afterwards.
func (s *e2eSess) longGap() string {
	g, run := s.gen, s.run
	ok := s.send(g.video(true, 3, "main"))
	for i := 0; ok && i < 10; i++ {
		ok = s.send(g.video(false, 2, "main"))
	}
	if !ok {
		return "publisher connection lost before the gap"
	}
	f := g.video(false, 2, "main")
	f.pkts[1].SequenceNumber += 510
	g.vseq += 510
	run.Note(fmt.Sprintf("session %s: long gap: packet %d (S bit, no marker) is followed by packet %d", s.p.name(), f.pkts[0].SequenceNumber, f.pkts[1].SequenceNumber))
	run.Count("e2e_long_gap_probes", 1)
	s.send(f)
	for i := 0; i < 20; i++ {
		s.send(g.video(i == 5, 2, "main"))
	}
	if !s.op.Ping(30*time.Second) || !s.pubc.Ping(30*time.Second) {
		time.Sleep(2 * time.Second) // the server is dying: let it write its stack
		return "no pong after the long gap"
	}
	run.Count("e2e_long_gap_survived", 1)
	from := s.op.EventCount()
	s.op.Send(vclient.Msg{"type": "groupaction", "kind": "unrecord"})
	s.waitDiskGone(from)
	return "probe"
}

// ---------------------------------------------------------------------------
// oracle

// cutOf tells whether the first n bytes of frame f end at a packet boundary (and after
// how many packets).
func (t *e2eTrack) cutOf(f *e2eFrame, n int) (int, bool) {
	sum := 0
	for k, pk := range f.pkts {
		body := pk.Payload
		if t.kind == "video" {
			var v codecs.VP8Packet
			if b, err := v.Unmarshal(pk.Payload); err == nil {
				body = b
			}
		}
		sum += len(body)
		if sum == n {
			return k + 1, true
		}
	}
	return 0, false
}

// describe explains a block that equals no frame sent.
func (t *e2eTrack) describe(d []byte) string {
	best, bestL := -1, 0
	for i, f := range t.frames {
		if l := lcp(d, f.data); l > bestL {
			best, bestL = i, l
		}
	}
	if best < 0 {
		for i, f := range t.frames {
			if l := lcs(d, f.data); l > bestL {
				best, bestL = i, l
			}
		}
		if best < 0 {
			return fmt.Sprintf("a %d byte block that shares no prefix or suffix with any frame sent", len(d))
		}
		return fmt.Sprintf("a %d byte block that only shares its last %d bytes with frame #%d (%d bytes, %d packets)", len(d), bestL, best, len(t.frames[best].data), len(t.frames[best].pkts))
	}
	f := t.frames[best]
	switch {
	case bestL == len(d):
		if k, ok := t.cutOf(f, len(d)); ok {
			return fmt.Sprintf("only the first %d of the %d bytes of frame #%d: its first %d of %d packets", len(d), len(f.data), best, k, len(f.pkts))
		}
		return fmt.Sprintf("only the first %d of the %d bytes of frame #%d (%d packets; not a packet boundary)", len(d), len(f.data), best, len(f.pkts))
	case bestL == len(f.data):
		rest := d[bestL:]
		if j, ok := t.byData[string(rest)]; ok {
			return fmt.Sprintf("frame #%d (%d bytes) and frame #%d (%d bytes) in one block", best, len(f.data), j, len(rest))
		}
		return fmt.Sprintf("frame #%d (%d bytes, %d packets) followed by %d more bytes in the same block", best, len(f.data), len(f.pkts), len(rest))
	}
	if sfx := lcs(d, f.data); len(d) < len(f.data) && bestL+sfx >= len(d) {
		return fmt.Sprintf("frame #%d (%d bytes, %d packets) with a hole: %d bytes are missing at offset %d", best, len(f.data), len(f.pkts), len(f.data)-len(d), bestL)
	}
	k, _ := t.cutOf(f, bestL)
	return fmt.Sprintf("a %d byte block that equals frame #%d (%d bytes, %d packets) for its first %d bytes only (packet boundary: %v)", len(d), best, len(f.data), len(f.pkts), bestL, k > 0)
}

// ringWrapExplains decides whether blocks that equal no sent frame come from the open
// finding samplebuilder:ring-wrap-off-by-one: the PINNED sample builder alone, fed with
// the packets the server's receive loop stored (in that order; the recorder gets them in
// that order, directly or from the cache), releases exactly these blocks; the
// instrumented copy has the same output and saw a frame wrap around its ring; and the
// copy with only that defect repaired releases nothing but frames that were sent.
func (s *e2eSess) ringWrapExplains(bad [][]byte) (hit bool, how string) {
	defer func() {
		if recover() != nil { // the pinned builder can panic on long gaps
			hit, how = false, ""
		}
	}()
	t := s.gen.vt
	feed := e2eStoredOf(t.ssrc)
	if len(feed) == 0 || len(bad) == 0 {
		return false, ""
	}
	pin := samplebuilder.New(256, &codecs.VP8Packet{}, 90000)
	cp := newProbeBuilder(256, &codecs.VP8Packet{})
	fx := newProbeBuilder(256, &codecs.VP8Packet{})
	fx.fixA = true
	var pinOut, cpOut, fxOut []string
	clone := func(seq uint16) *rtp.Packet {
		at, ok := t.bySeq[seq]
		if !ok {
			return nil
		}
		src := t.frames[at[0]].pkts[at[1]]
		return &rtp.Packet{Header: src.Header, Payload: append([]byte(nil), src.Payload...)}
	}
	drain := func(force bool) {
		for {
			var smp []byte
			if force {
				x, _ := pin.ForcePopWithTimestamp()
				if x == nil {
					break
				}
				smp = x.Data
			} else {
				x, _ := pin.PopWithTimestamp()
				if x == nil {
					break
				}
				smp = x.Data
			}
			pinOut = append(pinOut, string(smp))
		}
		for {
			x := cp.pop(force)
			if x == nil {
				break
			}
			cpOut = append(cpOut, string(x.data))
		}
		for {
			x := fx.pop(force)
			if x == nil {
				break
			}
			fxOut = append(fxOut, string(x.data))
		}
	}
	for _, seq := range feed {
		a, b, c := clone(seq), clone(seq), clone(seq)
		if a == nil {
			continue
		}
		pin.Push(a)
		cp.Push(b)
		fx.Push(c)
		drain(false)
	}
	drain(true)
	if !equalStrings(pinOut, cpOut) || cp.trigA == 0 {
		return false, ""
	}
	pinBad := map[string]bool{}
	for _, x := range pinOut {
		if _, ok := t.byData[x]; !ok {
			pinBad[x] = true
		}
	}
	for _, b := range bad {
		if !pinBad[string(b)] {
			return false, ""
		}
	}
	for _, x := range fxOut {
		if _, ok := t.byData[x]; !ok {
			return false, ""
		}
	}
	return true, fmt.Sprintf(" - the pinned sample builder alone, fed with the %d packets the server's receive loop stored, releases exactly this block (a frame wrapped around its ring %d times); a copy with only that defect repaired releases sent frames only", len(feed), cp.trigA)
}

// ringWrapPlausible is the fallback when the recorder's exact feed is not what the
// receive loop stored (the writer was congested and the cache had moved on): the block
// is exactly one sent frame of two or more packets without its LAST packet - what the
// pinned builder's pop() makes of a frame that wraps around the end of its ring - and
// the ring can have wrapped: it only does when the builder was never empty for 513
// sequence numbers, which takes unrecoverable gaps less than 257 packets apart, each of
// which costs a frame: at least two frames sent within the 600 packets before this one,
// inside the recording, are in no file.  Without such losses the builder empties at
// every frame end and the block is NOT attributed.
func (s *e2eSess) ringWrapPlausible(d []byte, recorded map[int]bool) (bool, string) {
	t := s.gen.vt
	x := -1
	for i, f := range t.frames {
		if len(f.pkts) >= 2 && len(d) < len(f.data) && lcp(d, f.data) == len(d) {
			if k, ok := t.cutOf(f, len(d)); ok && k == len(f.pkts)-1 {
				x = i
			}
			break
		}
	}
	if x < 0 {
		return false, ""
	}
	first := -1
	for i := range recorded {
		if first < 0 || i < first {
			first = i
		}
	}
	lostBefore := 0
	for j := x - 1; j > first && first >= 0; j-- {
		if t.frames[x].pkts[0].SequenceNumber-t.frames[j].pkts[0].SequenceNumber > 600 {
			break
		}
		if !recorded[j] {
			lostBefore++
		}
	}
	if lostBefore < 2 {
		return false, ""
	}
	return true, fmt.Sprintf(" - the frame lacks exactly its last packet and %d frames sent within the 600 packets before it are in no file: the pinned sample builder was holding packets behind unrecoverable gaps and a frame that wraps around the end of its ring loses its last packet (the recorder's exact feed is not observable on this path; with a repaired builder the same overload produces no such block)", lostBefore)
}

type e2eBlock struct {
	frame int // -1: no frame sent
	tc    int64
	data  []byte
}

func (s *e2eSess) judge() {
	run, p, g := s.run, s.p, s.gen
	name := p.name()
	viol := map[string]string{}
	add := func(key, what string) {
		if _, ok := viol[key]; !ok {
			viol[key] = what
		}
	}
	var files []string
	ents, _ := os.ReadDir(s.dir)
	for _, e := range ents {
		if !e.IsDir() {
			files = append(files, filepath.Join(s.dir, e.Name()))
		}
	}
	sort.Strings(files)
	if len(files) == 0 {
		run.Count("e2e_sessions_without_file", 1)
		run.Note("session " + name + ": no file recorded")
		return
	}
	open := openFilesUnder(s.dir)
	for _, o := range open {
		key := "e2e:file-not-closed"
		if data, err := os.ReadFile(o); err == nil {
			if f, _ := vebml.Parse(data); len(f.Blocks) <= 1 {
				// the header and at most one block: not a recording in progress
				// but a file opened by a packet in flight and then forgotten
				key = "e2e:file-not-closed:stray-file"
			}
		}
		listing := ""
		for i, path := range files {
			data, _ := os.ReadFile(path)
			f, _ := vebml.Parse(data)
			var decl []string
			for _, ft := range f.Tracks {
				decl = append(decl, ft.CodecID)
			}
			mark := ""
			if path == o {
				mark = ", OPEN"
			}
			listing += fmt.Sprintf(" [%d: %s, %d bytes, %v, %d blocks%s]", i+1, filepath.Base(path), len(data), decl, len(f.Blocks), mark)
		}
		add(key, fmt.Sprintf("after the %s barrier (the server's closing call has returned, the recording client has left the group) the server still holds %s open; files of the session in order of creation:%s", p.End, filepath.Base(o), listing))
	}

	tracks := map[string]*e2eTrack{"video": g.vt, "audio": g.at}
	recorded := map[string]map[int]bool{"video": {}, "audio": {}}
	var badVideo [][]byte
	var badWhats []string
	nblocks, matched := 0, map[string]int{}
	stepsOK, stepsOff := 0, 0
	wellformed := 0
	for fi, path := range files {
		data, err := os.ReadFile(path)
		if err != nil {
			run.Inconclusive(fmt.Sprintf("e2e: cannot read %s: %v", path, err))
			return
		}
		base := fmt.Sprintf("file %d of %d (%d bytes)", fi+1, len(files), len(data))
		f, perr := vebml.Parse(data)
		ok := perr == nil
		if perr != nil {
			add("e2e:container-malformed", fmt.Sprintf("%s does not parse: %v (got %d clusters, %d blocks)", base, perr, len(f.Clusters), len(f.Blocks)))
		}
		if (perr == nil || f.DocType != "") && f.DocType != "webm" {
			ok = false
			add("e2e:container-malformed", fmt.Sprintf("%s has DocType %q, want webm", base, f.DocType))
		}
		if !strings.HasSuffix(path, ".webm") {
			ok = false
			add("e2e:container-malformed", fmt.Sprintf("%s: a VP8/Opus recording named %q", base, filepath.Ext(path)))
		}
		if perr == nil && (!f.HasInfo || !f.HasTracks) {
			ok = false
			add("e2e:container-malformed", fmt.Sprintf("%s has Info=%v Tracks=%v", base, f.HasInfo, f.HasTracks))
		}
		kindOf := map[uint64]string{}
		for _, ft := range f.Tracks {
			kind := ""
			switch {
			case ft.Type == 1 && ft.CodecID == "V_VP8":
				kind = "video"
			case ft.Type == 2 && ft.CodecID == "A_OPUS" && p.Audio:
				kind = "audio"
			}
			_, dup := kindOf[ft.Number]
			for _, k := range kindOf {
				dup = dup || (kind != "" && k == kind)
			}
			if kind == "" || dup || ft.Number == 0 {
				ok = false
				add("e2e:container-malformed", fmt.Sprintf("%s declares track #%d %s type %d, which is no track of this connection (VP8 video, opus audio: %v) or declared twice", base, ft.Number, ft.CodecID, ft.Type, p.Audio))
				continue
			}
			kindOf[ft.Number] = kind
			if kind == "video" && int(ft.PixelWidth) == p.Width && int(ft.PixelHeight) == p.Height {
				run.Count("e2e_files_declaring_the_sent_dimensions", 1)
			}
		}
		per := map[string][]e2eBlock{}
		for bi, b := range f.Blocks {
			kind, found := kindOf[b.Track]
			if !found {
				ok = false
				add("e2e:container-malformed", fmt.Sprintf("%s: block %d belongs to track %d, which is not declared", base, bi, b.Track))
				break
			}
			blk := e2eBlock{frame: -1, tc: b.Timecode, data: b.Data}
			if i, hit := tracks[kind].byData[string(b.Data)]; hit {
				blk.frame = i
			}
			per[kind] = append(per[kind], blk)
			nblocks++
		}
		if st, err := os.Stat(path); err == nil && st.Size() != int64(len(data)) {
			add("e2e:file-not-closed", fmt.Sprintf("%s grew to %d bytes after the %s barrier", base, st.Size(), p.End))
		}
		if ok {
			wellformed++
		}
		for _, kind := range []string{"video", "audio"} {
			t := tracks[kind]
			seen := map[int]bool{}
			last, first := -1, true
			var lastTc int64
			var prev *e2eBlock
			for bi := range per[kind] {
				b := &per[kind][bi]
				run.Eval(1)
				if bi > 0 && b.tc < lastTc {
					add("e2e:timecode-decreases", fmt.Sprintf("%s, %s track: the timecode goes from %d back to %d at block %d (frame #%d)", base, kind, lastTc, b.tc, bi, b.frame))
				}
				lastTc = b.tc
				if b.frame < 0 {
					what := fmt.Sprintf("%s, %s block %d (after frame #%d): %s", base, kind, bi, last, t.describe(b.data))
					if kind == "video" {
						badVideo = append(badVideo, b.data)
						badWhats = append(badWhats, what)
					} else {
						add("e2e:block-not-a-sent-frame", what)
					}
					first = false
					prev = nil
					continue
				}
				fr := t.frames[b.frame]
				if first && kind == "video" && !fr.key {
					add("e2e:first-block-not-keyframe", fmt.Sprintf("%s starts with video frame #%d, which was not sent as a keyframe", base, b.frame))
				}
				first = false
				switch {
				case seen[b.frame]:
					add("e2e:frame-recorded-twice", fmt.Sprintf("%s, %s track: frame #%d (%d bytes) is in the file twice (second time at block %d)", base, kind, b.frame, len(b.data), bi))
				case b.frame < last:
					add("e2e:blocks-out-of-order", fmt.Sprintf("%s, %s track: frame #%d is written after frame #%d (block %d)", base, kind, b.frame, last, bi))
				}
				if prev != nil && b.frame > prev.frame {
					// informational: does the file time follow the RTP clock?
					rate := int64(90)
					if kind == "audio" {
						rate = 48
					}
					dts := int64(int32(fr.ts-t.frames[prev.frame].ts)) / rate
					if d := (b.tc - prev.tc) - dts; d >= -1 && d <= 1 {
						stepsOK++
					} else {
						stepsOff++
					}
				}
				seen[b.frame] = true
				recorded[kind][b.frame] = true
				if b.frame > last {
					last = b.frame
				}
				matched[kind]++
				prev = b
			}
		}
	}
	if len(badVideo) > 0 {
		if hit, how := s.ringWrapExplains(badVideo); hit {
			add("samplebuilder:ring-wrap-off-by-one", badWhats[0]+how)
		} else {
			for i, b := range badVideo {
				if ok, how := s.ringWrapPlausible(b, recorded["video"]); ok {
					add("samplebuilder:ring-wrap-off-by-one", badWhats[i]+how)
				} else {
					add("e2e:block-not-a-sent-frame", badWhats[i])
				}
			}
		}
	}

	// accounting (what was lost on the way is counted, not judged)
	run.Count("e2e_sessions_judged", 1)
	run.Count("e2e_sessions_end_"+p.End, 1)
	if p.VideoLate {
		run.Count("e2e_sessions_camera_started_after_record", 1)
	}
	run.Count("e2e_files_parsed", int64(len(files)))
	run.Count("e2e_files_wellformed", int64(wellformed))
	run.Count("e2e_files_closed", int64(len(files)-len(open)))
	run.Count("e2e_blocks", int64(nblocks))
	run.Count("e2e_video_blocks_matched", int64(matched["video"]))
	run.Count("e2e_audio_blocks_matched", int64(matched["audio"]))
	run.Count("e2e_timecode_steps_following_the_rtp_clock", int64(stepsOK))
	run.Count("e2e_timecode_steps_not_following_the_rtp_clock", int64(stepsOff))
	run.Count("e2e_attach_frames", int64(s.attachFrames))
	if len(files) > 1 {
		run.Count("e2e_sessions_with_several_files", 1)
	}
	lossy := false
	shape := map[string]bool{}
	for _, kind := range []string{"video", "audio"} {
		t := tracks[kind]
		if len(t.frames) == 0 {
			continue
		}
		stored := map[uint16]bool{}
		for _, q := range e2eStoredOf(t.ssrc) {
			stored[q] = true
		}
		run.Count("e2e_packets_sent", int64(t.npkts))
		run.Count("e2e_packets_stored_by_the_server", int64(len(stored)))
		if len(stored) < t.npkts {
			lossy = true
		}
		lo, hi := -1, -1
		for i := range t.frames {
			if recorded[kind][i] {
				if lo < 0 {
					lo = i
				}
				hi = i
			}
		}
		if lo < 0 {
			continue
		}
		missing, missingStored := 0, 0
		for i := lo; i <= hi; i++ {
			if recorded[kind][i] {
				continue
			}
			missing++
			all := true
			for _, pk := range t.frames[i].pkts {
				all = all && stored[pk.SequenceNumber]
			}
			if all {
				missingStored++
			}
		}
		run.Count("e2e_"+kind+"_frames_present", int64(len(recorded[kind])))
		run.Count("e2e_"+kind+"_frames_missing_inside_the_recording", int64(missing))
		run.Count("e2e_"+kind+"_frames_missing_although_every_packet_was_stored", int64(missingStored))
		if missing == 0 {
			run.Count("e2e_"+kind+"_tracks_without_a_missing_frame", 1)
		}
		a, b := t.frames[lo], t.frames[hi]
		if b.pkts[len(b.pkts)-1].SequenceNumber < a.pkts[0].SequenceNumber {
			run.Count("e2e_recorded_tracks_spanning_a_seqno_wrap", 1)
			shape[kind+"-seqwrap"] = true
		}
		if b.ts < a.ts {
			run.Count("e2e_recorded_tracks_spanning_a_timestamp_wrap", 1)
			shape[kind+"-tswrap"] = true
		}
		if kind == "video" {
			multi := 0
			for i := range recorded[kind] {
				if len(t.frames[i].pkts) > 1 {
					multi++
				}
			}
			run.Count("e2e_multi_packet_frames_matched", int64(multi))
			if s.unrecordAt >= 0 && hi < s.unrecordAt {
				run.Count("e2e_recordings_stopped_in_mid_stream", 1)
			}
		}
	}
	if matched["video"] > 0 {
		var sh []string
		for k := range shape {
			sh = append(sh, k)
		}
		sort.Strings(sh)
		run.Distinct(fmt.Sprintf("e2e audio=%v late-video=%v desc=%d end=%s files>1=%v lossy=%v %v", p.Audio, p.VideoLate, p.Desc, p.End, len(files) > 1, lossy, sh))
	}
	run.Sample(map[string]any{"e2e_plan": p, "video_frames_sent": len(g.vt.frames), "audio_frames_sent": len(g.at.frames), "attach_frames": s.attachFrames,
		"files": len(files), "blocks": nblocks, "video_blocks_matched": matched["video"], "audio_blocks_matched": matched["audio"], "clean": len(viol) == 0})

	keys := make([]string, 0, len(viol))
	for k := range viol {
		keys = append(keys, k)
	}
	sort.Strings(keys)
	for _, k := range keys {
		au := ""
		if p.Audio {
			au = "+opus"
		}
		run.Violation(k, fmt.Sprintf("e2e session %s (vp8%s, %d+%d+%d frames, end=%s): %s", name, au, len(g.vt.frames)-s.attachFrames-p.Frames, s.attachFrames, p.Frames, p.End, viol[k]),
			map[string]any{"e2e_batch": p.Batch, "e2e_session": p.Session, "plan": p})
	}
}

// ---------------------------------------------------------------------------
// child and parent

func e2eChild() {
	run := vk.Start("C20")
	var a e2eArgs
	vk.ChildArgs(&a)
	srv, err := vsrv.Start(vsrv.Config{Root: os.Getenv("VERIF_CHILD_DIR"), LogToFile: true})
	if err != nil {
		run.Inconclusive("e2e: server start: " + err.Error())
		os.Exit(0)
	}
	rtpconn.VerifSetTraceHook(func(ssrc uint32, kind int, a, b uint16) {
		if kind != rtpconn.VerifTraceStored {
			return
		}
		e2eStored.mu.Lock()
		e2eStored.m[ssrc] = append(e2eStored.m[ssrc], a)
		e2eStored.mu.Unlock()
	})
	var wg sync.WaitGroup
	for si := 0; si < a.Sessions; si++ {
		wg.Add(1)
		go func(si int) {
			defer wg.Done()
			p := e2eMakePlan(run, a, si)
			if a.Probe != "" {
				p.Probe, p.Audio, p.VideoLate, p.SeqWrapA, p.TsWrapA = a.Probe, false, false, false, false
			}
			s := &e2eSess{run: run, p: p, gen: e2eNewGen(run, p)}
			why := s.play(srv)
			if why == "probe" {
				return
			}
			if why != "" {
				run.Count("e2e_sessions_not_established", 1)
				run.Note("session " + p.name() + ": " + why)
				return
			}
			if s.inconclusive != "" {
				run.Inconclusive("e2e session " + p.name() + ": watchdog: " + s.inconclusive)
				return
			}
			s.judge()
		}(si)
	}
	wg.Wait()
	os.Exit(0)
}

func e2eBatch(run *vk.Run, a e2eArgs) {
	res := run.RunChild("e2e", a, 10*time.Minute)
	rep := map[string]any{"e2e_batch": a.Index, "probe": a.Probe}
	switch {
	case strings.HasPrefix(res.Crash, "harness-crash:"):
		run.Inconclusive("e2e: harness crashed: " + res.Crash + "\n" + res.CrashText)
	case res.Crash != "" && strings.Contains(res.CrashText, "nil pointer dereference") && strings.Contains(res.CrashText, "samplebuilder.(*SampleBuilder).pop") && strings.Contains(res.Crash, "diskwriter.(*diskTrack).writeBuffered"):
		gap := ""
		for _, n := range res.Notes {
			if strings.Contains(n, "long gap") {
				gap = "; " + n
			}
		}
		rep["crash"] = res.CrashText
		run.Violation("e2e:server-crashed:samplebuilder-pop-nil-packet", "the whole server died while recording: nil pointer dereference in the pinned sample builder's pop(), called from diskTrack.writeBuffered (a gap of almost 512 packets made Push drop everything it held and store the new packet in the middle of an empty ring whose tail slot is nil)"+gap, rep)
	case res.Crash != "":
		rep["crash"] = res.CrashText
		run.Violation("e2e:server-crashed:"+res.Crash, "the server died in the end-to-end tier: "+res.Crash+"; last commands: "+strings.Join(res.Notes, " | "), rep)
	case res.TimedOut:
		run.Inconclusive("e2e: watchdog fired")
	}
}

// e2eReplay re-runs the batch of a recorded end-to-end violation (same plans; the
// network history is not reproducible).
func e2eReplay(run *vk.Run, m map[string]any) bool {
	b, ok := m["e2e_batch"].(float64)
	if !ok {
		return false
	}
	probe, _ := m["probe"].(string)
	if probe != "" {
		e2eBatch(run, e2eArgs{Index: uint64(b), Sessions: 1, Frames: 100, Probe: probe})
	} else {
		e2eBatch(run, e2eArgs{Index: uint64(b), Sessions: run.Pick(6, 10), Frames: run.Pick(400, 900)})
	}
	return true
}

func e2eTier(run *vk.Run) {
	batches := run.Pick(2, 8)
	sessions := run.Pick(6, 10)
	frames := run.Pick(400, 900)
	if v := os.Getenv("C20_E2E_STRESS"); v != "" {
		// debugging aid: "batches sessions frames", to overload the path on purpose
		fmt.Sscan(v, &batches, &sessions, &frames)
	}
	var wg sync.WaitGroup
	sem := make(chan struct{}, 2)
	for b := 0; b < batches; b++ {
		wg.Add(1)
		sem <- struct{}{}
		go func(b int) {
			defer wg.Done()
			defer func() { <-sem }()
			e2eBatch(run, e2eArgs{Index: uint64(b), Sessions: sessions, Frames: frames})
		}(b)
	}
	wg.Wait()
	if os.Getenv("C20_E2E_NO_PROBES") == "" {
		// a history that kills the server gets a server of its own
		e2eBatch(run, e2eArgs{Index: 1000, Sessions: 1, Frames: 100, Probe: "long-gap"})
		run.FloorCounter("e2e_long_gap_probes", 1)
	}
	total := int64(batches * sessions)
	run.FloorCounter("e2e_sessions_judged", (total*2+2)/3)
	run.FloorCounter("e2e_files_closed", total/2)
	run.FloorCounter("e2e_files_wellformed", total/2)
	run.FloorCounter("e2e_video_blocks_matched", total*int64(frames)/4)
	run.FloorCounter("e2e_multi_packet_frames_matched", total*int64(frames)/8)
	run.FloorCounter("e2e_audio_blocks_matched", total*int64(frames)/40)
	run.FloorCounter("e2e_recorded_tracks_spanning_a_seqno_wrap", int64(run.Pick(1, 10)))
	run.FloorCounter("e2e_recorded_tracks_spanning_a_timestamp_wrap", int64(run.Pick(1, 8)))
	run.FloorCounter("e2e_recordings_stopped_in_mid_stream", int64(run.Pick(1, 6)))
	run.Assume("end-to-end tier: the path is lossy under load and the harness publisher never retransmits, so completeness is not demanded (missing frames are counted); a recording is one file: uniqueness, order and timecodes are judged per file and track; audio/video alignment is not judged (without sender reports the recorder aligns by arrival time: wall clock)")
	run.Assume("end-to-end tier keeps off the triggers of the open findings instead of re-reporting them: no sender reports exist (vrtc peers have no interceptors: sender-report-moves-origin); RTP timestamps follow one virtual capture clock paced in real time with keyframes at most 0.36 s apart, so nothing is released 2^16 ticks before an origin unless two consecutive keyframes lose packets (wrap-heuristic-misfire), and that, like a damaged first keyframe (origin-set-by-later-keyframe), only loses frames or splits the recording, which is not judged here; record is only sent once the server has stored packets of every track (one PushConn to the recorder), where the last video keyframe is more than 40 packets old, and the attachment is observed (the server's PLI reaches the publisher) before the judged stream starts, so the server's replay of its cache from the last keyframe concurrently with live forwarding (reordering, duplicate of the newest packet: samplebuilder:duplicate-of-newest-releases-all, samplebuilder:ring-wrap-off-by-one) does not take place; one session in six starts its camera after the recording began (the connection is pushed to the recorder a second time), again with the keyframe more than 40 packets old when that happens")
	run.Assume("end-to-end tier: a video block that equals no sent frame is filed under samplebuilder:ring-wrap-off-by-one if the pinned sample builder alone, fed with the packets the server's receive loop stored (trace point VerifTraceStored, build tag verif), releases exactly that block, an instrumented copy with identical output saw a frame wrap around its ring, and the copy with only that defect repaired releases sent frames only; or, when the recorder's feed was not what was stored (congested writer), if the block is exactly a sent frame without its last packet and at least two frames sent within the 600 packets before it are in no file (the builder was never empty, its ring can have wrapped); otherwise it is e2e:block-not-a-sent-frame.  Only seen with 2 x 200 sessions on one CPU (half of the packets lost)")
	run.Assume("end-to-end tier: one extra child sends, with the recorder attached, the first packet of a frame followed by a packet 511 sequence numbers ahead (a gap the cache cannot fill) and only reports whether the server survives")
}
