// C13 - group and client lifecycle is free of data races, deadlocks and lost wakeups.
//
// Oracles: the Go race detector (reports scoped to the property's anchor files), the
// vsync lock monitor on a mutex-instrumented scratch copy (actual wait-for cycles =
// deadlock; lock-order 2-cycles are listed as candidates), and an exactly-once / FIFO /
// lost-wakeup checker over unbounded.Channel.  Workloads run in child processes.
package main

import (
	"fmt"
	"math/rand/v2"
	"os"
	"path/filepath"
	"runtime"
	"sort"
	"strings"
	"sync"
	"sync/atomic"
	"time"

	"github.com/pion/webrtc/v4"

	"github.com/jech/galene/diskwriter"
	"github.com/jech/galene/group"
	"github.com/jech/galene/rtpconn"
	"github.com/jech/galene/stats"
	"github.com/jech/galene/unbounded"
	"github.com/jech/galene/vsync"

	"verif/harness/vclient"
	"verif/harness/vk"
	"verif/harness/vrtc"
	"verif/harness/vsrv"
)

var anchorFiles = []string{"/group/group.go", "/group/description.go", "/rtpconn/whipclient.go", "/rtpconn/webclient.go", "/unbounded/unbounded.go", "/diskwriter/diskwriter.go", "/stats/stats.go"}

type childArgs struct {
	Index   uint64 `json:"index"`
	Iter    int    `json:"iter"`
	Perturb int    `json:"perturb"`
}

func groupDesc(extra map[string]any) map[string]any {
	d := map[string]any{
		"users": map[string]any{
			"op1":   map[string]any{"password": "pw-op1", "permissions": "op"},
			"pres1": map[string]any{"password": "pw-pres1", "permissions": "present"},
		},
		"wildcard-user":   map[string]any{"password": map[string]any{"type": "wildcard"}, "permissions": "present"},
		"allow-recording": true,
	}
	for k, v := range extra {
		d[k] = v
	}
	return d
}

func setupDirs(root string) {
	group.Directory = filepath.Join(root, "groups")
	group.DataDirectory = filepath.Join(root, "data")
	diskwriter.Directory = filepath.Join(root, "rec")
	for _, d := range []string{group.Directory, group.DataDirectory, diskwriter.Directory} {
		os.MkdirAll(d, 0o755)
	}
}

func writeGroupFile(name string, d map[string]any) {
	s := &vsrv.Server{GroupsDir: group.Directory}
	s.WriteGroup(name, d)
}

func strp(s string) *string { return &s }

// ---- workload (a): fake-client storm on the public group API ------------------------

func apiStorm(run *vk.Run, a childArgs) {
	setupDirs(os.Getenv("VERIF_CHILD_DIR"))
	names := []string{"g1", "g2", "par/sub"}
	writeGroupFile("g1", groupDesc(map[string]any{"autolock": true}))
	writeGroupFile("g2", groupDesc(map[string]any{"max-clients": 5, "max-history-age": 1}))
	writeGroupFile("par", groupDesc(map[string]any{"auto-subgroups": true, "autokick": true}))
	var wg sync.WaitGroup
	var ops atomic.Int64
	workers := 16
	for w := 0; w < workers; w++ {
		wg.Add(1)
		go func(w int) {
			defer wg.Done()
			r := run.Rand(1, a.Index, uint64(w))
			var mine []*fakeClient
			for i := 0; i < a.Iter; i++ {
				name := names[r.IntN(len(names))]
				switch op := r.IntN(20); {
				case op < 6:
					c := &fakeClient{id: fmt.Sprintf("f%d-%d-%d", a.Index, w, i)}
					c.onKick = func(c *fakeClient) {
						go func() { group.DelClient(c); c.setGroup(nil) }()
					}
					user, pw := "guest", "x"
					if r.IntN(3) == 0 {
						user, pw = "op1", "pw-op1"
					}
					g, err := group.AddClient(name, c, group.ClientCredentials{Username: strp(user), Password: pw})
					if err == nil {
						c.setGroup(g)
						mine = append(mine, c)
					}
				case op < 10:
					if len(mine) > 0 {
						k := r.IntN(len(mine))
						c := mine[k]
						mine = append(mine[:k], mine[k+1:]...)
						group.DelClient(c)
						c.setGroup(nil)
					}
				case op < 11:
					if g := group.Get(name); g != nil {
						g.SetLocked(r.IntN(2) == 0, "m")
					}
				case op < 12:
					if g := group.Get(name); g != nil {
						g.UpdateData(map[string]any{"k": r.IntN(5)})
					}
				case op < 13:
					if g := group.Get(name); g != nil {
						_ = g.GetClients(nil)
						_ = g.ClientCount()
						_, _ = g.Locked()
					}
				case op < 14:
					if g := group.Get(name); g != nil {
						_ = g.Status(true, nil)
						_ = g.Data()
					}
				case op < 15:
					if g := group.Get(name); g != nil {
						g.AddToChatHistory("id", "src", strp("u"), time.Now(), "", "v")
						_ = g.GetChatHistory()
						if r.IntN(4) == 0 {
							g.ClearChatHistory("", "")
						}
					}
				case op < 16:
					_ = stats.GetGroups()
					_ = group.GetSubGroups("par")
					_ = group.GetPublic(nil)
				case op < 17:
					// description reload: rewrite the file (size changes) and update
					writeGroupFile(name, groupDesc(map[string]any{"comment": strings.Repeat("x", r.IntN(40)), "autolock": name == "g1", "auto-subgroups": name == "par", "max-clients": 5 + r.IntN(3)}))
					group.Update()
				case op < 18:
					_, _ = group.GetDescription(name)
					if g := group.Get(name); g != nil {
						_ = g.Description()
						_ = g.UserExists("op1")
					}
				case op < 19:
					if g := group.Get(name); g != nil {
						g.WallOps("hello")
					}
				default:
					_, _ = group.Add(name, nil)
					_ = group.GetNames()
				}
				ops.Add(1)
			}
			for _, c := range mine {
				group.DelClient(c)
			}
		}(w)
	}
	wg.Wait()
	run.Eval(ops.Load())
	run.Count("api_storm_ops", ops.Load())
	// the expiry storm runs like C10's registry phase: joiners held for up to 3 ms in front of
	// 60% of their lock operations (among them the one between the registry lookup and the
	// insertion), sweepers at full speed; two rounds
	vsync.SetPerturb(60)
	vsync.SetMaxSleep(3000)
	for round := 0; round < 2; round++ {
		expiryStorm(run, a, round)
	}
	vsync.SetMaxSleep(200)
	vsync.SetPerturb(a.Perturb)
}

// expiryStorm: idle groups (max-history-age 1 s) are registered 2 ms apart; two sweepers call
// group.Update() all the time, and each group's only client arrives around the moment its
// group becomes expirable: the registry's expiry (Update -> Delete) races with AddClient.
func expiryStorm(run *vk.Run, a childArgs, round int) {
	n := 120
	names := make([]string, n)
	created := make([]time.Time, n)
	for i := range names {
		names[i] = fmt.Sprintf("idle%d-%d-%d", a.Index, round, i)
		writeGroupFile(names[i], map[string]any{"max-history-age": 1, "wildcard-user": map[string]any{"password": map[string]any{"type": "wildcard"}, "permissions": "present"}})
	}
	for i, name := range names {
		group.Add(name, nil)
		created[i] = time.Now()
		time.Sleep(2 * time.Millisecond)
	}
	var stop atomic.Bool
	var swg, wg sync.WaitGroup
	for u := 0; u < 2; u++ {
		swg.Add(1)
		go func() {
			defer swg.Done()
			vsync.SetQuiet(true)
			defer vsync.SetQuiet(false)
			for !stop.Load() {
				group.Update()
			}
		}()
	}
	for i, name := range names {
		wg.Add(1)
		go func(i int, name string) {
			defer wg.Done()
			r := run.Rand(8, a.Index, uint64(i))
			time.Sleep(time.Until(created[i].Add(time.Second + time.Duration(r.IntN(12000))*time.Microsecond)))
			c := &fakeClient{id: name + "-c"}
			g, err := group.AddClient(name, c, group.ClientCredentials{Username: strp("u"), Password: "x"})
			if err == nil {
				c.setGroup(g)
				run.Count("expiry_storm_joins", 1)
				time.Sleep(time.Millisecond)
				group.DelClient(c)
			}
		}(i, name)
	}
	wg.Wait()
	stop.Store(true)
	swg.Wait()
}

// ---- workload (c): WHIP clients joined, closed and kicked concurrently with joins --------

func whipStorm(run *vk.Run, a childArgs) {
	setupDirs(os.Getenv("VERIF_CHILD_DIR"))
	writeGroupFile("w1", groupDesc(map[string]any{"autolock": false}))
	writeGroupFile("w2", groupDesc(map[string]any{"autokick": false}))
	// w3 kicks everybody out when its last operator leaves (autokick): WHIP clients are
	// members at that moment, and their Kick calls back into the group
	writeGroupFile("w3", groupDesc(map[string]any{"autokick": true}))
	var wg sync.WaitGroup
	var ops atomic.Int64
	var opsDone atomic.Bool
	wg.Add(1)
	go func() {
		defer wg.Done()
		defer opsDone.Store(true)
		r := run.Rand(2, a.Index, 99)
		for i := 0; i < a.Iter/4; i++ {
			c := &fakeClient{id: fmt.Sprintf("wop%d-%d", a.Index, i)}
			gg, err := group.AddClient("w3", c, group.ClientCredentials{Username: strp("op1"), Password: "pw-op1"})
			if err != nil {
				continue
			}
			c.setGroup(gg)
			time.Sleep(time.Duration(50+r.IntN(400)) * time.Microsecond)
			run.Note(fmt.Sprintf("the last operator %s leaves the autokick group w3 (%d members)", c.id, gg.ClientCount()))
			group.DelClient(c)
			run.Count("autokick_last_operator_departures", 1)
			ops.Add(1)
		}
	}()
	for w := 0; w < 8; w++ {
		wg.Add(1)
		go func(w int) {
			defer wg.Done()
			r := run.Rand(2, a.Index, uint64(w))
			for i := 0; i < a.Iter; i++ {
				name := []string{"w1", "w2", "w3"}[r.IntN(3)]
				if name == "w3" && opsDone.Load() {
					name = "w1"
				}
				g, err := group.Add(name, nil)
				if err != nil {
					continue
				}
				if w%2 == 0 {
					wc := rtpconn.NewWhipClient(g, fmt.Sprintf("whip%d-%d-%d", a.Index, w, i), "", nil)
					_, err := group.AddClient(name, wc, group.ClientCredentials{Username: strp("whip"), Password: "x"})
					if err != nil {
						continue
					}
					if r.IntN(3) == 0 {
						runtime.Gosched()
					}
					switch r.IntN(3) {
					case 0:
						wc.Close()
					case 1:
						wc.Kick("", nil, "bye")
					default:
						go wc.Close()
						_ = g.GetClients(nil)
					}
				} else {
					c := &fakeClient{id: fmt.Sprintf("wf%d-%d-%d", a.Index, w, i)}
					gg, err := group.AddClient(name, c, group.ClientCredentials{Username: strp("guest"), Password: "x"})
					if err == nil {
						c.setGroup(gg)
						_ = stats.GetGroups()
						group.DelClient(c)
					}
				}
				ops.Add(1)
			}
		}(w)
	}
	wg.Wait()
	run.Eval(ops.Load())
	run.Count("whip_storm_ops", ops.Load())
}

// ---- workload: shutdown (kick everybody) with web-like, WHIP and recording members -----

func shutdownCase(run *vk.Run, a childArgs) {
	setupDirs(os.Getenv("VERIF_CHILD_DIR"))
	writeGroupFile("s1", groupDesc(nil))
	g, err := group.Add("s1", nil)
	if err != nil {
		run.Inconclusive("cannot add group: " + err.Error())
		return
	}
	kind := a.Index % 3
	for i := 0; i < 3; i++ {
		c := &fakeClient{id: fmt.Sprintf("sf%d", i)}
		c.onKick = func(c *fakeClient) { go func() { group.DelClient(c) }() }
		if gg, err := group.AddClient("s1", c, group.ClientCredentials{Username: strp("guest"), Password: "x"}); err == nil {
			c.setGroup(gg)
		}
	}
	switch kind {
	case 1:
		wc := rtpconn.NewWhipClient(g, "swhip", "", nil)
		group.AddClient("s1", wc, group.ClientCredentials{Username: strp("whip"), Password: "x"})
		run.Note("shutdown with a WHIP member")
	case 2:
		dc, err := diskwriter.New(g)
		if err == nil {
			group.AddClient("s1", dc, group.ClientCredentials{System: true})
		}
		run.Note("shutdown with a recording member")
	default:
		run.Note("shutdown with plain members")
	}
	done := make(chan struct{})
	go func() {
		group.Shutdown("bye")
		close(done)
	}()
	select {
	case <-done:
		run.Count("shutdowns_completed", 1)
	case <-time.After(20 * time.Second):
		// the vsync scanner exits the process on a wait-for cycle long before this
		run.Inconclusive("Shutdown did not return within the watchdog and no wait-for cycle was found")
	}
	run.Eval(1)
}

// ---- workload (d): recording clients --------------------------------------------------

func diskStorm(run *vk.Run, a childArgs) {
	setupDirs(os.Getenv("VERIF_CHILD_DIR"))
	writeGroupFile("d1", groupDesc(nil))
	var wg sync.WaitGroup
	var ops atomic.Int64
	for w := 0; w < 6; w++ {
		wg.Add(1)
		go func(w int) {
			defer wg.Done()
			r := run.Rand(3, a.Index, uint64(w))
			for i := 0; i < a.Iter/4; i++ {
				g, err := group.Add("d1", nil)
				if err != nil {
					continue
				}
				if w < 2 {
					dc, err := diskwriter.New(g)
					if err != nil {
						continue
					}
					if _, err := group.AddClient("d1", dc, group.ClientCredentials{System: true}); err != nil {
						dc.Close()
						continue
					}
					switch r.IntN(3) {
					case 0:
						dc.Close()
						group.DelClient(dc)
					case 1:
						dc.Kick("", nil, "x")
					default:
						go dc.Kick("", nil, "x")
						_ = g.GetClients(nil)
					}
				} else {
					c := &fakeClient{id: fmt.Sprintf("df%d-%d-%d", a.Index, w, i)}
					if gg, err := group.AddClient("d1", c, group.ClientCredentials{Username: strp("guest"), Password: "x"}); err == nil {
						c.setGroup(gg)
						g.WallOps("w")
						group.DelClient(c)
					}
				}
				ops.Add(1)
			}
		}(w)
	}
	wg.Wait()
	run.Eval(ops.Load())
	run.Count("disk_storm_ops", ops.Load())
}

// ---- workload (b): real web clients over websockets ------------------------------------

func wsStorm(run *vk.Run, a childArgs) {
	srv, err := vsrv.Start(vsrv.Config{Root: os.Getenv("VERIF_CHILD_DIR"), LogToFile: true})
	if err != nil {
		run.Inconclusive("server start: " + err.Error())
		return
	}
	srv.WriteGroup("v1", groupDesc(map[string]any{"autolock": true}))
	srv.WriteGroup("v2", groupDesc(nil))
	var wg sync.WaitGroup
	var ops atomic.Int64
	stop := make(chan struct{})
	// pollers: statistics and status
	for p := 0; p < 2; p++ {
		wg.Add(1)
		go func(p int) {
			defer wg.Done()
			for {
				select {
				case <-stop:
					return
				default:
				}
				if p == 0 {
					srv.Do("GET", "/galene-api/v0/.stats", srv.AdminAuth(), nil)
				} else {
					srv.Do("GET", "/group/v1/.status", nil, nil)
					srv.Do("GET", "/public-groups.json", nil, nil)
				}
				ops.Add(1)
			}
		}(p)
	}
	// residents: members that change their own data all the time, while others join and
	// leave (every join reads the data of every member)
	for p := 0; p < 6; p++ {
		wg.Add(1)
		go func(p int) {
			defer wg.Done()
			id := fmt.Sprintf("res%d-%d", a.Index, p)
			c, err := vclient.Dial(srv, id)
			if err != nil {
				return
			}
			defer c.Close()
			if m, ok := c.Join([]string{"v1", "v2"}[p%2], "op1", "pw-op1"); !ok || m.Str("kind") != "join" {
				return
			}
			sent := 0
			defer func() {
				run.Count("ws_resident_setdata", int64(sent))
				ops.Add(int64(sent))
				n := 0
				for _, e := range c.Events() {
					if e.M.Str("type") == "user" && e.M.Str("kind") == "change" && e.M.Str("id") == id {
						n++
					}
				}
				run.Count("ws_resident_changes_announced", int64(n))
				if closed, _ := c.Closed(); closed {
					run.Count("ws_residents_dropped_by_the_server", 1)
				}
			}()
			for n := 0; ; n++ {
				select {
				case <-stop:
					return
				default:
				}
				if c.Send(vclient.Msg{"type": "useraction", "kind": "setdata", "source": id, "dest": id, "value": map[string]any{fmt.Sprintf("k%d", n%5): n}}) != nil {
					return
				}
				sent++
				if n%64 == 63 {
					c.Ping(5 * time.Second) // do not run ahead of the server for ever
				}
			}
		}(p)
	}
	// stallers: members that stop reading their socket.  The residents' change events fill
	// the socket, the server's writer for that client gives up after its write deadline, and
	// the client's loop - in the middle of a burst of writes - must notice and leave.
	var stallers []string
	for p := 0; p < 2; p++ {
		id := fmt.Sprintf("stall%d-%d", a.Index, p)
		ws, err := srv.DialWS()
		if err != nil {
			continue
		}
		defer ws.Close()
		ws.WriteJSON(map[string]any{"type": "handshake", "version": []string{"2"}, "id": id})
		ws.WriteJSON(map[string]any{"type": "join", "kind": "join", "group": []string{"v1", "v2"}[p], "username": "op1", "password": "pw-op1"})
		// read until the join is acknowledged, then never again
		ok := false
		for k := 0; k < 50 && !ok; k++ {
			var m map[string]any
			ws.SetReadDeadline(time.Now().Add(5 * time.Second))
			if ws.ReadJSON(&m) != nil {
				break
			}
			ok = m["type"] == "joined" && m["kind"] == "join"
		}
		if ok {
			stallers = append(stallers, id)
		}
	}
	defer func() {
		// make sure the stalled sockets are full: 3 MB of change events per group, far more
		// than a unix socket and the websocket buffers hold; then the write deadline (500 ms)
		if len(stallers) > 0 {
			for gi, gname := range []string{"v1", "v2"} {
				id := fmt.Sprintf("fill%d-%d", a.Index, gi)
				c, err := vclient.Dial(srv, id)
				if err != nil {
					continue
				}
				if m, ok := c.Join(gname, "op1", "pw-op1"); ok && m.Str("kind") == "join" {
					pad := strings.Repeat("x", 1000)
					for n := 0; n < 3000; n++ {
						if c.Send(vclient.Msg{"type": "useraction", "kind": "setdata", "source": id, "dest": id, "value": map[string]any{"pad": pad, "n": n}}) != nil {
							break
						}
						if n%100 == 99 {
							c.Ping(20 * time.Second)
						}
					}
					c.Ping(20 * time.Second)
				}
				c.Close()
			}
			time.Sleep(1200 * time.Millisecond)
		}
		gone := func() []string {
			var still []string
			for _, gname := range []string{"v1", "v2"} {
				if g := group.Get(gname); g != nil {
					for _, c := range g.GetClients(nil) {
						for _, id := range stallers {
							if c.Id() == id {
								still = append(still, id+" in "+gname)
							}
						}
					}
				}
			}
			return still
		}
		var still []string
		for k := 0; k < 100; k++ {
			if still = gone(); len(still) == 0 {
				break
			}
			time.Sleep(50 * time.Millisecond)
		}
		if len(stallers) > 0 {
			run.Count("ws_stalled_clients", int64(len(stallers)))
		}
		if len(still) > 0 {
			run.Violation("stalled-client-remains-member", fmt.Sprintf("clients that stopped reading their socket (the server's writer gave up on them) are still members 5 s after the workload ended: %v: the client's loop never noticed that its writer was gone", still), map[string]any{"mode": "ws", "index": a.Index})
		} else if len(stallers) > 0 {
			run.Count("ws_stalled_clients_removed", int64(len(stallers)))
		}
	}()
	var cwg sync.WaitGroup
	for w := 0; w < 8; w++ {
		cwg.Add(1)
		go func(w int) {
			defer cwg.Done()
			r := run.Rand(4, a.Index, uint64(w))
			for i := 0; i < a.Iter/20; i++ {
				id := fmt.Sprintf("c%d-%d-%d", a.Index, w, i)
				c, err := vclient.Dial(srv, id)
				if err != nil {
					continue
				}
				g := []string{"v1", "v2"}[r.IntN(2)]
				user, pw := "guest", "x"
				if r.IntN(2) == 0 {
					user, pw = "op1", "pw-op1"
				}
				run.Note(fmt.Sprintf("%s joins %s as %s", id, g, user))
				if m, ok := c.Join(g, user, pw); ok && m.Str("kind") == "join" {
					for k := 0; k < 4; k++ {
						switch r.IntN(7) {
						case 0:
							c.Send(vclient.Msg{"type": "groupaction", "kind": []string{"lock", "unlock"}[r.IntN(2)], "source": id})
						case 1:
							c.Send(vclient.Msg{"type": "useraction", "kind": "setdata", "source": id, "dest": id, "value": map[string]any{"k": k}})
						case 2:
							c.Send(vclient.Msg{"type": "useraction", "kind": []string{"op", "unop", "present", "unpresent"}[r.IntN(4)], "source": id, "dest": fmt.Sprintf("c%d-%d-%d", a.Index, r.IntN(8), i)})
						case 3:
							c.Send(vclient.Msg{"type": "useraction", "kind": "kick", "source": id, "dest": fmt.Sprintf("c%d-%d-%d", a.Index, r.IntN(8), i)})
						case 4:
							c.Send(vclient.Msg{"type": "chat", "source": id, "value": "hi"})
						case 5:
							c.Send(vclient.Msg{"type": "groupaction", "kind": "setdata", "source": id, "value": map[string]any{"g": k}})
						default:
							c.Ping(5 * time.Second)
						}
						ops.Add(1)
					}
				}
				if r.IntN(2) == 0 {
					c.Leave(g)
				}
				c.Close()
			}
		}(w)
	}
	cwg.Wait()
	close(stop)
	wg.Wait()
	run.Eval(ops.Load())
	run.Count("ws_storm_ops", ops.Load())
}

// ---- workload (e): real PeerConnections being created and torn down under a stats poller ---

func rtcStorm(run *vk.Run, a childArgs) {
	srv, err := vsrv.Start(vsrv.Config{Root: os.Getenv("VERIF_CHILD_DIR"), LogToFile: true})
	if err != nil {
		run.Inconclusive("server start: " + err.Error())
		return
	}
	srv.WriteGroup("r1", groupDesc(nil))
	stop := make(chan struct{})
	var pwg sync.WaitGroup
	var ops atomic.Int64
	for p := 0; p < 2; p++ {
		pwg.Add(1)
		go func() {
			defer pwg.Done()
			for {
				select {
				case <-stop:
					return
				default:
				}
				srv.Do("GET", "/galene-api/v0/.stats", srv.AdminAuth(), nil)
				ops.Add(1)
			}
		}()
	}
	// an operator starts and stops the REAL disk recorder (diskwriter client joining the
	// group, down tracks added to live up tracks) and locks/unlocks while streams come and go
	pwg.Add(1)
	go func() {
		defer pwg.Done()
		r := run.Rand(9, a.Index)
		c, err := vclient.Dial(srv, fmt.Sprintf("rtcop%d", a.Index))
		if err != nil {
			return
		}
		defer c.Close()
		if m, ok := c.Join("r1", "op1", "pw-op1"); !ok || m.Str("kind") != "join" {
			return
		}
		for {
			for _, k := range []string{"record", "lock", "unrecord", "unlock"} {
				select {
				case <-stop:
					return
				default:
				}
				run.Note("operator " + k)
				c.Send(vclient.Msg{"type": "groupaction", "kind": k})
				run.Count("rtc_operator_actions", 1)
				ops.Add(1)
				time.Sleep(time.Duration(50+r.IntN(300)) * time.Millisecond)
			}
		}
	}()
	// a member that keeps changing its request: every change asks every member of the group,
	// WHIP clients included, for its streams (RequestConns), also the one being torn down
	pwg.Add(1)
	go func() {
		defer pwg.Done()
		c, err := vclient.Dial(srv, fmt.Sprintf("rtcreq%d", a.Index))
		if err != nil {
			return
		}
		defer c.Close()
		if m, ok := c.Join("r1", "pres1", "pw-pres1"); !ok || m.Str("kind") != "join" {
			return
		}
		for k := 0; ; k++ {
			select {
			case <-stop:
				return
			default:
			}
			c.Send(vclient.Msg{"type": "request", "request": map[string]any{"": [][]string{{"audio"}, {"audio", "video"}, {}}[k%3]}})
			run.Count("rtc_request_changes", 1)
			ops.Add(1)
			time.Sleep(300 * time.Microsecond)
		}
	}()
	var wg sync.WaitGroup
	// WHIP sessions created over HTTP and torn down (DELETE, or by closing the client's
	// PeerConnection) while web clients join, publish and leave
	for w := 0; w < 2; w++ {
		wg.Add(1)
		go func(w int) {
			defer wg.Done()
			r := run.Rand(7, a.Index, uint64(w))
			for i := 0; i < a.Iter/400+2; i++ {
				sdp, pc, err := vrtc.OfferSDP()
				if err != nil {
					continue
				}
				run.Note(fmt.Sprintf("whip session %d/%d", w, i))
				st, hdr, body, err := srv.Do("POST", "/group/r1/.whip", map[string]string{"Content-Type": "application/sdp"}, []byte(sdp))
				if err == nil && st == 201 {
					pc.SetRemoteDescription(webrtc.SessionDescription{Type: webrtc.SDPTypeAnswer, SDP: string(body)})
					// media on the WHIP session: the server's OnTrack callback (a pion goroutine that
					// reads the client's group and pushes the stream to the members) fires at the first
					// RTP packet, which half of the sessions time to fall around the teardown
					mstop := make(chan struct{})
					var mwg sync.WaitGroup
					for _, s := range pc.GetSenders() {
						local, ok := s.Track().(*webrtc.TrackLocalStaticRTP)
						if !ok {
							continue
						}
						mwg.Add(1)
						go func(local *webrtc.TrackLocalStaticRTP) {
							defer mwg.Done()
							for k := 0; k < 400; k++ {
								select {
								case <-mstop:
									return
								default:
								}
								var err error
								if local.Kind() == webrtc.RTPCodecTypeAudio {
									err = local.WriteRTP(vrtc.OpusPacket(uint16(k), uint32(k)*960, uint32(k)))
								} else {
									err = local.WriteRTP(vrtc.VP8Packet(uint16(k), uint32(k)*3000, uint16(k), 0, k%30 == 0, uint32(k), 30))
								}
								if err == nil {
									run.Count("whip_rtp_written", 1)
								}
								time.Sleep(time.Millisecond)
							}
						}(local)
					}
					if r.IntN(2) == 0 {
						time.Sleep(time.Duration(8+r.IntN(40)) * time.Millisecond)
					} else {
						time.Sleep(time.Duration(r.IntN(200)) * time.Millisecond)
					}
					if r.IntN(2) == 0 {
						srv.Do("DELETE", hdr.Get("Location"), nil, nil)
						run.Count("whip_sessions_deleted", 1)
					} else {
						run.Count("whip_sessions_abandoned", 1)
					}
					if r.IntN(2) == 0 {
						time.Sleep(time.Duration(r.IntN(20)) * time.Millisecond)
					}
					close(mstop)
					mwg.Wait()
				}
				pc.Close()
				ops.Add(1)
			}
		}(w)
	}
	for w := 0; w < 4; w++ {
		wg.Add(1)
		go func(w int) {
			defer wg.Done()
			r := run.Rand(6, a.Index, uint64(w))
			id := fmt.Sprintf("rtc%d-%d", a.Index, w)
			c, err := vclient.Dial(srv, id)
			if err != nil {
				return
			}
			defer c.Close()
			peer := vrtc.NewPeer(c)
			defer peer.Shutdown()
			if m, ok := c.Join("r1", "pres1", "pw-pres1"); !ok || m.Str("kind") != "join" {
				return
			}
			c.Send(vclient.Msg{"type": "request", "request": map[string]any{"": []string{"audio", "video"}}})
			for i := 0; i < a.Iter/300+2; i++ {
				sid := fmt.Sprintf("%s-s%d", id, i)
				run.Note(fmt.Sprintf("%s publishes %s", id, sid))
				up, err := peer.Publish(sid, "camera", []vrtc.TrackSpec{{Kind: "audio", ID: "a0"}, {Kind: "video", ID: "v0"}}, "")
				if err != nil {
					continue
				}
				if up.Wait(15*time.Second) == "connected" {
					for k := 0; k < 30; k++ {
						up.Track("a0").Local.WriteRTP(vrtc.OpusPacket(uint16(k), uint32(k)*960, uint32(k)))
						up.Track("v0").Local.WriteRTP(vrtc.VP8Packet(uint16(k), uint32(k)*3000, uint16(k), 0, k == 0, uint32(k), 30))
						time.Sleep(5 * time.Millisecond)
					}
				}
				time.Sleep(time.Duration(r.IntN(300)) * time.Millisecond)
				up.Close()
				ops.Add(1)
			}
		}(w)
	}
	wg.Wait()
	close(stop)
	pwg.Wait()
	run.Eval(ops.Load())
	run.Count("rtc_storm_ops", ops.Load())
	if files, err := filepath.Glob(filepath.Join(srv.RecDir, "r1", "*")); err == nil {
		run.Count("rtc_recordings_written", int64(len(files)))
	}
}

// ---- queue semantics: unbounded.Channel -------------------------------------------------

type item struct {
	p, n int
}

func queueCase(run *vk.Run, a childArgs) {
	r := run.Rand(5, a.Index)
	for round := 0; round < a.Iter/50+1; round++ {
		producers := 1 + r.IntN(8)
		per := 20 + r.IntN(400)
		ch := unbounded.New[item]()
		var clock atomic.Int64
		type stamp struct{ call, ret int64 }
		stamps := make([][]stamp, producers)
		var drained []item
		var gets atomic.Int64
		stop := make(chan struct{})
		consumerDone := make(chan struct{})
		go func() {
			defer close(consumerDone)
			for {
				select {
				case <-ch.Ch:
					items := ch.Get()
					drained = append(drained, items...)
					gets.Add(1)
				case <-stop:
					return
				}
			}
		}()
		var wg sync.WaitGroup
		for p := 0; p < producers; p++ {
			stamps[p] = make([]stamp, per)
			wg.Add(1)
			go func(p int) {
				defer wg.Done()
				for n := 0; n < per; n++ {
					c := clock.Add(1)
					ch.Put(item{p, n})
					stamps[p][n] = stamp{c, clock.Add(1)}
					if n%7 == p%7 {
						runtime.Gosched()
					}
				}
			}(p)
		}
		wg.Wait()
		total := producers * per
		// quiescence: all producers returned; wait until the consumer stops making progress
		// with no wakeup pending, then look into the queue ourselves
		stable := 0
		last := gets.Load()
		deadline := time.Now().Add(30 * time.Second)
		for stable < 10 {
			time.Sleep(5 * time.Millisecond)
			if g := gets.Load(); g == last && len(ch.Ch) == 0 {
				stable++
			} else {
				stable = 0
				last = g
			}
			if time.Now().After(deadline) {
				run.Inconclusive("queue consumer did not settle within the watchdog")
				return
			}
		}
		stuck := ch.Get()
		close(stop)
		<-consumerDone
		run.Eval(int64(total))
		rep := map[string]any{"queue_index": a.Index, "round": round, "producers": producers, "per_producer": per}
		if len(stuck) > 0 {
			run.Violation("queue:lost-wakeup", fmt.Sprintf("all %d producers returned, no wakeup pending, the consumer is parked, yet %d items are still queued", producers, len(stuck)), rep)
			return
		}
		if len(drained) != total {
			run.Violation("queue:not-exactly-once", fmt.Sprintf("%d items put, %d drained", total, len(drained)), rep)
			return
		}
		nextOf := make([]int, producers)
		pos := map[item]int{}
		for i, it := range drained {
			if it.p < 0 || it.p >= producers || it.n != nextOf[it.p] {
				run.Violation("queue:order-or-duplicate", fmt.Sprintf("producer %d: item %d drained where %d was expected (duplicate, loss or reordering)", it.p, it.n, nextOf[it.p]), rep)
				return
			}
			nextOf[it.p]++
			pos[it] = i
		}
		// real-time order: Put(a) returned before Put(b) was called => a before b
		// (checked for consecutive positions in drain order, which is sufficient: if the drain
		// order has b immediately before a while ret(a) < call(b), it contradicts FIFO)
		for i := 1; i < len(drained); i++ {
			b, c := drained[i-1], drained[i]
			if stamps[c.p][c.n].ret < stamps[b.p][b.n].call {
				run.Violation("queue:not-fifo", fmt.Sprintf("item %v was put (and Put returned) before Put of item %v was called, yet it was drained after it", c, b), rep)
				return
			}
		}
		run.Count("queue_items_drained_exactly_once", int64(total))
		run.Count("queue_rounds", 1)
		run.Distinct(fmt.Sprintf("queue p%d n%d gets%d", producers, per/50, min(int(gets.Load()), 20)))
	}
}

// ---- driver -------------------------------------------------------------------------------

func child(mode string) {
	run := vk.Start("C13")
	var a childArgs
	vk.ChildArgs(&a)
	vsync.Enable(a.Perturb, uint64(run.Seed)*1000+a.Index, true)
	switch mode {
	case "api":
		apiStorm(run, a)
	case "whip":
		whipStorm(run, a)
	case "shutdown":
		shutdownCase(run, a)
	case "disk":
		diskStorm(run, a)
	case "ws":
		wsStorm(run, a)
	case "queue":
		queueCase(run, a)
	case "rtc":
		rtcStorm(run, a)
	}
	ev, edges, per := vsync.Stats()
	run.Count("lock_events", ev)
	run.Max("lock_order_edges", int64(edges))
	for k, v := range per {
		run.Count("lock_events:"+k, v)
	}
	for _, c := range vsync.OrderCycles() {
		run.Note("ORDER-CYCLE " + c)
	}
	for _, e := range vsync.Edges() {
		run.Note("EDGE " + e)
	}
	os.Exit(0)
}

func main() {
	if mode, ok := vk.InChild(); ok {
		child(mode)
		return
	}
	run := vk.Start("C13")
	run.MaxSamples = 8
	// Every other repetition runs from the binary linked with the light vsync variant
	// (perturbation only): the full monitor's own synchronisation orders, in the race
	// detector's eyes, any two accesses that are separated by two instrumented lock
	// operations and so hides races; the light variant shares nothing between goroutines.
	// Deadlock and lock-order verdicts come from the full variant, race verdicts from both.
	type job struct {
		mode  string
		args  childArgs
		light bool
	}
	var jobs []job
	reps := run.Pick(2, 10)
	iter := run.Pick(1500, 6000)
	lightBin := os.Getenv("VERIF_LIGHT_BIN")
	for i := 0; i < reps; i++ {
		p := []int{30, 30, 60, 60, 0, 0}[i%6]
		light := i%2 == 1 && lightBin != ""
		jobs = append(jobs, job{"api", childArgs{uint64(i), iter, p}, light})
		jobs = append(jobs, job{"whip", childArgs{uint64(i), iter, p}, light})
		jobs = append(jobs, job{"disk", childArgs{uint64(i), iter, p}, light})
		jobs = append(jobs, job{"ws", childArgs{uint64(i), iter, p}, light})
		jobs = append(jobs, job{"queue", childArgs{uint64(i), iter, []int{30, 60, 90}[i%3]}, light})
		jobs = append(jobs, job{"rtc", childArgs{uint64(i), iter, []int{30, 30, 60, 0}[i%4]}, light})
	}
	for i := 0; i < 3; i++ {
		jobs = append(jobs, job{"shutdown", childArgs{uint64(i), 1, 0}, false})
	}
	if lightBin == "" {
		run.Inconclusive("the light vsync binary was not built (VERIF_LIGHT_BIN unset)")
	}
	if rep, ok := vk.ReplayInput(); ok {
		m, _ := rep["replay"].(map[string]any)
		mode, _ := m["mode"].(string)
		idx, _ := m["index"].(float64)
		jobs = nil
		for i := 0; i < 5; i++ {
			jobs = append(jobs, job{mode, childArgs{uint64(idx), iter, []int{0, 30, 60, 90, 50}[i]}, i%2 == 1 && lightBin != ""})
		}
	}
	var mu sync.Mutex
	orderCycles := map[string]bool{}
	edges := map[string]bool{}
	raceKeys := map[string]int{}
	outOfScope := 0
	var wg sync.WaitGroup
	sem := make(chan struct{}, 4)
	for _, j := range jobs {
		wg.Add(1)
		sem <- struct{}{}
		go func(j job) {
			defer wg.Done()
			defer func() { <-sem }()
			var extra []string
			if j.light {
				extra = append(extra, "VERIF_CHILD_BIN="+lightBin)
			}
			res := run.RunChild(j.mode, j.args, 5*time.Minute, extra...)
			rep := map[string]any{"mode": j.mode, "index": j.args.Index, "perturb": j.args.Perturb, "light_vsync": j.light}
			if j.light {
				run.Count("children_with_light_vsync", 1)
			}
			mu.Lock()
			defer mu.Unlock()
			for _, n := range res.Notes {
				if strings.HasPrefix(n, "ORDER-CYCLE ") {
					orderCycles[strings.TrimPrefix(n, "ORDER-CYCLE ")] = true
				}
				if strings.HasPrefix(n, "EDGE ") {
					edges[strings.TrimPrefix(n, "EDGE ")] = true
				}
			}
			for _, rr := range res.Races {
				if !rr.InFiles(anchorFiles) {
					outOfScope++
					continue
				}
				k := rr.Key()
				raceKeys[k]++
				if raceKeys[k] == 1 {
					rep2 := map[string]any{"mode": j.mode, "index": j.args.Index, "report": rr.Text}
					run.Violation(k, "data race reported by the Go race detector in a lifecycle workload ("+j.mode+")", rep2)
				}
			}
			switch {
			case res.Deadlock != "":
				key := "deadlock"
				for _, l := range strings.Split(res.Deadlock, "\n") {
					if strings.HasPrefix(l, "VSYNC-DEADLOCK-KEY ") {
						key = "deadlock:" + strings.TrimPrefix(l, "VSYNC-DEADLOCK-KEY ")
					}
				}
				first := res.Deadlock
				if i := strings.Index(first, "\n"); i > 0 {
					first = first[:i]
				}
				rep["report"] = res.Deadlock
				run.Violation(key, "actual deadlock (cycle in the wait-for graph of the instrumented mutexes) in workload "+j.mode+": "+first, rep)
			case strings.HasPrefix(res.Crash, "harness-crash:"):
				run.Inconclusive(fmt.Sprintf("%s/%d: the harness crashed: %s", j.mode, j.args.Index, res.Crash))
			case res.Crash != "":
				rep["crash"] = res.CrashText
				run.Violation("server-crashed:"+res.Crash, "the process died in a lifecycle workload ("+j.mode+"): "+res.Crash, rep)
			case res.TimedOut:
				run.Inconclusive(fmt.Sprintf("%s/%d: watchdog fired without a wait-for cycle (blocked on something other than an instrumented mutex?)", j.mode, j.args.Index))
			case res.ExitCode != 0:
				run.Inconclusive(fmt.Sprintf("%s/%d: child exited with %d", j.mode, j.args.Index, res.ExitCode))
			default:
				run.Count("children_completed:"+j.mode, 1)
				if j.args.Index == 0 {
					run.Sample(map[string]any{"workload": j.mode, "index": j.args.Index, "iterations": j.args.Iter, "perturb_percent": j.args.Perturb, "wall_s": res.Wall.Seconds(), "race_reports": len(res.Races)})
				}
			}
		}(j)
	}
	wg.Wait()
	var oc, ed []string
	for k := range orderCycles {
		oc = append(oc, k)
	}
	for k := range edges {
		ed = append(ed, k)
	}
	sort.Strings(oc)
	sort.Strings(ed)
	run.Set("lock_order_cycle_candidates", oc)
	run.Set("lock_order_edges_seen", ed)
	run.Set("race_reports_out_of_scope", outOfScope)
	var rk []string
	for k, n := range raceKeys {
		rk = append(rk, fmt.Sprintf("%s x%d", k, n))
	}
	sort.Strings(rk)
	run.Set("race_report_keys_in_scope", rk)
	for _, e := range ed {
		run.Distinct("edge " + e)
	}
	_ = rand.IntN
	run.FloorCounter("api_storm_ops", 1000)
	run.FloorCounter("whip_storm_ops", 1000)
	run.FloorCounter("ws_storm_ops", 100)
	run.FloorCounter("rtc_storm_ops", 20)
	run.FloorCounter("lock_events", 10000)
	run.FloorCounter("children_with_light_vsync", 6)
	run.FloorCounter("queue_items_drained_exactly_once", 1000)
	run.Assume("race reports decide C13 only when one of the two accesses lies in an anchor file of the property; lock-order cycles are listed as candidates and only an actual wait-for cycle is a deadlock verdict")
	run.Assume("mutexes of group, rtpconn, unbounded, diskwriter, token are instrumented on the scratch copy (vinstr + overlay/vsync); blocking on channels or I/O is outside the wait-for graph (watchdog => inconclusive)")
	run.Assume("'eventually seen' is restated as: at quiescence (all producers returned, no wakeup pending, consumer idle) the queue is empty")
	run.Finish("exploration", "child processes under -race with perturbation 0/30/60% at every lock operation: (a) 16 goroutines of fake clients on the public group API (join/leave/lock/data/history/status/stats/description reload), (b) real websocket clients with .stats/.status pollers, (c) WhipClient join/close/kick against joins, (d) recording clients, shutdown with each member kind, (e) unbounded.Channel producers vs galene's consumer pattern; distinct_nontrivial = distinct lock-order edges and queue shapes observed")
}
