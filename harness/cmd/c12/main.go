package main

import (
	"verif/harness/vk"
)

func main() {
	run := vk.Start("C12")
	parserTier(run)
	run.Finish("exploration", "wip")
}
