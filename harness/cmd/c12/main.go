// C12 - no client input crashes the server or a request handler.
//
// Tier A (parent process): the pure parsers (codecs.Keyframe, KeyframeDimensions,
// PacketFlags, RewritePacket, sdpfrag) under recover(), inputs of length 0..1504 in
// canary-guarded cap==len windows.
// Tier B (child process per batch, real server): grammar-based websocket messages, every
// type/kind x field mutation, in every membership state; a canary connection, a fresh join
// and a bystander in the attacker's group must stay served; a dead child is a crash.
// Tier C (same child): method x path shape x credentials x header x body over the admin
// API, WHIP, group pages, recordings and static files, partly hand-written on a raw socket;
// every request must get a status line and the server log must hold no recovered panic.
// Tier D (same child): hostile RTP payloads / RTCP feedback on established WebRTC sessions
// of every codec, with a subscriber and the disk recorder attached.
package main

import (
	"fmt"
	"os"
	"path/filepath"
	"strings"
	"sync"
	"sync/atomic"
	"time"

	"verif/harness/vclient"
	"verif/harness/vk"
	"verif/harness/vsrv"
)

type batchArgs struct {
	Index     uint64 `json:"index"`
	Pass      int    `json:"pass"`
	NB        int    `json:"batches"`
	SlowKeep  int    `json:"slow_keep"` // keep one case in SlowKeep for the states that cost 200 ms per setup
	Seq       int    `json:"seq_per_state"`
	HTTPExtra int    `json:"http_extra"`
	Malformed int    `json:"malformed"`
	Whip      int    `json:"whip_sessions"`
	RTP       int    `json:"rtp_sessions"`
	RTPPkts   int    `json:"rtp_packets"`
}

func child() {
	run := vk.Start("C12")
	var a batchArgs
	if err := vk.ChildArgs(&a); err != nil || a.NB == 0 {
		run.Inconclusive("child: bad arguments")
		os.Exit(0)
	}
	static := filepath.Join(os.Getenv("VERIF_GALENE_SRC"), "static") // the real static tree (it has sub-directories)
	if fi, err := os.Stat(filepath.Join(static, "third-party")); err != nil || !fi.IsDir() {
		static = ""
	}
	srv, err := vsrv.Start(vsrv.Config{Root: os.Getenv("VERIF_CHILD_DIR"), WritableGroups: true, LogToFile: true, StaticDir: static})
	if err != nil {
		run.Inconclusive("server start: " + err.Error())
		os.Exit(0)
	}
	writeWSGroups(srv)
	writeHTTPGroups(srv)
	writeRTPGroups(srv)
	if err := os.WriteFile(srv.TokenFile, []byte(tokenFileLines()), 0o600); err != nil {
		run.Inconclusive("token file: " + err.Error())
		os.Exit(0)
	}
	offer, err := makeOffer()
	if err != nil {
		run.Inconclusive("cannot create a valid offer with pion: " + err.Error())
		os.Exit(0)
	}
	w := &world{run: run, srv: srv, batch: a.Index, pass: a.Pass, offer: offer}
	w.stall.start(run)
	w.canary, err = dialHS(srv, fmt.Sprintf("canary-b%d", a.Index))
	if err != nil {
		run.Inconclusive("canary dial: " + err.Error())
		os.Exit(0)
	}
	if m, ok := w.canary.Join("canary", "op1", "pw-op1"); !ok || m.Str("kind") != "join" {
		run.Inconclusive(fmt.Sprintf("canary join failed: %v", m))
		os.Exit(0)
	}
	w.checkCanary("before the batch")

	// this batch's share of the case lists
	perState := map[string][]wsCase{}
	for _, c := range allWSCases(a.Seq) {
		if c.N%a.NB != int(a.Index) {
			continue
		}
		if slowStates[c.State] && a.SlowKeep > 1 && (c.N/a.NB)%a.SlowKeep != a.Pass%a.SlowKeep {
			continue
		}
		perState[c.State] = append(perState[c.State], c)
	}
	var hcases []httpCase
	for _, c := range allHTTPCases(run, a.HTTPExtra) {
		if c.N%a.NB == int(a.Index) {
			hcases = append(hcases, c)
		}
	}
	hw := &httpWorld{run: run, srv: srv, batch: a.Index, pass: a.Pass, offer: offer}

	var wg sync.WaitGroup
	for i, st := range wsStates {
		ln := &lane{w: w, idx: i, state: st, r: run.Rand(30, a.Index, uint64(a.Pass), uint64(i))}
		wg.Add(1)
		go func(cs []wsCase) {
			defer wg.Done()
			ln.run(cs)
		}(perState[st])
	}
	wg.Add(1)
	go func() {
		defer wg.Done()
		hw.runAll(hcases, a.Malformed, a.Whip)
	}()
	wg.Add(1)
	go func() {
		defer wg.Done()
		w.rtpTier(a.RTP, a.RTPPkts)
	}()
	wg.Wait()
	if !w.bad.Load() {
		w.checkCanary("after the batch")
	}
	if !w.bad.Load() {
		legalFlood(w)
		w.checkCanary("after the flood of legal messages")
	}
	run.Max("max_scheduling_stall_ms", w.stall.maxMS())
	run.Count("batches_completed", 1)
	os.Exit(0)
}

func main() {
	if _, ok := vk.InChild(); ok {
		child()
		return
	}
	run := vk.Start("C12")
	run.MaxReplays = 40
	nb := 8
	passes := run.Pick(1, 10)
	args := batchArgs{NB: nb, SlowKeep: run.Pick(4, 1), Seq: run.Pick(16, 80), HTTPExtra: run.Pick(2, 6), Malformed: run.Pick(40, 120), Whip: run.Pick(6, 20), RTP: run.Pick(6, 12), RTPPkts: run.Pick(800, 3000)}
	type job struct {
		b    uint64
		pass int
	}
	var jobs []job
	doParsers := true
	if rep, ok := vk.ReplayInput(); ok {
		m, _ := rep["replay"].(map[string]any)
		if m["tier"] == "parser" {
			parserReplay(run, m)
			run.Finish("exploration", "replay of one recorded parser input")
		}
		doParsers = false
		b, _ := m["batch"].(float64)
		p, _ := m["pass"].(float64)
		jobs = []job{{uint64(b), int(p)}}
	} else {
		for p := 0; p < passes; p++ {
			for b := 0; b < nb; b++ {
				jobs = append(jobs, job{uint64(b), p})
			}
		}
	}
	if doParsers {
		if !arenaSelfTest() {
			run.Inconclusive("harness self-test: the canary arena does not notice an out-of-bounds write")
		}
		parserTier(run)
	}

	var wg sync.WaitGroup
	sem := make(chan struct{}, 8)
	for _, j := range jobs {
		wg.Add(1)
		sem <- struct{}{}
		go func(j job) {
			defer wg.Done()
			defer func() { <-sem }()
			a := args
			a.Index, a.Pass = j.b, j.pass
			res := run.RunChild("batch", a, 25*time.Minute)
			scanLog(run, strings.TrimSuffix(res.OutFile, ".out")+".d/server.log", j.b, j.pass)
			switch {
			case strings.HasPrefix(res.Crash, "harness-crash:"):
				run.Inconclusive(fmt.Sprintf("batch %d pass %d: a crash without any galene frame on the stack: %s\n%s", j.b, j.pass, res.Crash, res.CrashText))
			case res.Crash != "":
				run.Violation(res.Crash, "the server process died while clients were sending hostile input: "+res.Crash,
					map[string]any{"tier": "server", "batch": j.b, "pass": j.pass, "crash": res.CrashText, "last_commands": res.Notes})
			case res.TimedOut:
				run.Inconclusive(fmt.Sprintf("batch %d pass %d: watchdog fired", j.b, j.pass))
			case res.ExitCode != 0:
				run.Inconclusive(fmt.Sprintf("batch %d pass %d: child exited with %d", j.b, j.pass, res.ExitCode))
			}
		}(j)
	}
	wg.Wait()

	if _, replay := vk.ReplayInput(); !replay {
		floors(run, len(jobs))
	}
	run.Assume("liveness of the process is observed through a canary websocket (ping/pong), a fresh join and the exit status of the child process that hosts the server")
	run.Assume("a recovered handler panic is observed through the 'http: panic serving' lines net/http writes to the server log and through the missing response")
	run.Assume("hostile RTP travels in well-formed SRTP packets (pion marshals the RTP header; the payload, sequence numbers, timestamps, CSRCs, extensions and padding are the harness's); malformed RTP headers reach the classifiers through the pure-parser tier only")
	run.Assume("watchdogs (60 s per ping/request, 25 min per batch) yield inconclusive, never a violation")
	run.Assume("galene drops a client when one socket write takes more than 500 ms; on an overloaded machine this hits connections of the harness for reasons no client input explains: state set-ups are retried, a bystander closure is reported only when the same case loses the bystander again in a freshly built state, and a canary lost while the harness process itself was not scheduled for >= 200 ms during the last 5 s is re-established instead of reported")
	run.Finish("exploration", "A: chunks of 256 parser inputs from (seed, chunk): uniform bytes, structured RTP header + VP8/VP9/AV1/H264 descriptor with inconsistent fields, valid packets truncated at every length with 0-2 bit flips, mutated sdpfrag texts, each under all 8 codec names round-robin; "+
		"B: the full list (membership state x message kind x {valid, field x {absent,num,bool,array,object,null,huge,deep,unknown,empty}, kind-specific mutations, raw frames, offer composites, random sequences}) split round-robin over 8 server processes, one lane per state; "+
		"C: every path shape x 9 methods x {existing,nonexistent} x 4 precondition headers with admin credentials, plus pseudo-random segment/credential/header/body combinations, malformed hand-written requests and WHIP session lives; "+
		"D: per batch 5-10 WebRTC sessions (publisher, subscriber, watcher, every other one recorded to disk), one per codec VP8/VP9/AV1/H264/opus: well-formed SRTP carrying inconsistent/truncated/foreign descriptors, seqno and timestamp jumps, CSRCs, extensions, padding, and hostile RTCP from both ends; "+
		"distinct_nontrivial = distinct (tier, function | message kind | path shape, mutation class, codec | membership state | method+credentials, outcome class) tuples")
}

func floors(run *vk.Run, jobs int) {
	run.FloorCounter("parser_inputs", int64(run.Pick(2_000_000, 100_000_000)))
	for _, g := range genNames {
		run.FloorCounter("parser_inputs:"+g, int64(run.Pick(50_000, 2_500_000)))
	}
	for _, f := range []string{"Keyframe", "KeyframeDimensions", "PacketFlags", "RewritePacket", "sdpfrag.Unmarshal", "sdpfrag.PatchSDP", "sdpfrag.FromSDP"} {
		run.FloorCounter("calls:"+f, int64(run.Pick(50_000, 2_500_000)))
	}
	run.FloorCounter("keyframes_recognised", 10_000)
	run.FloorCounter("dimensions_reported", 10_000)
	run.FloorCounter("rewrite_pid_rewritten", 10_000)
	run.FloorCounter("sdpfrag_parsed_nonempty", 10_000)
	run.FloorCounter("patchsdp_override", 1_000)
	run.FloorCounter("base_packets_truncated_at_every_length", 1_000)

	run.FloorCounter("batches_completed", int64(jobs))
	for _, st := range wsStates {
		want := int64(jobs) * 100
		if slowStates[st] {
			want = int64(jobs) * 20
		}
		run.FloorCounter("ws_messages:"+st, want)
		run.FloorCounter("ws_state_setups:"+st, int64(jobs))
	}
	run.FloorCounter("ws_offender_closed", int64(jobs)*100)
	run.FloorCounter("ws_offender_kept_open", int64(jobs)*100)
	run.FloorCounter("canary_checks_passed", int64(jobs)*int64(len(wsStates)))
	run.FloorCounter("bystander_checks_passed", int64(jobs)*200)
	run.FloorCounter("offers_answered_by_server", int64(jobs)*5)
	run.FloorCounter("concurrent_joins_by_other_clients", int64(jobs)*5)
	for _, sh := range httpShapes {
		run.FloorCounter("http_requests:"+sh.name, int64(jobs)*10)
	}
	run.FloorCounter("http_raw_requests", int64(jobs)*100)
	run.FloorCounter("http_malformed_requests", int64(jobs)*10)
	run.FloorCounter("http_writes_accepted", int64(jobs)*5)
	run.FloorCounter("http_status_2xx", int64(jobs)*50)
	run.FloorCounter("http_status_4xx", int64(jobs)*50)
	run.FloorCounter("whip_sessions_created", int64(jobs)*3)
	run.FloorCounter("whip_trickle_accepted", 1)
	run.FloorCounter("server_log_scans", int64(jobs))
	run.FloorCounter("rtp_sessions_established", int64(jobs)*3)
	for _, cd := range rtpCodecs {
		run.FloorCounter("rtp_sessions_established:"+cd.name, int64(jobs)/2)
		run.FloorCounter("rtp_packets_sent:"+cd.name, int64(jobs)*200)
	}
	run.FloorCounter("unlisted_profile_streams_offered_to_the_receivers", 1)
	run.FloorCounter("rtcp_packets_sent", int64(jobs)*50)
	run.FloorCounter("rtp_packets_forwarded_to_subscribers", int64(jobs)*200)
	run.FloorCounter("recordings_written", int64(jobs))
}

var _ = vclient.Tick

// legalFlood: nothing malformed at all.  Four members of one group change their own data as
// fast as they can (a legal 'setdata' each time) and chat, while eight other clients join and
// leave that group in a loop: every join reads every member's data and permissions.  A crash
// of the process (a concurrent map access is fatal, not a recoverable panic) ends the batch
// and is reported by the parent with the last commands noted here.
func legalFlood(w *world) {
	g := "canary"
	stop := make(chan struct{})
	var wg sync.WaitGroup
	var sent, joins atomic.Int64
	w.run.Note("legal flood: 4 members send setdata/chat as fast as they can while 8 clients join and leave group canary")
	for k := 0; k < 4; k++ {
		wg.Add(1)
		go func(k int) {
			defer wg.Done()
			id := fmt.Sprintf("flood-b%d-%d", w.batch, k)
			c, err := dialHS(w.srv, id)
			if err != nil {
				return
			}
			defer c.Close()
			if m, ok := c.Join(g, "op1", "pw-op1"); !ok || m.Str("kind") != "join" {
				return
			}
			for n := 0; ; n++ {
				select {
				case <-stop:
					return
				default:
				}
				m := vclient.Msg{"type": "useraction", "kind": "setdata", "source": id, "dest": id, "value": map[string]any{fmt.Sprintf("k%d", n%7): n}}
				if n%16 == 15 {
					m = vclient.Msg{"type": "chat", "source": id, "username": "op1", "value": "flood"}
				}
				if c.Send(m) != nil {
					return
				}
				sent.Add(1)
				if n%256 == 255 && !c.Ping(20*time.Second) {
					return
				}
			}
		}(k)
	}
	for k := 0; k < 8; k++ {
		wg.Add(1)
		go func(k int) {
			defer wg.Done()
			for i := 0; ; i++ {
				select {
				case <-stop:
					return
				default:
				}
				c, err := dialHS(w.srv, fmt.Sprintf("floodj-b%d-%d-%d", w.batch, k, i))
				if err != nil {
					return
				}
				u := wsUsers[(i+k)%len(wsUsers)]
				if m, ok := c.Join(g, u.name, u.pw); ok && m.Str("kind") == "join" {
					joins.Add(1)
				}
				c.Close()
			}
		}(k)
	}
	time.Sleep(1500 * time.Millisecond)
	close(stop)
	wg.Wait()
	w.run.Eval(sent.Load() + joins.Load())
	w.run.Count("legal_flood_messages", sent.Load())
	w.run.Count("legal_flood_concurrent_joins", joins.Load())
}
