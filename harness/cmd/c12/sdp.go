package main

import (
	"fmt"
	"math/rand/v2"
	"strings"

	"github.com/pion/webrtc/v4"
)

// makeOffer asks pion (no network involved) for a syntactically valid minimal offer with
// one audio and one video m-section.
func makeOffer() (string, error) {
	pc, err := webrtc.NewPeerConnection(webrtc.Configuration{})
	if err != nil {
		return "", err
	}
	defer pc.Close()
	for _, k := range []webrtc.RTPCodecType{webrtc.RTPCodecTypeAudio, webrtc.RTPCodecTypeVideo} {
		if _, err := pc.AddTransceiverFromKind(k, webrtc.RTPTransceiverInit{Direction: webrtc.RTPTransceiverDirectionSendonly}); err != nil {
			return "", err
		}
	}
	offer, err := pc.CreateOffer(nil)
	if err != nil {
		return "", err
	}
	if !strings.Contains(offer.SDP, "m=audio") || !strings.Contains(offer.SDP, "m=video") || !strings.Contains(offer.SDP, "a=ice-ufrag:") {
		return "", fmt.Errorf("unexpected offer from pion: %q", offer.SDP)
	}
	return offer.SDP, nil
}

var sdpMutations = []string{"sdp:valid", "sdp:truncated", "sdp:truncated-at-line", "sdp:lines-removed", "sdp:no-fingerprint", "sdp:no-ice", "sdp:no-media", "sdp:huge-attributes",
	"sdp:many-media", "sdp:garbage", "sdp:empty", "sdp:datachannel", "sdp:unknown-media", "sdp:duplicate-mid", "sdp:bytes-replaced", "sdp:bad-numbers", "sdp:lf-only"}

// mutateSDP returns a variant of a valid offer.
func mutateSDP(offer, mut string, r *rand.Rand) string {
	lines := strings.SplitAfter(offer, "\r\n")
	drop := func(prefix string) string {
		var out []string
		for _, l := range lines {
			if !strings.HasPrefix(l, prefix) {
				out = append(out, l)
			}
		}
		return strings.Join(out, "")
	}
	switch mut {
	case "sdp:valid":
		return offer
	case "sdp:truncated":
		return offer[:r.IntN(len(offer))]
	case "sdp:truncated-at-line":
		return strings.Join(lines[:r.IntN(len(lines))], "")
	case "sdp:lines-removed":
		var out []string
		for _, l := range lines {
			if r.IntN(5) != 0 {
				out = append(out, l)
			}
		}
		return strings.Join(out, "")
	case "sdp:no-fingerprint":
		return drop("a=fingerprint:")
	case "sdp:no-ice":
		return drop("a=ice-")
	case "sdp:no-media":
		if i := strings.Index(offer, "m="); i > 0 {
			return offer[:i]
		}
		return offer
	case "sdp:huge-attributes":
		var sb strings.Builder
		sb.WriteString(offer)
		n := 500 + r.IntN(2500)
		for i := 0; i < n; i++ {
			fmt.Fprintf(&sb, "a=extmap:%d urn:x:%d\r\n", i, i)
		}
		sb.WriteString("a=x-long:" + strings.Repeat("z", 20000+r.IntN(60000)) + "\r\n")
		return sb.String()
	case "sdp:many-media":
		i := strings.Index(offer, "m=")
		if i < 0 {
			return offer
		}
		head, media := offer[:i], offer[i:]
		var sb strings.Builder
		sb.WriteString(head)
		n := 20 + r.IntN(60)
		for k := 0; k < n; k++ {
			sb.WriteString(media)
		}
		return sb.String()
	case "sdp:garbage":
		b := make([]byte, 1+r.IntN(400))
		for i := range b {
			b[i] = byte(r.UintN(256))
		}
		return string(b)
	case "sdp:empty":
		return ""
	case "sdp:datachannel":
		return offer + "m=application 9 UDP/DTLS/SCTP webrtc-datachannel\r\nc=IN IP4 0.0.0.0\r\na=mid:9\r\na=sctp-port:5000\r\n"
	case "sdp:unknown-media":
		return strings.Replace(offer, "m=video", []string{"m=text", "m=", "m=video video", "m=\x00"}[r.IntN(4)], 1)
	case "sdp:duplicate-mid":
		return strings.ReplaceAll(offer, "a=mid:1", "a=mid:0")
	case "sdp:bytes-replaced":
		b := []byte(offer)
		for q := 1 + r.IntN(8); q > 0; q-- {
			b[r.IntN(len(b))] = byte(r.UintN(256))
		}
		return string(b)
	case "sdp:bad-numbers":
		s := strings.Replace(offer, " 9 UDP", []string{" 99999999999999999999 UDP", " -1 UDP", " x UDP", " 9/9999999999 UDP"}[r.IntN(4)], 1)
		return strings.Replace(s, "a=rtpmap:", "a=rtpmap:99999999999 ", 1)
	case "sdp:lf-only":
		return strings.ReplaceAll(offer, "\r\n", "\n")
	}
	return offer
}
