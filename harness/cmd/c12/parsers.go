package main

// Tier A: the pure parsers, in the parent process, every call under recover().
//
// Every input lives in a sub-slice with cap == len inside an arena whose remaining bytes
// hold a position-dependent canary pattern: a write outside [0,len) destroys a canary, a
// re-slice beyond len panics, an index beyond len panics.

import (
	"bytes"
	"encoding/binary"
	"encoding/hex"
	"fmt"
	"math/rand/v2"
	"regexp"
	"runtime"
	"strings"
	"sync"
	"sync/atomic"

	"github.com/pion/rtp"
	"github.com/pion/sdp/v3"

	"github.com/jech/galene/codecs"
	"github.com/jech/galene/sdpfrag"

	"verif/harness/vk"
)

var codecNames = []string{"video/VP8", "video/vp8", "video/VP9", "video/AV1", "video/H264", "audio/opus", "", "video/unknown"}

const (
	maxPkt   = 1504
	guardLen = 256
	chunkLen = 256 // inputs per chunk (generators 0 and 1 exactly, generator 2 at least)
)

var genNames = []string{"uniform", "structured", "valid+flip+truncate", "sdpfrag"}

func canaryAt(i int) byte { return byte(0xA5 ^ (i * 131) ^ (i >> 8)) }

type arena struct {
	mem   []byte
	tmpl  []byte
	dirty int // end of the region that may hold non-canary bytes
	n     int
}

func newArena(max int) *arena {
	a := &arena{mem: make([]byte, guardLen+max+guardLen)}
	for i := range a.mem {
		a.mem[i] = canaryAt(i)
	}
	a.dirty = guardLen
	a.tmpl = append([]byte(nil), a.mem...)
	return a
}

// load places in into the arena and returns the cap==len window.
func (a *arena) load(in []byte) []byte {
	n := len(in)
	copy(a.mem[guardLen:], in)
	end := guardLen + n
	if end < a.dirty {
		copy(a.mem[end:a.dirty], a.tmpl[end:a.dirty])
	}
	a.dirty = end
	a.n = n
	return a.mem[guardLen:end:end]
}

// intact reports whether every canary is in place; if not, at is the offset of the first
// destroyed one relative to the window start (negative = before the window).
func (a *arena) intact() (at int, ok bool) {
	end := guardLen + a.n
	if bytes.Equal(a.mem[:guardLen], a.tmpl[:guardLen]) && bytes.Equal(a.mem[end:], a.tmpl[end:]) {
		return 0, true
	}
	for i := 0; i < guardLen; i++ {
		if a.mem[i] != a.tmpl[i] {
			return i - guardLen, false
		}
	}
	for i := end; i < len(a.mem); i++ {
		if a.mem[i] != a.tmpl[i] {
			return i - guardLen, false
		}
	}
	return 0, true
}

func (a *arena) repair() {
	for i := range a.mem {
		if i < guardLen || i >= guardLen+a.n {
			a.mem[i] = canaryAt(i)
		}
	}
}

var reHex = regexp.MustCompile(`0x[0-9a-fA-F]+`)
var reDigits = regexp.MustCompile(`\d+`)

func panicClass(v any) string {
	var s string
	switch e := v.(type) {
	case error:
		s = e.Error()
	default:
		s = fmt.Sprint(v)
	}
	s = reHex.ReplaceAllString(s, "0x?")
	s = reDigits.ReplaceAllString(s, "N")
	if len(s) > 100 {
		s = s[:100]
	}
	return s
}

func codecLabel(c string) string {
	if c == "" {
		return "(empty)"
	}
	return c
}

// parserWorker holds per-worker state; counters are merged once at the end.
type parserWorker struct {
	run       *vk.Run
	ar        *arena
	big       *arena
	counts    map[string]int64
	distinct  map[string]struct{}
	seen      map[uint32]struct{}
	hot       [hMax]int64
	genInputs [4]int64
	pkt       rtp.Packet
	orig      []byte
	base      []byte
	scratch   []byte
	sdpValid  sdp.SessionDescription
}

var seenViolKeys sync.Map

func (w *parserWorker) violation(key, what string, replay func() any) {
	if _, dup := seenViolKeys.LoadOrStore(key, true); dup {
		w.run.Violation(key, what, nil)
		return
	}
	w.run.Violation(key, what, replay())
}

// call runs f under recover and returns the recovered value's class ("" if none).
func call(f func()) (cls string) {
	defer func() {
		if v := recover(); v != nil {
			cls = panicClass(v)
			if cls == "" {
				cls = "panic"
			}
		}
	}()
	f()
	return ""
}

type rwArgs struct {
	Marker bool   `json:"setMarker"`
	Seqno  uint16 `json:"seqno"`
	Delta  uint16 `json:"delta"`
}

func replayObj(fn, codec, gen string, in []byte, a *rwArgs) any {
	m := map[string]any{"tier": "parser", "function": fn, "codec": codec, "generator": gen, "input_hex": hex.EncodeToString(in), "input_len": len(in)}
	if a != nil {
		m["args"] = a
	}
	return m
}

// vp8PidField locates (independently of galene) the picture-id bytes of a VP8 RTP packet:
// RFC 3550 fixed header + CSRC list + header extension, then the RFC 7741 descriptor.
func vp8PidField(d []byte) (int, int) {
	if len(d) < 12 {
		return -1, 0
	}
	off := 12 + 4*int(d[0]&0x0F)
	if d[0]&0x10 != 0 {
		if len(d) < off+4 {
			return -1, 0
		}
		off += 4 + 4*int(binary.BigEndian.Uint16(d[off+2:]))
	}
	if len(d) <= off+2 {
		return -1, 0
	}
	if d[off]&0x80 == 0 || d[off+1]&0x80 == 0 {
		return -1, 0
	}
	if d[off+2]&0x80 != 0 && len(d) > off+3 {
		return off + 2, 2
	}
	return off + 2, 1
}

// dist records a distinct (function, codec, generator, outcome) tuple; the string is only
// built the first time this worker sees the packed key.
func (w *parserWorker) dist(fn, ci, gi int, outcome uint32, mk func() string) {
	k := uint32(fn)<<28 | uint32(ci)<<24 | uint32(gi)<<20 | outcome
	if _, ok := w.seen[k]; ok {
		return
	}
	w.seen[k] = struct{}{}
	w.distinct[mk()] = struct{}{}
}

func b2u(b bool) uint32 {
	if b {
		return 1
	}
	return 0
}

// hot counters (indices into parserWorker.hot)
const (
	hInputs = iota
	hKeyframe
	hKfDim
	hFlags
	hRewrite
	hKfSeen
	hDimSeen
	hFlagsOK
	hPidRewritten
	hRewriteOK
	hPionRejected
	hMax
)

var hotNames = [hMax]string{"parser_inputs", "calls:Keyframe", "calls:KeyframeDimensions", "calls:PacketFlags", "calls:RewritePacket",
	"keyframes_recognised", "dimensions_reported", "flags_parsed", "rewrite_pid_rewritten", "rewrite_accepted", "pion_rejected_rtp"}

func (w *parserWorker) bad(fn string, ci, gi int, in []byte, a *rwArgs, buf []byte, cls string) bool {
	codec := codecNames[ci]
	cl := codecLabel(codec)
	gen := genNames[gi]
	if cls != "" {
		w.violation("parser-panic:"+fn+":"+cl+":"+cls,
			fmt.Sprintf("%s(%q, %d bytes) panicked: %s", fn, codec, len(in), cls),
			func() any { return replayObj(fn, codec, gen, in, a) })
		return true
	}
	if at, ok := w.ar.intact(); !ok {
		w.violation("parser-out-of-bounds-write:"+fn+":"+cl,
			fmt.Sprintf("%s(%q, %d bytes) wrote outside the packet at offset %d", fn, codec, len(in), at),
			func() any { return replayObj(fn, codec, gen, in, a) })
		w.ar.repair()
		return true
	}
	if len(buf) != len(in) {
		w.violation("parser-length-changed:"+fn+":"+cl, fmt.Sprintf("%s changed the packet length %d -> %d", fn, len(in), len(buf)),
			func() any { return replayObj(fn, codec, gen, in, a) })
		return true
	}
	return false
}

// one feeds one (codec, input) pair to every function.
func (w *parserWorker) one(ci, gi int, in []byte, r *rand.Rand) {
	codec := codecNames[ci]
	w.hot[hInputs]++
	w.genInputs[gi]++

	// Keyframe / KeyframeDimensions on what pion's RTP parser accepts
	buf := w.ar.load(in)
	pkt := &w.pkt
	*pkt = rtp.Packet{}
	if err := pkt.Unmarshal(buf); err == nil {
		plen := len(pkt.Payload)
		var kf, known bool
		cls := call(func() { kf, known = codecs.Keyframe(codec, pkt) })
		w.hot[hKeyframe]++
		if !w.bad("Keyframe", ci, gi, in, nil, buf, cls) {
			if len(pkt.Payload) != plen {
				w.violation("parser-length-changed:Keyframe:"+codecLabel(codec), "Keyframe changed the payload length", func() any { return replayObj("Keyframe", codec, genNames[gi], in, nil) })
			}
			w.dist(0, ci, gi, b2u(kf)<<1|b2u(known), func() string {
				return fmt.Sprintf("A|Keyframe|%s|%s|kf%v known%v", codecLabel(codec), genNames[gi], kf, known)
			})
			if kf {
				w.hot[hKfSeen]++
			}
		}
		var wd, ht uint32
		cls = call(func() { wd, ht = codecs.KeyframeDimensions(codec, pkt) })
		w.hot[hKfDim]++
		if !w.bad("KeyframeDimensions", ci, gi, in, nil, buf, cls) {
			if len(pkt.Payload) != plen {
				w.violation("parser-length-changed:KeyframeDimensions:"+codecLabel(codec), "KeyframeDimensions changed the payload length", func() any { return replayObj("KeyframeDimensions", codec, genNames[gi], in, nil) })
			}
			if wd != 0 || ht != 0 {
				w.hot[hDimSeen]++
				w.dist(1, ci, gi, 1, func() string {
					return fmt.Sprintf("A|KeyframeDimensions|%s|%s|nonzero", codecLabel(codec), genNames[gi])
				})
			}
		}
	} else {
		w.hot[hPionRejected]++
	}

	// PacketFlags
	buf = w.ar.load(in)
	var fl codecs.Flags
	var ferr error
	cls := call(func() { fl, ferr = codecs.PacketFlags(codec, buf) })
	w.hot[hFlags]++
	if !w.bad("PacketFlags", ci, gi, in, nil, buf, cls) {
		w.dist(2, ci, gi, b2u(ferr != nil)<<3|b2u(fl.Keyframe)<<2|b2u(fl.Start)<<1|b2u(fl.End), func() string {
			return fmt.Sprintf("A|PacketFlags|%s|%s|err%v kf%v start%v end%v", codecLabel(codec), genNames[gi], ferr != nil, fl.Keyframe, fl.Start, fl.End)
		})
		if ferr == nil && len(in) >= 4 {
			w.hot[hFlagsOK]++
		}
	}

	// RewritePacket: deltas {0, 1, 0xFFFF, random}; marker both ways
	deltas := [4]uint16{0, 1, 0xFFFF, uint16(r.UintN(65536))}
	mk := r.IntN(2) == 0
	isVP8 := strings.EqualFold(codec, "video/vp8")
	pidOff, pidLen := -1, 0
	if isVP8 {
		pidOff, pidLen = vp8PidField(in)
	}
	for di, delta := range deltas {
		a := rwArgs{Marker: mk != (di%2 == 1), Seqno: uint16(r.UintN(65536)), Delta: delta}
		buf = w.ar.load(in)
		var rerr error
		cls := call(func() { rerr = codecs.RewritePacket(codec, buf, a.Marker, a.Seqno, a.Delta) })
		w.hot[hRewrite]++
		if w.bad("RewritePacket", ci, gi, in, &a, buf, cls) {
			continue
		}
		changedPid := false
		if string(buf) != string(in) {
			for i := range in {
				if buf[i] == in[i] {
					continue
				}
				if i >= 1 && i <= 3 {
					continue
				}
				if pidOff >= 0 && i >= pidOff && i < pidOff+pidLen {
					changedPid = true
					continue
				}
				was, is := in[i], buf[i]
				w.violation("rewrite-touched-foreign-byte:"+codecLabel(codec),
					fmt.Sprintf("RewritePacket(%q) changed byte %d of a %d-byte packet (%#02x -> %#02x); only bytes 1-3 and the VP8 picture id may change", codec, i, len(in), was, is),
					func() any { return replayObj("RewritePacket", codec, genNames[gi], in, &a) })
				break
			}
		}
		if changedPid {
			w.hot[hPidRewritten]++
		}
		if rerr == nil && len(in) >= 12 {
			w.hot[hRewriteOK]++
		}
		w.dist(3, ci, gi, uint32(di)<<4|b2u(rerr != nil)<<3|b2u(changedPid)<<2|uint32(pidLen), func() string {
			return fmt.Sprintf("A|RewritePacket|%s|%s|d%d err%v pid%v/%d", codecLabel(codec), genNames[gi], di, rerr != nil, changedPid, pidLen)
		})
	}
}

// ---- generators ------------------------------------------------------------

func fillRandom(b []byte, r *rand.Rand) {
	i := 0
	for ; i+8 <= len(b); i += 8 {
		binary.LittleEndian.PutUint64(b[i:], r.Uint64())
	}
	if i < len(b) {
		x := r.Uint64()
		for ; i < len(b); i++ {
			b[i] = byte(x)
			x >>= 8
		}
	}
}

func uniformLen(r *rand.Rand) int {
	switch x := r.IntN(100); {
	case x < 30:
		return r.IntN(41)
	case x < 50:
		return 12 + r.IntN(69)
	case x < 53:
		return maxPkt - r.IntN(3)
	default:
		return r.IntN(maxPkt + 1)
	}
}

// descriptor appends a codec payload (descriptor + start of the frame) for the family;
// sloppy makes length fields and continuation bits inconsistent.
func descriptor(b []byte, family int, r *rand.Rand, sloppy bool) []byte {
	rb := func() byte { return byte(r.UintN(256)) }
	bit := func(p int) byte {
		if r.IntN(100) < p {
			return 1
		}
		return 0
	}
	switch family {
	case 0: // VP8, RFC 7741
		x, s := bit(70), bit(60)
		pid := byte(0)
		if r.IntN(3) == 0 {
			pid = byte(r.UintN(8))
		}
		b = append(b, x<<7|bit(10)<<6|bit(20)<<5|s<<4|pid)
		if x == 1 {
			i, l, t, k := bit(80), bit(40), bit(40), bit(30)
			b = append(b, i<<7|l<<6|t<<5|k<<4|byte(r.UintN(16))*bit(5))
			if i == 1 {
				if bit(60) == 1 {
					b = append(b, 0x80|rb(), rb())
				} else {
					b = append(b, rb()&0x7F)
				}
			}
			if l == 1 {
				b = append(b, rb())
			}
			if t == 1 || k == 1 {
				b = append(b, rb())
			}
		}
		// payload header: P bit (0 = key frame), then for key frames start code + dimensions
		ph := rb()
		if bit(60) == 1 {
			ph &^= 1
		}
		b = append(b, ph, rb(), rb(), 0x9d, 0x01, 0x2a, rb(), rb()&0x3F, rb(), rb()&0x3F)
	case 1: // VP9, draft-ietf-payload-vp9
		i, p, l, f, bb, e, v := bit(60), bit(40), bit(50), bit(40), bit(60), bit(30), bit(40)
		b = append(b, i<<7|p<<6|l<<5|f<<4|bb<<3|e<<2|v<<1|bit(10))
		if i == 1 {
			if bit(50) == 1 {
				b = append(b, 0x80|rb(), rb())
			} else {
				b = append(b, rb()&0x7F)
			}
		}
		if l == 1 {
			b = append(b, rb())
			if f == 0 {
				b = append(b, rb())
			}
		}
		if f == 1 && p == 1 {
			n := 1 + r.IntN(3)
			for j := 0; j < n; j++ {
				d := rb() &^ 1
				if j < n-1 || (sloppy && bit(30) == 1) {
					d |= 1
				}
				b = append(b, d)
			}
		}
		if v == 1 {
			ns := byte(r.UintN(8))
			if !sloppy && ns > 3 {
				ns &= 3
			}
			y, g := bit(70), bit(50)
			b = append(b, ns<<5|y<<4|g<<3)
			if y == 1 {
				for j := 0; j <= int(ns); j++ {
					b = append(b, rb(), rb(), rb(), rb())
				}
			}
			if g == 1 {
				ng := byte(r.UintN(6))
				if sloppy && bit(20) == 1 {
					ng = rb()
				}
				b = append(b, ng)
				for j := 0; j < int(ng) && len(b) < 1400; j++ {
					rr := byte(r.UintN(4))
					b = append(b, rb()&0xF0&^0x0C|rr<<2)
					for q := 0; q < int(rr); q++ {
						b = append(b, rb())
					}
				}
			}
		}
		// uncompressed header: frame marker 0b10, profile, show_existing, frame_type ...
		h := byte(0x80) | byte(r.UintN(4))<<4 | byte(r.UintN(16))
		if bit(50) == 1 {
			h &^= 0x0C
		}
		if sloppy && bit(10) == 1 {
			h = rb()
		}
		b = append(b, h, rb(), rb(), rb())
	case 2: // AV1, aggregation header Z Y W N
		wv := byte(r.UintN(4))
		n := bit(70)
		b = append(b, bit(15)<<7|bit(20)<<6|wv<<4|n<<3|byte(r.UintN(8))*bit(5))
		cnt := int(wv)
		if cnt == 0 {
			cnt = 1 + r.IntN(3)
		}
		for j := 0; j < cnt; j++ {
			var obu []byte
			tpe := byte(r.UintN(16))
			if j == 0 && bit(80) == 1 {
				tpe = 1
			} else if j > 0 && bit(70) == 1 {
				tpe = []byte{3, 6}[r.IntN(2)]
			}
			obu = append(obu, tpe<<3|byte(r.UintN(8))*bit(10))
			fh := rb()
			if bit(60) == 1 {
				fh &^= 0xE0
			}
			obu = append(obu, fh)
			for q := r.IntN(12); q > 0; q-- {
				obu = append(obu, rb())
			}
			if sloppy && bit(15) == 1 {
				obu = obu[:r.IntN(len(obu)+1)]
			}
			last := j == cnt-1
			if !(last && wv != 0) {
				ln := len(obu)
				if sloppy && bit(25) == 1 {
					ln = int(r.UintN(1 << 21))
				}
				// LEB128, sometimes over-long
				for {
					c := byte(ln & 0x7F)
					ln >>= 7
					if ln != 0 || (sloppy && bit(10) == 1 && len(b) < 1400) {
						b = append(b, c|0x80)
						if ln == 0 && bit(50) == 1 {
							b = append(b, 0)
							break
						}
						continue
					}
					b = append(b, c)
					break
				}
			}
			b = append(b, obu...)
		}
	case 3: // H.264, RFC 6184
		nri := byte(r.UintN(4)) << 5
		nal := func() []byte {
			t := byte(1 + r.IntN(23))
			if bit(50) == 1 {
				t = 7
			}
			if sloppy && bit(10) == 1 {
				t = byte(r.UintN(32))
			}
			o := []byte{nri | t}
			for q := r.IntN(10); q > 0; q-- {
				o = append(o, rb())
			}
			return o
		}
		switch x := r.IntN(100); {
		case x < 25:
			b = append(b, nal()...)
		case x < 75:
			t := byte(24 + r.IntN(4))
			b = append(b, nri|t)
			if t != 24 {
				b = append(b, rb(), rb())
			}
			for q := 1 + r.IntN(3); q > 0; q-- {
				u := nal()
				var pre []byte
				if t == 26 {
					pre = []byte{rb(), rb(), rb()}
				} else if t == 27 {
					pre = []byte{rb(), rb(), rb(), rb()}
				}
				sz := len(pre) + len(u)
				if sloppy && bit(25) == 1 {
					sz = int(r.UintN(65536))
					if bit(50) == 1 {
						sz = r.IntN(6)
					}
				}
				b = append(b, byte(sz>>8), byte(sz))
				b = append(b, pre...)
				b = append(b, u...)
			}
		case x < 95:
			t := byte(28 + r.IntN(2))
			fu := bit(60)<<7 | bit(20)<<6 | byte(1+r.IntN(23))
			if bit(50) == 1 {
				fu = fu&0xE0 | 7
			}
			b = append(b, nri|t, fu)
			for q := r.IntN(10); q > 0; q-- {
				b = append(b, rb())
			}
		default:
			b = append(b, nri|byte([]int{0, 30, 31}[r.IntN(3)]), rb())
		}
	default: // opus / anything: opaque bytes
		for q := r.IntN(24); q > 0; q-- {
			b = append(b, rb())
		}
	}
	return b
}

func familyOf(codec string) int {
	switch strings.ToLower(codec) {
	case "video/vp8":
		return 0
	case "video/vp9":
		return 1
	case "video/av1":
		return 2
	case "video/h264":
		return 3
	}
	return 4
}

// structured builds an RTP packet: header with random CC/X/P, CSRCs, extension, descriptor.
func structured(b []byte, codec string, r *rand.Rand, sloppy bool) []byte {
	b = b[:0]
	cc := 0
	if r.IntN(3) == 0 {
		cc = r.IntN(16)
	}
	x := r.IntN(100) < 45
	p := r.IntN(100) < 20
	v := byte(2)
	if sloppy && r.IntN(16) == 0 {
		v = byte(r.UintN(4))
	}
	b0 := v<<6 | byte(cc)
	if x {
		b0 |= 0x10
	}
	if p {
		b0 |= 0x20
	}
	b = append(b, b0, byte(r.UintN(256)))
	var hdr [10]byte
	fillRandom(hdr[:], r)
	b = append(b, hdr[:]...)
	for i := 0; i < cc; i++ {
		b = append(b, byte(r.UintN(256)), byte(r.UintN(256)), byte(r.UintN(256)), byte(r.UintN(256)))
	}
	if x {
		words := r.IntN(4)
		prof := []uint16{0xBEDE, 0x1000, uint16(r.UintN(65536))}[r.IntN(3)]
		field := words
		if sloppy && r.IntN(4) == 0 {
			field = int(r.UintN(65536))
			if r.IntN(2) == 0 {
				field = words + 1 + r.IntN(3)
			}
		}
		b = append(b, byte(prof>>8), byte(prof), byte(field>>8), byte(field))
		for i := 0; i < words*4; i++ {
			if prof == 0xBEDE && i%4 == 0 {
				b = append(b, byte(1+r.IntN(14))<<4|2)
			} else {
				b = append(b, byte(r.UintN(256)))
			}
		}
	}
	fam := familyOf(codec)
	if r.IntN(5) == 0 {
		fam = r.IntN(5)
	}
	b = descriptor(b, fam, r, sloppy)
	if r.IntN(20) == 0 { // long body
		n := r.IntN(maxPkt - len(b) + 1)
		l := len(b)
		b = append(b, make([]byte, n)...)
		fillRandom(b[l:], r)
	}
	if p {
		pad := 1 + r.IntN(8)
		if sloppy && r.IntN(3) == 0 {
			pad = int(r.UintN(256))
		}
		for i := 0; i < pad-1 && len(b) < maxPkt-1; i++ {
			b = append(b, 0)
		}
		b = append(b, byte(pad))
	}
	if len(b) > maxPkt {
		b = b[:maxPkt]
	}
	if sloppy {
		switch r.IntN(10) {
		case 0, 1: // truncate anywhere
			b = b[:r.IntN(len(b)+1)]
		case 2, 3: // flip a few bits
			for q := 1 + r.IntN(4); q > 0 && len(b) > 0; q-- {
				b[r.IntN(len(b))] ^= 1 << r.UintN(8)
			}
		case 4: // truncate right after the CSRC list / inside the extension header
			cut := 12 + 4*cc + r.IntN(6)
			if cut < len(b) {
				b = b[:cut]
			}
		}
	}
	return b
}

// ---- sdpfrag ---------------------------------------------------------------

const sampleOffer = "v=0\r\no=- 999478090166020379 2 IN IP4 127.0.0.1\r\ns=-\r\nt=0 0\r\na=group:BUNDLE 0 1\r\na=extmap-allow-mixed\r\na=msid-semantic: WMS ef5d4db1\r\n" +
	"m=audio 9 UDP/TLS/RTP/SAVPF 111 0\r\nc=IN IP4 0.0.0.0\r\na=rtcp:9 IN IP4 0.0.0.0\r\na=ice-ufrag:qiKa\r\na=ice-pwd:bcfs93hb/+ZLuUE2K50HVbkr\r\na=ice-options:trickle\r\n" +
	"a=fingerprint:sha-256 EF:FE:1C:DA:83:C0:AF:B3:12:31:42:32:A4:37:04:5A:BE:7A:8D:BA:9D:0B:F2:A0:81:17:51:60:F4:96:11:5D\r\na=setup:actpass\r\na=mid:0\r\n" +
	"a=candidate:1937612317 1 udp 2113937151 192.0.2.7 44501 typ host generation 0 ufrag qiKa network-cost 999\r\na=sendrecv\r\na=rtcp-mux\r\na=rtpmap:111 opus/48000/2\r\na=rtpmap:0 PCMU/8000\r\n" +
	"m=video 9 UDP/TLS/RTP/SAVPF 96 97\r\nc=IN IP4 0.0.0.0\r\na=rtcp:9 IN IP4 0.0.0.0\r\na=ice-ufrag:qiKa\r\na=ice-pwd:bcfs93hb/+ZLuUE2K50HVbkr\r\na=ice-options:trickle\r\n" +
	"a=fingerprint:sha-256 EF:FE:1C:DA:83:C0:AF:B3:12:31:42:32:A4:37:04:5A:BE:7A:8D:BA:9D:0B:F2:A0:81:17:51:60:F4:96:11:5D\r\na=setup:actpass\r\na=mid:1\r\na=sendrecv\r\na=rtcp-mux\r\n" +
	"a=rtpmap:96 VP8/90000\r\na=rtcp-fb:96 nack pli\r\na=rtpmap:97 rtx/90000\r\na=fmtp:97 apt=96\r\n"

var sampleFrags = []string{
	"a=ice-ufrag:qiKa\na=ice-pwd:bcfs93hb/+ZLuUE2K50HVbkr\nm=audio 9 UDP/TLS/RTP/SAVPF 0\na=mid:0\n" +
		"a=candidate:1937612317 1 udp 2113937151 40a192af-d71f-4cf2-b5b4-494a95dcf739.local 44501 typ host generation 0 ufrag qiKa network-cost 999\n" +
		"a=candidate:670660484 1 udp 2113939711 47da31ec-00cb-4c68-bc90-c403b203d8d8.local 45749 typ host generation 0 ufrag qiKa network-cost 999\n",
	"a=ice-ufrag:qiKa\na=ice-pwd:bcfs93hb/+ZLuUE2K50HVbkr\nm=audio 9 UDP/TLS/RTP/SAVPF 0\na=mid:0\na=end-of-candidates\n",
	"a=ice-ufrag:HWmk\na=ice-pwd:6kyIjoI1lVhYJUeo1EyUq0Ei\n",
	"m=audio 9 UDP/TLS/RTP/SAVPF 111 63\na=ice-ufrag:qiKa\na=ice-pwd:bcfs93hb/+ZLuUE2K50HVbkr\na=mid:0\nm=video 9 UDP/TLS/RTP/SAVPF 96 97\na=ice-ufrag:qiKa\na=ice-pwd:bcfs93hb/+ZLuUE2K50HVbkr\na=mid:1\n",
	"a=candidate:1 1 udp 1 192.0.2.1 9 typ host\r\na=ice-ufrag:aaaa\r\na=ice-pwd:bbbbbbbbbbbbbbbbbbbbbbbb\r\nm=application 9 UDP/DTLS/SCTP webrtc-datachannel\r\na=mid:2\r\na=candidate:2 1 udp 1 192.0.2.2 9 typ host\r\n",
}

var fragLines = []string{"a=ice-ufrag:", "a=ice-pwd:", "m=", "a=mid:", "a=candidate:", "a=end-of-candidates", "a=", "", "v=0", "a=ice-ufrag", "a=candidate", "m"}

func mutateText(s string, r *rand.Rand) (string, string) {
	lines := strings.SplitAfter(s, "\n")
	switch r.IntN(12) {
	case 0:
		return s, "valid"
	case 1:
		return s[:r.IntN(len(s)+1)], "truncated"
	case 2:
		if len(lines) > 1 {
			i := r.IntN(len(lines))
			lines = append(lines[:i:i], lines[i+1:]...)
		}
		return strings.Join(lines, ""), "line-removed"
	case 3:
		i := r.IntN(len(lines))
		var out []string
		out = append(out, lines[:i]...)
		for q := 1 + r.IntN(40); q > 0; q-- {
			out = append(out, lines[i])
		}
		out = append(out, lines[i:]...)
		return strings.Join(out, ""), "line-repeated"
	case 4:
		b := []byte(s)
		for q := 1 + r.IntN(5); q > 0 && len(b) > 0; q-- {
			b[r.IntN(len(b))] = byte(r.UintN(256))
		}
		return string(b), "bytes-replaced"
	case 5:
		i := r.IntN(len(lines))
		long := fragLines[r.IntN(len(fragLines))] + strings.Repeat("x", []int{4095, 65535, 65536, 70000}[r.IntN(4)]) + "\n"
		return strings.Join(lines[:i], "") + long + strings.Join(lines[i:], ""), "huge-line"
	case 6:
		return "a=mid:early\n" + s, "mid-before-m"
	case 7:
		var sb strings.Builder
		for q := r.IntN(300); q > 0; q-- {
			sb.WriteString("m=audio 9 X " + fmt.Sprint(q) + "\n")
			if r.IntN(2) == 0 {
				sb.WriteString("a=candidate:" + fmt.Sprint(q) + "\n")
			}
		}
		return s + sb.String(), "many-m-lines"
	case 8:
		return strings.ReplaceAll(s, "\n", []string{"\r\n", "\r", "\n\n", "\x00\n"}[r.IntN(4)]), "line-endings"
	case 9:
		r.Shuffle(len(lines), func(i, j int) { lines[i], lines[j] = lines[j], lines[i] })
		return strings.Join(lines, ""), "lines-shuffled"
	case 10:
		i := r.IntN(len(lines))
		l := lines[i]
		if k := strings.IndexAny(l, ":="); k >= 0 {
			l = l[:k+1] + "\n"
		}
		lines[i] = l
		return strings.Join(lines, ""), "value-emptied"
	default:
		var sb strings.Builder
		for q := r.IntN(30); q > 0; q-- {
			sb.WriteString(fragLines[r.IntN(len(fragLines))])
			n := r.IntN(20)
			for j := 0; j < n; j++ {
				sb.WriteByte(byte(32 + r.IntN(95)))
			}
			sb.WriteString([]string{"\n", "\r\n", ""}[r.IntN(3)])
		}
		return sb.String(), "line-grammar"
	}
}

func (w *parserWorker) sdpfragOne(r *rand.Rand) {
	w.hot[hInputs]++
	w.genInputs[3]++
	var text, mut string
	if r.IntN(5) == 0 {
		b := make([]byte, r.IntN(600))
		fillRandom(b, r)
		if r.IntN(2) == 0 {
			for i := range b {
				if b[i]%11 == 0 {
					b[i] = '\n'
				}
			}
		}
		text, mut = string(b), "random"
	} else {
		text, mut = mutateText(sampleFrags[r.IntN(len(sampleFrags))], r)
	}
	in := []byte(text)
	rep := func(fn string) func() any {
		return func() any {
			return map[string]any{"tier": "parser", "function": fn, "mutation": mut, "input_hex": hex.EncodeToString(in), "input_len": len(in)}
		}
	}
	buf := w.big.load(in)
	var frag sdpfrag.SDPFrag
	var uerr error
	cls := call(func() { uerr = frag.Unmarshal(buf) })
	w.counts["calls:sdpfrag.Unmarshal"]++
	if cls != "" {
		w.violation("parser-panic:sdpfrag.Unmarshal:-:"+cls, "SDPFrag.Unmarshal panicked: "+cls, rep("sdpfrag.Unmarshal"))
		return
	}
	if at, ok := w.big.intact(); !ok {
		w.violation("parser-out-of-bounds-write:sdpfrag.Unmarshal:-", fmt.Sprintf("SDPFrag.Unmarshal wrote outside its input at offset %d", at), rep("sdpfrag.Unmarshal"))
		w.big.repair()
	}
	if string(buf) != text {
		w.violation("parser-input-modified:sdpfrag.Unmarshal", "SDPFrag.Unmarshal modified its input", rep("sdpfrag.Unmarshal"))
	}
	w.distinct[fmt.Sprintf("A|sdpfrag.Unmarshal|%s|err%v m%d c%d", mut, uerr != nil, min(len(frag.MediaDescriptions), 3), min(len(frag.AllCandidates()), 3))] = struct{}{}
	if uerr == nil && (len(frag.MediaDescriptions) > 0 || len(frag.AllCandidates()) > 0) {
		w.counts["sdpfrag_parsed_nonempty"]++
	}
	var out []byte
	cls = call(func() { out, _ = frag.Marshal() })
	w.counts["calls:sdpfrag.Marshal"]++
	if cls != "" {
		w.violation("parser-panic:sdpfrag.Marshal:-:"+cls, "SDPFrag.Marshal panicked: "+cls, rep("sdpfrag.Unmarshal+Marshal"))
		return
	}
	cls = call(func() { var f2 sdpfrag.SDPFrag; f2.Unmarshal(out) })
	if cls != "" {
		w.violation("parser-panic:sdpfrag.Unmarshal:-:"+cls, "SDPFrag.Unmarshal(Marshal()) panicked: "+cls, rep("sdpfrag.Unmarshal+Marshal+Unmarshal"))
	}
	// PatchSDP / FromSDP against a valid or a mutated (but pion-parsable) session description
	s := w.sdpValid
	smut := "valid-sdp"
	if r.IntN(6) == 0 {
		t, m := mutateText(sampleOffer, r)
		var s2 sdp.SessionDescription
		if call(func() { uerr = s2.Unmarshal([]byte(t)) }) == "" && uerr == nil {
			s, smut = s2, "sdp-"+m
		} else {
			w.counts["pion_rejected_sdp"]++
		}
	}
	var over bool
	var patched sdp.SessionDescription
	cls = call(func() { patched, over = sdpfrag.PatchSDP(s, frag) })
	w.counts["calls:sdpfrag.PatchSDP"]++
	if cls != "" {
		w.violation("parser-panic:sdpfrag.PatchSDP:-:"+cls, "PatchSDP panicked: "+cls, func() any {
			m := rep("sdpfrag.PatchSDP")().(map[string]any)
			m["sdp_mutation"] = smut
			return m
		})
		return
	}
	if over {
		w.counts["patchsdp_override"]++
	}
	w.distinct[fmt.Sprintf("A|sdpfrag.PatchSDP|%s|%s|over%v m%d", mut, smut, over, min(len(patched.MediaDescriptions), 3))] = struct{}{}
	var ff sdpfrag.SDPFrag
	cls = call(func() { ff = sdpfrag.FromSDP(patched) })
	w.counts["calls:sdpfrag.FromSDP"]++
	if cls != "" {
		w.violation("parser-panic:sdpfrag.FromSDP:-:"+cls, "FromSDP panicked: "+cls, rep("sdpfrag.PatchSDP+FromSDP"))
		return
	}
	if len(ff.AllCandidates()) > 0 {
		w.counts["fromsdp_with_candidates"]++
	}
	cls = call(func() { ff.Marshal(); ff.UFragPwd() })
	if cls != "" {
		w.violation("parser-panic:sdpfrag.Marshal:-:"+cls, "Marshal(FromSDP()) panicked: "+cls, rep("sdpfrag.PatchSDP+FromSDP+Marshal"))
	}
}

// ---- driver ----------------------------------------------------------------

func (w *parserWorker) chunk(ci uint64) {
	r := w.run.Rand(10, ci)
	kind := int(ci % 3)
	if ci%32 == 31 {
		kind = 3
	}
	switch kind {
	case 0:
		for i := 0; i < chunkLen; i++ {
			n := uniformLen(r)
			b := w.scratch[:n]
			fillRandom(b, r)
			if n > 0 && r.IntN(4) == 0 {
				b[0] = b[0]&0x3F | 0x80 // RTP version 2 so that pion accepts it
			}
			w.one((int(ci)+i)%len(codecNames), 0, b, r)
		}
	case 1:
		for i := 0; i < chunkLen; i++ {
			cx := (int(ci/3) + i) % len(codecNames)
			b := structured(w.scratch[:0], codecNames[cx], r, true)
			w.one(cx, 1, b, r)
		}
	case 2:
		made := 0
		for base := 0; made < chunkLen; base++ {
			cx := (int(ci/3) + base) % len(codecNames)
			pk := append(w.base[:0], structured(w.scratch[:0], codecNames[cx], r, false)...)
			flips := base % 3
			for t := 0; t <= len(pk); t++ {
				b := append(w.orig[:0], pk[:t]...)
				for q := 0; q < flips && t > 0; q++ {
					b[r.IntN(t)] ^= 1 << r.UintN(8)
				}
				w.one(cx, 2, b, r)
				made++
			}
			w.counts["base_packets_truncated_at_every_length"]++
		}
	case 3:
		for i := 0; i < chunkLen; i++ {
			w.sdpfragOne(r)
		}
	}
}

// arenaSelfTest: the oracle itself notices writes on either side of the window.
func arenaSelfTest() bool {
	a := newArena(maxPkt)
	buf := a.load(make([]byte, 100))
	if _, ok := a.intact(); !ok || cap(buf) != len(buf) {
		return false
	}
	a.mem[guardLen+100] ^= 0xFF
	if at, ok := a.intact(); ok || at != 100 {
		return false
	}
	a.repair()
	a.mem[guardLen-1] ^= 0xFF
	if at, ok := a.intact(); ok || at != -1 {
		return false
	}
	a.repair()
	a.load(make([]byte, 10)) // a shorter input: the bytes 10..99 are canaries again
	if _, ok := a.intact(); !ok {
		return false
	}
	a.mem[guardLen+10] ^= 0xFF
	at, ok := a.intact()
	return !ok && at == 10
}

func newParserWorker(run *vk.Run) *parserWorker {
	w := &parserWorker{run: run, ar: newArena(maxPkt), big: newArena(200000), counts: map[string]int64{}, distinct: map[string]struct{}{}, seen: map[uint32]struct{}{},
		orig: make([]byte, 0, maxPkt+16), base: make([]byte, 0, maxPkt+16), scratch: make([]byte, maxPkt, maxPkt+4096)}
	if err := w.sdpValid.Unmarshal([]byte(sampleOffer)); err != nil {
		panic("harness: sample offer does not parse: " + err.Error())
	}
	return w
}

func parserTier(run *vk.Run) {
	total := run.Pick(2_000_000, 100_000_000)
	chunks := uint64(total / chunkLen)
	workers := min(16, runtime.GOMAXPROCS(0))
	var next atomic.Uint64
	var wg sync.WaitGroup
	var mu sync.Mutex
	for i := 0; i < workers; i++ {
		wg.Add(1)
		go func() {
			defer wg.Done()
			w := newParserWorker(run)
			for {
				ci := next.Add(1) - 1
				if ci >= chunks {
					break
				}
				w.chunk(ci)
			}
			mu.Lock()
			for i, v := range w.hot {
				run.Count(hotNames[i], v)
			}
			for i, v := range w.genInputs {
				run.Count("parser_inputs:"+genNames[i], v)
			}
			for k, v := range w.counts {
				run.Count(k, v)
			}
			for k := range w.distinct {
				run.Distinct(k)
			}
			mu.Unlock()
		}()
	}
	wg.Wait()
	run.Eval(run.Counter("parser_inputs"))
	// a literal sample
	w := newParserWorker(run)
	b := structured(w.scratch[:0], "video/VP8", run.Rand(11), false)
	run.Sample(map[string]any{"tier": "parser", "generator": genNames[2], "codec": "video/VP8", "base_packet_hex": hex.EncodeToString(b), "note": "fed truncated at every length 0..len with 0-2 bit flips"})
}

// parserReplay re-runs one recorded parser input.
func parserReplay(run *vk.Run, m map[string]any) {
	w := newParserWorker(run)
	in, _ := hex.DecodeString(fmt.Sprint(m["input_hex"]))
	fn := fmt.Sprint(m["function"])
	codec, _ := m["codec"].(string)
	r := run.Rand(12)
	if strings.HasPrefix(fn, "sdpfrag") {
		var frag sdpfrag.SDPFrag
		buf := w.big.load(in)
		if cls := call(func() {
			frag.Unmarshal(buf)
			frag.Marshal()
			p, _ := sdpfrag.PatchSDP(w.sdpValid, frag)
			sdpfrag.FromSDP(p)
		}); cls != "" {
			run.Violation("parser-panic:"+fn+":-:"+cls, "replayed sdpfrag input panicked: "+cls, m)
		}
		run.Eval(1)
		return
	}
	if a, ok := m["args"].(map[string]any); ok {
		mk, _ := a["setMarker"].(bool)
		sq, _ := a["seqno"].(float64)
		dl, _ := a["delta"].(float64)
		buf := w.ar.load(in)
		if cls := call(func() { codecs.RewritePacket(codec, buf, mk, uint16(sq), uint16(dl)) }); cls != "" {
			run.Violation("parser-panic:RewritePacket:"+codecLabel(codec)+":"+cls, "replayed RewritePacket input panicked: "+cls, m)
		}
	}
	ci := 0
	for i, c := range codecNames {
		if c == codec {
			ci = i
		}
	}
	w.one(ci, 2, in, r)
	for i, v := range w.hot {
		run.Count(hotNames[i], v)
	}
	run.Eval(1)
}
