package main

// A websocket client like vclient.Client that can also write binary frames and arbitrary
// text frames (vclient does not export its socket).

import (
	"encoding/json"
	"sync"
	"time"

	"github.com/gorilla/websocket"

	"verif/harness/vclient"
	"verif/harness/vsrv"
)

type wsEvent struct {
	M vclient.Msg
}

type wsc struct {
	Name string
	ID   string
	ws   *websocket.Conn
	wmu  sync.Mutex

	mu       sync.Mutex
	cond     *sync.Cond
	events   []wsEvent
	closed   bool
	closeErr error
	pongs    int
	hook     func(vclient.Msg) // sees every message before bulky members are dropped
}

func (c *wsc) setHook(f func(vclient.Msg)) {
	c.mu.Lock()
	c.hook = f
	c.mu.Unlock()
}

func dialRaw(s *vsrv.Server, name string) (*wsc, error) {
	ws, err := s.DialWS()
	if err != nil {
		return nil, err
	}
	c := &wsc{Name: name, ID: name, ws: ws}
	c.cond = sync.NewCond(&c.mu)
	go c.reader()
	return c, nil
}

func (c *wsc) reader() {
	for {
		_, data, err := c.ws.ReadMessage()
		if err != nil {
			c.mu.Lock()
			c.closed = true
			c.closeErr = err
			c.cond.Broadcast()
			c.mu.Unlock()
			c.ws.Close()
			return
		}
		var m vclient.Msg
		if json.Unmarshal(data, &m) != nil {
			m = vclient.Msg{"type": "_unparsable"}
		}
		t := m.Str("type")
		c.mu.Lock()
		hook := c.hook
		c.mu.Unlock()
		if hook != nil {
			cp := vclient.Msg{}
			for k, v := range m {
				cp[k] = v
			}
			hook(cp)
		}
		// keep the log small: bulky members are of no interest to the oracle
		if t == "chat" || t == "chathistory" || t == "usermessage" && m.Str("kind") != "kicked" {
			delete(m, "value")
		}
		if t == "offer" || t == "answer" {
			delete(m, "sdp")
		}
		c.mu.Lock()
		if t == "pong" {
			c.pongs++
		} else {
			c.events = append(c.events, wsEvent{M: m})
		}
		c.cond.Broadcast()
		c.mu.Unlock()
		if t == "ping" {
			c.Send(vclient.Msg{"type": "pong"})
		}
	}
}

func (c *wsc) write(kind int, b []byte) error {
	c.wmu.Lock()
	defer c.wmu.Unlock()
	c.ws.SetWriteDeadline(time.Now().Add(30 * time.Second))
	return c.ws.WriteMessage(kind, b)
}

func (c *wsc) Send(m vclient.Msg) error {
	b, err := json.Marshal(m)
	if err != nil {
		return err
	}
	return c.write(websocket.TextMessage, b)
}

func (c *wsc) SendRaw(b []byte) error    { return c.write(websocket.TextMessage, b) }
func (c *wsc) SendBinary(b []byte) error { return c.write(websocket.BinaryMessage, b) }

func (c *wsc) Events() []wsEvent {
	c.mu.Lock()
	defer c.mu.Unlock()
	return append([]wsEvent(nil), c.events...)
}

func (c *wsc) EventCount() int {
	c.mu.Lock()
	defer c.mu.Unlock()
	return len(c.events)
}

func (c *wsc) Closed() (bool, error) {
	c.mu.Lock()
	defer c.mu.Unlock()
	return c.closed, c.closeErr
}

func (c *wsc) waitUntil(timeout time.Duration, done func() bool) bool {
	deadline := time.Now().Add(timeout)
	timer := time.AfterFunc(timeout, func() {
		c.mu.Lock()
		c.cond.Broadcast()
		c.mu.Unlock()
	})
	defer timer.Stop()
	c.mu.Lock()
	defer c.mu.Unlock()
	for {
		if done() {
			return true
		}
		if c.closed || !time.Now().Before(deadline) {
			return false
		}
		c.cond.Wait()
	}
}

func (c *wsc) WaitForFrom(from int, pred func(vclient.Msg) bool, timeout time.Duration) (vclient.Msg, bool) {
	var found vclient.Msg
	i := from
	ok := c.waitUntil(timeout, func() bool {
		for ; i < len(c.events); i++ {
			if pred(c.events[i].M) {
				found = c.events[i].M
				return true
			}
		}
		return false
	})
	return found, ok
}

func (c *wsc) WaitFor(pred func(vclient.Msg) bool, timeout time.Duration) (vclient.Msg, bool) {
	return c.WaitForFrom(0, pred, timeout)
}

// Ping: true when the server answered; false when the connection was closed or the watchdog fired.
func (c *wsc) Ping(timeout time.Duration) bool {
	c.mu.Lock()
	want := c.pongs + 1
	c.mu.Unlock()
	if err := c.Send(vclient.Msg{"type": "ping"}); err != nil {
		// the server may already have closed the socket; wait for the reader to notice
		c.waitUntil(5*time.Second, func() bool { return c.closed })
		return false
	}
	return c.waitUntil(timeout, func() bool { return c.pongs >= want })
}

func (c *wsc) Close() { c.ws.Close() }

func isJoinReply(m vclient.Msg) bool {
	if m.Str("type") != "joined" {
		return false
	}
	k := m.Str("kind")
	return k == "join" || k == "fail" || k == "redirect"
}

func (c *wsc) Join(group, username, password string) (vclient.Msg, bool) {
	from := c.EventCount()
	m := vclient.Msg{"type": "join", "kind": "join", "group": group, "password": password}
	if username != "\x00none" {
		m["username"] = username
	}
	if c.Send(m) != nil {
		return nil, false
	}
	return c.WaitForFrom(from, isJoinReply, 60*time.Second)
}

func (c *wsc) JoinToken(group, username, tok string) (vclient.Msg, bool) {
	from := c.EventCount()
	m := vclient.Msg{"type": "join", "kind": "join", "group": group, "token": tok}
	if username != "\x00none" {
		m["username"] = username
	}
	if c.Send(m) != nil {
		return nil, false
	}
	return c.WaitForFrom(from, isJoinReply, 60*time.Second)
}

func (c *wsc) Leave(group string) bool {
	from := c.EventCount()
	if c.Send(vclient.Msg{"type": "join", "kind": "leave", "group": group}) != nil {
		return false
	}
	_, ok := c.WaitForFrom(from, func(m vclient.Msg) bool { return m.Str("type") == "joined" && m.Str("kind") == "leave" }, 60*time.Second)
	return ok
}
