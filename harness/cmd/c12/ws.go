package main

// Tier B: grammar-based websocket message sequences against the real server, in every
// membership state.  One lane (goroutine) per membership state; a lane keeps an attacker
// connection in that state (re-creating it whenever the server closed it or the last
// message changed the state), a bystander in the same group where the state has one,
// and sends the cases of its state one after the other.

import (
	"crypto/hmac"
	"crypto/sha256"
	"encoding/base64"
	"encoding/json"
	"fmt"
	"math/rand/v2"
	"strings"
	"sync"
	"sync/atomic"
	"time"

	"verif/harness/vclient"
	"verif/harness/vk"
	"verif/harness/vsrv"
)

type wsCase struct {
	N     int    `json:"n"`
	State string `json:"state"`
	Kind  string `json:"kind"`
	Mut   string `json:"mut"`
}

var wsStates = []string{
	"pre-handshake", "handshaken",
	"refused:bad-password", "refused:bad-token", "refused:invalid-username", "refused:nonexistent-group", "refused:need-username",
	"refused:locked", "refused:full", "refused:not-before", "refused:expired", "refused:autokick", "refused:duplicate-id", "refused:empty-id", "refused:redirect",
	"joined:op", "joined:present", "joined:message", "joined:observe", "joined:token",
	"left", "pipelined", "concurrent",
}

// states whose setup costs galene's 200 ms authentication-failure delay
var slowStates = map[string]bool{"refused:bad-password": true, "refused:bad-token": true, "refused:invalid-username": true}

const farFuture = "2100-01-01T00:00:00Z"
const jwtKeyB64 = "c2VjcmV0LWtleS1mb3ItdGhlLWp3dC1ncm91cC0zMmI" // 32 bytes, base64url

type userT struct{ name, pw, role string }

var wsUsers = []userT{
	{"op1", "pw-op1", "op"}, {"op2", "pw-op2", "op"}, {"pres1", "pw-pres1", "present"}, {"pres2", "pw-pres2", "present"},
	{"msg1", "pw-msg1", "message"}, {"msg2", "pw-msg2", "message"}, {"obs1", "pw-obs1", "observe"},
}

func userOf(role string) userT {
	for _, u := range wsUsers {
		if u.role == role {
			return u
		}
	}
	return wsUsers[0]
}

func writeWSGroups(s *vsrv.Server) {
	users := func() map[string]any {
		us := map[string]any{}
		for _, u := range wsUsers {
			us[u.name] = map[string]any{"password": u.pw, "permissions": u.role}
		}
		return us
	}
	base := func(extra map[string]any) map[string]any {
		d := map[string]any{"users": users(), "auto-subgroups": true,
			"wildcard-user": map[string]any{"password": map[string]any{"type": "wildcard"}, "permissions": "message"}}
		for k, v := range extra {
			d[k] = v
		}
		return d
	}
	s.WriteGroup("open", base(map[string]any{"allow-recording": true, "unrestricted-tokens": true, "public": true, "description": "the open group"}))
	s.WriteGroup("full", base(map[string]any{"max-clients": 1}))
	s.WriteGroup("future", base(map[string]any{"not-before": farFuture}))
	s.WriteGroup("closed", base(map[string]any{"expires": "2001-01-01T00:00:00Z"}))
	s.WriteGroup("akick", base(map[string]any{"autokick": true}))
	s.WriteGroup("redir", base(map[string]any{"redirect": "https://elsewhere.example/group/x/"}))
	s.WriteGroup("canary", map[string]any{"users": users()})
	s.WriteGroup("jwt", base(map[string]any{"authKeys": []any{map[string]any{"kty": "oct", "alg": "HS256", "k": jwtKeyB64, "kid": "k1"}}}))
}

func tokenFileLines() string {
	var sb strings.Builder
	for _, t := range []map[string]any{
		{"token": "tok-pres", "group": "open", "includeSubgroups": true, "permissions": []string{"present", "message"}, "expires": farFuture},
		{"token": "tok-user", "group": "open", "includeSubgroups": true, "username": "tokuser", "permissions": []string{"present"}, "expires": farFuture},
		{"token": "tok-edit", "group": "open", "includeSubgroups": true, "permissions": []string{"message"}, "expires": farFuture},
		{"token": "tok-expired", "group": "open", "includeSubgroups": true, "permissions": []string{"present"}, "expires": "2001-01-01T00:00:00Z"},
		{"token": "tok-whip", "group": "whipg", "includeSubgroups": true, "username": "whipper", "permissions": []string{"present"}, "expires": farFuture},
		{"token": "tok-h1", "group": "hx", "permissions": []string{"message"}, "expires": farFuture},
		{"token": "tok-h2", "group": "hx", "permissions": []string{"present"}, "expires": farFuture},
	} {
		b, _ := json.Marshal(t)
		sb.Write(b)
		sb.WriteByte('\n')
	}
	return sb.String()
}

// ---- grammar ---------------------------------------------------------------

type wsCtx struct {
	self, user, group string
	by, seen          string
	offer             string
	r                 *rand.Rand
	upN               int
}

type tmpl struct {
	kind   string
	fields []string
	extra  []string
	sc     bool // state-changing: the lane re-creates the state afterwards
	build  func(cx *wsCtx) vclient.Msg
}

var genericMuts = []string{"absent", "num", "bool", "array", "object", "null", "huge", "deep", "unknown", "empty"}

func action(typ, kind string, fields []string, extra []string, sc bool, val func(cx *wsCtx) any) tmpl {
	return tmpl{kind: typ + "/" + kind, fields: fields, extra: extra, sc: sc, build: func(cx *wsCtx) vclient.Msg {
		m := vclient.Msg{"type": typ, "kind": kind, "source": cx.self, "username": cx.user}
		if typ == "useraction" {
			m["dest"] = cx.self
		}
		if val != nil {
			if v := val(cx); v != nil {
				m["value"] = v
			}
		}
		if kind == "unknown" {
			m["kind"] = "frobnicate"
		}
		return m
	}}
}

var destMuts = []string{"dest:bystander", "dest:self", "dest:seen"}

func templates() []tmpl {
	af := []string{"kind", "source", "username", "value"}
	uf := []string{"kind", "source", "username", "dest", "value"}
	tokVal := func(cx *wsCtx) any {
		return map[string]any{"group": cx.group, "expires": farFuture, "permissions": []any{"message"}, "username": "tok-guest"}
	}
	tokMuts := []string{"value.expires:num", "value.expires:neg", "value.expires:huge-num", "value.expires:bad-string", "value.expires:absent", "value.not-before:huge-num", "value.permissions:num", "value.permissions:mixed",
		"value.permissions:escalate", "value.username:num", "value.username:taken", "value.group:other", "value.group:num", "value.token:set", "value.token:num", "value.includeSubgroups:bool"}
	ts := []tmpl{
		{kind: "handshake", fields: []string{"version", "id"}, sc: true, build: func(cx *wsCtx) vclient.Msg {
			return vclient.Msg{"type": "handshake", "version": []any{"2"}, "id": cx.self}
		}},
		{kind: "join/join", fields: []string{"kind", "group", "username", "password", "token", "data"}, sc: true,
			extra: []string{"token:jwt-valid", "token:jwt-bad-sig", "token:jwt-aud-number", "token:jwt-perms-wrong-type", "token:jwt-no-exp", "token:jwt-alg-none", "token:jwt-sub-number", "token:jwt-iat-string", "token:stateful", "token:expired", "group:other-existing", "group:dotdot", "username:taken-by-token"},
			build: func(cx *wsCtx) vclient.Msg {
				return vclient.Msg{"type": "join", "kind": "join", "group": cx.group, "username": "msg2", "password": "pw-msg2", "data": map[string]any{"k": 1}}
			}},
		{kind: "join/leave", fields: []string{"kind", "group"}, sc: true, extra: []string{"group:other-existing"}, build: func(cx *wsCtx) vclient.Msg {
			return vclient.Msg{"type": "join", "kind": "leave", "group": cx.group}
		}},
		{kind: "request", fields: []string{"request"}, extra: []string{"req:values-wrong-type", "req:unknown-label", "req:unknown-value", "req:many"}, build: func(cx *wsCtx) vclient.Msg {
			return vclient.Msg{"type": "request", "request": map[string]any{"": []any{"audio", "video"}, "camera": []any{"audio", "video-low"}, "screenshare": []any{}}}
		}},
		{kind: "requestStream", fields: []string{"id", "request"}, extra: []string{"id:own-up"}, build: func(cx *wsCtx) vclient.Msg {
			return vclient.Msg{"type": "requestStream", "id": "no-such-stream", "request": []any{"audio", "video"}}
		}},
		{kind: "offer", fields: []string{"id", "label", "replace", "source", "username", "sdp"}, extra: sdpMutations[1:], sc: true, build: func(cx *wsCtx) vclient.Msg {
			cx.upN++
			return vclient.Msg{"type": "offer", "id": fmt.Sprintf("%s-up%d", cx.self, cx.upN), "label": "camera", "source": cx.self, "username": cx.user, "sdp": cx.offer}
		}},
		{kind: "answer", fields: []string{"id", "sdp"}, extra: []string{"sdp:valid", "sdp:garbage"}, build: func(cx *wsCtx) vclient.Msg {
			return vclient.Msg{"type": "answer", "id": "no-such-stream", "sdp": "v=0\r\n"}
		}},
		{kind: "renegotiate", fields: []string{"id"}, build: func(cx *wsCtx) vclient.Msg { return vclient.Msg{"type": "renegotiate", "id": "no-such-stream"} }},
		{kind: "close", fields: []string{"id"}, build: func(cx *wsCtx) vclient.Msg { return vclient.Msg{"type": "close", "id": "no-such-stream"} }},
		{kind: "abort", fields: []string{"id"}, build: func(cx *wsCtx) vclient.Msg { return vclient.Msg{"type": "abort", "id": "no-such-stream"} }},
		{kind: "ice", fields: []string{"id", "candidate"}, extra: []string{"cand:garbage", "cand:empty-string", "cand:inner-num", "cand:inner-index-huge", "cand:inner-index-neg", "cand:no-mid", "cand:extra", "cand:huge"},
			build: func(cx *wsCtx) vclient.Msg {
				return vclient.Msg{"type": "ice", "id": "no-such-stream", "candidate": map[string]any{"candidate": "candidate:1 1 udp 2130706431 192.0.2.9 40000 typ host", "sdpMid": "0", "sdpMLineIndex": 0, "usernameFragment": "abcd"}}
			}},
		{kind: "chat", fields: []string{"kind", "source", "username", "dest", "noecho", "value", "id"}, extra: append([]string{"kind:me", "kind:caption", "noecho:true"}, destMuts...), build: func(cx *wsCtx) vclient.Msg {
			return vclient.Msg{"type": "chat", "kind": "", "source": cx.self, "username": cx.user, "dest": "", "noecho": false, "value": "hello", "id": ""}
		}},
		{kind: "usermessage", fields: []string{"kind", "source", "username", "dest", "value"}, extra: destMuts, build: func(cx *wsCtx) vclient.Msg {
			return vclient.Msg{"type": "usermessage", "kind": "notify", "source": cx.self, "username": cx.user, "dest": "", "value": map[string]any{"a": 1}}
		}},
		action("groupaction", "clearchat", af, []string{"value.id:set", "value.id:num", "value.userId:set", "value.both:set"}, false, nil),
		action("groupaction", "lock", af, nil, true, func(*wsCtx) any { return "locked by the harness" }),
		action("groupaction", "unlock", af, nil, true, nil),
		action("groupaction", "record", af, nil, false, nil),
		action("groupaction", "unrecord", af, nil, false, nil),
		action("groupaction", "subgroups", af, nil, false, nil),
		action("groupaction", "setdata", af, nil, false, func(*wsCtx) any { return map[string]any{"topic": "x", "n": 3} }),
		action("groupaction", "maketoken", af, tokMuts, false, tokVal),
		action("groupaction", "edittoken", af, []string{"value.token:num", "value.token:unknown-token", "value.token:foreign", "value.expires:num", "value.expires:neg", "value.expires:bad-string", "value.group:other", "value.permissions:mixed"}, false,
			func(*wsCtx) any { return map[string]any{"token": "tok-edit", "expires": "2101-01-01T00:00:00Z"} }),
		action("groupaction", "listtokens", af, nil, false, nil),
		action("groupaction", "unknown", af, nil, false, nil),
	}
	for _, k := range []string{"op", "unop", "present", "unpresent", "shutup", "unshutup"} {
		ts = append(ts, action("useraction", k, uf, destMuts, true, nil))
	}
	ts = append(ts,
		action("useraction", "identify", uf, destMuts, false, nil),
		action("useraction", "kick", uf, destMuts, true, func(*wsCtx) any { return "bye" }),
		action("useraction", "setdata", uf, destMuts, false, func(*wsCtx) any { return map[string]any{"raisehand": true, "gone": nil} }),
		action("useraction", "unknown", uf, destMuts, false, nil),
		tmpl{kind: "ping", fields: nil, build: func(*wsCtx) vclient.Msg { return vclient.Msg{"type": "ping"} }},
		tmpl{kind: "pong", fields: nil, build: func(*wsCtx) vclient.Msg { return vclient.Msg{"type": "pong"} }},
		tmpl{kind: "unknown-type", fields: []string{"type"}, sc: true, build: func(cx *wsCtx) vclient.Msg {
			return vclient.Msg{"type": "selfdestruct", "id": "x", "value": 1}
		}},
	)
	return ts
}

var rawKinds = []string{"raw/non-json", "raw/binary", "raw/binary-json", "raw/oversize", "raw/empty", "raw/json-array", "raw/json-null", "raw/json-string", "raw/truncated-json", "raw/invalid-utf8", "raw/duplicate-keys", "raw/deep-top", "raw/nul-bytes", "raw/extra-field"}

var compositeKinds = []string{"offer+ice", "offer+ice-bad", "offer+ice-null", "offer+close", "offer+close-twice", "offer+offer-same-id", "offer+offer-garbage-same-id", "offer+abort", "offer+answer", "offer+requestStream",
	"offer+renegotiate", "offer+replace", "offer+replace-self", "offer+leave", "offer+leave+ice", "offer+join-again", "offer+unpresent-self", "record+offer+unrecord", "setdata+leave+setdata", "op-self+leave", "kick-self+chat", "many-offers"}

var tmplByKind = func() map[string]tmpl {
	m := map[string]tmpl{}
	for _, t := range templates() {
		m[t.kind] = t
	}
	return m
}()

// allWSCases enumerates (state, kind, mutation) deterministically.
func allWSCases(seqPerState int) []wsCase {
	var cs []wsCase
	add := func(s, k, m string) { cs = append(cs, wsCase{N: len(cs), State: s, Kind: k, Mut: m}) }
	for _, st := range wsStates {
		for _, t := range templates() {
			add(st, t.kind, "valid")
			for _, f := range t.fields {
				for _, g := range genericMuts {
					add(st, t.kind, f+":"+g)
				}
			}
			for _, e := range t.extra {
				add(st, t.kind, e)
			}
			add(st, t.kind, "extra-field")
		}
		for _, k := range rawKinds {
			add(st, k, "-")
		}
		for _, k := range compositeKinds {
			add(st, k, "-")
		}
		for i := 0; i < seqPerState; i++ {
			add(st, "seq", fmt.Sprint(i))
		}
	}
	return cs
}

func deepJSON(d int) json.RawMessage {
	return json.RawMessage(strings.Repeat("[", d) + strings.Repeat("]", d))
}

func makeJWT(mut string, group string) string {
	b64 := func(v any) string {
		b, _ := json.Marshal(v)
		return base64.RawURLEncoding.EncodeToString(b)
	}
	now := time.Now().Unix()
	hdr := map[string]any{"alg": "HS256", "typ": "JWT", "kid": "k1"}
	cl := map[string]any{"sub": "jwtuser", "aud": "https://galene.test/group/" + group + "/", "permissions": []any{"present", "message"}, "exp": now + 7200, "iat": now - 600, "iss": "harness"}
	switch mut {
	case "token:jwt-aud-number":
		cl["aud"] = 17
	case "token:jwt-perms-wrong-type":
		cl["permissions"] = map[string]any{"op": true}
	case "token:jwt-no-exp":
		delete(cl, "exp")
	case "token:jwt-alg-none":
		hdr["alg"] = "none"
	case "token:jwt-sub-number":
		cl["sub"] = 42
	case "token:jwt-iat-string":
		cl["iat"] = "yesterday"
	}
	signing := b64(hdr) + "." + b64(cl)
	key, _ := base64.RawURLEncoding.DecodeString(jwtKeyB64)
	if mut == "token:jwt-bad-sig" {
		key = []byte("another key")
	}
	mac := hmac.New(sha256.New, key)
	mac.Write([]byte(signing))
	sig := base64.RawURLEncoding.EncodeToString(mac.Sum(nil))
	if mut == "token:jwt-alg-none" {
		sig = ""
	}
	return signing + "." + sig
}

func genericValue(class string, r *rand.Rand) (any, bool) {
	switch class {
	case "num":
		return []any{12345.678, -1, 0, 1e300, 9007199254740993}[r.IntN(5)], true
	case "bool":
		return r.IntN(2) == 0, true
	case "array":
		return []any{[]any{"x", 1, nil}, []any{}, []any{[]any{}}, []any{"audio"}}[r.IntN(4)], true
	case "object":
		return []any{map[string]any{"a": map[string]any{"b": 1}}, map[string]any{}, map[string]any{"": nil}}[r.IntN(3)], true
	case "null":
		return nil, true
	case "huge":
		n := []int{5000, 70000, 200000}[r.IntN(3)]
		return strings.Repeat("A", n), true
	case "deep":
		return deepJSON([]int{60, 9000, 10050}[r.IntN(3)]), true
	case "unknown":
		return "no-such-thing-" + fmt.Sprint(r.IntN(1000)), true
	case "empty":
		return "", true
	}
	return nil, false
}

// mutate applies a mutation class to a valid message.
func mutate(m vclient.Msg, kind, mut string, cx *wsCtx) vclient.Msg {
	r := cx.r
	if mut == "valid" {
		return m
	}
	if mut == "extra-field" {
		m["zzz-unknown-field"] = map[string]any{"x": []any{1, 2}}
		m["Type"] = "ping" // case-insensitive duplicate of "type"
		return m
	}
	i := strings.Index(mut, ":")
	if i < 0 {
		return m
	}
	field, class := mut[:i], mut[i+1:]
	// nested value.* mutations
	if strings.HasPrefix(field, "value.") {
		v, _ := m["value"].(map[string]any)
		if v == nil {
			v = map[string]any{}
		}
		k := field[len("value."):]
		switch class {
		case "num":
			v[k] = 3600000
		case "neg":
			v[k] = -1e15
		case "huge-num":
			v[k] = 1e300
		case "bad-string":
			v[k] = "next tuesday"
		case "absent":
			delete(v, k)
		case "mixed":
			v[k] = []any{"message", 3, nil}
		case "escalate":
			v[k] = []any{"op", "admin", "record", "system"}
		case "taken":
			v[k] = "op1"
		case "other":
			v[k] = "canary"
		case "set":
			if k == "both" {
				v["id"], v["userId"] = "some-id", cx.self
			} else if k == "userId" {
				v[k] = cx.self
			} else {
				v[k] = "client-chosen"
			}
		case "bool":
			v[k] = true
		case "unknown-token":
			v[k] = "no-such-token"
		case "foreign":
			v[k] = "tok-h1"
		}
		m["value"] = v
		return m
	}
	switch field {
	case "sdp":
		if strings.HasPrefix(mut, "sdp:") && class != "absent" {
			if _, ok := genericValue(class, r); !ok {
				m["sdp"] = mutateSDP(cx.offer, mut, r)
				return m
			}
		}
	case "cand":
		c := map[string]any{"candidate": "candidate:1 1 udp 2130706431 192.0.2.9 40000 typ host", "sdpMid": "0", "sdpMLineIndex": 0}
		switch class {
		case "garbage":
			c["candidate"] = "candidate:\x00\xff garbage 99999999999999999999 udp x y z typ typ typ"
		case "empty-string":
			c["candidate"] = ""
		case "inner-num":
			c["candidate"] = 7
		case "inner-index-huge":
			c["sdpMLineIndex"] = 70000
		case "inner-index-neg":
			c["sdpMLineIndex"] = -1
		case "no-mid":
			delete(c, "sdpMid")
			delete(c, "sdpMLineIndex")
		case "extra":
			c["foo"] = []any{1}
			c["usernameFragment"] = nil
		case "huge":
			c["candidate"] = "candidate:" + strings.Repeat("9", 100000)
		}
		m["candidate"] = c
		return m
	case "dest":
		switch class {
		case "bystander":
			m["dest"] = cx.by
			return m
		case "self":
			m["dest"] = cx.self
			return m
		case "seen":
			m["dest"] = cx.seen
			return m
		}
	case "req":
		switch class {
		case "values-wrong-type":
			m["request"] = map[string]any{"": []any{"audio", 3, nil}, "camera": "video"}
		case "unknown-label":
			m["request"] = map[string]any{"no-such-label": []any{"audio"}}
		case "unknown-value":
			m["request"] = map[string]any{"": []any{"smell", "", "video-low", "video"}}
		case "many":
			big := map[string]any{}
			for q := 0; q < 3000; q++ {
				big[fmt.Sprint("l", q)] = []any{"audio", "video"}
			}
			m["request"] = big
		}
		return m
	case "token":
		switch {
		case strings.HasPrefix(class, "jwt-"):
			g := "jwt/" + strings.ReplaceAll(cx.self, "-", "")
			m["group"] = g
			m["token"] = makeJWT(mut, g)
			delete(m, "password")
			delete(m, "username")
			return m
		case class == "stateful":
			m["token"] = "tok-user"
			delete(m, "password")
			return m
		case class == "expired":
			m["token"] = "tok-expired"
			delete(m, "password")
			return m
		}
	case "group":
		switch class {
		case "other-existing":
			m["group"] = "canary"
			return m
		case "dotdot":
			m["group"] = []string{"../open", "open/../../etc", "open//x", "open/./x", "/open", "open/", "a\\b", ".hidden"}[r.IntN(8)]
			return m
		}
	case "username":
		if class == "taken-by-token" {
			m["token"] = "tok-pres"
			m["username"] = "op1"
			delete(m, "password")
			return m
		}
	case "kind":
		if class == "me" || class == "caption" {
			m["kind"] = class
			return m
		}
	case "noecho":
		if class == "true" {
			m["noecho"] = true
			return m
		}
	case "id":
		if class == "own-up" {
			m["id"] = fmt.Sprintf("%s-up%d", cx.self, cx.upN)
			return m
		}
	}
	if class == "absent" {
		delete(m, field)
		return m
	}
	if v, ok := genericValue(class, r); ok {
		m[field] = v
	}
	return m
}

type frame struct {
	data   []byte
	binary bool
	kind   string
}

func jsonFrame(kind string, m vclient.Msg) frame {
	b, err := json.Marshal(m)
	if err != nil {
		b = []byte(`{"type":"ping","marshal-error":true}`)
	}
	return frame{data: b, kind: kind}
}

func rawFrame(kind string, cx *wsCtx) frame {
	r := cx.r
	switch kind {
	case "raw/non-json":
		return frame{data: []byte([]string{"hello server", "<xml/>", "{type:'ping'}", "{'type':'ping'}", "NaN", "{\"type\":\"ping\"}}"}[r.IntN(6)]), kind: kind}
	case "raw/binary":
		b := make([]byte, 1+r.IntN(3000))
		for i := range b {
			b[i] = byte(r.UintN(256))
		}
		return frame{data: b, binary: true, kind: kind}
	case "raw/binary-json":
		return frame{data: []byte(`{"type":"ping"}`), binary: true, kind: kind}
	case "raw/oversize":
		return frame{data: []byte(`{"type":"chat","value":"` + strings.Repeat("x", 1024*1024+1+r.IntN(100)) + `"}`), kind: kind}
	case "raw/empty":
		return frame{data: []byte{}, kind: kind}
	case "raw/json-array":
		return frame{data: []byte(`[{"type":"ping"}]`), kind: kind}
	case "raw/json-null":
		return frame{data: []byte(`null`), kind: kind}
	case "raw/json-string":
		return frame{data: []byte(`"ping"`), kind: kind}
	case "raw/truncated-json":
		s := `{"type":"chat","source":"` + cx.self + `","value":{"a":[1,2,{"b":"c"}]},"dest":""}`
		return frame{data: []byte(s[:1+r.IntN(len(s)-1)]), kind: kind}
	case "raw/invalid-utf8":
		return frame{data: []byte("{\"type\":\"chat\",\"value\":\"\xff\xfe\xc0\xaf\",\"source\":\"" + cx.self + "\"}"), kind: kind}
	case "raw/duplicate-keys":
		return frame{data: []byte(`{"type":"ping","type":"join","kind":"join","kind":"leave","group":"` + cx.group + `","group":7}`), kind: kind}
	case "raw/deep-top":
		d := []int{9000, 10050, 100000}[r.IntN(3)]
		return frame{data: []byte(strings.Repeat(`{"value":`, d) + "1" + strings.Repeat("}", d)), kind: kind}
	case "raw/nul-bytes":
		return frame{data: []byte("{\"type\":\"chat\",\"value\":\"a\\u0000b\",\"source\":\"" + cx.self + "\",\"kind\":\"\\u0000\"}\x00"), kind: kind}
	default:
		return frame{data: []byte(`{"type":"ping","unknown":{"nested":[1,2,3]},"Type":"chat","TYPE":7}`), kind: kind}
	}
}

func (cx *wsCtx) valid(kind string) vclient.Msg { return tmplByKind[kind].build(cx) }

func (cx *wsCtx) lastUp() string { return fmt.Sprintf("%s-up%d", cx.self, cx.upN) }

// composite builds multi-message cases around an accepted (or refused) offer.
func composite(kind string, cx *wsCtx) []frame {
	f := func(k string, m vclient.Msg) frame { return jsonFrame(kind+"#"+k, m) }
	offer := cx.valid("offer")
	id := cx.lastUp()
	ice := func(c any) vclient.Msg { return vclient.Msg{"type": "ice", "id": id, "candidate": c} }
	goodCand := map[string]any{"candidate": "candidate:1 1 udp 2130706431 192.0.2.9 40000 typ host", "sdpMid": "0", "sdpMLineIndex": 0}
	join := vclient.Msg{"type": "join", "kind": "join", "group": cx.group, "username": "pres2", "password": "pw-pres2"}
	leave := vclient.Msg{"type": "join", "kind": "leave", "group": cx.group}
	switch kind {
	case "offer+ice":
		return []frame{f("offer", offer), f("ice", ice(goodCand)), f("ice", ice(map[string]any{"candidate": "", "sdpMid": "0", "sdpMLineIndex": 0}))}
	case "offer+ice-bad":
		return []frame{f("offer", offer),
			f("ice", ice(map[string]any{"candidate": "candidate:garbage \x00 99999999999999999999999 x", "sdpMid": "7", "sdpMLineIndex": 9})),
			f("ice", ice(map[string]any{"candidate": "candidate:1 1 udp 1 999.999.999.999 70000 typ host"})),
			f("ice", ice(map[string]any{"candidate": "candidate:1 1 tcp 1 192.0.2.1 9 typ relay raddr x rport y tcptype z", "sdpMLineIndex": 65535})),
			f("ice", ice(map[string]any{})), f("ice", ice(goodCand))}
	case "offer+ice-null":
		return []frame{f("offer", offer), f("ice", vclient.Msg{"type": "ice", "id": id, "candidate": nil}), f("ice", vclient.Msg{"type": "ice", "id": id})}
	case "offer+close":
		return []frame{f("offer", offer), f("close", vclient.Msg{"type": "close", "id": id})}
	case "offer+close-twice":
		return []frame{f("offer", offer), f("close", vclient.Msg{"type": "close", "id": id}), f("close", vclient.Msg{"type": "close", "id": id}), f("ice", ice(goodCand))}
	case "offer+offer-same-id":
		return []frame{f("offer", offer), f("offer", vclient.Msg{"type": "offer", "id": id, "label": "camera", "sdp": cx.offer})}
	case "offer+offer-garbage-same-id":
		return []frame{f("offer", offer), f("offer", vclient.Msg{"type": "offer", "id": id, "sdp": mutateSDP(cx.offer, sdpMutations[1+cx.r.IntN(len(sdpMutations)-1)], cx.r)}), f("ice", ice(goodCand))}
	case "offer+abort":
		return []frame{f("offer", offer), f("abort", vclient.Msg{"type": "abort", "id": id})}
	case "offer+answer":
		return []frame{f("offer", offer), f("answer", vclient.Msg{"type": "answer", "id": id, "sdp": cx.offer})}
	case "offer+requestStream":
		return []frame{f("offer", offer), f("requestStream", vclient.Msg{"type": "requestStream", "id": id, "request": []any{"audio"}})}
	case "offer+renegotiate":
		return []frame{f("offer", offer), f("renegotiate", vclient.Msg{"type": "renegotiate", "id": id})}
	case "offer+replace":
		o2 := cx.valid("offer")
		o2["replace"] = id
		o3 := cx.valid("offer")
		o3["replace"] = "no-such-stream"
		return []frame{f("offer", offer), f("offer", o2), f("offer", o3)}
	case "offer+replace-self":
		o2 := vclient.Msg{"type": "offer", "id": id, "replace": id, "sdp": cx.offer}
		return []frame{f("offer", offer), f("offer", o2)}
	case "offer+leave":
		return []frame{f("offer", offer), f("leave", leave), f("close", vclient.Msg{"type": "close", "id": id})}
	case "offer+leave+ice":
		return []frame{f("offer", offer), f("leave", leave), f("ice", ice(goodCand)), f("offer", vclient.Msg{"type": "offer", "id": id, "sdp": cx.offer})}
	case "offer+join-again":
		return []frame{f("offer", offer), f("leave", leave), f("join", join), f("offer", vclient.Msg{"type": "offer", "id": id, "sdp": cx.offer})}
	case "offer+unpresent-self":
		return []frame{f("offer", offer), f("unpresent", vclient.Msg{"type": "useraction", "kind": "unpresent", "source": cx.self, "dest": cx.self}), f("offer", cx.valid("offer"))}
	case "record+offer+unrecord":
		return []frame{f("record", cx.valid("groupaction/record")), f("offer", offer), f("record", cx.valid("groupaction/record")), f("unrecord", cx.valid("groupaction/unrecord")), f("unrecord", cx.valid("groupaction/unrecord"))}
	case "setdata+leave+setdata":
		return []frame{f("setdata", cx.valid("useraction/setdata")), f("leave", leave), f("setdata", cx.valid("useraction/setdata")), f("gsetdata", cx.valid("groupaction/setdata"))}
	case "op-self+leave":
		return []frame{f("op", cx.valid("useraction/op")), f("present", cx.valid("useraction/present")), f("leave", leave), f("unop", cx.valid("useraction/unop"))}
	case "kick-self+chat":
		return []frame{f("kick", cx.valid("useraction/kick")), f("chat", cx.valid("chat")), f("offer", offer)}
	case "many-offers":
		var fs []frame
		for q := 0; q < 6; q++ {
			fs = append(fs, f("offer", cx.valid("offer")))
		}
		return fs
	}
	return nil
}

// sequence builds a random multi-message history (mostly well-formed so that the
// connection survives and later messages meet the state earlier ones created).
func sequence(cx *wsCtx) []frame {
	r := cx.r
	ts := templates()
	n := 4 + r.IntN(10)
	var fs []frame
	for i := 0; i < n; i++ {
		t := ts[r.IntN(len(ts))]
		if t.kind == "handshake" || t.kind == "unknown-type" {
			continue
		}
		mut := "valid"
		if r.IntN(3) == 0 {
			var opts []string
			for _, f := range t.fields {
				opts = append(opts, f+":absent", f+":unknown", f+":empty", f+":null")
			}
			opts = append(opts, t.extra...)
			if len(opts) > 0 {
				mut = opts[r.IntN(len(opts))]
			}
		}
		m := mutate(t.build(cx), t.kind, mut, cx)
		// references to the own stream where it makes sense
		if _, has := m["id"]; has && t.kind != "offer" && cx.upN > 0 && r.IntN(2) == 0 {
			m["id"] = cx.lastUp()
		}
		fs = append(fs, jsonFrame("seq#"+t.kind+"/"+mut, m))
	}
	return fs
}

func buildCase(c wsCase, cx *wsCtx) ([]frame, bool) {
	switch {
	case strings.HasPrefix(c.Kind, "raw/"):
		return []frame{rawFrame(c.Kind, cx)}, c.Kind != "raw/extra-field"
	case c.Kind == "seq":
		return sequence(cx), true
	case strings.Contains(c.Kind, "+"):
		return composite(c.Kind, cx), true
	}
	t, ok := tmplByKind[c.Kind]
	if !ok {
		return nil, false
	}
	m := mutate(t.build(cx), c.Kind, c.Mut, cx)
	return []frame{jsonFrame(c.Kind, m)}, t.sc
}

func abbrev(b []byte) string {
	if len(b) <= 420 {
		return string(b)
	}
	return string(b[:300]) + fmt.Sprintf("...(%d bytes)...", len(b)) + string(b[len(b)-60:])
}

// ---- lanes -----------------------------------------------------------------

// stallMonitor measures how late a 5 ms sleeper wakes up: galene drops a client when one
// write to its socket does not complete within 500 ms, so a process that was not scheduled
// for that long loses well-behaved connections for reasons no client input explains.
type stallMonitor struct {
	mu     sync.Mutex
	stalls []time.Time // moments at which a stall >= 200 ms ended
	max    time.Duration
}

func (sm *stallMonitor) start(run *vk.Run) {
	go func() {
		last := time.Now()
		for {
			time.Sleep(5 * time.Millisecond)
			now := time.Now()
			if d := now.Sub(last) - 5*time.Millisecond; d > 0 {
				sm.mu.Lock()
				if d > sm.max {
					sm.max = d
				}
				if d >= 200*time.Millisecond {
					sm.stalls = append(sm.stalls, now)
				}
				sm.mu.Unlock()
				if d >= 200*time.Millisecond {
					run.Note(fmt.Sprintf("harness: this process was not scheduled for %d ms", d.Milliseconds()))
				}
			}
			last = now
		}
	}()
}

// recent reports whether the process was starved within the last few seconds.
func (sm *stallMonitor) recent() bool {
	sm.mu.Lock()
	defer sm.mu.Unlock()
	return len(sm.stalls) > 0 && time.Since(sm.stalls[len(sm.stalls)-1]) < 5*time.Second
}

func (sm *stallMonitor) maxMS() int64 {
	sm.mu.Lock()
	defer sm.mu.Unlock()
	return sm.max.Milliseconds()
}

type world struct {
	stall  stallMonitor
	run    *vk.Run
	srv    *vsrv.Server
	batch  uint64
	pass   int
	offer  string
	canary *wsc
	cmu    sync.Mutex
	bad    atomic.Bool
	checkN atomic.Int64
}

func dialHS(srv *vsrv.Server, id string) (*wsc, error) {
	c, err := dialRaw(srv, id)
	if err != nil {
		return nil, err
	}
	if err := c.Send(vclient.Msg{"type": "handshake", "version": []string{"2"}, "id": id}); err != nil {
		c.Close()
		return nil, err
	}
	if _, ok := c.WaitFor(func(m vclient.Msg) bool { return m.Str("type") == "handshake" }, 30*time.Second); !ok {
		_, cerr := c.Closed()
		c.Close()
		return nil, fmt.Errorf("no handshake reply for %s (connection error: %v)", id, cerr)
	}
	return c, nil
}

// checkCanary: the process is alive, other connections are untouched, new clients are admitted.
func (w *world) checkCanary(why string) {
	w.cmu.Lock()
	defer w.cmu.Unlock()
	if w.bad.Load() {
		return
	}
	if !w.canary.Ping(60 * time.Second) {
		if closed, err := w.canary.Closed(); closed && w.stall.recent() {
			// the process was not scheduled for >= 200 ms moments ago: galene's 500 ms write
			// deadline explains the loss, no client input does
			w.run.Count("closures_while_process_was_starved", 1)
			c, derr := dialHS(w.srv, fmt.Sprintf("canary-b%d-r%d", w.batch, w.checkN.Add(1)))
			if derr == nil {
				if m, ok := c.Join("canary", "op1", "pw-op1"); ok && m.Str("kind") == "join" {
					w.canary = c
					return
				}
			}
			w.bad.Store(true)
			w.run.Inconclusive("canary lost while the process was starved and could not be re-established (" + why + ")")
		} else if closed {
			w.bad.Store(true)
			w.run.Violation("canary-connection-closed", fmt.Sprintf("a connection that sent nothing but pings (joined as op in its own group) was closed by the server (%v) while other clients were misbehaving", err),
				map[string]any{"tier": "ws", "batch": w.batch, "pass": w.pass, "when": why})
		} else {
			w.bad.Store(true)
			w.run.Inconclusive("canary ping watchdog fired (" + why + ")")
		}
		return
	}
	// a fresh client is admitted (retried: a connection of the harness can be lost to galene's
	// 500 ms write deadline when the machine is overloaded; a refusal is never retried away)
	var last string
	for try := 0; try < 4; try++ {
		n := w.checkN.Add(1)
		c, err := dialHS(w.srv, fmt.Sprintf("b%d-fresh-%d", w.batch, n))
		if err != nil {
			last = "no connection: " + err.Error()
			continue
		}
		m, ok := c.Join("canary", "op2", "pw-op2")
		c.Close()
		if ok && m.Str("kind") == "join" {
			last = ""
			break
		}
		if ok {
			w.run.Violation("fresh-join-refused", fmt.Sprintf("a fresh client with valid credentials was refused by an untouched group (reply %v)", m), map[string]any{"tier": "ws", "batch": w.batch, "pass": w.pass, "when": why})
			return
		}
		_, cerr := c.Closed()
		last = fmt.Sprintf("connection lost before the reply to join: %v", cerr)
	}
	if last != "" {
		if w.stall.recent() {
			w.bad.Store(true)
			w.run.Inconclusive("fresh connections kept failing while the process was starved (" + why + "): " + last)
		} else {
			w.run.Violation("fresh-connection-refused", "four fresh websocket connections in a row could not handshake and join an untouched group: "+last, map[string]any{"tier": "ws", "batch": w.batch, "pass": w.pass, "when": why})
		}
		return
	}
	w.run.Count("canary_checks_passed", 1)
}

type lane struct {
	w        *world
	idx      int
	state    string
	r        *rand.Rand
	n        int
	att      *wsc
	by       *wsc
	helpers  []*wsc
	cx       *wsCtx
	label    string
	dirty    bool
	stop     chan struct{}
	churnG   atomic.Value // string: group the churners use
	churnWG  sync.WaitGroup
	setupOK  int
	lastFail string
}

func (ln *lane) teardown() {
	for _, c := range append(ln.helpers, ln.att, ln.by) {
		if c != nil {
			c.Close()
		}
	}
	ln.att, ln.by, ln.helpers = nil, nil, nil
}

func isClosed(c *wsc) bool {
	cl, _ := c.Closed()
	return cl
}

// fail records why a setup attempt did not reach the state; the caller retries.
func (ln *lane) fail(reason string) bool {
	ln.lastFail = reason
	return false
}

func (ln *lane) helper(id, group string, u userT) (*wsc, bool) {
	c, err := dialHS(ln.w.srv, id)
	if err != nil {
		return nil, ln.fail("helper dial: " + err.Error())
	}
	ln.helpers = append(ln.helpers, c)
	m, ok := c.Join(group, u.name, u.pw)
	if !ok || m.Str("kind") != "join" {
		_, cerr := c.Closed()
		return nil, ln.fail(fmt.Sprintf("helper %s (%s) could not join %s: %v (connection error: %v)", u.name, id, group, m, cerr))
	}
	return c, true
}

// setup brings a fresh attacker connection into the lane's membership state.
func (ln *lane) setup() bool {
	ln.teardown()
	ln.n++
	w := ln.w
	id := fmt.Sprintf("b%d-l%d-%d", w.batch, ln.idx, ln.n)
	sub := fmt.Sprintf("b%dp%dl%dn%d", w.batch, w.pass, ln.idx, ln.n)
	roles := []string{"present", "message", "observe"}
	role := roles[ln.n%3]
	if ln.n%2 == 0 {
		role = "present"
	}
	u := userOf(role)
	group := "open/" + sub
	ln.cx = &wsCtx{self: id, user: u.name, group: group, offer: w.offer, r: ln.r, seen: "no-such-client"}
	ln.label = ln.state
	var err error
	expect := "fail"
	var reply vclient.Msg
	var ok bool
	note := func(s string) { w.run.Note(fmt.Sprintf("ws %s setup [%s]: %s", id, ln.state, s)) }
	dial := func() bool {
		ln.att, err = dialHS(w.srv, id)
		if err != nil {
			return ln.fail("dial: " + err.Error())
		}
		return true
	}
	switch ln.state {
	case "pre-handshake":
		ln.att, err = dialRaw(w.srv, id)
		if err != nil {
			return ln.fail("dial: " + err.Error())
		}
		ln.setupOK++
		return true
	case "handshaken":
		if !dial() {
			return false
		}
		ln.setupOK++
		return true
	case "refused:bad-password":
		if !dial() {
			return false
		}
		note("join " + group + " as " + u.name + " with a wrong password")
		reply, ok = ln.att.Join(group, u.name, "wrong-password")
	case "refused:bad-token":
		if !dial() {
			return false
		}
		note("join " + group + " with an unknown token")
		reply, ok = ln.att.JoinToken(group, "someone", "no-such-token")
	case "refused:invalid-username":
		if !dial() {
			return false
		}
		ln.cx.user = "a/../b"
		note("join " + group + " as a/../b")
		reply, ok = ln.att.Join(group, "a/../b", "x")
	case "refused:nonexistent-group":
		if !dial() {
			return false
		}
		ln.cx.group = "nonexistent/" + sub
		note("join " + ln.cx.group)
		reply, ok = ln.att.Join(ln.cx.group, u.name, u.pw)
	case "refused:need-username":
		if !dial() {
			return false
		}
		ln.cx.user = ""
		note("join " + group + " with token tok-pres and no username")
		reply, ok = ln.att.JoinToken(group, "\x00none", "tok-pres")
	case "refused:locked":
		h, hok := ln.helper(id+"-h", group, userOf("op"))
		if !hok {
			return false
		}
		h.Send(vclient.Msg{"type": "groupaction", "kind": "lock", "source": h.ID, "value": "locked for the test"})
		if !h.Ping(30 * time.Second) {
			_, cerr := h.Closed()
			return ln.fail(fmt.Sprintf("locking helper %s died (connection error: %v)", h.ID, cerr))
		}
		ln.by = h
		if !dial() {
			return false
		}
		note("join locked " + group + " as " + u.name + " (" + role + ")")
		reply, ok = ln.att.Join(group, u.name, u.pw)
		ln.label += "/" + role
	case "refused:full":
		group = "full/" + sub
		ln.cx.group = group
		h, hok := ln.helper(id+"-h", group, wsUsers[3])
		if !hok {
			return false
		}
		ln.by = h
		if !dial() {
			return false
		}
		note("join full " + group + " as " + u.name + " (" + role + ")")
		reply, ok = ln.att.Join(group, u.name, u.pw)
		ln.label += "/" + role
	case "refused:not-before", "refused:expired":
		group = map[string]string{"refused:not-before": "future/", "refused:expired": "closed/"}[ln.state] + sub
		ln.cx.group = group
		h, hok := ln.helper(id+"-h", group, userOf("op"))
		if !hok {
			return false
		}
		ln.by = h
		if !dial() {
			return false
		}
		note("join " + group + " as " + u.name + " (" + role + ")")
		reply, ok = ln.att.Join(group, u.name, u.pw)
		ln.label += "/" + role
	case "refused:autokick":
		group = "akick/" + sub
		ln.cx.group = group
		if !dial() {
			return false
		}
		note("join operator-less autokick " + group + " as " + u.name + " (" + role + ")")
		reply, ok = ln.att.Join(group, u.name, u.pw)
		ln.label += "/" + role
	case "refused:duplicate-id":
		if ln.n%4 == 1 {
			role = "op"
			u = userOf(role)
			ln.cx.user = u.name
		}
		h, hok := ln.helper(id, group, wsUsers[5])
		if !hok {
			return false
		}
		ln.by = h
		if !dial() {
			return false
		}
		note("join " + group + " as " + u.name + " (" + role + ") with a client id that is already a member")
		reply, ok = ln.att.Join(group, u.name, u.pw)
		ln.label += "/" + role
	case "refused:empty-id":
		if ln.n%4 == 1 {
			role = "op"
			u = userOf(role)
			ln.cx.user = u.name
		}
		ln.cx.self = ""
		ln.att, err = dialRaw(w.srv, id)
		if err != nil {
			return ln.fail("dial: " + err.Error())
		}
		ln.att.Send(vclient.Msg{"type": "handshake", "version": []string{"2"}, "id": ""})
		if _, hs := ln.att.WaitFor(func(m vclient.Msg) bool { return m.Str("type") == "handshake" }, 30*time.Second); !hs {
			return ln.fail("no handshake reply for an empty id")
		}
		note("handshake with empty id, join " + group + " as " + u.name + " (" + role + ")")
		reply, ok = ln.att.Join(group, u.name, u.pw)
		ln.label += "/" + role
	case "refused:redirect":
		if ln.n%4 == 1 {
			role = "op"
			u = userOf(role)
			ln.cx.user = u.name
		}
		group = "redir/" + sub
		ln.cx.group = group
		if !dial() {
			return false
		}
		expect = "redirect"
		note("join redirecting " + group + " as " + u.name + " (" + role + ")")
		reply, ok = ln.att.Join(group, u.name, u.pw)
		ln.label += "/" + role
	case "joined:op", "joined:present", "joined:message", "joined:observe", "joined:token", "left", "concurrent":
		switch ln.state {
		case "joined:op", "joined:present", "joined:message", "joined:observe":
			u = userOf(strings.TrimPrefix(ln.state, "joined:"))
		case "left", "concurrent":
			u = userOf([]string{"op", "present", "message", "observe"}[ln.n%4])
			ln.label += "/" + u.role
		}
		ln.cx.user = u.name
		h, hok := ln.helper(id+"-by", group, wsUsers[5])
		if !hok {
			return false
		}
		ln.by = h
		if ln.state == "concurrent" {
			ln.churnG.Store(group)
		}
		if !dial() {
			return false
		}
		expect = "join"
		if ln.state == "joined:token" {
			ln.cx.user = "tokguest"
			note("join " + group + " with token tok-pres")
			reply, ok = ln.att.JoinToken(group, "tokguest", "tok-pres")
		} else {
			note("join " + group + " as " + u.name)
			reply, ok = ln.att.Join(group, u.name, u.pw)
		}
		if ok && reply.Str("kind") == "join" && ln.state == "left" {
			note("leave " + group)
			if !ln.att.Leave(group) {
				return ln.fail("no acknowledgement of leave")
			}
		}
	case "pipelined":
		u = userOf([]string{"op", "present", "message", "observe"}[ln.n%4])
		ln.cx.user = u.name
		ln.label += "/" + u.role
		h, hok := ln.helper(id+"-by", group, wsUsers[5])
		if !hok {
			return false
		}
		ln.by = h
		ln.att, err = dialRaw(w.srv, id)
		if err != nil {
			return ln.fail("dial: " + err.Error())
		}
		note("handshake+join+leave+join " + group + " as " + u.name + " in one burst, then the message, without waiting")
		j := vclient.Msg{"type": "join", "kind": "join", "group": group, "username": u.name, "password": u.pw}
		ln.att.Send(vclient.Msg{"type": "handshake", "version": []string{"2"}, "id": id})
		ln.att.Send(j)
		ln.att.Send(vclient.Msg{"type": "join", "kind": "leave", "group": group})
		if ln.n%2 == 0 {
			ln.att.Send(j)
		}
		ln.setupOK++
		return true
	}
	if !ok {
		return ln.fail(fmt.Sprintf("no reply to join (closed=%v)", isClosed(ln.att)))
	}
	if reply.Str("kind") != expect {
		return ln.fail(fmt.Sprintf("join answered %q (%v), the state needs %q", reply.Str("kind"), reply["value"], expect))
	}
	if ln.by != nil {
		ln.cx.by = ln.by.ID
		if ln.by.ID == id { // duplicate-id: the bystander has the attacker's id
			ln.cx.by = id
		}
	} else {
		ln.cx.by = "no-such-client"
	}
	ln.setupOK++
	return true
}

func (ln *lane) churner(k int) {
	defer ln.churnWG.Done()
	w := ln.w
	for i := 0; ; i++ {
		select {
		case <-ln.stop:
			return
		default:
		}
		g, _ := ln.churnG.Load().(string)
		if g == "" {
			time.Sleep(2 * time.Millisecond)
			continue
		}
		c, err := dialHS(w.srv, fmt.Sprintf("b%d-churn%d-%d", w.batch, k, i))
		if err != nil {
			return
		}
		u := wsUsers[(i+k)%len(wsUsers)]
		if m, ok := c.Join(g, u.name, u.pw); ok && m.Str("kind") == "join" {
			w.run.Count("concurrent_joins_by_other_clients", 1)
			if i%3 == 0 {
				c.Send(vclient.Msg{"type": "chat", "source": c.ID, "username": u.name, "value": "churn"})
			}
			if i%2 == 0 {
				c.Leave(g)
			}
		}
		c.Close()
	}
}

func (ln *lane) learnSeen() {
	if ln.att == nil {
		return
	}
	for _, e := range ln.att.Events() {
		if e.M.Str("type") == "user" && e.M.Str("kind") == "add" {
			if id := e.M.Str("id"); id != "" && id != ln.cx.self && id != ln.cx.by {
				ln.cx.seen = id
			}
		}
	}
}

func (ln *lane) runCase(c wsCase, confirming bool) {
	w := ln.w
	if w.bad.Load() {
		return
	}
	if ln.att == nil || ln.dirty || isClosed(ln.att) || (ln.by != nil && isClosed(ln.by)) {
		for try := 0; !ln.setup(); try++ {
			// a connection of the harness may be lost for reasons that are no client input
			// (galene drops a client whose socket write takes more than 500 ms)
			w.run.Count("ws_setup_retries", 1)
			if try == 4 {
				w.run.Inconclusive(fmt.Sprintf("batch %d: setting up state %q failed 5 times, last: %s", w.batch, ln.state, ln.lastFail))
				w.bad.Store(true)
				return
			}
		}
		ln.dirty = false
	}
	ln.learnSeen()
	frames, sc := buildCase(c, ln.cx)
	sent := 0
	for _, f := range frames {
		w.run.Note(fmt.Sprintf("ws %s [%s] case %d %s %s: %s", ln.att.Name, ln.label, c.N, f.kind, c.Mut, abbrev(f.data)))
		var err error
		if f.binary {
			err = ln.sendBinary(f.data)
		} else {
			err = ln.att.SendRaw(f.data)
		}
		if err != nil {
			break
		}
		sent++
	}
	w.run.Eval(int64(sent))
	w.run.Count("ws_messages", int64(sent))
	w.run.Count("ws_messages:"+ln.state, int64(sent))
	if sent == 0 {
		ln.dirty = true
		return
	}
	// synchronise: pong (everything before was handled) or close
	alive := ln.att.Ping(60 * time.Second)
	if !alive && !isClosed(ln.att) {
		w.run.Inconclusive(fmt.Sprintf("batch %d case %d (%s %s %s): attacker neither answered a ping nor was closed within the watchdog", w.batch, c.N, ln.label, c.Kind, c.Mut))
		w.bad.Store(true)
		return
	}
	outcome := "closed"
	if alive {
		outcome = "open"
		w.run.Count("ws_offender_kept_open", 1)
	} else {
		w.run.Count("ws_offender_closed", 1)
	}
	for _, e := range ln.att.Events() {
		if e.M.Str("type") == "answer" {
			w.run.Count("offers_answered_by_server", 1)
			break
		}
	}
	// the bystander in the same group must still be served
	if ln.by != nil && ln.by != ln.att {
		if ln.by.Ping(60 * time.Second) {
			w.run.Count("bystander_checks_passed", 1)
		} else if isClosed(ln.by) {
			kicked := false
			for _, e := range ln.by.Events() {
				if e.M.Str("type") == "usermessage" && e.M.Str("kind") == "kicked" {
					kicked = true
				}
			}
			if kicked {
				w.run.Count("bystander_legitimately_kicked", 1)
			} else if !confirming {
				// a closure caused by the attacker's input is reproducible: say so only if the
				// same case in a freshly built state loses the bystander again
				w.run.Count("bystander_closures_rechecked", 1)
				if w.stall.recent() {
					w.run.Count("closures_while_process_was_starved", 1)
				}
				ln.dirty = true
				ln.runCase(c, true)
				return
			} else {
				_, cerr := ln.by.Closed()
				w.run.Violation("bystander-closed:"+ln.state+":"+c.Kind, fmt.Sprintf("a well-behaved member of %s was disconnected (%v) without being kicked, after another client [%s] sent %s %s", ln.cx.group, cerr, ln.label, c.Kind, c.Mut),
					map[string]any{"tier": "ws", "batch": w.batch, "pass": w.pass, "case": c, "frames": abbrevFrames(frames)})
			}
			ln.dirty = true
		} else {
			w.run.Inconclusive(fmt.Sprintf("batch %d case %d: bystander ping watchdog fired", w.batch, c.N))
			w.bad.Store(true)
			return
		}
	}
	w.run.Distinct(fmt.Sprintf("B|%s|%s|%s|%s", c.Kind, mutClass(c), ln.state, outcome))
	if c.N%997 == 0 {
		w.run.Sample(map[string]any{"tier": "ws", "state": ln.label, "case": c, "frames": abbrevFrames(frames), "connection_after": outcome})
	}
	if sc || ln.state == "pre-handshake" || ln.state == "pipelined" || len(frames) > 1 {
		ln.dirty = true
	}
}

func mutClass(c wsCase) string {
	if c.Kind == "seq" {
		return "random-sequence"
	}
	return c.Mut
}

func abbrevFrames(fs []frame) []string {
	var out []string
	for _, f := range fs {
		out = append(out, abbrev(f.data))
	}
	return out
}

func (ln *lane) sendBinary(b []byte) error { return ln.att.SendBinary(b) }

func (ln *lane) run(cases []wsCase) {
	w := ln.w
	ln.stop = make(chan struct{})
	if ln.state == "concurrent" {
		for k := 0; k < 2; k++ {
			ln.churnWG.Add(1)
			go ln.churner(k)
		}
	}
	for i, c := range cases {
		ln.runCase(c, false)
		if w.bad.Load() {
			break
		}
		if i%50 == 49 {
			w.checkCanary(fmt.Sprintf("lane %s after case %d", ln.state, c.N))
		}
	}
	close(ln.stop)
	ln.churnWG.Wait()
	ln.teardown()
	w.run.Count("ws_state_setups:"+ln.state, int64(ln.setupOK))
	if !w.bad.Load() {
		w.checkCanary("end of lane " + ln.state)
	}
}
