package main

// Tier D: hostile RTP payloads and RTCP on an established session.  A publisher (pion
// PeerConnection in the harness, SRTP over a real ICE/DTLS session with the server in this
// process) sends well-formed SRTP packets whose RTP payloads are hostile, under every codec
// the group allows; a subscriber and (every other session) the disk recorder make the
// server classify, rewrite, cache, forward and depacketise them; the subscriber answers
// with hostile RTCP feedback.

import (
	"fmt"
	"math/rand/v2"
	"os"
	"path/filepath"
	"strings"
	"sync"
	"sync/atomic"
	"time"

	"github.com/pion/rtcp"
	"github.com/pion/rtp"
	"github.com/pion/webrtc/v4"

	"github.com/jech/galene/group"

	"verif/harness/vclient"
	"verif/harness/vsrv"
)

type rtpCodec struct {
	name string // label
	cap  webrtc.RTPCodecCapability
	fam  int // descriptor family of the generator
	// a profile the group's codec list does not name: the publisher offers nothing else
	unlisted bool
}

var rtpCodecs = []rtpCodec{
	{"video/VP8", webrtc.RTPCodecCapability{MimeType: "video/VP8", ClockRate: 90000}, 0, false},
	{"video/VP9", webrtc.RTPCodecCapability{MimeType: "video/VP9", ClockRate: 90000, SDPFmtpLine: "profile-id=0"}, 1, false},
	{"video/AV1", webrtc.RTPCodecCapability{MimeType: "video/AV1", ClockRate: 90000}, 2, false},
	{"video/H264", webrtc.RTPCodecCapability{MimeType: "video/H264", ClockRate: 90000, SDPFmtpLine: "level-asymmetry-allowed=1;packetization-mode=1;profile-level-id=42e01f"}, 3, false},
	{"audio/opus", webrtc.RTPCodecCapability{MimeType: "audio/opus", ClockRate: 48000, Channels: 2, SDPFmtpLine: "minptime=10;useinbandfec=1;stereo=1;sprop-stereo=1"}, 4, false},
	// a profile the group's codec list does not name (H.264 High): the server has no payload
	// type for it; that is the publisher's problem, not the receivers'
	{"video/H264-high", webrtc.RTPCodecCapability{MimeType: "video/H264", ClockRate: 90000, SDPFmtpLine: "level-asymmetry-allowed=1;packetization-mode=1;profile-level-id=640c1f"}, 3, true},
}

func writeRTPGroups(s *vsrv.Server) {
	us := map[string]any{}
	for _, u := range wsUsers {
		us[u.name] = map[string]any{"password": u.pw, "permissions": u.role}
	}
	s.WriteGroup("rtp", map[string]any{"users": us, "auto-subgroups": true, "allow-recording": true, "codecs": []string{"vp8", "vp9", "av1", "h264", "opus"}})
}

// rtpPeer gives a signalling client PeerConnections.
type rtpPeer struct {
	c   *wsc
	api *webrtc.API

	mu      sync.Mutex
	ups     map[string]*webrtc.PeerConnection
	downs   map[string]*webrtc.PeerConnection
	pending map[string][]webrtc.ICECandidateInit
	upConn  map[string]chan struct{} // closed when the up connection is connected
	queue   chan vclient.Msg
	done    chan struct{}

	downPackets atomic.Int64
	downSSRC    atomic.Uint32
	downPC      atomic.Pointer[webrtc.PeerConnection]
}

func newRTPPeer(c *wsc, api *webrtc.API) *rtpPeer {
	p := &rtpPeer{c: c, api: api, ups: map[string]*webrtc.PeerConnection{}, downs: map[string]*webrtc.PeerConnection{}, pending: map[string][]webrtc.ICECandidateInit{},
		upConn: map[string]chan struct{}{}, queue: make(chan vclient.Msg, 4096), done: make(chan struct{})}
	c.setHook(func(m vclient.Msg) {
		switch m.Str("type") {
		case "offer", "answer", "ice", "close", "abort":
			select {
			case p.queue <- m:
			default:
			}
		}
	})
	go func() {
		for {
			select {
			case m := <-p.queue:
				p.handle(m)
			case <-p.done:
				return
			}
		}
	}()
	return p
}

func (p *rtpPeer) downCount() int {
	p.mu.Lock()
	defer p.mu.Unlock()
	return len(p.downs)
}

func (p *rtpPeer) shutdown() {
	close(p.done)
	p.mu.Lock()
	defer p.mu.Unlock()
	for _, pc := range p.ups {
		pc.Close()
	}
	for _, pc := range p.downs {
		pc.Close()
	}
}

func candidateInit(m vclient.Msg) (webrtc.ICECandidateInit, bool) {
	c, ok := m["candidate"].(map[string]any)
	if !ok {
		return webrtc.ICECandidateInit{}, false
	}
	var init webrtc.ICECandidateInit
	init.Candidate, _ = c["candidate"].(string)
	if s, ok := c["sdpMid"].(string); ok {
		init.SDPMid = &s
	}
	if f, ok := c["sdpMLineIndex"].(float64); ok {
		v := uint16(f)
		init.SDPMLineIndex = &v
	}
	return init, true
}

func (p *rtpPeer) handle(m vclient.Msg) {
	id := m.Str("id")
	switch m.Str("type") {
	case "answer":
		p.mu.Lock()
		pc := p.ups[id]
		pend := p.pending[id]
		delete(p.pending, id)
		p.mu.Unlock()
		if pc == nil {
			return
		}
		if pc.SetRemoteDescription(webrtc.SessionDescription{Type: webrtc.SDPTypeAnswer, SDP: m.Str("sdp")}) == nil {
			for _, c := range pend {
				pc.AddICECandidate(c)
			}
		}
	case "ice":
		init, ok := candidateInit(m)
		if !ok {
			return
		}
		p.mu.Lock()
		pc := p.ups[id]
		if pc == nil {
			pc = p.downs[id]
		}
		if pc == nil || pc.RemoteDescription() == nil {
			p.pending[id] = append(p.pending[id], init)
			p.mu.Unlock()
			return
		}
		p.mu.Unlock()
		pc.AddICECandidate(init)
	case "abort":
		p.mu.Lock()
		pc := p.ups[id]
		delete(p.ups, id)
		p.mu.Unlock()
		if pc != nil {
			pc.Close()
		}
	case "close":
		p.mu.Lock()
		pc := p.downs[id]
		delete(p.downs, id)
		p.mu.Unlock()
		if pc != nil {
			pc.Close()
		}
	case "offer":
		p.mu.Lock()
		pc := p.downs[id]
		p.mu.Unlock()
		if pc == nil {
			var err error
			pc, err = p.api.NewPeerConnection(webrtc.Configuration{})
			if err != nil {
				return
			}
			pc.OnTrack(func(tr *webrtc.TrackRemote, _ *webrtc.RTPReceiver) {
				p.downSSRC.Store(uint32(tr.SSRC()))
				p.downPC.Store(pc)
				buf := make([]byte, 1600)
				for {
					if _, _, err := tr.Read(buf); err != nil {
						return
					}
					p.downPackets.Add(1)
				}
			})
			p.mu.Lock()
			p.downs[id] = pc
			p.mu.Unlock()
		}
		if pc.SetRemoteDescription(webrtc.SessionDescription{Type: webrtc.SDPTypeOffer, SDP: m.Str("sdp")}) != nil {
			return
		}
		p.mu.Lock()
		pend := p.pending[id]
		delete(p.pending, id)
		p.mu.Unlock()
		for _, c := range pend {
			pc.AddICECandidate(c)
		}
		ans, err := pc.CreateAnswer(nil)
		if err != nil {
			return
		}
		gather := webrtc.GatheringCompletePromise(pc)
		if pc.SetLocalDescription(ans) != nil {
			return
		}
		select {
		case <-gather:
		case <-time.After(20 * time.Second):
		}
		p.c.Send(vclient.Msg{"type": "answer", "id": id, "sdp": pc.LocalDescription().SDP})
	}
}

// publish offers one track of the codec and waits for the connection.
func (p *rtpPeer) publish(id string, cd rtpCodec) (*webrtc.PeerConnection, *webrtc.TrackLocalStaticRTP, string) {
	pc, err := p.api.NewPeerConnection(webrtc.Configuration{})
	if err != nil {
		return nil, nil, "NewPeerConnection: " + err.Error()
	}
	local, err := webrtc.NewTrackLocalStaticRTP(cd.cap, "track-"+id, "stream-"+id)
	if err != nil {
		pc.Close()
		return nil, nil, "NewTrackLocalStaticRTP: " + err.Error()
	}
	if _, err := pc.AddTransceiverFromTrack(local, webrtc.RTPTransceiverInit{Direction: webrtc.RTPTransceiverDirectionSendonly}); err != nil {
		pc.Close()
		return nil, nil, "AddTransceiverFromTrack: " + err.Error()
	}
	connected := make(chan struct{})
	var once sync.Once
	pc.OnConnectionStateChange(func(s webrtc.PeerConnectionState) {
		if s == webrtc.PeerConnectionStateConnected {
			once.Do(func() { close(connected) })
		}
	})
	offer, err := pc.CreateOffer(nil)
	if err != nil {
		pc.Close()
		return nil, nil, "CreateOffer: " + err.Error()
	}
	gather := webrtc.GatheringCompletePromise(pc)
	if err := pc.SetLocalDescription(offer); err != nil {
		pc.Close()
		return nil, nil, "SetLocalDescription: " + err.Error()
	}
	select {
	case <-gather:
	case <-time.After(20 * time.Second):
	}
	p.mu.Lock()
	p.ups[id] = pc
	p.mu.Unlock()
	if err := p.c.Send(vclient.Msg{"type": "offer", "id": id, "label": "camera", "source": p.c.ID, "sdp": pc.LocalDescription().SDP}); err != nil {
		return nil, nil, "send offer: " + err.Error()
	}
	select {
	case <-connected:
		return pc, local, ""
	case <-time.After(30 * time.Second):
		return nil, nil, "the up connection did not reach 'connected' within the watchdog"
	}
}

// goodPayload is a well-formed one-packet frame for the codec: a key frame or a delta frame.
func goodPayload(cd rtpCodec, n int, key bool) []byte {
	var b []byte
	switch cd.fam {
	case 0:
		b = []byte{0x90, 0x80, byte(n) & 0x7F, 0x00, 0x00, 0x00, 0x9d, 0x01, 0x2a, 0x40, 0x01, 0xf0, 0x00}
		if !key {
			b = []byte{0x90, 0x80, byte(n) & 0x7F, 0x01, 0x00, 0x00, 0x11, 0x22}
		}
	case 1:
		b = []byte{0x8E | 0x02, byte(n) & 0x7F, 0x18, 0x01, 0x40, 0x00, 0xF0, 0x01, 0x04, 0x82, 0x49, 0x83, 0x42, 0x00}
		if !key {
			b = []byte{0xCC, byte(n) & 0x7F, 0x86, 0x00, 0x11}
		}
	case 2:
		b = []byte{0x28, 0x02, 0x0A, 0x0B, 0x32, 0x10, 0x00, 0x00}
		if !key {
			b = []byte{0x10, 0x32, 0x30, 0x00, 0x00}
		}
	case 3:
		b = []byte{0x78, 0x00, 0x04, 0x67, 0x42, 0xe0, 0x1f, 0x00, 0x02, 0x68, 0xce, 0x00, 0x05, 0x65, 0x88, 0x84, 0x00, 0x10}
		if !key {
			b = []byte{0x41, 0x9a, 0x24, 0x6c}
		}
	default:
		b = []byte{0xfc, 0x01, 0x02, 0x03}
	}
	for i := 0; i < 40; i++ {
		b = append(b, byte(i*13+n))
	}
	return b
}

func hostilePayload(cd rtpCodec, r *rand.Rand, scratch []byte) ([]byte, string) {
	switch x := r.IntN(100); {
	case x < 45:
		return descriptor(scratch[:0], cd.fam, r, true), "descriptor-inconsistent"
	case x < 60:
		b := descriptor(scratch[:0], cd.fam, r, false)
		return b[:r.IntN(len(b)+1)], "descriptor-truncated"
	case x < 70:
		b := scratch[:r.IntN(1200)]
		fillRandom(b, r)
		return b, "uniform"
	case x < 75:
		return scratch[:0], "empty"
	case x < 80:
		return scratch[:1+r.IntN(3)], "tiny"
	case x < 88:
		b := descriptor(scratch[:0], r.IntN(5), r, true)
		return b, "other-codec-descriptor"
	default:
		return goodPayload(cd, r.IntN(128), r.IntN(3) == 0), "well-formed"
	}
}

func hostileRTCP(ssrc uint32, r *rand.Rand) ([]rtcp.Packet, string) {
	u32 := func() uint32 {
		if r.IntN(3) == 0 {
			return ssrc
		}
		return uint32(r.Uint64())
	}
	switch r.IntN(12) {
	case 0:
		var ns []rtcp.NackPair
		for q := r.IntN(120) * r.IntN(2); q > 0; q-- {
			ns = append(ns, rtcp.NackPair{PacketID: uint16(r.UintN(65536)), LostPackets: rtcp.PacketBitmap(r.UintN(65536))})
		}
		return []rtcp.Packet{&rtcp.TransportLayerNack{SenderSSRC: u32(), MediaSSRC: u32(), Nacks: ns}}, "nack"
	case 1:
		return []rtcp.Packet{&rtcp.PictureLossIndication{SenderSSRC: u32(), MediaSSRC: u32()}}, "pli"
	case 2:
		var fs []rtcp.FIREntry
		for q := r.IntN(20) * r.IntN(3); q > 0; q-- {
			fs = append(fs, rtcp.FIREntry{SSRC: u32(), SequenceNumber: uint8(r.UintN(256))})
		}
		return []rtcp.Packet{&rtcp.FullIntraRequest{SenderSSRC: u32(), MediaSSRC: u32(), FIR: fs}}, "fir"
	case 3:
		var ss []uint32
		for q := r.IntN(40); q > 0; q-- {
			ss = append(ss, u32())
		}
		br := []float32{0, 1, 1e3, 5e5, 3e9, 1e18, 3.4e38}[r.IntN(7)]
		return []rtcp.Packet{&rtcp.ReceiverEstimatedMaximumBitrate{SenderSSRC: u32(), Bitrate: br, SSRCs: ss}}, "remb"
	case 4:
		var rs []rtcp.ReceptionReport
		for q := r.IntN(31) * r.IntN(3); q > 0; q-- {
			rs = append(rs, rtcp.ReceptionReport{SSRC: u32(), FractionLost: uint8(r.UintN(256)), TotalLost: uint32(r.UintN(1 << 24)), LastSequenceNumber: uint32(r.Uint64()), Jitter: uint32(r.Uint64()), LastSenderReport: uint32(r.Uint64()), Delay: uint32(r.Uint64())})
		}
		return []rtcp.Packet{&rtcp.ReceiverReport{SSRC: u32(), Reports: rs}}, "rr"
	case 5:
		return []rtcp.Packet{&rtcp.SenderReport{SSRC: u32(), NTPTime: r.Uint64(), RTPTime: uint32(r.Uint64()), PacketCount: uint32(r.Uint64()), OctetCount: uint32(r.Uint64())}}, "sr"
	case 6:
		return []rtcp.Packet{&rtcp.SourceDescription{Chunks: []rtcp.SourceDescriptionChunk{{Source: u32(), Items: []rtcp.SourceDescriptionItem{{Type: rtcp.SDESCNAME, Text: strings.Repeat("c", r.IntN(255))}, {Type: rtcp.SDESType(r.UintN(9)), Text: "x"}}}}}}, "sdes"
	case 7:
		if r.IntN(3) == 0 {
			return []rtcp.Packet{&rtcp.Goodbye{}, &rtcp.SourceDescription{}}, "bye-empty"
		}
		return []rtcp.Packet{&rtcp.Goodbye{Sources: []uint32{u32(), u32()}, Reason: "bye"}}, "bye"
	case 8:
		return []rtcp.Packet{&rtcp.TransportLayerCC{SenderSSRC: u32(), MediaSSRC: u32(), BaseSequenceNumber: uint16(r.UintN(65536)), PacketStatusCount: 0, ReferenceTime: uint32(r.UintN(1 << 24)), FbPktCount: uint8(r.UintN(256))}}, "twcc"
	case 9:
		return []rtcp.Packet{&rtcp.SliceLossIndication{SenderSSRC: u32(), MediaSSRC: u32(), SLI: []rtcp.SLIEntry{{First: uint16(r.UintN(8192)), Number: uint16(r.UintN(8192)), Picture: uint8(r.UintN(64))}}}}, "sli"
	case 10:
		// header says feedback / app / unknown type, the body is noise of a consistent length
		words := r.IntN(40)
		b := make([]byte, 4+4*words)
		fillRandom(b, r)
		b[0] = 0x80 | byte(r.UintN(32))
		b[1] = []byte{200, 201, 202, 203, 204, 205, 206, 207, 192, 195, 255}[r.IntN(11)]
		b[2], b[3] = byte(words>>8), byte(words)
		raw := rtcp.RawPacket(b)
		return []rtcp.Packet{&raw}, "raw-noise"
	default:
		words := r.IntN(10)
		b := make([]byte, 4+4*words)
		fillRandom(b, r)
		b[0] = 0x80 | byte(r.UintN(32))
		b[1] = byte(205 + r.IntN(2))
		l := r.IntN(65536) // length field that disagrees with the packet
		b[2], b[3] = byte(l>>8), byte(l)
		raw := rtcp.RawPacket(b)
		return []rtcp.Packet{&raw}, "raw-bad-length"
	}
}

func (w *world) rtpSession(i int, api *webrtc.API, packets int) {
	run := w.run
	r := run.Rand(40, w.batch, uint64(w.pass), uint64(i))
	cd := rtpCodecs[i%len(rtpCodecs)]
	g := fmt.Sprintf("rtp/b%dp%ds%d", w.batch, w.pass, i)
	fail := func(why string) {
		run.Count("rtp_sessions_not_established", 1)
		run.Note(fmt.Sprintf("rtp session %d (%s): not established: %s", i, cd.name, why))
	}
	mk := func(tag string, u userT) *wsc {
		c, err := dialHS(w.srv, fmt.Sprintf("b%d-rtp%d-%s", w.batch, i, tag))
		if err != nil {
			return nil
		}
		if m, ok := c.Join(g, u.name, u.pw); !ok || m.Str("kind") != "join" {
			c.Close()
			return nil
		}
		return c
	}
	pub, sub, watch := mk("pub", userOf("op")), mk("sub", wsUsers[4]), mk("watch", wsUsers[5])
	if pub == nil || sub == nil || watch == nil {
		fail("clients could not join")
		return
	}
	defer pub.Close()
	defer sub.Close()
	defer watch.Close()
	pp, sp, wp := newRTPPeer(pub, api), newRTPPeer(sub, api), newRTPPeer(watch, api)
	defer pp.shutdown()
	defer sp.shutdown()
	defer wp.shutdown()
	req := vclient.Msg{"type": "request", "request": map[string]any{"": []any{"audio", "video"}}}
	sub.Send(req)
	watch.Send(req)
	recording := i%2 == 0
	if recording {
		run.Note(fmt.Sprintf("rtp session %d: %s starts recording %s", i, pub.ID, g))
		pub.Send(vclient.Msg{"type": "groupaction", "kind": "record", "source": pub.ID})
	}
	run.Note(fmt.Sprintf("rtp session %d: %s publishes one %s track in %s", i, pub.ID, cd.name, g))
	if cd.unlisted {
		// this publisher's offer contains the codec with that profile only (a hardware encoder)
		me := &webrtc.MediaEngine{}
		if err := me.RegisterCodec(webrtc.RTPCodecParameters{RTPCodecCapability: cd.cap, PayloadType: 102}, webrtc.RTPCodecTypeVideo); err != nil {
			fail("RegisterCodec: " + err.Error())
			return
		}
		pp.api = webrtc.NewAPI(webrtc.WithMediaEngine(me))
	}
	upPC, track, why := pp.publish(fmt.Sprintf("b%d-rtp%d-up", w.batch, i), cd)
	if track == nil {
		fail(why)
		return
	}
	seq := uint16(r.UintN(65536))
	ts := uint32(r.Uint64())
	step := uint32(3000)
	if cd.fam == 4 {
		step = 960
	}
	send := func(payload []byte, class string, games bool) {
		h := rtp.Header{Version: 2, SequenceNumber: seq, Timestamp: ts, Marker: !games || r.IntN(3) == 0}
		seq++
		if !games || r.IntN(3) == 0 {
			ts += step
		}
		if games {
			switch r.IntN(30) {
			case 0:
				seq += uint16(r.UintN(65536)) // jump
			case 1:
				seq -= uint16(1 + r.IntN(40)) // duplicates / reordering
			case 2:
				ts = uint32(r.Uint64())
			case 3:
				ts -= step * uint32(1+r.IntN(100))
			case 4:
				h.CSRC = make([]uint32, 1+r.IntN(15))
			case 5:
				h.Extension, h.ExtensionProfile = true, 0xBEDE
				h.SetExtension(uint8(1+r.IntN(14)), []byte{byte(r.UintN(256))})
			case 6:
				h.Extension, h.ExtensionProfile = true, 0x1000
				h.SetExtension(uint8(1+r.IntN(200)), make([]byte, r.IntN(30)))
			case 7:
				h.Padding = true
			}
		}
		pk := &rtp.Packet{Header: h, Payload: payload}
		if h.Padding {
			pk.PaddingSize = byte(1 + r.IntN(20))
		}
		if err := track.WriteRTP(pk); err == nil {
			run.Count("rtp_packets_sent", 1)
			run.Count("rtp_packets_sent:"+cd.name, 1)
			run.Eval(1)
		}
		if games {
			run.Distinct(fmt.Sprintf("D|rtp|%s|%s|rec%v", cd.name, class, recording))
		}
	}
	// well-formed start so that the server creates the track and offers it to the subscribers
	deadline := time.Now().Add(30 * time.Second)
	for n := 0; sp.downPackets.Load() == 0 || wp.downPackets.Load() == 0; n++ {
		if cd.unlisted && n >= 200 {
			// the server has no payload type for this profile: whether the receivers get the
			// media is not the question, whether they stay connected is
			break
		}
		// every third session starts in the middle of a stream: delta frames before the first key frame
		send(goodPayload(cd, n, !(i%3 == 1 && n < 12)), "well-formed", false)
		time.Sleep(10 * time.Millisecond)
		if time.Now().After(deadline) {
			fail("no packet was forwarded to the subscribers within the watchdog")
			return
		}
	}
	run.Count("rtp_sessions_established", 1)
	run.Count("rtp_sessions_established:"+cd.name, 1)
	if cd.unlisted {
		run.Count("unlisted_profile_streams_published", 1)
		if sp.downCount() > 0 && wp.downCount() > 0 {
			run.Count("unlisted_profile_streams_offered_to_the_receivers", 1)
		}
	}
	scratch := make([]byte, 1300, 8192)
	for n := 0; n < packets; n++ {
		payload, class := hostilePayload(cd, r, scratch)
		if n%40 == 0 {
			run.Note(fmt.Sprintf("rtp session %d (%s, recording=%v): packet %d seq=%d class=%s payload=%x", i, cd.name, recording, n, seq, class, payload[:min(len(payload), 48)]))
		}
		send(payload, class, true)
		if n%25 == 24 {
			if pc := sp.downPC.Load(); pc != nil {
				ps, class := hostileRTCP(sp.downSSRC.Load(), r)
				run.Note(fmt.Sprintf("rtp session %d (%s): subscriber sends RTCP %s %v", i, cd.name, class, abbrevS(fmt.Sprint(ps))))
				if pc.WriteRTCP(ps) == nil {
					run.Count("rtcp_packets_sent", 1)
					run.Eval(1)
					run.Distinct("D|rtcp-from-subscriber|" + cd.name + "|" + class)
				}
			}
		}
		if n%60 == 59 {
			ps, class := hostileRTCP(0, r)
			run.Note(fmt.Sprintf("rtp session %d (%s): publisher sends RTCP %s %v", i, cd.name, class, abbrevS(fmt.Sprint(ps))))
			if upPC.WriteRTCP(ps) == nil {
				run.Count("rtcp_packets_sent", 1)
				run.Eval(1)
				run.Distinct("D|rtcp-from-publisher|" + cd.name + "|" + class)
			}
		}
		if n%200 == 199 {
			time.Sleep(5 * time.Millisecond) // let the receive buffers drain
		}
	}
	time.Sleep(300 * time.Millisecond)
	run.Count("rtp_packets_forwarded_to_subscribers", sp.downPackets.Load()+wp.downPackets.Load())
	// everybody is still served; the watcher did nothing but receive
	for _, c := range []*wsc{pub, sub} {
		if !c.Ping(60*time.Second) && !isClosed(c) {
			run.Inconclusive(fmt.Sprintf("rtp session %d: ping watchdog fired", i))
		}
	}
	if watch.Ping(60 * time.Second) {
		run.Count("bystander_checks_passed", 1)
	} else if isClosed(watch) && !w.stall.recent() {
		_, cerr := watch.Closed()
		run.Violation("bystander-closed:rtp:"+cd.name, fmt.Sprintf("a subscriber that only received media was disconnected (%v) while the publisher sent hostile %s payloads", cerr, cd.name),
			map[string]any{"tier": "rtp", "batch": w.batch, "pass": w.pass, "session": i})
	}
	if recording {
		pub.Send(vclient.Msg{"type": "groupaction", "kind": "unrecord", "source": pub.ID})
		pub.Ping(30 * time.Second)
		files, _ := filepath.Glob(filepath.Join(w.srv.RecDir, filepath.FromSlash(g), "*"))
		for _, f := range files {
			if fi, err := os.Stat(f); err == nil && fi.Size() > 0 {
				run.Count("recordings_written", 1)
			}
		}
	}
}

func (w *world) rtpTier(sessions, packets int) {
	api, err := group.APIFromNames([]string{"vp8", "vp9", "av1", "h264", "opus"})
	if err != nil {
		w.run.Inconclusive("cannot build the WebRTC API: " + err.Error())
		return
	}
	var wg sync.WaitGroup
	sem := make(chan struct{}, 2)
	for i := 0; i < sessions; i++ {
		wg.Add(1)
		sem <- struct{}{}
		go func(i int) {
			defer wg.Done()
			defer func() { <-sem }()
			w.rtpSession(i+int(w.batch)*sessions, api, packets)
		}(i)
	}
	wg.Wait()
}
