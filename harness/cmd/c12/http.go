package main

// Tier C: method x path shape x segment x credentials x header x body over the HTTP
// surface, partly through net/http's client (srv.Do) and partly hand-written over a raw
// socket so that malformed request lines and paths reach the server as they are.

import (
	"bufio"
	"encoding/base64"
	"errors"
	"fmt"
	"io"
	"math/rand/v2"
	"net"
	"net/http"
	"os"
	"path/filepath"
	"regexp"
	"strings"
	"sync"
	"time"

	"verif/harness/vclient"
	"verif/harness/vk"
	"verif/harness/vsrv"
)

type httpCase struct {
	N      int    `json:"n"`
	Method string `json:"method"`
	Shape  string `json:"shape"`
	Seg    string `json:"segment"`
	Cred   string `json:"credentials"`
	Hdr    string `json:"header"`
	Body   string `json:"body"`
	Raw    bool   `json:"raw"`
}

var httpMethods = []string{"GET", "HEAD", "POST", "PUT", "DELETE", "PATCH", "OPTIONS", "CONNECT", "BREW"}

type shapeT struct {
	name, pattern string
	ctype         string // the content type the endpoint wants
}

var httpShapes = []shapeT{
	{"api/stats", "/galene-api/v0/.stats", "application/json"},
	{"api/groups/", "/galene-api/v0/.groups/", "application/json"},
	{"api/group", "/galene-api/v0/.groups/{g}", "application/json"},
	{"api/users/", "/galene-api/v0/.groups/{g}/.users/", "application/json"},
	{"api/user", "/galene-api/v0/.groups/{g}/.users/{u}", "application/json"},
	{"api/user/password", "/galene-api/v0/.groups/{g}/.users/{u}/.password", "application/json"},
	{"api/user/other", "/galene-api/v0/.groups/{g}/.users/{u}/.frob", "application/json"},
	{"api/wildcard-user", "/galene-api/v0/.groups/{g}/.wildcard-user", "application/json"},
	{"api/wildcard-user/password", "/galene-api/v0/.groups/{g}/.wildcard-user/.password", "text/plain"},
	{"api/empty-user", "/galene-api/v0/.groups/{g}/.empty-user", "application/json"},
	{"api/empty-user/password", "/galene-api/v0/.groups/{g}/.empty-user/.password", "text/plain"},
	{"api/keys", "/galene-api/v0/.groups/{g}/.keys", "application/jwk-set+json"},
	{"api/tokens/", "/galene-api/v0/.groups/{g}/.tokens/", "application/json"},
	{"api/token", "/galene-api/v0/.groups/{g}/.tokens/{t}", "application/json"},
	{"api/group/unknown-dot", "/galene-api/v0/.groups/{g}/.frob", "application/json"},
	{"api/unknown-dot", "/galene-api/v0/.frob/{g}", "application/json"},
	{"api/v1", "/galene-api/v1/{g}", "application/json"},
	{"api/root", "/galene-api/{g}", "application/json"},
	{"group/page", "/group/{g}/", ""},
	{"group/noslash", "/group/{g}", ""},
	{"group/status", "/group/{g}/.status", ""},
	{"group/status.json", "/group/{g}/.status.json", ""},
	{"group/whip", "/group/{g}/.whip", "application/sdp"},
	{"group/whip/id", "/group/{g}/.whip/{id}", "application/trickle-ice-sdpfrag"},
	{"group/unknown-dot", "/group/{g}/.frob/x", ""},
	{"recordings/", "/recordings/{g}/", "application/x-www-form-urlencoded"},
	{"recordings/file", "/recordings/{g}/{f}", "application/x-www-form-urlencoded"},
	{"recordings/root", "/recordings{g}", ""},
	{"public-groups", "/public-groups.json", ""},
	{"ws", "/ws", ""},
	{"static", "/{g}", ""},
}

var segClasses = []string{"existing", "nonexistent", "empty", "dot", "dotdot", "pct-dotdot", "double-slash", "backslash", "long", "unicode", "nul"}
var credClasses = []string{"none", "admin", "wrong", "group-user", "bearer"}
var hdrClasses = []string{"none", "if-match-star", "if-none-match-star", "if-match-bogus", "if-none-match-bogus", "if-match-malformed", "if-match-current", "if-none-match-current", "origin-foreign", "range", "weird-headers"}
var bodyClasses = []string{"empty", "valid", "wrong-json-type", "truncated-json", "huge", "wrong-content-type", "garbage", "sdp-mutated", "no-content-type"}

// allHTTPCases: a deterministic focus part (every shape x method x {existing, nonexistent}
// x admin x valid body x three precondition headers) plus `extra` pseudo-random
// combinations per (shape, method, credentials).
func allHTTPCases(run *vk.Run, extra int) []httpCase {
	var cs []httpCase
	add := func(c httpCase) {
		c.N = len(cs)
		c.Raw = c.Method == "CONNECT" || c.N%3 == 2 || c.Seg == "nul" || c.Seg == "backslash"
		cs = append(cs, c)
	}
	for _, sh := range httpShapes {
		for _, m := range httpMethods {
			for _, seg := range []string{"existing", "nonexistent"} {
				for _, h := range []string{"none", "if-match-star", "if-none-match-star", "if-match-current"} {
					add(httpCase{Method: m, Shape: sh.name, Seg: seg, Cred: "admin", Hdr: h, Body: "valid"})
				}
			}
		}
	}
	// every malformed entity-tag list in both precondition headers, on every shape, with
	// sufficient credentials on an existing resource (where preconditions are evaluated)
	for _, sh := range httpShapes {
		for _, m := range []string{"GET", "HEAD", "PUT", "DELETE", "PATCH"} {
			for k := range malformedTags {
				for _, hn := range []string{"im", "inm"} {
					add(httpCase{Method: m, Shape: sh.name, Seg: "existing", Cred: "admin", Hdr: fmt.Sprintf("tag-malformed/%s/%d", hn, k), Body: "valid"})
				}
			}
		}
	}
	r := run.Rand(20)
	for _, sh := range httpShapes {
		for _, m := range httpMethods {
			for _, cr := range credClasses {
				for k := 0; k < extra; k++ {
					seg := segClasses[r.IntN(len(segClasses))]
					if r.IntN(3) == 0 {
						seg = "existing"
					}
					add(httpCase{Method: m, Shape: sh.name, Seg: seg, Cred: cr, Hdr: hdrClasses[r.IntN(len(hdrClasses))], Body: bodyClasses[r.IntN(len(bodyClasses))]})
				}
			}
		}
	}
	return cs
}

// ---- world -----------------------------------------------------------------

type httpWorld struct {
	run   *vk.Run
	srv   *vsrv.Server
	batch uint64
	pass  int
	offer string
	mu    sync.Mutex
	noRsp []string
	whipN int
	liveW []string // locations of live WHIP sessions
	liveT []string // names of tokens created through the API
}

func hxGroup() map[string]any {
	us := map[string]any{}
	for _, u := range wsUsers {
		us[u.name] = map[string]any{"password": u.pw, "permissions": u.role}
	}
	us["recorder"] = map[string]any{"password": "pw-rec", "permissions": []string{"record", "message"}}
	return map[string]any{"users": us, "allow-recording": true, "auto-subgroups": true, "public": true,
		"wildcard-user": map[string]any{"password": map[string]any{"type": "wildcard"}, "permissions": "message"},
		"authKeys":      []any{map[string]any{"kty": "oct", "alg": "HS256", "k": jwtKeyB64}}}
}

func (h *httpWorld) restore() {
	h.srv.WriteGroup("hx", hxGroup())
	dir := filepath.Join(h.srv.RecDir, "hx")
	os.MkdirAll(filepath.Join(dir, "subdir"), 0o755)
	for _, f := range []string{"rec1.webm", "rec2.webm", "subdir/inner.webm"} {
		os.WriteFile(filepath.Join(dir, f), []byte("RECORDING-"+f), 0o644)
	}
	// a token that really exists in hx (the matrix deletes them)
	_, hd, _, err := h.srv.Do("POST", "/galene-api/v0/.groups/hx/.tokens/", map[string]string{"Authorization": h.srv.AdminAuth()["Authorization"], "Content-Type": "application/json"},
		[]byte(`{"permissions":["message"],"expires":"2100-01-01T00:00:00Z"}`))
	if err == nil && hd != nil && hd.Get("Location") != "" {
		h.mu.Lock()
		h.liveT = append(h.liveT, hd.Get("Location"))
		if len(h.liveT) > 3 {
			h.liveT = h.liveT[1:]
		}
		h.mu.Unlock()
	}
}

func writeHTTPGroups(s *vsrv.Server) {
	s.WriteGroup("hx", hxGroup())
	s.WriteGroup("whipg", map[string]any{"auto-subgroups": true, "users": map[string]any{
		"whip": map[string]any{"password": map[string]any{"type": "wildcard"}, "permissions": "present"},
		"op1":  map[string]any{"password": "pw-op1", "permissions": "op"}}})
}

func segValue(class string, kind byte, raw bool, h *httpWorld, r *rand.Rand) string {
	switch class {
	case "existing":
		switch kind {
		case 'g':
			return "hx"
		case 'u':
			return []string{"op1", "msg1", "recorder"}[r.IntN(3)]
		case 't':
			h.mu.Lock()
			defer h.mu.Unlock()
			if len(h.liveT) > 0 && r.IntN(4) != 0 {
				return h.liveT[r.IntN(len(h.liveT))]
			}
			return []string{"tok-h1", "tok-h2"}[r.IntN(2)]
		case 'f':
			return []string{"rec1.webm", "rec2.webm", "subdir", "subdir/inner.webm"}[r.IntN(4)]
		case 'i':
			h.mu.Lock()
			defer h.mu.Unlock()
			if len(h.liveW) > 0 {
				l := h.liveW[r.IntN(len(h.liveW))]
				return l[strings.LastIndex(l, "/")+1:]
			}
			return base64.RawURLEncoding.EncodeToString([]byte("0123456789abcdef"))
		}
	case "nonexistent":
		if kind == 'i' {
			return []string{"x", "AAAA", base64.RawURLEncoding.EncodeToString([]byte("fedcba9876543210")), "!!!!", base64.RawURLEncoding.EncodeToString(make([]byte, 17))}[r.IntN(5)]
		}
		return fmt.Sprintf("nope%d", r.IntN(50))
	case "empty":
		return ""
	case "dot":
		return "."
	case "dotdot":
		return []string{"..", "../..", "hx/../..", "../../../../etc/passwd"}[r.IntN(4)]
	case "pct-dotdot":
		return []string{"%2e%2e", "%2e%2e%2f%2e%2e", "hx%2f..%2f..", "%2E%2E/%2e"}[r.IntN(4)]
	case "double-slash":
		return []string{"a//b", "//", "hx//", "/hx"}[r.IntN(4)]
	case "backslash":
		if raw {
			return []string{"a\\b", "hx\\..\\..", "\\"}[r.IntN(3)]
		}
		return []string{"a%5Cb", "hx%5C..%5C..", "%5C"}[r.IntN(3)]
	case "long":
		return strings.Repeat("L", []int{300, 5000, 70000}[r.IntN(3)])
	case "unicode":
		if raw {
			return []string{"gr\xc3\xb6up\xc3\xa9", "\xe6\x97\xa5\xe6\x9c\xac", "\xff\xfe", "a b", "a\tb", "a?b=c#d", "a;b"}[r.IntN(7)]
		}
		return []string{"gr%C3%B6up%C3%A9", "%E6%97%A5%E6%9C%AC", "%FF%FE", "a%20b", "a%09b", "a%3Fb", "a;b"}[r.IntN(7)]
	case "nul":
		if raw {
			return []string{"a\x00b", "\x00", "hx\x00.json"}[r.IntN(3)]
		}
		return []string{"a%00b", "%00", "hx%00.json"}[r.IntN(3)]
	}
	return "x"
}

var reqLineOK = regexp.MustCompile(`^HTTP/1\.[01] [1-5][0-9][0-9]( |$)`)

func (h *httpWorld) creds(class string, r *rand.Rand) map[string]string {
	switch class {
	case "admin":
		return h.srv.AdminAuth()
	case "wrong":
		return []map[string]string{vsrv.Basic("root", "wrong"), vsrv.Basic("nobody", "x"), vsrv.Basic("", ""), {"Authorization": "Basic !!!notbase64"}, {"Authorization": "Basic " + base64.StdEncoding.EncodeToString([]byte("nocolon"))}}[r.IntN(5)]
	case "group-user":
		return []map[string]string{vsrv.Basic("op1", "pw-op1"), vsrv.Basic("recorder", "pw-rec"), vsrv.Basic("msg1", "pw-msg1"), vsrv.Basic("op1", "wrong")}[r.IntN(4)]
	case "bearer":
		return []map[string]string{{"Authorization": "Bearer tok-h1"}, {"Authorization": "Bearer tok-whip"}, {"Authorization": "Bearer " + makeJWT("token:jwt-valid", "hx")}, {"Authorization": "Bearer"}, {"Authorization": "bearer a b c, Bearer , ,"},
			{"Authorization": "Bearer " + makeJWT("token:jwt-aud-number", "hx")}, {"Authorization": "Bearer " + strings.Repeat("z", 9000)}}[r.IntN(7)]
	}
	return map[string]string{}
}

func (h *httpWorld) validBody(sh shapeT, method string, r *rand.Rand) []byte {
	switch sh.name {
	case "api/group":
		return []byte(`{"displayName":"renamed","description":"changed by the harness","max-clients":5,"allow-recording":true,"auto-subgroups":true,"codecs":["vp8","opus"]}`)
	case "api/user", "api/wildcard-user", "api/empty-user":
		return []byte([]string{`{"permissions":"present"}`, `{"permissions":["message","caption"]}`, `{}`}[r.IntN(3)])
	case "api/user/password", "api/wildcard-user/password", "api/empty-user/password":
		if method == "POST" {
			return []byte("new-secret")
		}
		return []byte([]string{`"plain-secret"`, `{"type":"pbkdf2","hash":"sha-256","key":"00ff","salt":"abcd","iterations":10}`, `{"type":"wildcard"}`, `{"type":"bcrypt","key":"$2a$04$notreally"}`, `null`}[r.IntN(5)])
	case "api/keys":
		return []byte(`{"keys":[{"kty":"oct","alg":"HS256","k":"` + jwtKeyB64 + `"},{"kty":"EC","alg":"ES256","crv":"P-256","x":"AAAA","y":"AAAA"}]}`)
	case "api/tokens/", "api/token":
		return []byte([]string{`{"permissions":["message"],"expires":"2100-01-01T00:00:00Z"}`, `{"username":"u","permissions":["present"],"expires":"2100-01-01T00:00:00Z","not-before":"2000-01-01T00:00:00Z"}`, `{"permissions":[]}`}[r.IntN(3)])
	case "group/whip":
		return []byte(h.offer)
	case "group/whip/id":
		return []byte(sampleFrags[r.IntN(len(sampleFrags))])
	case "recordings/", "recordings/file":
		return []byte([]string{"q=delete&filename=rec2.webm", "q=delete&filename=nope.webm", "q=delete", "q=delete&filename=..%2F..%2Fx", "q=frob", "q=delete&filename=subdir"}[r.IntN(6)])
	}
	return []byte(`{"a":1}`)
}

func (h *httpWorld) body(c httpCase, sh shapeT, r *rand.Rand) ([]byte, string) {
	ct := sh.ctype
	if ct == "application/json" && strings.HasSuffix(sh.name, "/password") && c.Method == "POST" {
		ct = "text/plain"
	}
	if ct == "text/plain" && c.Method == "PUT" {
		ct = "application/json"
	}
	if ct == "" {
		ct = "application/json"
	}
	switch c.Body {
	case "empty":
		return nil, ct
	case "valid":
		return h.validBody(sh, c.Method, r), ct
	case "wrong-json-type":
		return []byte([]string{`[]`, `17`, `"str"`, `null`, `{"permissions":7}`, `{"permissions":{"a":1}}`, `{"expires":12}`, `{"keys":"none"}`, `{"keys":[7]}`, `{"users":{}}`, `{"max-clients":"many"}`, `true`, `{"unknown-field":1}`}[r.IntN(13)]), ct
	case "truncated-json":
		v := h.validBody(sh, c.Method, r)
		if len(v) > 1 {
			v = v[:1+r.IntN(len(v)-1)]
		}
		return v, ct
	case "huge":
		return []byte(`{"description":"` + strings.Repeat("h", 1024*1024+200+r.IntN(100000)) + `"}`), ct
	case "wrong-content-type":
		return h.validBody(sh, c.Method, r), []string{"text/html", "application/json; charset", "application/x-www-form-urlencoded", ";;;", "application/sdp; x=y", "APPLICATION/JSON", "multipart/form-data; boundary=x"}[r.IntN(7)]
	case "garbage":
		b := make([]byte, r.IntN(2000))
		for i := range b {
			b[i] = byte(r.UintN(256))
		}
		return b, ct
	case "sdp-mutated":
		if sh.name == "group/whip/id" {
			t, _ := mutateText(sampleFrags[r.IntN(len(sampleFrags))], r)
			return []byte(t), ct
		}
		return []byte(mutateSDP(h.offer, sdpMutations[1+r.IntN(len(sdpMutations)-1)], r)), ct
	case "no-content-type":
		return h.validBody(sh, c.Method, r), ""
	}
	return nil, ct
}

// currentETag fetches the entity tag of the resource (best effort, admin credentials).
func (h *httpWorld) currentETag(path string) string {
	_, hd, _, err := h.srv.Do("GET", path, h.srv.AdminAuth(), nil)
	if err != nil || hd == nil {
		return `"0-0"`
	}
	if e := hd.Get("ETag"); e != "" {
		return e
	}
	return `"0-0"`
}

var malformedTags = []string{`W/`, `"unterminated`, `,,,`, `W/"`, `"a" "b",`, ` `, "\"\x7f\"", `*, "x"`, `"abc", W/`, `W`, `W/ `, `""`, `W/""`, `"a",`, `W/W/"a"`, `"a", "unterminated`}

func (h *httpWorld) headers(c httpCase, path string, r *rand.Rand) map[string]string {
	m := map[string]string{}
	if strings.HasPrefix(c.Hdr, "tag-malformed/") {
		var hn string
		var k int
		if f := strings.Split(c.Hdr, "/"); len(f) == 3 {
			hn = f[1]
			fmt.Sscanf(f[2], "%d", &k)
		}
		name := "If-Match"
		if hn == "inm" {
			name = "If-None-Match"
		}
		m[name] = malformedTags[k%len(malformedTags)]
		return m
	}
	switch c.Hdr {
	case "if-match-star":
		m["If-Match"] = "*"
	case "if-none-match-star":
		m["If-None-Match"] = "*"
	case "if-match-bogus":
		m["If-Match"] = `"bogus-1"`
	case "if-none-match-bogus":
		m["If-None-Match"] = `W/"bogus", "other"`
	case "if-match-malformed":
		k := []string{"If-Match", "If-None-Match"}[r.IntN(2)]
		m[k] = malformedTags[r.IntN(len(malformedTags))]
	case "if-match-current":
		if !c.Raw {
			m["If-Match"] = h.currentETag(path)
		} else {
			m["If-Match"] = `"0-0"`
		}
	case "if-none-match-current":
		if !c.Raw {
			m["If-None-Match"] = h.currentETag(path)
		} else {
			m["If-None-Match"] = `"0-0"`
		}
	case "origin-foreign":
		m["Origin"] = []string{"https://evil.example", "null", "http://galene.test", "::::", "http://[::1"}[r.IntN(5)]
	case "range":
		m["Range"] = []string{"bytes=0-0", "bytes=999999-", "bytes=-1", "bytes=5-2", "lines=1-2", "bytes=0-0,2-3,5-"}[r.IntN(6)]
		m["If-Range"] = `"x"`
	case "weird-headers":
		m["Accept-Encoding"] = "gzip, br, zz;q=x"
		m["X-Forwarded-For"] = "1.2.3.4, unknown"
		m["Upgrade"] = "websocket"
		m["Connection"] = "Upgrade"
		m["Sec-WebSocket-Version"] = []string{"13", "12", "x"}[r.IntN(3)]
		m["Sec-WebSocket-Key"] = []string{"dGhlIHNhbXBsZSBub25jZQ==", "short", ""}[r.IntN(3)]
	}
	return m
}

func (h *httpWorld) pathFor(c httpCase, sh shapeT, r *rand.Rand) string {
	p := sh.pattern
	g := segValue(c.Seg, 'g', c.Raw, h, r)
	switch sh.name {
	case "group/whip":
		if c.Seg == "existing" {
			h.mu.Lock()
			h.whipN++
			g = fmt.Sprintf("whipg/b%dp%dm%d", h.batch, h.pass, h.whipN)
			h.mu.Unlock()
		}
	case "group/whip/id":
		if c.Seg == "existing" {
			h.mu.Lock()
			if len(h.liveW) > 0 {
				l := h.liveW[r.IntN(len(h.liveW))]
				h.mu.Unlock()
				return l
			}
			h.mu.Unlock()
			g = "whipg/none"
		}
	case "static":
		switch c.Seg {
		case "existing":
			g = []string{"", "index.html", "galene.html", "404.html", "third-party", "third-party/", "example/"}[r.IntN(7)]
		case "dotdot", "pct-dotdot":
			if r.IntN(2) == 0 {
				g = "third-party/" + g
			}
		}
	case "recordings/root":
		if c.Seg == "existing" {
			g = []string{"", "/"}[r.IntN(2)]
		} else {
			g = "/" + g
		}
	case "api/root":
		if c.Seg == "existing" {
			g = []string{"", "v0", "v0/", "v0/.groups", "v0/.stats/"}[r.IntN(5)]
		}
	}
	// the group segment is fixed for the sub-resource shapes unless the case says otherwise
	sub := func(kind byte) string {
		// sub-resource segments follow the case's class; the group stays existing half of the time
		return segValue(c.Seg, kind, c.Raw, h, r)
	}
	if strings.Contains(p, "{u}") || strings.Contains(p, "{t}") || strings.Contains(p, "{f}") || strings.Contains(p, "{id}") {
		if c.Seg != "existing" && r.IntN(2) == 0 {
			g = "hx"
			if sh.name == "group/whip/id" {
				g = "whipg/none"
			}
		}
	}
	p = strings.Replace(p, "{g}", g, 1)
	p = strings.Replace(p, "{u}", sub('u'), 1)
	p = strings.Replace(p, "{t}", sub('t'), 1)
	p = strings.Replace(p, "{f}", sub('f'), 1)
	p = strings.Replace(p, "{id}", sub('i'), 1)
	return p
}

func abbrevS(s string) string {
	if len(s) <= 300 {
		return s
	}
	return s[:200] + fmt.Sprintf("...(%d bytes)...", len(s)) + s[len(s)-40:]
}

// rawRequest writes a hand-made request and returns the first response line.
func (h *httpWorld) rawRequest(method, target string, hdr map[string]string, body []byte, extra string) (string, error) {
	conn, err := h.srv.RawConn()
	if err != nil {
		return "", fmt.Errorf("harness-dial: %w", err)
	}
	defer conn.Close()
	conn.SetDeadline(time.Now().Add(60 * time.Second))
	var sb strings.Builder
	sb.WriteString(method + " " + target + " HTTP/1.1\r\nHost: galene.test\r\nConnection: close\r\n")
	for k, v := range hdr {
		sb.WriteString(k + ": " + v + "\r\n")
	}
	if body != nil || method == "POST" || method == "PUT" || method == "PATCH" {
		fmt.Fprintf(&sb, "Content-Length: %d\r\n", len(body))
	}
	sb.WriteString(extra)
	sb.WriteString("\r\n")
	go func() {
		// the server may answer and close before it has read a huge body: write errors are expected
		if _, err := io.WriteString(conn, sb.String()); err == nil && len(body) > 0 {
			conn.Write(body)
		}
	}()
	br := bufio.NewReaderSize(conn, 4096)
	line, err := br.ReadString('\n')
	if err != nil && line == "" {
		return "", err
	}
	if !strings.Contains(line, " 101 ") {
		io.Copy(io.Discard, io.LimitReader(br, 4<<20))
	}
	return strings.TrimRight(line, "\r\n"), nil
}

func (h *httpWorld) report(c httpCase, sh shapeT, what, target string, err error) {
	var ne net.Error
	if errors.As(err, &ne) && ne.Timeout() {
		h.run.Inconclusive(fmt.Sprintf("batch %d http case %d (%s %s): watchdog fired waiting for the response", h.batch, c.N, c.Method, abbrevS(target)))
		return
	}
	if err != nil && strings.HasPrefix(err.Error(), "harness-dial") {
		h.run.Inconclusive(fmt.Sprintf("batch %d http case %d: %v", h.batch, c.N, err))
		return
	}
	h.mu.Lock()
	h.noRsp = append(h.noRsp, fmt.Sprintf("case %d %s %s [%s/%s/%s/%s]", c.N, c.Method, abbrevS(target), c.Cred, c.Hdr, c.Body, c.Seg))
	h.mu.Unlock()
	h.run.Violation("http-no-response:"+c.Method+":"+sh.name, fmt.Sprintf("%s %s (%s credentials, header %s, body %s) got no HTTP response: %s", c.Method, abbrevS(target), c.Cred, c.Hdr, c.Body, what),
		map[string]any{"tier": "http", "batch": h.batch, "pass": h.pass, "case": c, "target": abbrevS(target), "error": what})
}

func (h *httpWorld) runCase(c httpCase) {
	r := h.run.Rand(21, h.batch, uint64(h.pass), uint64(c.N))
	var sh shapeT
	for _, s := range httpShapes {
		if s.name == c.Shape {
			sh = s
		}
	}
	target := h.pathFor(c, sh, r)
	if r.IntN(6) == 0 {
		target += []string{"?", "?q=delete", "?x=%zz", "#frag", "?" + strings.Repeat("a=b&", 500)}[r.IntN(5)]
	}
	hdr := h.creds(c.Cred, r)
	for k, v := range h.headers(c, target, r) {
		hdr[k] = v
	}
	body, ct := h.body(c, sh, r)
	if ct != "" && (body != nil || c.Method == "POST" || c.Method == "PUT" || c.Method == "PATCH") {
		hdr["Content-Type"] = ct
	}
	h.run.Note(fmt.Sprintf("http case %d raw=%v %s %s cred=%s hdr=%s body=%s(%d bytes)", c.N, c.Raw, c.Method, abbrevS(target), c.Cred, c.Hdr, c.Body, len(body)))
	status := 0
	raw := c.Raw || len(body) > 1<<20 || c.Hdr == "weird-headers"
	if !raw {
		if _, err := http.NewRequest(c.Method, h.srv.URL(target), nil); err != nil {
			raw = true // net/http refuses to build it: say it by hand
		}
	}
	if !raw {
		st, rh, _, err := h.srv.Do(c.Method, target, hdr, body)
		if err != nil {
			// net/http's client also fails on things that are no missing response (a Location
			// header it cannot parse, a header value it refuses to send): the hand-written
			// request decides
			raw = true
			h.run.Count("http_client_errors_rechecked_by_hand", 1)
		} else {
			status = st
			if c.Shape == "group/whip" && st == http.StatusCreated {
				if loc := rh.Get("Location"); loc != "" {
					h.mu.Lock()
					h.liveW = append(h.liveW, loc)
					if len(h.liveW) > 6 {
						h.liveW = h.liveW[1:]
					}
					h.mu.Unlock()
					h.run.Count("whip_sessions_created", 1)
				}
			}
		}
	}
	if raw {
		extra := ""
		if c.Hdr == "weird-headers" && r.IntN(3) == 0 {
			extra = []string{"Expect: 100-continue\r\n", "X-Empty:\r\n", "Transfer-Encoding: identity\r\n", "X-Long: " + strings.Repeat("v", 20000) + "\r\n"}[r.IntN(4)]
		}
		if strings.ContainsAny(target, " \t") && r.IntN(2) == 0 {
			target = strings.NewReplacer(" ", "%20", "\t", "%09").Replace(target)
		}
		line, err := h.rawRequest(c.Method, target, hdr, body, extra)
		if err != nil {
			h.run.Eval(1)
			h.run.Count("http_requests", 1)
			h.report(c, sh, err.Error(), target, err)
			return
		}
		if !reqLineOK.MatchString(line) {
			h.run.Eval(1)
			h.run.Count("http_requests", 1)
			h.report(c, sh, fmt.Sprintf("first line of the reply is %q", abbrevS(line)), target, nil)
			return
		}
		fmt.Sscanf(line[9:], "%d", &status)
		h.run.Count("http_raw_requests", 1)
	}
	h.run.Eval(1)
	h.run.Count("http_requests", 1)
	h.run.Count("http_requests:"+c.Shape, 1)
	h.run.Count(fmt.Sprintf("http_status_%dxx", status/100), 1)
	if status/100 == 2 && (c.Method == "PUT" || c.Method == "DELETE" || c.Method == "POST" || c.Method == "PATCH") {
		h.run.Count("http_writes_accepted", 1)
	}
	h.run.Distinct(fmt.Sprintf("C|%s|%s|%s|%s|%s|%s|%d", c.Shape, c.Method, c.Seg, c.Cred, c.Hdr, c.Body, status))
	if c.N%1499 == 0 {
		h.run.Sample(map[string]any{"tier": "http", "case": c, "target": abbrevS(target), "status": status})
	}
}

// malformed: hand-written requests that are not even well-formed HTTP; each must still get a status line.
func (h *httpWorld) malformed(i int) {
	r := h.run.Rand(22, h.batch, uint64(h.pass), uint64(i))
	reqs := []struct{ name, req string }{
		{"duplicate-host", "GET /galene-api/v0/.stats HTTP/1.1\r\nHost: x\r\nHost: y\r\n\r\n"},
		{"http-9.9", "GET /group/hx/ HTTP/9.9\r\nHost: x\r\n\r\n"},
		{"double-spaces", "GET  /group/hx/  HTTP/1.1\r\nHost: x\r\n\r\n"},
		{"http-0.9", "GET /group/hx/\r\n\r\n"},
		{"lowercase-method", "get /group/hx/ http/1.1\r\nHost: x\r\n\r\n"},
		{"nul-in-path", "GET /group/h\x00x/ HTTP/1.1\r\nHost: x\r\n\r\n"},
		{"absolute-uri", "GET http://other.example/galene-api/v0/.groups/ HTTP/1.1\r\nHost: x\r\n\r\n"},
		{"asterisk-get", "GET * HTTP/1.1\r\nHost: x\r\n\r\n"},
		{"asterisk-options", "OPTIONS * HTTP/1.1\r\nHost: x\r\n\r\n"},
		{"connect-authority", "CONNECT galene.test:443 HTTP/1.1\r\nHost: galene.test:443\r\n\r\n"},
		{"connect-dotdot-api", "CONNECT /galene-api/v0/.groups/hx/../../../.stats HTTP/1.1\r\nHost: x\r\nAuthorization: " + h.srv.AdminAuth()["Authorization"] + "\r\n\r\n"},
		{"connect-dotdot-group", "CONNECT /group/../recordings/hx/ HTTP/1.1\r\nHost: x\r\n\r\n"},
		{"connect-dotdot-recordings", "CONNECT /recordings/../../../etc/passwd HTTP/1.1\r\nHost: x\r\n\r\n"},
		{"connect-empty-group", "CONNECT /galene-api/v0/.groups//.users/ HTTP/1.1\r\nHost: x\r\nAuthorization: " + h.srv.AdminAuth()["Authorization"] + "\r\n\r\n"},
		{"connect-tokens-noslash", "CONNECT /galene-api/v0/.groups/hx/.tokens HTTP/1.1\r\nHost: x\r\nAuthorization: " + h.srv.AdminAuth()["Authorization"] + "\r\n\r\n"},
		{"basic-without-value", "GET /galene-api/v0/.groups/hx HTTP/1.1\r\nHost: x\r\nAuthorization: Basic\r\n\r\n"},
		{"chunked-bad-size", "PUT /galene-api/v0/.groups/hx HTTP/1.1\r\nHost: x\r\nTransfer-Encoding: chunked\r\nContent-Type: application/json\r\nAuthorization: " + h.srv.AdminAuth()["Authorization"] + "\r\n\r\nZZZ\r\n{}\r\n0\r\n\r\n"},
		{"chunked-good", "PUT /galene-api/v0/.groups/hx HTTP/1.1\r\nHost: x\r\nTransfer-Encoding: chunked\r\nContent-Type: application/json\r\nAuthorization: " + h.srv.AdminAuth()["Authorization"] + "\r\n\r\n2\r\n{}\r\n0\r\n\r\n"},
		{"whip-empty-offer", "POST /group/hx/.whip HTTP/1.1\r\nHost: x\r\nContent-Type: application/sdp\r\nContent-Length: 0\r\n\r\n"},
		{"negative-content-length", "POST /group/hx/.whip HTTP/1.1\r\nHost: x\r\nContent-Type: application/sdp\r\nContent-Length: -5\r\n\r\n"},
		{"huge-content-length", "POST /group/hx/.whip HTTP/1.1\r\nHost: x\r\nContent-Type: application/sdp\r\nContent-Length: 99999999999999999999\r\n\r\n"},
		{"ws-upgrade", "GET /ws HTTP/1.1\r\nHost: galene.test\r\nUpgrade: websocket\r\nConnection: Upgrade\r\nSec-WebSocket-Version: 13\r\nSec-WebSocket-Key: dGhlIHNhbXBsZSBub25jZQ==\r\n\r\n"},
		{"ws-upgrade-foreign-origin", "GET /ws HTTP/1.1\r\nHost: galene.test\r\nUpgrade: websocket\r\nConnection: Upgrade\r\nSec-WebSocket-Version: 13\r\nSec-WebSocket-Key: dGhlIHNhbXBsZSBub25jZQ==\r\nOrigin: https://evil.example\r\n\r\n"},
		{"ws-upgrade-http-1.0", "GET /ws HTTP/1.0\r\nUpgrade: websocket\r\nConnection: Upgrade\r\n\r\n"},
		{"ws-upgrade-with-body", "GET /ws HTTP/1.1\r\nHost: galene.test\r\nUpgrade: websocket\r\nConnection: Upgrade\r\nSec-WebSocket-Version: 13\r\nSec-WebSocket-Key: dGhlIHNhbXBsZSBub25jZQ==\r\nContent-Length: 5\r\n\r\nhello"},
		{"ws-upgrade-with-chunked-body", "GET /ws HTTP/1.1\r\nHost: galene.test\r\nUpgrade: websocket\r\nConnection: Upgrade\r\nSec-WebSocket-Version: 13\r\nSec-WebSocket-Key: dGhlIHNhbXBsZSBub25jZQ==\r\nTransfer-Encoding: chunked\r\n\r\n5\r\nhello\r\n0\r\n\r\n"},
		{"ws-upgrade-post-with-body", "POST /ws HTTP/1.1\r\nHost: galene.test\r\nUpgrade: websocket\r\nConnection: Upgrade\r\nSec-WebSocket-Version: 13\r\nSec-WebSocket-Key: dGhlIHNhbXBsZSBub25jZQ==\r\nContent-Length: 5\r\n\r\nhello"},
		{"very-deep-path", "GET /" + strings.Repeat("a/", 4000) + " HTTP/1.1\r\nHost: x\r\n\r\n"},
		{"40000-headers", "GET / HTTP/1.1\r\nHost: x\r\n" + strings.Repeat("X-H: v\r\n", 40000) + "\r\n"},
		{"conditional-range-static", "GET /index.html HTTP/1.1\r\nHost: x\r\nIf-Modified-Since: yesterday\r\nIf-None-Match: \"\x01\"\r\nRange: bytes=0-,0-,0-,0-,0-,0-,0-,0-,0-,0-,0-,0-\r\n\r\n"},
		{"tls-client-hello", "\x16\x03\x01\x02\x00\x01\x00\x01\xfc\x03\x03" + strings.Repeat("\x00", 40) + "\r\n\r\n"},
		{"leading-crlf", "\r\n\r\nGET / HTTP/1.1\r\nHost: x\r\n\r\n"},
		{"bad-percent-escape", "GET /%zz HTTP/1.1\r\nHost: x\r\n\r\n"},
		{"pct-dotdot-group", "GET /group/%2e%2e/%2e%2e/ HTTP/1.1\r\nHost: x\r\n\r\n"},
		{"head-recording-bad-range", "HEAD /recordings/hx/rec1.webm HTTP/1.1\r\nHost: x\r\nAuthorization: " + vsrv.Basic("recorder", "pw-rec")["Authorization"] + "\r\nRange: bytes=3-1\r\n\r\n"},
		{"whip-delete-empty-id", "DELETE /group/whipg/x/.whip/ HTTP/1.1\r\nHost: x\r\n\r\n"},
		{"whip-patch-slash-id", "PATCH /group/whipg/x/.whip// HTTP/1.1\r\nHost: x\r\nContent-Length: 0\r\n\r\n"},
	}
	name, req := reqs[i%len(reqs)].name, reqs[i%len(reqs)].req
	_ = r
	h.run.Note(fmt.Sprintf("http malformed %s: %s", name, abbrevS(fmt.Sprintf("%q", req))))
	conn, err := h.srv.RawConn()
	if err != nil {
		h.run.Inconclusive("harness-dial: " + err.Error())
		return
	}
	defer conn.Close()
	conn.SetDeadline(time.Now().Add(60 * time.Second))
	go io.WriteString(conn, req)
	br := bufio.NewReader(conn)
	line, err := br.ReadString('\n')
	h.run.Eval(1)
	h.run.Count("http_requests", 1)
	h.run.Count("http_malformed_requests", 1)
	c := httpCase{N: -1 - i%len(reqs), Method: "HANDWRITTEN", Shape: name, Raw: true}
	if err != nil && line == "" {
		h.report(c, shapeT{name: c.Shape}, err.Error(), req, err)
		return
	}
	if !reqLineOK.MatchString(strings.TrimRight(line, "\r\n")) {
		h.report(c, shapeT{name: c.Shape}, fmt.Sprintf("first line of the reply is %q", abbrevS(line)), req, nil)
		return
	}
	h.run.Distinct("C|" + c.Shape + "|" + strings.TrimSpace(line))
}

// whipSession: the life of one WHIP resource, with hostile requests in between.
func (h *httpWorld) whipSession(i int) {
	r := h.run.Rand(23, h.batch, uint64(h.pass), uint64(i))
	g := fmt.Sprintf("whipg/b%dp%ds%d", h.batch, h.pass, i)
	ep := "/group/" + g + "/.whip"
	do := func(step, method, path string, hdr map[string]string, body []byte) (int, http.Header) {
		h.run.Note(fmt.Sprintf("whip session %d %s: %s %s hdr=%v body=%s", i, step, method, path, hdr, abbrevS(string(body))))
		st, rh, _, err := h.srv.Do(method, path, hdr, body)
		h.run.Eval(1)
		h.run.Count("http_requests", 1)
		h.run.Count("http_requests:whip-session", 1)
		c := httpCase{N: -1000 - i, Method: method, Shape: "whip-session/" + step}
		if err != nil {
			h.report(c, shapeT{name: c.Shape}, err.Error(), path, err)
			return 0, nil
		}
		h.run.Distinct(fmt.Sprintf("C|whip-session|%s|%s|%d", step, method, st))
		return st, rh
	}
	auth := map[string]string{}
	switch i % 4 {
	case 1:
		auth["Authorization"] = "Bearer tok-whip"
	case 3:
		auth["Authorization"] = "Bearer no-such-token"
	}
	hdr := map[string]string{"Content-Type": "application/sdp"}
	for k, v := range auth {
		hdr[k] = v
	}
	// an observer in the group learns the id under which the WHIP session is a member
	var obs *vclient.Client
	if i%2 == 0 {
		if c, err := vclient.Dial(h.srv, fmt.Sprintf("whipobs-b%dp%ds%d", h.batch, h.pass, i)); err == nil {
			if m, ok := c.Join(g, "op1", "pw-op1"); ok && m.Str("kind") == "join" {
				obs = c
			} else {
				c.Close()
			}
		}
	}
	if obs != nil {
		defer obs.Close()
	}
	obsFrom := 0
	if obs != nil {
		obsFrom = obs.EventCount()
	}
	st, rh := do("create", "POST", ep, hdr, []byte(h.offer))
	if st != http.StatusCreated {
		if i%4 != 3 && st != 0 {
			h.run.Inconclusive(fmt.Sprintf("WHIP POST with a valid offer answered %d", st))
		}
		return
	}
	h.run.Count("whip_sessions_created", 1)
	loc := rh.Get("Location")
	etag := rh.Get("ETag")
	ufrag, pwd := "", ""
	for _, l := range strings.Split(h.offer, "\r\n") {
		if strings.HasPrefix(l, "a=ice-ufrag:") {
			ufrag = l[len("a=ice-ufrag:"):]
		}
		if strings.HasPrefix(l, "a=ice-pwd:") {
			pwd = l[len("a=ice-pwd:"):]
		}
	}
	frag := func(u, p, cand string) []byte {
		return []byte("a=ice-ufrag:" + u + "\r\na=ice-pwd:" + p + "\r\nm=audio 9 UDP/TLS/RTP/SAVPF 0\r\na=mid:0\r\n" + cand)
	}
	ph := func(extra map[string]string) map[string]string {
		m := map[string]string{"Content-Type": "application/trickle-ice-sdpfrag"}
		for k, v := range auth {
			m[k] = v
		}
		for k, v := range extra {
			m[k] = v
		}
		return m
	}
	steps := []func(){
		func() {
			if st, _ := do("trickle", "PATCH", loc, ph(nil), frag(ufrag, pwd, "a=candidate:1 1 udp 2130706431 192.0.2.77 41000 typ host\r\n")); st == http.StatusNoContent {
				h.run.Count("whip_trickle_accepted", 1)
			}
		},
		func() {
			do("trickle-bad-candidates", "PATCH", loc, ph(nil), frag(ufrag, pwd, "a=candidate:\r\na=candidate:x y z\r\na=candidate:1 1 udp 99999999999999999999 300.1.1.1 99999 typ host\r\na=candidate:1 1 xyz 1 ::: 9 typ relay raddr\r\na=end-of-candidates\r\n"))
		},
		func() {
			if st, _ := do("restart", "PATCH", loc, ph(nil), frag("NEWU", "newpasswordnewpasswordnew", "")); st == http.StatusOK {
				h.run.Count("whip_restarts_answered", 1)
			}
			ufrag, pwd = "NEWU", "newpasswordnewpasswordnew"
		},
		func() {
			t, _ := mutateText(string(frag(ufrag, pwd, "a=candidate:1 1 udp 1 192.0.2.1 9 typ host\r\n")), r)
			do("patch-mutated", "PATCH", loc, ph(nil), []byte(t))
		},
		func() { do("patch-empty", "PATCH", loc, ph(nil), nil) },
		func() {
			do("patch-huge", "PATCH", loc, ph(nil), []byte("a=ice-ufrag:"+strings.Repeat("u", 1024*1024+5)))
		},
		func() {
			do("patch-if-match-wrong", "PATCH", loc, ph(map[string]string{"If-Match": `"nope"`}), frag(ufrag, pwd, ""))
		},
		func() {
			do("patch-if-match-right", "PATCH", loc, ph(map[string]string{"If-Match": etag}), frag(ufrag, pwd, ""))
		},
		func() {
			do("patch-wrong-ctype", "PATCH", loc, map[string]string{"Content-Type": "application/sdp"}, frag(ufrag, pwd, ""))
		},
		func() {
			do("patch-no-auth", "PATCH", loc, map[string]string{"Content-Type": "application/trickle-ice-sdpfrag"}, frag(ufrag, pwd, ""))
		},
		func() { do("options", "OPTIONS", loc, ph(map[string]string{"Origin": "https://evil.example"}), nil) },
		func() { do("get", "GET", loc, ph(nil), nil) },
		func() { do("brew", "BREW", loc, ph(nil), []byte("x")) },
		func() { do("post-on-resource", "POST", loc, hdr, []byte(h.offer)) },
		func() {
			do("second-post-same-group", "POST", ep, hdr, []byte(mutateSDP(h.offer, sdpMutations[1+r.IntN(len(sdpMutations)-1)], r)))
		},
		func() { do("delete-if-match-wrong", "DELETE", loc, ph(map[string]string{"If-Match": `"nope"`}), nil) },
		func() {
			do("patch-garbage-id", "PATCH", ep+"/"+segValue("nonexistent", 'i', false, h, r), ph(nil), frag(ufrag, pwd, ""))
		},
		func() {
			do("delete-garbage-id", "DELETE", ep+"/"+segValue("nonexistent", 'i', false, h, r), ph(nil), nil)
		},
	}
	n := 3 + r.IntN(6)
	for k := 0; k < n; k++ {
		steps[r.IntN(len(steps))]()
	}
	if r.IntN(8) != 0 {
		if st, _ := do("delete", "DELETE", loc, ph(nil), nil); st == http.StatusOK {
			h.run.Count("whip_sessions_deleted", 1)
		}
		do("patch-after-delete", "PATCH", loc, ph(nil), frag(ufrag, pwd, ""))
		do("delete-after-delete", "DELETE", loc, ph(nil), nil)
		// the session is gone; a WEB client now joins the group under the very id the session
		// had (ids are chosen by clients): the old session URL resolves to a member that is
		// not a WHIP session
		if obs != nil {
			whipID := ""
			obs.Ping(10 * time.Second)
			for _, e := range obs.EventsFrom(obsFrom) {
				if e.M.Str("type") == "user" && e.M.Str("kind") == "add" && e.M.Str("username") == "whip" {
					whipID = e.M.Str("id")
				}
			}
			if whipID != "" {
				if c, err := vclient.Dial(h.srv, whipID); err == nil {
					defer c.Close()
					if m, ok := c.Join(g, "op1", "pw-op1"); ok && m.Str("kind") == "join" {
						h.run.Count("whip_ids_reused_by_web_clients", 1)
						do("delete-id-now-a-web-client", "DELETE", loc, ph(nil), nil)
						do("patch-id-now-a-web-client", "PATCH", loc, ph(nil), frag(ufrag, pwd, ""))
						do("get-id-now-a-web-client", "GET", loc, ph(nil), nil)
						do("options-id-now-a-web-client", "OPTIONS", loc, ph(nil), nil)
					}
				}
			}
		}
	}
}

var rePanicServing = regexp.MustCompile(`http: panic serving [^\n]*`)

// scanLog turns every "http: panic serving" entry of a server log into a violation.  The
// parent calls it after the child has ended, so that a crash elsewhere does not hide them.
func scanLog(run *vk.Run, logFile string, batch uint64, pass int) {
	b, err := os.ReadFile(logFile)
	if err != nil {
		return // the child never got as far as starting the server; the parent reports that
	}
	text := string(b)
	for _, loc := range rePanicServing.FindAllStringIndex(text, -1) {
		entry := text[loc[0]:]
		if len(entry) > 6000 {
			entry = entry[:6000]
		}
		headline := entry
		if i := strings.Index(headline, "\n"); i >= 0 {
			headline = headline[:i]
		}
		frame := "unknown-frame"
		for _, l := range strings.Split(entry, "\n")[1:] {
			if strings.Contains(l, "http: panic serving") {
				break
			}
			if strings.Contains(l, "jech/galene/") && !strings.HasPrefix(l, "\t") && strings.Contains(l, "(") {
				f := l[:strings.LastIndex(l, "(")]
				f = f[strings.LastIndex(f, "jech/galene/")+len("jech/galene/"):]
				frame = f
				break
			}
		}
		msg := headline
		if i := strings.Index(msg, ": "); i >= 0 {
			msg = msg[i+2:]
		}
		run.Violation("http-panic:"+frame, "a request handler panicked (net/http recovered it, the client got no response): "+msg+" at "+frame,
			map[string]any{"tier": "http", "batch": batch, "pass": pass, "log_entry": entry[:min(len(entry), 3500)],
				"note": "the request is the one reported as http-no-response by the same batch"})
	}
	run.Count("server_log_scans", 1)
}

func (h *httpWorld) runAll(cases []httpCase, malformed, whip int) {
	h.restore()
	var wg sync.WaitGroup
	const workers = 4
	ch := make(chan httpCase)
	for k := 0; k < workers; k++ {
		wg.Add(1)
		go func() {
			defer wg.Done()
			for c := range ch {
				h.runCase(c)
			}
		}()
	}
	wg.Add(1)
	go func() {
		defer wg.Done()
		for i := 0; i < whip; i++ {
			h.whipSession(i)
		}
	}()
	wg.Add(1)
	go func() {
		defer wg.Done()
		for i := 0; i < malformed; i++ {
			h.malformed(i + int(h.batch)*7)
		}
	}()
	for i, c := range cases {
		if i%60 == 59 {
			h.restore()
		}
		ch <- c
	}
	close(ch)
	wg.Wait()
}
