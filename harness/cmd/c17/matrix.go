package main

import (
	"encoding/json"
	"fmt"
	"os"
	"path/filepath"
	"sort"
	"strings"
	"time"

	"verif/harness/vsrv"
)

const api = "/galene-api/v0"

var methods = []string{"GET", "HEAD", "PUT", "POST", "DELETE", "PATCH", "OPTIONS"}

// A target is one addressed group of the request matrix.
type target struct {
	Group   string   // the group name in the URL
	Home    *fxGroup // the group file that supplies users and keys (the parent for an automatic subgroup)
	AutoSub bool     // Group is an automatic subgroup of Home: it has no file of its own
	Other   *fxGroup // "another group"
}

func pickTarget(fx *fixture, ti int) *target {
	ga, gh, org, team := fx.Groups[0], fx.Groups[1], fx.Groups[2], fx.Groups[3]
	switch ti {
	case 0:
		return &target{Group: ga.Name, Home: ga, Other: gh}
	case 1:
		return &target{Group: team.Name, Home: team, Other: org}
	case 2:
		return &target{Group: org.Name, Home: org, Other: team}
	case 3:
		return &target{Group: gh.Name, Home: gh, Other: ga}
	default:
		return &target{Group: org.Name + "/MRKauto", Home: org, AutoSub: true, Other: ga}
	}
}

type shape struct {
	Name       string
	Path       string
	Group      string // addressed group; "" = server-wide endpoint
	NoGroup    bool   // the addressed group does not exist at all
	Kind       string // what a well-formed body looks like
	PasswordOf string // the user whose password endpoint this is ("" = none; "\x00" never matches)
	PwShape    bool
	PwKind     string // how the addressed user's password is stored
	AnyPw      bool   // that user's stored password is of type "wildcard": any presented password is the current one
	May404     bool   // the path does not exist: 404 is an acceptable refusal
	Soft       bool   // acceptance is never asserted (only refusal of insufficient credentials)
}

func buildShapes(fx *fixture, tg *target) []*shape {
	var out []*shape
	add := func(s *shape) { out = append(out, s) }
	// server-wide
	add(&shape{Name: "stats", Path: api + "/.stats", Kind: "other"})
	add(&shape{Name: "stats-sub", Path: api + "/.stats/x", Kind: "other", May404: true})
	add(&shape{Name: "groups-list", Path: api + "/.groups/", Kind: "other"})
	add(&shape{Name: "groups-list-noslash", Path: api + "/.groups", Kind: "other"})
	add(&shape{Name: "api-unknown-kind", Path: api + "/.unknown", Kind: "other", May404: true})
	add(&shape{Name: "api-bad-version", Path: "/galene-api/v1/.groups/", Kind: "other", May404: true})
	add(&shape{Name: "empty-group-users-list", Path: api + "/.groups/.users/", Kind: "other", May404: true})
	add(&shape{Name: "empty-group-keys", Path: api + "/.groups/.keys", Kind: "keys", May404: true})
	add(&shape{Name: "empty-group-tokens-list", Path: api + "/.groups/.tokens/", Kind: "tokens"})
	add(&shape{Name: "empty-group-token", Path: api + "/.groups/.tokens/" + fx.Root["sub-op"].Name, Kind: "token"})

	g := tg.Group
	base := api + "/.groups/" + g
	u, o := tg.Home.Users["pres"], tg.Home.Users["op"]
	m := tg.AutoSub // an automatic subgroup has no definition of its own: everything may be 404
	grp := func(name, rest, kind string, may404 bool) *shape {
		s := &shape{Name: name, Path: base + rest, Group: g, Kind: kind, May404: may404 || m}
		add(s)
		return s
	}
	grp("group", "", "group", false)
	grp("group-slash", "/", "group", false).Soft = true
	grp("users-list", "/.users/", "other", false)
	grp("users-noslash", "/.users", "other", true)
	grp("user", "/.users/"+u.Name, "user", false)
	s := grp("user-password", "/.users/"+u.Name+"/.password", "password", false)
	s.PasswordOf, s.PwShape, s.PwKind = u.Name, true, u.Kind
	grp("user-unknown-sub", "/.users/"+u.Name+"/.unknown", "other", true)
	s = grp("other-user-password", "/.users/"+o.Name+"/.password", "password", false)
	s.PasswordOf, s.PwShape, s.PwKind = o.Name, true, o.Kind
	s = grp("wildcard-password-user-password", "/.users/"+tg.Home.AnyPw+"/.password", "password", false)
	s.PasswordOf, s.PwShape, s.AnyPw = tg.Home.AnyPw, true, true
	grp("nonexistent-user", "/.users/MRKnouser", "user", true)
	s = grp("nonexistent-user-password", "/.users/MRKnouser/.password", "password", true)
	s.PasswordOf, s.PwShape = "MRKnouser", true
	grp("wildcard-user", "/.wildcard-user", "user", !tg.Home.Wild)
	grp("wildcard-user-password", "/.wildcard-user/.password", "password", !tg.Home.Wild).PwShape = true
	grp("wildcard-user-unknown", "/.wildcard-user/.unknown", "other", true)
	grp("empty-user", "/.empty-user", "user", false)
	grp("empty-user-password", "/.empty-user/.password", "password", false).PwShape = true
	grp("keys", "/.keys", "keys", false)
	grp("keys-sub", "/.keys/x", "keys", true)
	grp("tokens-list", "/.tokens/", "tokens", false)
	grp("tokens-noslash", "/.tokens", "tokens", true)
	if tg.AutoSub {
		grp("token", "/.tokens/"+tg.Home.Toks["op"].Name, "token", true)
	} else {
		grp("token", "/.tokens/"+tg.Home.Toks["op"].Name, "token", false)
	}
	grp("token-of-other-group", "/.tokens/"+tg.Other.Toks["op"].Name, "token", true)
	grp("token-nonexistent", "/.tokens/MRKnosuchtoken", "token", true)
	grp("unknown", "/.unknown", "other", true)

	// a group that does not exist
	ng := "MRKnosuch"
	nb := api + "/.groups/" + ng
	no := func(name, rest, kind string) *shape {
		s := &shape{Name: name, Path: nb + rest, Group: ng, NoGroup: true, Kind: kind, May404: true}
		add(s)
		return s
	}
	no("nogroup", "", "group")
	no("nogroup-users-list", "/.users/", "other")
	no("nogroup-user", "/.users/"+u.Name, "user")
	s = no("nogroup-user-password", "/.users/"+u.Name+"/.password", "password")
	s.PwShape = true
	no("nogroup-wildcard-user", "/.wildcard-user", "user")
	no("nogroup-keys", "/.keys", "keys")
	no("nogroup-tokens-list", "/.tokens/", "tokens")
	no("nogroup-token", "/.tokens/"+tg.Home.Toks["op"].Name, "token")
	return out
}

// A cred is one way of (not) authenticating.  The fields say what the credential IS (who
// presents what); whether that is sufficient for an endpoint is decided by judge() from
// the property text alone.
type cred struct {
	Class  string
	Hdr    map[string]string
	Basic  bool   // a well-formed Basic authorisation: some user name and password are presented
	PwKind string // how the presented user's password is stored (plain, pbkdf2, bcrypt)

	GlobalAdmin bool // the server administrator of config.json with the right password

	UserGroup string // group whose user entry this is, presented with the RIGHT password
	User      string
	UserAdmin bool

	PwOnlyGroup, PwOnlyUser string // presents that user's current password under a foreign user name

	Tok *fxToken // a stateful bearer token

	JWTGroup string // a valid, correctly signed admin JWT whose audience is this group
	SelfLike bool   // an ordinary user's own credentials (reports under own-password-rule-too-wide)
}

func bearer(t string) map[string]string { return map[string]string{"Authorization": "Bearer " + t} }

func (w *world) buildCreds(fx *fixture, tg *target) []*cred {
	var cs []*cred
	add := func(c *cred) { cs = append(cs, c) }
	home, other := tg.Home, tg.Other
	pfx := ""
	if tg.AutoSub {
		pfx = "parent-"
	}
	add(&cred{Class: "none"})
	add(&cred{Class: "malformed-basic", Hdr: map[string]string{"Authorization": "Basic !!!not-base64!!!"}})
	add(&cred{Class: "wrong-password-global-admin", Hdr: vsrv.Basic(w.srv.AdminUser, w.newSecret("wrong-password"))})
	add(&cred{Class: "global-admin-password-under-other-name", Hdr: vsrv.Basic("MRKnotroot", w.srv.AdminPass)})
	add(&cred{Class: "config-user-without-admin-permission", Hdr: vsrv.Basic(confOperator, confOperatorPass)})
	add(&cred{Class: "wrong-password-" + pfx + "group-admin", Hdr: vsrv.Basic(home.Users["adm"].Name, w.newSecret("wrong-password"))})
	add(&cred{Class: pfx + "group-admin-name-with-global-admin-password", Hdr: vsrv.Basic(home.Users["adm"].Name, w.srv.AdminPass)})
	for _, k := range home.Order {
		u := home.Users[k]
		c := &cred{Hdr: vsrv.Basic(u.Name, u.Plain), UserGroup: home.Name, User: u.Name, UserAdmin: u.Admin, PwKind: u.Kind}
		switch k {
		case "adm":
			c.Class = pfx + "group-admin"
		case "adm2":
			c.Class = pfx + "group-admin-array-permissions"
		case "pres":
			c.Class, c.SelfLike = pfx+"user-present-self", true
		default:
			c.Class = pfx + "user-" + k
		}
		add(c)
	}
	add(&cred{Class: pfx + "anyname-with-users-password", Hdr: vsrv.Basic("MRKsomebody", home.Users["pres"].Plain),
		PwOnlyGroup: home.Name, PwOnlyUser: home.Users["pres"].Name, SelfLike: true})
	add(&cred{Class: "stranger", Hdr: vsrv.Basic("MRKstranger", w.newSecret("wrong-password"))})
	oa := other.Users["adm"]
	add(&cred{Class: "other-group-admin", Hdr: vsrv.Basic(oa.Name, oa.Plain), UserGroup: other.Name, User: oa.Name, UserAdmin: true})
	oo := other.Users["op"]
	add(&cred{Class: "other-group-op", Hdr: vsrv.Basic(oo.Name, oo.Plain), UserGroup: other.Name, User: oo.Name})
	add(&cred{Class: "global-admin", Hdr: w.srv.AdminAuth(), GlobalAdmin: true})

	// stateful tokens: all of the home group's, the administrator tokens of every other
	// group, and the root-scoped ones
	tokClass := func(t *fxToken) string {
		role := map[string]string{"adm": "admin", "exp": "admin-expired", "op": "nonadmin", "fut": "admin-not-yet-valid",
			"admsub": "admin-with-subgroups"}[t.Role]
		switch {
		case t.Group == "":
			return "token-" + t.Role
		case t.Group == tg.Group:
			return "token-" + role + "-this-group"
		case strings.HasPrefix(tg.Group, t.Group+"/"):
			return "token-" + role + "-parent-group"
		case strings.HasPrefix(t.Group, tg.Group+"/"):
			return "token-" + role + "-child-group"
		case t.Group == other.Name:
			return "token-" + role + "-other-group"
		default:
			return "token-" + role + "-third-group"
		}
	}
	for _, t := range fx.AllTok {
		if t.Group != "" && t.Group != home.Name && t.Group != tg.Group && !(t.Role == "adm" || t.Role == "admsub") {
			continue
		}
		add(&cred{Class: tokClass(t), Hdr: bearer(t.Name), Tok: t})
	}
	add(&cred{Class: "token-unknown", Hdr: bearer("MRKnosuchtoken")})

	// cryptographic tokens
	day := 24 * time.Hour
	add(&cred{Class: "jwt-admin-this-group", Hdr: bearer(adminJWT(home.HSKey, home.HSKid, tg.Group, []string{"admin"}, day)), JWTGroup: tg.Group})
	add(&cred{Class: "jwt-admin-signed-with-other-groups-key", Hdr: bearer(adminJWT(other.HSKey, home.HSKid, tg.Group, []string{"admin"}, day))})
	add(&cred{Class: "jwt-admin-for-other-group", Hdr: bearer(adminJWT(home.HSKey, home.HSKid, other.Name, []string{"admin"}, day))})
	add(&cred{Class: "jwt-nonadmin-this-group", Hdr: bearer(adminJWT(home.HSKey, home.HSKid, tg.Group, []string{"op", "present"}, day))})
	add(&cred{Class: "jwt-admin-expired", Hdr: bearer(adminJWT(home.HSKey, home.HSKid, tg.Group, []string{"admin"}, -2*time.Hour))})
	now := time.Now()
	add(&cred{Class: "jwt-admin-unsigned", Hdr: bearer(signJWT(nil, home.HSKid, "none", map[string]any{
		"sub": "MRKjwtsubject", "aud": "http://galene.test/group/" + tg.Group + "/", "permissions": []string{"admin"},
		"iat": now.Add(-time.Hour).Unix(), "exp": now.Add(day).Unix()}))})
	for _, c := range cs {
		c.Basic = strings.HasPrefix(c.Hdr["Authorization"], "Basic ") && c.Class != "malformed-basic"
	}
	return cs
}

const (
	no = iota
	yes
	unspec
)

// tokenInScope: galene.md, "Managing tokens": a token applies to its group; with
// include-subgroups to the whole hierarchy rooted there; attached to the root ("") with
// include-subgroups it is valid for any group on the server.
func tokenInScope(t *fxToken, group string) bool {
	if group == "" {
		return t.Group == "" && t.Sub
	}
	if t.Group == group {
		return true
	}
	if t.Sub {
		return t.Group == "" || strings.HasPrefix(group, t.Group+"/")
	}
	return false
}

// judge decides from the property text whether the credential is sufficient for the endpoint.
func judge(c *cred, s *shape, tg *target) int {
	if c.GlobalAdmin {
		return yes
	}
	if c.Tok != nil && c.Tok.Admin && c.Tok.Valid && tokenInScope(c.Tok, "") {
		return yes // root-scoped administrator token: the whole server
	}
	if s.Group == "" || s.NoGroup {
		return no // server-wide endpoints and groups that do not exist have no group administrators
	}
	auto := tg.AutoSub && s.Group == tg.Group
	if c.Tok != nil && c.Tok.Admin && c.Tok.Valid && tokenInScope(c.Tok, s.Group) {
		return yes
	}
	if c.JWTGroup != "" && c.JWTGroup == s.Group {
		if auto {
			return unspec
		}
		return yes
	}
	if s.AnyPw && c.Basic && !(c.UserAdmin && c.UserGroup == s.Group) {
		return unspec // some password is presented, and every password is that user's current one
	}
	if c.UserGroup != "" {
		if auto && c.UserGroup == tg.Home.Name {
			// users of the parent in an automatic subgroup: whether the parent's administrator
			// administers the subgroup is not stated; everybody else clearly does not
			if c.UserAdmin || (s.PasswordOf != "" && s.PasswordOf == c.User) {
				return unspec
			}
			return no
		}
		if c.UserGroup == s.Group {
			if c.UserAdmin {
				return yes
			}
			if s.PasswordOf != "" && s.PasswordOf == c.User {
				return yes // a user may set their own password by presenting their current one
			}
		}
		return no
	}
	if c.PwOnlyUser != "" && s.PasswordOf == c.PwOnlyUser && (c.PwOnlyGroup == s.Group || (auto && c.PwOnlyGroup == tg.Home.Name)) {
		return unspec // the user's current password, but under another name: not stated
	}
	return no
}

type matrixRun struct {
	w       *world
	fx      *fixture
	tg      *target
	variant int
	ti      int
	base    *baseline
	pwPool  []string
	newKeys map[string]any
	mset    map[string]map[string]bool // marker value -> groups it belongs to
}

func (m *matrixRun) body(method string, s *shape, n int) (map[string]string, []byte) {
	switch method {
	case "GET", "HEAD", "DELETE", "OPTIONS":
		return nil, nil
	}
	js := func(v any) (map[string]string, []byte) {
		b, _ := json.Marshal(v)
		return map[string]string{"Content-Type": "application/json"}, b
	}
	exp := time.Now().Add(48 * time.Hour).UTC().Format(time.RFC3339)
	switch s.Kind {
	case "group":
		return js(map[string]any{"displayName": "MRKnewdisplay", "description": "MRKnewdescription", "max-clients": 3})
	case "user":
		return js(map[string]any{"permissions": "present"})
	case "password":
		pw := m.pwPool[n%len(m.pwPool)]
		if method == "POST" {
			return map[string]string{"Content-Type": "text/plain"}, []byte(pw)
		}
		return js(pw)
	case "keys":
		b, _ := json.Marshal(map[string]any{"keys": []any{m.newKeys}})
		return map[string]string{"Content-Type": "application/jwk-set+json"}, b
	case "token", "tokens":
		return js(map[string]any{"username": "MRKnewtokenuser", "permissions": []string{"present"}, "expires": exp})
	}
	return js(map[string]any{})
}

func (m *matrixRun) groupFileKey(group string) string {
	return "groups/file:" + filepath.FromSlash(group) + ".json"
}

// one sends and judges a single request of the matrix.
func (m *matrixRun) one(s *shape, method string, c *cred, n int, noneAccepted *bool) bool {
	w := m.w
	suff := judge(c, s, m.tg)
	if method == "PUT" && s.Name == "token-nonexistent" && suff != no {
		// PUT of a token that does not exist is suspected to abort in the handler: that is
		// C12's business, not this property's
		w.count("skipped_put_nonexistent_token", 1)
		return true
	}
	hdr := map[string]string{}
	for k, v := range c.Hdr {
		hdr[k] = v
	}
	bh, body := m.body(method, s, n)
	for k, v := range bh {
		hdr[k] = v
	}
	if method == "OPTIONS" {
		hdr["Origin"] = "http://galene.test"
		hdr["Access-Control-Request-Method"] = "PUT"
		hdr["Access-Control-Request-Headers"] = "Authorization, Content-Type"
	}
	expect := [...]string{"refuse", "accept", "unspecified"}[suff]
	if method == "OPTIONS" {
		expect = "preflight"
	}
	replay := map[string]any{"mode": "matrix", "args": matrixArgs{Variant: m.variant, Target: m.ti}, "method": method, "shape": s.Name,
		"path": s.Path, "credential": c.Class, "expected": expect}
	reqDesc := fmt.Sprintf("%s %s with credential %q", method, s.Path, c.Class)
	st, rh, rb, err := w.do(method, s.Path, hdr, body, c.Class)
	after := w.snapshot()
	changed := snapDiff(m.base.snap, after)
	w.eval(method + "|" + s.Name + "|" + c.Class + "|" + expect + "|" + c.PwKind + "|" + s.PwKind)
	defer func() {
		if len(changed) > 0 {
			w.restore(m.base)
		}
	}()
	id := method + ":" + s.Name + ":" + c.Class
	if s.AnyPw && suff == no {
		// one signature for the whole corner: nothing is presented at all (no header, a bearer
		// token, garbage) at the password endpoint of a user whose password has type "wildcard"
		id = "any:" + s.Name + ":no-password-presented"
	}
	if err != nil {
		w.count("transport_errors", 1)
		if suff == no && method != "OPTIONS" {
			w.run.Violation("insufficient-credential-accepted:"+id, "the connection was aborted instead of a 401/404 refusal for "+reqDesc+": "+err.Error(), replay)
		}
		if suff == no && len(changed) > 0 {
			w.run.Violation("refusal-had-effect:"+id, fmt.Sprintf("%s: aborted, yet changed %v", reqDesc, changed), replay)
		}
		return true
	}
	w.count(fmt.Sprintf("matrix_status_%s_%d", expect, st), 1)
	blob := responseBlob(rh, rb)
	w.scanSecrets(s.Name, reqDesc, blob, nil, replay)
	found := findMarkers(blob, w.markers)

	if method == "OPTIONS" {
		if len(changed) > 0 {
			w.run.Violation("refusal-had-effect:"+id, fmt.Sprintf("a CORS preflight (%s) changed %v", reqDesc, changed), replay)
		}
		if suff != yes && len(found) > 0 {
			w.run.Violation("refusal-disclosed-data:"+id, fmt.Sprintf("a CORS preflight (%s) discloses group data %q", reqDesc, found[0].Val), replay)
		}
		if c.Class == "none" {
			if st >= 200 && st < 300 {
				w.count("preflights_2xx_without_credentials", 1)
			} else {
				w.count("preflights_not_2xx_without_credentials", 1)
			}
		}
		w.count("preflights_checked", 1)
		return true
	}

	switch suff {
	case no:
		refused := st == 401 || (st == 404 && s.May404)
		if refused {
			w.count("insufficient_refused", 1)
		} else if s.AnyPw && st == 405 {
			// same corner, but the method is not allowed anyway: the witnesses reported under
			// the collapsed signature are the requests that were carried out
			w.count("wildcard_password_corner_405_instead_of_401", 1)
		} else {
			if c.Class == "none" {
				*noneAccepted = true
			}
			if c.SelfLike && !*noneAccepted && (s.Group == m.tg.Group) {
				w.run.Violation("own-password-rule-too-wide:"+s.Name,
					fmt.Sprintf("%s answered %d: a user's own password opens more than that user's own password endpoint", reqDesc, st), replay)
			} else {
				w.run.Violation("insufficient-credential-accepted:"+id,
					fmt.Sprintf("%s answered %d instead of 401%s: %s", reqDesc, st, map[bool]string{true: "/404", false: ""}[s.May404], clip(string(rb), 120)), replay)
			}
		}
		if len(changed) > 0 {
			w.run.Violation("refusal-had-effect:"+id, fmt.Sprintf("%s (status %d) changed %v", reqDesc, st, changed), replay)
		}
		if len(found) > 0 {
			w.run.Violation("refusal-disclosed-data:"+id, fmt.Sprintf("%s (status %d) discloses group data %q: %s", reqDesc, st, found[0].Val, clip(string(rb), 160)), replay)
		}
	case yes:
		if st == 401 && s.NoGroup && !c.GlobalAdmin {
			// a root-scoped administrator token is not honoured for a group that does not exist
			// (it cannot create groups): a refusal, so not this property's business
			w.count("root_token_refused_for_nonexistent_group", 1)
		} else if (st == 401 || st == 403) && !s.Soft {
			w.run.Violation("authorised-refused:"+s.Name+":"+c.Class, fmt.Sprintf("%s answered %d although the credential is sufficient", reqDesc, st), replay)
		} else if st != 401 && st != 403 {
			w.count("authorised_not_refused", 1)
		}
		global := c.GlobalAdmin || (c.Tok != nil && tokenInScope(c.Tok, ""))
		if len(changed) > 0 {
			w.count("authorised_took_effect", 1)
			if st < 200 || st > 299 {
				w.count("authorised_effect_with_non_2xx", 1)
			}
			if !global {
				for _, k := range changed {
					ok := k == "tokens-raw" || k == m.groupFileKey(m.tg.Group) || strings.HasPrefix(k, "token:"+m.tg.Group+":")
					if !ok {
						w.run.Violation("out-of-scope-effect:"+id, fmt.Sprintf("%s, sufficient only for group %s, changed %s", reqDesc, m.tg.Group, k), replay)
					}
				}
			}
			if c.UserGroup != "" && !c.UserAdmin {
				m.checkOwnPasswordOnly(s, c, reqDesc, replay)
				w.count("own_password_changes_accepted", 1)
			}
		}
		if !global {
			for _, mk := range found {
				gs := m.mset[mk.Val]
				if !gs[m.tg.Group] && !gs[m.tg.Home.Name] {
					w.run.Violation("authorised-disclosed-other-group:"+s.Name+":"+c.Class,
						fmt.Sprintf("%s, sufficient only for group %s, discloses %q which belongs to %v", reqDesc, m.tg.Group, mk.Val, keysOf(gs)), replay)
				}
			}
		}
		if len(found) > 0 && st >= 200 && st < 300 {
			w.count("authorised_reads_with_group_data", 1)
		}
	default:
		w.count("unspecified_sufficiency_not_judged", 1)
		if st == 401 {
			if len(changed) > 0 {
				w.run.Violation("refusal-had-effect:"+id, fmt.Sprintf("%s (status 401) changed %v", reqDesc, changed), replay)
			}
			if len(found) > 0 {
				w.run.Violation("refusal-disclosed-data:"+id, fmt.Sprintf("%s (status 401) discloses group data %q", reqDesc, found[0].Val), replay)
			}
		}
	}
	return true
}

func keysOf(m map[string]bool) []string {
	var ks []string
	for k := range m {
		ks = append(ks, k)
	}
	sort.Strings(ks)
	return ks
}

// checkOwnPasswordOnly: a user who is no administrator changed something with their own
// password: it may only be their own stored password.
func (m *matrixRun) checkOwnPasswordOnly(s *shape, c *cred, reqDesc string, replay any) {
	rel := filepath.FromSlash(m.tg.Group) + ".json"
	before, err1 := flatten(m.base.groups[rel])
	now, _ := os.ReadFile(m.w.srv.GroupFile(m.tg.Group))
	after, err2 := flatten(now)
	if err1 != nil || err2 != nil {
		m.w.run.Violation("own-password-rule-too-wide:"+s.Name, reqDesc+": the group file is no longer readable after a user's own password change", replay)
		return
	}
	for _, k := range flatDiff(before, after) {
		if k != "user/"+c.User+"/password" {
			m.w.run.Violation("own-password-rule-too-wide:"+s.Name, fmt.Sprintf("%s: a non-administrator changed %s", reqDesc, k), replay)
		}
	}
}

type matrixArgs struct {
	Variant int `json:"variant"`
	Target  int `json:"target"`
	Shard   int `json:"shard"`
	Shards  int `json:"shards"`
}

func runMatrix(w *world, a matrixArgs) {
	r := w.run.Rand(1, uint64(a.Variant))
	fx := w.buildMatrixFixture(a.Variant, r)
	tg := pickTarget(fx, a.Target)
	m := &matrixRun{w: w, fx: fx, tg: tg, variant: a.Variant, ti: a.Target, mset: map[string]map[string]bool{}}
	for i := 0; i < 3; i++ {
		m.pwPool = append(m.pwPool, w.newSecret("new-password"))
	}
	m.newKeys, _ = w.hsJWK("MRKnewkid")
	creds := w.buildCreds(fx, tg)
	shapes := buildShapes(fx, tg)
	// the same name is an administrator in MRKorg and an ordinary user in MRKorg/MRKteam
	for _, mk := range w.markers {
		if m.mset[mk.Val] == nil {
			m.mset[mk.Val] = map[string]bool{}
		}
		m.mset[mk.Val][mk.Group] = true
	}
	if team := fx.ByName["MRKorg/MRKteam"]; team != nil {
		pa := fx.ByName["MRKorg"].Users["adm"].Name
		m.mset[pa][team.Name] = true
	}
	if !w.selfTest() {
		return
	}
	m.base = w.takeBaseline()
	if a.Shard == 0 {
		w.run.Set(fmt.Sprintf("matrix_dimensions_target_%d", a.Target), map[string]int{"methods": len(methods), "shapes": len(shapes), "credentials": len(creds)})
	}
	if a.Variant == 0 && a.Target == 0 && a.Shard == 0 {
		var sn, cn []string
		for _, s := range shapes {
			sn = append(sn, s.Name)
		}
		for _, c := range creds {
			cn = append(cn, c.Class)
		}
		w.run.Sample(map[string]any{"matrix": "methods x shapes x credentials", "methods": methods, "shapes": sn, "credentials": cn})
	}
	only, _ := replayFilter()
	n := 0
	for si, s := range shapes {
		if a.Shards > 1 && si%a.Shards != a.Shard {
			continue
		}
		for _, method := range methods {
			noneAccepted := false
			for _, c := range creds {
				if only != nil && (only["shape"] != s.Name || only["method"] != method) {
					continue
				}
				n++
				m.one(s, method, c, n, &noneAccepted)
				if n%400 == 0 {
					w.flush()
				}
			}
		}
	}
	w.flush()
}
