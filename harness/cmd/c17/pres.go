package main

import (
	"encoding/json"
	"fmt"
	"math/rand/v2"
	"os"
	"sort"
	"strings"
	"sync"
	"time"

	"golang.org/x/crypto/bcrypt"

	"verif/harness/vsrv"
)

// flatten turns a group definition file into a flat map of independently addressable items:
//
//	top/<field>               every member other than users / wildcard-user / authKeys
//	user/<name>               "present"
//	user/<name>/password      canonical JSON of the stored password (absent = no password)
//	user/<name>/permissions
//	user/<name>/+<other>      any other member of a user entry
//	wild, wild/password, wild/permissions
//	authKeys                  canonical JSON of the whole key set
func flatten(raw []byte) (map[string]string, error) {
	var top map[string]json.RawMessage
	if err := json.Unmarshal(raw, &top); err != nil {
		return nil, err
	}
	m := map[string]string{}
	user := func(prefix string, v json.RawMessage) error {
		var u map[string]json.RawMessage
		if err := json.Unmarshal(v, &u); err != nil {
			return err
		}
		m[prefix] = "present"
		for f, val := range u {
			c, err := canon(val)
			if err != nil {
				return err
			}
			if f != "password" && f != "permissions" {
				f = "+" + f
			}
			m[prefix+"/"+f] = c
		}
		return nil
	}
	for k, v := range top {
		switch k {
		case "users":
			var us map[string]json.RawMessage
			if err := json.Unmarshal(v, &us); err != nil {
				return nil, err
			}
			for name, u := range us {
				if err := user("user/"+name, u); err != nil {
					return nil, err
				}
			}
		case "wildcard-user":
			if err := user("wild", v); err != nil {
				return nil, err
			}
		case "authKeys":
			c, err := canon(v)
			if err != nil {
				return nil, err
			}
			m["authKeys"] = c
		default:
			c, err := canon(v)
			if err != nil {
				return nil, err
			}
			m["top/"+k] = c
		}
	}
	return m, nil
}

func flatDiff(a, b map[string]string) []string {
	var d []string
	for k, v := range a {
		if w, ok := b[k]; !ok || w != v {
			d = append(d, k)
		}
	}
	for k := range b {
		if _, ok := a[k]; !ok {
			d = append(d, k)
		}
	}
	sort.Strings(d)
	return d
}

func copyFlat(a map[string]string) map[string]string {
	b := make(map[string]string, len(a))
	for k, v := range a {
		b[k] = v
	}
	return b
}

// itemClass names what an item is relative to the user a request addresses.
func itemClass(k, addressedUser string) string {
	switch {
	case k == "authKeys":
		return "authKeys"
	case strings.HasPrefix(k, "top/"):
		return "description-field"
	case k == "wild":
		return "wildcard-user"
	case strings.HasPrefix(k, "wild/"):
		return "wildcard-user-" + strings.TrimPrefix(strings.TrimPrefix(k, "wild/"), "+")
	case strings.HasPrefix(k, "user/"):
		rest := strings.TrimPrefix(k, "user/")
		name, field := rest, "entry"
		if i := strings.Index(rest, "/"); i >= 0 {
			name, field = rest[:i], strings.TrimPrefix(rest[i+1:], "+")
		}
		who := "other-user"
		if addressedUser != "\x00" && name == addressedUser {
			who = "same-user"
		}
		return who + "-" + field
	}
	return "other"
}

// ---- one preservation sequence ----

type pcred struct {
	Class string
	Hdr   map[string]string
}

type seq struct {
	w      *world
	r      *rand.Rand
	idx    uint64
	name   string
	base   string
	plain  map[string]string // user -> password known to authenticate
	local  []sentinel        // secrets planted by this sequence
	toks   map[string]bool   // tokens created through the API
	admTok string
	root   string
	trail  []string
	live   bool // the group is kept live in the server (its status page is polled)
	nuser  int
	ntok   int
	bad    bool
}

func (s *seq) secret(kind string) string {
	v := s.w.secretText(kind)
	s.local = append(s.local, sentinel{v, kind})
	return v
}

func (s *seq) localSent(v, kind string) { s.local = append(s.local, sentinel{v, kind}) }

// password builds a stored password of a random kind with sequence-local sentinels.
func (s *seq) password(kind string) (string, any) {
	w := s.w
	switch kind {
	case "pbkdf2", "bcrypt":
		// reuse the world's builder but keep the sentinels local to the sequence
		tmp := &world{run: w.run, batch: w.batch, seen: map[string]bool{}}
		tmp.nsent = w.uniq() * 1000
		p, st := tmp.makePassword(kind)
		s.local = append(s.local, tmp.sents...)
		return p, st
	default:
		p := s.secret("plain-password")
		return p, p
	}
}

func (s *seq) hsKey() map[string]any {
	tmp := &world{run: s.w.run, batch: s.w.batch, seen: map[string]bool{}}
	tmp.nsent = s.w.uniq() * 1000
	k, _ := tmp.hsJWK(fmt.Sprintf("MRKpk%d", s.w.uniq()))
	s.local = append(s.local, tmp.sents...)
	return k
}

func (s *seq) ecKey(withD bool) map[string]any {
	tmp := &world{run: s.w.run, batch: s.w.batch, seen: map[string]bool{}}
	k := tmp.ecJWK(fmt.Sprintf("MRKpk%d", s.w.uniq()), withD)
	s.local = append(s.local, tmp.sents...)
	return k
}

var permChoices = []any{"op", "present", "message", "observe", "caption", "admin", []string{"present", "message"}, []string{"op", "present", "token"}, []string{"admin"}}

func (s *seq) descFields() map[string]any {
	r := s.r
	d := map[string]any{}
	n := s.w.uniq()
	opt := []struct {
		k string
		v any
	}{
		{"displayName", fmt.Sprintf("MRKpdisplay%d", n)}, {"description", fmt.Sprintf("MRKpdescription%d <b>&amp;", n)},
		{"contact", fmt.Sprintf("MRKpcontact%d@example.org", n)}, {"comment", fmt.Sprintf("MRKpcomment%d", n)},
		{"public", true}, {"max-clients", 2 + r.IntN(50)}, {"max-history-age", 60 + r.IntN(5000)},
		{"allow-recording", true}, {"unrestricted-tokens", true}, {"autolock", true}, {"autokick", true},
		{"auto-subgroups", true}, {"codecs", []string{"vp8", "opus"}}, {"authServer", "https://auth.example.org/MRKpauth"},
		{"authPortal", "https://portal.example.org/"},
	}
	for _, o := range opt {
		if r.IntN(3) == 0 {
			d[o.k] = o.v
		}
	}
	return d
}

func (s *seq) newGroup() map[string]any {
	r := s.r
	d := s.descFields()
	d["displayName"] = fmt.Sprintf("MRKpdisplay%d", s.w.uniq())
	users := map[string]any{}
	nu := 3 + r.IntN(6)
	for i := 0; i < nu; i++ {
		name := fmt.Sprintf("MRKpu%dn%d", s.idx, i)
		if i == 2 && r.IntN(3) == 0 {
			name = ""
		}
		if i == 3 && r.IntN(3) == 0 {
			name = fmt.Sprintf("MRKpu%d user@work", s.idx)
		}
		perm := permChoices[r.IntN(len(permChoices))]
		if i == 0 {
			perm = "admin"
		}
		kind := kinds[r.IntN(3)]
		if i == 0 {
			kind = "plain"
		}
		u := map[string]any{"permissions": perm}
		switch r.IntN(12) {
		case 0:
			// a user without any password
		default:
			p, st := s.password(kind)
			u["password"] = st
			s.plain[name] = p
		}
		users[name] = u
	}
	s.nuser = nu
	d["users"] = users
	switch r.IntN(4) {
	case 0:
	case 1:
		d["wildcard-user"] = map[string]any{"password": map[string]any{"type": "wildcard"}, "permissions": "message"}
	default:
		_, st := s.password(kinds[r.IntN(3)])
		d["wildcard-user"] = map[string]any{"password": st, "permissions": permChoices[r.IntN(5)]}
	}
	if r.IntN(5) != 0 {
		var keys []any
		for i, n := 0, 1+r.IntN(3); i < n; i++ {
			switch r.IntN(3) {
			case 0:
				keys = append(keys, s.hsKey())
			case 1:
				keys = append(keys, s.ecKey(true))
			default:
				keys = append(keys, s.ecKey(false))
			}
		}
		d["authKeys"] = keys
	}
	return d
}

func (s *seq) readFlat() (map[string]string, []byte, error) {
	raw, err := os.ReadFile(s.w.srv.GroupFile(s.name))
	if err != nil {
		return nil, nil, err
	}
	m, err := flatten(raw)
	return m, raw, err
}

func userNames(m map[string]string) []string {
	var us []string
	for k, v := range m {
		if strings.HasPrefix(k, "user/") && v == "present" && !strings.Contains(k[5:], "/") {
			us = append(us, k[5:])
		}
	}
	sort.Strings(us)
	return us
}

// an op is one authorised update together with the model of what it addresses.
type op struct {
	Kind      string
	Method    string
	Path      string
	Hdr       map[string]string
	Body      []byte
	User      string                       // addressed user ("\x00" = none)
	Addressed func(k string) bool          // items the request addresses
	Apply     func(m map[string]string)    // expected effect of a 2xx answer on the addressed items
	Verify    map[string]func(string) bool // items whose new value is checked by a predicate instead
	MustFail  bool                         // an unsanitised description: must be refused
	Token     string                       // token operation: "post", "put:<name>", "delete:<name>"
	NewPlain  *string                      // on success the user's known password becomes this (nil: unchanged, "": unknown)
	WantOK    bool                         // a well-formed request on an existing object: expected to succeed
	Pre       string                       // "", "match", "stale", "none-match"
}

func jsonBody(v any) []byte {
	b, _ := json.Marshal(v)
	return b
}

func userPath(u string) string {
	if u == "" {
		return "/.empty-user"
	}
	return "/.users/" + strings.ReplaceAll(u, " ", "%20")
}

func (s *seq) pickOp(cur map[string]string) *op {
	r := s.r
	users := userNames(cur)
	pickUser := func() (string, bool) {
		if len(users) == 0 {
			return "", false
		}
		return users[r.IntN(len(users))], true
	}
	jh := map[string]string{"Content-Type": "application/json"}
	x := r.IntN(100)
	switch {
	case x < 12: // sanitised group PUT
		d := s.descFields()
		o := &op{Kind: "group-PUT", Method: "PUT", Path: "", Hdr: jh, Body: jsonBody(d), User: "\x00", WantOK: true}
		o.Addressed = func(k string) bool { return strings.HasPrefix(k, "top/") }
		o.Apply = func(m map[string]string) {
			for k := range m {
				if strings.HasPrefix(k, "top/") {
					delete(m, k)
				}
			}
			for k, v := range d {
				m["top/"+k] = canonV(v)
			}
		}
		switch r.IntN(4) {
		case 0:
			o.Pre = "match"
		case 1:
			o.Pre, o.WantOK, o.Kind = "stale", false, "group-PUT-stale-tag"
		}
		return o
	case x < 18: // unsanitised group PUT
		d := s.descFields()
		field := []string{"users", "wildcard-user", "authKeys"}[r.IntN(3)]
		switch field {
		case "users":
			d["users"] = map[string]any{"MRKpintruder": map[string]any{"password": s.secret("new-password"), "permissions": "admin"}}
		case "wildcard-user":
			d["wildcard-user"] = map[string]any{"password": map[string]any{"type": "wildcard"}, "permissions": "admin"}
		default:
			d["authKeys"] = []any{s.hsKey()}
		}
		o := &op{Kind: "group-PUT-unsanitised-" + field, Method: "PUT", Path: "", Hdr: jh, Body: jsonBody(d), User: "\x00", MustFail: true}
		o.Addressed = func(k string) bool { return strings.HasPrefix(k, "top/") }
		o.Apply = func(m map[string]string) {
			for k := range m {
				if strings.HasPrefix(k, "top/") {
					delete(m, k)
				}
			}
			for k, v := range d {
				if k != field {
					m["top/"+k] = canonV(v)
				}
			}
		}
		return o
	case x < 30: // user PUT (existing)
		u, ok := pickUser()
		if !ok {
			return nil
		}
		perm := permChoices[r.IntN(len(permChoices))]
		body := map[string]any{"permissions": perm}
		o := &op{Kind: "user-PUT", Method: "PUT", Path: userPath(u), Hdr: jh, User: u, WantOK: true}
		if r.IntN(5) == 0 {
			body["password"] = s.secret("new-password")
			o.Kind, o.WantOK = "user-PUT-unsanitised", false
		}
		o.Body = jsonBody(body)
		o.Addressed = func(k string) bool { return k == "user/"+u || k == "user/"+u+"/permissions" }
		o.Apply = func(m map[string]string) { m["user/"+u] = "present"; m["user/"+u+"/permissions"] = canonV(perm) }
		if o.WantOK && r.IntN(3) == 0 {
			o.Pre = "match"
		}
		return o
	case x < 36: // user PUT (new)
		s.nuser++
		u := fmt.Sprintf("MRKpu%dn%d", s.idx, s.nuser)
		perm := permChoices[r.IntN(len(permChoices))]
		o := &op{Kind: "user-PUT-new", Method: "PUT", Path: userPath(u), Hdr: jh, Body: jsonBody(map[string]any{"permissions": perm}), User: u, WantOK: true}
		o.Addressed = func(k string) bool { return k == "user/"+u || k == "user/"+u+"/permissions" }
		o.Apply = func(m map[string]string) { m["user/"+u] = "present"; m["user/"+u+"/permissions"] = canonV(perm) }
		if r.IntN(2) == 0 {
			o.Pre = "none-match"
		}
		return o
	case x < 42: // user DELETE
		u, ok := pickUser()
		if !ok || len(users) < 3 {
			return nil
		}
		o := &op{Kind: "user-DELETE", Method: "DELETE", Path: userPath(u), User: u, WantOK: true}
		o.Addressed = func(k string) bool { return k == "user/"+u || strings.HasPrefix(k, "user/"+u+"/") }
		o.Apply = func(m map[string]string) {
			for k := range m {
				if k == "user/"+u || strings.HasPrefix(k, "user/"+u+"/") {
					delete(m, k)
				}
			}
		}
		empty := ""
		o.NewPlain = &empty
		return o
	case x < 64: // password of a user
		u, ok := pickUser()
		if !ok {
			return nil
		}
		return s.passwordOp(u, false, true)
	case x < 69: // wildcard user PUT
		perm := permChoices[r.IntN(5)]
		o := &op{Kind: "wildcard-user-PUT", Method: "PUT", Path: "/.wildcard-user", Hdr: jh, Body: jsonBody(map[string]any{"permissions": perm}), User: "\x00", WantOK: true}
		o.Addressed = func(k string) bool { return k == "wild" || k == "wild/permissions" }
		o.Apply = func(m map[string]string) { m["wild"] = "present"; m["wild/permissions"] = canonV(perm) }
		return o
	case x < 72: // wildcard user DELETE
		_, exists := cur["wild"]
		o := &op{Kind: "wildcard-user-DELETE", Method: "DELETE", Path: "/.wildcard-user", User: "\x00", WantOK: exists}
		o.Addressed = func(k string) bool { return k == "wild" || strings.HasPrefix(k, "wild/") }
		o.Apply = func(m map[string]string) {
			for k := range m {
				if k == "wild" || strings.HasPrefix(k, "wild/") {
					delete(m, k)
				}
			}
		}
		return o
	case x < 78: // wildcard password
		_, exists := cur["wild"]
		return s.passwordOp("", true, exists)
	case x < 85: // keys PUT
		var keys []any
		for i, n := 0, 1+r.IntN(2); i < n; i++ {
			if r.IntN(2) == 0 {
				keys = append(keys, s.hsKey())
			} else {
				keys = append(keys, s.ecKey(r.IntN(2) == 0))
			}
		}
		o := &op{Kind: "keys-PUT", Method: "PUT", Path: "/.keys", Hdr: map[string]string{"Content-Type": "application/jwk-set+json"},
			Body: jsonBody(map[string]any{"keys": keys}), User: "\x00", WantOK: true}
		o.Addressed = func(k string) bool { return k == "authKeys" }
		o.Apply = func(m map[string]string) { m["authKeys"] = canonV(keys) }
		return o
	case x < 88: // keys DELETE
		o := &op{Kind: "keys-DELETE", Method: "DELETE", Path: "/.keys", User: "\x00", WantOK: true}
		o.Addressed = func(k string) bool { return k == "authKeys" }
		o.Apply = func(m map[string]string) { delete(m, "authKeys") }
		return o
	case x < 92: // token POST
		s.ntok++
		body := map[string]any{"username": fmt.Sprintf("MRKptokuser%dn%d", s.idx, s.ntok), "permissions": []string{"present", "message"},
			"expires": time.Now().Add(time.Duration(24+s.ntok) * time.Hour).UTC().Format(time.RFC3339)}
		return &op{Kind: "token-POST", Method: "POST", Path: "/.tokens/", Hdr: jh, Body: jsonBody(body), User: "\x00", WantOK: true,
			Addressed: func(string) bool { return false }, Apply: func(map[string]string) {}, Token: "post"}
	case x < 95: // token PUT (existing)
		t := s.anyToken()
		if t == "" {
			return nil
		}
		s.ntok++
		body := map[string]any{"username": fmt.Sprintf("MRKptokuser%dn%d", s.idx, s.ntok), "permissions": []string{"message"},
			"expires": time.Now().Add(time.Duration(48+s.ntok) * time.Hour).UTC().Format(time.RFC3339)}
		return &op{Kind: "token-PUT", Method: "PUT", Path: "/.tokens/" + t, Hdr: jh, Body: jsonBody(body), User: "\x00", WantOK: true,
			Addressed: func(string) bool { return false }, Apply: func(map[string]string) {}, Token: "put:" + t}
	case x < 97: // token DELETE
		t := s.anyToken()
		if t == "" {
			return nil
		}
		return &op{Kind: "token-DELETE", Method: "DELETE", Path: "/.tokens/" + t, User: "\x00", WantOK: true,
			Addressed: func(string) bool { return false }, Apply: func(map[string]string) {}, Token: "delete:" + t}
	default: // an authorised read
		paths := []string{"", "/.users/", "/.tokens/"}
		if u, ok := pickUser(); ok {
			paths = append(paths, userPath(u))
		}
		if _, ok := cur["wild"]; ok {
			paths = append(paths, "/.wildcard-user")
		}
		if t := s.anyToken(); t != "" {
			paths = append(paths, "/.tokens/"+t)
		}
		p := paths[r.IntN(len(paths))]
		return &op{Kind: "read", Method: []string{"GET", "GET", "HEAD"}[r.IntN(3)], Path: p, User: "\x00", WantOK: true,
			Addressed: func(string) bool { return false }, Apply: func(map[string]string) {}}
	}
}

func (s *seq) anyToken() string {
	var ts []string
	for t := range s.toks {
		ts = append(ts, t)
	}
	if len(ts) == 0 {
		return ""
	}
	sort.Strings(ts)
	return ts[s.r.IntN(len(ts))]
}

func (s *seq) passwordOp(u string, wildcard, exists bool) *op {
	r := s.r
	path, item, what := userPath(u)+"/.password", "user/"+u+"/password", "password"
	user := u
	if wildcard {
		path, item, what, user = "/.wildcard-user/.password", "wild/password", "wildcard-password", "\x00"
	}
	o := &op{User: user, WantOK: exists, Path: path}
	o.Addressed = func(k string) bool { return k == item }
	switch x := r.IntN(10); {
	case x < 6:
		kind := kinds[r.IntN(3)]
		p, st := s.password(kind)
		if wildcard && r.IntN(3) == 0 {
			p, st = "", map[string]any{"type": "wildcard"}
		}
		o.Kind, o.Method, o.Hdr, o.Body = what+"-PUT", "PUT", map[string]string{"Content-Type": "application/json"}, jsonBody(st)
		o.Apply = func(m map[string]string) { m[item] = canonV(st) }
		o.NewPlain = &p
	case x < 8:
		p := s.secret("new-password")
		o.Kind, o.Method, o.Hdr, o.Body = what+"-POST", "POST", map[string]string{"Content-Type": "text/plain"}, []byte(p)
		o.Apply = func(m map[string]string) { m[item] = "?" }
		o.Verify = map[string]func(string) bool{item: func(c string) bool {
			var pw struct {
				Type string `json:"type"`
				Key  string `json:"key"`
			}
			if json.Unmarshal([]byte(c), &pw) != nil || pw.Type != "bcrypt" {
				return false
			}
			s.localSent(pw.Key, "bcrypt-hash")
			return bcrypt.CompareHashAndPassword([]byte(pw.Key), []byte(p)) == nil
		}}
		o.NewPlain = &p
	default:
		o.Kind, o.Method = what+"-DELETE", "DELETE"
		o.Apply = func(m map[string]string) { delete(m, item) }
		empty := ""
		o.NewPlain = &empty
	}
	return o
}

// credFor picks a clearly sufficient credential for the operation.
func (s *seq) credFor(o *op, cur map[string]string) pcred {
	r := s.r
	var cs []pcred
	cs = append(cs, pcred{"global-admin", s.w.srv.AdminAuth()}, pcred{"token-root", bearer(s.root)}, pcred{"token-admin-this-group", bearer(s.admTok)})
	for _, u := range userNames(cur) {
		if p, ok := s.plain[u]; ok && p != "" && cur["user/"+u+"/permissions"] == `"admin"` || ok && p != "" && cur["user/"+u+"/permissions"] == `["admin"]` {
			cs = append(cs, pcred{"group-admin", vsrv.Basic(u, p)})
			break
		}
	}
	if strings.HasPrefix(o.Kind, "password-") && o.User != "" && o.User != "\x00" {
		if p, ok := s.plain[o.User]; ok && p != "" {
			own := pcred{"own-password", vsrv.Basic(o.User, p)}
			cs = append(cs, own, own)
		}
	}
	return cs[r.IntN(len(cs))]
}

func (s *seq) note(x string) {
	s.trail = append(s.trail, x)
	if len(s.trail) > 60 {
		s.trail = s.trail[len(s.trail)-60:]
	}
}

func (s *seq) replay() map[string]any {
	return map[string]any{"mode": "pres", "args": presArgs{Index: s.w.batch}, "sequence": s.idx, "group": s.name, "trail": append([]string(nil), s.trail...)}
}

// send does one HTTP exchange and applies the secrecy clause to it.
func (s *seq) send(shape, method, path string, hdr map[string]string, body []byte, label string) (int, map[string][]string, []byte, bool) {
	st, rh, rb, err := s.w.do(method, s.base+path, hdr, body, label)
	if err != nil {
		s.w.count("transport_errors", 1)
		s.note(fmt.Sprintf("%s %s as %s -> transport error %v", method, path, label, err))
		return 0, nil, nil, false
	}
	s.note(fmt.Sprintf("%s %s as %s %s -> %d", method, path, label, clip(string(body), 100), st))
	s.w.scanSecrets(shape, fmt.Sprintf("%s %s%s with credential %q", method, s.base, path, label), responseBlob(rh, rb), s.local, s.replay())
	return st, rh, rb, true
}

func (s *seq) step(i int) {
	w := s.w
	cur, _, err := s.readFlat()
	if err != nil {
		w.run.Violation("update-corrupted-file:setup", fmt.Sprintf("group file of %s unreadable before step %d: %v", s.name, i, err), s.replay())
		s.bad = true
		return
	}
	var o *op
	for o == nil {
		o = s.pickOp(cur)
	}
	c := s.credFor(o, cur)
	hdr := map[string]string{}
	for k, v := range c.Hdr {
		hdr[k] = v
	}
	for k, v := range o.Hdr {
		hdr[k] = v
	}
	shape := "pres-" + o.Kind
	if o.Token != "" {
		w.tokMu.Lock()
		defer w.tokMu.Unlock()
	}
	// conditional requests: fetch the entity tag first (that response is scanned as well)
	switch o.Pre {
	case "match", "stale":
		st, rh, _, ok := s.send("pres-read", "GET", o.Path, c.Hdr, nil, c.Class)
		if !ok || st != 200 || len(rh["Etag"]) == 0 {
			o.Pre = ""
			break
		}
		tag := rh["Etag"][0]
		if o.Pre == "stale" {
			tag = `"1-1"`
		}
		hdr["If-Match"] = tag
	case "none-match":
		hdr["If-None-Match"] = "*"
	}
	var tokBefore map[string]string
	var tokGroups map[string]string
	if o.Token != "" {
		raw, _ := os.ReadFile(w.srv.TokenFile)
		tokBefore, tokGroups = parseTokenFile(raw)
	}
	st, rh, _, ok := s.send(shape, o.Method, o.Path, hdr, o.Body, c.Class)
	if !ok {
		return
	}
	ok2xx := st >= 200 && st < 300
	w.eval("pres|" + o.Kind + "|" + c.Class + "|" + o.Pre + "|" + fmt.Sprint(st/100))
	after, _, err := s.readFlat()
	if err != nil {
		w.run.Violation("update-corrupted-file:"+o.Kind, fmt.Sprintf("after %s %s (status %d) the group file of %s is unreadable: %v", o.Method, o.Path, st, s.name, err), s.replay())
		s.bad = true
		return
	}
	if st == 401 || st == 403 {
		w.run.Violation("authorised-refused:"+shape+":"+c.Class, fmt.Sprintf("%s %s%s with the sufficient credential %q answered %d", o.Method, s.base, o.Path, c.Class, st), s.replay())
	}
	if o.MustFail && ok2xx {
		w.run.Violation("unsanitised-update-accepted:"+o.Kind, fmt.Sprintf("PUT of a group description that contains %s answered %d", strings.TrimPrefix(o.Kind, "group-PUT-unsanitised-"), st), s.replay())
	}
	if o.MustFail && !ok2xx {
		w.count("unsanitised_descriptions_refused", 1)
	}
	exp := copyFlat(cur)
	if ok2xx {
		o.Apply(exp)
	}
	for _, k := range flatDiff(exp, after) {
		if o.Addressed(k) {
			if !ok2xx {
				continue // a failed request: what it addressed is not this clause's business
			}
			if o.MustFail {
				continue // reported above
			}
			if v, ok := o.Verify[k]; ok {
				if got, present := after[k]; present && v(got) {
					continue
				}
			}
			w.run.Violation("update-lost:"+o.Kind, fmt.Sprintf("%s %s%s answered %d but %s is %s, expected %s", o.Method, s.base, o.Path, st, k, clip(after[k], 80), clip(exp[k], 80)), s.replay())
			continue
		}
		w.run.Violation("update-altered-unaddressed:"+o.Kind+":"+itemClass(k, o.User),
			fmt.Sprintf("%s %s%s (status %d) changed %s, which it does not address: before %s, after %s", o.Method, s.base, o.Path, st, k, clip(cur[k], 80), clip(after[k], 80)), s.replay())
	}
	w.count("preservation_steps_compared", 1)
	w.count("preservation_items_compared", int64(len(after)))
	if ok2xx && o.Kind != "read" {
		w.count("authorised_updates_applied", 1)
		if c.Class == "own-password" {
			w.count("own_password_changes_accepted", 1)
		}
	} else if o.WantOK && o.Kind != "read" {
		w.count("well_formed_updates_not_2xx", 1)
		w.run.Sample(map[string]any{"well_formed_update_not_2xx": o.Kind, "status": st, "trail_tail": s.trail[max(0, len(s.trail)-3):]})
	}
	if old := s.plain[o.User]; ok2xx && o.NewPlain != nil && o.User != "\x00" && old != "" && old != *o.NewPlain &&
		(cur["user/"+o.User+"/permissions"] == `"admin"` || cur["user/"+o.User+"/permissions"] == `["admin"]`) {
		// the replaced password of a group administrator no longer authenticates anything
		pst, _, _, pok := s.send("pres-revoked", "GET", "", vsrv.Basic(o.User, old), nil, "revoked-password")
		if pok {
			w.count("revoked_admin_passwords_probed", 1)
			if s.live {
				w.count("revoked_admin_passwords_probed_on_a_live_group", 1)
			}
			if pst >= 200 && pst < 300 {
				w.run.Violation("insufficient-credential-accepted:GET:group:revoked-password", fmt.Sprintf("after %s %s%s answered %d, GET %s with the replaced password of %q still answered %d (live group: %v)", o.Method, s.base, o.Path, st, s.base, o.User, pst, s.live), s.replay())
			}
		}
	}
	if ok2xx && o.NewPlain != nil && o.User != "\x00" {
		if *o.NewPlain == "" {
			delete(s.plain, o.User)
		} else {
			s.plain[o.User] = *o.NewPlain
		}
	}
	// token operations: the other tokens stay what they were
	if o.Token != "" {
		raw, _ := os.ReadFile(w.srv.TokenFile)
		tokAfter, _ := parseTokenFile(raw)
		addressed := ""
		switch {
		case o.Token == "post":
			if ok2xx {
				loc := ""
				if l := rh["Location"]; len(l) > 0 {
					loc = l[0]
				}
				if c, ok := tokAfter[loc]; !ok || loc == "" || !strings.Contains(c, `"group":`+canonV(s.name)) {
					w.run.Violation("update-lost:token-POST", fmt.Sprintf("POST %s/.tokens/ answered %d with Location %q but the token file has no such token for the group", s.base, st, loc), s.replay())
				} else {
					s.toks[loc] = true
				}
				addressed = loc
			}
		case strings.HasPrefix(o.Token, "put:"):
			addressed = strings.TrimPrefix(o.Token, "put:")
			if ok2xx {
				var sent, got map[string]any
				json.Unmarshal(o.Body, &sent)
				json.Unmarshal([]byte(tokAfter[addressed]), &got)
				if got == nil || canonV(got["permissions"]) != canonV(sent["permissions"]) || canonV(got["username"]) != canonV(sent["username"]) || got["group"] != s.name {
					w.run.Violation("update-lost:token-PUT", fmt.Sprintf("PUT %s%s answered %d but the stored token is %s", s.base, o.Path, st, clip(tokAfter[addressed], 160)), s.replay())
				}
			}
		case strings.HasPrefix(o.Token, "delete:"):
			addressed = strings.TrimPrefix(o.Token, "delete:")
			if ok2xx {
				if _, still := tokAfter[addressed]; still {
					w.run.Violation("update-lost:token-DELETE", fmt.Sprintf("DELETE %s%s answered %d but the token is still stored", s.base, o.Path, st), s.replay())
				}
				delete(s.toks, addressed)
			}
		}
		for n, cb := range tokBefore {
			if n == addressed {
				continue
			}
			if ca, ok := tokAfter[n]; !ok || ca != cb {
				w.run.Violation("update-altered-unaddressed:"+o.Kind+":other-token",
					fmt.Sprintf("%s %s%s (status %d) changed token %q of group %q, which it does not address", o.Method, s.base, o.Path, st, n, tokGroups[n]), s.replay())
			}
		}
		for n := range tokAfter {
			if _, ok := tokBefore[n]; !ok && n != addressed {
				w.run.Violation("update-altered-unaddressed:"+o.Kind+":other-token", fmt.Sprintf("%s %s%s created the unrelated token %q", o.Method, s.base, o.Path, n), s.replay())
			}
		}
		w.count("token_files_compared", 1)
	}
}

func runSequence(w *world, idx uint64, root string) {
	r := w.run.Rand(2, w.batch, idx)
	s := &seq{w: w, r: r, idx: idx, plain: map[string]string{}, toks: map[string]bool{}, root: root}
	s.name = fmt.Sprintf("MRKpg%dx%d", w.batch, idx)
	if r.IntN(4) == 0 {
		s.name = fmt.Sprintf("MRKpdir%d/MRKpg%dx%d", idx%3, w.batch, idx)
	}
	s.base = api + "/.groups/" + s.name
	if err := w.writeGroup(s.name, s.newGroup()); err != nil {
		w.run.Inconclusive("harness setup: cannot write group: " + err.Error())
		return
	}
	s.admTok = fmt.Sprintf("MRKptk%dx%d", w.batch, idx)
	w.newAdminToken(s.admTok, s.name, false)
	steps := 5 + r.IntN(26)
	// every fourth sequence addresses a group that is live in the server's memory (somebody has
	// its page open): the API then authenticates against the cached description, which has to
	// follow every rewrite of the file
	s.live = idx%4 == 3
	for i := 0; i < steps && !s.bad; i++ {
		if s.live {
			// (new inode stamps come from the kernel's coarse clock: rewrites are paced so that
			// two of them of the same size never carry the same stamp)
			time.Sleep(25 * time.Millisecond)
			if st, _, _, err := w.do("GET", "/group/"+s.name+"/.status", nil, nil, "none"); err == nil && st == 200 {
				w.count("preservation_steps_on_a_live_group", 1)
			}
		}
		s.step(i)
	}
	w.count("preservation_sequences", 1)
	if idx == 0 {
		w.run.Sample(map[string]any{"preservation_sequence": idx, "group": s.name, "trail_head": s.trail[:min(len(s.trail), 12)]})
	}
}

type presArgs struct {
	Index   uint64 `json:"index"`
	Seqs    int    `json:"sequences"`
	Workers int    `json:"workers"`
}

func runPres(w *world, a presArgs) {
	// shared, read-only part of the world: the server administrator and a root-scoped token
	w.addSent(w.srv.AdminPass, "admin-password")
	w.addSent(confOperatorPass, "config-user-password")
	root := fmt.Sprintf("MRKptkroot%d", a.Index)
	w.newAdminToken(root, "", true)
	w.addMarker(root, "")
	if !w.selfTest() {
		return
	}
	only := int64(-1)
	if f, _ := replayFilter(); f != nil {
		if v, ok := f["sequence"].(float64); ok {
			only = int64(v)
		}
	}
	var wg sync.WaitGroup
	next := make(chan uint64, a.Seqs)
	for i := 0; i < a.Seqs; i++ {
		if only >= 0 && int64(i) != only {
			continue
		}
		next <- uint64(i)
	}
	close(next)
	for k := 0; k < max(1, a.Workers); k++ {
		wg.Add(1)
		go func() {
			defer wg.Done()
			for i := range next {
				runSequence(w, i, root)
				w.flush()
			}
		}()
	}
	wg.Wait()
	w.flush()
}
