// C17 - the administrative API acts only for administrators and never reveals secrets.
//
// Every child process boots the real server (vsrv, writable groups) and talks HTTP to it.
//
// "matrix" children walk method x endpoint shape x credential over a fixture of four groups
// (one in a subdirectory, one with automatic subgroups) whose every password, hash, salt and
// JWK k/d value is a unique sentinel and whose every name / free-text field is a unique
// marker.  Whether a credential is sufficient is decided from the property text (judge());
// insufficient ones must be answered 401 (404 where the path does not exist), leave a
// byte-level snapshot of groups/, data/ and the token file untouched, and carry no marker.
// No response at all may carry a sentinel.
//
// "pres" children run random sequences of AUTHORISED updates against one group each and
// compare the group file, item by item, with a model of what each request addresses.
package main

import (
	"fmt"
	"os"
	"strings"
	"sync"
	"time"

	"verif/harness/vk"
	"verif/harness/vsrv"
)

const prop = "C17"

const (
	confOperator     = "MRKconfoperator"
	confOperatorPass = "SENT00000-config-operator-password-5be1"
)

type job struct {
	Mode string
	Args any
}

// replayFilter returns the "replay" member of the replay file, if any.
func replayFilter() (map[string]any, bool) {
	if os.Getenv("VERIF_REPLAY") == "" {
		return nil, false
	}
	rep, ok := vk.ReplayInput()
	if !ok {
		return nil, false
	}
	m, _ := rep["replay"].(map[string]any)
	if m == nil {
		return nil, false
	}
	return m, true
}

func child(mode string) {
	run := vk.Start(prop)
	adminPass := "SENT00000-admin-password-c17f3a9d"
	// config.json also defines a user who is NOT an administrator
	srv, err := vsrv.Start(vsrv.Config{Root: os.Getenv("VERIF_CHILD_DIR"), WritableGroups: true, AdminPass: adminPass, LogToFile: true,
		ExtraConfig: map[string]any{"users": map[string]any{
			"root":       map[string]any{"password": adminPass, "permissions": "admin"},
			confOperator: map[string]any{"password": confOperatorPass, "permissions": "op"},
		}}})
	if err != nil {
		run.Inconclusive("server start: " + err.Error())
		os.Exit(0)
	}
	switch mode {
	case "matrix":
		var a matrixArgs
		vk.ChildArgs(&a)
		w := newWorld(run, srv, uint64(a.Variant*100+a.Target))
		w.addSent(adminPass, "admin-password")
		w.addSent(confOperatorPass, "config-user-password")
		runMatrix(w, a)
	case "pres":
		var a presArgs
		vk.ChildArgs(&a)
		w := newWorld(run, srv, a.Index)
		runPres(w, a)
	}
	os.Exit(0)
}

func main() {
	if mode, ok := vk.InChild(); ok {
		child(mode)
		return
	}
	run := vk.Start(prop)
	var jobs []job
	variants := run.Pick(1, 16)
	targets := 5
	shards := run.Pick(2, 1)
	presBatches := run.Pick(6, 100)
	presSeqs := run.Pick(20, 50)
	if rep, ok := replayFilter(); ok {
		args, _ := rep["args"].(map[string]any)
		num := func(k string) int { v, _ := args[k].(float64); return int(v) }
		switch rep["mode"] {
		case "matrix":
			jobs = append(jobs, job{"matrix", matrixArgs{Variant: num("variant"), Target: num("target"), Shards: 1}})
		case "pres":
			jobs = append(jobs, job{"pres", presArgs{Index: uint64(num("index")), Seqs: presSeqs, Workers: 1}})
		default:
			fmt.Println("replay file has no usable mode")
			os.Exit(2)
		}
	} else {
		for b := 0; b < presBatches; b++ {
			jobs = append(jobs, job{"pres", presArgs{Index: uint64(b), Seqs: presSeqs, Workers: 3}})
		}
		for v := 0; v < variants; v++ {
			for t := 0; t < targets; t++ {
				for s := 0; s < shards; s++ {
					jobs = append(jobs, job{"matrix", matrixArgs{Variant: v, Target: t, Shard: s, Shards: shards}})
				}
			}
		}
	}
	var wg sync.WaitGroup
	sem := make(chan struct{}, 10)
	for i, j := range jobs {
		wg.Add(1)
		sem <- struct{}{}
		go func(i int, j job) {
			defer wg.Done()
			defer func() { <-sem }()
			res := run.RunChild(j.Mode, j.Args, 20*time.Minute)
			what := fmt.Sprintf("%s child %+v", j.Mode, j.Args)
			switch {
			case strings.HasPrefix(res.Crash, "harness-crash:"):
				run.Inconclusive(fmt.Sprintf("%s: the harness itself crashed: %s\n%s", what, res.Crash, res.CrashText))
			case res.Crash != "":
				last := ""
				if len(res.Notes) > 0 {
					last = res.Notes[len(res.Notes)-1]
				}
				run.Inconclusive(fmt.Sprintf("%s: the server process died (a crash is property C12's business) after %q: %s", what, last, res.Crash))
			case res.TimedOut:
				run.Inconclusive(what + ": watchdog fired")
			case res.ExitCode != 0:
				run.Inconclusive(fmt.Sprintf("%s: child exited with %d", what, res.ExitCode))
			default:
				run.Count("children_completed", 1)
			}
		}(i, j)
	}
	wg.Wait()

	if _, ok := replayFilter(); !ok {
		nm := int64(variants * targets)
		run.FloorCounter("insufficient_refused", nm*5000)
		run.FloorCounter("authorised_not_refused", nm*500)
		run.FloorCounter("authorised_took_effect", nm*80)
		run.FloorCounter("authorised_reads_with_group_data", nm*10)
		run.FloorCounter("own_password_changes_accepted", nm*2)
		run.FloorCounter("preflights_2xx_without_credentials", nm*15)
		run.FloorCounter("responses_scanned_for_sentinels", nm*8000)
		run.FloorCounter("preservation_sequences", int64(presBatches*presSeqs))
		run.FloorCounter("preservation_steps_compared", int64(presBatches*presSeqs*8))
		run.FloorCounter("authorised_updates_applied", int64(presBatches*presSeqs*5))
		run.FloorCounter("unsanitised_descriptions_refused", int64(presBatches*presSeqs/4))
		run.FloorCounter("token_files_compared", int64(presBatches*presSeqs/3))
	}
	run.Assume("sufficiency of a credential is decided from the property text and galene.md/galene-api.md: server administrator (config.json) and root-scoped administrator tokens (group \"\" with includeSubgroups) for everything; administrators of the addressed group (user entry with permission admin, administrator token whose scope covers the group, administrator JWT signed with the group's key for the group's audience) for everything below /.groups/<g>/; a user's own name and current password for that user's own /.password endpoint only")
	run.Assume("not judged either way (only scanned for secrets): a user's current password presented under a different user name at that user's password endpoint; the parent group's users in an automatic subgroup; stateful tokens without a user name are not used; PUT on a token that does not exist with sufficient credentials is skipped (suspected handler abort, property C12)")
	run.Assume("a named user whose stored password has type \"wildcard\": any Basic credential presents one of its current passwords (not judged); a request that presents no password at all (no header, bearer token, garbage) is insufficient; all its violations are reported under one signature (...:any:wildcard-password-user-password:no-password-presented)")
	run.Assume("acceptance is asserted only for clearly sufficient credentials: a root-scoped administrator token refused (401) for a group that does not exist, and tokens refused at the trailing-slash form /.groups/<g>/, are counted, not reported")
	run.Assume("a CORS preflight (OPTIONS) is required to have no effect and to disclose nothing; that it succeeds (2xx) is only counted")
	run.Assume("stored items are compared as canonical JSON values (key order and escaping normalised) because galene re-encodes the whole file on every update; all fixture values are written in galene's own canonical forms")
	run.Assume("public JWK members x, y, n are treated as token-verification keys too (the API has no endpoint that returns keys)")
	run.Finish("exploration", "matrix children: method {GET,HEAD,PUT,POST,DELETE,PATCH,OPTIONS} x ~47 endpoint shapes (server-wide, per-group incl. trailing slash, users, own/other/nonexistent user password, wildcard/empty user, keys, tokens incl. another group's token, unknown sub-paths, nonexistent group) x ~45 credentials (none, malformed, wrong passwords, right password under another name, every role of the group, other/parent group's administrator, server administrator, stateful tokens: administrator/expired/not-yet-valid/non-administrator of this, parent, child and other groups, root-scoped with and without subgroups, unknown; HS256 JWTs: valid, other group's key, other audience, non-administrator, expired, unsigned) with well-formed bodies, per target group (plain, subdirectory, parent with automatic subgroups, automatic subgroup) and fixture variant (password encodings, wildcard user, key sets rotate); distinct_nontrivial = distinct (method, shape, credential class, expected verdict) and (update kind, credential, precondition, status class) tuples; pres children: random sequences of 5-30 authorised updates (group PUT sanitised/unsanitised/conditional, user PUT/DELETE, password PUT/POST/DELETE incl. by own password, wildcard user, keys, tokens, reads) on a random group, file compared item by item with the model after every request")
}
