package main

import (
	"crypto/ecdsa"
	"crypto/elliptic"
	"crypto/hmac"
	"crypto/pbkdf2"
	crand "crypto/rand"
	"crypto/rsa"
	"crypto/sha256"
	"encoding/base64"
	"encoding/hex"
	"encoding/json"
	"fmt"
	"math/big"
	"math/rand/v2"
	"time"

	"golang.org/x/crypto/bcrypt"

	"github.com/jech/galene/token"
)

var b64 = base64.RawURLEncoding

type fxUser struct {
	Key    string // role key inside the fixture: op, pres, msg, obs, adm, adm2, empty
	Name   string
	Perm   any    // value of "permissions"
	Admin  bool   // the permissions contain "admin"
	Plain  string // the password that authenticates this user
	Stored any    // value of "password" in the file
	Kind   string // plain | pbkdf2 | bcrypt
}

type fxToken struct {
	Name    string
	Group   string
	Sub     bool
	Admin   bool
	Valid   bool // neither expired nor in the future
	Role    string
	HasUser bool
}

type fxGroup struct {
	Idx   int
	Name  string
	File  map[string]any
	Users map[string]*fxUser
	Order []string
	Wild  bool
	AnyPw string // name of the user whose password has type "wildcard"
	HSKey []byte
	HSKid string
	Auto  bool                // "auto-subgroups": true
	Toks  map[string]*fxToken // by role: adm, exp, op, fut (and admsub for the parent)
}

type fixture struct {
	Groups []*fxGroup
	ByName map[string]*fxGroup
	Root   map[string]*fxToken // sub-adm, nosub-adm, sub-op
	AllTok []*fxToken
	rsaJWK map[string]any
}

// makePassword builds one stored password of the given kind; every secret part of it
// is registered as a sentinel.
func (w *world) makePassword(kind string) (plain string, stored any) {
	switch kind {
	case "pbkdf2":
		plain = w.newSecret("hashed-password-plaintext")
		n := w.uniq()
		sh := sha256.Sum256([]byte(fmt.Sprintf("salt|%d|%d|%d", w.run.Seed, w.batch, n)))
		salt := "5a175a17" + hex.EncodeToString(sh[:4]) // recognisable hex pattern + unique tail
		sb, _ := hex.DecodeString(salt)
		iter := 600 + int(n%7)
		key, err := pbkdf2.Key(sha256.New, plain, sb, iter, 32)
		if err != nil {
			panic(err)
		}
		ks := hex.EncodeToString(key)
		w.addSent(ks, "pbkdf2-key")
		w.addSent(salt, "pbkdf2-salt")
		return plain, map[string]any{"type": "pbkdf2", "hash": "sha-256", "key": ks, "salt": salt, "iterations": iter}
	case "bcrypt":
		plain = w.newSecret("hashed-password-plaintext")
		h, err := bcrypt.GenerateFromPassword([]byte(plain), bcrypt.MinCost)
		if err != nil {
			panic(err)
		}
		w.addSent(string(h), "bcrypt-hash")
		return plain, map[string]any{"type": "bcrypt", "key": string(h)}
	default:
		plain = w.newSecret("plain-password")
		return plain, plain
	}
}

func (w *world) hsJWK(kid string) (map[string]any, []byte) {
	n := w.uniq()
	raw := sha256.Sum256([]byte(fmt.Sprintf("hs|%d|%d|%d", w.run.Seed, w.batch, n)))
	k := b64.EncodeToString(raw[:])
	w.addSent(k, "jwk-k")
	m := map[string]any{"kty": "oct", "alg": "HS256", "k": k}
	if kid != "" {
		m["kid"] = kid
	}
	return m, raw[:]
}

func pad32(x *big.Int) []byte {
	b := make([]byte, 32)
	x.FillBytes(b)
	return b
}

// ecJWK returns an ES256 public key with the private member "d" planted next to it.
func (w *world) ecJWK(kid string, withD bool) map[string]any {
	k, err := ecdsa.GenerateKey(elliptic.P256(), crand.Reader)
	if err != nil {
		panic(err)
	}
	x, y, d := b64.EncodeToString(pad32(k.X)), b64.EncodeToString(pad32(k.Y)), b64.EncodeToString(pad32(k.D))
	w.addSent(x, "jwk-public-x")
	w.addSent(y, "jwk-public-y")
	m := map[string]any{"kty": "EC", "alg": "ES256", "crv": "P-256", "x": x, "y": y}
	if withD {
		w.addSent(d, "jwk-d")
		m["d"] = d
	}
	if kid != "" {
		m["kid"] = kid
	}
	return m
}

func (w *world) rsaJWK(fx *fixture, kid string) map[string]any {
	if fx.rsaJWK == nil {
		k, err := rsa.GenerateKey(crand.Reader, 1024)
		if err != nil {
			k, err = rsa.GenerateKey(crand.Reader, 2048)
			if err != nil {
				panic(err)
			}
		}
		n, d := b64.EncodeToString(k.N.Bytes()), b64.EncodeToString(k.D.Bytes())
		w.addSent(n, "jwk-public-n")
		w.addSent(d, "jwk-d")
		fx.rsaJWK = map[string]any{"kty": "RSA", "alg": "RS256", "n": n, "e": "AQAB", "d": d}
	}
	m := map[string]any{}
	for k, v := range fx.rsaJWK {
		m[k] = v
	}
	if kid != "" {
		m["kid"] = kid
	}
	return m
}

// signJWT is the harness's own HS256 signer (no JWT library involved).
func signJWT(key []byte, kid, alg string, claims map[string]any) string {
	h := map[string]any{"alg": alg, "typ": "JWT"}
	if kid != "" {
		h["kid"] = kid
	}
	hb, _ := json.Marshal(h)
	cb, _ := json.Marshal(claims)
	in := b64.EncodeToString(hb) + "." + b64.EncodeToString(cb)
	if alg == "none" {
		return in + "."
	}
	m := hmac.New(sha256.New, key)
	m.Write([]byte(in))
	return in + "." + b64.EncodeToString(m.Sum(nil))
}

func adminJWT(key []byte, kid, group string, perms []string, expOffset time.Duration) string {
	now := time.Now()
	return signJWT(key, kid, "HS256", map[string]any{
		"sub": "MRKjwtsubject", "aud": "http://galene.test/group/" + group + "/",
		"permissions": perms, "iat": now.Add(-time.Hour).Unix(), "exp": now.Add(expOffset).Unix(), "iss": "http://auth.test/",
	})
}

var kinds = []string{"plain", "pbkdf2", "bcrypt"}

func (w *world) newToken(fx *fixture, name, group string, sub bool, perms []string, expires, notBefore time.Duration, role string) *fxToken {
	now := time.Now()
	e := now.Add(expires)
	user := "MRKtokuser" + name[3:]
	st := &token.Stateful{Token: name, Group: group, IncludeSubgroups: sub, Username: &user, Permissions: perms, Expires: &e}
	if notBefore != 0 {
		nb := now.Add(notBefore)
		st.NotBefore = &nb
	}
	w.tokMu.Lock()
	_, err := token.Update(st, "")
	w.tokMu.Unlock()
	if err != nil {
		w.run.Inconclusive("harness setup: token.Update failed: " + err.Error())
	}
	admin := false
	for _, p := range perms {
		if p == "admin" {
			admin = true
		}
	}
	t := &fxToken{Name: name, Group: group, Sub: sub, Admin: admin, Valid: expires > 0 && notBefore <= 0, Role: role, HasUser: true}
	fx.AllTok = append(fx.AllTok, t)
	w.addMarker(name, group)
	w.addMarker(user, group)
	return t
}

// buildMatrixFixture writes the groups, users, keys and tokens the request matrix runs
// against.  variant rotates password encodings, wildcard users and key sets.
func (w *world) buildMatrixFixture(variant int, r *rand.Rand) *fixture {
	fx := &fixture{ByName: map[string]*fxGroup{}, Root: map[string]*fxToken{}}
	names := []string{"MRKga" + fmt.Sprint(variant), "MRKgh" + fmt.Sprint(variant), "MRKorg", "MRKorg/MRKteam"}
	for gi, name := range names {
		g := &fxGroup{Idx: gi, Name: name, Users: map[string]*fxUser{}, Toks: map[string]*fxToken{}}
		tag := fmt.Sprintf("%dx%d", variant, gi)
		file := map[string]any{
			"displayName": "MRKdisplay" + tag, "description": "MRKdescription" + tag,
			"contact": "MRKcontact" + tag + "@example.org", "comment": "MRKcomment" + tag,
			"max-clients": 10 + gi,
		}
		for _, f := range []string{"displayName", "description", "contact", "comment"} {
			w.addMarker(file[f].(string), name)
		}
		if name == "MRKorg" {
			file["auto-subgroups"] = true
			g.Auto = true
		}
		if gi == 0 {
			file["allow-recording"] = true
		}
		roles := []struct {
			key  string
			perm any
		}{
			{"op", "op"}, {"pres", "present"}, {"msg", "message"}, {"obs", "observe"},
			{"adm", "admin"}, {"adm2", []string{"admin"}}, {"empty", "observe"}, {"cap", []string{"caption", "message"}},
		}
		users := map[string]any{}
		for ri, ro := range roles {
			u := &fxUser{Key: ro.key, Name: "MRKu" + tag + ro.key, Perm: ro.perm, Kind: kinds[(ri+variant+gi)%3]}
			if ro.key == "empty" {
				u.Name = ""
			}
			if ro.key == "adm" || ro.key == "adm2" {
				u.Admin = true
			}
			u.Plain, u.Stored = w.makePassword(u.Kind)
			users[u.Name] = map[string]any{"password": u.Stored, "permissions": u.Perm}
			g.Users[ro.key] = u
			g.Order = append(g.Order, ro.key)
			if u.Name != "" {
				w.addMarker(u.Name, name)
			}
		}
		// a named user whose password is of type "wildcard": every password is its current one
		anyu := "MRKu" + tag + "anypw"
		users[anyu] = map[string]any{"password": map[string]any{"type": "wildcard"}, "permissions": "observe"}
		g.AnyPw = anyu
		w.addMarker(anyu, name)
		if name == "MRKorg/MRKteam" {
			// the parent's administrator also has an (ordinary) account here, under the same
			// name but with another password
			pa := "MRKu" + fmt.Sprintf("%dx%d", variant, 2) + "adm"
			_, st := w.makePassword("plain")
			users[pa] = map[string]any{"password": st, "permissions": "present"}
		}
		file["users"] = users
		switch (gi + variant) % 4 {
		case 0:
			file["wildcard-user"] = map[string]any{"password": map[string]any{"type": "wildcard"}, "permissions": "message"}
			g.Wild = true
		case 1:
			_, st := w.makePassword("plain")
			file["wildcard-user"] = map[string]any{"password": st, "permissions": "observe"}
			g.Wild = true
		case 2:
			_, st := w.makePassword(kinds[1+variant%2])
			file["wildcard-user"] = map[string]any{"password": st, "permissions": []string{"present", "message"}}
			g.Wild = true
		default:
			// no wildcard user
		}
		g.HSKid = "MRKkid" + tag + "hs"
		hs, raw := w.hsJWK(g.HSKid)
		g.HSKey = raw
		keys := []any{hs, w.ecJWK("MRKkid"+tag+"ec", true)}
		if (gi+variant)%2 == 0 {
			keys = append(keys, w.rsaJWK(fx, "MRKkid"+tag+"rsa"))
		}
		if r.IntN(2) == 0 {
			keys = append(keys, w.ecJWK("", false))
		}
		file["authKeys"] = keys
		g.File = file
		if err := w.writeGroup(name, file); err != nil {
			w.run.Inconclusive("harness setup: cannot write group: " + err.Error())
		}
		fx.Groups = append(fx.Groups, g)
		fx.ByName[name] = g

		day := 24 * time.Hour
		g.Toks["adm"] = w.newToken(fx, "MRKtk"+tag+"adm", name, false, []string{"admin"}, day, 0, "adm")
		g.Toks["exp"] = w.newToken(fx, "MRKtk"+tag+"exp", name, false, []string{"admin"}, -2*time.Hour, 0, "exp")
		g.Toks["op"] = w.newToken(fx, "MRKtk"+tag+"op", name, false, []string{"op", "present", "message"}, day, 0, "op")
		g.Toks["fut"] = w.newToken(fx, "MRKtk"+tag+"fut", name, false, []string{"admin"}, 2*day, day, "fut")
		if name == "MRKorg" {
			g.Toks["admsub"] = w.newToken(fx, "MRKtk"+tag+"admsub", name, true, []string{"admin"}, day, 0, "admsub")
		}
	}
	day := 24 * time.Hour
	fx.Root["sub-adm"] = w.newToken(fx, "MRKtkrootsubadm", "", true, []string{"admin"}, day, 0, "root-sub-adm")
	fx.Root["nosub-adm"] = w.newToken(fx, "MRKtkrootnosubadm", "", false, []string{"admin"}, day, 0, "root-nosub-adm")
	fx.Root["sub-op"] = w.newToken(fx, "MRKtkrootsubop", "", true, []string{"op", "present"}, day, 0, "root-sub-op")
	fx.Root["sub-adm-exp"] = w.newToken(fx, "MRKtkrootsubadmexp", "", true, []string{"admin"}, -2*time.Hour, 0, "root-sub-adm-exp")
	return fx
}

// newAdminToken creates a valid administrator token outside any fixture bookkeeping.
func (w *world) newAdminToken(name, group string, sub bool) {
	e := time.Now().Add(24 * time.Hour)
	user := "MRKtokuser" + name[3:]
	w.tokMu.Lock()
	_, err := token.Update(&token.Stateful{Token: name, Group: group, IncludeSubgroups: sub, Username: &user, Permissions: []string{"admin"}, Expires: &e}, "")
	w.tokMu.Unlock()
	if err != nil {
		w.run.Inconclusive("harness setup: token.Update failed: " + err.Error())
	}
}
