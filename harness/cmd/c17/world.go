package main

import (
	"bytes"
	"crypto/sha256"
	"encoding/hex"
	"encoding/json"
	"fmt"
	"io"
	"io/fs"
	"net/http"
	"os"
	"path/filepath"
	"sort"
	"strings"
	"sync"
	"sync/atomic"
	"time"

	"verif/harness/vk"
	"verif/harness/vsrv"
)

// A sentinel is a secret value planted in a fixture (or sent as a new password / key):
// no response may ever contain one.
type sentinel struct{ Val, Kind string }

// A marker is a piece of group data (user name, display name, token name...): no
// response to an insufficiently authenticated request may contain one.  Group is the
// group the datum belongs to ("" = server-wide).
type marker struct{ Val, Group string }

type world struct {
	run   *vk.Run
	srv   *vsrv.Server
	batch uint64

	mu      sync.RWMutex
	sents   []sentinel
	seen    map[string]bool
	markers []marker
	nsent   int64

	clock int64      // fake, strictly increasing mtimes for files written by the harness
	tokMu sync.Mutex // serialises every modification of the token file made on behalf of the harness

	accMu    sync.Mutex
	evals    int64
	counts   map[string]int64
	distinct map[string]bool
	reqs     int64
}

func newWorld(run *vk.Run, srv *vsrv.Server, batch uint64) *world {
	return &world{run: run, srv: srv, batch: batch, seen: map[string]bool{}, counts: map[string]int64{}, distinct: map[string]bool{}}
}

// ---- local accumulation (flushed in bulk: a matrix child judges ~10^4 requests) ----

func (w *world) count(k string, n int64) {
	w.accMu.Lock()
	w.counts[k] += n
	w.accMu.Unlock()
}

func (w *world) eval(shape string) {
	w.accMu.Lock()
	w.evals++
	w.distinct[shape] = true
	w.accMu.Unlock()
}

func (w *world) flush() {
	w.accMu.Lock()
	ev, cs, ds := w.evals, w.counts, w.distinct
	w.evals, w.counts, w.distinct = 0, map[string]int64{}, map[string]bool{}
	w.accMu.Unlock()
	if ev > 0 {
		w.run.Eval(ev)
	}
	ks := make([]string, 0, len(cs))
	for k := range cs {
		ks = append(ks, k)
	}
	sort.Strings(ks)
	for _, k := range ks {
		w.run.Count(k, cs[k])
	}
	for d := range ds {
		w.run.Distinct(d)
	}
}

// ---- sentinels and markers ----

func (w *world) addSent(val, kind string) {
	if len(val) < 10 {
		panic("harness: sentinel too short: " + val)
	}
	w.mu.Lock()
	if !w.seen[val] {
		w.seen[val] = true
		w.sents = append(w.sents, sentinel{val, kind})
	}
	w.mu.Unlock()
}

func (w *world) uniq() int64 { return atomic.AddInt64(&w.nsent, 1) }

// secretText returns a fresh unique secret string WITHOUT registering it.
func (w *world) secretText(kind string) string {
	n := w.uniq()
	h := sha256.Sum256([]byte(fmt.Sprintf("c17|%d|%d|%s|%d", w.run.Seed, w.batch, kind, n)))
	return fmt.Sprintf("SENT%05d-%s-%s", n, kind, hex.EncodeToString(h[:5]))
}

// newSecret returns a fresh registered sentinel.
func (w *world) newSecret(kind string) string {
	s := w.secretText(kind)
	w.addSent(s, kind)
	return s
}

func (w *world) addMarker(val, group string) {
	if len(val) < 5 {
		panic("harness: marker too short: " + val)
	}
	w.mu.Lock()
	w.markers = append(w.markers, marker{val, group})
	w.mu.Unlock()
}

func responseBlob(hdr http.Header, body []byte) string {
	var b strings.Builder
	ks := make([]string, 0, len(hdr))
	for k := range hdr {
		ks = append(ks, k)
	}
	sort.Strings(ks)
	for _, k := range ks {
		for _, v := range hdr[k] {
			b.WriteString(k)
			b.WriteString(": ")
			b.WriteString(v)
			b.WriteString("\n")
		}
	}
	b.WriteString("\n")
	b.Write(body)
	return b.String()
}

func findSecrets(blob string, lists ...[]sentinel) []sentinel {
	var out []sentinel
	for _, l := range lists {
		for _, s := range l {
			if strings.Contains(blob, s.Val) {
				out = append(out, s)
			}
		}
	}
	return out
}

func findMarkers(blob string, ms []marker) []marker {
	if !strings.Contains(blob, "MRK") {
		return nil
	}
	var out []marker
	for _, m := range ms {
		if strings.Contains(blob, m.Val) {
			out = append(out, m)
		}
	}
	return out
}

func clip(s string, n int) string {
	if len(s) > n {
		return s[:n] + "..."
	}
	return s
}

// scanSecrets applies the secrecy clause to one response.
func (w *world) scanSecrets(shape, reqDesc, blob string, local []sentinel, replay any) {
	w.mu.RLock()
	base := w.sents
	w.mu.RUnlock()
	w.count("responses_scanned_for_sentinels", 1)
	for _, s := range findSecrets(blob, base, local) {
		i := strings.Index(blob, s.Val)
		from := max(0, i-60)
		w.run.Violation("secret-disclosed:"+shape+":"+s.Kind,
			fmt.Sprintf("the response to %s contains the planted %s %q: ...%s", reqDesc, s.Kind, clip(s.Val, 24), clip(blob[from:], 200)), replay)
	}
}

// selfTest makes sure the two scanners are not vacuous.
func (w *world) selfTest() bool {
	w.mu.RLock()
	defer w.mu.RUnlock()
	if len(w.sents) == 0 || len(w.markers) == 0 {
		w.run.Inconclusive("harness self-test: no sentinels or markers registered")
		return false
	}
	for _, s := range []sentinel{w.sents[0], w.sents[len(w.sents)/2], w.sents[len(w.sents)-1]} {
		blob := responseBlob(http.Header{"X-Test": {"a" + s.Val + "b"}}, []byte("{}"))
		blob2 := responseBlob(http.Header{}, []byte(`{"password":"`+s.Val+`"}`))
		if len(findSecrets(blob, w.sents)) == 0 || len(findSecrets(blob2, w.sents)) == 0 {
			w.run.Inconclusive("harness self-test: the sentinel scanner does not find a planted sentinel")
			return false
		}
	}
	m := w.markers[len(w.markers)/2]
	if len(findMarkers(responseBlob(http.Header{}, []byte(`["`+m.Val+`"]`)), w.markers)) == 0 {
		w.run.Inconclusive("harness self-test: the marker scanner does not find a planted marker")
		return false
	}
	if len(findSecrets(responseBlob(http.Header{"Www-Authenticate": {`basic realm="/galene-api/"`}}, []byte("Haha!\n")), w.sents)) != 0 {
		w.run.Inconclusive("harness self-test: the sentinel scanner fires on a plain refusal")
		return false
	}
	return true
}

// ---- canonical JSON ----

func canon(raw []byte) (string, error) {
	dec := json.NewDecoder(bytes.NewReader(raw))
	dec.UseNumber()
	var v any
	if err := dec.Decode(&v); err != nil {
		return "", err
	}
	b, err := json.Marshal(v)
	return string(b), err
}

func canonV(v any) string {
	b, err := json.Marshal(v)
	if err != nil {
		panic(err)
	}
	s, err := canon(b)
	if err != nil {
		panic(err)
	}
	return s
}

// ---- files ----

var fakeEpoch = time.Date(2001, 1, 1, 0, 0, 0, 0, time.UTC)

// touch gives a file written by the harness a unique mtime, so that galene's
// (size, mtime) change detection can never mistake it for a file it has cached.
func (w *world) touch(path string) {
	t := fakeEpoch.Add(time.Duration(atomic.AddInt64(&w.clock, 1)) * time.Second)
	os.Chtimes(path, t, t)
}

func (w *world) writeGroup(name string, desc map[string]any) error {
	if err := w.srv.WriteGroup(name, desc); err != nil {
		return err
	}
	w.touch(w.srv.GroupFile(name))
	return nil
}

// snap is a byte-level picture of everything the API may write: every file and directory
// name under groups/ and data/ with a hash of its contents, plus the token file both raw and
// token by token.
type snap map[string]string

func hashBytes(b []byte) string {
	h := sha256.Sum256(b)
	return hex.EncodeToString(h[:12])
}

func parseTokenFile(raw []byte) (map[string]string, map[string]string) {
	toks := map[string]string{}   // name -> canonical JSON
	groups := map[string]string{} // name -> group
	dec := json.NewDecoder(bytes.NewReader(raw))
	for i := 0; ; i++ {
		var rm json.RawMessage
		if err := dec.Decode(&rm); err != nil {
			if err != io.EOF {
				toks[fmt.Sprintf("?unparsable-%d", i)] = hashBytes(raw)
			}
			break
		}
		var t struct {
			Token string `json:"token"`
			Group string `json:"group"`
		}
		json.Unmarshal(rm, &t)
		c, err := canon(rm)
		if err != nil {
			c = string(rm)
		}
		toks[t.Token] = c
		groups[t.Token] = t.Group
	}
	return toks, groups
}

func (w *world) snapshot() snap {
	s := snap{}
	walk := func(root, tag string) {
		filepath.WalkDir(root, func(p string, d fs.DirEntry, err error) error {
			if err != nil {
				return nil
			}
			rel, _ := filepath.Rel(root, p)
			if d.IsDir() {
				s[tag+"dir:"+rel] = ""
				return nil
			}
			if p == w.srv.TokenFile {
				return nil
			}
			b, err := os.ReadFile(p)
			if err != nil {
				s[tag+"file:"+rel] = "unreadable"
				return nil
			}
			s[tag+"file:"+rel] = hashBytes(b)
			return nil
		})
	}
	walk(w.srv.GroupsDir, "groups/")
	walk(w.srv.DataDir, "data/")
	raw, err := os.ReadFile(w.srv.TokenFile)
	if err != nil {
		s["tokens-raw"] = "absent"
		return s
	}
	s["tokens-raw"] = hashBytes(raw)
	toks, groups := parseTokenFile(raw)
	for n, c := range toks {
		s["token:"+groups[n]+":"+n] = c
	}
	return s
}

func snapDiff(a, b snap) []string {
	var d []string
	for k, v := range a {
		if w, ok := b[k]; !ok || w != v {
			d = append(d, k)
		}
	}
	for k := range b {
		if _, ok := a[k]; !ok {
			d = append(d, k)
		}
	}
	sort.Strings(d)
	return d
}

// baseline is the byte content of the fixture, used to put everything back after an
// authorised request (or a violation) changed something.
type baseline struct {
	groups map[string][]byte // path relative to groups/
	tokens []byte
	config []byte
	snap   snap
}

func (w *world) takeBaseline() *baseline {
	b := &baseline{groups: map[string][]byte{}}
	filepath.WalkDir(w.srv.GroupsDir, func(p string, d fs.DirEntry, err error) error {
		if err != nil || d.IsDir() {
			return nil
		}
		rel, _ := filepath.Rel(w.srv.GroupsDir, p)
		b.groups[rel], _ = os.ReadFile(p)
		return nil
	})
	b.tokens, _ = os.ReadFile(w.srv.TokenFile)
	b.config, _ = os.ReadFile(filepath.Join(w.srv.DataDir, "config.json"))
	b.snap = w.snapshot()
	return b
}

func (w *world) restore(b *baseline) bool {
	w.tokMu.Lock()
	defer w.tokMu.Unlock()
	os.RemoveAll(w.srv.GroupsDir)
	os.MkdirAll(w.srv.GroupsDir, 0o755)
	// directories that existed in the baseline (even empty ones)
	for k := range b.snap {
		if strings.HasPrefix(k, "groups/dir:") {
			os.MkdirAll(filepath.Join(w.srv.GroupsDir, strings.TrimPrefix(k, "groups/dir:")), 0o755)
		}
	}
	for rel, content := range b.groups {
		p := filepath.Join(w.srv.GroupsDir, rel)
		os.MkdirAll(filepath.Dir(p), 0o755)
		os.WriteFile(p, content, 0o644)
		w.touch(p)
	}
	os.WriteFile(w.srv.TokenFile, b.tokens, 0o600)
	w.touch(w.srv.TokenFile)
	cf := filepath.Join(w.srv.DataDir, "config.json")
	if cur, _ := os.ReadFile(cf); !bytes.Equal(cur, b.config) {
		os.WriteFile(cf, b.config, 0o644)
		w.touch(cf)
	}
	// anything else that appeared under data/ is removed
	now := w.snapshot()
	for _, k := range snapDiff(b.snap, now) {
		if strings.HasPrefix(k, "data/file:") {
			if _, ok := b.snap[k]; !ok {
				os.Remove(filepath.Join(w.srv.DataDir, strings.TrimPrefix(k, "data/file:")))
			}
		}
	}
	if d := snapDiff(b.snap, w.snapshot()); len(d) != 0 {
		w.run.Inconclusive(fmt.Sprintf("harness: could not restore the fixture (still differs in %v)", d))
		return false
	}
	return true
}

// do sends one request (logged first, so that a crash can be attributed).
func (w *world) do(method, path string, hdr map[string]string, body []byte, label string) (int, http.Header, []byte, error) {
	w.run.Note(method + " " + path + " as " + label)
	atomic.AddInt64(&w.reqs, 1)
	return w.srv.Do(method, path, hdr, body)
}
