// C15 - chat and user messages are authentic, correctly addressed, and the chat
// history replayed to joiners is ordered, bounded in size and age, and clearable.
//
// A child process runs the real server; several scenarios run concurrently in it, each
// with its own groups and websocket clients.  Every chat/usermessage carries a unique
// nonce in "value"; the sender-side log records who really sent it, what it claimed and
// what the sender was allowed to do; every chat/usermessage/chathistory received by
// any client is folded against that log at logical quiescence (see engine.go).
package main

import (
	"fmt"
	"os"
	"strings"
	"sync"
	"time"

	"verif/harness/vk"
	"verif/harness/vsrv"
)

type batchArgs struct {
	Index   uint64 `json:"index"`
	Random  int    `json:"random"`
	MinActs int    `json:"min_actions"`
	MaxActs int    `json:"max_actions"`
	Size    int    `json:"size"`
	Clear   int    `json:"clear"`
	Age     int    `json:"age"`
	Matrix  int    `json:"matrix"`
	Only    int    `json:"only"` // >= 0: run only that scenario index (replay)
}

func child() {
	run := vk.Start("C15")
	a := batchArgs{Only: -1}
	vk.ChildArgs(&a)
	srv, err := vsrv.Start(vsrv.Config{Root: os.Getenv("VERIF_CHILD_DIR"), LogToFile: true})
	if err != nil {
		run.Inconclusive("server start: " + err.Error())
		os.Exit(0)
	}
	// the special scenarios come first so that a scenario index means the same in both tiers
	var kinds []string
	for _, x := range []struct {
		n int
		k string
	}{{a.Size, "size"}, {a.Clear, "clear"}, {a.Age, "age"}, {a.Matrix, "matrix"}, {a.Random, "random"}} {
		for i := 0; i < x.n; i++ {
			kinds = append(kinds, x.k)
		}
	}
	var wg sync.WaitGroup
	lim := make(chan struct{}, 12) // scenarios running at the same time in this server
	for i, k := range kinds {
		if a.Only >= 0 && a.Only != i {
			continue
		}
		wg.Add(1)
		go func(i int, k string) {
			defer wg.Done()
			lim <- struct{}{}
			defer func() { <-lim }()
			sc := newScenario(run, srv, a.Index, i, k)
			switch k {
			case "random":
				sc.runRandom(a.MinActs + sc.r.IntN(a.MaxActs-a.MinActs+1))
			case "size":
				sc.runSize()
			case "clear":
				sc.runClear()
			case "age":
				sc.runAge()
			case "matrix":
				sc.runMatrix()
			}
			if !sc.bad {
				run.Count("scenarios_completed:"+k, 1)
			}
		}(i, k)
	}
	wg.Wait()
	os.Exit(0)
}

func main() {
	if _, ok := vk.InChild(); ok {
		child()
		return
	}
	run := vk.Start("C15")
	batches := run.Pick(24, 1200)
	run.TolerateUndecided(run.Pick(2, 12))
	args := batchArgs{Random: run.Pick(8, 24), MinActs: 30, MaxActs: 120, Size: 1, Clear: 1, Age: 1, Matrix: 1, Only: -1}
	first := uint64(0)
	replaying := false
	if rep, ok := vk.ReplayInput(); ok {
		replaying = true
		m, _ := rep["replay"].(map[string]any)
		if b, ok := m["batch"].(float64); ok {
			first, batches = uint64(b), 1
		}
		if s, ok := m["scenario"].(float64); ok && os.Getenv("VERIF_REPLAY_WHOLE_BATCH") == "" {
			args.Only = int(s)
		}
	}
	var wg sync.WaitGroup
	sem := make(chan struct{}, 10)
	for b := first; b < first+uint64(batches); b++ {
		wg.Add(1)
		sem <- struct{}{}
		go func(b uint64) {
			defer wg.Done()
			defer func() { <-sem }()
			a := args
			a.Index = b
			res := run.RunChild("batch", a, 10*time.Minute)
			switch {
			case strings.HasPrefix(res.Crash, "harness-crash:"):
				run.Inconclusive(fmt.Sprintf("batch %d: the harness itself crashed: %s\n%s", b, res.Crash, res.CrashText))
			case res.Crash != "":
				run.Violation("server-crashed:"+res.Crash, "the server process died while clients were chatting: "+res.Crash,
					map[string]any{"batch": b, "crash": res.CrashText, "last_commands": res.Notes})
			case res.TimedOut:
				run.Inconclusive(fmt.Sprintf("batch %d: watchdog fired", b))
			case res.ExitCode != 0:
				run.Inconclusive(fmt.Sprintf("batch %d: child exited with %d", b, res.ExitCode))
			default:
				run.Count("batches_completed", 1)
			}
		}(b)
	}
	wg.Wait()
	if !replaying {
		n := int64(batches)
		run.FloorCounter("deliveries_verified", 400*n)
		run.FloorCounter("echoes_verified", 40*n)
		run.FloorCounter("noecho_suppressions_verified", 15*n)
		run.FloorCounter("addressed_deliveries_verified", 10*n)
		run.FloorCounter("spoofer_connections_closed", 40*n)
		run.FloorCounter("spoofed_nobody_verified", 40*n)
		run.FloorCounter("bystanders_still_connected", 20*n)
		run.FloorCounter("unpermitted_nobody_verified", 2*n)
		run.FloorCounter("privileged_true_verified", 50*n)
		run.FloorCounter("privileged_false_verified", 50*n)
		run.FloorCounter("history_replays_compared", 30*n)
		run.FloorCounter("history_entries_required_present", 300*n)
		run.FloorCounter("history_replays_with_50_entries", n)
		run.FloorCounter("history_replays_exactly_last_50", n)
		run.FloorCounter("cleared_entries_verified_absent:all", n)
		run.FloorCounter("cleared_entries_verified_absent:user", n)
		run.FloorCounter("cleared_entries_verified_absent:id", n)
		run.FloorCounter("clearchat_survivors_verified_present:user", n)
		run.FloorCounter("clearchat_survivors_verified_present:id", n)
		run.FloorCounter("ineffective_clearchat_survivors_verified_present", n)
		run.FloorCounter("age_clause_old_entries_verified_absent", n)
		run.FloorCounter("age_clause_young_entries_verified_present", n)
		run.FloorCounter("bad_dest_nobody_verified:other-group", n)
		run.FloorCounter("bad_dest_nobody_verified:unknown", n)
		run.FloorCounter("caption_without_caption_permission_rejected", 1)
		run.FloorCounter("caption_with_caption_permission_delivered", 1)
	}
	run.Assume("quiescence is logical: the scenario's single driver is idle and three consecutive ping/pong barrier rounds over its live clients delivered nothing; a 40 s watchdog yields inconclusive")
	run.Assume("the sender's operator/message permission is what its own latest 'joined' message said; permission-dependent clauses are only asserted when no 'joined change' arrived and no moderation action targeted the sender between the surrounding quiescence points")
	run.Assume("order of handling is only assumed along one websocket, across a quiescence point, or after a live copy was observed; the age clause uses harness-measured wall time with 1.5 s margins on either side of max-history-age = 2 s")
	run.Assume("a clearchat by userId is asserted to remove entries recorded with that source; entries the same client sent without a source field may or may not go")
	run.Finish("exploration", "per batch a fresh server process running concurrently: random scenarios (2-3 groups, 3-7 clients of roles op/present/message/observe/caption, 30-120 actions: chat/usermessage x broadcast/addressed/bad dest x claimed source {absent,empty,own,other,random} x claimed username {absent,own,other,empty,random} x noecho x id x claimed privileged, join/leave/disconnect, op/unop/shutup/unshutup, clearchat all/user/id/malformed by ops and non-ops, mid-traffic joiners; quiescence point every 10-20 actions followed by probe joiners), a history-size scenario (60-120 broadcasts then a joiner), a clearchat script, a history-age script (max-history-age 2 s) and the full spoofing matrix; evaluations = messages sent + joins judged; distinct_nontrivial = distinct (type, broadcast|addressed|bad-dest, source class, username class, sender role/op/message, noecho, expected outcome) tuples plus history replay shapes")
}
