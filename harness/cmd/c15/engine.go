package main

// The scenario engine: connections, membership intervals, the sender-side log, the
// receiver-side fold and the oracle evaluated at logical quiescence.
//
// Everything of one scenario is driven by ONE goroutine, so the harness-side order of
// actions is total (vclient.Tick()); the concurrency under test is inside the server
// (one goroutine per client, sends are never awaited).  What the harness may conclude
// about the order in which the server handled two things is the partial order "hb":
//   - same websocket: in the order sent;
//   - a quiescence point lies between them (different epochs, first one "fenced": its
//     connection answered the pings of that quiescence, or was closed by the server);
//   - a live copy of the first was received (logical stamp) before the second was sent.

import (
	"fmt"
	"math/rand/v2"
	"sort"
	"strconv"
	"strings"
	"time"

	"verif/harness/vclient"
	"verif/harness/vk"
	"verif/harness/vsrv"
)

const maxHistory = 50 // from the property text

const (
	stNo = iota
	stMaybe
	stYes
)

const (
	accNo = iota
	accMaybe
	accYes
)

// mship is one membership interval of a connection, in logical ticks.
type mship struct {
	group             string
	joinSent, joinRet int64 // joinRet == 0: never acknowledged
	endSent, endRet   int64 // 0: still a member
}

type conn struct {
	c      *vclient.Client
	id     string
	user   string
	pw     string
	role   string
	slot   int  // -1: probe or scripted
	strict bool // scripted bystander: must stay connected

	group        string // harness view: group currently joined
	perms        []string
	changeEpoch  int // number of 'joined' kind=change received
	lastModEpoch int // epoch in which a moderation action last targeted this connection
	evIdx        int
	ms           []*mship
	cur          *mship
	pendingJoin  *joinRec
	histTarget   *joinRec
	doomed       bool // sent a message with a forged source/username
	maybeDoomed  bool // sent username "" (either outcome allowed)
	doomBy       *sendRec
	gone         bool
	abruptTick   int64 // harness closed the socket at that tick
	unexpected   bool  // the server closed it although it did nothing wrong
	lastAlive    int64
	errSeen      map[string]int
}

func has(l []string, p string) bool {
	for _, x := range l {
		if x == p {
			return true
		}
	}
	return false
}

// status of the connection w.r.t. group g over the whole interval [T, Q].
func (cn *conn) status(g string, T, Q int64) int {
	if g == "" {
		return stNo
	}
	st := stNo
	for _, m := range cn.ms {
		if m.group != g {
			continue
		}
		if m.joinRet > 0 && m.joinRet < T && (m.endSent == 0 || m.endSent > Q) {
			return stYes
		}
		if m.joinSent < Q && (m.endRet == 0 || m.endRet > T) {
			st = stMaybe
		}
	}
	return st
}

// memberAt: acknowledged member of g when the message was sent.
func (cn *conn) memberAt(g string, T int64) bool {
	for _, m := range cn.ms {
		if m.group == g && m.joinRet > 0 && m.joinRet < T && (m.endSent == 0 || m.endSent > T) {
			return true
		}
	}
	return false
}

type privObs struct {
	by      *conn
	priv    bool
	checked bool
}

// sendRec is the sender-side log entry of one chat/usermessage.
type sendRec struct {
	Nonce      string   `json:"nonce"`
	Conn       string   `json:"sender_id"`
	SenderUser string   `json:"sender_username"`
	Role       string   `json:"sender_role"`
	Perms      []string `json:"sender_permissions"`
	Op         bool     `json:"sender_is_op"`
	Group      string   `json:"sender_group"`
	Type       string   `json:"type"`
	Kind       string   `json:"kind,omitempty"`
	Source     *string  `json:"claimed_source"`
	User       *string  `json:"claimed_username"`
	Dest       string   `json:"dest,omitempty"`
	DestClass  string   `json:"dest_class"`
	NoEcho     bool     `json:"noecho,omitempty"`
	ID         string   `json:"id,omitempty"`
	Priv       *bool    `json:"claimed_privileged,omitempty"`
	Tick       int64    `json:"tick"`
	Epoch      int      `json:"epoch"`
	SrcClass   string   `json:"source_class"`
	UserClass  string   `json:"username_class"`
	Expect     string   `json:"expected,omitempty"`

	conn        *conn
	changeEpoch int
	hasPerm     bool
	spoofSrc    bool
	spoofUser   bool
	emptyUser   bool
	eligible    bool // broadcast chat: belongs in the history if accepted
	wallBefore  time.Time
	wallSettled time.Time

	live      map[*conn]int
	privs     []*privObs
	minLive   int64
	liveID    string
	idClash   bool
	judged    bool
	dirty     bool
	Q         int64
	stable    bool
	fenced    bool
	acc       int
	reported  map[string]bool
	inHistory int
}

func (s *sendRec) accepted() int {
	if s.acc == accMaybe && len(s.live) > 0 {
		return accYes
	}
	return s.acc
}

func (s *sendRec) knownID() (string, bool) {
	if s.ID != "" {
		return s.ID, true
	}
	if s.liveID != "" && !s.idClash {
		return s.liveID, true
	}
	return "", false
}

type clearRec struct {
	conn        *conn
	group       string
	tick        int64
	epoch       int
	variant     string // all, user, id, bad
	userID, id  string
	tag         string
	op          bool
	changeEpoch int
	desc        string

	judged      bool
	fenced      bool
	sure        bool
	possible    bool
	sureNoop    bool // issued by a stable non-operator (or malformed)
	effectStamp int64
}

type histEntry struct {
	stamp int64
	m     vclient.Msg
}

type joinRec struct {
	conn                        *conn
	group                       string
	sendTick, retTick, doneTick int64
	epoch                       int
	wallSent, wallDone          time.Time
	hist                        []histEntry
	judged                      bool
}

type scenario struct {
	run   *vk.Run
	srv   *vsrv.Server
	batch uint64
	idx   int
	kind  string
	r     *rand.Rand

	groups   []string
	ageLimit map[string]time.Duration
	conns    []*conn
	byID     map[string]*conn
	sends    map[string]*sendRec
	order    []*sendRec
	pending  []*sendRec
	chats    map[string][]*sendRec // eligible sends per group
	clears   []*clearRec
	byTag    map[string]*clearRec
	joins    []*joinRec
	epoch    int
	curQ     int64
	curQWall time.Time
	ctr      int
	connCtr  int
	trail    []string
	bad      bool
	sampled  int
	noAwait  bool
}

func newScenario(run *vk.Run, srv *vsrv.Server, batch uint64, idx int, kind string) *scenario {
	return &scenario{run: run, srv: srv, batch: batch, idx: idx, kind: kind,
		r:        run.Rand(15, batch, uint64(idx)),
		ageLimit: map[string]time.Duration{}, byID: map[string]*conn{}, sends: map[string]*sendRec{},
		chats: map[string][]*sendRec{}, byTag: map[string]*clearRec{}}
}

var roster = []struct{ name, role string }{
	{"olga", "op"}, {"oscar", "op"}, {"pia", "present"}, {"paul", "present"}, {"mike", "message"},
	{"mona", "message"}, {"otto", "observe"}, {"cara", "caption"}, {"probe", "observe"},
}

func roleOf(user string) string {
	for _, u := range roster {
		if u.name == user {
			return u.role
		}
	}
	return "?"
}

// makeGroups writes n group files; ages[i] > 0 sets max-history-age (seconds).
func (sc *scenario) makeGroups(n int, ages ...int) {
	us := map[string]any{}
	for _, u := range roster {
		us[u.name] = map[string]any{"password": "pw-" + u.name, "permissions": u.role}
	}
	for i := 0; i < n; i++ {
		g := fmt.Sprintf("c15b%ds%dg%d", sc.batch, sc.idx, i)
		d := map[string]any{"users": us}
		if i < len(ages) && ages[i] > 0 {
			d["max-history-age"] = ages[i]
			sc.ageLimit[g] = time.Duration(ages[i]) * time.Second
		}
		if err := sc.srv.WriteGroup(g, d); err != nil {
			sc.run.Inconclusive("cannot write group file: " + err.Error())
			sc.bad = true
		}
		sc.groups = append(sc.groups, g)
	}
}

func (sc *scenario) note(s string) {
	sc.trail = append(sc.trail, s)
	if len(sc.trail) > 600 {
		sc.trail = append([]string(nil), sc.trail[300:]...)
	}
	sc.run.Note(fmt.Sprintf("s%d %s", sc.idx, s))
}

func (sc *scenario) tail(n int) []string {
	return append([]string(nil), sc.trail[max(0, len(sc.trail)-n):]...)
}

func (sc *scenario) replay(extra map[string]any) map[string]any {
	m := map[string]any{"batch": sc.batch, "scenario": sc.idx, "scenario_kind": sc.kind, "trail": sc.tail(70)}
	for k, v := range extra {
		m[k] = v
	}
	return m
}

func (sc *scenario) receivers(s *sendRec) map[string]int {
	out := map[string]int{}
	for r, n := range s.live {
		out[r.id] = n
	}
	return out
}

// violSend reports once per (send, key).
func (sc *scenario) violSend(s *sendRec, key, what string) {
	if s.reported == nil {
		s.reported = map[string]bool{}
	}
	if s.reported[key] {
		return
	}
	s.reported[key] = true
	sc.run.Violation(key, what, sc.replay(map[string]any{"message": s, "live_copies_received_by": sc.receivers(s)}))
}

func (sc *scenario) members(g string) []string {
	var out []string
	for _, cn := range sc.conns {
		if cn.group == g && !cn.gone {
			out = append(out, cn.id)
		}
	}
	return out
}

// ---------------------------------------------------------------- connections

func (sc *scenario) connect(user string, slot int) *conn {
	sc.connCtr++
	id := fmt.Sprintf("b%ds%dc%d", sc.batch, sc.idx, sc.connCtr)
	c, retries, err := dial(sc.srv, id)
	if err != nil {
		sc.run.Undecided("dial failed: " + err.Error())
		sc.bad = true
		return nil
	}
	if retries > 0 {
		sc.run.Count("dial_retries", int64(retries))
	}
	cn := &conn{c: c, id: id, user: user, pw: "pw-" + user, role: roleOf(user), slot: slot, lastModEpoch: -1,
		lastAlive: vclient.Tick(), errSeen: map[string]int{}}
	sc.conns = append(sc.conns, cn)
	sc.byID[id] = cn
	return cn
}

// lost handles a connection found closed although the harness did nothing to deserve it.
func (sc *scenario) lost(cn *conn) {
	if cn.gone {
		return
	}
	_, err := cn.c.Closed()
	now := vclient.Tick()
	for _, m := range cn.ms {
		if m.endRet == 0 {
			if m.endSent == 0 {
				m.endSent = max(cn.lastAlive, m.joinSent)
			}
			m.endRet = now
		}
	}
	cn.gone, cn.unexpected, cn.group, cn.cur = true, true, "", nil
	sc.run.Count("unexpected_closures", 1)
	switch es := fmt.Sprint(err); {
	case strings.Contains(es, "1011"):
		sc.run.Count("unexpected_closures:1011-internal-server-error", 1)
	case strings.Contains(es, "1006"):
		sc.run.Count("unexpected_closures:1006-dropped", 1)
	default:
		sc.run.Count("unexpected_closures:other", 1)
	}
	sc.note(fmt.Sprintf("%s was closed by the server unexpectedly: %v", cn.id, err))
	if cn.strict && err != nil && strings.Contains(err.Error(), "1002") {
		sc.run.Violation("bystander-disconnected", fmt.Sprintf("connection %s (%s), which sent nothing forged, was closed with a protocol error while other connections were being rejected for forgery: %v", cn.id, cn.user, err),
			sc.replay(nil))
	}
}

func (sc *scenario) join(cn *conn, g string) bool {
	sc.fold(cn)
	j := &joinRec{conn: cn, group: g, epoch: sc.epoch}
	ms := &mship{group: g}
	cn.pendingJoin = j
	sc.note(fmt.Sprintf("%s joins %s as %s (%s)", cn.id, g, cn.user, cn.role))
	j.wallSent = time.Now()
	j.sendTick = vclient.Tick()
	ms.joinSent = j.sendTick
	cn.ms = append(cn.ms, ms)
	reply, ok := cn.c.Join(g, cn.user, cn.pw)
	if !ok {
		if cn.c.WaitClosed(3 * time.Second) {
			sc.lost(cn)
			return false
		}
		sc.run.Undecided("no reply to join within the watchdog")
		sc.bad = true
		return false
	}
	if reply.Str("kind") != "join" {
		sc.run.Undecided(fmt.Sprintf("join of %s to %s refused: %v", cn.user, g, reply["value"]))
		sc.bad = true
		cn.ms = cn.ms[:len(cn.ms)-1]
		return false
	}
	j.retTick = vclient.Tick()
	ms.joinRet = j.retTick
	// the history is written right after 'joined' by the same server goroutine: once a
	// ping has been answered the whole replay has been received
	if !cn.c.Ping(20 * time.Second) {
		if closed, _ := cn.c.Closed(); closed {
			sc.lost(cn)
			return false
		}
		sc.run.Undecided("no pong after a join within the watchdog")
		sc.bad = true
		return false
	}
	j.doneTick = vclient.Tick()
	j.wallDone = time.Now()
	cn.cur, cn.group = ms, g
	sc.fold(cn)
	sc.joins = append(sc.joins, j)
	sc.run.Count("joins", 1)
	return true
}

func (sc *scenario) leave(cn *conn) {
	if cn.cur == nil {
		return
	}
	sc.note(fmt.Sprintf("%s leaves %s", cn.id, cn.group))
	cn.cur.endSent = vclient.Tick()
	ok := cn.c.Leave(cn.group)
	if !ok {
		if closed, _ := cn.c.Closed(); closed {
			sc.lost(cn)
			return
		}
		sc.run.Undecided("no reply to leave within the watchdog")
		sc.bad = true
		return
	}
	cn.cur.endRet = vclient.Tick()
	cn.cur, cn.group = nil, ""
	sc.run.Count("leaves", 1)
}

func (sc *scenario) closeAbrupt(cn *conn) {
	if cn.gone {
		return
	}
	sc.note(fmt.Sprintf("%s disconnects abruptly", cn.id))
	t := vclient.Tick()
	cn.abruptTick = t
	if cn.cur != nil {
		cn.cur.endSent = t
	}
	cn.c.Close()
	if cn.cur != nil {
		cn.cur.endRet = vclient.Tick()
	}
	cn.cur, cn.group, cn.gone = nil, "", true
}

// ---------------------------------------------------------------- sending

type sendOpts struct {
	typ, kind    string
	srcClass     string // absent, empty, own, other, random
	userClass    string // absent, own, other, empty, random
	otherID      string
	otherUser    string
	dest         string
	destClass    string // broadcast, member, self, other-group, unknown, departed
	noecho       bool
	id           string
	priv         *bool
	awaitDeliver bool
}

func sp(s string) *string { return &s }

func (sc *scenario) send(cn *conn, o sendOpts) *sendRec {
	sc.fold(cn)
	sc.ctr++
	s := &sendRec{
		Nonce: fmt.Sprintf("n-%d-%d-%d", sc.batch, sc.idx, sc.ctr), Conn: cn.id, SenderUser: cn.user, Role: cn.role,
		Perms: append([]string(nil), cn.perms...), Op: has(cn.perms, "op"), Group: cn.group,
		Type: o.typ, Kind: o.kind, Dest: o.dest, DestClass: o.destClass, NoEcho: o.noecho, ID: o.id, Priv: o.priv,
		Epoch: sc.epoch, SrcClass: o.srcClass, UserClass: o.userClass,
		conn: cn, changeEpoch: cn.changeEpoch, live: map[*conn]int{},
	}
	m := vclient.Msg{"type": o.typ, "value": s.Nonce}
	if o.kind != "" {
		m["kind"] = o.kind
	}
	switch o.srcClass {
	case "own":
		s.Source = sp(cn.id)
	case "empty":
		m["source"] = "" // the same as absent on the wire
	case "other":
		s.Source = sp(o.otherID)
	case "random":
		s.Source = sp(fmt.Sprintf("ghost-%d", sc.r.IntN(1000000)))
	}
	if s.Source != nil {
		m["source"] = *s.Source
		s.spoofSrc = *s.Source != cn.id
	}
	switch o.userClass {
	case "own":
		s.User = sp(cn.user)
	case "other":
		s.User = sp(o.otherUser)
	case "empty":
		s.User = sp("")
	case "random":
		s.User = sp(fmt.Sprintf("nobody%d", sc.r.IntN(1000)))
	}
	if s.User != nil {
		m["username"] = *s.User
		if *s.User == "" {
			s.emptyUser = true
		} else {
			s.spoofUser = *s.User != cn.user
		}
	}
	if o.dest != "" {
		m["dest"] = o.dest
	}
	if o.noecho {
		m["noecho"] = true
	}
	if o.id != "" {
		m["id"] = o.id
	}
	if o.priv != nil {
		m["privileged"] = *o.priv
	}
	need := "message"
	if o.typ == "chat" && o.kind == "caption" {
		need = "caption"
	}
	s.hasPerm = has(cn.perms, need)
	s.eligible = o.typ == "chat" && o.dest == ""
	sc.sends[s.Nonce] = s
	sc.order = append(sc.order, s)
	sc.pending = append(sc.pending, s)
	if s.eligible && s.Group != "" {
		sc.chats[s.Group] = append(sc.chats[s.Group], s)
	}
	sc.note(fmt.Sprintf("%s (%s, perms %v, in %q) sends %v", cn.id, cn.user, cn.perms, cn.group, m))
	s.wallBefore = time.Now()
	s.Tick = vclient.Tick()
	from := cn.c.EventCount()
	cn.c.Send(m)
	sc.run.Eval(1)
	if s.spoofSrc || s.spoofUser {
		cn.doomed, cn.doomBy = true, s
		if cn.cur != nil && cn.cur.endSent == 0 {
			cn.cur.endSent = s.Tick
		}
	} else if s.emptyUser && cn.user != "" {
		cn.maybeDoomed, cn.doomBy = true, s
	}
	if o.awaitDeliver && !o.noecho && o.dest == "" && !sc.noAwait {
		// a direct causal fence: the sender's own copy is written after the history was updated
		if _, ok := cn.c.WaitForFrom(from, func(m vclient.Msg) bool { return m.Str("value") == s.Nonce }, 10*time.Second); ok {
			s.wallSettled = time.Now()
		} else {
			sc.noAwait = true // the oracle will say why; do not spend 10 s per message
		}
	}
	if sc.sampled < 3 && sc.idx == 0 {
		sc.sampled++
		sc.run.Sample(map[string]any{"batch": sc.batch, "scenario": sc.idx, "sent": m, "by": cn.id, "true_username": cn.user, "permissions": cn.perms})
	}
	return s
}

func (sc *scenario) clear(cn *conn, variant, userID, id string, tagged bool) *clearRec {
	sc.fold(cn)
	sc.ctr++
	k := &clearRec{conn: cn, group: cn.group, epoch: sc.epoch, variant: variant, userID: userID, id: id,
		op: has(cn.perms, "op"), changeEpoch: cn.changeEpoch}
	m := vclient.Msg{"type": "groupaction", "kind": "clearchat", "source": cn.id}
	v := map[string]any{}
	if tagged {
		k.tag = fmt.Sprintf("t-%d-%d-%d", sc.batch, sc.idx, sc.ctr)
		v["tag"] = k.tag
		sc.byTag[k.tag] = k
	}
	switch variant {
	case "user":
		v["userId"] = userID
	case "id":
		v["userId"] = userID
		v["id"] = id
	case "bad":
		if sc.r.IntN(2) == 0 {
			v["id"] = id // an id without a user is refused
		} else {
			m["value"] = "everything"
			v = nil
		}
	}
	if len(v) > 0 {
		m["value"] = v
	}
	k.desc = fmt.Sprintf("%s (%s, perms %v, in %q) clearchat %s %v", cn.id, cn.user, cn.perms, cn.group, variant, m["value"])
	sc.note(k.desc)
	k.tick = vclient.Tick()
	cn.c.Send(m)
	sc.clears = append(sc.clears, k)
	sc.run.Count("clearchat_sent:"+variant, 1)
	return k
}

func (sc *scenario) moderate(cn *conn, kind string, target *conn) {
	sc.note(fmt.Sprintf("%s (%s, perms %v) %s %s", cn.id, cn.user, cn.perms, kind, target.id))
	target.lastModEpoch = sc.epoch
	cn.c.Send(vclient.Msg{"type": "useraction", "kind": kind, "source": cn.id, "username": cn.user, "dest": target.id})
	sc.run.Count("moderation_actions", 1)
}

// ---------------------------------------------------------------- receiving

func parseNonce(v string) (batch uint64, scen int, ok bool) {
	if !strings.HasPrefix(v, "n-") {
		return
	}
	f := strings.Split(v, "-")
	if len(f) != 4 {
		return
	}
	b, e1 := strconv.ParseUint(f[1], 10, 64)
	s, e2 := strconv.Atoi(f[2])
	if e1 != nil || e2 != nil {
		return
	}
	return b, s, true
}

func (sc *scenario) fold(cn *conn) {
	evs := cn.c.EventsFrom(cn.evIdx)
	cn.evIdx += len(evs)
	for _, e := range evs {
		m := e.M
		switch m.Str("type") {
		case "joined":
			switch m.Str("kind") {
			case "join":
				cn.perms = m.StrList("permissions")
				cn.histTarget = cn.pendingJoin
			case "change":
				cn.perms = m.StrList("permissions")
				cn.changeEpoch++
			case "leave":
				cn.perms = nil
				cn.histTarget = nil
			}
		case "chathistory":
			if cn.histTarget == nil {
				sc.run.Inconclusive("chathistory received outside a join")
				continue
			}
			cn.histTarget.hist = append(cn.histTarget.hist, histEntry{e.Stamp, m})
		case "chat", "usermessage":
			sc.recv(cn, e)
		}
	}
}

func (sc *scenario) recv(cn *conn, e vclient.Event) {
	m := e.M
	v, _ := m["value"].(string)
	b, scen, ok := parseNonce(v)
	if !ok {
		if m.Str("type") == "usermessage" {
			switch m.Str("kind") {
			case "error":
				cn.errSeen[v]++
				sc.run.Count("server_error:"+v, 1)
			case "clearchat":
				if vm, ok := m["value"].(map[string]any); ok {
					if t, _ := vm["tag"].(string); t != "" {
						if k := sc.byTag[t]; k != nil && (k.effectStamp == 0 || e.Stamp < k.effectStamp) {
							k.effectStamp = e.Stamp
						}
					}
				}
			}
		}
		return
	}
	if b != sc.batch || scen != sc.idx {
		sc.run.Violation("cross-group-delivery", fmt.Sprintf("%s (scenario %d, group %q) received %s %q, which was sent in a group of another scenario", cn.id, sc.idx, cn.group, m.Str("type"), v),
			sc.replay(map[string]any{"received": m, "receiver": cn.id}))
		return
	}
	s := sc.sends[v]
	if s == nil {
		sc.run.Inconclusive("received a nonce that was never sent: " + v)
		return
	}
	s.live[cn]++
	s.dirty = true
	if s.minLive == 0 || e.Stamp < s.minLive {
		s.minLive = e.Stamp
	}
	src := m.Str("source")
	if s.spoofSrc {
		sc.violSend(s, "spoofed-source-delivered", fmt.Sprintf("%s received a %s that %s sent with the forged source %q (delivered source %q)", cn.id, s.Type, s.Conn, *s.Source, src))
	} else if src != "" && src != s.Conn {
		sc.violSend(s, "wrong-source", fmt.Sprintf("%s received a %s from %s carrying source %q", cn.id, s.Type, s.Conn, src))
	}
	if u, ok := m["username"].(string); ok || s.spoofUser {
		if s.spoofUser {
			sc.violSend(s, "spoofed-username-delivered", fmt.Sprintf("%s received a %s that %s (really %q) sent with the forged username %q (delivered username %q)", cn.id, s.Type, s.Conn, s.SenderUser, *s.User, u))
		} else if u != "" && u != s.SenderUser {
			sc.violSend(s, "wrong-username", fmt.Sprintf("%s received a %s from %s (really %q) carrying username %q", cn.id, s.Type, s.Conn, s.SenderUser, u))
		}
	}
	if id := m.Str("id"); id != "" {
		if s.liveID == "" {
			s.liveID = id
		} else if s.liveID != id {
			s.idClash = true
		}
	}
	p, _ := m["privileged"].(bool)
	s.privs = append(s.privs, &privObs{by: cn, priv: p})
}

// ---------------------------------------------------------------- the oracle

func (sc *scenario) live() []*vclient.Client {
	var cs []*vclient.Client
	for _, cn := range sc.conns {
		if !cn.gone {
			if closed, _ := cn.c.Closed(); !closed {
				cs = append(cs, cn.c)
			}
		}
	}
	return cs
}

// checkpoint establishes logical quiescence and judges everything sent since the last one.
func (sc *scenario) checkpoint() bool {
	if sc.bad {
		return false
	}
	if !vclient.Quiesce(sc.live(), 3, 20*time.Millisecond, 40*time.Second) {
		sc.run.Undecided("quiescence watchdog fired")
		sc.bad = true
		return false
	}
	sc.curQ = vclient.Tick()
	sc.curQWall = time.Now()
	for _, cn := range sc.conns {
		if cn.gone {
			continue
		}
		closed, cerr := cn.c.Closed()
		switch {
		case cn.doomed:
			served := false
			if !closed {
				// no ping is ever outstanding when the driver sends: a pong received after the
				// forged message answers a ping the server read after it
				evs := cn.c.Events()
				for i := len(evs) - 1; i >= 0 && evs[i].Stamp > cn.doomBy.Tick; i-- {
					if evs[i].M.Str("type") == "pong" {
						served = true
						break
					}
				}
			}
			if !closed && !served {
				// absorb the window between the server's close and our reader noticing it
				cn.c.WaitForFrom(cn.c.EventCount(), func(vclient.Msg) bool { return false }, 2*time.Second)
				closed, cerr = cn.c.Closed()
			}
			if !closed {
				if served || cn.c.Ping(10*time.Second) {
					sc.violSend(cn.doomBy, "spoofer-not-disconnected", fmt.Sprintf("%s (really %q) sent a %s claiming source %v / username %v and its connection is still served afterwards",
						cn.id, cn.user, cn.doomBy.Type, deref(cn.doomBy.Source), deref(cn.doomBy.User)))
				} else {
					sc.run.Undecided("a connection that forged its identity neither answers nor closes")
				}
				cn.c.Close()
			} else {
				sc.run.Count("spoofer_connections_closed", 1)
				if ce := fmt.Sprint(cerr); strings.Contains(ce, "1002") {
					sc.run.Count("spoofer_closed_with_protocol_error", 1)
				}
			}
			for _, m := range cn.ms {
				if m.endRet == 0 {
					m.endRet = sc.curQ
				}
			}
			cn.gone, cn.cur, cn.group = true, nil, ""
		case cn.maybeDoomed:
			cn.maybeDoomed = false
			if closed {
				for _, m := range cn.ms {
					if m.endRet == 0 {
						if m.endSent == 0 {
							m.endSent = cn.doomBy.Tick
						}
						m.endRet = sc.curQ
					}
				}
				cn.gone, cn.cur, cn.group = true, nil, ""
				sc.run.Count("empty_username_closed", 1)
			} else {
				sc.run.Count("empty_username_tolerated", 1)
				cn.lastAlive = sc.curQ
			}
		case closed:
			sc.lost(cn)
		default:
			cn.lastAlive = sc.curQ
			if cn.strict {
				sc.run.Count("bystanders_still_connected", 1)
			}
		}
	}
	for _, cn := range sc.conns {
		sc.fold(cn)
	}
	for _, k := range sc.clears {
		if !k.judged {
			sc.judgeClear(k)
		}
	}
	pend := sc.pending
	sc.pending = nil
	for _, s := range pend {
		sc.judgeSend(s)
	}
	for _, s := range sc.order {
		if s.judged && s.dirty {
			sc.judgeSend(s)
		}
	}
	sc.judgeJoins()
	sc.epoch++
	sc.run.Count("quiescence_points", 1)
	return !sc.bad
}

func deref(p *string) string {
	if p == nil {
		return "<absent>"
	}
	return fmt.Sprintf("%q", *p)
}

func (sc *scenario) judgeJoins() {
	for _, j := range sc.joins {
		if !j.judged {
			sc.judgeJoin(j)
		}
	}
}

func (sc *scenario) judgeClear(k *clearRec) {
	k.judged = true
	cn := k.conn
	early := cn.unexpected || (cn.abruptTick > 0 && cn.abruptTick < sc.curQ)
	k.fenced = !early
	stable := !cn.unexpected && cn.changeEpoch == k.changeEpoch && cn.lastModEpoch != k.epoch
	switch {
	case k.variant == "bad" || k.group == "":
		k.sureNoop = true
	case stable && !k.op:
		k.sureNoop = true
	case stable && k.op && k.fenced:
		k.sure, k.possible = true, true
	default:
		k.possible = true
	}
	if k.effectStamp > 0 && !k.sureNoop {
		k.sure, k.possible = true, true // its announcement was seen: it did happen
	}
	if k.effectStamp > 0 && k.sureNoop {
		sc.run.Violation("clearchat-by-non-operator-announced", "a clearchat that must have no effect ("+k.desc+") was announced to the group", sc.replay(nil))
	}
}

func (sc *scenario) judgeSend(s *sendRec) {
	first := !s.judged
	s.dirty = false
	cn := s.conn
	if first {
		s.judged = true
		s.Q = sc.curQ
		early := cn.unexpected || (cn.abruptTick > 0 && cn.abruptTick < s.Q)
		s.fenced = !early
		s.stable = !cn.unexpected && cn.changeEpoch == s.changeEpoch && cn.lastModEpoch != s.Epoch
		if s.fenced && s.wallSettled.IsZero() {
			s.wallSettled = sc.curQWall
		}
		switch {
		case s.spoofSrc || s.spoofUser:
			s.Expect, s.acc = "reject-and-disconnect", accNo
		case s.emptyUser && s.SenderUser != "":
			s.Expect, s.acc = "either", accMaybe
		case s.Group == "":
			s.Expect, s.acc = "nobody:not-joined", accNo
		case !s.stable:
			s.Expect, s.acc = "unknown:permissions-in-flux", accMaybe
		case !s.hasPerm:
			s.Expect, s.acc = "nobody:no-permission", accNo
		case !s.fenced:
			s.Expect, s.acc = "deliver:sender-vanished", accMaybe
		default:
			s.Expect, s.acc = "deliver", accYes
		}
	}
	total := 0
	for r, n := range s.live {
		total += n
		if s.spoofSrc || s.spoofUser {
			continue // reported when received
		}
		st := r.status(s.Group, s.Tick, s.Q)
		if st == stNo {
			sc.violSend(s, "cross-group-delivery", fmt.Sprintf("%s (memberships %s) received the %s %s sent %s in group %q, of which it was not a member at any time between the send and quiescence",
				r.id, r.msString(), s.Type, s.Nonce, s.Conn, s.Group))
			continue
		}
		if s.Expect == "nobody:no-permission" {
			sc.violSend(s, "delivered-without-permission", fmt.Sprintf("%s received the %s (kind %q) that %s sent while holding only %v", r.id, s.Type, s.Kind, s.Conn, s.Perms))
		}
		if s.Dest != "" && r.id != s.Dest {
			sc.violSend(s, "addressed-leaked", fmt.Sprintf("%s received the %s that %s addressed to %s", r.id, s.Type, s.Conn, s.Dest))
		}
		if s.Dest == "" && r == cn && s.NoEcho {
			sc.violSend(s, "noecho-echoed", fmt.Sprintf("%s asked for no echo of its broadcast %s and received %d copies", cn.id, s.Type, n))
		}
		if n > 1 {
			if s.Dest == "" {
				sc.violSend(s, "broadcast-duplicate", fmt.Sprintf("%s received %d copies of the broadcast %s %s", r.id, n, s.Type, s.Nonce))
			} else {
				sc.violSend(s, "addressed-duplicate", fmt.Sprintf("%s received %d copies of the addressed %s %s", r.id, n, s.Type, s.Nonce))
			}
		}
	}
	outcome := s.Expect
	if s.Expect == "deliver" {
		if s.Dest == "" {
			for _, r := range sc.conns {
				if r == cn || r.status(s.Group, s.Tick, s.Q) != stYes {
					continue
				}
				if s.live[r] == 0 {
					sc.violSend(s, "broadcast-missed-member", fmt.Sprintf("%s was a member of %q from before the send until quiescence and never received the broadcast %s of %s", r.id, s.Group, s.Type, s.Conn))
				} else if first {
					sc.run.Count("deliveries_verified", 1)
				}
			}
			if cn.memberAt(s.Group, s.Tick) {
				switch {
				case s.NoEcho && s.live[cn] == 0 && first:
					sc.run.Count("noecho_suppressions_verified", 1)
				case !s.NoEcho && s.live[cn] == 0:
					sc.violSend(s, "echo-missing", fmt.Sprintf("%s did not ask for noecho and never received its own broadcast %s", cn.id, s.Type))
				case !s.NoEcho && first:
					sc.run.Count("echoes_verified", 1)
				}
			}
		} else {
			d := sc.byID[s.Dest]
			dst := stNo
			if d != nil {
				dst = d.status(s.Group, s.Tick, s.Q)
			}
			switch dst {
			case stYes:
				if s.live[d] == 0 {
					sc.violSend(s, "addressed-not-delivered", fmt.Sprintf("%s, a member of %q, never received the %s that %s addressed to it", d.id, s.Group, s.Type, s.Conn))
				} else if first {
					sc.run.Count("deliveries_verified", 1)
					sc.run.Count("addressed_deliveries_verified", 1)
				}
				outcome = "deliver:to-dest-only"
			case stNo:
				outcome = "nobody:bad-dest"
				if first && total == 0 {
					sc.run.Count("bad_dest_nobody_verified:"+s.DestClass, 1)
				}
			default:
				outcome = "deliver:dest-in-flux"
			}
		}
	} else if first && total == 0 {
		switch s.Expect {
		case "nobody:no-permission":
			sc.run.Count("unpermitted_nobody_verified", 1)
			if s.Kind == "caption" && s.Type == "chat" {
				sc.run.Count("caption_without_caption_permission_rejected", 1)
			}
		case "nobody:not-joined":
			sc.run.Count("not_joined_nobody_verified", 1)
		case "reject-and-disconnect":
			sc.run.Count("spoofed_nobody_verified", 1)
		}
	}
	if first && s.Expect == "deliver" && s.Kind == "caption" && s.Type == "chat" && total > 0 {
		sc.run.Count("caption_with_caption_permission_delivered", 1)
	}
	if s.stable && s.Group != "" && !s.spoofSrc && !s.spoofUser {
		for _, p := range s.privs {
			if p.checked {
				continue
			}
			p.checked = true
			if p.priv != s.Op {
				sc.violSend(s, fmt.Sprintf("privileged-flag-wrong:%v", s.Op), fmt.Sprintf("%s received the %s of %s with privileged=%v; the sender's permissions were %v (claimed privileged: %v)", p.by.id, s.Type, s.Conn, p.priv, s.Perms, s.Priv))
			} else {
				sc.run.Count(fmt.Sprintf("privileged_%v_verified", s.Op), 1)
			}
		}
	}
	if first {
		dc := "addressed"
		switch s.DestClass {
		case "broadcast":
			dc = "broadcast"
		case "other-group", "unknown", "departed":
			dc = "bad-dest"
		}
		sc.run.Distinct(fmt.Sprintf("%s|%s|src=%s|usr=%s|role=%s op=%v msg=%v|noecho=%v|%s", s.Type, dc, s.SrcClass, s.UserClass, s.Role, s.Op, has(s.Perms, "message"), s.NoEcho, outcome))
	}
}

func (cn *conn) msString() string {
	var b []string
	for _, m := range cn.ms {
		b = append(b, fmt.Sprintf("%s[%d/%d..%d/%d]", m.group, m.joinSent, m.joinRet, m.endSent, m.endRet))
	}
	return "{" + strings.Join(b, " ") + "}"
}

// hbSS: a surely entered the history before b was handled.
func hbSS(a, b *sendRec) bool {
	if a.conn == b.conn {
		return a.Tick < b.Tick
	}
	return (a.fenced && a.Epoch < b.Epoch) || (a.minLive > 0 && a.minLive < b.Tick)
}

func hbSK(s *sendRec, k *clearRec) bool {
	if s.conn == k.conn {
		return s.Tick < k.tick
	}
	return (s.fenced && s.Epoch < k.epoch) || (s.minLive > 0 && s.minLive < k.tick)
}

func hbKS(k *clearRec, s *sendRec) bool {
	if s.conn == k.conn {
		return k.tick < s.Tick
	}
	return (k.fenced && k.epoch < s.Epoch) || (k.effectStamp > 0 && k.effectStamp < s.Tick)
}

func (k *clearRec) before(j *joinRec) bool {
	if k.conn == j.conn {
		return k.tick < j.sendTick
	}
	return (k.fenced && k.epoch < j.epoch) || (k.effectStamp > 0 && k.effectStamp < j.sendTick)
}

func (s *sendRec) settledBefore(j *joinRec) bool {
	if s.conn == j.conn {
		return s.Tick < j.sendTick
	}
	return (s.fenced && s.Epoch < j.epoch) || (s.minLive > 0 && s.minLive < j.sendTick)
}

// matches: does the clearchat surely / possibly designate the history entry of s.
func (k *clearRec) matches(s *sendRec) (sure, possible bool) {
	switch k.variant {
	case "all":
		return true, true
	case "user":
		if k.userID != s.Conn {
			return false, false
		}
		// an entry recorded without source: "that user's message" to a human, invisible
		// to a filter on the source field: either outcome is accepted
		return s.Source != nil, true
	case "id":
		if k.userID != s.Conn {
			return false, false
		}
		id, known := s.knownID()
		if !known {
			return false, true
		}
		if id != k.id {
			return false, false
		}
		return s.Source != nil, true
	}
	return false, false
}

func (sc *scenario) violJoin(j *joinRec, done map[string]bool, key, what string) {
	if done[key] {
		return
	}
	done[key] = true
	var hist []any
	for _, h := range j.hist {
		hist = append(hist, map[string]any{"value": h.m["value"], "source": h.m["source"], "username": h.m["username"], "id": h.m["id"], "kind": h.m["kind"]})
	}
	var sent []any
	cs := sc.chats[j.group]
	for _, s := range cs[max(0, len(cs)-70):] {
		sent = append(sent, s)
	}
	var clears []string
	for _, k := range sc.clears {
		if k.group == j.group {
			clears = append(clears, fmt.Sprintf("tick %d epoch %d: %s (sure=%v possible=%v noop=%v)", k.tick, k.epoch, k.desc, k.sure, k.possible, k.sureNoop))
		}
	}
	sc.run.Violation(key, what, sc.replay(map[string]any{
		"join":                 map[string]any{"joiner": j.conn.id, "group": j.group, "send_tick": j.sendTick, "done_tick": j.doneTick, "epoch": j.epoch},
		"chathistory_received": hist, "broadcast_chats_sent_in_group": sent, "clearchats_in_group": clears}))
}

func (sc *scenario) judgeJoin(j *joinRec) {
	j.judged = true
	sc.run.Eval(1)
	g := j.group
	limit := sc.ageLimit[g]
	done := map[string]bool{}
	if len(j.hist) > maxHistory {
		sc.violJoin(j, done, "history-too-long", fmt.Sprintf("%s joined %q and was replayed %d chathistory entries (limit %d)", j.conn.id, g, len(j.hist), maxHistory))
	}
	var recs []*sendRec
	seen := map[*sendRec]bool{}
	for _, h := range j.hist {
		v, _ := h.m["value"].(string)
		b, scen, ok := parseNonce(v)
		if !ok {
			sc.run.Inconclusive(fmt.Sprintf("chathistory entry with a value the harness never sent: %v", h.m["value"]))
			continue
		}
		if b != sc.batch || scen != sc.idx {
			sc.violJoin(j, done, "cross-group-delivery", fmt.Sprintf("the history replayed to %s in %q contains %q, sent in a group of another scenario", j.conn.id, g, v))
			continue
		}
		s := sc.sends[v]
		if s == nil {
			sc.run.Inconclusive("chathistory with a nonce that was never sent: " + v)
			continue
		}
		s.inHistory++
		if seen[s] {
			sc.violJoin(j, done, "history-order", fmt.Sprintf("the history replayed to %s contains %s twice", j.conn.id, v))
			continue
		}
		seen[s] = true
		recs = append(recs, s)
		if s.Group != g {
			sc.violJoin(j, done, "cross-group-delivery", fmt.Sprintf("the history replayed to %s in %q contains %s, which %s sent in %q", j.conn.id, g, v, s.Conn, s.Group))
			continue
		}
		if !s.eligible {
			sc.violJoin(j, done, "history-has-private-or-usermessage", fmt.Sprintf("the history replayed to %s contains %s, a %s with dest %q", j.conn.id, v, s.Type, s.Dest))
			continue
		}
		if s.spoofSrc {
			sc.violJoin(j, done, "spoofed-source-delivered", fmt.Sprintf("the history replayed to %s contains %s, which %s sent with forged source %s", j.conn.id, v, s.Conn, deref(s.Source)))
			continue
		}
		if s.spoofUser {
			sc.violJoin(j, done, "spoofed-username-delivered", fmt.Sprintf("the history replayed to %s contains %s, which %s (%s) sent with forged username %s", j.conn.id, v, s.Conn, s.SenderUser, deref(s.User)))
			continue
		}
		if s.Tick > j.doneTick {
			sc.violJoin(j, done, "history-order", fmt.Sprintf("the history replayed to %s contains %s, which was only sent after the replay had ended", j.conn.id, v))
			continue
		}
		if s.judged && s.acc == accNo {
			sc.violJoin(j, done, "delivered-without-permission", fmt.Sprintf("the history replayed to %s contains %s, which %s sent without being allowed to (%s, perms %v)", j.conn.id, v, s.Conn, s.Expect, s.Perms))
			continue
		}
		// cleared?
		for _, k := range sc.clears {
			if k.group != g || !k.sure || !k.before(j) || !hbSK(s, k) {
				continue
			}
			if sure, _ := k.matches(s); sure {
				sc.violJoin(j, done, "history-has-cleared-entry", fmt.Sprintf("the history replayed to %s contains %s (source %s, id %v), removed earlier by: %s", j.conn.id, v, deref(s.Source), h.m["id"], k.desc))
				break
			}
		}
		// too old?
		if limit > 0 && !s.wallSettled.IsZero() && s.wallSettled.Before(j.wallSent) && j.wallSent.Sub(s.wallSettled) > limit+1500*time.Millisecond {
			sc.violJoin(j, done, "history-too-old-entry", fmt.Sprintf("the history replayed to %s in %q (max-history-age %v) contains %s, which was at least %v old", j.conn.id, g, limit, v, j.wallSent.Sub(s.wallSettled)))
		}
		// fields
		src := h.m.Str("source")
		wantSrc := ""
		if s.Source != nil {
			wantSrc = *s.Source
		}
		u, _ := h.m["username"].(string)
		wantU := ""
		if s.User != nil {
			wantU = *s.User
		}
		switch {
		case src != "" && src != s.Conn:
			sc.violJoin(j, done, "wrong-source", fmt.Sprintf("history entry %s of %s carries source %q", v, s.Conn, src))
		case u != "" && u != s.SenderUser:
			sc.violJoin(j, done, "wrong-username", fmt.Sprintf("history entry %s of %s (%s) carries username %q", v, s.Conn, s.SenderUser, u))
		case src != wantSrc:
			sc.violJoin(j, done, "history-field-mismatch", fmt.Sprintf("history entry %s: source %q, sent with %s", v, src, deref(s.Source)))
		case u != wantU:
			sc.violJoin(j, done, "history-field-mismatch", fmt.Sprintf("history entry %s: username %q, sent with %s", v, u, deref(s.User)))
		case h.m.Str("kind") != s.Kind:
			sc.violJoin(j, done, "history-field-mismatch", fmt.Sprintf("history entry %s: kind %q, sent with %q", v, h.m.Str("kind"), s.Kind))
		case s.ID != "" && h.m.Str("id") != s.ID:
			sc.violJoin(j, done, "history-field-mismatch", fmt.Sprintf("history entry %s: id %q, sent with %q", v, h.m.Str("id"), s.ID))
		case s.ID == "" && h.m.Str("id") == "":
			sc.violJoin(j, done, "history-field-mismatch", fmt.Sprintf("history entry %s has no id", v))
		case s.ID == "" && s.liveID != "" && !s.idClash && h.m.Str("id") != s.liveID:
			sc.violJoin(j, done, "history-field-mismatch", fmt.Sprintf("history entry %s: id %q, but the live copies carried %q", v, h.m.Str("id"), s.liveID))
		default:
			sc.run.Count("history_entries_field_checked", 1)
		}
	}
	// order
	for a := 0; a < len(recs); a++ {
		for b := a + 1; b < len(recs); b++ {
			if recs[a].Group == g && recs[b].Group == g && hbSS(recs[b], recs[a]) {
				sc.violJoin(j, done, "history-order", fmt.Sprintf("the history replayed to %s lists %s before %s, but %s was handled first", j.conn.id, recs[a].Nonce, recs[b].Nonce, recs[b].Nonce))
			}
		}
	}
	// completeness
	all := sc.chats[g]
	must, cleared, aged, young := 0, 0, 0, 0
	for i, s := range all {
		if s.Tick > j.doneTick {
			break
		}
		if !s.judged {
			continue
		}
		// surely cleared and indeed absent: evidence for the clearchat clause
		if !seen[s] && s.accepted() == accYes {
			for _, k := range sc.clears {
				if k.group == g && k.sure && k.before(j) && hbSK(s, k) {
					if sure, _ := k.matches(s); sure {
						cleared++
						sc.run.Count("cleared_entries_verified_absent:"+k.variant, 1)
						break
					}
				}
			}
			if limit > 0 && !s.wallSettled.IsZero() && s.wallSettled.Before(j.wallSent) && j.wallSent.Sub(s.wallSettled) > limit+1500*time.Millisecond {
				aged++
			}
		}
		if s.accepted() != accYes || !s.settledBefore(j) {
			continue
		}
		possiblyCleared := false
		for _, k := range sc.clears {
			if k.group != g || !k.possible || k.tick > j.doneTick || hbKS(k, s) {
				continue
			}
			if _, poss := k.matches(s); poss {
				possiblyCleared = true
				break
			}
		}
		if possiblyCleared {
			continue
		}
		succ := 0
		for i2, f := range all {
			if i2 == i || f.Tick > j.doneTick || (f.judged && f.acc == accNo) || hbSS(f, s) {
				continue
			}
			succ++
		}
		if succ >= maxHistory {
			continue
		}
		if limit > 0 {
			if j.wallDone.Sub(s.wallBefore) >= limit-1500*time.Millisecond {
				continue
			}
			young++
		}
		must++
		if !seen[s] {
			sc.violJoin(j, done, "history-missing-entry", fmt.Sprintf("%s joined %q and the replay lacks %s (sent by %s, settled before the join, at most %d later entries, not cleared)", j.conn.id, g, s.Nonce, s.Conn, succ))
			continue
		}
		for _, k := range sc.clears {
			if k.group != g || !k.before(j) || !hbSK(s, k) {
				continue
			}
			if k.sure {
				sc.run.Count("clearchat_survivors_verified_present:"+k.variant, 1)
			} else if k.sureNoop {
				sc.run.Count("ineffective_clearchat_survivors_verified_present", 1)
			}
		}
	}
	sc.run.Count("history_replays_compared", 1)
	sc.run.Count("history_entries_received", int64(len(j.hist)))
	sc.run.Count("history_entries_required_present", int64(must))
	if len(j.hist) == maxHistory {
		sc.run.Count("history_replays_with_50_entries", 1)
		if must == maxHistory {
			sc.run.Count("history_replays_exactly_last_50", 1)
		}
	}
	if cleared > 0 {
		sc.run.Count("history_replays_after_effective_clearchat", 1)
	}
	if aged > 0 {
		sc.run.Count("age_clause_old_entries_verified_absent", int64(aged))
	}
	if young > 0 {
		sc.run.Count("age_clause_young_entries_verified_present", int64(young))
	}
	sc.run.Distinct(fmt.Sprintf("join|hist=%d|must=%d|cleared=%v|aged=%v|kind=%s", min(len(j.hist), 51)/10, must/10, cleared > 0, aged > 0, sc.kind))
}

// probe joins a fresh observer, lets the caller judge its replay, and removes it again.
func (sc *scenario) probe(g string, user string) *conn {
	cn := sc.connect(user, -1)
	if cn == nil {
		return nil
	}
	if sc.join(cn, g) {
		sc.leave(cn)
	}
	if !cn.gone {
		sc.closeAbrupt(cn)
	}
	return cn
}

// abort ends a scripted scenario whose cast lost a member for reasons outside the property
// (the floors notice if that happens systematically).
func (sc *scenario) abort() {
	sc.run.Count("scripted_scenarios_cut_short", 1)
	sc.checkpoint()
	sc.finish()
	sc.bad = true
}

func (sc *scenario) finish() {
	for _, cn := range sc.conns {
		if !cn.gone {
			cn.c.Close()
		}
	}
	var ids []string
	for _, s := range sc.order {
		if !s.judged {
			ids = append(ids, s.Nonce)
		}
	}
	sort.Strings(ids)
	if len(ids) > 0 && !sc.bad {
		sc.run.Inconclusive(fmt.Sprintf("scenario ended with %d unjudged messages", len(ids)))
	}
}

// dial is vclient.Dial, but says why the handshake did not complete and tries again: on
// a loaded machine galene's 500 ms write deadline can expire before the very first write
// is attempted, and the server then drops the fresh connection without a word.
func dial(srv *vsrv.Server, id string) (*vclient.Client, int, error) {
	var last error
	for try := 0; try < 4; try++ {
		c, err := vclient.DialRaw(srv, id)
		if err != nil {
			last = err
			continue
		}
		if err := c.Send(vclient.Msg{"type": "handshake", "version": []string{"2"}, "id": id}); err != nil {
			c.Close()
			last = err
			continue
		}
		if _, ok := c.WaitFor(func(m vclient.Msg) bool { return m.Str("type") == "handshake" }, 30*time.Second); !ok {
			closed, cerr := c.Closed()
			c.Close()
			last = fmt.Errorf("no handshake from server (closed=%v: %v; %d events)", closed, cerr, c.EventCount())
			if !closed {
				break
			}
			continue
		}
		return c, try, nil
	}
	return nil, 0, last
}
