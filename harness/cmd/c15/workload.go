package main

import (
	"fmt"
	"math/rand/v2"
	"strings"
	"time"
)

// ---------------------------------------------------------------- random workload

type slot struct {
	n    int
	user string
	cn   *conn
}

func pick[T any](r *rand.Rand, l []T) T { return l[r.IntN(len(l))] }

// weighted picks an index according to integer weights.
func weighted(r *rand.Rand, w ...int) int {
	t := 0
	for _, x := range w {
		t += x
	}
	x := r.IntN(t)
	for i, y := range w {
		if x < y {
			return i
		}
		x -= y
	}
	return len(w) - 1
}

func (sc *scenario) mates(cn *conn, includeSelf bool) []*conn {
	var out []*conn
	for _, o := range sc.conns {
		if o.gone || o.doomed || o.maybeDoomed || o.group == "" || o.group != cn.group {
			continue
		}
		if o == cn && !includeSelf {
			continue
		}
		out = append(out, o)
	}
	return out
}

func (sc *scenario) elsewhere(cn *conn) []*conn {
	var out []*conn
	for _, o := range sc.conns {
		if !o.gone && !o.doomed && o.group != "" && o.group != cn.group {
			out = append(out, o)
		}
	}
	return out
}

func (sc *scenario) departed(cn *conn) []*conn {
	var out []*conn
	for _, o := range sc.conns {
		if o != cn && o.group == "" && !o.doomed && (o.gone || o.cur == nil) && o.abruptTick != 0 {
			out = append(out, o)
		}
	}
	return out
}

func (sc *scenario) randomSend(cn *conn, r *rand.Rand) {
	o := sendOpts{typ: "chat", srcClass: "own", userClass: "own", destClass: "broadcast"}
	if r.IntN(100) < 35 {
		o.typ = "usermessage"
		o.kind = pick(r, []string{"info", "mute", "custom", "", "warning"})
	} else {
		o.kind = []string{"", "", "", "me", "caption"}[r.IntN(5)]
	}
	if cn.role == "caption" && o.typ == "chat" && r.IntN(3) > 0 {
		o.kind = "caption"
	}
	if cn.group == "" {
		// not a member: nothing may be delivered
		o.srcClass = pick(r, []string{"own", "absent"})
		o.userClass = "absent"
		if r.IntN(2) == 0 {
			if all := sc.elsewhere(cn); len(all) > 0 {
				o.dest, o.destClass = pick(r, all).id, "other-group"
			}
		}
		sc.send(cn, o)
		return
	}
	switch weighted(r, 55, 22, 4, 9, 5, 5) {
	case 1:
		if m := sc.mates(cn, false); len(m) > 0 {
			o.dest, o.destClass = pick(r, m).id, "member"
		}
	case 2:
		o.dest, o.destClass = cn.id, "self"
	case 3:
		if m := sc.elsewhere(cn); len(m) > 0 {
			o.dest, o.destClass = pick(r, m).id, "other-group"
		} else {
			o.dest, o.destClass = fmt.Sprintf("nobody-%d", r.IntN(100000)), "unknown"
		}
	case 4:
		o.dest, o.destClass = fmt.Sprintf("nobody-%d", r.IntN(100000)), "unknown"
	case 5:
		if m := sc.departed(cn); len(m) > 0 {
			o.dest, o.destClass = pick(r, m).id, "departed"
		}
	}
	o.srcClass = []string{"own", "absent", "empty", "other", "random"}[weighted(r, 56, 30, 6, 5, 3)]
	o.userClass = []string{"own", "absent", "other", "empty", "random"}[weighted(r, 56, 32, 5, 3, 4)]
	if o.srcClass == "other" || o.userClass == "other" {
		var others []*conn
		for _, x := range sc.conns {
			if x != cn && x.user != cn.user && !x.gone && x.group != "" {
				others = append(others, x)
			}
		}
		if len(others) == 0 {
			if o.srcClass == "other" {
				o.srcClass = "random"
			}
			if o.userClass == "other" {
				o.userClass = "random"
			}
		} else {
			x := pick(r, others)
			o.otherID, o.otherUser = x.id, x.user
		}
	}
	o.noecho = r.IntN(100) < 35
	switch weighted(r, 50, 40, 10) {
	case 1:
		o.id = fmt.Sprintf("id-%s-%d", cn.id, sc.ctr)
	case 2:
		// the same id used by several users: a clearchat of (id, user) must only hit one
		o.id = fmt.Sprintf("shared-%d-%d-%d", sc.batch, sc.idx, r.IntN(3))
		for _, s := range sc.order {
			if s.conn == cn && s.ID == o.id {
				o.id = fmt.Sprintf("id-%s-%d", cn.id, sc.ctr)
				break
			}
		}
	}
	switch weighted(r, 60, 30, 10) {
	case 1:
		t := true
		o.priv = &t
	case 2:
		f := false
		o.priv = &f
	}
	sc.send(cn, o)
}

func (sc *scenario) randomClear(cn *conn, r *rand.Rand) {
	g := cn.group
	var cands []*sendRec
	for _, s := range sc.chats[g] {
		if !(s.judged && s.acc == accNo) {
			cands = append(cands, s)
		}
	}
	variant := []string{"all", "user", "id", "bad"}[weighted(r, 25, 35, 30, 10)]
	var userID, id string
	if len(cands) > 0 {
		s := cands[len(cands)-1-r.IntN(min(len(cands), 12))]
		if variant == "id" && r.IntN(2) == 0 {
			for _, c := range cands {
				if strings.HasPrefix(c.ID, "shared-") {
					s = c
				}
			}
		}
		userID = s.Conn
		id, _ = s.knownID()
	}
	if (variant == "user" && userID == "") || (variant == "id" && (userID == "" || id == "")) {
		variant = "all"
	}
	if variant == "bad" && id == "" {
		id = "whatever"
	}
	fenced := r.IntN(3) > 0
	if fenced {
		sc.checkpoint()
	}
	sc.clear(cn, variant, userID, id, r.IntN(4) > 0)
	if fenced {
		sc.checkpoint()
	}
}

func (sc *scenario) step(slots []*slot, r *rand.Rand) {
	var sl *slot
	for try := 0; try < 4; try++ {
		sl = pick(r, slots)
		if sl.cn != nil && sl.cn.gone {
			sl.cn = nil
		}
		if sl.cn == nil || !(sl.cn.doomed || sl.cn.maybeDoomed) {
			break
		}
		sl = nil
	}
	if sl == nil {
		sc.checkpoint() // every candidate awaits its verdict
		return
	}
	cn := sl.cn
	if cn != nil {
		if closed, _ := cn.c.Closed(); closed {
			sc.lost(cn)
			sl.cn, cn = nil, nil
		}
	}
	pickGroup := func() string {
		if r.IntN(2) == 0 {
			return sc.groups[0]
		}
		return pick(r, sc.groups)
	}
	if cn == nil {
		cn = sc.connect(sl.user, sl.n)
		if cn == nil {
			return
		}
		sl.cn = cn
		if r.IntN(8) > 0 {
			sc.join(cn, pickGroup())
		}
		return
	}
	if cn.group == "" {
		switch weighted(r, 70, 20, 10) {
		case 0:
			sc.join(cn, pickGroup())
		case 1:
			sc.randomSend(cn, r)
		default:
			sc.closeAbrupt(cn)
			sl.cn = nil
		}
		return
	}
	switch weighted(r, 58, 6, 4, 12, 10, 10) {
	case 0:
		sc.randomSend(cn, r)
	case 1:
		sc.leave(cn)
	case 2:
		sc.closeAbrupt(cn)
		sl.cn = nil
	case 3:
		// moderation: mostly by operators
		actor := cn
		if !has(cn.perms, "op") && r.IntN(5) > 0 {
			for _, o := range sc.mates(cn, false) {
				if has(o.perms, "op") {
					actor = o
					break
				}
			}
		}
		m := sc.mates(actor, true)
		if len(m) == 0 {
			return
		}
		sc.fold(actor)
		sc.moderate(actor, pick(r, []string{"op", "unop", "shutup", "unshutup", "shutup", "unshutup"}), pick(r, m))
	case 4:
		actor := cn
		if !has(cn.perms, "op") && r.IntN(5) > 0 {
			for _, o := range sc.mates(cn, false) {
				if has(o.perms, "op") {
					actor = o
					break
				}
			}
		}
		sc.randomClear(actor, r)
	case 5:
		// a joiner in the middle of the traffic: its replay races with the sends in flight
		sc.probe(cn.group, pick(r, []string{"probe", "probe", "paul"}))
	}
}

func (sc *scenario) probeAll(r *rand.Rand, p int) {
	for _, g := range sc.groups {
		if r.IntN(100) < p {
			sc.probe(g, "probe")
		}
	}
	sc.judgeJoins()
}

func (sc *scenario) runRandom(acts int) {
	r := sc.r
	sc.makeGroups(2 + r.IntN(2))
	n := 3 + r.IntN(5)
	perm := r.Perm(len(roster) - 1) // never the probe user; index 0 (an operator) always present
	slots := []*slot{{n: 0, user: roster[0].name}}
	for _, i := range perm {
		if len(slots) >= n {
			break
		}
		if i == 0 {
			continue
		}
		slots = append(slots, &slot{n: len(slots), user: roster[i].name})
	}
	next := 10 + r.IntN(11)
	for a := 0; a < acts && !sc.bad; a++ {
		sc.step(slots, r)
		next--
		if next <= 0 {
			sc.checkpoint()
			sc.probeAll(r, 60)
			next = 10 + r.IntN(11)
		}
	}
	sc.checkpoint()
	sc.probeAll(r, 100)
	sc.checkpoint()
	sc.finish()
}

// ---------------------------------------------------------------- history size

func (sc *scenario) plain(cn *conn, r *rand.Rand) sendOpts {
	o := sendOpts{typ: "chat", destClass: "broadcast", srcClass: pick(r, []string{"own", "own", "absent"}), userClass: pick(r, []string{"own", "own", "absent"})}
	o.kind = pick(r, []string{"", "", "me"})
	o.noecho = r.IntN(4) == 0
	if r.IntN(2) == 0 {
		o.id = fmt.Sprintf("id-%s-%d", cn.id, sc.ctr)
	}
	return o
}

func (sc *scenario) runSize() {
	r := sc.r
	sc.makeGroups(2)
	g := sc.groups[0]
	S := sc.connect(pick(r, []string{"olga", "mike", "pia"}), -1)
	S2 := sc.connect("mona", -1)
	W := sc.connect("otto", -1)
	X := sc.connect("oscar", -1)
	if sc.bad {
		return
	}
	if !(sc.join(S, g) && sc.join(S2, g) && sc.join(W, g) && sc.join(X, sc.groups[1])) {
		sc.abort()
		return
	}
	total := 60 + r.IntN(61)
	sent := 0
	for sent < total && !sc.bad {
		burst := 20 + r.IntN(40)
		for i := 0; i < burst && sent < total; i++ {
			sc.send(S, sc.plain(S, r))
			sent++
			switch r.IntN(8) {
			case 0: // must stay out of the history
				sc.send(S, sendOpts{typ: "usermessage", kind: "info", srcClass: "own", userClass: "own", destClass: "broadcast"})
			case 1:
				sc.send(S, sendOpts{typ: "chat", srcClass: "own", userClass: "own", dest: W.id, destClass: "member"})
			case 2:
				sc.send(X, sc.plain(X, r)) // another group's history
			}
		}
		if sent < total && r.IntN(2) == 0 {
			sc.checkpoint()
			for i, n := 0, 1+r.IntN(5); i < n && sent < total; i++ {
				sc.send(S2, sc.plain(S2, r))
				sent++
			}
			sc.checkpoint()
		}
	}
	sc.checkpoint()
	sc.probe(g, "probe")
	sc.probe(sc.groups[1], "probe")
	sc.judgeJoins()
	// one more entry pushes exactly one out
	sc.send(S, sc.plain(S, r))
	sc.checkpoint()
	sc.probe(g, "paul")
	sc.judgeJoins()
	sc.checkpoint()
	sc.finish()
}

// ---------------------------------------------------------------- clearchat variants

func (sc *scenario) runClear() {
	r := sc.r
	sc.makeGroups(2)
	g, g1 := sc.groups[0], sc.groups[1]
	O := sc.connect("olga", -1)
	A := sc.connect("mike", -1)
	B := sc.connect("pia", -1)
	W := sc.connect("otto", -1)
	O2 := sc.connect("oscar", -1)
	C := sc.connect("mona", -1)
	if sc.bad {
		return
	}
	for _, cn := range []*conn{O, A, B, W} {
		if !sc.join(cn, g) {
			sc.abort()
			return
		}
	}
	if !(sc.join(O2, g1) && sc.join(C, g1)) {
		sc.abort()
		return
	}
	talks := 0
	talk := func() {
		for _, cn := range []*conn{A, B, O, C} {
			for i, n := 0, 2+r.IntN(4); i < n; i++ {
				o := sc.plain(cn, r)
				if i == 0 {
					o.srcClass = "own" // at least one attributable entry per speaker
				}
				sc.send(cn, o)
			}
		}
		// the same id used by two users: a clearchat of (id, user) must only hit one of them
		talks++
		for _, cn := range []*conn{B, A, O} {
			o := sc.plain(cn, r)
			o.id = fmt.Sprintf("dup-%d", talks)
			o.srcClass = "own"
			sc.send(cn, o)
		}
	}
	look := func() {
		sc.checkpoint()
		sc.probe(g, "probe")
		sc.probe(g1, "probe")
		sc.judgeJoins()
	}
	talk()
	look()
	steps := []string{"id", "nonop", "user", "othergroup", "bad", "all"}
	if r.IntN(2) == 0 {
		steps = []string{"nonop", "user", "id", "bad", "othergroup", "all"}
	}
	for _, st := range steps {
		if sc.bad {
			break
		}
		tagged := r.IntN(2) == 0
		switch st {
		case "id":
			var cands []*sendRec
			for _, s := range sc.chats[g] {
				if _, ok := s.knownID(); ok && s.Source != nil && s.inHistory > 0 {
					cands = append(cands, s)
				}
			}
			if len(cands) == 0 {
				continue
			}
			s := cands[len(cands)-1-r.IntN(min(len(cands), 8))]
			if r.IntN(3) > 0 {
				for _, c := range cands {
					if strings.HasPrefix(c.ID, "dup-") && c.conn != O {
						s = c
					}
				}
			}
			id, _ := s.knownID()
			sc.clear(O, "id", s.Conn, id, tagged)
		case "user":
			sc.clear(O, "user", A.id, "", tagged)
		case "nonop":
			sc.clear(pick(r, []*conn{A, B, W}), pick(r, []string{"all", "user"}), B.id, "", tagged)
		case "othergroup":
			sc.clear(O2, "all", "", "", tagged)
			look()
			talk()
			continue
		case "bad":
			sc.clear(O, "bad", "", "dup-1", tagged)
		case "all":
			sc.clear(O, "all", "", "", tagged)
		}
		look()
		if st == "all" || r.IntN(2) == 0 {
			talk()
			look()
		}
	}
	sc.checkpoint()
	sc.finish()
}

// ---------------------------------------------------------------- history age

func (sc *scenario) runAge() {
	r := sc.r
	// group 0: max-history-age 2 s; group 1: default; group 2: 2 s, and it falls silent after
	// its first messages, so that EVERY entry is too old when the probe joins
	sc.makeGroups(3, 2, 0, 2)
	g, g1, g2 := sc.groups[0], sc.groups[1], sc.groups[2]
	S := sc.connect(pick(r, []string{"olga", "mike"}), -1)
	W := sc.connect("otto", -1)
	X := sc.connect("pia", -1)
	Y := sc.connect("oscar", -1)
	if sc.bad {
		return
	}
	if !(sc.join(S, g) && sc.join(W, g) && sc.join(X, g1) && sc.join(Y, g2)) {
		sc.abort()
		return
	}
	say := func(cn *conn, n int) {
		for i := 0; i < n; i++ {
			o := sc.plain(cn, r)
			o.noecho = false
			o.awaitDeliver = true
			sc.send(cn, o)
		}
	}
	say(S, 2+r.IntN(4)) // will be older than 3.5 s
	say(X, 2+r.IntN(3)) // same age in a group with the default limit: must survive
	say(Y, 1+r.IntN(4)) // the whole history of group 2
	time.Sleep(1900 * time.Millisecond)
	say(S, 1+r.IntN(3)) // about 1.9 s old at the join: unconstrained
	time.Sleep(1900 * time.Millisecond)
	say(S, 2+r.IntN(4)) // fresh
	sc.probe(g, "probe")
	sc.probe(g1, "probe")
	sc.probe(g2, "probe")
	sc.checkpoint()
	// and once more behind a quiescence point (still young enough unless the machine is very slow)
	say(S, 1+r.IntN(3))
	sc.probe(g, "paul")
	sc.checkpoint()
	sc.finish()
}

// ---------------------------------------------------------------- spoofing matrix

func (sc *scenario) runMatrix() {
	r := sc.r
	sc.makeGroups(2)
	g, g1 := sc.groups[0], sc.groups[1]
	V := sc.connect("olga", -1) // the victim whose identity is claimed
	W := sc.connect("otto", -1)
	D := sc.connect("pia", -1) // destination of the addressed variants
	F := sc.connect("oscar", -1)
	if sc.bad {
		return
	}
	for _, cn := range []*conn{V, W, D} {
		if !sc.join(cn, g) {
			sc.abort()
			return
		}
		cn.strict = true
	}
	if !sc.join(F, g1) {
		sc.abort()
		return
	}
	F.strict = true
	for _, typ := range []string{"chat", "usermessage"} {
		for _, addressed := range []bool{false, true} {
			for _, src := range []string{"absent", "own", "other", "random"} {
				for _, usr := range []string{"absent", "own", "other", "empty"} {
					if sc.bad {
						return
					}
					user := pick(r, []string{"mike", "mona", "paul"})
					cn := sc.connect(user, -1)
					if cn == nil || !sc.join(cn, g) {
						sc.abort()
						return
					}
					victim := V
					if r.IntN(3) == 0 {
						victim = F // a member of another group is just as foreign
					}
					o := sendOpts{typ: typ, srcClass: src, userClass: usr, otherID: victim.id, otherUser: victim.user, destClass: "broadcast", noecho: r.IntN(3) == 0}
					if typ == "usermessage" {
						o.kind = "info"
					}
					if addressed {
						o.dest, o.destClass = D.id, "member"
					}
					if src != "other" && src != "random" && usr != "other" && usr != "empty" {
						cn.strict = true
					}
					// a legitimate message first: it must still be delivered
					if r.IntN(2) == 0 {
						sc.send(cn, sc.plain(cn, r))
					}
					sc.send(cn, o)
				}
			}
			sc.checkpoint()
			sc.probe(g, "probe")
			sc.judgeJoins()
		}
	}
	sc.checkpoint()
	sc.finish()
}
