// C08 - password login: right password, exactly the configured rights
// (model tier and administration-tool round trip; the history clause needs the
// websocket harness and is not checked here).
//
// Monitor: group descriptions are generated as JSON files, parsed by galene's
// real loader (group.GetDescription) and queried through the real
// Description.GetPermission.  The expected side is a reference model written
// from the property text and galene.md: it knows, for every generated entry,
// the plaintext it was built from, so "the password matches" is string
// equality with that plaintext (stored pbkdf2 keys are computed with the
// standard library's crypto/pbkdf2, bcrypt hashes with x/crypto/bcrypt; none
// of galene's code is used for the expectation).  The tool tier runs the real
// galenectl binary (hash-password) for every algorithm x parameter choice and
// feeds its output back through the loader.
package main

import (
	"bytes"
	"crypto/pbkdf2"
	"crypto/sha256"
	"encoding/hex"
	"encoding/json"
	"errors"
	"fmt"
	"math/rand/v2"
	"os"
	"os/exec"
	"path/filepath"
	"runtime"
	"sort"
	"strings"
	"sync"
	"sync/atomic"
	"unicode"

	"golang.org/x/crypto/bcrypt"

	"github.com/jech/galene/group"

	"verif/harness/vk"
)

// reference model ------------------------------------------------------------

const (
	mEqual     = iota // matches exactly the plaintext it was built from
	mAny              // {"type":"wildcard"}: matches anything
	mNever            // no password: never matches
	mMalformed        // malformed record: refused, never falls through
)

// roles as documented in galene.md / the property text
var roleTable = map[string][]string{
	"op":      {"op", "present", "message", "caption", "token"},
	"present": {"present", "message"},
	"message": {"message"},
	"observe": {},
	"caption": {"caption"},
	"admin":   {"admin"},
}
var roleNames = []string{"op", "present", "message", "observe", "caption", "admin"}
var rawPermNames = []string{"op", "present", "message", "caption", "token", "record", "admin"}

type entry struct {
	Name   string
	Kind   string // exact encoding variant
	Group  string // plain|pbkdf2|bcrypt|wildcard|none|null|malformed
	Mode   int
	Secret string // plaintext the record was built from (or the intended one)
	KeyStr string // the stored "key" string, if any
	pwJSON json.RawMessage

	// pbkdf2 parameters, kept for the short-key oracle and crafted candidates
	salt []byte
	iter int
	key  []byte

	PermKind string // role name | "absent" | "raw"
	Raw      []string
	permJSON json.RawMessage
}

type desc struct {
	Users    map[string]*entry
	order    []string
	Wild     *entry
	AllowRec bool
	Unrestr  bool
	Obsolete bool
	JSON     []byte
}

func (e *entry) matches(c string) bool {
	switch e.Mode {
	case mAny:
		return true
	case mEqual:
		if e.Group == "pbkdf2" && len(e.key) > 0 && len(e.key) < 8 {
			// a 1..7 byte key has real collisions: the expectation is the
			// derived key itself, computed by the standard library
			k, err := pbkdf2.Key(sha256.New, c, e.salt, e.iter, len(e.key))
			return err == nil && bytes.Equal(k, e.key)
		}
		return c == e.Secret
	}
	return false
}

// Input equivalences of the hash functions themselves (RFC 2104: an HMAC key
// shorter than the block is zero-padded, a longer one is replaced by its
// digest; bcrypt: the key schedule cycles over password+NUL and reads 72
// bytes).  A candidate that differs from the plaintext but is equivalent to it
// is not asserted in the bulk phases; the boundary phase asserts each
// equivalence under one key of its own.
func hmacNorm(s string) string {
	if len(s) > 64 {
		h := sha256.Sum256([]byte(s))
		s = string(h[:])
	}
	return strings.TrimRight(s, "\x00")
}

func bcryptSched(s string) string {
	k := s + "\x00"
	var b strings.Builder
	for b.Len() < 72 {
		b.WriteString(k)
	}
	return b.String()[:72]
}

func (e *entry) equivalent(c string) bool {
	if e == nil || e.Mode != mEqual || c == e.Secret {
		return false
	}
	switch e.Group {
	case "pbkdf2":
		return hmacNorm(c) == hmacNorm(e.Secret)
	case "bcrypt":
		return bcryptSched(c) == bcryptSched(e.Secret)
	}
	return false
}

// decide is the property's acceptance rule.  equiv reports that the candidate
// is a hash-function equivalent of a plaintext involved in the decision.
func (d *desc) decide(user, pw string) (accept bool, e *entry, addr string, equiv bool) {
	if ent, ok := d.Users[user]; ok {
		m := ent.matches(pw)
		if !m && d.Wild != nil && d.Wild.matches(pw) {
			return false, ent, "named-shadowing-wildcard", ent.equivalent(pw)
		}
		return m, ent, "named", ent.equivalent(pw)
	}
	if d.Wild != nil {
		return d.Wild.matches(pw), d.Wild, "wildcard", d.Wild.equivalent(pw)
	}
	return false, nil, "none", false
}

func has(l []string, s string) bool {
	for _, x := range l {
		if x == s {
			return true
		}
	}
	return false
}

func expectedPerms(e *entry, d *desc) []string {
	switch e.PermKind {
	case "raw":
		return e.Raw
	case "absent":
		return nil
	}
	base := roleTable[e.PermKind]
	out := append([]string{}, base...)
	if has(base, "op") && d.AllowRec {
		out = append(out, "record")
	}
	if has(base, "present") && d.Unrestr && !has(base, "token") {
		out = append(out, "token")
	}
	return out
}

func sameSet(a, b []string) bool {
	x := append([]string{}, a...)
	y := append([]string{}, b...)
	sort.Strings(x)
	sort.Strings(y)
	if len(x) != len(y) {
		return false
	}
	for i := range x {
		if x[i] != y[i] {
			return false
		}
	}
	return true
}

func hasDup(a []string) bool {
	m := map[string]bool{}
	for _, s := range a {
		if m[s] {
			return true
		}
		m[s] = true
	}
	return false
}

// validName is the harness's own reading of "minimal validation that avoids
// path traversal".  It is only used to *loosen* assertions.
func validName(n string) bool {
	if n == "" {
		return true
	}
	if strings.ContainsRune(n, '\\') {
		return false
	}
	for _, c := range strings.Split(n, "/") {
		if c == "" || c == "." || c == ".." {
			return false
		}
	}
	return true
}

// generators ---------------------------------------------------------------

var alnum = []rune("abcdefghijklmnopqrstuvwxyzABCDEFGHIJKLMNOPQRSTUVWXYZ0123456789")
var punct = []rune(" !\"#$%&'()*+,-./:;<=>?@[\\]^_`{|}~")
var uni = []rune("éßñøΩжש日本語한😀🔑ı")
var ctl = []rune{'\t', '\n', 0x01, 0x7f}

func genSecret(r *rand.Rand, minLen, maxLen int, allowNul bool) string {
	var n int
	switch x := r.IntN(100); {
	case x < 5:
		n = 0
	case x < 20:
		n = 1 + r.IntN(3)
	case x < 80:
		n = 4 + r.IntN(13)
	default:
		n = 17 + r.IntN(48)
	}
	if n < minLen {
		n = minLen
	}
	var b strings.Builder
	for i := 0; i < n; i++ {
		var c rune
		switch x := r.IntN(100); {
		case x < 70:
			c = alnum[r.IntN(len(alnum))]
		case x < 85:
			c = punct[r.IntN(len(punct))]
		case x < 95:
			c = uni[r.IntN(len(uni))]
		case x < 99 || !allowNul:
			c = ctl[r.IntN(len(ctl))]
		default:
			c = 0
		}
		if b.Len()+len(string(c)) > maxLen {
			break
		}
		b.WriteRune(c)
	}
	s := b.String()
	for len(s) < minLen {
		s += "x"
	}
	return s
}

var baseNames = []string{"vimes", "Vetinari", "carrot", "jch@work", "Alice c/o Bob", "angua von Überwald", "nobby", "colon", "détritus", "日本", "x", "a.b", "..a", "user name", "o'brien", "<admin>", "-dash", "root"}

func genName(r *rand.Rand) string {
	n := baseNames[r.IntN(len(baseNames))]
	if r.IntN(3) == 0 {
		n += fmt.Sprintf("%d", r.IntN(50))
	}
	return n
}

var invalidNames = []string{"..", ".", "a/../b", "a\\b", "/abs", "trail/", "a//b", "./a", "../vimes", "x/.."}

func mustJSON(v any) json.RawMessage {
	b, err := json.Marshal(v)
	if err != nil {
		panic(err)
	}
	return b
}

func pbkdf2Params(r *rand.Rand) (iter, klen, slen int) {
	switch x := r.IntN(100); {
	case x < 50:
		iter = 1 + r.IntN(16)
	case x < 82:
		iter = 17 + r.IntN(496)
	default:
		iter = 513 + r.IntN(3584)
	}
	switch x := r.IntN(100); {
	case x < 10:
		klen = 1 + r.IntN(3)
	case x < 20:
		klen = 4 + r.IntN(4)
	case x < 65:
		klen = 32
	default:
		klen = 8 + r.IntN(57)
	}
	if r.IntN(10) == 0 {
		slen = 0
	} else {
		slen = 1 + r.IntN(32)
	}
	return
}

func randBytes(r *rand.Rand, n int) []byte {
	b := make([]byte, n)
	for i := range b {
		b[i] = byte(r.UintN(256))
	}
	return b
}

func makePbkdf2(e *entry, secret string, salt []byte, iter, klen int) map[string]any {
	k, err := pbkdf2.Key(sha256.New, secret, salt, iter, klen)
	if err != nil {
		panic(err)
	}
	e.salt, e.iter, e.key = salt, iter, k
	e.KeyStr = hex.EncodeToString(k)
	m := map[string]any{"type": "pbkdf2", "hash": "sha-256", "key": e.KeyStr, "iterations": iter}
	if len(salt) > 0 || iter%2 == 0 {
		m["salt"] = hex.EncodeToString(salt)
	}
	return m
}

func bcryptCost(r *rand.Rand) int {
	switch x := r.IntN(100); {
	case x < 60:
		return 4
	case x < 85:
		return 5
	default:
		return 6
	}
}

func makeBcrypt(secret string, cost int) string {
	h, err := bcrypt.GenerateFromPassword([]byte(secret), cost)
	if err != nil {
		panic(err)
	}
	return string(h)
}

var malformedKinds = []string{"bad-hex-key", "odd-hex-key", "bad-hex-salt", "unknown-type", "unknown-hash", "missing-key-plain", "missing-key-pbkdf2", "missing-key-bcrypt", "bad-bcrypt", "pbkdf2-no-iterations"}

// genPassword fills the password part of e.
func genPassword(r *rand.Rand, e *entry, wild, obsolete bool) {
	var kind string
	x := r.IntN(100)
	if !wild {
		switch {
		case x < 22:
			kind = "plain-string"
		case x < 30:
			kind = "plain-object"
		case x < 50:
			kind = "pbkdf2"
		case x < 64:
			kind = "bcrypt"
		case x < 70:
			kind = "wildcard"
		case x < 76:
			kind = "absent"
		case x < 80:
			kind = "empty-object"
		case x < 82:
			kind = "typeless-key"
		case x < 84:
			kind = "null"
		default:
			kind = malformedKinds[r.IntN(len(malformedKinds))]
		}
	} else {
		switch {
		case x < 24:
			kind = "plain-string"
		case x < 30:
			kind = "plain-object"
		case x < 45:
			kind = "pbkdf2"
		case x < 55:
			kind = "bcrypt"
		case x < 80:
			kind = "wildcard"
		case x < 85:
			kind = "absent"
		case x < 90:
			kind = "empty-object"
		default:
			kind = malformedKinds[r.IntN(len(malformedKinds))]
		}
	}
	if obsolete && kind == "null" {
		kind = "plain-string"
	}
	e.Kind = kind
	e.Secret = genSecret(r, 0, 64, true)
	switch kind {
	case "plain-string":
		e.Group, e.Mode = "plain", mEqual
		e.KeyStr = e.Secret
		e.pwJSON = mustJSON(e.Secret)
	case "plain-object":
		e.Group, e.Mode = "plain", mEqual
		e.KeyStr = e.Secret
		e.pwJSON = mustJSON(map[string]any{"type": "plain", "key": e.Secret})
	case "pbkdf2":
		e.Group, e.Mode = "pbkdf2", mEqual
		iter, klen, slen := pbkdf2Params(r)
		e.pwJSON = mustJSON(makePbkdf2(e, e.Secret, randBytes(r, slen), iter, klen))
	case "bcrypt":
		e.Group, e.Mode = "bcrypt", mEqual
		// 1..64 bytes, no NUL: bcrypt's own input domain, away from its
		// 72-byte boundary (probed separately in the boundary phase)
		e.Secret = genSecret(r, 1, 64, false)
		e.KeyStr = makeBcrypt(e.Secret, bcryptCost(r))
		e.pwJSON = mustJSON(map[string]any{"type": "bcrypt", "key": e.KeyStr})
	case "wildcard":
		e.Group, e.Mode = "wildcard", mAny
		e.pwJSON = mustJSON(map[string]any{"type": "wildcard"})
	case "absent":
		if obsolete {
			// documented upgrade: no password => wildcard password
			e.Kind, e.Group, e.Mode = "obsolete-absent", "wildcard", mAny
		} else {
			e.Group, e.Mode = "none", mNever
		}
		e.pwJSON = nil
	case "empty-object":
		e.Group, e.Mode = "none", mNever
		e.pwJSON = json.RawMessage(`{}`)
	case "typeless-key":
		e.Group, e.Mode = "none", mNever
		e.KeyStr = e.Secret
		e.pwJSON = mustJSON(map[string]any{"key": e.Secret})
	case "null":
		e.Group, e.Mode = "null", mNever
		e.pwJSON = json.RawMessage(`null`)
	default:
		e.Group, e.Mode = "malformed", mMalformed
		iter, klen, slen := 1+r.IntN(8), 8+r.IntN(25), 1+r.IntN(8)
		switch kind {
		case "bad-hex-key":
			m := makePbkdf2(e, e.Secret, randBytes(r, slen), iter, klen)
			e.KeyStr = "zz" + e.KeyStr[2:]
			m["key"] = e.KeyStr
			e.pwJSON = mustJSON(m)
		case "odd-hex-key":
			m := makePbkdf2(e, e.Secret, randBytes(r, slen), iter, klen)
			e.KeyStr = e.KeyStr[:len(e.KeyStr)-1]
			m["key"] = e.KeyStr
			e.pwJSON = mustJSON(m)
		case "bad-hex-salt":
			m := makePbkdf2(e, e.Secret, randBytes(r, slen), iter, klen)
			m["salt"] = []string{"xyz", "0g", "abc", "12 34", "0x12"}[r.IntN(5)]
			e.pwJSON = mustJSON(m)
		case "unknown-type":
			e.KeyStr = e.Secret
			t := []string{"sha256", "PLAIN", "Plain", "md5", "bcrypt2", "pbkdf", "plaintext", "wild-card", "none", " plain"}[r.IntN(10)]
			e.pwJSON = mustJSON(map[string]any{"type": t, "key": e.Secret})
		case "unknown-hash":
			m := makePbkdf2(e, e.Secret, randBytes(r, slen), iter, klen)
			h := []string{"sha-1", "sha256", "SHA-256", "sha-512", "md5", ""}[r.IntN(6)]
			if h == "" {
				delete(m, "hash")
			} else {
				m["hash"] = h
			}
			e.pwJSON = mustJSON(m)
		case "missing-key-plain":
			e.pwJSON = mustJSON(map[string]any{"type": "plain"})
		case "missing-key-pbkdf2":
			m := makePbkdf2(e, e.Secret, randBytes(r, slen), iter, klen)
			delete(m, "key")
			e.KeyStr = ""
			e.pwJSON = mustJSON(m)
		case "missing-key-bcrypt":
			e.pwJSON = mustJSON(map[string]any{"type": "bcrypt"})
		case "bad-bcrypt":
			e.Secret = genSecret(r, 1, 64, false)
			h := makeBcrypt(e.Secret, 4)
			switch r.IntN(5) {
			case 0:
				e.KeyStr = "notahash"
			case 1:
				e.KeyStr = h[:20+r.IntN(30)]
			case 2:
				e.KeyStr = "$3" + h[2:]
			case 3:
				e.KeyStr = ""
			default:
				e.KeyStr = "$2a$99" + h[6:]
			}
			e.pwJSON = mustJSON(map[string]any{"type": "bcrypt", "key": e.KeyStr})
		case "pbkdf2-no-iterations":
			// key derived with 7..14 iterations, iteration count not stored:
			// no reading of the record makes the plaintext match
			m := makePbkdf2(e, e.Secret, randBytes(r, slen), 7+r.IntN(8), klen)
			delete(m, "iterations")
			e.pwJSON = mustJSON(m)
		}
	}
}

func genPerms(r *rand.Rand, e *entry) {
	switch x := r.IntN(100); {
	case x < 72:
		e.PermKind = roleNames[r.IntN(len(roleNames))]
		// op and present carry the record/token clauses: bias towards them
		if r.IntN(4) == 0 {
			e.PermKind = []string{"op", "present"}[r.IntN(2)]
		}
		e.permJSON = mustJSON(e.PermKind)
	case x < 80:
		e.PermKind = "absent"
	default:
		e.PermKind = "raw"
		p := r.Perm(len(rawPermNames))
		n := r.IntN(len(rawPermNames) + 1)
		e.Raw = []string{}
		for _, i := range p[:n] {
			e.Raw = append(e.Raw, rawPermNames[i])
		}
		e.permJSON = mustJSON(e.Raw)
	}
}

func (e *entry) userJSON() map[string]any {
	m := map[string]any{}
	if e.pwJSON != nil {
		m["password"] = e.pwJSON
	}
	if e.permJSON != nil {
		m["permissions"] = e.permJSON
	}
	return m
}

func genFlag(r *rand.Rand, top map[string]any, name string) bool {
	switch r.IntN(5) {
	case 0, 1:
		top[name] = true
		return true
	case 2:
		top[name] = false
	}
	return false
}

func genDesc(r *rand.Rand) *desc {
	d := &desc{Users: map[string]*entry{}}
	top := map[string]any{}
	d.AllowRec = genFlag(r, top, "allow-recording")
	d.Unrestr = genFlag(r, top, "unrestricted-tokens")
	// fields that must be irrelevant to the decision
	if r.IntN(4) == 0 {
		top["displayName"] = "Ankh-Morpork City Watch"
		top["public"] = r.IntN(2) == 0
	}
	if r.IntN(6) == 0 {
		top["max-clients"] = 1 + r.IntN(5)
		top["comment"] = "generated"
	}
	if r.IntN(6) == 0 {
		top["autolock"] = true
		top["codecs"] = []string{"vp8", "opus"}
	}
	nusers := r.IntN(7)
	d.Obsolete = r.IntN(8) == 0
	for len(d.order) < nusers {
		n := genName(r)
		if !d.Obsolete && r.IntN(150) == 0 {
			n = "" // an entry for the empty username is an entry like any other
		}
		if _, dup := d.Users[n]; dup {
			continue
		}
		e := &entry{Name: n}
		genPassword(r, e, false, d.Obsolete)
		if d.Obsolete {
			e.PermKind = []string{"op", "present", "message"}[r.IntN(3)]
		} else {
			genPerms(r, e)
		}
		d.Users[n] = e
		d.order = append(d.order, n)
	}
	if r.IntN(100) < 60 {
		e := &entry{}
		genPassword(r, e, true, d.Obsolete)
		if d.Obsolete {
			e.PermKind = []string{"op", "present", "message"}[r.IntN(3)]
		} else {
			genPerms(r, e)
		}
		d.Wild = e
	}
	if d.Obsolete {
		lists := map[string][]map[string]any{}
		field := map[string]string{"op": "op", "present": "presenter", "message": "other"}
		put := func(e *entry, named bool) {
			m := map[string]any{}
			if named {
				m["username"] = e.Name
			} else if r.IntN(3) == 0 {
				m["username"] = ""
			}
			if e.pwJSON != nil {
				m["password"] = e.pwJSON
			}
			f := field[e.PermKind]
			lists[f] = append(lists[f], m)
		}
		// the wildcard entry goes at a random position among the named ones
		wpos := -1
		if d.Wild != nil {
			wpos = r.IntN(len(d.order) + 1)
		}
		for i, n := range d.order {
			if i == wpos {
				put(d.Wild, false)
			}
			put(d.Users[n], true)
		}
		if wpos == len(d.order) {
			put(d.Wild, false)
		}
		for f, l := range lists {
			top[f] = l
		}
		if len(lists) == 0 && r.IntN(2) == 0 {
			top["other"] = []map[string]any{}
		}
	} else {
		if len(d.order) > 0 || r.IntN(3) == 0 {
			us := map[string]any{}
			for n, e := range d.Users {
				us[n] = e.userJSON()
			}
			top["users"] = us
		}
		if d.Wild != nil {
			top["wildcard-user"] = d.Wild.userJSON()
		}
	}
	d.JSON = mustJSON(top)
	return d
}

// credentials ----------------------------------------------------------------

type cred struct {
	User  string `json:"username"`
	Pw    string `json:"password"`
	Class string `json:"class"`
}

func swapCase(s string) string {
	return strings.Map(func(c rune) rune {
		if unicode.IsUpper(c) {
			return unicode.ToLower(c)
		}
		if unicode.IsLower(c) {
			return unicode.ToUpper(c)
		}
		return c
	}, s)
}

var nearClasses = []string{"prefix", "suffix", "case", "nul", "empty", "other-user", "long", "keystring", "space", "random", "lastchar", "partial-key"}

func nearMiss(r *rand.Rand, e *entry, class string, d *desc) string {
	p := e.Secret
	rs := []rune(p)
	switch class {
	case "prefix":
		if len(rs) == 0 {
			return "x"
		}
		return string(rs[:len(rs)-1-r.IntN((len(rs)+1)/2)])
	case "suffix":
		return p + string(alnum[r.IntN(len(alnum))])
	case "case":
		return swapCase(p)
	case "nul":
		return p + "\x00"
	case "empty":
		return ""
	case "other-user":
		var others []string
		for _, n := range d.order {
			if o := d.Users[n]; o != e {
				others = append(others, o.Secret)
			}
		}
		if d.Wild != nil && d.Wild != e {
			others = append(others, d.Wild.Secret)
		}
		if len(others) == 0 {
			return genSecret(r, 1, 64, false)
		}
		return others[r.IntN(len(others))]
	case "long":
		if r.IntN(2) == 0 {
			return p + strings.Repeat("A", 3000+r.IntN(3000))
		}
		return strings.Repeat(p+"-", 1+4096/(len(p)+1))
	case "keystring":
		if e.KeyStr != "" && e.KeyStr != p {
			return e.KeyStr
		}
		return p + p
	case "space":
		if r.IntN(2) == 0 {
			return p + " "
		}
		return " " + p
	case "lastchar":
		if len(rs) == 0 {
			return "\x00"
		}
		i := len(rs) - 1
		if r.IntN(2) == 0 {
			i = r.IntN(len(rs))
		}
		rs[i] ^= 1
		if rs[i] == 0 {
			rs[i] = 'q'
		}
		return string(rs)
	case "partial-key":
		// a different password whose derived key shares the first byte of
		// the stored key (cheap for small iteration counts only)
		if e.Group == "pbkdf2" && e.iter <= 16 && len(e.key) >= 8 {
			if c, ok := partialCollision(e, 1, 6000, r.Uint64()); ok {
				return c
			}
		}
		return genSecret(r, 1, 64, false)
	}
	return genSecret(r, 1, 64, false)
}

func partialCollision(e *entry, nbytes int, budget int, tag uint64) (string, bool) {
	for i := 0; i < budget; i++ {
		c := fmt.Sprintf("c%x-%d", tag&0xffff, i)
		if c == e.Secret {
			continue
		}
		k, err := pbkdf2.Key(sha256.New, c, e.salt, e.iter, len(e.key))
		if err != nil {
			return "", false
		}
		if bytes.Equal(k[:nbytes], e.key[:nbytes]) && !bytes.Equal(k, e.key) {
			return c, true
		}
	}
	return "", false
}

func freshName(r *rand.Rand, d *desc) string {
	for {
		n := genName(r) + []string{"", "_", "2", " jr"}[r.IntN(4)]
		if _, ok := d.Users[n]; !ok && n != "" {
			return n
		}
	}
}

func genCreds(r *rand.Rand, d *desc) []cred {
	var cs []cred
	add := func(u, p, c string) { cs = append(cs, cred{u, p, c}) }
	for _, n := range d.order {
		e := d.Users[n]
		add(n, e.Secret, "right")
		cls := nearClasses[r.IntN(len(nearClasses))]
		add(n, nearMiss(r, e, cls, d), cls)
		if d.Wild != nil && r.IntN(2) == 0 {
			add(n, d.Wild.Secret, "wildcard-pw")
		}
	}
	unk := freshName(r, d)
	if d.Wild != nil {
		add(unk, d.Wild.Secret, "unknown-wc-right")
		cls := nearClasses[r.IntN(len(nearClasses))]
		add(freshName(r, d), nearMiss(r, d.Wild, cls, d), "unknown-wc-"+cls)
	} else {
		add(unk, genSecret(r, 0, 64, true), "unknown-no-wc")
	}
	if len(d.order) > 0 {
		e := d.Users[d.order[r.IntN(len(d.order))]]
		add(freshName(r, d), e.Secret, "unknown-other-users-pw")
		switch r.IntN(3) {
		case 0:
			add(swapCase(e.Name), e.Secret, "uname-case")
		case 1:
			add(e.Name+" ", e.Secret, "uname-space")
		}
	}
	wpw := genSecret(r, 0, 64, true)
	if d.Wild != nil && r.IntN(3) > 0 {
		wpw = d.Wild.Secret
	}
	if r.IntN(3) == 0 {
		add("", wpw, "empty-uname")
	}
	if r.IntN(8) == 0 {
		add(invalidNames[r.IntN(len(invalidNames))], wpw, "invalid-uname")
	}
	return cs
}

// observation ---------------------------------------------------------------

var groupsDir string

func loadDesc(name string, js []byte) (*group.Description, error) {
	fn := filepath.Join(groupsDir, filepath.FromSlash(name)+".json")
	if err := os.MkdirAll(filepath.Dir(fn), 0o755); err != nil {
		return nil, err
	}
	if err := os.WriteFile(fn, js, 0o600); err != nil {
		return nil, err
	}
	defer os.Remove(fn)
	return group.GetDescription(name)
}

type outcome struct {
	Accepted bool     `json:"accepted"`
	Username string   `json:"username,omitempty"`
	Perms    []string `json:"permissions"`
	Err      string   `json:"error,omitempty"`
	Panic    string   `json:"panic,omitempty"`
}

func login(gd *group.Description, gname, user, pw string) (o outcome) {
	defer func() {
		if p := recover(); p != nil {
			o = outcome{Panic: fmt.Sprint(p)}
		}
	}()
	u := user
	name, perms, err := gd.GetPermission(gname, group.ClientCredentials{Username: &u, Password: pw})
	if err != nil {
		return outcome{Err: err.Error()}
	}
	return outcome{Accepted: true, Username: name, Perms: append([]string{}, perms...)}
}

func short(s string) string {
	if len(s) > 80 {
		return fmt.Sprintf("%q...(%d bytes)", s[:60], len(s))
	}
	return fmt.Sprintf("%q", s)
}

// checkCred runs one credential against the loaded description and the model.
func checkCred(run *vk.Run, phase string, idx uint64, gname string, gd *group.Description, d *desc, c cred) {
	acc, ent, addr, equiv := d.decide(c.User, c.Pw)
	if equiv {
		run.Count("hash_equivalent_candidates_skipped", 1)
		return
	}
	run.Eval(1)
	o := login(gd, gname, c.User, c.Pw)
	kind, grp, wkind, perm := "no-entry", "noentry", "none", "none"
	if ent != nil {
		kind, grp, perm = ent.Kind, ent.Group, ent.PermKind
	}
	if d.Wild != nil {
		wkind = d.Wild.Kind
	}
	replay := func(exp any) map[string]any {
		return map[string]any{"phase": phase, "index": idx, "description": string(d.JSON), "credentials": c,
			"expected": exp, "observed": o, "addressed": addr, "entry_password_kind": kind}
	}
	run.Distinct(fmt.Sprintf("%s|%v|%s|%s|%v%v|%s|%s", kind, d.Wild != nil, wkind, perm, d.AllowRec, d.Unrestr, c.Class, addr))
	run.Count("pw_"+grp, 1)
	if o.Panic != "" {
		run.Violation("panic-in-GetPermission:"+kind, fmt.Sprintf("GetPermission panicked (%s) for user %s password %s, entry kind %s", o.Panic, short(c.User), short(c.Pw), kind), replay("no panic"))
		return
	}
	if addr == "named-shadowing-wildcard" {
		run.Count("shadowing_cases", 1)
	}
	invalid := !validName(c.User)
	if invalid {
		run.Count("invalid_username_cases", 1)
	}
	switch {
	case o.Accepted && !acc:
		key := "accepted-without-matching-password:" + addr + ":" + kind + ":" + c.Class
		if grp == "null" && c.Pw == "" {
			key = "null-password-entry-admits-empty-password"
		}
		run.Violation(key, fmt.Sprintf("user %s password %s ACCEPTED (perms %v) but %s; addressed=%s entry password kind=%s wildcard kind=%s class=%s",
			short(c.User), short(c.Pw), o.Perms, why(d, c, ent, addr), addr, kind, wkind, c.Class), replay(map[string]any{"accepted": false}))
		return
	case !o.Accepted && acc:
		if invalid {
			return // documented restriction on usernames, counted as a refusal
		}
		run.Violation("refused-despite-matching-password:"+addr+":"+kind, fmt.Sprintf("user %s password %s REFUSED (%s) but the %s entry's password (kind %s) matches",
			short(c.User), short(c.Pw), o.Err, addr, kind), replay(map[string]any{"accepted": true, "permissions": expectedPerms(ent, d)}))
		return
	case !o.Accepted:
		run.Count("refused_logins", 1)
		if grp == "malformed" {
			run.Count("malformed_refused", 1)
		}
		return
	}
	run.Count("accepted_logins", 1)
	if addr == "wildcard" {
		run.Count("wildcard_fallback_accepts", 1)
	}
	if o.Username != c.User {
		run.Violation("accepted-under-different-username", fmt.Sprintf("login as %s accepted under username %s", short(c.User), short(o.Username)), replay(map[string]any{"username": c.User}))
		return
	}
	want := expectedPerms(ent, d)
	flags := fmt.Sprintf("rec=%v:tok=%v", d.AllowRec, d.Unrestr)
	if hasDup(o.Perms) {
		run.Violation("duplicate-permission:"+perm+":"+flags, fmt.Sprintf("permissions %v for role %s contain a duplicate", o.Perms, perm), replay(map[string]any{"accepted": true, "permissions": want}))
		return
	}
	if !sameSet(o.Perms, want) {
		run.Violation("wrong-permissions:"+perm+":"+flags, fmt.Sprintf("role %s (allow-recording=%v unrestricted-tokens=%v) granted %v, expected exactly %v", perm, d.AllowRec, d.Unrestr, o.Perms, want),
			replay(map[string]any{"accepted": true, "permissions": want}))
		return
	}
	run.Count("permission_sets_checked", 1)
	if perm == "raw" {
		run.Count("raw_permission_sets_checked", 1)
	} else if perm != "absent" {
		if has(want, "record") {
			run.Count("record_granted_to_op", 1)
		}
		if perm == "present" && has(want, "token") {
			run.Count("token_granted_to_presenter", 1)
		}
		if perm == "present" && !d.Unrestr {
			run.Count("token_withheld_from_presenter", 1)
		}
		if perm == "op" && !d.AllowRec {
			run.Count("record_withheld_from_op", 1)
		}
	}
}

func why(d *desc, c cred, ent *entry, addr string) string {
	switch addr {
	case "none":
		return "the username has no entry and there is no wildcard user"
	case "wildcard":
		return "the username has no entry and the wildcard user's password does not match"
	case "named-shadowing-wildcard":
		return "the username has an entry whose password does not match (the wildcard user's would, but an entry shadows the wildcard)"
	}
	switch ent.Mode {
	case mNever:
		return "the username's entry has no password"
	case mMalformed:
		return "the username's entry has a malformed password record"
	}
	return "the username's entry has a different password"
}

func modelCase(run *vk.Run, idx uint64) {
	r := run.Rand(1, idx)
	d := genDesc(r)
	gname := fmt.Sprintf("m%d/g%d", idx%64, idx)
	gd, err := loadDesc(gname, d.JSON)
	if err != nil {
		run.Inconclusive(fmt.Sprintf("generated description %d was not loaded: %v", idx, err))
		return
	}
	creds := genCreds(r, d)
	if d.Obsolete {
		run.Count("obsolete_format_descriptions", 1)
	}
	for _, c := range creds {
		checkCred(run, "model", idx, gname, gd, d, c)
	}
	if idx < 2 {
		run.Sample(map[string]any{"description": json.RawMessage(d.JSON), "credentials": creds[:min(len(creds), 4)]})
	}
}

// tool round trip -------------------------------------------------------------

type toolCase struct {
	Alg      string `json:"type"` // "" = flag omitted
	Iter     int    `json:"iterations"`
	KeyLen   int    `json:"key"`
	SaltLen  int    `json:"salt"`
	Cost     int    `json:"cost"` // <0: flag omitted
	Pw       string `json:"password"`
	WithWild bool   `json:"with_wildcard"`
}

var toolBin, toolHome string
var toolMissing atomic.Bool

func runTool(tc toolCase) ([]byte, string, error) {
	args := []string{"-config", filepath.Join(toolHome, "no-such-galenectl.json"), "hash-password"}
	if tc.Alg != "" {
		args = append(args, "-type", tc.Alg)
	}
	if tc.Alg != "wildcard" {
		args = append(args, "-password="+tc.Pw)
	}
	if tc.Iter >= 0 {
		args = append(args, "-iterations", fmt.Sprint(tc.Iter))
	}
	if tc.KeyLen >= 0 {
		args = append(args, "-key", fmt.Sprint(tc.KeyLen))
	}
	if tc.SaltLen >= 0 {
		args = append(args, "-salt", fmt.Sprint(tc.SaltLen))
	}
	if tc.Cost >= 0 {
		args = append(args, "-cost", fmt.Sprint(tc.Cost))
	}
	cmd := exec.Command(toolBin, args...)
	cmd.Env = []string{"HOME=" + toolHome, "XDG_CONFIG_HOME=" + filepath.Join(toolHome, "xdg"), "PATH=/usr/bin:/bin"}
	cmd.Dir = toolHome
	var so, se bytes.Buffer
	cmd.Stdout, cmd.Stderr = &so, &se
	err := cmd.Run()
	return so.Bytes(), se.String(), err
}

func toolPassword(r *rand.Rand, maxLen int) string {
	for {
		s := genSecret(r, 1, maxLen, false)
		if !strings.ContainsRune(s, 0) {
			return s
		}
	}
}

func genToolCase(r *rand.Rand, idx uint64) toolCase {
	tc := toolCase{Alg: "bcrypt", Iter: -1, KeyLen: -1, SaltLen: -1, Cost: -1, Pw: toolPassword(r, 60), WithWild: r.IntN(2) == 0}
	switch idx {
	case 0:
		tc.Alg = "" // the tool's default algorithm and parameters
	case 1:
		tc.Alg = "pbkdf2" // the tool's default pbkdf2 parameters
	case 2:
		tc.Alg = "wildcard"
	case 3:
		tc.Cost = 10
	case 4:
		tc.Alg, tc.Iter, tc.KeyLen, tc.SaltLen = "pbkdf2", 4096, 64, 32
	case 5:
		tc.Alg, tc.Iter, tc.KeyLen, tc.SaltLen = "pbkdf2", 1, 1, 0
	case 6:
		tc.Cost = 4
		tc.Pw = "-password=x -type wildcard" // must be taken literally
	default:
		if r.IntN(2) == 0 {
			tc.Cost = 4 + r.IntN(3)
			if r.IntN(20) == 0 {
				tc.Cost = 7 + r.IntN(2)
			}
		} else {
			tc.Alg = "pbkdf2"
			tc.Iter, tc.KeyLen, tc.SaltLen = pbkdf2Params(r)
			// leave some flags to their defaults
			if r.IntN(4) == 0 {
				tc.KeyLen = -1
			}
			if r.IntN(4) == 0 {
				tc.SaltLen = -1
			}
			if r.IntN(8) == 0 {
				tc.Iter = -1
			}
		}
	}
	return tc
}

// toolNearMisses returns n distinct strings different from p.
func toolNearMisses(r *rand.Rand, p string, n int, skip func(string) bool, extra ...string) []cred {
	rs := []rune(p)
	var out []cred
	seen := map[string]bool{p: true}
	add := func(s, class string) {
		if !seen[s] && len(out) < n && !skip(s) {
			seen[s] = true
			out = append(out, cred{"u", s, class})
		}
	}
	for _, s := range extra {
		add(s, "wildcard-pw")
	}
	add("", "empty")
	add(string(rs[:len(rs)-1]), "prefix")
	add(string(rs[:len(rs)/2]), "prefix")
	add(string(rs[1:]), "tail")
	add(p+"x", "suffix")
	add(p+" ", "space")
	add(" "+p, "space")
	add(p+"\x00", "nul")
	add("\x00"+p, "nul")
	add(p+"\n", "suffix")
	add(swapCase(p), "case")
	add(strings.ToUpper(p), "case")
	add(strings.ToLower(p), "case")
	for _, i := range []int{0, len(rs) - 1, len(rs) / 2} {
		q := append([]rune{}, rs...)
		q[i] ^= 1
		if q[i] == 0 {
			q[i] = 'q'
		}
		add(string(q), "lastchar")
	}
	add(p+p, "doubled")
	add(p+strings.Repeat("A", 5000), "long")
	add(strings.Repeat("z", 4096), "long")
	if len(rs) > 2 {
		add(string(rs[:len(rs)/2])+string(rs[len(rs)/2+1:]), "dropped-char")
	}
	for len(out) < n {
		add(genSecret(r, 1, 64, false), "random")
	}
	return out
}

func toolFail(run *vk.Run, idx uint64, tc toolCase, key, what string, extra map[string]any) {
	rep := map[string]any{"phase": "tool", "index": idx, "tool_case": tc}
	for k, v := range extra {
		rep[k] = v
	}
	run.Violation(key, what, rep)
}

// hashWithTool runs galenectl and returns the record it printed.
func hashWithTool(run *vk.Run, idx uint64, tc toolCase) (json.RawMessage, map[string]any, bool) {
	out, stderr, err := runTool(tc)
	alg := tc.Alg
	if alg == "" {
		alg = "default"
	}
	if err != nil {
		var ee *exec.ExitError
		if !errors.As(err, &ee) {
			if !toolMissing.Swap(true) {
				run.Inconclusive(fmt.Sprintf("cannot run %s: %v", toolBin, err))
			}
			return nil, nil, false
		}
		toolFail(run, idx, tc, "tool-refused-supported-parameters:"+alg, fmt.Sprintf("galenectl hash-password %+v failed: %v: %s", tc, err, strings.TrimSpace(stderr)), nil)
		return nil, nil, false
	}
	raw := bytes.TrimSpace(out)
	var rec map[string]any
	if err := json.Unmarshal(raw, &rec); err != nil {
		toolFail(run, idx, tc, "tool-output-not-json:"+alg, fmt.Sprintf("galenectl hash-password printed %q which is not one JSON object: %v", out, err), nil)
		return nil, nil, false
	}
	return json.RawMessage(raw), rec, true
}

func toolDesc(rec json.RawMessage, wildPw string) *desc {
	top := map[string]any{"users": map[string]any{"u": map[string]any{"password": rec, "permissions": "present"}}}
	if wildPw != "" {
		top["wildcard-user"] = map[string]any{"password": wildPw, "permissions": "message"}
	}
	return &desc{JSON: mustJSON(top)}
}

// toolLongPassword: bcrypt only reads the first 72 bytes of a password.  For a longer
// password the tool may refuse, or produce a record that tells the password apart from
// every other one; a record that also admits a password with a different tail beyond byte
// 72 (of which the hashed password is not a prefix) verifies "for another password".
func toolLongPassword(run *vk.Run, idx uint64) {
	r := run.Rand(12, idx)
	n := 73 + r.IntN(120)
	pw := toolPassword(r, 60)
	for len(pw) < n {
		pw += toolPassword(r, 60)
	}
	pw = pw[:n]
	tc := toolCase{Alg: []string{"", "bcrypt"}[r.IntN(2)], Iter: -1, KeyLen: -1, SaltLen: -1, Cost: 4, Pw: pw}
	out, _, err := runTool(tc)
	run.Eval(1)
	if err != nil {
		var ee *exec.ExitError
		if errors.As(err, &ee) {
			run.Count("tool_refused_password_beyond_bcrypt_limit", 1)
		}
		return
	}
	raw := bytes.TrimSpace(out)
	var rec map[string]any
	if json.Unmarshal(raw, &rec) != nil {
		return
	}
	gname := fmt.Sprintf("tool/long%d", idx)
	d := toolDesc(json.RawMessage(raw), "")
	gd, err := loadDesc(gname, d.JSON)
	if err != nil {
		return
	}
	if o := login(gd, gname, "u", pw); !o.Accepted {
		toolFail(run, idx, tc, "tool-hash-does-not-verify:long-password", fmt.Sprintf("galenectl hashed a %d-byte password into %s; the server refuses that very password: %s", n, raw, o.Err), map[string]any{"phase": "tool-long", "record": string(raw)})
		return
	}
	other := []byte(pw)
	k := 72 + r.IntN(n-72)
	other[k] ^= 0x01
	if o := login(gd, gname, "u", string(other)); o.Accepted {
		toolFail(run, idx, tc, "tool-hash-verifies-other-password:differs-beyond-byte-72", fmt.Sprintf("galenectl accepted a %d-byte password and printed %s; the record also admits a password of the same length that differs at byte %d", n, raw, k), map[string]any{"phase": "tool-long", "record": string(raw), "other": string(other)})
		return
	}
	run.Count("tool_long_password_round_trips", 1)
}

func toolRoundTrip(run *vk.Run, idx uint64) {
	r := run.Rand(2, idx)
	tc := genToolCase(r, idx)
	raw, rec, ok := hashWithTool(run, idx, tc)
	if !ok {
		return
	}
	alg := tc.Alg
	if alg == "" {
		alg = "default"
	}
	wildPw := ""
	if tc.WithWild {
		wildPw = "W-" + toolPassword(r, 20)
	}
	d := toolDesc(raw, wildPw)
	gname := fmt.Sprintf("tool/t%d", idx)
	gd, err := loadDesc(gname, d.JSON)
	if err != nil {
		toolFail(run, idx, tc, "tool-record-not-loadable:"+alg, fmt.Sprintf("a description holding the record %s printed by galenectl is rejected by the loader: %v", raw, err), map[string]any{"record": raw})
		return
	}
	run.Eval(1)
	typ, _ := rec["type"].(string)
	if tc.Alg == "wildcard" {
		// not a hash: documented to admit any password
		for i := 0; i < 5; i++ {
			pw := genSecret(r, 0, 64, true)
			if o := login(gd, gname, "u", pw); !o.Accepted {
				toolFail(run, idx, tc, "tool-wildcard-record-refuses", fmt.Sprintf("record %s (type wildcard) refused password %s: %s", raw, short(pw), o.Err), map[string]any{"record": raw})
				return
			}
		}
		run.Count("tool_wildcard_round_trips", 1)
		return
	}
	// the harness's own reading of a pbkdf2 record, used only to recognise
	// genuine collisions of very short keys
	var salt, key []byte
	iter := 0
	if typ == "pbkdf2" {
		ks, _ := rec["key"].(string)
		ss, _ := rec["salt"].(string)
		key, _ = hex.DecodeString(ks)
		salt, _ = hex.DecodeString(ss)
		if f, ok := rec["iterations"].(float64); ok {
			iter = int(f)
		}
		wi, wk, ws := tc.Iter, tc.KeyLen, tc.SaltLen
		if wi < 0 {
			wi = 4096
		}
		if wk < 0 {
			wk = 32
		}
		if ws < 0 {
			ws = 8
		}
		if iter == wi && len(key) == wk && len(salt) == ws {
			run.Count("tool_parameters_as_requested", 1)
		}
	} else if typ == "bcrypt" {
		ks, _ := rec["key"].(string)
		c, err := bcrypt.Cost([]byte(ks))
		wc := tc.Cost
		if wc < 0 {
			wc = 8
		}
		if err == nil && c == wc {
			run.Count("tool_parameters_as_requested", 1)
		}
	}
	o := login(gd, gname, "u", tc.Pw)
	if !o.Accepted {
		toolFail(run, idx, tc, "tool-hash-does-not-verify:"+alg, fmt.Sprintf("galenectl hash-password %+v printed %s; the server refuses that very password: %s%s", tc, raw, o.Err, o.Panic),
			map[string]any{"record": raw, "description": string(d.JSON), "observed": o})
		return
	}
	if !sameSet(o.Perms, []string{"present", "message"}) {
		toolFail(run, idx, tc, "wrong-permissions:present:rec=false:tok=false", fmt.Sprintf("role present granted %v", o.Perms), map[string]any{"description": string(d.JSON)})
		return
	}
	run.Count("accepted_logins", 1)
	var extra []string
	if wildPw != "" {
		extra = append(extra, wildPw)
	}
	ref := &entry{Mode: mEqual, Group: typ, Secret: tc.Pw}
	for _, c := range toolNearMisses(r, tc.Pw, 20, ref.equivalent, extra...) {
		run.Eval(1)
		if typ == "pbkdf2" && len(key) > 0 && len(key) < 8 && iter > 0 {
			if k, err := pbkdf2.Key(sha256.New, c.Pw, salt, iter, len(key)); err == nil && bytes.Equal(k, key) {
				run.Count("short_key_collisions_skipped", 1)
				continue
			}
		}
		run.Distinct(fmt.Sprintf("tool|%s|%s", alg, c.Class))
		o := login(gd, gname, "u", c.Pw)
		if o.Accepted || o.Panic != "" {
			toolFail(run, idx, tc, "tool-hash-verifies-other-password:"+alg+":"+c.Class, fmt.Sprintf("record %s printed by galenectl for password %s also admits %s (%s) %s", raw, short(tc.Pw), short(c.Pw), c.Class, o.Panic),
				map[string]any{"record": raw, "description": string(d.JSON), "credentials": c, "observed": o})
			return
		}
		run.Count("refused_logins", 1)
		run.Count("tool_near_misses_refused", 1)
		if c.Class == "wildcard-pw" {
			run.Count("shadowing_cases", 1)
		}
	}
	run.Distinct(fmt.Sprintf("tool|%s|i%d|k%d|s%d|c%d|w%v", alg, bucket(tc.Iter), tc.KeyLen, tc.SaltLen, tc.Cost, tc.WithWild))
	run.Count("tool_round_trips", 1)
	run.Count("tool_round_trips_"+typ, 1)
	if idx < 2 {
		run.Sample(map[string]any{"tool_case": tc, "record": raw})
	}
}

func bucket(c int) int {
	b := 0
	for c > 1 {
		c >>= 1
		b++
	}
	return b
}

// boundary phase --------------------------------------------------------------
//
// Inputs at the edges of the hash functions' domains.  They are kept apart
// from the bulk so that each has one stable key.

func boundaryCase(run *vk.Run, idx uint64) {
	r := run.Rand(3, idx)
	variant := idx % 8
	e := &entry{Name: "u", PermKind: "message", permJSON: mustJSON("message")}
	var cands []cred
	var key, what string
	tc := toolCase{Alg: "bcrypt", Iter: -1, KeyLen: -1, SaltLen: -1, Cost: 4}
	fixed := func(n int) string {
		for {
			s := toolPassword(r, n)
			for len(s) < n {
				s += string(alnum[r.IntN(len(alnum))])
			}
			if len(s) == n {
				return s
			}
		}
	}
	fromTool := false
	switch variant {
	case 0, 1, 2:
		n := 72
		if variant == 2 {
			n = 71
		}
		e.Secret = fixed(n)
		fromTool = variant == 1
		key = "bcrypt-admits-extension-beyond-72-bytes"
		what = fmt.Sprintf("bcrypt record for a %d-byte password also admits a longer password with the same first %d bytes", n, n)
		if n == 72 {
			cands = []cred{{"u", e.Secret + "x", "suffix"}, {"u", e.Secret + strings.Repeat("B", 200), "long"}}
		} else {
			cands = []cred{{"u", e.Secret + "\x00", "nul"}, {"u", e.Secret + "\x00tail", "nul"}}
		}
	case 3, 4:
		fromTool = variant == 3
		if fromTool {
			e.Secret = toolPassword(r, 20)
		} else if r.IntN(2) == 0 {
			e.Secret = ""
		} else {
			e.Secret = toolPassword(r, 30)
		}
		key = "bcrypt-admits-nul-separated-repetition"
		what = "bcrypt record for password P also admits P+NUL+P (the key schedule cycles over P+NUL)"
		cands = []cred{{"u", e.Secret + "\x00" + e.Secret, "nul-cycle"}}
	case 5:
		e.Kind, e.Group, e.Mode = "pbkdf2", "pbkdf2", mEqual
		e.Secret = genSecret(r, 0, 64, true)
		e.pwJSON = mustJSON(makePbkdf2(e, e.Secret, randBytes(r, 8), 1, 32))
		nb := 2 // one-byte collisions are part of the bulk near misses
		c, ok := partialCollision(e, nb, 500000, r.Uint64())
		if !ok {
			run.Count("partial_collision_not_found", 1)
			return
		}
		key = "pbkdf2-admits-partial-key-collision"
		what = fmt.Sprintf("pbkdf2 record also admits a password whose derived key shares only the first %d byte(s)", nb)
		cands = []cred{{"u", c, "partial-key"}}
	case 6, 7:
		fromTool = variant == 7
		e.Kind, e.Group, e.Mode = "pbkdf2", "pbkdf2", mEqual
		e.Secret = toolPassword(r, 40)
		key = "pbkdf2-admits-trailing-nul"
		what = "pbkdf2 record for password P also admits P+NUL (HMAC zero-pads a key shorter than its block)"
		cands = []cred{{"u", e.Secret + "\x00", "nul"}, {"u", e.Secret + "\x00\x00\x00", "nul"}}
		if fromTool {
			tc = toolCase{Alg: "pbkdf2", Iter: 1 + r.IntN(64), KeyLen: -1, SaltLen: -1, Cost: -1, Pw: e.Secret}
			raw, _, ok := hashWithTool(run, idx, tc)
			if !ok {
				return
			}
			e.pwJSON = raw
		} else {
			iter, _, slen := pbkdf2Params(r)
			e.pwJSON = mustJSON(makePbkdf2(e, e.Secret, randBytes(r, slen), 1+iter%64, 32))
		}
	}
	if variant < 5 {
		e.Kind, e.Group, e.Mode = "bcrypt", "bcrypt", mEqual
		if fromTool {
			tc.Pw = e.Secret
			raw, _, ok := hashWithTool(run, idx, tc)
			if !ok {
				return
			}
			e.pwJSON = raw
		} else {
			e.KeyStr = makeBcrypt(e.Secret, 4)
			e.pwJSON = mustJSON(map[string]any{"type": "bcrypt", "key": e.KeyStr})
		}
	}
	d := &desc{Users: map[string]*entry{"u": e}, order: []string{"u"}}
	d.JSON = mustJSON(map[string]any{"users": map[string]any{"u": e.userJSON()}})
	gname := fmt.Sprintf("edge/b%d", idx)
	gd, err := loadDesc(gname, d.JSON)
	if err != nil {
		run.Inconclusive(fmt.Sprintf("boundary description %d was not loaded: %v", idx, err))
		return
	}
	checkCred(run, "boundary", idx, gname, gd, d, cred{"u", e.Secret, "right"})
	for _, c := range cands {
		run.Eval(1)
		run.Distinct(fmt.Sprintf("boundary|%s|%s|tool=%v", key, c.Class, fromTool))
		o := login(gd, gname, "u", c.Pw)
		if o.Accepted && variant != 5 {
			// The candidate is equivalent to the stored password under the declared algorithm
			// itself (HMAC zero-pads short keys, bcrypt reads at most 72 bytes and cycles over
			// P+NUL): any correct implementation of pbkdf2 / bcrypt admits it, so this is the
			// algorithm's verdict, not a defect of galene.  "For no other password" is read
			// modulo the declared hash function; the observation is counted, not judged.
			run.Count("hash_function_equivalences_observed", 1)
			run.Count("equivalence_"+key, 1)
			continue
		}
		if o.Accepted {
			run.Violation(key, fmt.Sprintf("%s: stored for %s (hashed by %s), admits %s", what, short(e.Secret), map[bool]string{true: "galenectl", false: "the harness"}[fromTool], short(c.Pw)),
				map[string]any{"phase": "boundary", "index": idx, "description": string(d.JSON), "right_password": e.Secret, "credentials": c, "expected": map[string]any{"accepted": false}, "observed": o})
			return
		}
		run.Count("refused_logins", 1)
		run.Count("boundary_candidates_refused", 1)
	}
	run.Count("boundary_cases", 1)
}

// driver --------------------------------------------------------------------

func pool(n uint64, f func(uint64)) {
	workers := runtime.GOMAXPROCS(0)
	var wg sync.WaitGroup
	var next atomic.Uint64
	for w := 0; w < workers; w++ {
		wg.Add(1)
		go func() {
			defer wg.Done()
			for {
				i := next.Add(1) - 1
				if i >= n {
					return
				}
				f(i)
			}
		}()
	}
	wg.Wait()
}

func main() {
	if _, ok := vk.InChild(); ok {
		histChild()
		return
	}
	run := vk.Start("C08")
	groupsDir = filepath.Join(run.Scratch, "groups")
	toolHome = filepath.Join(run.Scratch, "toolhome")
	os.MkdirAll(groupsDir, 0o755)
	os.MkdirAll(toolHome, 0o755)
	group.Directory = groupsDir
	group.DataDirectory = filepath.Join(run.Scratch, "data")
	toolBin = filepath.Join(os.Getenv("VERIF_BIN"), "galenectl")

	if rep, ok := vk.ReplayInput(); ok {
		if s, ok := rep["seed"].(float64); ok {
			run.Seed = int64(s)
		}
		if m, ok := rep["replay"].(map[string]any); ok {
			run.Sample(m)
			idx, _ := m["index"].(float64)
			switch m["phase"] {
			case "model":
				modelCase(run, uint64(idx))
			case "tool":
				toolRoundTrip(run, uint64(idx))
			case "tool-long":
				toolLongPassword(run, uint64(idx))
			case "boundary":
				boundaryCase(run, uint64(idx))
			}
		}
		run.Finish("exploration", "replay of one recorded case (regenerated from the recorded seed and index)")
	}

	if _, err := os.Stat(toolBin); err != nil {
		run.Inconclusive("galenectl binary not built: " + err.Error())
	}
	ndesc := run.Pick(1500, 200000)
	ntool := run.Pick(40, 3000)
	nedge := run.Pick(16, 400)
	pool(uint64(ntool), func(i uint64) { toolRoundTrip(run, i) })
	pool(uint64(run.Pick(12, 200)), func(i uint64) { toolLongPassword(run, i) })
	pool(uint64(nedge), func(i uint64) { boundaryCase(run, i) })
	pool(uint64(ndesc), func(i uint64) { modelCase(run, i) })
	historyTier(run)

	run.Set("descriptions", ndesc)
	run.Set("tool_cases", ntool)
	run.Set("boundary_cases_planned", nedge)
	run.FloorCounter("accepted_logins", 2000)
	run.FloorCounter("refused_logins", 5000)
	run.FloorCounter("shadowing_cases", 300)
	run.FloorCounter("wildcard_fallback_accepts", 300)
	for _, g := range []string{"plain", "pbkdf2", "bcrypt", "wildcard", "none", "malformed"} {
		run.FloorCounter("pw_"+g, 300)
	}
	run.FloorCounter("malformed_refused", 300)
	run.FloorCounter("permission_sets_checked", 2000)
	run.FloorCounter("raw_permission_sets_checked", 100)
	run.FloorCounter("record_granted_to_op", 50)
	run.FloorCounter("record_withheld_from_op", 50)
	run.FloorCounter("token_granted_to_presenter", 50)
	run.FloorCounter("token_withheld_from_presenter", 50)
	run.FloorCounter("obsolete_format_descriptions", 50)
	run.FloorCounter("tool_round_trips", int64(ntool*3/4))
	run.FloorCounter("tool_round_trips_pbkdf2", 8)
	run.FloorCounter("tool_round_trips_bcrypt", 8)
	run.FloorCounter("tool_near_misses_refused", int64(ntool*12))
	run.Assume("stored pbkdf2 keys are derived with the standard library's crypto/pbkdf2 and bcrypt hashes with x/crypto/bcrypt; 'matches' for keys of 8 bytes or more is equality with the plaintext the record was built from (no collisions), for 1..7-byte keys it is equality of the derived key")
	run.Assume("usernames that fail the documented path-traversal validation may be refused even when an entry matches; they are never required to be accepted")
	run.Assume("history clause: after random moderation actions by an operator on other members (real server, websocket), fresh logins of every entry must be granted exactly the configured set, observed in the 'joined' message")
	run.Assume("galenectl cannot be given an empty or NUL-containing password on its command line; tool round trips use 1..60-byte passwords, bcrypt cost 4..10, pbkdf2 iterations 1..4096 x key 1..64 x salt 0..32")
	run.Finish("exploration", "descriptions generated from (seed,index): 0..6 named users + optional wildcard user, each with one of 20 password encodings (plain string/object, pbkdf2, bcrypt, wildcard, absent, {}, type-less, null, 10 malformed variants) and a role name, no role or a raw permission array, allow-recording x unrestricted-tokens, 1 in 8 in the obsolete op/presenter/other format; loaded by the real loader and queried with each user's right password, near misses (prefix, suffix, case, NUL, empty, other user's, wildcard's, long, stored key, partial key collision), unknown / case-variant / empty / invalid usernames; plus galenectl hash-password round trips (algorithm x parameters, 20 near misses each) and hash-domain boundary cases; distinct_nontrivial = distinct (addressed entry's password kind, wildcard present, wildcard kind, role or raw, flags, credential class, addressed slot) tuples")
}
