package main

// History clause of C08: "exactly the role's permissions" must also hold after any
// history of moderation actions on OTHER users.  A child process runs the real server;
// operators op/unop/present/unpresent/shutup/unshutup other members; afterwards a fresh
// connection logs in with the same entry and its `joined` message must carry exactly the
// configured set, and so must a fresh login of every other role.

import (
	"fmt"
	"os"
	"reflect"
	"sort"
	"strings"
	"sync"
	"time"

	"verif/harness/vclient"
	"verif/harness/vk"
	"verif/harness/vsrv"
)

type histArgs struct {
	Index uint64 `json:"index"`
	Scen  int    `json:"scenarios"`
}

var histRoles = map[string][]string{
	"op":      {"op", "present", "message", "caption", "token"},
	"present": {"present", "message"},
	"message": {"message"},
	"observe": {},
	"caption": {"caption"},
}

func histExpectedPerms(role string, raw []string, rec, unrestricted bool) []string {
	var p []string
	if raw != nil {
		p = append(p, raw...)
	} else {
		p = append(p, histRoles[role]...)
		if role == "op" && rec {
			p = append(p, "record")
		}
		if role == "present" && unrestricted {
			p = append(p, "token")
		}
	}
	sort.Strings(p)
	if p == nil {
		p = []string{}
	}
	return p
}

func histChild() {
	run := vk.Start("C08")
	var a histArgs
	vk.ChildArgs(&a)
	srv, err := vsrv.Start(vsrv.Config{Root: os.Getenv("VERIF_CHILD_DIR"), LogToFile: true, WritableGroups: true})
	if err != nil {
		run.Inconclusive("server start: " + err.Error())
		os.Exit(0)
	}
	var wg sync.WaitGroup
	for s := 0; s < a.Scen; s++ {
		wg.Add(1)
		go func(s int) {
			defer wg.Done()
			histScenario(run, srv, a.Index, s)
		}(s)
	}
	wg.Wait()
	os.Exit(0)
}

func histScenario(run *vk.Run, srv *vsrv.Server, batch uint64, s int) {
	r := run.Rand(7, batch, uint64(s))
	rec, unr := r.IntN(2) == 0, r.IntN(2) == 0
	g := fmt.Sprintf("hist%d-%d", batch, s)
	type user struct {
		name, role string
		raw        []string
	}
	users := []user{{"op1", "op", nil}, {"op2", "op", nil}, {"pres1", "present", nil}, {"pres2", "present", nil}, {"msg1", "message", nil}, {"obs1", "observe", nil}, {"cap1", "caption", nil},
		{"raw1", "", []string{"present", "message", "caption"}}, {"raw2", "", []string{"present", "message", "caption"}}}
	um := map[string]any{}
	for _, u := range users {
		var perm any = u.role
		if u.raw != nil {
			perm = u.raw
		}
		um[u.name] = map[string]any{"password": "pw-" + u.name, "permissions": perm}
	}
	srv.WriteGroup(g, map[string]any{"users": um, "allow-recording": rec, "unrestricted-tokens": unr,
		"wildcard-user": map[string]any{"password": map[string]any{"type": "wildcard"}, "permissions": "present"}})
	var trail []string
	note := func(x string) { trail = append(trail, x); run.Note(x) }
	pw := map[string]string{} // the password each entry currently has
	for _, u := range users {
		pw[u.name] = "pw-" + u.name
	}
	login := func(id string, u user) (*vclient.Client, []string, bool) {
		c, err := vclient.Dial(srv, id)
		if err != nil {
			return nil, nil, false
		}
		m, ok := c.Join(g, u.name, pw[u.name])
		if !ok || m.Str("kind") != "join" {
			c.Close()
			return nil, nil, false
		}
		p := m.StrList("permissions")
		sort.Strings(p)
		if p == nil {
			p = []string{}
		}
		return c, p, true
	}
	var live []*vclient.Client
	defer func() {
		for _, c := range live {
			c.Close()
		}
	}()
	op, _, ok := login(fmt.Sprintf("h%d-%d-op", batch, s), users[0])
	if !ok {
		run.Inconclusive("operator login failed")
		return
	}
	live = append(live, op)
	// members to moderate
	type member struct {
		c  *vclient.Client
		u  user
		id string
	}
	var ms []member
	for i := 0; i < 4+r.IntN(4); i++ {
		u := users[1+r.IntN(len(users)-1)]
		id := fmt.Sprintf("h%d-%d-m%d", batch, s, i)
		c, got, ok := login(id, u)
		if !ok {
			continue
		}
		live = append(live, c)
		ms = append(ms, member{c, u, id})
		want := histExpectedPerms(u.role, u.raw, rec, unr)
		run.Eval(1)
		if !reflect.DeepEqual(got, want) {
			run.Violation("history:login-permissions-wrong:before-moderation:"+histPermKind(u.role, u.raw), fmt.Sprintf("login as %s (%s) granted %v, the entry says %v", u.name, histPermKind(u.role, u.raw), got, want),
				map[string]any{"phase": "history", "batch": batch, "scenario": s, "trail": trail})
			return
		}
	}
	replaced := 0
	rounds := 3
	if s%2 == 0 {
		rounds = 4 // the last round only judges the last replacement
	}
	for round := 0; round < rounds; round++ {
		for k := 0; k < 6+r.IntN(10) && len(ms) > 0; k++ {
			t := ms[r.IntN(len(ms))]
			kind := []string{"op", "unop", "present", "unpresent", "shutup", "unshutup"}[r.IntN(6)]
			note(fmt.Sprintf("operator %ss %s (%s)", kind, t.id, t.u.name))
			op.Send(vclient.Msg{"type": "useraction", "kind": kind, "source": op.ID, "dest": t.id})
			run.Count("history_moderation_actions", 1)
		}
		vclient.Quiesce(live, 3, 20*time.Millisecond, 20*time.Second)
		// an administrator looks at the (live, cached) group through the API in between
		adminRead := false
		if r.IntN(2) == 0 {
			for _, p := range []string{"", "/.users/", "/.users/pres1"} {
				srv.Do("GET", "/galene-api/v0/.groups/"+g+p, srv.AdminAuth(), nil)
			}
			note("the administrator reads the group, its user list and one user through the API")
			run.Count("history_admin_reads", 1)
			adminRead = true
		}
		// fresh logins of every entry must get exactly the configured set
		for _, u := range users {
			id := fmt.Sprintf("h%d-%d-f%d-%s", batch, s, round, u.name)
			c, got, ok := login(id, u)
			if !ok {
				// once more, to tell a refusal from a lost connection
				c, got, ok = login(id+"-again", u)
			}
			if !ok {
				run.Violation("history:right-password-refused:"+map[bool]string{true: "after-admin-read", false: "after-moderation-of-others"}[adminRead], fmt.Sprintf("a fresh login as %s with the configured password was refused (twice)", u.name),
					map[string]any{"phase": "history", "batch": batch, "scenario": s, "trail": trail})
				return
			}
			want := histExpectedPerms(u.role, u.raw, rec, unr)
			run.Eval(1)
			if !reflect.DeepEqual(got, want) {
				run.Violation("history:login-permissions-wrong:after-moderation-of-others:"+histPermKind(u.role, u.raw), fmt.Sprintf("after moderation actions on OTHER clients a fresh login as %s (%s) was granted %v, the entry says %v", u.name, histPermKind(u.role, u.raw), got, want),
					map[string]any{"phase": "history", "batch": batch, "scenario": s, "trail": trail})
				c.Close()
				return
			}
			run.Count("history_fresh_logins_exact", 1)
			c.Close()
		}
		// the administrator replaces one entry's password through the API by one of the same
		// length (from the second time on the group file keeps its size: only its stamp tells
		// the server, in whose memory the group is live, that it changed); the replaced password
		// then opens nothing, the new one is judged by the next round's fresh logins
		if s%2 == 0 && round < rounds-1 {
			u := users[1+r.IntN(len(users)-1)]
			old, fresh := pw[u.name], fmt.Sprintf("p%d-%s", (round+int(batch))%10, u.name)
			if fresh == old {
				fresh = "pz-" + u.name
			}
			time.Sleep(25 * time.Millisecond) // new inodes are stamped from the kernel's coarse clock
			hdr := srv.AdminAuth()
			hdr["Content-Type"] = "application/json"
			st, _, _, err := srv.Do("PUT", "/galene-api/v0/.groups/"+g+"/.users/"+u.name+"/.password", hdr, []byte(fmt.Sprintf("%q", fresh)))
			if err != nil || st/100 != 2 {
				run.Count("history_password_replacements_not_accepted", 1)
				continue
			}
			pw[u.name] = fresh
			replaced++
			note(fmt.Sprintf("the administrator replaces the password of %s by another one of the same length", u.name))
			run.Count("history_passwords_replaced", 1)
			run.Eval(1)
			c, err := vclient.Dial(srv, fmt.Sprintf("h%d-%d-old%d", batch, s, round))
			if err != nil {
				continue
			}
			m, ok := c.Join(g, u.name, old)
			c.Close()
			if ok && m.Str("kind") == "join" {
				run.Violation("history:replaced-password-accepted:same-length", fmt.Sprintf("after the administrator replaced the password of %s (same length, group live), a login with the replaced password was accepted", u.name),
					map[string]any{"phase": "history", "batch": batch, "scenario": s, "trail": trail})
				return
			}
			if ok {
				run.Count("history_replaced_passwords_refused", 1)
			}
		}
	}
	run.Count("history_scenarios", 1)
	run.Distinct(fmt.Sprintf("history rec%v unr%v members%d replaced%d", rec, unr, len(ms), replaced))
	_ = strings.Join
}

func histPermKind(role string, raw []string) string {
	if raw != nil {
		return "raw-array"
	}
	return "role-" + role
}

func historyTier(run *vk.Run) {
	batches := run.Pick(1, 10)
	scen := run.Pick(8, 16)
	var wg sync.WaitGroup
	for b := 0; b < batches; b++ {
		wg.Add(1)
		go func(b int) {
			defer wg.Done()
			res := run.RunChild("history", histArgs{Index: uint64(b), Scen: scen}, 10*time.Minute)
			switch {
			case strings.HasPrefix(res.Crash, "harness-crash:"):
				run.Inconclusive("history tier: harness crashed: " + res.Crash)
			case res.Crash != "":
				run.Violation("history:server-crashed:"+res.Crash, "the server died in the history tier: "+res.Crash, map[string]any{"phase": "history", "batch": b, "crash": res.CrashText, "last_commands": res.Notes})
			case res.TimedOut:
				run.Inconclusive("history tier: watchdog fired")
			}
		}(b)
	}
	wg.Wait()
	run.FloorCounter("history_fresh_logins_exact", int64(batches*scen*9))
	run.FloorCounter("history_moderation_actions", int64(batches*scen*10))
	run.FloorCounter("history_replaced_passwords_refused", int64(batches))
}
