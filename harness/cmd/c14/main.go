// C14 - every member's view of the user list converges to the true membership.
//
// A child process runs the real server and 4-12 websocket clients over 3 groups; driver
// goroutines issue random join / leave / disconnect / kick / op / unop / present /
// unpresent / shutup / unshutup / setdata actions without waiting for their effects.  At
// check points the drivers stop, quiescence is established logically (ping/pong barrier
// rounds until three consecutive rounds deliver nothing), and the user list each client
// folded from its add/change/delete events is compared with the group's real membership
// (Group.GetClients: ids, usernames, permissions, data).
package main

import (
	"encoding/json"
	"fmt"
	"math/rand/v2"
	"os"
	"reflect"
	"sort"
	"strings"
	"sync"
	"sync/atomic"
	"time"

	"github.com/jech/galene/group"

	"verif/harness/vclient"
	"verif/harness/vk"
	"verif/harness/vsrv"
)

type batchArgs struct {
	Index uint64 `json:"index"`
	Scen  int    `json:"scenarios"`
	Acts  int    `json:"actions"`
}

// "moved" carries a redirect: a websocket join to it is answered 'joined redirect' and must
// leave no trace in the group (the HTTP-level redirect is bypassed by a direct join)
var groupNames = []string{"alpha", "beta", "gamma/sub", "moved"}

var users = []struct{ name, pw, role string }{
	{"op1", "pw-op1", "op"}, {"op2", "pw-op2", "op"}, {"pres1", "pw-pres1", "present"}, {"pres2", "pw-pres2", "present"},
	{"msg1", "pw-msg1", "message"}, {"obs1", "pw-obs1", "observe"},
}

func groupDescOf(i int) map[string]any {
	g := groupNames[i]
	us := map[string]any{}
	for _, u := range users {
		us[u.name] = map[string]any{"password": u.pw, "permissions": u.role}
	}
	d := map[string]any{"users": us, "wildcard-user": map[string]any{"password": map[string]any{"type": "wildcard"}, "permissions": []string{"present", "message"}[i%2]}}
	if i == 0 {
		d["allow-recording"] = true
	}
	if i == 1 {
		d["unrestricted-tokens"] = true
	}
	if g == "moved" {
		d["redirect"] = "https://elsewhere.example/group/moved/"
	}
	return d
}

func writeGroups(s *vsrv.Server) {
	for i, g := range groupNames {
		s.WriteGroup(g, groupDescOf(i))
	}
}

var faultMu sync.Mutex
var faultN atomic.Int64

// fault: the description file of a group is unreadable for a moment (a half-written edit)
// and somebody tries to join just then; afterwards the file is what it was.  The members of
// the group must stay where they are: later joiners must meet them.
func (sc *scenario) fault(r *rand.Rand) {
	faultMu.Lock()
	defer faultMu.Unlock()
	i := r.IntN(3)
	g := groupNames[i]
	file := sc.srv.GroupFile(g)
	sc.note(fmt.Sprintf("the description of %s is unreadable for a moment; a stranger tries to join", g))
	os.WriteFile(file+".tmp-harness", []byte("{\"users\": {\"op1\": "), 0o644)
	os.Rename(file+".tmp-harness", file)
	if c, err := vclient.Dial(sc.srv, fmt.Sprintf("fault%d", faultN.Add(1))); err == nil {
		if m, ok := c.Join(g, "op1", "pw-op1"); ok && m.Str("kind") == "join" {
			sc.run.Count("joins_admitted_with_unreadable_description", 1)
			c.Leave(g)
		}
		c.Close()
	}
	sc.srv.WriteGroup(g, groupDescOf(i))
	sc.run.Count("description_faults", 1)
}

type userInfo struct {
	Username string
	Perms    []string
	Data     map[string]any
}

type slot struct {
	n         int
	gen       int
	c         *vclient.Client
	group     string
	joined    bool
	user      string
	evIdx     int
	vgroup    string          // the group the folded view belongs to (from the last 'joined join')
	lastGroup string          // the group of the session before the current gap
	between   []string        // user events received while in no session
	everSeen  map[string]bool // ids this connection was ever told about (across its sessions)
	sessions  int             // number of 'joined join' this connection has seen
	view      map[string]userInfo
	cur       *conn
	log       []string
}

func normPerms(p []string) []string {
	q := append([]string(nil), p...)
	sort.Strings(q)
	return q
}

func normData(d map[string]any) map[string]any {
	if len(d) == 0 {
		return nil
	}
	b, _ := json.Marshal(d)
	var m map[string]any
	json.Unmarshal(b, &m)
	return m
}

// conn is what the harness knows about one protocol client id.
type conn struct {
	slot  *slot
	tried map[string]bool // groups this id ever tried to join
}

type scenario struct {
	run   *vk.Run
	srv   *vsrv.Server
	batch uint64
	idx   int
	slots []*slot
	mu    sync.Mutex
	trail []string
	ids   map[string]*conn // client id -> connection record (ids are unique per connection)
	bad   bool
}

func (sc *scenario) note(s string) {
	sc.mu.Lock()
	sc.trail = append(sc.trail, s)
	if len(sc.trail) > 400 {
		sc.trail = sc.trail[200:]
	}
	sc.mu.Unlock()
	sc.run.Note(s)
}

func (sc *scenario) fail(key, what string) {
	sc.mu.Lock()
	t := append([]string(nil), sc.trail[max(0, len(sc.trail)-80):]...)
	sc.bad = true
	sc.mu.Unlock()
	sc.run.Violation(key, what, map[string]any{"batch": sc.batch, "scenario": sc.idx, "trail": t})
}

// fold processes the new events of a slot into its view.
func (sc *scenario) fold(s *slot) {
	if s.c == nil {
		return
	}
	evs := s.c.EventsFrom(s.evIdx)
	base := s.evIdx
	s.evIdx += len(evs)
	for ei, e := range evs {
		m := e.M
		_ = base + ei
		switch m.Str("type") {
		case "joined":
			switch m.Str("kind") {
			case "join":
				// events that arrived between the sessions: leftovers of the session just
				// left are only delivered when the client is back in a group of the SAME name
				// (galene drops them while the client is in no group, and filters on the group
				// name).  If the new session is in another group, they reached a client that
				// had already been admitted there: an event about one group reached a member
				// of another.
				// (A leftover of an EARLIER session in the new group can also arrive here, if
				// the goroutine that pushes it was held up for two round trips: only events
				// about somebody who never tried to join the new group are certainly foreign.)
				if s.lastGroup != "" && m.Str("group") != s.lastGroup {
					var foreign []string
					sc.mu.Lock()
					for _, b := range s.between {
						if o := sc.ids[b[strings.Index(b, " ")+1:]]; o != nil && !o.tried[m.Str("group")] {
							foreign = append(foreign, b)
						}
					}
					sc.mu.Unlock()
					if len(foreign) > 0 {
						sc.fail("event-from-other-group", fmt.Sprintf("%s left %s and was admitted to %s; before the new session's 'joined' it was sent %d user event(s) about clients that never tried to join %s (%v)", s.c.ID, s.lastGroup, m.Str("group"), len(foreign), m.Str("group"), foreign[:min(len(foreign), 5)]))
					}
				}
				s.between = nil
				s.view = map[string]userInfo{}
				s.vgroup = m.Str("group")
				s.sessions++
			case "leave":
				s.view = map[string]userInfo{}
				if s.vgroup != "" {
					s.lastGroup = s.vgroup
				}
				s.vgroup = ""
			}
		case "user":
			if s.vgroup == "" {
				// between 'joined leave' and the next 'joined join' this client is in no
				// session: what still arrives was queued for the session it has left (galene
				// delivers it when the client has ALREADY been admitted again - leave and join
				// handled back to back - and the group has the same name).  It concerns a list
				// the client has discarded; the next 'joined join' starts a fresh one.
				sc.run.Count("user_events_between_sessions", 1)
				s.between = append(s.between, m.Str("kind")+" "+m.Str("id"))
				continue
			}
			id := m.Str("id")
			info := userInfo{Username: m.Str("username"), Perms: normPerms(m.StrList("permissions"))}
			if d, ok := m["data"].(map[string]any); ok {
				info.Data = normData(d)
			}
			other := sc.ids[id]
			switch m.Str("kind") {
			case "add":
				if _, dup := s.view[id]; dup {
					sc.fail("add-for-present-id", fmt.Sprintf("%s received a second 'add' for %s which is already in its list", s.c.ID, id))
				}
				sc.mu.Lock()
				okGroup := other != nil && other.tried[s.vgroup]
				sc.mu.Unlock()
				if !okGroup {
					sc.fail("event-from-other-group", fmt.Sprintf("%s (in %s) received 'add' for %s which never joined that group", s.c.ID, s.vgroup, id))
				}
				s.view[id] = info
				if s.everSeen == nil {
					s.everSeen = map[string]bool{}
				}
				s.everSeen[id] = true
				sc.run.Count("user_add_events", 1)
			case "change":
				if _, ok := s.view[id]; !ok {
					sc.mu.Lock()
					wasThere := other != nil && other.tried[s.vgroup]
					sc.mu.Unlock()
					if s.sessions > 1 && wasThere {
						// like a stale 'delete' (below): a change announced, outside the group
						// lock, to the members found at that moment can reach one of them in a later
						// session in the same group, when the subject has already left.  A client
						// ignores changes of unknown ids; so does the fold.
						sc.run.Count("stale_change_after_rejoin", 1)
						continue
					}
					sc.fail("change-for-absent-id", fmt.Sprintf("%s received 'change' for %s which is not in its list", s.c.ID, id))
				}
				s.view[id] = info
				sc.run.Count("user_change_events", 1)
			case "delete":
				if _, ok := s.view[id]; !ok {
					sc.mu.Lock()
					wasThere := other != nil && other.tried[s.vgroup]
					sc.mu.Unlock()
					if s.sessions > 1 && (s.everSeen[id] || wasThere) {
						// DelClient notifies, outside the group lock, the members it found when it
						// removed the leaver.  A client that was one of them, left and joined again
						// in the meantime gets the 'delete' in its NEW session, where the leaver is
						// not listed (it may even never have been told about the leaver: the 'add'
						// queued for its earlier session is dropped when it leaves).  Harmless for
						// a client that ignores deletes of unknown ids: the view still converges,
						// which is what the property demands and what the checkpoint decides.
						sc.run.Count("stale_delete_after_rejoin", 1)
					} else {
						var recent []string
						all := s.c.EventsFrom(0)
						for _, pe := range all[max(0, base+ei-400) : base+ei+1] {
							if t := pe.M.Str("type"); t == "joined" || (t == "user" && pe.M.Str("id") == id) {
								recent = append(recent, fmt.Sprintf("%s/%s/%s%s", t, pe.M.Str("kind"), pe.M.Str("group"), pe.M.Str("id")))
							}
						}
						sc.fail("delete-for-absent-id", fmt.Sprintf("%s received 'delete' for %s which is not in its list (announced twice, or never added); sessions so far %d; its recent 'joined' events and events about that id: %v", s.c.ID, id, s.sessions, recent[max(0, len(recent)-30):]))
					}
				}
				delete(s.view, id)
				sc.run.Count("user_delete_events", 1)
			}
		}
	}
}

func (sc *scenario) live() []*vclient.Client {
	var cs []*vclient.Client
	for _, s := range sc.slots {
		if s.c != nil {
			if closed, _ := s.c.Closed(); !closed {
				cs = append(cs, s.c)
			}
		}
	}
	return cs
}

// checkpoint: quiesce, fold, compare with the truth.
func (sc *scenario) checkpoint(final bool) {
	if !vclient.Quiesce(sc.live(), 3, 25*time.Millisecond, 30*time.Second) {
		sc.run.Undecided("quiescence watchdog fired")
		sc.bad = true
		return
	}
	for _, s := range sc.slots {
		if s.c != nil {
			if closed, _ := s.c.Closed(); closed {
				s.joined = false
			}
		}
		sc.fold(s)
	}
	// truth per group
	for _, g := range groupNames {
		truth := map[string]userInfo{}
		if gg := group.Get(g); gg != nil {
			for _, c := range gg.GetClients(nil) {
				truth[c.Id()] = userInfo{Username: c.Username(), Perms: normPerms(c.Permissions()), Data: normData(c.Data())}
			}
		}
		// every real member is a live joined slot of that group (no phantom members)
		for id := range truth {
			var s *slot
			if cn := sc.ids[id]; cn != nil && cn.slot.c != nil && cn.slot.c.ID == id {
				s = cn.slot
			}
			if s == nil || !s.joined || s.group != g {
				sc.fail("phantom-member", fmt.Sprintf("group %s still holds member %s which left, was refused or disconnected", g, id))
			}
		}
		for _, s := range sc.slots {
			if !s.joined || s.group != g || s.c == nil {
				continue
			}
			if _, ok := truth[s.c.ID]; !ok {
				sc.fail("member-missing-from-group", fmt.Sprintf("%s was told it joined %s but the group does not hold it", s.c.ID, g))
				continue
			}
			// view == truth
			for id, t := range truth {
				v, ok := s.view[id]
				if !ok {
					sc.fail("view-misses-member", fmt.Sprintf("%s never learnt about member %s of %s", s.c.ID, id, g))
					continue
				}
				if v.Username != t.Username {
					sc.fail("view-wrong-username", fmt.Sprintf("%s believes %s is called %q, the group says %q", s.c.ID, id, v.Username, t.Username))
				}
				if !reflect.DeepEqual(v.Perms, t.Perms) {
					sc.fail("view-wrong-permissions", fmt.Sprintf("%s was told %s has permissions %v, it really has %v", s.c.ID, id, v.Perms, t.Perms))
				}
				if !reflect.DeepEqual(v.Data, t.Data) {
					sc.fail("view-wrong-data", fmt.Sprintf("%s was told %s has data %v, it really has %v", s.c.ID, id, v.Data, t.Data))
				}
			}
			for id := range s.view {
				if _, ok := truth[id]; !ok {
					sc.fail("view-has-stale-member", fmt.Sprintf("%s still lists %s, which is no longer a member of %s (departure not announced)", s.c.ID, id, g))
				}
			}
			sc.run.Count("views_compared", 1)
			sc.run.Count("view_entries_compared", int64(len(truth)))
		}
	}
	sc.run.Count("checkpoints", 1)
}

func (sc *scenario) connect(s *slot, r *rand.Rand) {
	s.gen++
	id := fmt.Sprintf("b%ds%dc%dg%d", sc.batch, sc.idx, s.n, s.gen)
	c, err := vclient.Dial(sc.srv, id)
	if err != nil {
		sc.run.Undecided("dial failed: " + err.Error())
		sc.bad = true
		return
	}
	s.c = c
	s.evIdx = 0
	s.everSeen = map[string]bool{}
	s.sessions = 0
	s.vgroup = ""
	s.lastGroup, s.between = "", nil
	s.view = map[string]userInfo{}
	s.joined = false
	s.cur = &conn{slot: s, tried: map[string]bool{}}
	sc.mu.Lock()
	sc.ids[id] = s.cur
	sc.mu.Unlock()
}

func (sc *scenario) join(s *slot, r *rand.Rand) {
	g := groupNames[r.IntN(len(groupNames))]
	var user, pw string
	switch x := r.IntN(10); {
	case x < 7:
		u := users[r.IntN(len(users))]
		user, pw = u.name, u.pw
	case x < 9:
		user, pw = fmt.Sprintf("guest%d", r.IntN(5)), "anything"
	default:
		u := users[r.IntN(len(users))]
		user, pw = u.name, "wrong-password"
	}
	sc.mu.Lock()
	s.cur.tried[g] = true
	sc.mu.Unlock()
	sc.note(fmt.Sprintf("%s join %s as %s", s.c.ID, g, user))
	data := map[string]any(nil)
	m := vclient.Msg{"type": "join", "kind": "join", "group": g, "username": user, "password": pw}
	if r.IntN(3) == 0 {
		data = map[string]any{"k": float64(r.IntN(10))}
		m["data"] = data
	}
	from := s.c.EventCount()
	if s.c.Send(m) != nil {
		return
	}
	reply, ok := s.c.WaitForFrom(from, func(m vclient.Msg) bool {
		return m.Str("type") == "joined" && (m.Str("kind") == "join" || m.Str("kind") == "fail" || m.Str("kind") == "redirect")
	}, 30*time.Second)
	if !ok {
		if !s.c.WaitClosed(3 * time.Second) {
			sc.run.Undecided("no reply to join within the watchdog")
			sc.bad = true
		}
		return
	}
	if reply.Str("kind") == "join" {
		s.joined, s.group, s.user = true, g, user
		sc.run.Count("joins_accepted", 1)
	} else {
		sc.run.Count("joins_refused", 1)
		if reply.Str("kind") == "redirect" {
			sc.run.Count("joins_redirected", 1)
			// galene admits the client, answers 'redirect' and removes it again; the queued
			// 'joined join' and 'joined leave' of that short membership follow the answer.
			// Let them pass so that they are not taken for the reply to a later join
			// (whether the client really is gone is decided at the next checkpoint).
			s.c.WaitForFrom(from, func(m vclient.Msg) bool {
				return m.Str("type") == "joined" && m.Str("kind") == "leave" && m.Str("group") == g
			}, 3*time.Second)
		}
	}
}

// joinAs joins group g with the given (valid) credentials and waits for the answer.
func (sc *scenario) joinAs(s *slot, g, user, pw string) {
	sc.mu.Lock()
	s.cur.tried[g] = true
	sc.mu.Unlock()
	sc.note(fmt.Sprintf("%s join %s as %s", s.c.ID, g, user))
	from := s.c.EventCount()
	if s.c.Send(vclient.Msg{"type": "join", "kind": "join", "group": g, "username": user, "password": pw}) != nil {
		return
	}
	reply, ok := s.c.WaitForFrom(from, func(m vclient.Msg) bool {
		return m.Str("type") == "joined" && m.Str("group") == g && (m.Str("kind") == "join" || m.Str("kind") == "fail")
	}, 30*time.Second)
	if !ok {
		if !s.c.WaitClosed(3 * time.Second) {
			sc.run.Undecided("no reply to join within the watchdog")
			sc.bad = true
		}
		return
	}
	if reply.Str("kind") == "join" {
		s.joined, s.group, s.user = true, g, user
		sc.run.Count("joins_accepted", 1)
	} else {
		sc.run.Count("joins_refused", 1)
	}
}

// storm: two residents stay in two groups A and B and change their own data all the time
// (a 'change' event to every member of their group); every other client alternates between
// A and B in a tight loop from its own goroutine, so that departures, arrivals and change
// notifications overlap inside the server all the time: a joiner that slips between "who
// must be told that L is gone" and L's removal would keep L for good, and a notification
// of the group just left that is delivered in the next group's session names somebody who
// is not there.  Judged by the ordinary fold and checkpoint afterwards.
func (sc *scenario) storm(r *rand.Rand, cycles int) {
	a := r.IntN(3)
	gs := []string{groupNames[a], groupNames[(a+1)%3]}
	for _, s := range sc.slots {
		if s.c != nil {
			if closed, _ := s.c.Closed(); closed {
				s.c, s.joined = nil, false
			}
		}
		if s.c == nil {
			sc.connect(s, r)
		}
	}
	var wg, rwg sync.WaitGroup
	var stop atomic.Bool
	for i, s := range sc.slots {
		if s.c == nil {
			continue
		}
		if i < 2 {
			// resident of gs[i]: a fresh connection (a new id that has never tried any other
			// group), so that events about it certainly belong to gs[i]
			s.c.Close()
			s.c, s.joined = nil, false
			sc.connect(s, r)
			if s.c == nil {
				continue
			}
			sc.joinAs(s, gs[i], users[i].name, users[i].pw)
			if !s.joined {
				continue
			}
			rwg.Add(1)
			go func(s *slot) {
				defer rwg.Done()
				for n := 0; !stop.Load() && !sc.bad; n++ {
					if s.c.Send(vclient.Msg{"type": "useraction", "kind": "setdata", "source": s.c.ID, "dest": s.c.ID, "value": map[string]any{"storm": float64(n % 7)}}) != nil {
						return
					}
					sc.run.Count("storm_changes", 1)
					time.Sleep(500 * time.Microsecond)
				}
			}(s)
			continue
		}
		wg.Add(1)
		go func(i int, s *slot) {
			defer wg.Done()
			u := users[i%len(users)]
			for k := 0; k < cycles && !sc.bad; k++ {
				if closed, _ := s.c.Closed(); closed {
					s.joined = false
					return
				}
				if s.joined {
					// leave and join are sent back to back: the server may handle both before it
					// delivers what was queued for this client in the group it is leaving
					sc.note(fmt.Sprintf("%s leaves %s and, without waiting,", s.c.ID, s.group))
					if s.c.Send(vclient.Msg{"type": "join", "kind": "leave", "group": s.group}) != nil {
						return
					}
					s.joined = false
					sc.run.Count("leaves", 1)
				}
				sc.joinAs(s, gs[(i+k)%2], u.name, u.pw)
				sc.run.Eval(1)
				sc.run.Count("storm_cycles", 1)
			}
		}(i, s)
	}
	wg.Wait()
	stop.Store(true)
	rwg.Wait()
}

func (sc *scenario) act(s *slot, r *rand.Rand) {
	if r.IntN(40) == 0 {
		sc.fault(r)
		return
	}
	if s.c != nil {
		if closed, _ := s.c.Closed(); closed {
			s.c, s.joined = nil, false
		}
	}
	if s.c == nil {
		sc.connect(s, r)
		if s.c == nil {
			return
		}
		sc.join(s, r)
		return
	}
	if !s.joined {
		if r.IntN(4) == 0 {
			sc.note(fmt.Sprintf("%s disconnects (never joined)", s.c.ID))
			s.c.Close()
			s.c = nil
			return
		}
		sc.join(s, r)
		return
	}
	// pick a target in the same group (other drivers own the other slots: read their
	// fields once, a stale value only makes the action hit a client that just left)
	var mates []string
	for _, o := range sc.slots {
		oc, og, oj := o.c, o.group, o.joined
		if oj && og == s.group && oc != nil {
			mates = append(mates, oc.ID)
		}
	}
	if len(mates) == 0 {
		mates = []string{s.c.ID}
	}
	targetID := mates[r.IntN(len(mates))]
	switch x := r.IntN(100); {
	case x < 10:
		sc.note(fmt.Sprintf("%s leaves %s", s.c.ID, s.group))
		if s.c.Leave(s.group) {
			s.joined = false
			sc.run.Count("leaves", 1)
		}
	case x < 18:
		sc.note(fmt.Sprintf("%s disconnects abruptly", s.c.ID))
		s.c.Close()
		s.c, s.joined = nil, false
		sc.run.Count("disconnects", 1)
	case x < 26:
		sc.note(fmt.Sprintf("%s kicks %s", s.c.ID, targetID))
		s.c.Send(vclient.Msg{"type": "useraction", "kind": "kick", "source": s.c.ID, "dest": targetID, "value": "bye"})
		sc.run.Count("kick_attempts", 1)
	case x < 70:
		kind := []string{"op", "unop", "present", "unpresent", "shutup", "unshutup"}[r.IntN(6)]
		sc.note(fmt.Sprintf("%s %s %s", s.c.ID, kind, targetID))
		s.c.Send(vclient.Msg{"type": "useraction", "kind": kind, "source": s.c.ID, "dest": targetID})
		sc.run.Count("moderation_attempts", 1)
	case x < 90:
		v := map[string]any{fmt.Sprintf("k%d", r.IntN(3)): float64(r.IntN(100))}
		if r.IntN(4) == 0 {
			v = map[string]any{fmt.Sprintf("k%d", r.IntN(3)): nil}
		}
		sc.note(fmt.Sprintf("%s setdata %v", s.c.ID, v))
		s.c.Send(vclient.Msg{"type": "useraction", "kind": "setdata", "source": s.c.ID, "dest": s.c.ID, "value": v})
		sc.run.Count("setdata", 1)
	default:
		sc.note(fmt.Sprintf("%s group setdata", s.c.ID))
		s.c.Send(vclient.Msg{"type": "groupaction", "kind": "setdata", "source": s.c.ID, "value": map[string]any{"g": float64(r.IntN(9))}})
	}
}

// orderedJoins: joins performed strictly one after another must be seen in that order by every bystander.
func (sc *scenario) orderedJoins(r *rand.Rand) {
	g := groupNames[r.IntN(3)]
	by, err := vclient.Dial(sc.srv, fmt.Sprintf("b%ds%dwatch", sc.batch, sc.idx))
	if err != nil {
		return
	}
	defer by.Close()
	if m, ok := by.Join(g, "op1", "pw-op1"); !ok || m.Str("kind") != "join" {
		return
	}
	var order []string
	var cs []*vclient.Client
	for i := 0; i < 5; i++ {
		id := fmt.Sprintf("b%ds%dord%d", sc.batch, sc.idx, i)
		c, err := vclient.Dial(sc.srv, id)
		if err != nil {
			return
		}
		cs = append(cs, c)
		if m, ok := c.Join(g, fmt.Sprintf("guest%d", i), "x"); ok && m.Str("kind") == "join" {
			order = append(order, id)
		}
	}
	vclient.Quiesce(append(cs, by), 3, 20*time.Millisecond, 20*time.Second)
	var seen []string
	for _, e := range by.Events() {
		// only the clients of this sequence: members left over from an earlier scenario of
		// the same child may still be around
		if e.M.Str("type") == "user" && e.M.Str("kind") == "add" && strings.Contains(e.M.Str("id"), fmt.Sprintf("b%ds%dord", sc.batch, sc.idx)) {
			seen = append(seen, e.M.Str("id"))
		}
	}
	if !reflect.DeepEqual(seen, order) {
		sc.fail("joins-seen-out-of-order", fmt.Sprintf("joins performed one after another %v were announced to a bystander as %v", order, seen))
	}
	sc.run.Count("ordered_join_sequences", 1)
	for _, c := range cs {
		c.Close()
	}
	by.Close()
	// let the departures settle before the random phase starts
	time.Sleep(50 * time.Millisecond)
}

func runScenario(run *vk.Run, srv *vsrv.Server, batch uint64, idx int, actions int) {
	r := run.Rand(1, batch, uint64(idx))
	sc := &scenario{run: run, srv: srv, batch: batch, idx: idx, ids: map[string]*conn{}}
	sc.orderedJoins(r)
	n := 4 + r.IntN(9)
	for i := 0; i < n; i++ {
		sc.slots = append(sc.slots, &slot{n: i})
	}
	drivers := 3
	per := actions / 4
	for phase := 0; phase < 4 && !sc.bad; phase++ {
		var wg sync.WaitGroup
		for d := 0; d < drivers; d++ {
			wg.Add(1)
			go func(d int) {
				defer wg.Done()
				rr := run.Rand(2, batch, uint64(idx), uint64(phase), uint64(d))
				for a := 0; a < per/drivers && !sc.bad; a++ {
					// each driver owns the slots congruent to d
					var mine []*slot
					for _, s := range sc.slots {
						if s.n%drivers == d {
							mine = append(mine, s)
						}
					}
					if len(mine) == 0 {
						return
					}
					sc.act(mine[rr.IntN(len(mine))], rr)
					run.Eval(1)
				}
			}(d)
		}
		wg.Wait()
		sc.checkpoint(phase == 3)
	}
	if idx%2 == 0 && !sc.bad {
		sc.storm(r, 40)
		sc.checkpoint(true)
	}
	members := 0
	for _, s := range sc.slots {
		if s.joined {
			members++
		}
		if s.c != nil {
			s.c.Close()
		}
	}
	if !sc.bad {
		perGroup := map[string]int{}
		for _, s := range sc.slots {
			if s.joined {
				perGroup[s.group]++
			}
		}
		var sizes []int
		for _, g := range groupNames {
			sizes = append(sizes, perGroup[g])
		}
		run.Distinct(fmt.Sprintf("clients%d members%d per-group%v", n, members, sizes))
	}
	if batch == 0 && idx == 0 {
		sc.mu.Lock()
		run.Sample(map[string]any{"batch": batch, "scenario": idx, "clients": n, "trail_head": sc.trail[:min(len(sc.trail), 30)]})
		sc.mu.Unlock()
	}
	// child() waits for the departures of this scenario's clients to settle before the next one
}

func child() {
	run := vk.Start("C14")
	var a batchArgs
	vk.ChildArgs(&a)
	srv, err := vsrv.Start(vsrv.Config{Root: os.Getenv("VERIF_CHILD_DIR"), LogToFile: true})
	if err != nil {
		run.Inconclusive("server start: " + err.Error())
		os.Exit(0)
	}
	writeGroups(srv)
	for i := 0; i < a.Scen; i++ {
		runScenario(run, srv, a.Index, i, a.Acts)
		settle(run, fmt.Sprintf("b%ds%dc", a.Index, i))
	}
	if a.Index%2 == 0 {
		crowd(run, srv, a.Index)
	}
	os.Exit(0)
}

// settle waits until the server has removed every client of the scenario that just ended (their
// sockets are closed; the server notices, ends their loops and removes them, which takes a
// moment on a loaded machine).  A scenario's model knows its own clients only: a leftover
// member of an earlier scenario would be announced to the next one's clients as somebody
// "who never joined".  The server runs in this process, so its member lists can be read.
func settle(run *vk.Run, prefix string) {
	deadline := time.Now().Add(30 * time.Second)
	for {
		left := 0
		for _, name := range groupNames {
			if g := group.Get(name); g != nil {
				for _, c := range g.GetClients(nil) {
					if strings.HasPrefix(c.Id(), prefix) {
						left++
					}
				}
			}
		}
		if left == 0 {
			return
		}
		if time.Now().After(deadline) {
			run.Undecided(fmt.Sprintf("%d clients of scenario %s were still members 30 s after their sockets were closed", left, prefix))
			return
		}
		time.Sleep(5 * time.Millisecond)
	}
}

// crowd: a group of 130 members, and then one more client joins: it is told about every one
// of them in one burst (more messages than the connection's send queue holds), and it must
// end up knowing them all.
func crowd(run *vk.Run, srv *vsrv.Server, batch uint64) {
	r := run.Rand(9, batch)
	sc := &scenario{run: run, srv: srv, batch: batch, idx: 900, ids: map[string]*conn{}}
	const n = 130
	for i := 0; i <= n; i++ {
		sc.slots = append(sc.slots, &slot{n: i})
	}
	g := groupNames[1]
	var wg sync.WaitGroup
	sem := make(chan struct{}, 8)
	for i := 0; i < n; i++ {
		wg.Add(1)
		sem <- struct{}{}
		go func(s *slot) {
			defer wg.Done()
			defer func() { <-sem }()
			sc.connect(s, r)
			if s.c != nil {
				sc.joinAs(s, g, fmt.Sprintf("guest%d", s.n), "anything")
			}
		}(sc.slots[i])
	}
	wg.Wait()
	if sc.bad {
		return
	}
	sc.checkpoint(false)
	late := sc.slots[n]
	sc.connect(late, r)
	if late.c != nil {
		sc.joinAs(late, g, "op1", "pw-op1")
	}
	sc.checkpoint(true)
	if !sc.bad && late.joined {
		run.Count("crowd_late_joiners_knowing_everybody", 1)
		run.Count("crowd_members", int64(len(late.view)))
	}
	for _, s := range sc.slots {
		if s.c != nil {
			s.c.Close()
		}
	}
	run.Eval(n + 1)
}

func main() {
	if _, ok := vk.InChild(); ok {
		child()
		return
	}
	run := vk.Start("C14")
	batches := run.Pick(10, 160)
	scen := run.Pick(4, 6)
	run.TolerateUndecided(run.Pick(2, 8))
	acts := run.Pick(240, 600)
	first := uint64(0)
	if rep, ok := vk.ReplayInput(); ok {
		m, _ := rep["replay"].(map[string]any)
		if b, ok := m["batch"].(float64); ok {
			first, batches = uint64(b), 1
		}
	}
	var wg sync.WaitGroup
	sem := make(chan struct{}, 8)
	for b := first; b < first+uint64(batches); b++ {
		wg.Add(1)
		sem <- struct{}{}
		go func(b uint64) {
			defer wg.Done()
			defer func() { <-sem }()
			res := run.RunChild("batch", batchArgs{Index: b, Scen: scen, Acts: acts}, 10*time.Minute)
			switch {
			case strings.HasPrefix(res.Crash, "harness-crash:"):
				run.Inconclusive(fmt.Sprintf("batch %d: the harness itself crashed: %s\n%s", b, res.Crash, res.CrashText))
			case res.Crash != "":
				run.Violation("server-crashed:"+res.Crash, "the server process died during a membership workload, so no view can converge: "+res.Crash,
					map[string]any{"batch": b, "crash": res.CrashText, "last_commands": res.Notes})
			case res.TimedOut:
				run.Inconclusive(fmt.Sprintf("batch %d: watchdog fired", b))
			case res.ExitCode != 0:
				run.Inconclusive(fmt.Sprintf("batch %d: child exited with %d", b, res.ExitCode))
			default:
				run.Count("batches_completed", 1)
			}
		}(b)
	}
	wg.Wait()
	run.FloorCounter("views_compared", int64(batches*scen*4))
	run.FloorCounter("user_add_events", 100)
	run.FloorCounter("user_change_events", 50)
	run.FloorCounter("user_delete_events", 50)
	run.FloorCounter("joins_refused", 1)
	run.FloorCounter("crowd_late_joiners_knowing_everybody", 1)
	run.Assume("quiescence is logical: drivers stopped and three consecutive ping/pong barrier rounds over all live clients delivered no event; ground truth is read in-process through Group.GetClients")
	run.Assume("convergence is bounded progress: a 30 s watchdog on quiescence yields inconclusive, not a violation")
	run.Finish("exploration", "per batch a fresh server process; per scenario 4-12 websocket clients with distinct ids over 3 groups, 3 concurrent driver goroutines issuing random join/leave/disconnect/kick/op/unop/present/unpresent/shutup/unshutup/setdata actions, 4 check points each; distinct_nontrivial = distinct (client count, final member count) among scenarios that ran to the end; every view entry compared is counted")
}
