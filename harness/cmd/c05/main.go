// C05 - the packet cache returns a stored packet byte-exactly or nothing.
//
// Monitor: a reference model (map seqno -> versions stored, ring accounting of
// how many of the newest stores must still be held) observes every call and
// result of the real packetcache.Cache.  Packets are self-describing so any
// returned buffer identifies the store it came from.  A concurrent phase runs
// one writer, one resizer and many readers under the race detector; readers
// validate every non-empty result (a torn or mixed copy cannot validate).
package main

import (
	"encoding/binary"
	"fmt"
	"math/rand/v2"
	"runtime"
	"sync"
	"sync/atomic"

	"github.com/jech/galene/packetcache"

	"verif/harness/vk"
)

const maxLen = packetcache.BufSize

// fill writes the self-describing content of store number gen.
func fill(buf []byte, gen uint64, seqno uint16) {
	x := gen*0x9E3779B97F4A7C15 + uint64(seqno)*0xBF58476D1CE4E5B9 + uint64(len(buf))
	for i := range buf {
		x ^= x << 13
		x ^= x >> 7
		x ^= x << 17
		buf[i] = byte(x >> 32)
	}
	if len(buf) >= 12 {
		binary.BigEndian.PutUint64(buf[0:8], gen)
		binary.BigEndian.PutUint16(buf[8:10], seqno)
		binary.BigEndian.PutUint16(buf[10:12], uint16(len(buf)))
	}
}

type version struct {
	gen  uint64
	data []byte
	kf   bool
}

type op struct {
	Kind  string `json:"k"`
	Seqno uint16 `json:"s,omitempty"`
	Len   int    `json:"l,omitempty"`
	Cap   int    `json:"c,omitempty"`
	Idx   uint16 `json:"i,omitempty"`
	Kf    bool   `json:"kf,omitempty"`
}

type model struct {
	cap       int
	retained  int // lower bound on how many of the newest stores are held
	gen       uint64
	versions  map[uint16][]version
	recent    []storeRec // newest last, at most 65535 kept
	sinceRsz  int        // stores since the last effective resize
	everKf    map[uint16]bool
	everStore map[uint16]bool
}

type storeRec struct {
	seqno uint16
	gen   uint64
	idx   uint16
}

func (m *model) matches(seqno uint16, got []byte) bool {
	for _, v := range m.versions[seqno] {
		if len(v.data) == len(got) && string(v.data) == string(got) {
			return true
		}
	}
	return false
}

func (m *model) matchesLen(seqno uint16, n int) bool {
	for _, v := range m.versions[seqno] {
		if len(v.data) == n {
			return true
		}
	}
	return false
}

type hist struct {
	idx   uint64
	ops   []op
	evict bool
	grow  bool
	shrnk bool
	wrap  bool
	dup   bool
}

func pickCap(r *rand.Rand, big bool) int {
	switch x := r.IntN(100); {
	case x < 45:
		return 1 + r.IntN(8)
	case x < 80:
		return 1 + r.IntN(64)
	case x < 97 || !big:
		return 1 + r.IntN(1024)
	case x < 99:
		return 65535
	default:
		return 1 + r.IntN(65535)
	}
}

func pickLen(r *rand.Rand) int {
	switch x := r.IntN(100); {
	case x < 10:
		return 1 + r.IntN(12)
	case x < 15:
		return maxLen - r.IntN(4)
	case x < 20:
		return 1
	default:
		return 1 + r.IntN(maxLen)
	}
}

// runHistory executes one generated history against a fresh cache and the model.
func runHistory(run *vk.Run, hidx uint64, big bool) {
	r := run.Rand(1, hidx)
	cap0 := pickCap(r, big)
	c := packetcache.New(cap0)
	m := &model{cap: cap0, versions: map[uint16][]version{}, everKf: map[uint16]bool{}, everStore: map[uint16]bool{}}
	h := &hist{idx: hidx}
	h.ops = append(h.ops, op{Kind: "new", Cap: cap0})
	nops := 50 + r.IntN(400)
	if big && cap0 > 4096 {
		nops = 60
	}
	seq := uint16(r.UintN(65536))
	if r.IntN(3) == 0 {
		seq = uint16(65536 - r.IntN(40)) // close to the wrap
	}
	mode := r.IntN(4) // 0 sequential, 1 sequential with reorder/dups, 2 random seqnos, 3 mixed
	buf := make([]byte, maxLen)
	out := make([]byte, maxLen)
	fail := func(key, what string) {
		n := len(h.ops)
		lo := 0
		if n > 400 {
			lo = n - 400
		}
		run.Violation(key, what, map[string]any{"history": hidx, "big": big, "ops_tail": h.ops[lo:], "ops_total": n})
	}
	for i := 0; i < nops; i++ {
		run.Eval(1)
		x := r.IntN(100)
		switch {
		case x < 55: // store
			var s uint16
			switch {
			case mode == 0 || (mode == 3 && r.IntN(2) == 0):
				s = seq
				seq++
			case mode == 1:
				switch y := r.IntN(10); {
				case y < 6:
					s = seq
					seq++
				case y < 8:
					s = seq - uint16(1+r.IntN(6)) // duplicate / late
				default:
					seq += uint16(1 + r.IntN(5)) // gap
					s = seq
					seq++
				}
			default:
				s = uint16(r.UintN(65536))
				if r.IntN(4) == 0 {
					s = uint16(r.IntN(16))
				}
			}
			if s < 8 && m.everStore[s-16] {
				h.wrap = true
			}
			l := pickLen(r)
			kf := r.IntN(8) == 0
			marker := r.IntN(4) == 0
			m.gen++
			fill(buf[:l], m.gen, s)
			data := append([]byte(nil), buf[:l]...)
			h.ops = append(h.ops, op{Kind: "store", Seqno: s, Len: l, Kf: kf})
			_, idx := c.Store(s, uint32(m.gen), kf, marker, buf[:l])
			if m.everStore[s] {
				h.dup = true
			}
			m.everStore[s] = true
			if kf {
				m.everKf[s] = true
			}
			m.versions[s] = append(m.versions[s], version{m.gen, data, kf})
			if len(m.versions[s]) > 40 {
				m.versions[s] = m.versions[s][1:]
			}
			if m.retained == m.cap {
				h.evict = true
			}
			if m.retained < m.cap {
				m.retained++
			}
			m.sinceRsz++
			m.recent = append(m.recent, storeRec{s, m.gen, idx})
			if len(m.recent) > 70000 {
				m.recent = m.recent[len(m.recent)-66000:]
			}
			if int(idx) >= m.cap {
				fail("store-index-out-of-range", fmt.Sprintf("Store returned index %d with capacity %d", idx, m.cap))
				return
			}
			// the slot just written must answer GetAt with exactly these bytes
			n := c.GetAt(s, idx, out)
			if int(n) != l || string(out[:n]) != string(data) {
				fail("getat-after-store", fmt.Sprintf("GetAt(%d,%d) right after Store returned %d bytes, want %d identical", s, idx, n, l))
				return
			}
		case x < 70: // Get of a recent store: must be there
			if len(m.recent) == 0 || m.retained == 0 {
				continue
			}
			k := 1 + r.IntN(m.retained)
			if k > len(m.recent) {
				k = len(m.recent)
			}
			rec := m.recent[len(m.recent)-k]
			h.ops = append(h.ops, op{Kind: "get-recent", Seqno: rec.seqno})
			n := c.Get(rec.seqno, out)
			if n == 0 {
				fail("recent-not-retrievable", fmt.Sprintf("Get(%d) empty although it is store #%d from the newest and %d newest must be held (cap %d)", rec.seqno, k, m.retained, m.cap))
				return
			}
			if !m.matches(rec.seqno, out[:n]) {
				fail("get-wrong-bytes", fmt.Sprintf("Get(%d) returned %d bytes that are no version stored under that seqno", rec.seqno, n))
				return
			}
			run.Count("recent_hits", 1)
			n2 := c.Get(rec.seqno, nil)
			if n2 == 0 || !m.matchesLen(rec.seqno, int(n2)) {
				fail("get-nil-length", fmt.Sprintf("Get(%d,nil) returned length %d which no stored version has", rec.seqno, n2))
				return
			}
		case x < 82: // Get of an arbitrary seqno: nothing or an exact version
			var s uint16
			if len(m.recent) > 0 && r.IntN(3) > 0 {
				s = m.recent[r.IntN(len(m.recent))].seqno + uint16(r.IntN(5)) - 2
			} else {
				s = uint16(r.UintN(65536))
			}
			h.ops = append(h.ops, op{Kind: "get", Seqno: s})
			for i := range out[:16] {
				out[i] = 0xA5
			}
			n := c.Get(s, out)
			if n != 0 {
				if !m.matches(s, out[:n]) {
					fail("get-wrong-bytes", fmt.Sprintf("Get(%d) returned %d bytes that are no version stored under that seqno", s, n))
					return
				}
				run.Count("get_hits", 1)
			} else {
				run.Count("get_misses", 1)
			}
		case x < 90: // GetAt with a remembered or random index
			if len(m.recent) == 0 {
				continue
			}
			rec := m.recent[len(m.recent)-1-r.IntN(min(len(m.recent), 3*m.cap+2))]
			idx := rec.idx
			if r.IntN(4) == 0 {
				idx = uint16(r.IntN(m.cap + 3))
			}
			h.ops = append(h.ops, op{Kind: "getat", Seqno: rec.seqno, Idx: idx})
			n := c.GetAt(rec.seqno, idx, out)
			if n != 0 {
				if !m.matches(rec.seqno, out[:n]) {
					fail("getat-wrong-bytes", fmt.Sprintf("GetAt(%d,%d) returned %d bytes that are no version stored under that seqno", rec.seqno, idx, n))
					return
				}
				run.Count("getat_hits", 1)
			}
		case x < 96: // resize
			nc := pickCap(r, big && m.cap <= 4096)
			cond := r.IntN(2) == 0
			did := true
			if cond {
				h.ops = append(h.ops, op{Kind: "resizecond", Cap: nc})
				did = c.ResizeCond(nc)
			} else {
				h.ops = append(h.ops, op{Kind: "resize", Cap: nc})
				c.Resize(nc)
			}
			if did && nc != m.cap {
				if nc > m.cap {
					h.grow = true
				} else {
					h.shrnk = true
				}
				m.cap = nc
				if m.retained > nc {
					m.retained = nc
				}
				m.sinceRsz = 0
			}
			// everything that must still be held is still exact
			k := m.retained
			if k > len(m.recent) {
				k = len(m.recent)
			}
			step := 1
			if k > 64 {
				step = k / 64
			}
			for j := 1; j <= k; j += step {
				rec := m.recent[len(m.recent)-j]
				n := c.Get(rec.seqno, out)
				if n == 0 || !m.matches(rec.seqno, out[:n]) {
					fail("lost-after-resize", fmt.Sprintf("after resize to %d (applied=%v) store #%d from the newest (seqno %d) is gone or altered (n=%d, must hold %d)", nc, did, j, rec.seqno, n, m.retained))
					return
				}
			}
		default: // Last / Keyframe only ever name seqnos that were stored (with the flag)
			h.ops = append(h.ops, op{Kind: "last-kf"})
			if s, ok := c.Last(); ok && !m.everStore[s] {
				fail("last-unknown", fmt.Sprintf("Last() = %d which was never stored", s))
				return
			}
			if s, ok := c.Keyframe(); ok && !m.everKf[s] {
				fail("keyframe-unknown", fmt.Sprintf("Keyframe() = %d which was never stored as a keyframe", s))
				return
			}
		}
	}
	// final sweep: every seqno ever stored answers with an exact version or nothing
	swept := 0
	for s := range m.versions {
		n := c.Get(s, out)
		if n != 0 && !m.matches(s, out[:n]) {
			fail("get-wrong-bytes", fmt.Sprintf("final sweep: Get(%d) returned %d bytes that are no stored version", s, n))
			return
		}
		swept++
		if swept > 3000 {
			break
		}
	}
	if h.evict && (h.grow || h.shrnk) {
		run.Distinct(fmt.Sprintf("m%d g%v s%v w%v d%v c%d n%d", mode, h.grow, h.shrnk, h.wrap, h.dup, bucket(cap0), len(h.ops)/25))
		if h.grow {
			run.Count("histories_with_grow", 1)
		}
		if h.shrnk {
			run.Count("histories_with_shrink", 1)
		}
	}
	if h.wrap {
		run.Count("histories_with_wrap", 1)
	}
	if hidx < 2 {
		n := len(h.ops)
		if n > 25 {
			n = 25
		}
		run.Sample(map[string]any{"history": hidx, "first_ops": h.ops[:n]})
	}
}

func bucket(c int) int {
	b := 0
	for c > 1 {
		c >>= 1
		b++
	}
	return b
}

// concurrent phase -----------------------------------------------------------

func concurrent(run *vk.Run, round uint64, stores int) {
	r := run.Rand(2, round)
	caps := []int{4 + r.IntN(12), 16 + r.IntN(48), 64 + r.IntN(192)}
	minCap := caps[0]
	c := packetcache.New(caps[1])
	var started, done atomic.Uint64 // gen started / gen whose Store returned
	base := uint16(r.UintN(65536))
	seqOf := func(gen uint64) uint16 { return base + uint16(gen) }
	lenOf := func(gen uint64) int { return 12 + int((gen*2654435761)%uint64(maxLen-12+1)) }
	var stop atomic.Bool
	var wg sync.WaitGroup
	var bad atomic.Int64
	idxOf := make([]atomic.Uint32, 4096) // slot index returned by Store for gen (mod 4096)
	report := func(key, what string, rep any) {
		bad.Add(1)
		run.Violation(key, what, rep)
	}
	// writer
	wg.Add(1)
	go func() {
		defer wg.Done()
		buf := make([]byte, maxLen)
		for g := uint64(1); g <= uint64(stores); g++ {
			l := lenOf(g)
			fill(buf[:l], g, seqOf(g))
			started.Store(g)
			_, idx := c.Store(seqOf(g), uint32(g), g%16 == 0, g%3 == 0, buf[:l])
			idxOf[g%uint64(len(idxOf))].Store(uint32(idx))
			done.Store(g)
			if g%64 == 0 {
				runtime.Gosched()
			}
		}
		stop.Store(true)
	}()
	// resizer
	wg.Add(1)
	go func() {
		defer wg.Done()
		rr := run.Rand(3, round)
		for !stop.Load() {
			nc := caps[rr.IntN(len(caps))]
			if rr.IntN(2) == 0 {
				c.Resize(nc)
			} else {
				c.ResizeCond(nc)
			}
			run.Count("concurrent_resizes", 1)
			for i := 0; i < 50 && !stop.Load(); i++ {
				runtime.Gosched()
			}
		}
	}()
	readers := 14
	for w := 0; w < readers; w++ {
		wg.Add(1)
		go func(w int) {
			defer wg.Done()
			rr := run.Rand(4, round, uint64(w))
			out := make([]byte, maxLen)
			want := make([]byte, maxLen)
			var hits, fresh, byIdx int64
			for !stop.Load() {
				d := done.Load()
				if d == 0 {
					runtime.Gosched()
					continue
				}
				back := uint64(rr.IntN(3 * caps[2]))
				if rr.IntN(2) == 0 {
					back = uint64(rr.IntN(minCap / 2))
				}
				if back >= d {
					back = d - 1
				}
				g := d - back
				s := seqOf(g)
				var n uint16
				byIndex := rr.IntN(2) == 0 && back < uint64(len(idxOf))-8
				if byIndex {
					// the writers' way: by (seqno, slot); a recycled or moved slot answers nothing
					n = c.GetAt(s, uint16(idxOf[g%uint64(len(idxOf))].Load()), out)
				} else {
					n = c.Get(s, out)
				}
				after := started.Load()
				if n == 0 && byIndex {
					continue // the slot may have been recycled or invalidated by a resize
				}
				if n == 0 {
					// fewer than minCap stores started since g completed => it must be held
					if after-g < uint64(minCap)-1 {
						report("concurrent-recent-missing", fmt.Sprintf("Get(%d) empty: store gen %d completed, only %d later stores started, smallest capacity %d", s, g, after-g, minCap),
							map[string]any{"round": round, "gen": g, "later": after - g, "mincap": minCap})
						return
					}
					continue
				}
				hits++
				if byIndex {
					byIdx++
				}
				if after-g < uint64(minCap)-1 {
					fresh++
				}
				// validate: self-description, then full body
				if n < 12 {
					report("concurrent-torn", fmt.Sprintf("Get(%d) returned %d bytes (<12)", s, n), map[string]any{"round": round})
					return
				}
				gg := binary.BigEndian.Uint64(out[0:8])
				ss := binary.BigEndian.Uint16(out[8:10])
				ll := binary.BigEndian.Uint16(out[10:12])
				if ss != s || int(ll) != int(n) || gg > after || gg == 0 || seqOf(gg) != s || lenOf(gg) != int(n) {
					report("concurrent-wrong-packet", fmt.Sprintf("Get(%d) returned header gen=%d seq=%d len=%d n=%d (started=%d)", s, gg, ss, ll, n, after), map[string]any{"round": round})
					return
				}
				fill(want[:n], gg, s)
				if string(want[:n]) != string(out[:n]) {
					report("concurrent-torn", fmt.Sprintf("Get(%d) returned a mixed/torn copy of gen %d", s, gg), map[string]any{"round": round})
					return
				}
			}
			run.Count("concurrent_reads_validated", hits)
			run.Count("concurrent_fresh_reads", fresh)
			run.Count("concurrent_reads_by_slot_validated", byIdx)
		}(w)
	}
	wg.Wait()
	run.Eval(int64(stores))
}

func main() {
	vk.RaceGuard("C05", []string{"packetcache/"})
	run := vk.Start("C05")
	if rep, ok := vk.ReplayInput(); ok {
		if m, ok := rep["replay"].(map[string]any); ok {
			if hi, ok := m["history"].(float64); ok {
				big, _ := m["big"].(bool)
				runHistory(run, uint64(hi), big)
			}
			if rd, ok := m["round"].(float64); ok {
				concurrent(run, uint64(rd), 200000)
			}
		}
		run.Finish("exploration", "replay of one recorded case")
	}
	nh := run.Pick(1500, 30000)
	nbig := run.Pick(6, 40)
	workers := runtime.GOMAXPROCS(0)
	var wg sync.WaitGroup
	var next atomic.Uint64
	for w := 0; w < workers; w++ {
		wg.Add(1)
		go func() {
			defer wg.Done()
			for {
				i := next.Add(1) - 1
				if i >= uint64(nh+nbig) {
					return
				}
				runHistory(run, i, i >= uint64(nh))
			}
		}()
	}
	wg.Wait()
	rounds := run.Pick(3, 10)
	for i := 0; i < rounds; i++ {
		concurrent(run, uint64(i), run.Pick(50000, 200000))
	}
	run.Set("histories", nh+nbig)
	run.Set("concurrent_rounds", rounds)
	run.FloorCounter("recent_hits", 1000)
	run.FloorCounter("get_hits", 100)
	run.FloorCounter("histories_with_grow", 50)
	run.FloorCounter("histories_with_shrink", 50)
	run.FloorCounter("concurrent_reads_validated", 1000)
	run.FloorCounter("concurrent_fresh_reads", 100)
	run.FloorCounter("concurrent_reads_by_slot_validated", 100)
	run.Assume("packet sizes 1..1504 (the property's range); the separately stored timestamp/marker words are not observable through the public API, the stored bytes are whole packets")
	run.Assume("race detector build: reports are logged by the child (halt_on_error=0) and turned into violations by the parent when an access lies in packetcache/")
	run.Finish("exploration", "histories of Store/Get/GetAt/Resize/ResizeCond/Last/Keyframe generated from (seed,index): 4 seqno modes (sequential, reorder+dup+gap, random, mixed), capacities 1..65535 biased small, sizes 1..1504; distinct_nontrivial = distinct (mode, grow, shrink, wrap, dup, log2 capacity, length class) shapes among histories that had an eviction and a resize; plus concurrent rounds of 1 writer + 1 resizer + 14 validating readers under -race")
}
