// C19 - names supplied by clients never reach files outside the groups, recordings and
// static directories.
//
// Three monitors:
//
//  1. Validator agreement (parent process, no server): for 10^5 / 10^7 generated strings the
//     unexported validators (exported by the verif shims) are compared with a reference
//     predicate written from the property text.
//
//  2. System-call monitor: a batch process builds a directory tree (the server's roots
//     surrounded by a sentinel tree, symlinks inside the roots pointing out), then runs the
//     real server together with the input driver under `strace -f -y` (a grandchild that
//     appends to the same report file).  Every file-name system call is resolved
//     (cwd / dirfd annotation, lexically and through the symlinks of the live tree, plus
//     the annotation of the returned descriptor), classified and attributed to the input
//     being processed through marker system calls issued by the driver.
//
//  3. Content and end-state: no response or websocket message carries a sentinel's
//     content; afterwards the sentinels are byte- and mtime-identical and nothing new
//     exists outside the roots.
//
// Violation keys:
//
//	validator-disagrees:validGroupName:<class>   validator-disagrees:validUsername:<class>
//	parse-accepts-name-group-layer-rejects:<class>   sanitise-leaves-separator
//	write-outside-roots:<syscall>:<kind>   read-outside-roots:<kind>
//	sentinel-touched:<syscall>:<kind>[:trailing-slash|:via-symlink|:via-symlink-trailing-slash]
//	sentinel-content-served:<kind>   sentinel-name-listed:<kind>
//	sentinel-modified   file-created-outside-roots
//	recording-outside-group-dir   recording-outside-group-dir:not-created
//	invalid-name-accepted:join-group:<class>   invalid-name-accepted:join-username:<class>
//	groups-dir-symlink-followed:{read,write,content-served}   (dedicated batch only)
//
// The suffix of sentinel-touched tells how the location outside the roots was reached: no
// suffix = the lexically normalised path is already outside (classic traversal); via-symlink =
// only the symlink-resolved view is outside; trailing-slash = the path argument ends in '/',
// so only a directory can have been reached.
package main

import (
	"encoding/json"
	"fmt"
	"os"
	"os/exec"
	"path/filepath"
	"regexp"
	"sort"
	"strings"
	"sync"
	"sync/atomic"
	"syscall"
	"time"

	"github.com/jech/galene/diskwriter"
	"github.com/jech/galene/group"
	"github.com/jech/galene/webserver"

	"verif/harness/vk"
)

const prop = "C19"

type batchArgs struct {
	Index         int    `json:"index"`
	Batches       int    `json:"batches"` // 0: benign inputs only (baseline run)
	Random        int    `json:"random"`
	GroupSymlinks bool   `json:"group_symlinks"`
	BaselineOut   string `json:"baseline_out,omitempty"` // baseline run: where to write the allow-list
	BaselineIn    string `json:"baseline_in,omitempty"`
	Only          *input `json:"only,omitempty"` // replay of one input
}

var straceTrace = "trace=%file,unlink,unlinkat,rename,renameat,renameat2,mkdir,mkdirat,rmdir,openat,open,creat,truncate,symlink,symlinkat,link,linkat,chmod,fchmodat,chown"

// ---------------------------------------------------------------------------------
// validator agreement

type valStats struct {
	evals, accepted, rejected, parsed, parsedNonEmpty, usernames, sanitised, sanitisedChanged int64
}

func checkValidators(run *vk.Run, s string, st *valStats, distinct map[string]struct{}) {
	rep := func(which string) map[string]any { return map[string]any{"validator": which, "s": s} }
	ref := refValidName(s)
	cls := refClass(s)
	distinct["validator|"+cls] = struct{}{}
	if got := group.VerifValidGroupName(s); got != ref {
		run.Violation("validator-disagrees:validGroupName:"+cls,
			fmt.Sprintf("validGroupName(%q) = %v, the reference predicate of the property text says %v", s, got, ref), rep("validGroupName"))
	}
	if ref {
		st.accepted++
	} else {
		st.rejected++
	}
	if got, want := group.VerifValidUsername(s), s == "" || ref; got != want {
		run.Violation("validator-disagrees:validUsername:"+cls,
			fmt.Sprintf("validUsername(%q) = %v, the property says %v (empty, or the group-name rule)", s, got, want), rep("validUsername"))
	}
	st.usernames++
	// URL-to-group parsing, the three ways the web server calls it
	checkParsed := func(how, n string) {
		st.parsed++
		if n == "" {
			return
		}
		st.parsedNonEmpty++
		if !refValidName(n) {
			run.Violation("parse-accepts-name-group-layer-rejects:"+refClass(n),
				fmt.Sprintf("%s yields the group name %q, which the group layer must reject (%s); validGroupName says %v",
					how, n, refClass(n), group.VerifValidGroupName(n)), rep("parseGroupName"))
		}
	}
	p := "/group/" + s
	checkParsed(fmt.Sprintf("parseGroupName(\"/group/\", %q)", p), webserver.VerifParseGroupName("/group/", p))
	checkParsed(fmt.Sprintf("parseGroupName(\"\", %q)", s), webserver.VerifParseGroupName("", s))
	for _, tail := range []string{"/.status", "/.whip", "/.whip/abc"} {
		dir, kind, _ := webserver.VerifSplitPath(p + tail)
		if strings.HasPrefix(kind, ".status") || strings.HasPrefix(kind, ".whip") {
			checkParsed(fmt.Sprintf("splitPath(%q) then parseGroupName(\"/group/\", %q)", p+tail, dir), webserver.VerifParseGroupName("/group/", dir))
		}
	}
	san := diskwriter.VerifSanitise(s)
	st.sanitised++
	if san != s {
		st.sanitisedChanged++
	}
	if strings.ContainsAny(san, "/\\") {
		run.Violation("sanitise-leaves-separator", fmt.Sprintf("sanitise(%q) = %q still contains a path separator", s, san), rep("sanitise"))
	}
	st.evals++
}

func validators(run *vk.Run, n int) {
	workers := 16
	var wg sync.WaitGroup
	var mu sync.Mutex
	total := valStats{}
	all := map[string]struct{}{}
	per := (n + workers - 1) / workers
	// the curated strings first, in order: the first witness of a key is then the simplest
	for _, l := range [][]string{{"a\\b"}, curatedNames, curatedStatic, curatedRecordings, curatedFilenames, curatedUsernames, curatedTokens, symlinkNames} {
		for _, s := range l {
			checkValidators(run, s, &total, all)
		}
	}
	for w := 0; w < workers; w++ {
		wg.Add(1)
		go func(w int) {
			defer wg.Done()
			r := run.Rand(1, uint64(w))
			st := valStats{}
			dist := map[string]struct{}{}
			for i := 0; i < per; i++ {
				s := genString(r)
				if w == 0 && i < 3 {
					run.Sample(map[string]any{"validator_string": s, "reference_accepts": refValidName(s), "class": refClass(s)})
				}
				checkValidators(run, s, &st, dist)
			}
			mu.Lock()
			total.evals += st.evals
			total.accepted += st.accepted
			total.rejected += st.rejected
			total.parsed += st.parsed
			total.parsedNonEmpty += st.parsedNonEmpty
			total.usernames += st.usernames
			total.sanitised += st.sanitised
			total.sanitisedChanged += st.sanitisedChanged
			for k := range dist {
				all[k] = struct{}{}
			}
			mu.Unlock()
		}(w)
	}
	wg.Wait()
	run.Eval(total.evals)
	for k := range all {
		run.Distinct(k)
	}
	run.Count("validator_strings", total.evals)
	run.Count("validator_reference_accepts", total.accepted)
	run.Count("validator_reference_rejects", total.rejected)
	run.Count("validator_parse_calls", total.parsed)
	run.Count("validator_parse_nonempty", total.parsedNonEmpty)
	run.Count("validator_sanitise_changed", total.sanitisedChanged)
	run.Count("validator_classes", int64(len(all)))
}

// ---------------------------------------------------------------------------------
// batch process: tree, traced grandchild, verdicts

type judge struct {
	run    *vk.Run
	lay    *layout
	args   batchArgs
	inputs []input
	self   string
	allow  map[string]bool // system paths read by benign activity (this run's warm-up + the baseline run)
	learnt map[string]bool
	nViol  int
}

func (j *judge) inputOf(ev *event) (input, bool) {
	if ev.Mark >= 1 && ev.Mark <= len(j.inputs) {
		return j.inputs[ev.Mark-1], true
	}
	return input{Kind: "harness", Phase: "harness"}, false
}

func (j *judge) violation(key, what string, in input, ev *event) {
	if strings.HasPrefix(key, "groups-dir-symlink-followed") {
		j.run.Count("observed:"+key, 1) // operator-placed symlink in the groups directory: observed, not judged
		return
	}
	j.nViol++
	rep := in.replay(j.args.Index, j.args.GroupSymlinks)
	rep["strace"] = ev.Line
	j.run.Violation(key, fmt.Sprintf("%s [input: %s] [strace: %.400s]", what, in.String(), ev.Line), rep)
}

func (j *judge) event(ev *event) {
	in, attributed := j.inputOf(ev)
	hostile := attributed && in.Phase == "hostile"
	if hostile {
		j.run.Count("file_syscalls_attributed_to_hostile_inputs", 1)
	}
	j.run.Count("file_syscalls_judged", 1)
	if ev.Class == clExec {
		if len(ev.Targets) == 1 && ev.Targets[0].Lex == j.self && ev.Mark == 0 {
			return
		}
	}
	kind := in.Kind
	if !hostile && attributed {
		kind = "benign:" + in.Kind
	}
	// every location this call refers to
	type loc struct {
		p      string
		viaSym bool // only the symlink-resolved view lies there
	}
	var locs []loc
	for _, t := range ev.Targets {
		locs = append(locs, loc{t.Lex, false})
		if t.Real != t.Lex {
			locs = append(locs, loc{t.Real, true})
		}
	}
	if strings.HasPrefix(ev.RetFd, "/") {
		via := true
		for _, t := range ev.Targets {
			if t.Lex == ev.RetFd {
				via = false
			}
		}
		locs = append(locs, loc{ev.RetFd, via})
	}
	outcome := "succeeded"
	if ev.Failed {
		outcome = "failed with " + ev.Errno
	}
	writeClass := ev.Class != clRead && ev.Class != clStat
	for _, l := range locs {
		if j.lay.isSentinel(l.p) {
			// route: a lexical escape keeps the plain key; an escape that only exists
			// because a symlink inside a root was followed is keyed as such
			key := fmt.Sprintf("sentinel-touched:%s:%s", ev.Name, kind)
			switch sym := l.viaSym && lexInside(ev, j.lay.readRoots()); {
			case sym && j.args.GroupSymlinks && lexInside(ev, []string{j.lay.Groups}):
				// dedicated batch: the groups directory itself contains symlinks pointing out
				key = "groups-dir-symlink-followed:write"
				if ev.Class == clRead || ev.Class == clStat {
					key = "groups-dir-symlink-followed:read"
				}
			case sym && rawTrailingSlash(ev):
				key += ":via-symlink-trailing-slash"
			case sym:
				key += ":via-symlink"
			case rawTrailingSlash(ev):
				// only a directory can be reached this way ("../", "x/../../")
				key += ":trailing-slash"
			}
			j.violation(key, fmt.Sprintf("%s (%s, %s) reached %s, which is outside the groups, recordings, static and data directories",
				ev.Name, ev.Class, outcome, j.lay.rel(l.p)), in, ev)
			return
		}
	}
	for _, l := range locs {
		switch {
		case j.lay.owned(l.p):
		case writeClass:
			if !underAny(l.p, j.lay.writeRoots()) {
				j.violation(fmt.Sprintf("write-outside-roots:%s:%s", ev.Name, kind),
					fmt.Sprintf("%s (%s, %s) on %s, outside the groups, recordings and data directories", ev.Name, ev.Class, outcome, j.lay.rel(l.p)), in, ev)
				return
			}
		default:
			if underAny(l.p, j.lay.readRoots()) {
				continue
			}
			k := normSys(l.p)
			if !hostile {
				j.learnt[k] = true
				continue
			}
			if runtimeReads[k] && rawIsLiteral(ev, l.p) {
				continue // the C library / Go runtime asking for a fixed absolute path
			}
			if !j.allow[k] && !j.learnt[k] {
				j.violation("read-outside-roots:"+kind,
					fmt.Sprintf("%s (%s, %s) on %s, which is outside the roots and is never touched by benign requests", ev.Name, ev.Class, outcome, l.p), in, ev)
				return
			}
		}
	}
	// recordings land directly in the group's own directory
	if hostile && in.Kind == "record-username" && writeClass && ev.Class != clMkdir {
		dir := filepath.Join(j.lay.Rec, filepath.FromSlash(in.Group))
		for _, l := range locs {
			if filepath.Dir(l.p) != dir {
				j.violation("recording-outside-group-dir",
					fmt.Sprintf("while recording for username %q the server did %s (%s) on %s, which is not directly inside %s", in.S, ev.Name, outcome, j.lay.rel(l.p), j.lay.rel(dir)), in, ev)
				return
			}
		}
		j.run.Count("recording_file_syscalls_checked", 1)
	}
	// the delete form manages the files of the group it belongs to: whatever it removes lies
	// directly in that group's own recording directory (recordings/<g>/sub/ is the directory
	// of another group, <g>/sub, with its own operators)
	if hostile && in.Kind == "delete-form" && writeClass {
		dir := filepath.Join(j.lay.Rec, filepath.FromSlash(in.Group))
		for _, l := range locs {
			// ("." and ".." name the group's own directory: removing it when it is empty stays
			// within what belongs to the group)
			if l.p != dir && filepath.Dir(l.p) != dir {
				j.violation("delete-outside-group-dir",
					fmt.Sprintf("the delete form of group %s with filename %q made the server do %s (%s) on %s, which is not directly inside %s", in.Group, in.S, ev.Name, outcome, j.lay.rel(l.p), j.lay.rel(dir)), in, ev)
				return
			}
		}
		j.run.Count("delete_form_file_syscalls_checked", 1)
	}
}

// Reads the C library and the Go runtime perform lazily (thread creation, first use of
// the resolver or of the time zone), whatever the request.  Only honoured when the
// process passed exactly this absolute path to the system call.
var runtimeReads = map[string]bool{
	"/sys/devices/system/cpu/online": true, "/sys/devices/system/cpu/possible": true, "/sys/devices/system/cpu": true,
	"/sys/kernel/mm/transparent_hugepage/hpage_pmd_size": true, "/proc/sys/net/core/somaxconn": true,
	"/proc/self/maps": true, "/proc/stat": true, "/proc/meminfo": true, "/proc/cpuinfo": true, "/proc/sys/vm/overcommit_memory": true,
	"/etc/localtime": true, "/etc/nsswitch.conf": true, "/etc/hosts": true, "/etc/resolv.conf": true, "/etc/host.conf": true, "/etc/gai.conf": true,
	"/etc/mime.types": true, "/etc/apache2/mime.types": true, "/etc/apache/mime.types": true, "/etc/httpd/conf/mime.types": true,
	"/usr/share/mime/globs2": true, "/usr/local/share/mime/globs2": true, "/dev/urandom": true, "/dev/null": true,
}

func rawIsLiteral(ev *event, p string) bool {
	for _, t := range ev.Targets {
		if t.Raw == p {
			return true
		}
	}
	return false
}

var procPid = regexp.MustCompile(`^/proc/\d+(/task/\d+)?`)

// normSys makes process-specific system paths comparable between runs.
func normSys(p string) string {
	if strings.HasPrefix(p, "/proc/") {
		p = procPid.ReplaceAllString(p, "/proc/self")
		p = strings.Replace(p, "/proc/self/task/self", "/proc/self", 1)
	}
	return p
}

func lexInside(ev *event, dirs []string) bool {
	for _, t := range ev.Targets {
		if underAny(t.Lex, dirs) {
			return true
		}
	}
	return false
}

// rawTrailingSlash: the path argument ends in '/' (the kernel then follows a final
// symlink even under O_NOFOLLOW).
func rawTrailingSlash(ev *event) bool {
	for _, t := range ev.Targets {
		if strings.HasSuffix(t.Raw, "/") {
			return true
		}
	}
	return false
}

func childEnv(extra ...string) []string {
	var env []string
	for _, e := range os.Environ() {
		if strings.HasPrefix(e, "VERIF_CHILD") {
			continue
		}
		env = append(env, e)
	}
	return append(env, extra...)
}

func batchChild() {
	run := vk.Start(prop)
	var a batchArgs
	vk.ChildArgs(&a)
	d := os.Getenv("VERIF_CHILD_DIR")
	out := os.Getenv("VERIF_CHILD_OUT")
	lay := newLayout(d, out, a.GroupSymlinks)
	if len(lay.Root)+2 > 100 {
		run.Inconclusive("the scratch path is too long for the server's unix socket: " + lay.Root)
		os.Exit(0)
	}
	if err := lay.build(); err != nil {
		run.Inconclusive("cannot build the batch tree: " + err.Error())
		os.Exit(0)
	}
	var inputs []input
	if a.Only != nil {
		inputs = buildInputs(nil, 0, 0, 0, a.GroupSymlinks)
		in := *a.Only
		in.Seq = len(inputs) + 1
		in.Phase = "hostile"
		inputs = append(inputs, in)
	} else {
		inputs = buildInputs(run.Rand(10, uint64(a.Index)), a.Index, a.Batches, a.Random, a.GroupSymlinks)
	}
	inputsFile := filepath.Join(d, "inputs.json")
	layoutFile := filepath.Join(d, "layout.json")
	b, _ := json.Marshal(inputs)
	os.WriteFile(inputsFile, b, 0o644)
	b, _ = json.Marshal(lay)
	os.WriteFile(layoutFile, b, 0o644)
	logFile := filepath.Join(d, "strace.log")
	errFile := filepath.Join(d, "server.err")
	ef, _ := os.Create(errFile)
	os.WriteFile(logFile, nil, 0o644)
	before := lay.snapshot()

	sa, _ := json.Marshal(serverArgs{Layout: layoutFile, Inputs: inputsFile, Batch: a.Index})
	self, _ := filepath.Abs(os.Args[0])
	cmd := exec.Command("strace", "-f", "-y", "-qq", "-s", "8192", "-e", "signal=none", "-o", logFile, "-e", straceTrace, "--", self)
	cmd.Env = childEnv("VERIF_CHILD=server", "VERIF_CHILD_ARGS="+string(sa), "VERIF_CHILD_OUT="+out, "VERIF_CHILD_DIR="+lay.Root)
	cmd.Dir = lay.Cwd
	cmd.Stdout = ef
	cmd.Stderr = ef
	cmd.SysProcAttr = &syscall.SysProcAttr{Setpgid: true}
	start := time.Now()
	if err := cmd.Start(); err != nil {
		run.Inconclusive("cannot start strace: " + err.Error())
		os.Exit(0)
	}
	done := make(chan error, 1)
	go func() { done <- cmd.Wait() }()
	var err error
	timedOut := false
	select {
	case err = <-done:
	case <-time.After(time.Duration(max(300, len(inputs))) * time.Second):
		timedOut = true
		syscall.Kill(-cmd.Process.Pid, syscall.SIGKILL)
		err = <-done
	}
	ef.Close()
	run.Max("traced_server_wall_ms_max", time.Since(start).Milliseconds())
	after := lay.snapshot()
	if timedOut {
		run.Inconclusive(fmt.Sprintf("batch %d: the traced server did not finish within the watchdog", a.Index))
	} else if err != nil {
		// a crash of the server is not this property's business, but the batch is lost
		eb, _ := os.ReadFile(errFile)
		tail := string(eb)
		if i := strings.Index(tail, "\npanic: "); i >= 0 {
			tail = tail[i:]
		} else if i := strings.Index(tail, "\nfatal error: "); i >= 0 {
			tail = tail[i:]
		} else if len(tail) > 1500 {
			tail = tail[len(tail)-1500:]
		}
		if len(tail) > 3000 {
			tail = tail[:3000]
		}
		run.Inconclusive(fmt.Sprintf("batch %d: the traced server exited abnormally (%v): %s", a.Index, err, tail))
	}

	// judge the trace
	j := &judge{run: run, lay: lay, args: a, inputs: inputs, self: self, allow: map[string]bool{}, learnt: map[string]bool{}}
	if a.BaselineIn != "" {
		var paths []string
		if b, err := os.ReadFile(a.BaselineIn); err == nil {
			json.Unmarshal(b, &paths)
		}
		for _, p := range paths {
			j.allow[p] = true
		}
	}
	tp := newTraceParser(lay.Cwd, newWalker())
	var events []*event
	if err := tp.parseFile(logFile, func(ev *event) { events = append(events, ev) }); err != nil {
		run.Inconclusive("cannot read the strace log: " + err.Error())
	}
	// first pass: learn what benign activity reads; second pass: judge everything
	for _, ev := range events {
		if in, ok := j.inputOf(ev); !ok || in.Phase != "hostile" {
			if ev.Class == clRead || ev.Class == clStat || ev.Class == clExec {
				for _, t := range ev.Targets {
					for _, p := range []string{t.Lex, t.Real} {
						if !under(p, lay.D) {
							j.learnt[normSys(p)] = true
						}
					}
				}
				if strings.HasPrefix(ev.RetFd, "/") && !under(ev.RetFd, lay.D) {
					j.learnt[normSys(ev.RetFd)] = true
				}
			}
		}
	}
	for _, ev := range events {
		j.event(ev)
	}
	run.Count("strace_lines_parsed", int64(tp.Lines))
	if tp.Lines == 0 {
		eb, _ := os.ReadFile(errFile)
		run.Inconclusive(fmt.Sprintf("strace produced no log (ptrace not permitted?): %.300s", eb))
	}
	for name, n := range tp.Unknown {
		run.Count("unknown_file_syscall:"+name, int64(n))
	}
	if tp.Trunc > 0 {
		run.Inconclusive(fmt.Sprintf("%d path arguments were abbreviated by strace", tp.Trunc))
	}
	if a.BaselineOut != "" {
		var paths []string
		for p := range j.learnt {
			if !under(p, lay.D) {
				paths = append(paths, p)
			}
		}
		sort.Strings(paths)
		b, _ := json.Marshal(paths)
		os.WriteFile(a.BaselineOut, b, 0o644)
		run.Count("baseline_system_paths", int64(len(paths)))
	}

	// end state
	diff := lay.compare(before, after)
	run.Count("sentinels_checked", int64(diff.Checked))
	rep := map[string]any{"batch": a.Index, "group_symlinks": a.GroupSymlinks}
	if a.Only != nil {
		rep["input"] = *a.Only
	}
	for _, m := range diff.Modified {
		key := "sentinel-modified"
		if a.GroupSymlinks {
			run.Count("observed:groups-dir-symlink-followed:write", 1)
			continue
		}
		run.Violation(key, "after the batch a file outside the roots differs from its state before: "+lay.rel(m), rep)
	}
	for _, c := range diff.Created {
		key := "file-created-outside-roots"
		if a.GroupSymlinks {
			run.Count("observed:groups-dir-symlink-followed:write", 1)
			continue
		}
		run.Violation(key, "after the batch a new file exists outside the roots: "+lay.rel(c), rep)
	}
	run.Count("batches_judged", 1)
	os.Exit(0)
}

// ---------------------------------------------------------------------------------
// parent

func runBatch(run *vk.Run, a batchArgs) {
	res := run.RunChild("batch", a, 40*time.Minute)
	switch {
	case res.Crash != "":
		run.Inconclusive(fmt.Sprintf("batch %d: the batch process crashed: %s\n%s", a.Index, res.Crash, res.CrashText))
	case res.TimedOut:
		run.Inconclusive(fmt.Sprintf("batch %d: watchdog fired", a.Index))
	case res.ExitCode != 0:
		run.Inconclusive(fmt.Sprintf("batch %d: batch process exited with %d", a.Index, res.ExitCode))
	default:
		run.Count("batches_completed", 1)
	}
}

func main() {
	if mode, ok := vk.InChild(); ok {
		switch mode {
		case "batch":
			batchChild()
		case "server":
			serverChild()
		}
		return
	}
	run := vk.Start(prop)
	run.MaxSamples = 8
	if _, err := exec.LookPath("strace"); err != nil {
		run.Inconclusive("strace is not installed")
		run.Finish("exploration", "n/a")
	}
	baselineFile := filepath.Join(run.Scratch, "c19-baseline.json")

	if rep, ok := vk.ReplayInput(); ok {
		m, _ := rep["replay"].(map[string]any)
		if v, ok := m["validator"].(string); ok && v != "" {
			s, _ := m["s"].(string)
			st := valStats{}
			checkValidators(run, s, &st, map[string]struct{}{})
			run.Eval(1)
			run.Finish("exploration", "replay of one validator string")
		}
		a := batchArgs{Index: 0, Batches: 0, BaselineOut: baselineFile}
		runBatch(run, a)
		a = batchArgs{BaselineIn: baselineFile}
		if f, ok := m["batch"].(float64); ok {
			a.Index = int(f)
		}
		a.GroupSymlinks, _ = m["group_symlinks"].(bool)
		if im, ok := m["input"].(map[string]any); ok {
			b, _ := json.Marshal(im)
			var in input
			json.Unmarshal(b, &in)
			a.Only = &in
		} else {
			a.Batches = 1 // end-state violation without a single culprit: rerun the batch
		}
		runBatch(run, a)
		run.Finish("exploration", "replay of one input (after the benign phase) in a fresh traced server")
	}

	// 1. validators, concurrently with the baseline run
	var wg sync.WaitGroup
	wg.Add(1)
	go func() {
		defer wg.Done()
		validators(run, run.Pick(100_000, 10_000_000))
	}()
	runBatch(run, batchArgs{Index: 0, Batches: 0, BaselineOut: baselineFile})

	// 2. hostile batches
	batches := run.Pick(10, 96)
	random := run.Pick(700, 7000)
	symBatches := run.Pick(1, 2)
	sem := make(chan struct{}, run.Pick(10, 12))
	var launched atomic.Int64
	for b := 0; b < batches+symBatches; b++ {
		a := batchArgs{Index: b, Batches: batches, Random: random, BaselineIn: baselineFile}
		if b >= batches {
			a = batchArgs{Index: b, Batches: symBatches, Random: run.Pick(150, 1500), GroupSymlinks: true, BaselineIn: baselineFile}
		}
		wg.Add(1)
		sem <- struct{}{}
		go func() {
			defer wg.Done()
			defer func() { <-sem }()
			launched.Add(1)
			runBatch(run, a)
		}()
	}
	wg.Wait()

	nb := int64(batches + symBatches + 1)
	run.FloorCounter("batches_completed", nb)
	run.FloorCounter("batches_judged", nb)
	run.FloorCounter("server_runs_completed", nb)
	run.FloorCounter("validator_strings", int64(run.Pick(100_000, 10_000_000)))
	run.FloorCounter("validator_reference_accepts", int64(run.Pick(5_000, 500_000)))
	run.FloorCounter("validator_reference_rejects", int64(run.Pick(20_000, 2_000_000)))
	run.FloorCounter("validator_parse_nonempty", int64(run.Pick(20_000, 2_000_000)))
	run.FloorCounter("validator_sanitise_changed", int64(run.Pick(10_000, 1_000_000)))
	run.FloorCounter("validator_classes", 12)
	run.FloorCounter("strace_lines_parsed", nb*2000)
	run.FloorCounter("file_syscalls_attributed_to_hostile_inputs", int64(batches)*int64(random))
	run.FloorCounter("sentinels_checked", nb*int64(len(sentinelFiles())))
	run.FloorCounter("recordings_created", nb*3)
	run.FloorCounter("recording_file_syscalls_checked", int64(batches))
	run.FloorCounter("baseline_system_paths", 1)
	for _, k := range kindSpecs {
		run.FloorCounter("requests:"+k.name, int64(batches)*int64(random)*int64(k.weight)/200)
		run.FloorCounter("benign_ok:"+k.name, nb)
	}
	run.Floor("distinct (input kind, string class) tuples", int64(run.DistinctCount()), int64(run.Pick(150, 400)))

	run.Assume("strace -f -y reports every file-name system call of the traced server process with its true arguments; the driver sends one input at a time, so the calls between two marker system calls belong to the input announced by the first")
	run.Assume("paths are resolved independently of galene: lexical normalisation, a kernel-like component walk through the symlinks of the live tree, and the kernel's own name of every returned descriptor")
	run.Assume("reads of system paths outside the batch directory (/proc, /sys, /etc/mime.types, zoneinfo ...) are allowed only if an uninjected baseline run, or the benign phase of the same process, performs them too; writes are never allow-listed")
	run.Assume("the dedicated batch whose groups directory contains symlinks pointing outside is keyed separately (groups-dir-symlink-followed:*): the group layer uses plain os calls, whereas static files and recordings go through os.Root")
	run.Finish("exploration", "validators: strings of <= 24 bytes over {a,b,'.','/','\\\\','%',NUL,'é','‥',' '} biased to traversal tokens, compared with the reference predicate of the property text; "+
		"end-to-end: per batch a fresh traced server, a benign phase (positive controls) then curated traversal strings crossed with encodings (raw, four percent-encodings, form), methods (incl. CONNECT, which the mux does not canonicalise) and credentials, then random strings, over 16 input kinds; "+
		"evaluations = hostile inputs sent + validator strings; distinct_nontrivial = distinct (input kind, string class) tuples plus validator rejection classes")
}
