package main

// The directory tree of one batch: the server's roots with their fixtures, the
// sentinel tree around them, and the before/after comparison.

import (
	"crypto/sha256"
	"encoding/hex"
	"encoding/json"
	"fmt"
	"io/fs"
	"os"
	"path/filepath"
	"sort"
	"strings"
	"time"
)

// Every sentinel file contains this marker; nothing else in the tree, in the inputs or
// in the server does.
const sentinelMarker = "C19SENTINEL"

// Sentinel files whose *name* carries the marker: a directory listing gives them away.
const sentinelNameMarker = "C19SENTINELNAME"

type layout struct {
	D      string `json:"d"`    // batch directory (parent of the server root)
	Root   string `json:"root"` // server root
	Groups string `json:"groups"`
	Rec    string `json:"rec"`
	Static string `json:"static"`
	Data   string `json:"data"`
	Cwd    string `json:"cwd"`
	Out    string `json:"out"` // the report file shared with the parent

	GroupSymlinks bool `json:"group_symlinks"`
}

func newLayout(d, out string, groupSymlinks bool) *layout {
	root := filepath.Join(d, "r")
	return &layout{D: d, Root: root, Groups: filepath.Join(root, "groups"), Rec: filepath.Join(root, "recordings"),
		Static: filepath.Join(root, "static"), Data: filepath.Join(root, "data"), Cwd: filepath.Join(d, "cwd"), Out: out,
		GroupSymlinks: groupSymlinks}
}

func (l *layout) readRoots() []string  { return []string{l.Groups, l.Rec, l.Static, l.Data} }
func (l *layout) writeRoots() []string { return []string{l.Groups, l.Rec, l.Data} }

func under(p, dir string) bool {
	return p == dir || strings.HasPrefix(p, dir+"/")
}

func underAny(p string, dirs []string) bool {
	for _, d := range dirs {
		if under(p, d) {
			return true
		}
	}
	return false
}

// owned: files of the harness itself (never derived from a client-supplied name).
func (l *layout) owned(p string) bool {
	switch p {
	case l.Out, filepath.Join(l.Root, "s"), filepath.Join(l.D, "inputs.json"), filepath.Join(l.D, "layout.json"),
		filepath.Join(l.D, "strace.log"), filepath.Join(l.D, "server.err"), l.Cwd:
		return true
	}
	return false
}

// the HMAC key of pubGroup's authKeys (base64url of "0123456789abcdef0123456789abcdef")
const jwtSecret = "0123456789abcdef0123456789abcdef"
const jwtSecretB64 = "MDEyMzQ1Njc4OWFiY2RlZjAxMjM0NTY3ODlhYmNkZWY"

const (
	recGroup  = "grec"
	pubGroup  = "gpub"
	apiGroup  = "gapi"
	autoGroup = "gauto"
	subGroup  = "gsub/deep"
	opUser    = "op1"
	opPass    = "pw-op1"
)

func fixtureGroups() map[string]map[string]any {
	wild := func(perm string) map[string]any {
		return map[string]any{"password": map[string]any{"type": "wildcard"}, "permissions": perm}
	}
	users := func() map[string]any {
		return map[string]any{opUser: map[string]any{"password": opPass, "permissions": "op"}}
	}
	return map[string]map[string]any{
		pubGroup: {"displayName": "FIXTURE-pub", "wildcard-user": wild("present"), "users": users(), "unrestricted-tokens": true,
			"authKeys": []any{map[string]any{"kty": "oct", "alg": "HS256", "k": jwtSecretB64}}},
		recGroup:  {"displayName": "FIXTURE-rec", "wildcard-user": wild("present"), "users": users(), "allow-recording": true, "auto-subgroups": true},
		apiGroup:  {"displayName": "FIXTURE-api", "wildcard-user": wild("present"), "users": users()},
		autoGroup: {"displayName": "FIXTURE-auto", "wildcard-user": wild("present"), "users": users(), "auto-subgroups": true, "allow-recording": true},
		subGroup:  {"displayName": "FIXTURE-sub", "wildcard-user": wild("present"), "users": users()},
	}
}

func writeFile(p string, content string) error {
	if err := os.MkdirAll(filepath.Dir(p), 0o755); err != nil {
		return err
	}
	return os.WriteFile(p, []byte(content), 0o644)
}

// ensureFixtures (re)writes the fixtures inside the roots that inputs may legitimately
// have changed (a group deleted through the admin API, a recording or an in-root
// symlink removed through the delete form).  It only touches paths inside the roots.
func (l *layout) ensureFixtures() error {
	for name, desc := range fixtureGroups() {
		b, _ := json.MarshalIndent(desc, "", " ")
		p := filepath.Join(l.Groups, filepath.FromSlash(name)+".json")
		if old, err := os.ReadFile(p); err == nil && string(old) == string(b)+"\n" {
			continue
		}
		os.MkdirAll(filepath.Dir(p), 0o755)
		tmp := p + ".fixture-tmp"
		if err := os.WriteFile(tmp, append(b, '\n'), 0o644); err != nil {
			return err
		}
		if err := os.Rename(tmp, p); err != nil {
			return err
		}
	}
	files := map[string]string{
		filepath.Join(l.Rec, recGroup, "keep.webm"):      "FIXTURE-REC-KEEP",
		filepath.Join(l.Rec, autoGroup, "keep.webm"):     "FIXTURE-REC-KEEP-AUTO",
		filepath.Join(l.Rec, recGroup, "sub", "in.webm"): "FIXTURE-REC-SUB",
	}
	for p, c := range files {
		if b, err := os.ReadFile(p); err == nil && string(b) == c {
			continue
		}
		if err := writeFile(p, c); err != nil {
			return err
		}
	}
	links := map[string]string{
		filepath.Join(l.Static, "link"):                  "../secret",
		filepath.Join(l.Static, "linkfile.html"):         "../secret/index.html",
		filepath.Join(l.Static, "sub", "link"):           "../../secret",
		filepath.Join(l.Rec, "link"):                     "../secret",
		filepath.Join(l.Rec, recGroup, "link"):           "../../secret",
		filepath.Join(l.Rec, recGroup, "linkfile.webm"):  "../../secret/rec.webm",
		filepath.Join(l.Rec, autoGroup, "link"):          "../../secret",
		filepath.Join(l.Rec, autoGroup, "linkfile.webm"): "../../secret/rec.webm",
	}
	if l.GroupSymlinks {
		links[filepath.Join(l.Groups, "link")] = "../secret"
		links[filepath.Join(l.Groups, "linkfile.json")] = "../secret/passwd.json"
		links[filepath.Join(l.Groups, "gsub", "link")] = "../../secret"
	}
	for p, t := range links {
		if cur, err := os.Readlink(p); err == nil && cur == t {
			continue
		}
		os.RemoveAll(p)
		os.MkdirAll(filepath.Dir(p), 0o755)
		if err := os.Symlink(t, p); err != nil {
			return err
		}
	}
	return nil
}

// sentinelFiles: path relative to D -> content.  All of them live outside the roots.
func sentinelFiles() map[string]string {
	desc := func(tag string) string {
		return fmt.Sprintf(`{"displayName":"%s-%s-name","description":"%s-%s-desc","public":true,"allow-recording":true,"auto-subgroups":true,"wildcard-user":{"password":{"type":"wildcard"},"permissions":"op"}}`+"\n",
			sentinelMarker, tag, sentinelMarker, tag)
	}
	return map[string]string{
		"r/secret/passwd.json":                       desc("secret-passwd"),
		"r/secret/x.json":                            desc("secret-x"),
		"r/secret/index.html":                        "<html>" + sentinelMarker + "-secret-index</html>\n",
		"r/secret/rec.webm":                          sentinelMarker + "-secret-rec\n",
		"r/secret/keep.webm":                         sentinelMarker + "-secret-keep\n",
		"r/secret/" + sentinelNameMarker + "-a.webm": sentinelMarker + "-secret-named\n",
		"r/secret/" + sentinelNameMarker + "-b.json": desc("secret-named"),
		"r/" + sentinelNameMarker + "-c.html":        sentinelMarker + "-root-named\n",
		"r/secret/sub/deep.json":                     desc("secret-sub-deep"),
		"r/groups-evil/x.json":                       desc("groups-evil-x"),
		"r/groups.json":                              desc("groups-json"),
		"r/x.json":                                   desc("root-x"),
		"r/passwd.json":                              desc("root-passwd"),
		"r/secret.json":                              desc("root-secret"),
		"r/recordings.json":                          desc("recordings-json"),
		"r/static.json":                              desc("static-json"),
		"r/index.html":                               "<html>" + sentinelMarker + "-root-index</html>\n",
		"r/rec.webm":                                 sentinelMarker + "-root-rec\n",
		"r/recordings-evil/g/f.webm":                 sentinelMarker + "-recordings-evil\n",
		"r/recordings-evil/grec.webm":                sentinelMarker + "-recordings-evil-2\n",
		"r/static-evil/index.html":                   "<html>" + sentinelMarker + "-static-evil</html>\n",
		"r/staticx":                                  sentinelMarker + "-staticx\n",
		"x.json":                                     desc("parent-x"),
		"passwd.json":                                desc("parent-passwd"),
		"index.html":                                 "<html>" + sentinelMarker + "-parent-index</html>\n",
		"secret/passwd.json":                         desc("parent-secret-passwd"),
		"secret/rec.webm":                            sentinelMarker + "-parent-secret-rec\n",
	}
}

// build creates the whole tree (run by the untraced batch process).
func (l *layout) build() error {
	for _, d := range []string{l.Groups, l.Rec, l.Static, l.Data, filepath.Join(l.Data, "var"), l.Cwd,
		filepath.Join(l.Rec, recGroup), filepath.Join(l.Rec, autoGroup)} {
		if err := os.MkdirAll(d, 0o755); err != nil {
			return err
		}
	}
	static := map[string]string{
		"index.html":     "<html>STATIC-INDEX</html>\n",
		"galene.html":    "<html>STATIC-GALENE</html>\n",
		"404.html":       "<html>STATIC-404</html>\n",
		"css/a.css":      "body{} /* STATIC-CSS */\n",
		"sub/index.html": "<html>STATIC-SUB-INDEX</html>\n",
		"a b/é.txt":      "STATIC-ODD-NAME\n",
	}
	for p, c := range static {
		if err := writeFile(filepath.Join(l.Static, filepath.FromSlash(p)), c); err != nil {
			return err
		}
	}
	for p, c := range sentinelFiles() {
		if err := writeFile(filepath.Join(l.D, filepath.FromSlash(p)), c); err != nil {
			return err
		}
	}
	if err := l.ensureFixtures(); err != nil {
		return err
	}
	// age everything outside the roots so that a rewrite with equal content still shows
	old := time.Now().Add(-48 * time.Hour)
	filepath.WalkDir(l.D, func(p string, d fs.DirEntry, err error) error {
		if err != nil {
			return nil
		}
		if underAny(p, l.readRoots()) {
			if d.IsDir() {
				return filepath.SkipDir
			}
			return nil
		}
		if d.Type()&fs.ModeSymlink == 0 && p != l.D && p != l.Root && p != l.Cwd {
			os.Chtimes(p, old, old)
		}
		return nil
	})
	return nil
}

// isSentinel: any path below the batch directory that is neither inside a root nor a
// file of the harness is part of the sentinel tree (existing sentinels, their
// directories, and names that do not exist yet next to them).
func (l *layout) isSentinel(p string) bool {
	if !under(p, l.D) || underAny(p, l.readRoots()) || l.owned(p) {
		return false
	}
	return true
}

type snapEntry struct {
	Mode  fs.FileMode
	Size  int64
	Mtime time.Time
	Sum   string
	Link  string
}

// snapshot records everything below D that is outside the roots.
func (l *layout) snapshot() map[string]snapEntry {
	m := map[string]snapEntry{}
	filepath.WalkDir(l.D, func(p string, d fs.DirEntry, err error) error {
		if err != nil {
			return nil
		}
		if underAny(p, l.readRoots()) {
			if d.IsDir() {
				return filepath.SkipDir
			}
			return nil
		}
		fi, err := os.Lstat(p)
		if err != nil {
			return nil
		}
		e := snapEntry{Mode: fi.Mode(), Size: fi.Size(), Mtime: fi.ModTime()}
		switch {
		case fi.Mode()&fs.ModeSymlink != 0:
			e.Link, _ = os.Readlink(p)
		case fi.Mode().IsRegular():
			if b, err := os.ReadFile(p); err == nil {
				h := sha256.Sum256(b)
				e.Sum = hex.EncodeToString(h[:])
			}
		}
		m[p] = e
		return nil
	})
	return m
}

type treeDiff struct {
	Created  []string
	Modified []string // content, type, or mtime of a sentinel changed; or it vanished
	Checked  int
}

func (l *layout) compare(before, after map[string]snapEntry) treeDiff {
	var d treeDiff
	for p, b := range before {
		if l.owned(p) || p == l.D || p == l.Root {
			continue // D and r hold the harness' own files (socket, logs): their mtimes move
		}
		d.Checked++
		a, ok := after[p]
		switch {
		case !ok:
			d.Modified = append(d.Modified, p+" (vanished)")
		case a.Mode != b.Mode:
			d.Modified = append(d.Modified, p+" (type or mode changed)")
		case a.Sum != b.Sum || a.Size != b.Size && b.Mode.IsRegular():
			d.Modified = append(d.Modified, p+" (content changed)")
		case a.Link != b.Link:
			d.Modified = append(d.Modified, p+" (link target changed)")
		case !a.Mtime.Equal(b.Mtime):
			d.Modified = append(d.Modified, p+" (mtime changed)")
		}
	}
	for p := range after {
		if _, ok := before[p]; !ok && !l.owned(p) {
			d.Created = append(d.Created, p)
		}
	}
	sort.Strings(d.Created)
	sort.Strings(d.Modified)
	return d
}

func (l *layout) rel(p string) string {
	if under(p, l.D) {
		return "<batch>" + strings.TrimPrefix(p, l.D)
	}
	return p
}
