package main

// The traced process: real galene server + the driver that sends the inputs, one at a
// time, each preceded by a marker system call so that the trace can be attributed.

import (
	"bytes"
	"crypto/hmac"
	"crypto/sha256"
	"encoding/base64"
	"encoding/json"
	"fmt"
	"io"
	"net/url"
	"os"
	"path/filepath"
	"sort"
	"strconv"
	"strings"
	"sync"
	"syscall"
	"time"

	"github.com/pion/rtp"
	"github.com/pion/webrtc/v4"

	"github.com/jech/galene/conn"
	"github.com/jech/galene/diskwriter"
	"github.com/jech/galene/group"
	"github.com/jech/galene/token"

	"verif/harness/vclient"
	"verif/harness/vk"
	"verif/harness/vsrv"
)

type input struct {
	Seq    int    `json:"seq"`
	Phase  string `json:"phase"` // benign | hostile
	Kind   string `json:"kind"`
	S      string `json:"s"`
	Enc    string `json:"enc,omitempty"`
	Method string `json:"method,omitempty"`
	Auth   string `json:"auth,omitempty"`   // admin | op | none
	Group  string `json:"group,omitempty"`  // fixture group used by kinds that need one
	Expect string `json:"expect,omitempty"` // positive control (benign phase only)
}

func (in input) replay(batch int, groupSymlinks bool) map[string]any {
	return map[string]any{"batch": batch, "group_symlinks": groupSymlinks, "input": in}
}

func (in input) String() string {
	b, _ := json.Marshal(in.S)
	return fmt.Sprintf("%s %s enc=%s method=%s auth=%s group=%s", in.Kind, b, in.Enc, in.Method, in.Auth, in.Group)
}

type serverArgs struct {
	Layout string `json:"layout"`
	Inputs string `json:"inputs"`
	Batch  int    `json:"batch"`
}

func mark(n int) {
	syscall.Access(markPrefix+strconv.Itoa(n), 0)
}

type driver struct {
	run    *vk.Run
	srv    *vsrv.Server
	lay    *layout
	batch  int
	cur    input
	wsN    int
	tokN   int
	failed int
}

func (d *driver) violation(key, what string) {
	if strings.HasPrefix(key, "groups-dir-symlink-followed") {
		// a symlink the OPERATOR placed inside the groups directory is followed by the group
		// layer (plain os calls, lexical confinement): the property's confinement of group
		// names is lexical, so this is recorded as an observation, not judged
		d.run.Count("observed:"+key, 1)
		return
	}
	d.run.Violation(key, what+" [input: "+d.cur.String()+"]", d.cur.replay(d.batch, d.lay.GroupSymlinks))
}

func (d *driver) auth(kind string) map[string]string {
	switch kind {
	case "admin":
		return d.srv.AdminAuth()
	case "op":
		return vsrv.Basic(opUser, opPass)
	case "wrong":
		return vsrv.Basic(opUser, "not-the-password")
	}
	return nil
}

// raw writes one hand-made request on a fresh connection and returns status and the
// complete response bytes.
func (d *driver) raw(method, target string, hdr map[string]string, body []byte) (int, []byte) {
	c, err := d.srv.RawConn()
	if err != nil {
		d.run.Inconclusive("cannot connect to the server socket: " + err.Error())
		return 0, nil
	}
	defer c.Close()
	var b bytes.Buffer
	b.WriteString(method + " " + target + " HTTP/1.1\r\nHost: galene.test\r\nConnection: close\r\n")
	keys := make([]string, 0, len(hdr))
	for k := range hdr {
		keys = append(keys, k)
	}
	sort.Strings(keys)
	for _, k := range keys {
		b.WriteString(k + ": " + hdr[k] + "\r\n")
	}
	if body != nil || method == "POST" || method == "PUT" {
		b.WriteString("Content-Length: " + strconv.Itoa(len(body)) + "\r\n")
	}
	b.WriteString("\r\n")
	b.Write(body)
	c.SetDeadline(time.Now().Add(30 * time.Second))
	if _, err := c.Write(b.Bytes()); err != nil {
		return 0, nil
	}
	resp, _ := io.ReadAll(io.LimitReader(c, 1<<22))
	status := 0
	if len(resp) >= 12 && bytes.HasPrefix(resp, []byte("HTTP/1.")) {
		status, _ = strconv.Atoi(string(resp[9:12]))
	}
	d.run.Count(fmt.Sprintf("http_status_%dxx", status/100), 1)
	if status == 0 {
		d.run.Count("no_http_response:"+d.cur.Kind+":"+method, 1)
	}
	d.leak(resp, fmt.Sprintf("%s %s answered %d", method, target, status))
	return status, resp
}

// leak reports sentinel material in something the server sent: the content of a sentinel
// file, or (directory listings) the name of one.
func (d *driver) leak(data []byte, what string) bool {
	i := bytes.Index(data, []byte(sentinelMarker))
	if i < 0 {
		return false
	}
	ex := data[max(0, i-60):min(len(data), i+90)]
	key, how := "sentinel-content-served:", "with the content of a file outside the roots"
	if bytes.HasPrefix(data[i:], []byte(sentinelNameMarker)) {
		key, how = "sentinel-name-listed:", "with a listing of a directory outside the roots"
	}
	key += d.cur.Kind
	if d.lay.GroupSymlinks {
		key = "groups-dir-symlink-followed:content-served"
	}
	d.violation(key, fmt.Sprintf("%s %s: %q", what, how, ex))
	return true
}

func (d *driver) wsJoin(groupName, username, password, tok string) (string, vclient.Msg) {
	d.wsN++
	c, err := vclient.Dial(d.srv, fmt.Sprintf("c19-%d-%d", d.batch, d.wsN))
	if err != nil {
		d.run.Inconclusive("websocket dial failed: " + err.Error())
		return "", nil
	}
	defer c.Close()
	var m vclient.Msg
	var ok bool
	if tok != "" {
		m, ok = c.JoinToken(groupName, username, tok)
	} else {
		m, ok = c.Join(groupName, username, password)
	}
	res := "noreply"
	if ok {
		res = m.Str("kind")
	}
	if res == "join" {
		// a status request through the same socket shows what the group was built from
		c.Ping(10 * time.Second)
		c.Leave(groupName)
	}
	for _, e := range c.Events() {
		b, _ := json.Marshal(e.M)
		if d.leak(b, "a websocket message was sent") {
			break
		}
	}
	d.run.Count("ws_join_"+res, 1)
	return res, m
}

// fake publisher for the recorder

type fakeUp struct{ id, user string }

func (u *fakeUp) AddLocal(conn.Down) error { return nil }
func (u *fakeUp) DelLocal(conn.Down) bool  { return true }
func (u *fakeUp) Id() string               { return u.id }
func (u *fakeUp) Label() string            { return "camera" }
func (u *fakeUp) User() (string, string)   { return "id-" + u.id, u.user }

type fakeTrack struct{ local []conn.DownTrack }

func (t *fakeTrack) AddLocal(d conn.DownTrack) error { t.local = append(t.local, d); return nil }
func (t *fakeTrack) DelLocal(conn.DownTrack) bool    { return true }
func (t *fakeTrack) Kind() webrtc.RTPCodecType       { return webrtc.RTPCodecTypeAudio }
func (t *fakeTrack) Label() string                   { return "" }
func (t *fakeTrack) Codec() webrtc.RTPCodecCapability {
	return webrtc.RTPCodecCapability{MimeType: "audio/opus", ClockRate: 48000, Channels: 2}
}
func (t *fakeTrack) GetPacket(uint16, []byte, bool) uint16 { return 0 }
func (t *fakeTrack) RequestKeyframe() error                { return nil }

func listTree(dir string) map[string]bool {
	m := map[string]bool{}
	filepath.Walk(dir, func(p string, fi os.FileInfo, err error) error {
		if err == nil && p != dir {
			m[p] = fi.IsDir()
		}
		return nil
	})
	return m
}

// record drives the real recorder with a publisher whose username is s.
func (d *driver) record(g string, s string) (created []string) { return d.recordN(g, s, 1) }

// recordN: n connections of the same user are recorded at the same instant (the file names
// collide and the recorder falls back on numbered names).
func (d *driver) recordN(g string, s string, n int) (created []string) {
	gg, err := group.Add(g, nil)
	if err != nil {
		d.run.Inconclusive("cannot instantiate the recording group: " + err.Error())
		return nil
	}
	dir := filepath.Join(d.lay.Rec, filepath.FromSlash(g))
	before := listTree(d.lay.Rec)
	dc, err := diskwriter.New(gg)
	if err != nil {
		d.run.Inconclusive("diskwriter.New: " + err.Error())
		return nil
	}
	var trs []*fakeTrack
	for k := 0; k < n; k++ {
		up := &fakeUp{id: fmt.Sprintf("up%d-%d", d.cur.Seq, k), user: s}
		tr := &fakeTrack{}
		if err := dc.PushConn(gg, up.id, up, []conn.UpTrack{tr}, ""); err == nil && len(tr.local) == 1 {
			trs = append(trs, tr)
		}
	}
	for i := 0; i < 3; i++ {
		// the connections write at the same moment (each from its own goroutine, released
		// together): their files are opened within the same millisecond
		var wg sync.WaitGroup
		start := make(chan struct{})
		for _, tr := range trs {
			p := rtp.Packet{Header: rtp.Header{Version: 2, PayloadType: 111, SequenceNumber: uint16(100 + i), Timestamp: uint32(5000 + 960*i), SSRC: 9},
				Payload: []byte{0xf8, 0xff, 0xfe, byte(i)}}
			b, _ := p.Marshal()
			wg.Add(1)
			go func(tr *fakeTrack) {
				defer wg.Done()
				<-start
				tr.local[0].Write(b)
			}(tr)
		}
		close(start)
		wg.Wait()
	}
	dc.Close()
	after := listTree(d.lay.Rec)
	for p, isDir := range after {
		if _, ok := before[p]; ok {
			continue
		}
		created = append(created, p)
		if isDir || filepath.Dir(p) != dir {
			d.violation("recording-outside-group-dir", fmt.Sprintf("recording for user %q in group %s created %s, which is not a file directly inside %s", s, g, p, dir))
		}
		if b, err := os.ReadFile(p); err == nil && len(b) > 0 {
			d.run.Count("recordings_with_data", 1)
		}
	}
	if len(created) > 0 {
		d.run.Count("recordings_created", 1)
	} else {
		d.run.Count("recordings_not_created", 1)
	}
	return created
}

func (d *driver) send(in input) {
	d.cur = in
	enc := encodePath(in.S, in.Enc)
	method := in.Method
	if method == "" {
		method = "GET"
	}
	hdr := map[string]string{}
	for k, v := range d.auth(in.Auth) {
		hdr[k] = v
	}
	status, result := 0, ""
	var resp []byte
	maintain := false
	switch in.Kind {
	case "join-group":
		result, _ = d.wsJoin(in.S, "alice", "pw", "")
		if result == "join" && !refValidName(in.S) {
			d.violation("invalid-name-accepted:join-group:"+refClass(in.S), fmt.Sprintf("a client joined a group named %q, which the property says is rejected everywhere", in.S))
		}
	case "join-username":
		result, _ = d.wsJoin(in.Group, in.S, "pw", "")
		if result == "join" && in.S != "" && !refValidName(in.S) {
			d.violation("invalid-name-accepted:join-username:"+refClass(in.S), fmt.Sprintf("a client joined with username %q, which the property says is rejected", in.S))
		}
	case "join-token":
		result, _ = d.wsJoin(in.Group, "alice", "", in.S)
	case "join-token-username":
		// the username does not come from the join message but from inside a token: a
		// stateful token stored with it, or the 'sub' of a signed JWT
		tok := ""
		if in.Enc == "stateful" {
			d.tokN++
			tok = fmt.Sprintf("tu-%d-%d", d.batch, d.tokN)
			exp := time.Now().Add(time.Hour)
			u := in.S
			if _, err := token.Update(&token.Stateful{Token: tok, Group: in.Group, Username: &u, Permissions: []string{"present"}, Expires: &exp}, ""); err != nil {
				result = "token-not-stored"
				break
			}
		} else {
			tok = signJWT(map[string]any{"sub": in.S, "aud": "https://galene.test/group/" + in.Group + "/", "permissions": []string{"present"},
				"iat": time.Now().Add(-time.Minute).Unix(), "exp": time.Now().Add(time.Hour).Unix()})
		}
		result, _ = d.wsJoin(in.Group, "\x00none", "", tok)
		if result == "join" && in.S != "" && !refValidName(in.S) {
			d.violation("invalid-name-accepted:join-token-username:"+in.Enc+":"+refClass(in.S), fmt.Sprintf("a client joined with a %s token carrying the username %q, which the property says is rejected", in.Enc, in.S))
		}
	case "group-page":
		status, resp = d.raw(method, "/group/"+enc+"/", hdr, nil)
	case "group-status":
		status, resp = d.raw(method, "/group/"+enc+"/.status", hdr, nil)
	case "group-whip":
		hdr["Content-Type"] = "application/sdp"
		status, resp = d.raw(method, "/group/"+enc+"/.whip", hdr, []byte("v=0\r\n"))
	case "api-group":
		var body []byte
		if method == "PUT" {
			hdr["Content-Type"] = "application/json"
			body = []byte(`{"displayName":"made-by-c19"}`)
		}
		status, resp = d.raw(method, "/galene-api/v0/.groups/"+enc, hdr, body)
		maintain = method == "PUT" || method == "DELETE"
	case "api-group-users":
		if method == "PUT" {
			hdr["Content-Type"] = "application/json"
			status, resp = d.raw(method, "/galene-api/v0/.groups/"+enc+"/.users/bob", hdr, []byte(`{"permissions":"present"}`))
			maintain = true
		} else {
			status, resp = d.raw(method, "/galene-api/v0/.groups/"+enc+"/.users/", hdr, nil)
		}
	case "api-user":
		var body []byte
		if method == "PUT" {
			hdr["Content-Type"] = "application/json"
			body = []byte(`{"permissions":"present"}`)
		}
		status, resp = d.raw(method, "/galene-api/v0/.groups/"+in.Group+"/.users/"+enc, hdr, body)
		maintain = method == "PUT" || method == "DELETE"
	case "api-token-group":
		var body []byte
		if method == "POST" {
			hdr["Content-Type"] = "application/json"
			body = []byte(`{"permissions":["present"],"expires":"2099-01-01T00:00:00Z"}`)
		}
		status, resp = d.raw(method, "/galene-api/v0/.groups/"+enc+"/.tokens/", hdr, body)
	case "api-token":
		status, resp = d.raw(method, "/galene-api/v0/.groups/"+in.Group+"/.tokens/"+enc, hdr, nil)
	case "recordings-path":
		status, resp = d.raw(method, "/recordings/"+enc, hdr, nil)
	case "static-path":
		status, resp = d.raw(method, "/"+enc, hdr, nil)
	case "delete-form":
		hdr["Content-Type"] = "application/x-www-form-urlencoded"
		f := in.S
		if in.Enc != "form-raw" {
			f = url.QueryEscape(in.S)
		}
		status, resp = d.raw("POST", "/recordings/"+in.Group+"/", hdr, []byte("q=delete&filename="+f))
		maintain = true
	case "record-username":
		n := 1
		if in.Seq%2 == 0 {
			n = 4 // four connections of that user at the same instant: numbered fallback names
		}
		created := d.recordN(in.Group, in.S, n)
		if n > 1 {
			d.run.Count("recordings_of_one_user_at_the_same_instant", 1)
			for _, p := range created {
				if b := filepath.Base(p); strings.HasSuffix(b, "-01.webm") {
					d.run.Count("recordings_with_numbered_fallback_names", 1)
				}
			}
		}
		if len(created) > 0 && len(created) < n && (in.S == "" || refValidName(in.S)) && !strings.Contains(in.S, "\x00") {
			d.violation("recording-outside-group-dir:not-created:numbered-name", fmt.Sprintf("%d connections of the acceptable username %q were recorded at the same instant in group %s, but only %d files appeared in %s (the numbered fallback name was not derived from the sanitised username)",
				n, in.S, in.Group, len(created), filepath.Join(d.lay.Rec, in.Group)))
		}
		if len(created) == 0 && in.Phase == "hostile" && (in.S == "" || refValidName(in.S)) && !strings.Contains(in.S, "\x00") {
			// a username the property admits (NUL apart, which no file name can hold): its
			// recording has to land in the group's directory, so it has to exist
			d.violation("recording-outside-group-dir:not-created", fmt.Sprintf("recording for the acceptable username %q in group %s did not produce a file in %s (the file name was not derived from a sanitised username)",
				in.S, in.Group, filepath.Join(d.lay.Rec, in.Group)))
		}
		if len(created) > 0 {
			result = "created"
			// keep the directory small: the recorder's own output is not a fixture
			for _, p := range created {
				os.Remove(p)
			}
		}
	case "lib-group":
		// the group layer's exported entry points, called the way the web server calls them
		switch method {
		case "get":
			if desc, err := group.GetDescription(in.S); err == nil {
				result = "found"
				b, _ := json.Marshal(desc)
				d.leak(b, fmt.Sprintf("group.GetDescription(%q) returned a description", in.S))
			}
		case "tag":
			if _, err := group.GetDescriptionTag(in.S); err == nil {
				result = "found"
			}
		case "users":
			if _, _, err := group.GetUsers(in.S); err == nil {
				result = "found"
			}
		case "update":
			if err := group.UpdateDescription(in.S, "", &group.Description{DisplayName: "made-by-c19-lib"}); err == nil {
				result = "found"
			}
			maintain = true
		case "delete":
			if tag, err := group.GetDescriptionTag(in.S); err == nil {
				if group.DeleteDescription(in.S, tag) == nil {
					result = "found"
				}
			}
			maintain = true
		}
	default:
		d.run.Inconclusive("unknown input kind " + in.Kind)
	}
	d.run.Count("requests:"+in.Kind, 1)
	if in.Phase == "hostile" {
		d.run.Eval(1)
		if in.Seq%97 == 0 {
			d.run.Sample(map[string]any{"input": in, "http_status": status, "result": result})
		}
		d.run.Distinct(in.Kind + "|" + stringClass(in.S))
		if strings.Contains(in.S, "\\") && status != 0 {
			d.run.Count(fmt.Sprintf("backslash_name_status:%s:%d", in.Kind, status), 1)
		}
		seen := in.S // the name as the server decodes it
		if in.Enc == "raw" {
			seen = pctDecode(in.S)
		}
		if in.Kind == "api-group" && method == "PUT" && status == 201 && !refValidName(seen) {
			d.run.Count("observed:api_put_created_group_with_name_the_group_layer_rejects:"+refClass(seen), 1)
		}
		if in.Kind == "api-user" && method == "PUT" && status == 201 && seen != "" && !refValidName(seen) {
			d.run.Count("observed:api_put_created_user_with_name_the_group_layer_rejects:"+refClass(seen), 1)
		}
	} else {
		d.run.Count("benign_requests", 1)
		d.control(in, status, resp, result)
	}
	if maintain && in.Phase == "hostile" {
		mark(0)
		if err := d.lay.ensureFixtures(); err != nil {
			d.run.Inconclusive("cannot restore fixtures: " + err.Error())
		}
	}
}

// control evaluates a positive control of the benign phase.
func (d *driver) control(in input, status int, resp []byte, result string) {
	if in.Expect == "" {
		return
	}
	want := in.Expect
	sub := ""
	if i := strings.IndexByte(want, ':'); i >= 0 {
		want, sub = want[:i], want[i+1:]
	}
	got := result
	if status != 0 {
		got = strconv.Itoa(status)
	}
	ok := got == want && (sub == "" || bytes.Contains(resp, []byte(sub)))
	if in.Kind == "delete-form" && ok {
		if _, err := os.Lstat(filepath.Join(d.lay.Rec, in.Group, in.S)); err == nil {
			ok = false
		}
	}
	if ok {
		d.run.Count("benign_ok:"+in.Kind, 1)
		return
	}
	d.failed++
	if d.failed <= 2 {
		d.run.Inconclusive(fmt.Sprintf("positive control failed: %s: expected %s, got %s (%.200q)", in.String(), in.Expect, got, resp))
	}
}

func serverChild() {
	run := vk.Start("C19")
	var a serverArgs
	vk.ChildArgs(&a)
	var lay layout
	var inputs []input
	if b, err := os.ReadFile(a.Layout); err != nil || json.Unmarshal(b, &lay) != nil {
		run.Inconclusive("traced process cannot read its layout")
		os.Exit(0)
	}
	if b, err := os.ReadFile(a.Inputs); err != nil || json.Unmarshal(b, &inputs) != nil {
		run.Inconclusive("traced process cannot read its inputs")
		os.Exit(0)
	}
	mark(0)
	srv, err := vsrv.Start(vsrv.Config{Root: lay.Root, StaticDir: lay.Static, WritableGroups: true})
	if err != nil {
		run.Inconclusive("server start: " + err.Error())
		os.Exit(0)
	}
	d := &driver{run: run, srv: srv, lay: &lay, batch: a.Batch}
	benign := true
	for _, in := range inputs {
		if benign && in.Phase != "benign" {
			// what the benign phase changed on purpose is put back before the hostile phase
			benign = false
			mark(0)
			lay.ensureFixtures()
		}
		if in.Kind == "delete-form" && in.Phase == "benign" && in.Expect == "303" {
			// the file the benign delete removes
			mark(0)
			os.WriteFile(filepath.Join(lay.Rec, in.Group, in.S), []byte("FIXTURE-TO-DELETE"), 0o644)
		}
		run.Note(in.String())
		mark(in.Seq)
		d.send(in)
	}
	mark(0)
	run.Count("server_runs_completed", 1)
	os.Exit(0)
}

// signJWT builds an HS256 token signed with pubGroup's key.
func signJWT(claims map[string]any) string {
	enc := base64.RawURLEncoding
	h := enc.EncodeToString([]byte(`{"alg":"HS256","typ":"JWT"}`))
	b, _ := json.Marshal(claims)
	body := h + "." + enc.EncodeToString(b)
	mac := hmac.New(sha256.New, []byte(jwtSecret))
	mac.Write([]byte(body))
	return body + "." + enc.EncodeToString(mac.Sum(nil))
}
