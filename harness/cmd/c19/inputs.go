package main

// Input lists: the benign phase (warm-up + positive controls), the curated hostile
// strings per input kind, and the random part.

import (
	"math/rand/v2"
)

// names that aim at the group description layer (".json" is appended by the server)
var curatedNames = []string{
	"a\\b", "", ".", "..", "/", "//", "\\", "a", "a/b", "a//b", "a/./b", "a/../b", "./a", "../a", "a/", "/a", "a/..", "a/.",
	"a\\b", "a\\..\\b", "..\\a", "..\\secret\\passwd", "a/b\\..\\..\\..\\secret\\passwd",
	"../secret/passwd", "../secret/x", "../x", "../passwd", "../secret", "../groups", "../recordings", "../static",
	"../../x", "../../passwd", "../../secret/passwd", "../groups-evil/x", "../groups/../secret/passwd",
	"a/../../secret/passwd", "a/b/../../../secret/passwd", "/../secret/passwd", "//../secret/passwd", "./../secret/passwd",
	"..//secret//passwd", "..//..//x", ".//..//x", "../secret/sub/deep",
	"..%2fsecret%2fpasswd", "%2e%2e/secret/passwd", "%2e%2e%2fsecret%2fpasswd", "%2E%2E%2Fsecret%2Fpasswd",
	"..%5csecret%5cpasswd", "%252e%252e/secret/passwd", "..%00/secret/passwd", "a%00/../secret/passwd", "%2e", "%2e%2e", "%2f", "%5c",
	"..\x00/secret/passwd", "a\x00b", "a\x00/../../secret/passwd", "é", "é/../../secret/passwd", "‥", "‥/secret/passwd", "‥/‥/x",
	" ..", ".. ", ". .", " ", "...", "..../secret/passwd", ".../x", "..a", "a..", "a/..b/c",
	"link", "link/passwd", "link/x", "link/passwd.json", "linkfile", "link/../x", "link/sub/deep", "gsub/link/passwd",
	"gauto/../../secret/passwd", "gauto/link", "gauto/..", "gauto//x", "gauto/./x", "gauto/x/../../../secret/passwd", "gauto/x", "gauto/é/‥",
	"gauto/..%2f..%2fsecret%2fpasswd", "gauto/a\\..\\..\\x", "gsub/deep/../../../secret/passwd", "gsub/../../x",
	"/etc/passwd", "//etc/passwd", "../../../../../../../../../../etc/passwd", "/proc/self/environ",
}

var curatedStatic = []string{
	"", ".", "..", "/", "//", "index.html", "css/a.css", "sub/", "sub", "a b/é.txt", "nonexistent.html",
	"../secret/index.html", "../index.html", "../../index.html", "../secret/", "../secret", "../static-evil/index.html", "../staticx",
	"link/index.html", "link/", "link", "linkfile.html", "sub/link/index.html", "sub/link/", "link/passwd.json",
	"sub/../../secret/index.html", "css/../../secret/index.html", "css/a.css/../../../secret/index.html", "index.html/../../secret/index.html",
	"..%2fsecret%2findex.html", "%2e%2e/secret/index.html", "%2e%2e%2fsecret%2findex.html", "..%5csecret%5cindex.html", "..\\secret\\index.html",
	"/etc/passwd", "//etc/passwd", "../../../../../../../../../../etc/passwd", "./../secret/index.html", "..//secret//index.html",
	"../secret/index.html\x00.css", "‥/secret/index.html", ".../secret/index.html", "../groups/gpub.json", "../data/config.json",
	"../recordings/grec/keep.webm",
}

var curatedRecordings = []string{
	"", ".", "..", "/", "grec", "grec/", "grec/keep.webm", "grec/sub/in.webm", "grec/nonexistent.webm", "gauto/", "nonexistent/",
	"../secret/rec.webm", "../rec.webm", "../../secret/rec.webm", "../secret/", "../secret",
	"grec/../../secret/rec.webm", "grec/link/rec.webm", "grec/link/", "grec/link", "grec/linkfile.webm", "link/rec.webm", "link/", "link",
	"gauto/link/rec.webm", "gauto/linkfile.webm", "gauto/link/", "../recordings-evil/g/f.webm", "../recordings-evil/grec.webm",
	"grec/../../recordings-evil/g/f.webm", "grec/keep.webm/../../../secret/rec.webm", "grec/sub/../../../secret/rec.webm",
	"/etc/passwd", "//etc/passwd", "grec/..", "grec/../..", "grec/../../", "grec//keep.webm", "grec/./keep.webm", "./grec/keep.webm",
	"..%2fsecret%2frec.webm", "%2e%2e/secret/rec.webm", "grec%2f..%2f..%2fsecret%2frec.webm", "grec\\..\\..\\secret\\rec.webm",
	"grec/..%5c..%5csecret%5crec.webm", "‥/secret/rec.webm", "grec/link/keep.webm", "../groups/grec.json", "../data/config.json",
	"grec/link/passwd.json", "grec/\x00/../../secret/rec.webm",
}

var curatedFilenames = []string{
	"", ".", "..", "/", "keep.webm", "nonexistent.webm", "sub", "sub/in.webm", "link", "linkfile.webm", "link/rec.webm", "link/keep.webm",
	"../../secret/rec.webm", "../../secret/keep.webm", "../secret/rec.webm", "../../rec.webm", "../../recordings-evil/grec.webm",
	"../../recordings-evil/g/f.webm", "keep.webm/../../../secret/rec.webm", "..\\..\\secret\\rec.webm", "..\\secret",
	"%2e%2e%2f%2e%2e%2fsecret%2frec.webm", "..%2f..%2fsecret%2frec.webm", "/etc/passwd", "../gauto/keep.webm", "../link/rec.webm",
	"../../groups/gpub.json", "../../data/config.json", "a\x00/../../secret/rec.webm", "‥/‥/secret/rec.webm", "...", " ..", ".. ",
	"../../secret", "../..", "link/", "./link/rec.webm", "./sub/in.webm", "x/../sub/in.webm", "sub/./in.webm", "a/b.webm",
}

var curatedUsernames = []string{
	"", "alice", "Alice c/o Bob", "jch@work", "é/‥", ".", "..", "/", "/abs", "a/", "a//b", "a/./b", "a/../b", "a\\b", "\\",
	"../../secret/x", "../x", "../../x", "a/../../../secret/x", "link/x", "link", "linkfile.webm", "../keep", "x/../../gauto/y",
	"..\\..\\secret\\x", "a\x00b", "a\x00/../../x", "%2e%2e%2fx", "..%2f..%2fx", "‥/‥/x", "...", " ..", ".. ", "sub/x", "sub/../../x",
	"/etc/passwd", "../../../../../../../../tmp/x",
}

var curatedTokens = []string{"", "a", "..", "../x", "a/b", "a.b.c", "../../secret/passwd", "link/passwd", "a\x00b", "%2e%2e", "\\", "é‥"}

type kindSpec struct {
	name    string
	curated []string
	encs    []string
	methods []string
	auths   []string
	groups  []string
	weight  int // relative share of the random inputs
}

var formEncs = []string{"form-esc", "form-raw"}

var kindSpecs = []kindSpec{
	{"join-group", curatedNames, []string{"json"}, []string{""}, []string{""}, []string{""}, 6},
	{"group-page", curatedNames, pathEncodings, []string{"GET", "GET", "HEAD", "CONNECT"}, []string{"none"}, []string{""}, 8},
	{"group-status", curatedNames, pathEncodings, []string{"GET", "GET", "CONNECT"}, []string{"none"}, []string{""}, 8},
	{"group-whip", curatedNames, pathEncodings, []string{"POST", "POST", "OPTIONS", "CONNECT"}, []string{"none"}, []string{""}, 5},
	{"api-group", curatedNames, pathEncodings, []string{"GET", "PUT", "DELETE", "CONNECT", "GET"}, []string{"admin", "op", "admin", "none"}, []string{""}, 10},
	{"api-group-users", curatedNames, pathEncodings, []string{"GET", "PUT", "CONNECT"}, []string{"admin", "op"}, []string{""}, 5},
	{"api-token-group", curatedNames, pathEncodings, []string{"GET", "POST", "CONNECT"}, []string{"admin", "op"}, []string{""}, 5},
	{"api-user", curatedUsernames, pathEncodings, []string{"GET", "PUT", "DELETE", "GET"}, []string{"admin", "admin", "op"}, []string{apiGroup}, 5},
	{"api-token", curatedTokens, pathEncodings, []string{"GET", "DELETE"}, []string{"admin"}, []string{apiGroup}, 2},
	{"recordings-path", curatedRecordings, pathEncodings, []string{"GET", "GET", "CONNECT", "HEAD", "POST"}, []string{"op", "op", "op", "none"}, []string{""}, 10},
	{"static-path", curatedStatic, pathEncodings, []string{"GET", "GET", "CONNECT", "HEAD"}, []string{"none"}, []string{""}, 10},
	{"delete-form", curatedFilenames, formEncs, []string{"POST"}, []string{"op"}, []string{recGroup, autoGroup, recGroup + "/sub"}, 8},
	{"join-username", curatedUsernames, []string{"json"}, []string{""}, []string{""}, []string{pubGroup}, 1},
	{"join-token", curatedTokens, []string{"json"}, []string{""}, []string{""}, []string{pubGroup}, 1},
	{"join-token-username", curatedUsernames, []string{"stateful", "jwt"}, []string{""}, []string{""}, []string{pubGroup}, 2},
	{"record-username", curatedUsernames, []string{"direct"}, []string{""}, []string{""}, []string{recGroup, autoGroup}, 6},
	{"lib-group", curatedNames, []string{"direct"}, []string{"get", "tag", "users", "update", "delete"}, []string{""}, []string{""}, 10},
}

// kinds whose curated list is crossed with every method as well (the method decides
// which file operation the name reaches)
var crossMethods = map[string]bool{"api-group": true, "lib-group": true, "api-user": true}

// kinds exercised by the dedicated batch in which the groups directory itself contains
// symlinks that point outside
var groupKinds = map[string]bool{"join-group": true, "group-page": true, "group-status": true, "group-whip": true, "api-group": true,
	"api-group-users": true, "api-token-group": true, "lib-group": true}

var symlinkNames = []string{"link/passwd", "link/x", "linkfile", "link/sub/deep", "gsub/link/passwd", "link", "link/nonexistent",
	"gauto/../link/passwd", "link//passwd", "link/./passwd", "link/passwd/sub"}

func benignInputs() []input {
	return []input{
		{Kind: "static-path", S: "", Enc: "raw", Method: "GET", Auth: "none", Expect: "200:STATIC-INDEX"},
		{Kind: "static-path", S: "index.html", Enc: "raw", Method: "GET", Auth: "none", Expect: "200:STATIC-INDEX"},
		{Kind: "static-path", S: "css/a.css", Enc: "raw", Method: "GET", Auth: "none", Expect: "200:STATIC-CSS"},
		{Kind: "static-path", S: "sub/", Enc: "raw", Method: "GET", Auth: "none", Expect: "200:STATIC-SUB-INDEX"},
		{Kind: "static-path", S: "a b/é.txt", Enc: "pct-min", Method: "GET", Auth: "none", Expect: "200:STATIC-ODD-NAME"},
		{Kind: "static-path", S: "nonexistent.html", Enc: "raw", Method: "GET", Auth: "none", Expect: "404:STATIC-404"},
		{Kind: "static-path", S: "sub", Enc: "raw", Method: "GET", Auth: "none", Expect: "308"},
		{Kind: "static-path", S: "index.html", Enc: "raw", Method: "CONNECT", Auth: "none"},
		{Kind: "static-path", S: "index.html", Enc: "raw", Method: "HEAD", Auth: "none", Expect: "200"},
		{Kind: "group-page", S: pubGroup, Enc: "raw", Method: "GET", Auth: "none", Expect: "200:STATIC-GALENE"},
		{Kind: "group-page", S: subGroup, Enc: "raw", Method: "GET", Auth: "none", Expect: "200:STATIC-GALENE"},
		{Kind: "group-page", S: autoGroup + "/anything/below", Enc: "raw", Method: "GET", Auth: "none", Expect: "200:STATIC-GALENE"},
		{Kind: "group-page", S: "nonexistent", Enc: "raw", Method: "GET", Auth: "none", Expect: "404"},
		{Kind: "group-page", S: pubGroup, Enc: "pct-all", Method: "CONNECT", Auth: "none"},
		{Kind: "group-status", S: pubGroup, Enc: "raw", Method: "GET", Auth: "none", Expect: "200:FIXTURE-pub"},
		{Kind: "group-status", S: "nonexistent", Enc: "raw", Method: "GET", Auth: "none", Expect: "404"},
		{Kind: "group-whip", S: pubGroup, Enc: "raw", Method: "POST", Auth: "none"},
		{Kind: "group-whip", S: pubGroup, Enc: "raw", Method: "OPTIONS", Auth: "none", Expect: "200"},
		{Kind: "join-group", S: pubGroup, Enc: "json", Expect: "join"},
		{Kind: "join-group", S: subGroup, Enc: "json", Expect: "join"},
		{Kind: "join-group", S: autoGroup + "/x/y", Enc: "json", Expect: "join"},
		{Kind: "join-group", S: "nonexistent", Enc: "json", Expect: "fail"},
		{Kind: "join-username", S: "alice", Enc: "json", Group: pubGroup, Expect: "join"},
		{Kind: "join-username", S: "Alice c/o Bob", Enc: "json", Group: pubGroup, Expect: "join"},
		{Kind: "join-username", S: "", Enc: "json", Group: pubGroup, Expect: "join"},
		{Kind: "join-username", S: "a/../b", Enc: "json", Group: pubGroup, Expect: "fail"},
		{Kind: "join-token", S: "no-such-token", Enc: "json", Group: pubGroup, Expect: "fail"},
		{Kind: "join-token-username", S: "alice", Enc: "stateful", Group: pubGroup, Expect: "join"},
		{Kind: "join-token-username", S: "Alice c/o Bob", Enc: "jwt", Group: pubGroup, Expect: "join"},
		{Kind: "join-token-username", S: "a/../b", Enc: "jwt", Group: pubGroup, Expect: "fail"},
		{Kind: "api-group", S: pubGroup, Enc: "raw", Method: "GET", Auth: "admin", Expect: "200:FIXTURE-pub"},
		{Kind: "api-group", S: pubGroup, Enc: "raw", Method: "GET", Auth: "none", Expect: "401"},
		{Kind: "api-group", S: pubGroup, Enc: "raw", Method: "GET", Auth: "op", Expect: "401"},
		{Kind: "api-group", S: "made/by/api", Enc: "raw", Method: "PUT", Auth: "admin", Expect: "201"},
		{Kind: "api-group", S: "made/by/api", Enc: "raw", Method: "GET", Auth: "admin", Expect: "200:made-by-c19"},
		{Kind: "api-group", S: "made/by/api", Enc: "raw", Method: "DELETE", Auth: "admin", Expect: "204"},
		{Kind: "api-group", S: "nonexistent", Enc: "raw", Method: "GET", Auth: "admin", Expect: "404"},
		{Kind: "api-group", S: pubGroup, Enc: "raw", Method: "CONNECT", Auth: "op"},
		{Kind: "api-group-users", S: apiGroup, Enc: "raw", Method: "GET", Auth: "admin", Expect: "200:op1"},
		{Kind: "api-group-users", S: apiGroup, Enc: "raw", Method: "PUT", Auth: "admin"},
		{Kind: "api-user", S: "carol", Enc: "raw", Method: "PUT", Auth: "admin", Group: apiGroup, Expect: "201"},
		{Kind: "api-user", S: "carol", Enc: "raw", Method: "GET", Auth: "admin", Group: apiGroup, Expect: "200"},
		{Kind: "api-user", S: "carol", Enc: "raw", Method: "DELETE", Auth: "admin", Group: apiGroup, Expect: "204"},
		{Kind: "api-token-group", S: apiGroup, Enc: "raw", Method: "POST", Auth: "admin", Expect: "201"},
		{Kind: "api-token-group", S: apiGroup, Enc: "raw", Method: "GET", Auth: "admin", Expect: "200"},
		{Kind: "api-token", S: "no-such-token", Enc: "raw", Method: "GET", Auth: "admin", Group: apiGroup, Expect: "404"},
		{Kind: "recordings-path", S: recGroup + "/keep.webm", Enc: "raw", Method: "GET", Auth: "op", Expect: "200:FIXTURE-REC-KEEP"},
		{Kind: "recordings-path", S: recGroup + "/sub/in.webm", Enc: "raw", Method: "GET", Auth: "op", Expect: "200:FIXTURE-REC-SUB"},
		{Kind: "recordings-path", S: recGroup + "/", Enc: "raw", Method: "GET", Auth: "op", Expect: "200:keep.webm"},
		{Kind: "recordings-path", S: recGroup + "/keep.webm", Enc: "raw", Method: "GET", Auth: "none", Expect: "401"},
		{Kind: "recordings-path", S: recGroup + "/keep.webm", Enc: "raw", Method: "GET", Auth: "wrong", Expect: "401"},
		{Kind: "recordings-path", S: recGroup + "/nonexistent.webm", Enc: "raw", Method: "GET", Auth: "op", Expect: "404"},
		{Kind: "recordings-path", S: recGroup + "/keep.webm", Enc: "pct-all", Method: "CONNECT", Auth: "op"},
		{Kind: "delete-form", S: "to-delete.webm", Enc: "form-esc", Method: "POST", Auth: "op", Group: recGroup, Expect: "303"},
		{Kind: "delete-form", S: "to delete é.webm", Enc: "form-esc", Method: "POST", Auth: "op", Group: autoGroup, Expect: "303"},
		{Kind: "delete-form", S: "nonexistent.webm", Enc: "form-esc", Method: "POST", Auth: "op", Group: recGroup, Expect: "404"},
		{Kind: "record-username", S: "alice", Enc: "direct", Group: recGroup, Expect: "created"},
		{Kind: "record-username", S: "Alice c/o Bob", Enc: "direct", Group: autoGroup, Expect: "created"},
		{Kind: "record-username", S: "", Enc: "direct", Group: recGroup, Expect: "created"},
		{Kind: "lib-group", S: pubGroup, Enc: "direct", Method: "get", Expect: "found"},
		{Kind: "lib-group", S: pubGroup, Enc: "direct", Method: "tag", Expect: "found"},
		{Kind: "lib-group", S: apiGroup, Enc: "direct", Method: "users", Expect: "found"},
		{Kind: "lib-group", S: "made/by/lib", Enc: "direct", Method: "update", Expect: "found"},
		{Kind: "lib-group", S: "made/by/lib", Enc: "direct", Method: "delete", Expect: "found"},
		{Kind: "lib-group", S: "nonexistent", Enc: "direct", Method: "get"},
	}
}

// curatedInputs enumerates (kind, string, encoding, method, credentials) in a fixed
// order; batch b of n takes every n-th one.
func curatedInputs(groupSymlinks bool) []input {
	var out []input
	i := 0
	for _, k := range kindSpecs {
		list := k.curated
		if groupSymlinks {
			if !groupKinds[k.name] {
				continue
			}
			list = symlinkNames
		}
		for _, s := range list {
			for _, e := range k.encs {
				ms := []string{k.methods[i%len(k.methods)]}
				if crossMethods[k.name] || groupSymlinks {
					ms = k.methods
				} else if e == "raw" && ms[0] != "CONNECT" {
					for _, m := range k.methods {
						if m == "CONNECT" { // the one method whose path the mux does not canonicalise
							ms = append(ms, m)
							break
						}
					}
				}
				seen := map[string]bool{}
				for _, m := range ms {
					if seen[m] {
						continue
					}
					seen[m] = true
					out = append(out, input{Phase: "hostile", Kind: k.name, S: s, Enc: e, Method: m,
						Auth: k.auths[i%len(k.auths)], Group: k.groups[i%len(k.groups)]})
					i++
				}
			}
		}
	}
	return out
}

func randomInputs(r *rand.Rand, n int, groupSymlinks bool) []input {
	total := 0
	var specs []kindSpec
	for _, k := range kindSpecs {
		if groupSymlinks && !groupKinds[k.name] {
			continue
		}
		specs = append(specs, k)
		total += k.weight
	}
	prefixes := map[string][]string{
		"recordings-path": {recGroup + "/", autoGroup + "/", recGroup + "/link/", "../", recGroup + "/../"},
		"static-path":     {"link/", "sub/", "css/", "../", "sub/link/"},
		"delete-form":     {"../", "link/", "../../secret/", ""},
	}
	var out []input
	for len(out) < n {
		x := r.IntN(total)
		var k kindSpec
		for _, c := range specs {
			if x < c.weight {
				k = c
				break
			}
			x -= c.weight
		}
		s := genString(r)
		switch {
		case groupSymlinks && r.IntN(2) == 0:
			s = clip([]string{"link/", "gsub/link/", "link/../", "linkfile/"}[r.IntN(4)] + s)
		case r.IntN(4) == 0:
			ps := prefixes[k.name]
			if ps == nil {
				ps = []string{autoGroup + "/", "../", "../secret/", "link/", subGroup + "/"}
			}
			s = clip(ps[r.IntN(len(ps))] + s)
		}
		out = append(out, input{Phase: "hostile", Kind: k.name, S: s, Enc: k.encs[r.IntN(len(k.encs))], Method: k.methods[r.IntN(len(k.methods))],
			Auth: k.auths[r.IntN(len(k.auths))], Group: k.groups[r.IntN(len(k.groups))]})
	}
	return out
}

// buildInputs assembles the input list of one batch.
func buildInputs(r *rand.Rand, batch, batches, nRandom int, groupSymlinks bool) []input {
	var out []input
	for _, in := range benignInputs() {
		in.Phase = "benign"
		out = append(out, in)
	}
	if batches > 0 {
		for i, in := range curatedInputs(groupSymlinks) {
			if i%batches == batch%batches {
				out = append(out, in)
			}
		}
		out = append(out, randomInputs(r, nRandom, groupSymlinks)...)
	}
	for i := range out {
		out[i].Seq = i + 1
	}
	return out
}
