package main

// String generator, the reference predicate of the property text, string classes.

import (
	"math/rand/v2"
	"sort"
	"strings"
	"unicode/utf8"
)

var alphabet = []string{"a", "b", ".", "/", "\\", "%", "\x00", "é", "‥", " "}

var biasTokens = []string{
	"..", "./", "//", "/", "%2e%2e", "%2f", "%5c", "..%2f", "link", "link/passwd", "../secret/passwd",
	"../", "/..", "/.", "%2e", "%2F", "%5C", "%2E%2E", "..\\", "..%5c", "%00", "%252e", "linkfile",
	"secret", "passwd", "x", "gauto/", "grec/", "ab", "a/b", "...", ".a", "a.", "index.html", "rec.webm",
}

const maxLen = 24

func clip(s string) string {
	if len(s) <= maxLen {
		return s
	}
	s = s[:maxLen]
	for len(s) > 0 && !utf8.ValidString(s) {
		s = s[:len(s)-1]
	}
	return s
}

// genString draws one string of at most 24 bytes.
func genString(r *rand.Rand) string {
	var b strings.Builder
	switch m := r.IntN(10); {
	case m < 2: // uniform over the alphabet
		n := r.IntN(13)
		for i := 0; i < n; i++ {
			b.WriteString(alphabet[r.IntN(len(alphabet))])
		}
	case m < 6: // tokens and characters mixed
		n := 1 + r.IntN(6)
		for i := 0; i < n; i++ {
			if r.IntN(2) == 0 {
				b.WriteString(biasTokens[r.IntN(len(biasTokens))])
			} else {
				b.WriteString(alphabet[r.IntN(len(alphabet))])
			}
		}
	case m < 9: // a well-formed name, possibly with one defect injected
		comps := 1 + r.IntN(4)
		for i := 0; i < comps; i++ {
			if i > 0 {
				b.WriteByte('/')
			}
			n := 1 + r.IntN(4)
			for j := 0; j < n; j++ {
				// mostly letters; sometimes '.', ' ', '%' or NUL inside a component
				pool := []string{"a", "b", "é", "‥", "a", "b", ".", " ", "%", "\x00"}
				b.WriteString(pool[r.IntN([]int{6, 6, 6, 8, 9, 10}[r.IntN(6)])])
			}
		}
		s := b.String()
		if r.IntN(3) == 0 {
			defect := []string{"/", "//", "/./", "/../", "\\", "..", ".", "/..", "../", "./"}[r.IntN(10)]
			at := r.IntN(len(s) + 1)
			for at < len(s) && !utf8.RuneStart(s[at]) {
				at++
			}
			s = s[:at] + defect + s[at:]
		}
		return clip(s)
	default: // very short
		n := r.IntN(4)
		for i := 0; i < n; i++ {
			b.WriteString([]string{".", "/", "\\", "a", "%", "\x00"}[r.IntN(6)])
		}
	}
	return clip(b.String())
}

// refValidName is the reference predicate written from the property text: a name is
// acceptable iff it is non-empty, contains no backslash, is not absolute, and none of
// its '/'-separated components is empty, "." or "..".
func refValidName(s string) bool {
	if s == "" {
		return false
	}
	for i := 0; i < len(s); i++ {
		if s[i] == '\\' {
			return false
		}
	}
	if s[0] == '/' {
		return false
	}
	start := 0
	for i := 0; i <= len(s); i++ {
		if i == len(s) || s[i] == '/' {
			c := s[start:i]
			if c == "" || c == "." || c == ".." {
				return false
			}
			start = i + 1
		}
	}
	return true
}

// refClass names why the reference predicate rejects s (stable, first match wins), or
// which remarkable feature an accepted name has.
func refClass(s string) string {
	switch {
	case s == "":
		return "empty"
	case strings.Contains(s, "\\"):
		return "backslash"
	case s[0] == '/':
		return "absolute"
	}
	comps := strings.Split(s, "/")
	for _, c := range comps {
		if c == ".." {
			return "dotdot-component"
		}
	}
	for _, c := range comps {
		if c == "." {
			return "dot-component"
		}
	}
	if comps[len(comps)-1] == "" {
		return "trailing-slash"
	}
	for _, c := range comps {
		if c == "" {
			return "empty-component"
		}
	}
	switch {
	case strings.Contains(s, "\x00"):
		return "accepted-with-nul"
	case strings.Contains(s, "%"):
		return "accepted-with-percent"
	case strings.Contains(s, ".."):
		return "accepted-with-dots-inside-component"
	case !isASCII(s):
		return "accepted-multibyte"
	case strings.Contains(s, "/"):
		return "accepted-nested"
	}
	return "accepted-plain"
}

func isASCII(s string) bool {
	for i := 0; i < len(s); i++ {
		if s[i] >= 0x80 {
			return false
		}
	}
	return true
}

// pctDecode decodes every well-formed %XX once (what the server's URL parser does).
func pctDecode(s string) string {
	if !strings.Contains(s, "%") {
		return s
	}
	var b strings.Builder
	for i := 0; i < len(s); i++ {
		if s[i] == '%' && i+2 < len(s) && isHex(s[i+1]) && isHex(s[i+2]) {
			v := unhex(s[i+1])<<4 | unhex(s[i+2])
			b.WriteByte(v)
			i += 2
			continue
		}
		b.WriteByte(s[i])
	}
	return b.String()
}

func unhex(c byte) byte {
	switch {
	case c >= '0' && c <= '9':
		return c - '0'
	case c >= 'a' && c <= 'f':
		return c - 'a' + 10
	}
	return c - 'A' + 10
}

// stringClass is the abstract shape of an end-to-end input (for distinct_nontrivial).
func stringClass(s string) string {
	var fs []string
	d := pctDecode(s)
	hasComp := func(t string, names ...string) bool {
		for _, c := range strings.FieldsFunc(t, func(r rune) bool { return r == '/' || r == '\\' }) {
			for _, n := range names {
				if c == n {
					return true
				}
			}
		}
		return false
	}
	if hasComp(s, "..") || hasComp(d, "..") {
		fs = append(fs, "has-dotdot")
	}
	if strings.Contains(s, "\\") || strings.Contains(d, "\\") {
		fs = append(fs, "has-backslash")
	}
	if d != s {
		fs = append(fs, "has-percent-encoding")
	}
	if strings.Contains(s, "\x00") || strings.Contains(d, "\x00") {
		fs = append(fs, "has-nul")
	}
	if hasComp(d, "link", "linkfile", "linkfile.html", "linkfile.webm", "linkfile.json") {
		fs = append(fs, "has-symlink-component")
	}
	if strings.HasPrefix(s, "/") || strings.HasPrefix(d, "/") {
		fs = append(fs, "leading-slash")
	}
	if strings.Contains(s, "//") || strings.Contains(d, "//") {
		fs = append(fs, "double-slash")
	}
	if hasComp(d, ".") {
		fs = append(fs, "has-dot-component")
	}
	if !isASCII(d) {
		fs = append(fs, "multibyte")
	}
	if len(fs) == 0 {
		return "clean"
	}
	sort.Strings(fs)
	return strings.Join(fs, "+")
}

// encodePath renders s for a hand-written request line.
func encodePath(s, enc string) string {
	const hexl = "0123456789abcdef"
	const hexu = "0123456789ABCDEF"
	alnum := func(c byte) bool {
		return c >= 'a' && c <= 'z' || c >= 'A' && c <= 'Z' || c >= '0' && c <= '9'
	}
	var b strings.Builder
	for i := 0; i < len(s); i++ {
		c := s[i]
		keep := false
		hex := hexl
		switch enc {
		case "raw":
			keep = true
		case "pct-min":
			keep = alnum(c) || c == '/' || c == '.' || c == '-' || c == '_'
		case "pct-dots":
			keep = alnum(c) || c == '/' || c == '-' || c == '_'
		case "pct-slashes":
			keep = alnum(c) || c == '.' || c == '-' || c == '_'
			hex = hexu
		default: // pct-all
			keep = alnum(c)
			hex = hexu
		}
		if keep {
			b.WriteByte(c)
		} else {
			b.WriteByte('%')
			b.WriteByte(hex[c>>4])
			b.WriteByte(hex[c&15])
		}
	}
	return b.String()
}

var pathEncodings = []string{"raw", "pct-min", "pct-dots", "pct-slashes", "pct-all"}
