package main

// Parser for `strace -f -y` logs restricted to file-name system calls, and an
// independent path resolver (lexical normalisation + kernel-like symlink walk).

import (
	"bufio"
	"os"
	"path"
	"strconv"
	"strings"
)

// access classes
const (
	clRead   = "read"   // open without any write/create flag
	clWrite  = "write"  // open for write/create/truncate/append, chmod, chown, truncate, utimes, link, symlink
	clStat   = "stat"   // stat family, access, readlink, chdir, statfs, xattr reads
	clDelete = "delete" // unlink, rmdir
	clRename = "rename"
	clMkdir  = "mkdir"
	clExec   = "exec"
	clOther  = "other" // a %file call this table does not know: judged like a write
)

// pathArg describes one path operand of a system call.
type pathArg struct {
	dirfd  int // index of the dirfd argument, -1: relative to the cwd
	path   int // index of the path argument
	follow int // 1: the last component is followed if it is a symlink, 0: never, -1: decided by flags
}

type sysSpec struct {
	class string
	args  []pathArg
	flags int // index of an open-flags / at-flags argument, -1 none
}

var sysTable = map[string]sysSpec{
	"open":       {"", []pathArg{{-1, 0, -1}}, 1},
	"creat":      {clWrite, []pathArg{{-1, 0, 1}}, -1},
	"openat":     {"", []pathArg{{0, 1, -1}}, 2},
	"openat2":    {"", []pathArg{{0, 1, -1}}, 2},
	"stat":       {clStat, []pathArg{{-1, 0, 1}}, -1},
	"lstat":      {clStat, []pathArg{{-1, 0, 0}}, -1},
	"newfstatat": {clStat, []pathArg{{0, 1, -1}}, 3},
	"fstatat64":  {clStat, []pathArg{{0, 1, -1}}, 3},
	"statx":      {clStat, []pathArg{{0, 1, -1}}, 2},
	"access":     {clStat, []pathArg{{-1, 0, 1}}, -1},
	"faccessat":  {clStat, []pathArg{{0, 1, 1}}, -1},
	"faccessat2": {clStat, []pathArg{{0, 1, -1}}, 3},
	"readlink":   {clStat, []pathArg{{-1, 0, 0}}, -1},
	"readlinkat": {clStat, []pathArg{{0, 1, 0}}, -1},
	"chdir":      {clStat, []pathArg{{-1, 0, 1}}, -1},
	"statfs":     {clStat, []pathArg{{-1, 0, 1}}, -1},
	"getxattr":   {clStat, []pathArg{{-1, 0, 1}}, -1},
	"lgetxattr":  {clStat, []pathArg{{-1, 0, 0}}, -1},
	"listxattr":  {clStat, []pathArg{{-1, 0, 1}}, -1},
	"llistxattr": {clStat, []pathArg{{-1, 0, 0}}, -1},
	"unlink":     {clDelete, []pathArg{{-1, 0, 0}}, -1},
	"rmdir":      {clDelete, []pathArg{{-1, 0, 0}}, -1},
	"unlinkat":   {clDelete, []pathArg{{0, 1, 0}}, -1},
	"rename":     {clRename, []pathArg{{-1, 0, 0}, {-1, 1, 0}}, -1},
	"renameat":   {clRename, []pathArg{{0, 1, 0}, {2, 3, 0}}, -1},
	"renameat2":  {clRename, []pathArg{{0, 1, 0}, {2, 3, 0}}, -1},
	"mkdir":      {clMkdir, []pathArg{{-1, 0, 0}}, -1},
	"mkdirat":    {clMkdir, []pathArg{{0, 1, 0}}, -1},
	"mknod":      {clWrite, []pathArg{{-1, 0, 0}}, -1},
	"mknodat":    {clWrite, []pathArg{{0, 1, 0}}, -1},
	"link":       {clWrite, []pathArg{{-1, 0, 0}, {-1, 1, 0}}, -1},
	"linkat":     {clWrite, []pathArg{{0, 1, 0}, {2, 3, 0}}, -1},
	"symlink":    {clWrite, []pathArg{{-1, 1, 0}}, -1},
	"symlinkat":  {clWrite, []pathArg{{1, 2, 0}}, -1},
	"chmod":      {clWrite, []pathArg{{-1, 0, 1}}, -1},
	"fchmodat":   {clWrite, []pathArg{{0, 1, 1}}, -1},
	"fchmodat2":  {clWrite, []pathArg{{0, 1, -1}}, 3},
	"chown":      {clWrite, []pathArg{{-1, 0, 1}}, -1},
	"lchown":     {clWrite, []pathArg{{-1, 0, 0}}, -1},
	"fchownat":   {clWrite, []pathArg{{0, 1, -1}}, 4},
	"truncate":   {clWrite, []pathArg{{-1, 0, 1}}, -1},
	"utime":      {clWrite, []pathArg{{-1, 0, 1}}, -1},
	"utimes":     {clWrite, []pathArg{{-1, 0, 1}}, -1},
	"futimesat":  {clWrite, []pathArg{{0, 1, 1}}, -1},
	"utimensat":  {clWrite, []pathArg{{0, 1, -1}}, 3},
	"setxattr":   {clWrite, []pathArg{{-1, 0, 1}}, -1},
	"lsetxattr":  {clWrite, []pathArg{{-1, 0, 0}}, -1},
	"execve":     {clExec, []pathArg{{-1, 0, 1}}, -1},
	"execveat":   {clExec, []pathArg{{0, 1, 1}}, -1},
}

// target is one resolved path operand.
type target struct {
	Lex  string // absolute, lexically normalised
	Real string // after a kernel-like walk through the symlinks of the live tree
	Raw  string // the decoded path argument as the process passed it
}

type event struct {
	Line    string
	Pid     int
	Name    string
	Class   string
	Targets []target
	RetFd   string // -y annotation of a returned descriptor, "" if none
	Failed  bool
	Errno   string
	Mark    int // sequence number of the last marker seen before this call completed
	Unknown bool
}

// splitArgs cuts the text between the outer parentheses at top-level commas.
func splitArgs(s string) []string {
	var out []string
	depth, inStr, inAngle := 0, false, false
	start := 0
	for i := 0; i < len(s); i++ {
		c := s[i]
		switch {
		case inStr:
			if c == '\\' && i+1 < len(s) {
				i++
			} else if c == '"' {
				inStr = false
			}
		case inAngle:
			if c == '\\' && i+1 < len(s) {
				i++
			} else if c == '>' {
				inAngle = false
			}
		case c == '"':
			inStr = true
		case c == '<':
			// descriptor annotation: follows a digit or AT_FDCWD
			if i > 0 && (s[i-1] >= '0' && s[i-1] <= '9' || strings.HasSuffix(s[:i], "AT_FDCWD")) {
				inAngle = true
			}
		case c == '{' || c == '[' || c == '(':
			depth++
		case c == '}' || c == ']' || c == ')':
			if depth > 0 {
				depth--
			}
		case c == ',' && depth == 0:
			out = append(out, strings.TrimSpace(s[start:i]))
			start = i + 1
		}
	}
	if t := strings.TrimSpace(s[start:]); t != "" || len(out) > 0 {
		out = append(out, t)
	}
	return out
}

// unescapeC decodes strace's C-style string escapes.
func unescapeC(s string) string {
	if !strings.Contains(s, "\\") {
		return s
	}
	var b strings.Builder
	for i := 0; i < len(s); i++ {
		c := s[i]
		if c != '\\' || i+1 >= len(s) {
			b.WriteByte(c)
			continue
		}
		i++
		switch s[i] {
		case 'n':
			b.WriteByte('\n')
		case 't':
			b.WriteByte('\t')
		case 'r':
			b.WriteByte('\r')
		case 'v':
			b.WriteByte('\v')
		case 'f':
			b.WriteByte('\f')
		case 'a':
			b.WriteByte(7)
		case 'b':
			b.WriteByte(8)
		case 'e':
			b.WriteByte(27)
		case 'x':
			j := i + 1
			for j < len(s) && j < i+3 && isHex(s[j]) {
				j++
			}
			v, _ := strconv.ParseUint(s[i+1:j], 16, 8)
			b.WriteByte(byte(v))
			i = j - 1
		case '0', '1', '2', '3', '4', '5', '6', '7':
			j := i
			for j < len(s) && j < i+3 && s[j] >= '0' && s[j] <= '7' {
				j++
			}
			v, _ := strconv.ParseUint(s[i:j], 8, 16)
			b.WriteByte(byte(v))
			i = j - 1
		default:
			b.WriteByte(s[i])
		}
	}
	return b.String()
}

func isHex(c byte) bool {
	return c >= '0' && c <= '9' || c >= 'a' && c <= 'f' || c >= 'A' && c <= 'F'
}

// quoted extracts a "..." argument; ok=false for NULL / addresses; trunc=true when
// strace abbreviated the string.
func quoted(arg string) (s string, ok bool, trunc bool) {
	if len(arg) < 2 || arg[0] != '"' {
		return "", false, false
	}
	// find the closing quote
	for i := 1; i < len(arg); i++ {
		if arg[i] == '\\' {
			i++
			continue
		}
		if arg[i] == '"' {
			return unescapeC(arg[1:i]), true, strings.HasPrefix(arg[i+1:], "...")
		}
	}
	return "", false, false
}

// fdAnnotation returns the path inside N<...> / AT_FDCWD<...>, "" if absent.
func fdAnnotation(arg string) string {
	i := strings.IndexByte(arg, '<')
	if i < 0 || !strings.HasSuffix(arg, ">") {
		return ""
	}
	p := unescapeC(arg[i+1 : len(arg)-1])
	p = strings.TrimSuffix(p, " (deleted)")
	return p
}

type traceParser struct {
	cwd     map[int]string // per process; threads share it, so keyed by 0 only
	pending map[int]string
	mark    int
	Lines   int
	Unknown map[string]int
	Trunc   int
	walker  *walker
}

func newTraceParser(cwd string, w *walker) *traceParser {
	return &traceParser{cwd: map[int]string{0: cwd}, pending: map[int]string{}, Unknown: map[string]int{}, walker: w}
}

const markPrefix = "/VERIF-MARK/"

// parseFile reads the whole log and calls fn for every file-name system call.
func (tp *traceParser) parseFile(file string, fn func(*event)) error {
	f, err := os.Open(file)
	if err != nil {
		return err
	}
	defer f.Close()
	sc := bufio.NewScanner(f)
	sc.Buffer(make([]byte, 1<<20), 1<<26)
	for sc.Scan() {
		tp.Lines++
		if ev := tp.parseLine(sc.Text()); ev != nil {
			fn(ev)
		}
	}
	return sc.Err()
}

func (tp *traceParser) parseLine(line string) *event {
	// "<pid> <rest>"
	sp := strings.IndexByte(line, ' ')
	if sp <= 0 {
		return nil
	}
	pid, err := strconv.Atoi(line[:sp])
	if err != nil {
		return nil
	}
	rest := strings.TrimLeft(line[sp+1:], " ")
	if strings.HasPrefix(rest, "---") || strings.HasPrefix(rest, "+++") {
		return nil
	}
	if strings.HasSuffix(rest, "<unfinished ...>") {
		tp.pending[pid] = strings.TrimSuffix(rest, "<unfinished ...>")
		return nil
	}
	if strings.HasPrefix(rest, "<... ") {
		i := strings.Index(rest, " resumed>")
		if i < 0 {
			return nil
		}
		head, ok := tp.pending[pid]
		if !ok {
			return nil
		}
		delete(tp.pending, pid)
		rest = head + rest[i+len(" resumed>"):]
	}
	open := strings.IndexByte(rest, '(')
	if open <= 0 {
		return nil
	}
	name := rest[:open]
	eq := strings.LastIndex(rest, ") = ")
	if eq < 0 {
		return nil // e.g. exit_group: no return value
	}
	args := splitArgs(rest[open+1 : eq])
	ret := strings.TrimSpace(rest[eq+4:])
	ev := &event{Line: strconv.Itoa(pid) + " " + rest, Pid: pid, Name: name, Mark: tp.mark}
	if strings.HasPrefix(ret, "-1") || strings.HasPrefix(ret, "?") {
		ev.Failed = true
		f := strings.Fields(ret)
		if len(f) > 1 {
			ev.Errno = f[1]
		}
	} else if i := strings.IndexByte(ret, '<'); i > 0 {
		j := strings.LastIndexByte(ret, '>')
		if j > i {
			ev.RetFd = strings.TrimSuffix(unescapeC(ret[i+1:j]), " (deleted)")
		}
	}
	spec, known := sysTable[name]
	if !known {
		// unknown %file call: treat every quoted argument as a cwd-relative path
		ev.Unknown = true
		ev.Class = clOther
		tp.Unknown[name]++
		for _, a := range args {
			if s, ok, _ := quoted(a); ok {
				ev.Targets = append(ev.Targets, tp.resolve("", s, true))
			}
		}
		if len(ev.Targets) == 0 {
			return nil
		}
		return ev
	}
	flags := ""
	if spec.flags >= 0 && spec.flags < len(args) {
		flags = args[spec.flags]
	}
	ev.Class = spec.class
	if ev.Class == "" { // open family: classify by flags
		ev.Class = clRead
		for _, w := range []string{"O_WRONLY", "O_RDWR", "O_CREAT", "O_TRUNC", "O_APPEND", "O_TMPFILE"} {
			if strings.Contains(flags, w) {
				ev.Class = clWrite
			}
		}
	}
	for _, pa := range spec.args {
		if pa.path >= len(args) {
			continue
		}
		s, ok, trunc := quoted(args[pa.path])
		if !ok {
			continue
		}
		if trunc {
			tp.Trunc++
		}
		if strings.HasPrefix(s, markPrefix) {
			if n, err := strconv.Atoi(strings.TrimPrefix(s, markPrefix)); err == nil {
				tp.mark = n
			}
			return nil
		}
		base := ""
		if pa.dirfd >= 0 && pa.dirfd < len(args) {
			d := args[pa.dirfd]
			if ann := fdAnnotation(d); ann != "" {
				base = ann
			} else if !strings.HasPrefix(d, "AT_FDCWD") {
				base = "/UNRESOLVED-DIRFD-" + d
			}
		}
		follow := pa.follow == 1
		if pa.follow == -1 {
			follow = !strings.Contains(flags, "O_NOFOLLOW") && !strings.Contains(flags, "AT_SYMLINK_NOFOLLOW")
			if strings.Contains(flags, "O_CREAT") && strings.Contains(flags, "O_EXCL") {
				follow = false
			}
		}
		if s == "" && strings.Contains(flags, "AT_EMPTY_PATH") {
			continue // fstat on an already open descriptor
		}
		ev.Targets = append(ev.Targets, tp.resolve(base, s, follow))
	}
	if name == "chdir" && !ev.Failed && len(ev.Targets) == 1 {
		tp.cwd[0] = ev.Targets[0].Real
	}
	if len(ev.Targets) == 0 {
		return nil
	}
	return ev
}

func (tp *traceParser) resolve(base, p string, follow bool) target {
	full := p
	if !strings.HasPrefix(p, "/") {
		if base == "" {
			base = tp.cwd[0]
		}
		full = base + "/" + p
	}
	return target{Lex: path.Clean(full), Real: tp.walker.real(full, follow), Raw: p}
}

// walker resolves a path the way the kernel does (component by component, symlinks
// substituted as they are met, ".." applied to the resolved prefix), reading the links
// of the live tree.  Components that do not exist are appended lexically.
type walker struct {
	links map[string]string // Lstat/Readlink cache: path -> link target, "" when not a symlink
	cache map[string]string
}

func newWalker() *walker { return &walker{links: map[string]string{}, cache: map[string]string{}} }

func (w *walker) link(p string) string {
	if t, ok := w.links[p]; ok {
		return t
	}
	t := ""
	if fi, err := os.Lstat(p); err == nil && fi.Mode()&os.ModeSymlink != 0 {
		t, _ = os.Readlink(p)
	}
	w.links[p] = t
	return t
}

func (w *walker) real(p string, followLast bool) string {
	key := p
	if followLast {
		key = "F" + p
	} else {
		key = "N" + p
	}
	if r, ok := w.cache[key]; ok {
		return r
	}
	r := w.walk(p, followLast, 0)
	w.cache[key] = r
	return r
}

func (w *walker) walk(p string, followLast bool, depth int) string {
	if depth > 40 || strings.IndexByte(p, 0) >= 0 {
		return path.Clean(p)
	}
	comps := strings.Split(p, "/")
	cur := "/"
	for i, c := range comps {
		switch c {
		case "", ".":
			continue
		case "..":
			cur = path.Dir(cur)
			continue
		}
		next := path.Join(cur, c)
		last := true
		for _, rest := range comps[i+1:] {
			if rest != "" && rest != "." {
				last = false
				break
			}
		}
		if t := w.link(next); t != "" && (!last || followLast) {
			var sub string
			if strings.HasPrefix(t, "/") {
				sub = t
			} else {
				sub = cur + "/" + t
			}
			cur = w.walk(sub, true, depth+1)
			continue
		}
		cur = next
	}
	return cur
}
