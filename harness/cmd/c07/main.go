// C07 - subscribers are offered exactly what they requested; teardown reaches everyone.
//
// A child process runs the real server; clients are websocket clients with real pion
// PeerConnections (vrtc).  A driver performs random join / request / requestStream /
// publish / close / replace / abort / leave / disconnect / kick / unpresent actions; after
// every step it waits for logical quiescence and compares, for every ordered pair
// (subscriber, live stream), what the subscriber holds (its last offer's media sections,
// identified by the msid track ids the publisher chose) with a reference model of the
// property text.  Every 'close' received must be justified; every ended stream must have
// been closed at everyone who held it.
package main

import (
	"fmt"
	"math/rand/v2"
	"os"
	"reflect"
	"sort"
	"strings"
	"sync"
	"time"

	"verif/harness/vclient"
	"verif/harness/vk"
	"verif/harness/vrtc"
	"verif/harness/vsrv"
)

type batchArgs struct {
	Index uint64 `json:"index"`
	Scen  int    `json:"scenarios"`
	Steps int    `json:"steps"`
}

var labels = []string{"camera", "screenshare", "video", ""}

type stream struct {
	id      string
	label   string
	pub     *cl
	tracks  []vrtc.TrackSpec // in the order their first packets were sent
	up      *vrtc.Up
	live    bool
	stop    chan struct{}
	endedAt int // step at which it ended
	why     string
}

type cl struct {
	name     string
	id       string
	c        *vclient.Client
	p        *vrtc.Peer
	group    string
	joined   bool
	user     string
	present  bool
	isOp     bool
	request  map[string][]string
	override map[string][]string // stream id -> kinds (while the down stream exists)
	aborted  map[string]bool
	// maybe: a stream that replaced one for which this client had a per-stream request may be
	// selected by that request or by the request map (galene hands the per-stream request
	// over only if the new stream's tracks are known at its first push: timing-dependent)
	maybe map[string][]string
	slow  time.Duration // answers offers this late
	// pushAsked: since the last check this client has sent a message that makes publishers
	// push their streams to it again (request, requestStream).  An abort or an empty
	// per-stream selection sent AFTER that in the same burst can be overtaken by such a push:
	// the first push closes the stream (and forgets the per-stream request), the second one
	// offers it again according to the request map.  Both outcomes are galene's semantics.
	pushAsked bool
	maybeBack map[string]bool
	sigSeen   int             // number of signalling events already judged
	held      map[string]bool // streams this client held at the previous check
}

type scen struct {
	run     *vk.Run
	srv     *vsrv.Server
	batch   uint64
	idx     int
	groups  []string
	clients []*cl
	streams map[string]*stream
	trail   []string
	step    int
	bad     bool
	nstream int
	// threeTracks: every published stream has audio and two video tracks
	threeTracks bool
	// midPublish runs when a published stream is connected, before its first packets: inside
	// the server's 200 ms push delay
	midPublish func()
}

func (sc *scen) note(s string) {
	sc.trail = append(sc.trail, fmt.Sprintf("step %d: %s", sc.step, s))
	sc.run.Note(s)
}

func (sc *scen) fail(key, what string) {
	sc.bad = true
	sc.run.Violation(key, what, map[string]any{"batch": sc.batch, "scenario": sc.idx, "trail": sc.trail[max(0, len(sc.trail)-60):]})
}

// selection computes, from the property text, which of the stream's tracks a request selects.
func selection(kinds []string, tracks []vrtc.TrackSpec) []string {
	var audio, video, low bool
	for _, k := range kinds {
		switch k {
		case "audio":
			audio = true
		case "video":
			video = true
		case "video-low":
			low = true
		}
	}
	var out []string
	if audio {
		for _, t := range tracks {
			if t.Kind == "audio" {
				out = append(out, t.ID)
				break
			}
		}
	}
	if video {
		for _, t := range tracks {
			if t.Kind == "video" {
				out = append(out, t.ID)
				break
			}
		}
	} else if low {
		last := ""
		for _, t := range tracks {
			if t.Kind == "video" {
				last = t.ID
			}
		}
		if last != "" {
			out = append(out, last)
		}
	}
	sort.Strings(out)
	return out
}

func (sc *scen) expected(s *cl, u *stream) []string {
	if !s.joined || !u.live || u.pub == s || u.pub.group != s.group || !u.pub.joined {
		return nil
	}
	if s.aborted[u.id] {
		return nil
	}
	var kinds []string
	if o, ok := s.override[u.id]; ok {
		kinds = o
	} else if r, ok := s.request[u.label]; ok {
		kinds = r
	} else {
		kinds = s.request[""]
	}
	return selection(kinds, u.tracks)
}

func (sc *scen) liveClients() []*vclient.Client {
	var cs []*vclient.Client
	for _, c := range sc.clients {
		if c.c != nil {
			if closed, _ := c.c.Closed(); !closed {
				cs = append(cs, c.c)
			}
		}
	}
	return cs
}

func (sc *scen) quiesce() bool {
	// silence for 3 x 130 ms covers galene's 200 ms push delay; a slow answerer that is still
	// sitting on an offer is not quiet yet (its answer makes the server send what it deferred)
	for tries := 0; tries < 100; tries++ {
		if !vclient.Quiesce(sc.liveClients(), 3, 130*time.Millisecond, 40*time.Second) {
			break
		}
		busy := false
		for _, c := range sc.clients {
			if c.p != nil && c.p.Busy() {
				busy = true
			}
		}
		if !busy {
			return true
		}
		time.Sleep(50 * time.Millisecond)
	}
	sc.run.Undecided("quiescence watchdog fired")
	sc.bad = true
	return false
}

func activeIDs(ms []vrtc.MLine) ([]string, []string) {
	var ids, kinds []string
	for _, m := range vrtc.Active(ms) {
		ids = append(ids, m.TrackID)
		kinds = append(kinds, m.Kind)
	}
	sort.Strings(ids)
	return ids, kinds
}

// check compares every (subscriber, stream) pair with the model and judges new events.
func (sc *scen) check() {
	if !sc.quiesce() {
		return
	}
	// a client whose socket the server closed (kick, protocol error such as a requestStream
	// that raced with the end of the stream) is gone, and so are its streams
	for _, c := range sc.clients {
		if c.c != nil {
			if closed, _ := c.c.Closed(); closed {
				if c.joined {
					sc.note(fmt.Sprintf("(%s's socket was closed by the server)", c.name))
				}
				sc.endStreamsOf(c, "publisher disconnected")
				c.joined = false
			}
		}
	}
	for _, s := range sc.clients {
		if s.p == nil {
			continue
		}
		sig := s.p.Sig()
		// judge the new events
		for _, e := range sig[s.sigSeen:] {
			u := sc.streams[e.ID]
			switch e.Type {
			case "offer":
				sc.run.Count("offers_received", 1)
				if u == nil {
					sc.fail("offer-for-unknown-stream", fmt.Sprintf("%s was offered stream %q which no publisher created", s.name, e.ID))
					continue
				}
				if !s.joined && s.group == "" {
					sc.fail("offer-to-non-member", fmt.Sprintf("%s is not a member of any group and was offered stream %s", s.name, e.ID))
				}
				if s.group != "" && u.pub.group != s.group && u.pub.group != "" {
					sc.fail("offer-across-groups", fmt.Sprintf("%s (group %s) was offered stream %s of %s (group %s)", s.name, s.group, e.ID, u.pub.name, u.pub.group))
				}
				if src := e.M.Str("source"); src != u.pub.id {
					sc.fail("offer-wrong-source", fmt.Sprintf("offer for %s at %s names source %q, the publisher is %q", e.ID, s.name, src, u.pub.id))
				}
				if un := e.M.Str("username"); un != u.pub.user {
					sc.fail("offer-wrong-username", fmt.Sprintf("offer for %s at %s names username %q, the publisher logged in as %q", e.ID, s.name, un, u.pub.user))
				}
				if lb := e.M.Str("label"); lb != u.label {
					sc.fail("offer-wrong-label", fmt.Sprintf("offer for %s at %s has label %q, published with %q", e.ID, s.name, lb, u.label))
				}
			case "close":
				sc.run.Count("closes_received", 1)
			}
		}
		s.sigSeen = len(sig)
	}
	// state comparison
	for _, s := range sc.clients {
		if s.p == nil || s.c == nil {
			continue
		}
		if closed, _ := s.c.Closed(); closed {
			continue
		}
		downs := s.p.Downs()
		nowHeld := map[string]bool{}
		for id, d := range downs {
			if d.Closed || len(d.Offers) == 0 {
				continue
			}
			nowHeld[id] = true
		}
		for id, u := range sc.streams {
			if s.maybeBack[id] && s.aborted[id] && nowHeld[id] && u.live && s.joined && u.pub.group == s.group {
				// overtaken by a push this client had asked for just before: offered again
				// according to the request map
				var kinds []string
				if rq, ok := s.request[u.label]; ok {
					kinds = rq
				} else {
					kinds = s.request[""]
				}
				if got, _ := activeIDs(downs[id].LastOffer()); reflect.DeepEqual(got, selection(kinds, u.tracks)) {
					delete(s.aborted, id)
					sc.run.Count("aborts_overtaken_by_a_push_asked_for_before", 1)
				}
			}
			want := sc.expected(s, u)
			d := downs[id]
			holds := nowHeld[id]
			if alt, ok := s.maybe[id]; ok && u.live && s.joined && u.pub.group == s.group && !s.aborted[id] {
				altWant := selection(alt, u.tracks)
				var got []string
				if holds {
					got, _ = activeIDs(d.LastOffer())
				}
				if reflect.DeepEqual(got, altWant) || (len(got) == 0 && len(altWant) == 0) {
					sc.run.Count("replacement_with_inherited_request", 1)
					continue
				}
			}
			if len(want) > 0 {
				if !holds {
					sc.fail("requested-stream-not-offered", fmt.Sprintf("%s requests tracks %v of live stream %s (label %q, publisher %s) and holds no offer for it", s.name, want, id, u.label, u.pub.name))
					continue
				}
				got, _ := activeIDs(d.LastOffer())
				if !reflect.DeepEqual(got, want) {
					sc.fail("offer-wrong-tracks", fmt.Sprintf("%s holds stream %s with tracks %v, its request selects %v (stream tracks in arrival order %v)", s.name, id, got, want, u.tracks))
					continue
				}
				sc.run.Count("held_streams_verified", 1)
				if len(u.tracks) > len(want) {
					sc.run.Count("partial_selections_verified", 1)
				}
			} else if holds {
				why := "it does not request it"
				if !u.live {
					why = "the stream has ended (" + u.why + ")"
				} else if s.aborted[id] {
					why = "it aborted it"
				}
				sc.fail("stream-held-though-not-due", fmt.Sprintf("%s still holds an open downstream for %s although %s: no 'close' was sent", s.name, id, why))
			} else {
				sc.run.Count("absent_streams_verified", 1)
			}
		}
		// every close this client received since the last check must be justified: the stream
		// is one it is not (or no longer) due to hold now
		for id := range s.held {
			if !nowHeld[id] {
				u := sc.streams[id]
				if u != nil && len(sc.expected(s, u)) > 0 {
					sc.fail("unjustified-close", fmt.Sprintf("%s lost its downstream for %s although the stream is live and still requested", s.name, id))
				}
				// a per-stream override and an abort flag die with the down stream
				delete(s.override, id)
			}
		}
		for id := range s.override {
			if !nowHeld[id] {
				delete(s.override, id)
			}
		}
		s.held = nowHeld
		s.pushAsked, s.maybeBack = false, nil
	}
	sc.run.Count("checks", 1)
}

func (sc *scen) newClient(r *rand.Rand, n int) *cl {
	c := &cl{name: fmt.Sprintf("b%ds%dk%d", sc.batch, sc.idx, n), request: map[string][]string{}, override: map[string][]string{}, aborted: map[string]bool{}, held: map[string]bool{}}
	if sc.idx < 1000 && r.IntN(4) == 0 {
		// a slow answerer: the server's next push (a late track, a changed request) finds the
		// previous offer still outstanding and must be made up for after the answer
		c.slow = time.Duration(250+r.IntN(200)) * time.Millisecond
		sc.run.Count("slow_answerers", 1)
	}
	return c
}

func (sc *scen) connect(c *cl, gen int) bool {
	c.id = fmt.Sprintf("%s-%d", c.name, gen)
	vc, err := vclient.Dial(sc.srv, c.id)
	if err != nil {
		sc.run.Undecided("dial: " + err.Error())
		sc.bad = true
		return false
	}
	c.c = vc
	c.p = vrtc.NewPeer(vc)
	if c.slow > 0 {
		c.p.AnswerDelay = c.slow
	}
	c.sigSeen = 0
	c.held = map[string]bool{}
	c.override = map[string][]string{}
	c.aborted = map[string]bool{}
	c.request = map[string][]string{}
	c.joined, c.group = false, ""
	return true
}

func (sc *scen) endStreamsOf(c *cl, why string) {
	for _, u := range sc.streams {
		if u.pub == c && u.live {
			u.live = false
			u.why = why
			close(u.stop)
		}
	}
}

func randKinds(r *rand.Rand) []string {
	switch r.IntN(8) {
	case 0:
		return []string{}
	case 1:
		return []string{"audio"}
	case 2:
		return []string{"video"}
	case 3:
		return []string{"video-low"}
	case 4:
		return []string{"audio", "video-low"}
	case 5:
		return []string{"audio", "video", "video-low"}
	default:
		return []string{"audio", "video"}
	}
}

func (sc *scen) publish(c *cl, r *rand.Rand, replace string) {
	sc.nstream++
	id := fmt.Sprintf("%s-st%d", c.id, sc.nstream)
	label := labels[r.IntN(len(labels))]
	var tracks []vrtc.TrackSpec
	pick := r.IntN(5)
	if sc.threeTracks {
		pick = 2
		if r.IntN(2) == 0 {
			pick = 5
		}
	} else if r.IntN(10) == 0 {
		pick = 5
	}
	switch pick {
	case 5:
		// three video tracks: "video-low" means the LAST one, not the second
		tracks = []vrtc.TrackSpec{{Kind: "audio", ID: "a0"}, {Kind: "video", ID: "v0"}, {Kind: "video", ID: "v1"}, {Kind: "video", ID: "v2"}}
	case 0:
		tracks = []vrtc.TrackSpec{{Kind: "audio", ID: "a0"}}
	case 1:
		tracks = []vrtc.TrackSpec{{Kind: "video", ID: "v0"}}
	case 2:
		tracks = []vrtc.TrackSpec{{Kind: "audio", ID: "a0"}, {Kind: "video", ID: "v0"}, {Kind: "video", ID: "v1"}}
	default:
		tracks = []vrtc.TrackSpec{{Kind: "audio", ID: "a0"}, {Kind: "video", ID: "v0"}}
	}
	if replace != "" {
		if old := sc.streams[replace]; old != nil {
			label = old.label
		}
	}
	sc.note(fmt.Sprintf("%s publishes %s label=%q tracks=%v replace=%q (present=%v)", c.name, id, label, tracks, replace, c.present))
	up, err := c.p.Publish(id, label, tracks, replace)
	if err != nil {
		sc.run.Undecided("publish: " + err.Error())
		sc.bad = true
		return
	}
	st := &stream{id: id, label: label, pub: c, up: up, stop: make(chan struct{})}
	if replace != "" {
		for _, o := range sc.clients {
			if k, ok := o.override[replace]; ok {
				if o.maybe == nil {
					o.maybe = map[string][]string{}
				}
				o.maybe[id] = k
			} else if k, ok := o.maybe[replace]; ok {
				o.maybe[id] = k
			}
		}
		if old := sc.streams[replace]; old != nil && old.live {
			old.live = false
			old.why = "replaced by " + id
			close(old.stop)
		}
	}
	res := up.Wait(20 * time.Second)
	if !c.present {
		// publishing needs 'present': the offer must be refused
		if res != "aborted" {
			sc.fail("publish-without-present-accepted", fmt.Sprintf("%s has no 'present' permission, its offer %s was not aborted (%s)", c.name, id, res))
		}
		sc.run.Count("publish_refused_no_present", 1)
		return
	}
	if res != "connected" {
		sc.run.Undecided(fmt.Sprintf("publisher %s stream %s: %s", c.name, id, res))
		sc.bad = true
		return
	}
	sc.streams[id] = st
	st.live = true
	if sc.midPublish != nil {
		sc.midPublish()
	}
	// first packets track by track, so that the server learns the tracks in this order
	for _, ts := range tracks {
		t := up.Track(ts.ID)
		for k := 0; k < 4; k++ {
			sendOne(t, uint16(k), uint32(k))
			time.Sleep(10 * time.Millisecond)
		}
		st.tracks = append(st.tracks, ts)
		time.Sleep(60 * time.Millisecond)
	}
	// trickle so that the tracks stay alive
	go func() {
		seq := uint16(4)
		for {
			select {
			case <-st.stop:
				return
			case <-time.After(40 * time.Millisecond):
			}
			for _, ts := range tracks {
				sendOne(up.Track(ts.ID), seq, uint32(seq))
			}
			seq++
		}
	}()
	sc.run.Count("streams_published", 1)
	if len(tracks) == 3 {
		sc.run.Count("two_video_track_streams", 1)
	}
	if len(tracks) == 4 {
		sc.run.Count("three_video_track_streams", 1)
	}
}

// publishBrief publishes a stream that replaces `replace` and is itself about to be replaced:
// it is connected, optionally receives one packet per track, and is recorded as ended at
// once.  It returns the id of the short-lived stream.
func (sc *scen) publishBrief(c *cl, r *rand.Rand, replace string, packets bool) string {
	sc.nstream++
	id := fmt.Sprintf("%s-st%d", c.id, sc.nstream)
	label := labels[r.IntN(len(labels))]
	if old := sc.streams[replace]; old != nil {
		label = old.label
	}
	tracks := []vrtc.TrackSpec{{Kind: "audio", ID: "a0"}, {Kind: "video", ID: "v0"}}
	sc.note(fmt.Sprintf("%s publishes short-lived %s label=%q replace=%q (packets=%v), to be replaced at once", c.name, id, label, replace, packets))
	up, err := c.p.Publish(id, label, tracks, replace)
	if err != nil {
		sc.run.Undecided("publish: " + err.Error())
		sc.bad = true
		return ""
	}
	st := &stream{id: id, label: label, pub: c, up: up, stop: make(chan struct{}), tracks: tracks}
	st.why = "replaced at once by the next stream"
	for _, o := range sc.clients {
		if k, ok := o.override[replace]; ok {
			if o.maybe == nil {
				o.maybe = map[string][]string{}
			}
			o.maybe[id] = k
		} else if k, ok := o.maybe[replace]; ok {
			o.maybe[id] = k
		}
	}
	if old := sc.streams[replace]; old != nil && old.live {
		old.live = false
		old.why = "replaced by " + id
		close(old.stop)
	}
	sc.streams[id] = st
	if res := up.Wait(20 * time.Second); res != "connected" {
		sc.run.Undecided(fmt.Sprintf("publisher %s short-lived stream %s: %s", c.name, id, res))
		sc.bad = true
		return ""
	}
	if packets {
		for _, ts := range tracks {
			sendOne(up.Track(ts.ID), 0, 0)
		}
	}
	return id
}

func sendOne(t *vrtc.UpTrack, seq uint16, n uint32) {
	if t == nil {
		return
	}
	if t.Spec.Kind == "audio" {
		t.Local.WriteRTP(vrtc.OpusPacket(seq, n*960, n))
	} else {
		t.Local.WriteRTP(vrtc.VP8Packet(seq, n*3000, uint16(n), 0, n%30 == 0, n, 20))
	}
}

func (sc *scen) act(r *rand.Rand) {
	c := sc.clients[r.IntN(len(sc.clients))]
	if c.c != nil {
		if closed, _ := c.c.Closed(); closed {
			// kicked or closed by the server
			sc.endStreamsOf(c, "publisher disconnected")
			c.joined = false
			c.c, c.p = nil, nil
		}
	}
	if c.c == nil {
		if !sc.connect(c, sc.step) {
			return
		}
	}
	if !c.joined {
		g := sc.groups[r.IntN(len(sc.groups))]
		user, pw := []string{"op1", "pres1", "pres2", "pres1", "pres2", "obs1"}[r.IntN(6)], ""
		pw = "pw-" + user
		sc.note(fmt.Sprintf("%s joins %s as %s", c.name, g, user))
		m, ok := c.c.Join(g, user, pw)
		if closed, _ := c.c.Closed(); !ok && closed {
			// the socket was being closed by the server (a kick in flight): start over later
			sc.note(fmt.Sprintf("(%s's socket closed during join)", c.name))
			c.p.Shutdown()
			c.c, c.p = nil, nil
			return
		}
		if !ok || m.Str("kind") != "join" {
			sc.run.Undecided(fmt.Sprintf("join of %s failed: %v", c.name, m))
			sc.bad = true
			return
		}
		c.joined, c.group, c.user = true, g, user
		c.isOp = user == "op1"
		c.present = user != "obs1"
		c.request = map[string][]string{}
		sc.run.Count("joins", 1)
		// most clients request something right away
		if r.IntN(5) > 0 {
			sc.request(c, r)
		}
		return
	}
	var myStreams, heldStreams []string
	for id, u := range sc.streams {
		if u.pub == c && u.live {
			myStreams = append(myStreams, id)
		}
	}
	for id := range c.held {
		if u := sc.streams[id]; u != nil && u.live {
			heldStreams = append(heldStreams, id)
		}
	}
	sort.Strings(myStreams)
	sort.Strings(heldStreams)
	switch x := r.IntN(100); {
	case x < 20:
		sc.request(c, r)
	case x < 32 && len(heldStreams) > 0:
		id := heldStreams[r.IntN(len(heldStreams))]
		kinds := randKinds(r)
		if len(kinds) == 0 {
			kinds = []string{"audio"}
		}
		sc.note(fmt.Sprintf("%s requestStream %s %v", c.name, id, kinds))
		if len(selection(kinds, sc.streams[id].tracks)) == 0 {
			// a per-stream request that selects nothing closes the down stream, and the
			// per-stream request dies with it: like an abort, until the next 'request'
			c.aborted[id] = true
			delete(c.override, id)
			delete(c.maybe, id)
			if c.pushAsked {
				if c.maybeBack == nil {
					c.maybeBack = map[string]bool{}
				}
				c.maybeBack[id] = true
			}
		} else {
			c.override[id] = kinds
			// a per-stream request that selects something makes the publisher push the
			// stream again: an earlier abort (or empty selection) of it is over
			delete(c.aborted, id)
			c.pushAsked = true
		}
		c.c.Send(vclient.Msg{"type": "requestStream", "id": id, "request": kinds})
		sc.run.Count("requestStream", 1)
	case x < 58:
		if len(myStreams) < 2 {
			sc.publish(c, r, "")
			if c.present && r.IntN(4) == 0 && !sc.bad {
				// close the stream again inside galene's 200 ms push delay (counted from the
				// arrival of the last track): the delayed push races with the close
				var id string
				for sid, u := range sc.streams {
					if u.pub == c && u.live && (id == "" || sid > id) {
						id = sid
					}
				}
				if u := sc.streams[id]; u != nil {
					d := time.Duration(r.IntN(160)) * time.Millisecond
					time.Sleep(d)
					sc.note(fmt.Sprintf("%s closes %s again %v after its last track started", c.name, id, d+70*time.Millisecond))
					u.live, u.why = false, "closed by the publisher right after publishing"
					close(u.stop)
					u.up.Close()
					sc.run.Count("streams_closed_within_push_delay", 1)
				}
			}
		} else {
			sc.request(c, r)
		}
	case x < 64 && len(myStreams) > 0:
		id := myStreams[r.IntN(len(myStreams))]
		sc.note(fmt.Sprintf("%s closes its stream %s", c.name, id))
		u := sc.streams[id]
		u.live, u.why = false, "closed by the publisher"
		close(u.stop)
		u.up.Close()
		sc.run.Count("streams_closed", 1)
	case x < 70 && len(myStreams) > 0 && c.present:
		old := myStreams[r.IntN(len(myStreams))]
		if r.IntN(3) == 0 {
			// X is replaced by Y and Y by Z before the server has announced Y (its 200 ms push
			// delay): the teardown of X must still reach every subscriber
			if mid := sc.publishBrief(c, r, old, r.IntN(2) == 0); mid != "" && !sc.bad {
				sc.publish(c, r, mid)
				sc.run.Count("streams_replaced_twice_within_push_delay", 1)
			}
			return
		}
		sc.publish(c, r, old)
		sc.run.Count("streams_replaced", 1)
	case x < 79 && len(heldStreams) > 0:
		id := heldStreams[r.IntN(len(heldStreams))]
		sc.note(fmt.Sprintf("%s aborts downstream %s", c.name, id))
		c.aborted[id] = true
		// the down stream dies with the abort, and its per-stream request with it (whatever
		// else this client does before the next check)
		delete(c.override, id)
		delete(c.maybe, id)
		if c.pushAsked {
			if c.maybeBack == nil {
				c.maybeBack = map[string]bool{}
			}
			c.maybeBack[id] = true
		}
		others := sc.snapshotOthers(c)
		c.c.Send(vclient.Msg{"type": "abort", "id": id})
		sc.run.Count("aborts", 1)
		sc.quiesce()
		sc.othersUnchanged(c, others, "abort")
	case x < 84:
		sc.note(fmt.Sprintf("%s leaves %s", c.name, c.group))
		sc.endStreamsOf(c, "publisher left")
		if c.c.Leave(c.group) {
			c.joined = false
			// a client that leaves closes its own down streams (the server drops them silently);
			// per-stream requests and aborts die with them, whatever happens before the next check
			c.p.CloseAllDowns()
			c.override = map[string][]string{}
			c.aborted = map[string]bool{}
			c.maybe = map[string][]string{}
			c.held = map[string]bool{}
		}
		sc.run.Count("leaves", 1)
	case x < 87:
		sc.note(fmt.Sprintf("%s disconnects abruptly", c.name))
		sc.endStreamsOf(c, "publisher disconnected")
		c.p.Shutdown()
		c.c.Close()
		c.c, c.p, c.joined = nil, nil, false
		sc.run.Count("disconnects", 1)
	case x < 95 && c.isOp:
		// moderation: kick or unpresent somebody of the same group
		var mates []*cl
		for _, o := range sc.clients {
			if o != c && o.joined && o.group == c.group {
				mates = append(mates, o)
			}
		}
		if len(mates) == 0 {
			return
		}
		t := mates[r.IntN(len(mates))]
		if r.IntN(2) == 0 {
			sc.note(fmt.Sprintf("%s kicks %s", c.name, t.name))
			sc.endStreamsOf(t, "publisher kicked")
			t.joined = false
			c.c.Send(vclient.Msg{"type": "useraction", "kind": "kick", "source": c.id, "dest": t.id})
			sc.run.Count("kicks", 1)
		} else {
			sc.note(fmt.Sprintf("%s unpresents %s", c.name, t.name))
			if t.present {
				sc.endStreamsOf(t, "publisher lost 'present'")
			}
			t.present = false
			c.c.Send(vclient.Msg{"type": "useraction", "kind": "unpresent", "source": c.id, "dest": t.id})
			sc.run.Count("unpresents", 1)
		}
	default:
		sc.request(c, r)
	}
}

func (sc *scen) snapshotOthers(c *cl) map[*cl]int {
	m := map[*cl]int{}
	sc.quiesce()
	for _, o := range sc.clients {
		if o != c && o.p != nil {
			m[o] = len(o.p.Sig())
		}
	}
	return m
}

func (sc *scen) othersUnchanged(c *cl, before map[*cl]int, what string) {
	for o, n := range before {
		if o.p == nil {
			continue
		}
		sig := o.p.Sig()
		for _, e := range sig[min(n, len(sig)):] {
			if e.Type == "offer" || e.Type == "close" {
				sc.fail("own-"+what+"-affected-others", fmt.Sprintf("%s's %s produced a '%s' for %s at %s", c.name, what, e.Type, e.ID, o.name))
			}
		}
	}
	sc.run.Count("isolation_checks", 1)
}

func (sc *scen) request(c *cl, r *rand.Rand) {
	req := map[string][]string{}
	switch r.IntN(6) {
	case 0:
		// nothing
	case 1:
		req[""] = randKinds(r)
	case 2:
		req["camera"] = randKinds(r)
		req[""] = randKinds(r)
	case 3:
		req["screenshare"] = randKinds(r)
		req["video"] = randKinds(r)
	default:
		req[""] = []string{"audio", "video"}
		if r.IntN(2) == 0 {
			req[labels[r.IntN(3)]] = randKinds(r)
		}
	}
	sc.note(fmt.Sprintf("%s request %v", c.name, req))
	c.request = req
	c.pushAsked = true
	// a new request makes every publisher push again: streams aborted earlier are re-offered
	c.aborted = map[string]bool{}
	c.maybe = map[string][]string{}
	msg := map[string]any{}
	for k, v := range req {
		msg[k] = v
	}
	others := map[*cl]int(nil)
	isolated := r.IntN(3) == 0
	if isolated {
		others = sc.snapshotOthers(c)
	}
	c.c.Send(vclient.Msg{"type": "request", "request": msg})
	sc.run.Count("requests", 1)
	if isolated {
		sc.quiesce()
		sc.othersUnchanged(c, others, "request")
	}
}

func runScenario(run *vk.Run, srv *vsrv.Server, batch uint64, idx int, steps int) {
	r := run.Rand(1, batch, uint64(idx))
	sc := &scen{run: run, srv: srv, batch: batch, idx: idx, streams: map[string]*stream{}}
	for g := 0; g < 2; g++ {
		name := fmt.Sprintf("g%d-%d-%d", batch, idx, g)
		sc.groups = append(sc.groups, name)
		srv.WriteGroup(name, map[string]any{"users": map[string]any{
			"op1":   map[string]any{"password": "pw-op1", "permissions": "op"},
			"pres1": map[string]any{"password": "pw-pres1", "permissions": "present"},
			"pres2": map[string]any{"password": "pw-pres2", "permissions": "present"},
			"obs1":  map[string]any{"password": "pw-obs1", "permissions": "observe"},
		}})
	}
	n := 3 + r.IntN(4)
	for i := 0; i < n; i++ {
		sc.clients = append(sc.clients, sc.newClient(r, i))
	}
	for sc.step = 0; sc.step < steps && !sc.bad; sc.step++ {
		burst := 1 + r.IntN(2)
		for b := 0; b < burst && !sc.bad; b++ {
			sc.act(r)
			run.Eval(1)
		}
		if !sc.bad {
			sc.check()
		}
	}
	for _, u := range sc.streams {
		if u.live {
			u.live = false
			close(u.stop)
		}
	}
	nst := len(sc.streams)
	for _, c := range sc.clients {
		if c.p != nil {
			c.p.Shutdown()
		}
		if c.c != nil {
			c.c.Close()
		}
	}
	if !sc.bad {
		run.Distinct(fmt.Sprintf("clients%d streams%d", n, min(nst, 8)))
	}
	if batch == 0 && idx == 0 {
		run.Sample(map[string]any{"batch": batch, "scenario": idx, "clients": n, "trail_head": sc.trail[:min(len(sc.trail), 30)]})
	}
}

// runChain is a directed scenario: a publisher with two subscribers replaces its stream
// twice in a row, the second time before the server has announced the first replacement
// (galene's 200 ms push delay) - with and without media having arrived on the short-lived
// stream, and in chains.  Judged by the same model and check as the random scenarios.
func runChain(run *vk.Run, srv *vsrv.Server, batch uint64, idx int) {
	r := run.Rand(3, batch, uint64(idx))
	sc := &scen{run: run, srv: srv, batch: batch, idx: 1000 + idx, streams: map[string]*stream{}}
	g := fmt.Sprintf("gc%d-%d", batch, idx)
	sc.groups = []string{g}
	srv.WriteGroup(g, map[string]any{"users": map[string]any{
		"pres1": map[string]any{"password": "pw-pres1", "permissions": "present"},
		"pres2": map[string]any{"password": "pw-pres2", "permissions": "present"},
		"obs1":  map[string]any{"password": "pw-obs1", "permissions": "observe"},
	}})
	users := []string{"pres1", "pres2", "obs1"}
	for i, user := range users {
		c := sc.newClient(r, i)
		sc.clients = append(sc.clients, c)
		if !sc.connect(c, 0) {
			return
		}
		sc.note(fmt.Sprintf("%s joins %s as %s", c.name, g, user))
		if m, ok := c.c.Join(g, user, "pw-"+user); !ok || m.Str("kind") != "join" {
			run.Undecided(fmt.Sprintf("join of %s failed: %v", c.name, m))
			sc.bad = true
			break
		}
		c.joined, c.group, c.user, c.present = true, g, user, user != "obs1"
		if i > 0 {
			kinds := [][]string{{"audio", "video"}, {"audio"}, {"video"}}[r.IntN(3)]
			if i == 1 {
				kinds = []string{"audio", "video"}
			}
			c.request = map[string][]string{"": kinds}
			sc.note(fmt.Sprintf("%s request %v", c.name, c.request))
			c.c.Send(vclient.Msg{"type": "request", "request": map[string]any{"": kinds}})
		}
	}
	pub := sc.clients[0]
	if !sc.bad {
		sc.publish(pub, r, "")
		sc.check()
	}
	for round := 0; round < 3 && !sc.bad; round++ {
		var cur string
		for id, u := range sc.streams {
			if u.pub == pub && u.live {
				cur = id
			}
		}
		if cur == "" {
			break
		}
		hops := 1 + r.IntN(2)
		if round%2 == 1 {
			hops = 0 // a plain replacement of a stream the subscribers hold
		}
		mid := cur
		for h := 0; h < hops && mid != "" && !sc.bad; h++ {
			mid = sc.publishBrief(pub, r, mid, r.IntN(2) == 0)
			if d := r.IntN(4); d > 0 {
				time.Sleep(time.Duration(d*40) * time.Millisecond)
			}
		}
		if mid == "" || sc.bad {
			break
		}
		if round%2 == 1 {
			// one subscriber repeats its request while the replacing stream has not been
			// announced yet: the publisher pushes to it at once; the others must still learn
			// of the replacement from the delayed announcement
			s := sc.clients[1]
			sc.midPublish = func() {
				msg := map[string]any{}
				for k, v := range s.request {
					msg[k] = v
				}
				sc.note(fmt.Sprintf("%s request %v (inside the push delay of the replacing stream)", s.name, s.request))
				s.c.Send(vclient.Msg{"type": "request", "request": msg})
				s.pushAsked = true
				run.Count("requests_inside_the_push_delay_of_a_replacement", 1)
			}
		}
		sc.publish(pub, r, mid)
		sc.midPublish = nil
		run.Count("streams_replaced_twice_within_push_delay", 1)
		run.Eval(1)
		sc.check()
	}
	for _, u := range sc.streams {
		if u.live {
			u.live = false
			close(u.stop)
		}
	}
	for _, c := range sc.clients {
		if c.p != nil {
			c.p.Shutdown()
		}
		if c.c != nil {
			c.c.Close()
		}
	}
	if !sc.bad {
		run.Count("chain_scenarios", 1)
	}
}

// runSlowAnswer is a directed scenario for "containing exactly the requested kinds" when the
// selection changes while an offer is outstanding: subscribers that take 400 ms to answer ask
// for the LAST video track of streams whose second video track starts after the first offer
// has gone out, and change their request while they sit on an offer.  The server has to make
// up for what it deferred once the answer arrives.
func runSlowAnswer(run *vk.Run, srv *vsrv.Server, batch uint64, idx int) {
	r := run.Rand(5, batch, uint64(idx))
	sc := &scen{run: run, srv: srv, batch: batch, idx: 3000 + idx, streams: map[string]*stream{}, threeTracks: true}
	g := fmt.Sprintf("gs%d-%d", batch, idx)
	sc.groups = []string{g}
	srv.WriteGroup(g, map[string]any{"users": map[string]any{
		"pres1": map[string]any{"password": "pw-pres1", "permissions": "present"},
		"pres2": map[string]any{"password": "pw-pres2", "permissions": "present"},
		"obs1":  map[string]any{"password": "pw-obs1", "permissions": "observe"},
	}})
	reqs := [][]string{nil, {"audio", "video-low"}, {"video-low"}}
	for i, user := range []string{"pres1", "pres2", "obs1"} {
		c := sc.newClient(r, i)
		if i > 0 {
			c.slow = 400 * time.Millisecond
		}
		sc.clients = append(sc.clients, c)
		if !sc.connect(c, 0) {
			return
		}
		sc.note(fmt.Sprintf("%s joins %s as %s (answers after %v)", c.name, g, user, c.slow))
		if m, ok := c.c.Join(g, user, "pw-"+user); !ok || m.Str("kind") != "join" {
			run.Undecided(fmt.Sprintf("join of %s failed: %v", c.name, m))
			sc.bad = true
			break
		}
		c.joined, c.group, c.user, c.present = true, g, user, user != "obs1"
		if reqs[i] != nil {
			c.request = map[string][]string{"": reqs[i]}
			sc.note(fmt.Sprintf("%s request %v", c.name, c.request))
			c.c.Send(vclient.Msg{"type": "request", "request": map[string]any{"": reqs[i]}})
		}
	}
	defer func() {
		for _, u := range sc.streams {
			if u.live {
				u.live = false
				close(u.stop)
			}
		}
		for _, c := range sc.clients {
			if c.p != nil {
				c.p.Shutdown()
			}
			if c.c != nil {
				c.c.Close()
			}
		}
	}()
	pub := sc.clients[0]
	for round := 0; round < 3 && !sc.bad; round++ {
		sc.publish(pub, r, "")
		if sc.bad {
			return
		}
		// one subscriber changes its mind while it is (probably) still sitting on an offer
		s := sc.clients[1+r.IntN(2)]
		kinds := [][]string{{"audio", "video"}, {"audio", "video-low"}, {"video-low"}, {"audio"}}[r.IntN(4)]
		s.request = map[string][]string{"": kinds}
		s.aborted = map[string]bool{}
		s.maybe = map[string][]string{}
		sc.note(fmt.Sprintf("%s request %v", s.name, s.request))
		s.c.Send(vclient.Msg{"type": "request", "request": map[string]any{"": kinds}})
		run.Count("requests_while_an_offer_is_outstanding", 1)
		run.Eval(1)
		sc.check()
	}
	if !sc.bad {
		run.Count("slow_answer_scenarios", 1)
	}
}

// runUnpresentRace is a directed scenario for "a publisher that loses the right to present:
// every subscriber that was offered its streams is sent a close".  While an operator takes
// 'present' away from the publisher, the publisher's own messages are in flight: a fresh
// offer (slow to handle, so that what follows queues up behind it) and an offer that
// REPLACES its live stream, sent back to back.  Whatever order the server handles them in,
// at quiescence nobody may hold any of the three streams.
func runUnpresentRace(run *vk.Run, srv *vsrv.Server, batch uint64, idx int) {
	r := run.Rand(4, batch, uint64(idx))
	sc := &scen{run: run, srv: srv, batch: batch, idx: 2000 + idx, streams: map[string]*stream{}}
	g := fmt.Sprintf("gu%d-%d", batch, idx)
	sc.groups = []string{g}
	srv.WriteGroup(g, map[string]any{"users": map[string]any{
		"op1":   map[string]any{"password": "pw-op1", "permissions": "op"},
		"pres1": map[string]any{"password": "pw-pres1", "permissions": "present"},
		"pres2": map[string]any{"password": "pw-pres2", "permissions": "present"},
		"obs1":  map[string]any{"password": "pw-obs1", "permissions": "observe"},
	}})
	for i, user := range []string{"pres1", "pres2", "obs1", "op1"} {
		c := sc.newClient(r, i)
		sc.clients = append(sc.clients, c)
		if !sc.connect(c, 0) {
			return
		}
		sc.note(fmt.Sprintf("%s joins %s as %s", c.name, g, user))
		if m, ok := c.c.Join(g, user, "pw-"+user); !ok || m.Str("kind") != "join" {
			run.Undecided(fmt.Sprintf("join of %s failed: %v", c.name, m))
			sc.bad = true
			break
		}
		c.joined, c.group, c.user, c.present, c.isOp = true, g, user, user != "obs1", user == "op1"
		if i == 1 || i == 2 {
			kinds := []string{"audio", "video"}
			c.request = map[string][]string{"": kinds}
			sc.note(fmt.Sprintf("%s request %v", c.name, c.request))
			c.c.Send(vclient.Msg{"type": "request", "request": map[string]any{"": kinds}})
		}
	}
	if sc.bad {
		return
	}
	pub, op := sc.clients[0], sc.clients[3]
	defer func() {
		for _, u := range sc.streams {
			if u.live {
				u.live = false
				close(u.stop)
			}
		}
		for _, c := range sc.clients {
			if c.p != nil {
				c.p.Shutdown()
			}
			if c.c != nil {
				c.c.Close()
			}
		}
	}()
	for round := 0; round < 6 && !sc.bad; round++ {
		sc.publish(pub, r, "")
		if sc.bad {
			return
		}
		sc.check()
		var cur string
		for id, u := range sc.streams {
			if u.pub == pub && u.live {
				cur = id
			}
		}
		if cur == "" || sc.bad {
			return
		}
		// prepare the two offers, keep the messages back
		pub.p.HoldOffers(true)
		tracks := []vrtc.TrackSpec{{Kind: "audio", ID: "a0"}, {Kind: "video", ID: "v0"}}
		var ups []*vrtc.Up
		for k, replace := range []string{"", "", cur} {
			sc.nstream++
			id := fmt.Sprintf("%s-st%d", pub.id, sc.nstream)
			up, err := pub.p.Publish(id, sc.streams[cur].label, tracks, replace)
			if err != nil {
				run.Undecided("publish: " + err.Error())
				sc.bad = true
				pub.p.HoldOffers(false)
				return
			}
			ups = append(ups, up)
			sc.streams[id] = &stream{id: id, label: sc.streams[cur].label, pub: pub, up: up, stop: make(chan struct{}), tracks: tracks, why: "offered while the publisher was losing 'present'"}
			_ = k
		}
		pub.p.HoldOffers(false)
		old := sc.streams[cur]
		old.live, old.why = false, "the publisher lost 'present'"
		close(old.stop)
		sc.note(fmt.Sprintf("%s unpresents %s while %s sends a fresh offer and an offer replacing %s back to back", op.name, pub.name, pub.name, cur))
		op.c.Send(vclient.Msg{"type": "useraction", "kind": "unpresent", "source": op.id, "dest": pub.id})
		if r.IntN(2) == 0 {
			time.Sleep(time.Duration(r.IntN(400)) * time.Microsecond)
		}
		pub.p.SendHeld()
		pub.present = false
		run.Count("unpresent_races", 1)
		run.Eval(1)
		sc.check()
		for _, up := range ups {
			up.Close()
		}
		// granted again for the next round
		op.c.Send(vclient.Msg{"type": "useraction", "kind": "present", "source": op.id, "dest": pub.id})
		pub.present = true
		if !sc.quiesce() {
			return
		}
	}
	if !sc.bad {
		run.Count("unpresent_race_scenarios", 1)
	}
}

func child() {
	run := vk.Start("C07")
	var a batchArgs
	vk.ChildArgs(&a)
	srv, err := vsrv.Start(vsrv.Config{Root: os.Getenv("VERIF_CHILD_DIR"), LogToFile: true})
	if err != nil {
		run.Inconclusive("server start: " + err.Error())
		os.Exit(0)
	}
	var wg sync.WaitGroup
	for i := 0; i < a.Scen; i++ {
		wg.Add(1)
		go func(i int) {
			defer wg.Done()
			runScenario(run, srv, a.Index, i, a.Steps)
		}(i)
	}
	for i := 0; i < 3; i++ {
		wg.Add(1)
		go func(i int) {
			defer wg.Done()
			runChain(run, srv, a.Index, i)
		}(i)
	}
	for i := 0; i < 3; i++ {
		wg.Add(1)
		go func(i int) {
			defer wg.Done()
			runUnpresentRace(run, srv, a.Index, i)
		}(i)
	}
	for i := 0; i < 2; i++ {
		wg.Add(1)
		go func(i int) {
			defer wg.Done()
			runSlowAnswer(run, srv, a.Index, i)
		}(i)
	}
	wg.Wait()
	os.Exit(0)
}

func main() {
	if _, ok := vk.InChild(); ok {
		child()
		return
	}
	run := vk.Start("C07")
	batches := run.Pick(3, 24)
	scen := run.Pick(5, 6)
	run.TolerateUndecided(run.Pick(2, 4))
	steps := run.Pick(22, 40)
	first := uint64(0)
	if rep, ok := vk.ReplayInput(); ok {
		m, _ := rep["replay"].(map[string]any)
		if b, ok := m["batch"].(float64); ok {
			first, batches = uint64(b), 1
		}
	}
	var wg sync.WaitGroup
	sem := make(chan struct{}, 4)
	for b := first; b < first+uint64(batches); b++ {
		wg.Add(1)
		sem <- struct{}{}
		go func(b uint64) {
			defer wg.Done()
			defer func() { <-sem }()
			res := run.RunChild("batch", batchArgs{Index: b, Scen: scen, Steps: steps}, 15*time.Minute)
			switch {
			case strings.HasPrefix(res.Crash, "harness-crash:"):
				run.Inconclusive(fmt.Sprintf("batch %d: the harness crashed: %s\n%s", b, res.Crash, res.CrashText))
			case res.Crash != "":
				run.Violation("server-crashed:"+res.Crash, "the server died during a signalling workload: "+res.Crash, map[string]any{"batch": b, "crash": res.CrashText, "last_commands": res.Notes})
			case res.TimedOut:
				run.Inconclusive(fmt.Sprintf("batch %d: watchdog fired", b))
			case res.ExitCode != 0:
				run.Inconclusive(fmt.Sprintf("batch %d: child exited with %d", b, res.ExitCode))
			default:
				run.Count("batches_completed", 1)
			}
		}(b)
	}
	wg.Wait()
	run.FloorCounter("offers_received", 20)
	run.FloorCounter("closes_received", 10)
	run.FloorCounter("held_streams_verified", 30)
	run.FloorCounter("absent_streams_verified", 30)
	run.FloorCounter("streams_published", 8)
	run.FloorCounter("streams_replaced_twice_within_push_delay", 6)
	run.FloorCounter("unpresent_races", 18)
	run.FloorCounter("requests_while_an_offer_is_outstanding", 6)
	run.Assume("quiescence: three ping/pong barrier rounds 130 ms apart without any message (covers galene's 200 ms push delay); watchdog 40 s => inconclusive")
	run.Assume("the publisher sends the first packets of its tracks one track after the other, so the order in which the server learns the tracks ('first'/'last' video track) is known")
	run.Assume("per-stream requests and aborts are modelled as lasting while the down stream exists / until the subscriber's next request, which is when galene pushes streams again")
	run.Finish("exploration", "per scenario 2 groups, 3-6 clients with real PeerConnections; random steps of 1-2 actions (join, request maps over labels {camera, screenshare, video, default} x kinds {audio, video, video-low}, requestStream, publish audio / video / audio+video / audio+two video tracks, close, replace, abort, leave, disconnect, kick, unpresent) each followed by a logical quiescence point at which every (subscriber, stream) pair is compared with the model; distinct_nontrivial = distinct (client count, stream count) among scenarios that ran to the end")
}
