// C18 - group definitions: conditional updates are exclusive, file writes are atomic.
//
// Monitors (see DESIGN.md, section C18):
//
//  1. exclusion / no lost update over HTTP against the real server: K concurrent writers
//     per object (group definition, user) doing GET -> PUT If-Match with a unique id
//     appended; If-None-Match: * creators racing; DELETE with a stale tag.
//  2. precondition parsing: generated If-Match / If-None-Match values against a reference
//     reading of RFC 7232 section 3 restricted to what the property states, over HTTP and
//     directly against the matcher.
//  3. atomic replacement: (a) a plain reader of the group file while writers update it;
//     (b) strace crash / error enumeration of every mutating library call, judged by a
//     fresh process and by a plain reader.
package main

import (
	"fmt"
	"os"
	"runtime"
	"strings"
	"sync"
	"time"

	"verif/harness/vk"
	"verif/harness/vsrv"
)

const prop = "C18"

func init() {
	// the traced child: every syscall of the operation on the main thread
	if os.Getenv("VERIF_CHILD") == "crashop" {
		runtime.LockOSThread()
	}
}

type e2eArgs struct {
	Batch   uint64 `json:"batch"`
	Scen    int    `json:"scenarios"`
	Headers int    `json:"headers"`
	Direct  int    `json:"direct"`
	Only    int    `json:"only"` // -1: all scenarios
}

func e2eChild() {
	run := vk.Start(prop)
	a := e2eArgs{Only: -1}
	vk.ChildArgs(&a)
	srv, err := vsrv.Start(vsrv.Config{Root: os.Getenv("VERIF_CHILD_DIR"), WritableGroups: true, LogToFile: true})
	if err != nil {
		run.Inconclusive("server start: " + err.Error())
		os.Exit(0)
	}
	ap := api{run: run, srv: srv}
	var wg sync.WaitGroup
	sem := make(chan struct{}, 3)
	for i := 0; i < a.Scen; i++ {
		if a.Only >= 0 && i != a.Only {
			continue
		}
		wg.Add(1)
		go func(i int) {
			defer wg.Done()
			sem <- struct{}{}
			defer func() { <-sem }()
			exclusion(ap, a.Batch, i)
			createRace(ap, a.Batch, i)
			staleDelete(ap, a.Batch, i)
			flipHTTP(ap, a.Batch, i)
			preconditions(ap, a.Batch, i, a.Headers)
		}(i)
	}
	wg.Wait()
	etagMatchDirect(ap, a.Batch, a.Direct)
	os.Exit(0)
}

func classify(run *vk.Run, what string, res vk.ChildResult, replay map[string]any) {
	seen := map[string]bool{}
	for _, rep := range res.Races {
		if !rep.InFiles([]string{"/group/description.go", "/webserver/api.go", "/webserver/precondition.go"}) {
			run.Count("race_reports_out_of_scope", 1)
			continue
		}
		k := rep.Key()
		if seen[k] {
			continue
		}
		seen[k] = true
		m := map[string]any{"report": rep.Text}
		for kk, v := range replay {
			m[kk] = v
		}
		run.Violation(k, "data race in the group-definition update path reported by the Go race detector during "+what, m)
	}
	switch {
	case strings.HasPrefix(res.Crash, "harness-crash:"):
		run.Inconclusive(fmt.Sprintf("%s: the harness itself crashed: %s\n%s", what, res.Crash, res.CrashText))
	case res.Crash != "":
		m := map[string]any{"crash": res.CrashText, "last_commands": res.Notes}
		for kk, v := range replay {
			m[kk] = v
		}
		run.Violation("server-crashed:"+res.Crash, "the server died during "+what+": "+res.Crash, m)
	case res.TimedOut:
		run.Inconclusive(what + ": watchdog fired")
	case res.ExitCode != 0:
		run.Inconclusive(fmt.Sprintf("%s: child exited with %d", what, res.ExitCode))
	default:
		run.Count("children_completed", 1)
	}
}

func main() {
	if mode, ok := vk.InChild(); ok {
		switch mode {
		case "descdump":
			descdumpMain()
		case "crashop":
			crashopMain()
		case "e2e":
			e2eChild()
		}
		os.Exit(4)
	}
	run := vk.Start(prop)
	batches := run.Pick(8, 100)
	scen := run.Pick(4, 8)
	headers := run.Pick(150, 400)
	direct := run.Pick(20000, 200000)
	variants := run.Pick(2, 20)

	doE2E, doCrash := true, true
	first := uint64(0)
	only := -1
	crashOp, crashVar := "", 0
	replaying := false
	if rep, ok := vk.ReplayInput(); ok {
		replaying = true
		m, _ := rep["replay"].(map[string]any)
		ph, _ := m["phase"].(string)
		doE2E, doCrash = ph == "e2e", ph == "crash"
		num := func(k string) (uint64, bool) { f, ok := m[k].(float64); return uint64(f), ok }
		if doE2E {
			first, _ = num("batch")
			batches = 1
			if s, ok := num("scenario"); ok {
				only = int(s)
			}
		}
		if doCrash {
			crashOp, _ = m["op"].(string)
			v, _ := num("variant")
			crashVar = int(v)
		}
	}
	if o := os.Getenv("VERIF_C18_ONLY"); o != "" { // development aid: run one part
		doE2E, doCrash = o == "e2e", o == "crash"
		replaying = true
	}

	var wg sync.WaitGroup
	if doCrash {
		wg.Add(1)
		go func() {
			defer wg.Done()
			crashPhase(run, variants, crashOp, crashVar)
		}()
	}
	if doE2E {
		sem := make(chan struct{}, 5)
		for b := first; b < first+uint64(batches); b++ {
			wg.Add(1)
			go func(b uint64) {
				defer wg.Done()
				sem <- struct{}{}
				defer func() { <-sem }()
				res := run.RunChild("e2e", e2eArgs{Batch: b, Scen: scen, Headers: headers, Direct: direct, Only: only}, 10*time.Minute)
				classify(run, "concurrent conditional API writes", res, map[string]any{"phase": "e2e", "batch": b})
			}(b)
		}
	}
	wg.Wait()

	if !replaying {
		run.FloorCounter("acked_appends_verified", 300)
		run.FloorCounter("refused_updates_observed", 100)
		run.FloorCounter("constant_size_chains_verified", int64(batches*scen/2))
		run.FloorCounter("tag_body_pairs_checked", 1000)
		run.FloorCounter("create_races_one_winner", int64(batches*scen))
		run.FloorCounter("stale_deletes_refused", int64(batches*scen))
		run.FloorCounter("current_tag_deletes_accepted", int64(batches*scen))
		run.FloorCounter("duels_won_by_update", 5)
		run.FloorCounter("duels_won_by_delete", 5)
		run.FloorCounter("reads_304_verified", 100)
		run.FloorCounter("reads_200_verified", 100)
		run.FloorCounter("writes_refused_verified", 100)
		run.FloorCounter("writes_refused_412", 50)
		run.FloorCounter("writes_with_current_tag_accepted", 100)
		run.FloorCounter("inm_star_existing_refused", 20)
		run.FloorCounter("if_match_star_nonexistent_refused", 20)
		run.FloorCounter("matcher_positive_verified", 1000)
		run.FloorCounter("matcher_negative_verified", 1000)
		run.FloorCounter("reader_reads", 1000)
		run.FloorCounter("reader_distinct_versions_verified", 100)
		run.FloorCounter("crash_points_hit", int64(run.Pick(100, 1000)))
		run.FloorCounter("error_injections_applied", int64(run.Pick(150, 1500)))
		run.FloorCounter("crash_left_old", 50)
		run.FloorCounter("crash_left_new", 1)
		run.FloorCounter("errors_reported_and_unchanged", 50)
	}
	run.Assume("power-loss durability (loss of the page cache, reordering of data and metadata writes) is out of reach: a killed process leaves everything its completed syscalls did; crash points are the entries of the file-system syscalls of the operation on its (single) thread")
	run.Assume("successive versions of a group file differ in size by construction (every acknowledged write appends an id or lengthens a password / key id), which is the property's own precondition for tags to tell versions apart; modification-time granularity is therefore irrelevant")
	run.Assume("the restart observer is this binary re-executed calling group.GetDescription on the same directory; the reader observer is os.ReadFile + json.Unmarshal; NEW is what the uninterrupted operation wrote, accepted only if it equals the definition the harness computed from the operation's arguments")
	run.Assume("precondition clauses asserted are the clear cases only: current strong tag in a well-formed list or '*' on an existing object => 304 on reads; values that cannot denote the current tag => no 304 on reads and no acknowledged write; '*' on a non-existent object never satisfies If-Match; If-None-Match: * never lets a write to an existing object through.  Weak tags carrying the current opaque text are not generated in asserted classes")
	run.Finish("fault_enumeration", "part 1: per scenario 2-10 concurrent GET->PUT If-Match writers on one group file (definition comment and one user's permission array), optional unconditional password/key writers, checked for exactly-once presence of acknowledged ids, absence of refused ids, one acknowledged write per tag value, order vs acknowledgements; If-None-Match:* creator races; stale-tag DELETE; part 2: header values generated from a structured list (9 separator styles, weak / empty / near-miss / long lists, '*', malformed) over HTTP and directly against the matcher; part 3: a plain reader during part 1, and for 11 operation shapes x variants SIGKILL on entry to each file-system syscall of the operation and EIO/ENOSPC on each.  distinct_nontrivial = distinct (operation, syscall, ordinal) crash points hit + distinct (operation, syscall, ordinal, errno) injections applied + distinct writer-count shapes with both acknowledged and refused writes + distinct (header class, object) pairs")
}
