package main

import (
	"encoding/json"
	"fmt"
	"net/http"
	"os"
	"reflect"
	"strings"
	"sync"
	"sync/atomic"
	"time"

	"verif/harness/vclient"
	"verif/harness/vk"
	"verif/harness/vsrv"
)

const apiRoot = "/galene-api/v0/.groups/"

type api struct {
	run *vk.Run
	srv *vsrv.Server
}

func (a api) do(method, path string, hdr map[string]string, body []byte) (int, http.Header, []byte, error) {
	h := a.srv.AdminAuth()
	for k, v := range hdr {
		h[k] = v
	}
	if body != nil {
		if _, ok := h["Content-Type"]; !ok {
			h["Content-Type"] = "application/json"
		}
	}
	return a.srv.Do(method, path, h, body)
}

func ok2xx(st int) bool { return st/100 == 2 }

// ---- exclusion / no lost update -----------------------------------------------------------

type attempt struct {
	ID     string `json:"id"`
	Obj    string `json:"obj"` // "group" or "user"
	Tag    string `json:"tag"`
	Status int    `json:"status"`
	Before int64  `json:"before"`
	After  int64  `json:"after"`
	Acked  bool   `json:"acked"`
}

type versions struct {
	mu sync.Mutex
	m  map[string]map[string]bool // field -> canonical JSON of every value written
}

func (v *versions) add(field string, val any) {
	b, _ := json.Marshal(val)
	v.mu.Lock()
	if v.m[field] == nil {
		v.m[field] = map[string]bool{}
	}
	v.m[field][string(b)] = true
	v.mu.Unlock()
}

func (v *versions) has(field string, val any) bool {
	b, _ := json.Marshal(val)
	v.mu.Lock()
	defer v.mu.Unlock()
	return v.m[field][string(b)]
}

// exclusion: K concurrent writers per object on ONE group file (group definition and one
// of its users), unconditional password / key writers as extra contention, and a plain
// reader of the file.
func exclusion(a api, batch uint64, idx int) {
	run := a.run
	r := run.Rand(1, batch, uint64(idx))
	g := fmt.Sprintf("x%d-%d", batch, idx)
	KG, KU := 1+r.IntN(5), 1+r.IntN(5)
	if KG+KU < 3 {
		KG++
	}
	A := 6 + r.IntN(10)
	noise := r.IntN(3) != 0
	replay := map[string]any{"phase": "e2e", "batch": batch, "scenario": idx, "part": "exclusion", "group_writers": KG, "user_writers": KU, "noise": noise}
	bad := false
	var failMu sync.Mutex
	reported := map[string]int{}
	fail := func(key, what string) {
		failMu.Lock()
		defer failMu.Unlock()
		bad = true
		reported[key]++
		if reported[key] <= 2 {
			run.Violation(key, what, replay)
		}
	}
	initial := map[string]any{
		"comment":     "c0",
		"displayName": "Group " + g,
		"max-clients": float64(9),
		"users": map[string]any{
			"keeper": map[string]any{"password": "keep-pw-" + g, "permissions": "op"},
			"target": map[string]any{"password": "t-pw", "permissions": []any{"present"}},
			"pwuser": map[string]any{"password": "p", "permissions": "present"},
		},
	}
	if err := a.srv.WriteGroup(g, initial); err != nil {
		run.Inconclusive("cannot write the group: " + err.Error())
		return
	}
	vs := &versions{m: map[string]map[string]bool{}}
	vs.add("comment", "c0")
	vs.add("perms", []any{"present"})
	vs.add("password", "p")
	vs.add("keys", nil)
	var clock atomic.Int64
	var mu sync.Mutex
	var recs []attempt
	var wg, rwg sync.WaitGroup
	var stop atomic.Bool
	start := make(chan struct{})
	gpath, upath := apiRoot+g, apiRoot+g+"/.users/target"
	// a version tag names ONE version: the same tag is never served with two different bodies
	// (all versions of this scenario differ in size, so their tags must differ)
	var tbMu sync.Mutex
	tagBody := map[string]string{}
	pairs := 0
	seeTag := func(obj, tag string, body []byte) {
		if tag == "" {
			return
		}
		tbMu.Lock()
		defer tbMu.Unlock()
		pairs++
		k := obj + " " + tag
		if old, ok := tagBody[k]; ok && old != string(body) {
			fail("tag-served-with-two-bodies", fmt.Sprintf("GET of the %s returned tag %s once with %s and once with %s", obj, tag, tail(old, 120), tail(string(body), 120)))
			return
		}
		tagBody[k] = string(body)
	}
	for p := 0; p < 4; p++ {
		rwg.Add(1)
		go func(p int) {
			defer rwg.Done()
			<-start
			for !stop.Load() {
				obj, path := "group", gpath
				if p%2 == 1 {
					obj, path = "user", upath
				}
				if st, hd, body, err := a.do("GET", path, nil, nil); err == nil && st == 200 {
					seeTag(obj, hd.Get("ETag"), body)
				}
			}
		}(p)
	}

	writer := func(obj string, k int) {
		defer wg.Done()
		<-start
		for n := 0; n < A; n++ {
			path := gpath
			if obj == "user" {
				path = upath
			}
			st, hd, body, err := a.do("GET", path, nil, nil)
			if err != nil {
				continue
			}
			if st != 200 {
				fail("reader-saw-partial", fmt.Sprintf("the running server answered %d to a GET of the %s while it was being updated: %s", st, obj, strings.TrimSpace(string(body))))
				continue
			}
			seeTag(obj, hd.Get("ETag"), body)
			var cur map[string]any
			if json.Unmarshal(body, &cur) != nil {
				continue
			}
			id := fmt.Sprintf("%s%d-%d", obj[:1], k, n)
			if obj == "group" {
				c, _ := cur["comment"].(string)
				cur["comment"] = c + " " + id
				vs.add("comment", cur["comment"])
			} else {
				ps, _ := cur["permissions"].([]any)
				cur["permissions"] = append(ps, id)
				vs.add("perms", cur["permissions"])
			}
			nb, _ := json.Marshal(cur)
			rec := attempt{ID: id, Obj: obj, Tag: hd.Get("ETag")}
			run.Note(fmt.Sprintf("%s: PUT %s %s If-Match %s", g, obj, id, rec.Tag))
			rec.Before = clock.Add(1)
			st, _, _, err = a.do("PUT", path, map[string]string{"If-Match": rec.Tag}, nb)
			rec.After = clock.Add(1)
			if err != nil {
				continue // outcome unknown: not judged
			}
			rec.Status, rec.Acked = st, ok2xx(st)
			mu.Lock()
			recs = append(recs, rec)
			mu.Unlock()
		}
	}
	for k := 0; k < KG; k++ {
		wg.Add(1)
		go writer("group", k)
	}
	for k := 0; k < KU; k++ {
		wg.Add(1)
		go writer("user", k)
	}
	if noise {
		// unconditional writers: every write lengthens the file too
		wg.Add(1)
		go func() {
			defer wg.Done()
			<-start
			for n := 0; n < A; n++ {
				if n%2 == 0 {
					pw := "p" + strings.Repeat("w", n+1)
					vs.add("password", pw)
					b, _ := json.Marshal(pw)
					if st, _, _, err := a.do("PUT", apiRoot+g+"/.users/pwuser/.password", nil, b); err == nil && ok2xx(st) {
						run.Count("password_writes", 1)
					}
				} else {
					keys := []any{map[string]any{"kty": "oct", "alg": "HS256", "k": "MDEyMzQ1Njc4OWFiY2RlZjAxMjM0NTY3ODlhYmNkZWY", "kid": "k" + strings.Repeat("x", n)}}
					vs.add("keys", keys)
					b, _ := json.Marshal(map[string]any{"keys": keys})
					if st, _, _, err := a.do("PUT", apiRoot+g+"/.keys", map[string]string{"Content-Type": "application/jwk-set+json"}, b); err == nil && ok2xx(st) {
						run.Count("key_writes", 1)
					}
				}
			}
		}()
	}
	// the plain reader
	seen := map[string]bool{}
	reads := 0
	rwg.Add(1)
	go func() {
		defer rwg.Done()
		file := a.srv.GroupFile(g)
		<-start
		for !stop.Load() {
			b, err := os.ReadFile(file)
			reads++
			if err != nil {
				seen["\x00error: "+err.Error()] = true
				continue
			}
			if len(seen) < 4000 {
				seen[string(b)] = true
			}
		}
	}()
	close(start)
	wg.Wait()
	stop.Store(true)
	rwg.Wait()

	// final state, read by the harness itself
	fin, present, rerr := rawRead(a.srv.GroupFile(g))
	if rerr != nil || !present {
		fail("reader-saw-partial", fmt.Sprintf("the group file cannot be decoded at the end: %v", rerr))
		return
	}
	comment, _ := fin["comment"].(string)
	var perms []any
	if us, ok := fin["users"].(map[string]any); ok {
		if t, ok := us["target"].(map[string]any); ok {
			perms, _ = t["permissions"].([]any)
		}
	}
	count := map[string]int{}
	var order []string
	words := strings.Fields(comment)
	for _, w := range words[min(1, len(words)):] {
		count[w]++
		order = append(order, w)
	}
	var uorder []string
	for _, p := range perms[min(1, len(perms)):] {
		s, _ := p.(string)
		count[s]++
		uorder = append(uorder, s)
	}
	perTag := map[string]string{}
	byID := map[string]attempt{}
	acked, refused := 0, 0
	for _, rc := range recs {
		byID[rc.ID] = rc
		if rc.Acked {
			if other, dup := perTag[rc.Tag]; dup {
				fail("two-writers-same-tag", fmt.Sprintf("the writes %s and %s, both conditioned on tag %s, were both acknowledged", other, rc.ID, rc.Tag))
			}
			perTag[rc.Tag] = rc.ID
			switch count[rc.ID] {
			case 1:
				acked++
			case 0:
				fail("acknowledged-update-lost", fmt.Sprintf("the %s update appending %s was acknowledged (%d, tag %s) but the id is not in the final value", rc.Obj, rc.ID, rc.Status, rc.Tag))
			default:
				fail("acknowledged-update-lost", fmt.Sprintf("%s, appended once, occurs %d times in the final value", rc.ID, count[rc.ID]))
			}
		} else {
			refused++
			run.Count(fmt.Sprintf("refused_status_%d", rc.Status), 1)
			if count[rc.ID] > 0 {
				fail("refused-update-present", fmt.Sprintf("the %s update appending %s was refused (%d) but the id is in the final value", rc.Obj, rc.ID, rc.Status))
			}
		}
	}
	// order of the final value vs. real-time order of acknowledgements
	for _, l := range [][]string{order, uorder} {
		var maxBefore int64 = -1
		maxID := ""
		for _, id := range l {
			rc, ok := byID[id]
			if !ok || !rc.Acked {
				continue
			}
			if rc.After < maxBefore {
				fail("acknowledged-update-lost", fmt.Sprintf("the final value places %s before %s although the update of %s was acknowledged before that of %s was submitted: the later writer did not build on the earlier one", maxID, id, id, maxID))
				break
			}
			if rc.Before > maxBefore {
				maxBefore, maxID = rc.Before, id
			}
		}
	}
	run.Eval(int64(len(recs)))
	run.Count("acked_appends_verified", int64(acked))
	run.Count("refused_updates_observed", int64(refused))
	run.Count("tag_body_pairs_checked", int64(pairs))

	// what the reader saw
	rest := func(m map[string]any) map[string]any {
		c := clone(m)
		delete(c, "comment")
		delete(c, "authKeys")
		if us, ok := c["users"].(map[string]any); ok {
			if t, ok := us["target"].(map[string]any); ok {
				delete(t, "permissions")
			}
			if t, ok := us["pwuser"].(map[string]any); ok {
				delete(t, "password")
			}
		}
		return c
	}
	want := rest(initial)
	complete := 0
	for content := range seen {
		if strings.HasPrefix(content, "\x00error: ") {
			fail("reader-saw-partial", "a reader of the group file got "+content[1:])
			continue
		}
		var m map[string]any
		if err := json.Unmarshal([]byte(content), &m); err != nil {
			fail("reader-saw-partial", fmt.Sprintf("a reader of the group file got %d bytes that do not decode (%v): %q", len(content), err, tail(content, 80)))
			continue
		}
		var tp, pw any
		if us, ok := m["users"].(map[string]any); ok {
			if t, ok := us["target"].(map[string]any); ok {
				tp = t["permissions"]
			}
			if t, ok := us["pwuser"].(map[string]any); ok {
				pw = t["password"]
			}
		}
		switch {
		case !reflect.DeepEqual(rest(m), want):
			fail("reader-saw-unknown-version", fmt.Sprintf("a reader saw a definition whose untouched members differ from the original: %s", tail(content, 300)))
		case !vs.has("comment", m["comment"]):
			fail("reader-saw-unknown-version", fmt.Sprintf("a reader saw comment %q, which nobody wrote", m["comment"]))
		case !vs.has("perms", tp):
			fail("reader-saw-unknown-version", fmt.Sprintf("a reader saw permissions %v of the user, which nobody wrote", tp))
		case !vs.has("password", pw):
			fail("reader-saw-unknown-version", fmt.Sprintf("a reader saw a password nobody wrote"))
		case !vs.has("keys", m["authKeys"]):
			fail("reader-saw-unknown-version", fmt.Sprintf("a reader saw keys nobody wrote: %v", m["authKeys"]))
		default:
			complete++
		}
	}
	run.Count("reader_reads", int64(reads))
	run.Count("reader_distinct_versions_verified", int64(complete))
	if !bad && acked > 0 && refused > 0 {
		run.Distinct(fmt.Sprintf("exclusion KG=%d KU=%d noise=%v", KG, KU, noise))
	}
	if batch == 0 && idx == 0 {
		run.Sample(map[string]any{"group": g, "group_writers": KG, "user_writers": KU, "first_attempts": recs[:min(len(recs), 10)], "final_comment": tail(comment, 200)})
	}
}

// ---- If-None-Match: * creators --------------------------------------------------------------

func createRace(a api, batch uint64, idx int) {
	run := a.run
	r := run.Rand(2, batch, uint64(idx))
	K := 2 + r.IntN(7)
	g := fmt.Sprintf("n%d-%d", batch, idx)
	replay := map[string]any{"phase": "e2e", "batch": batch, "scenario": idx, "part": "create-race", "racers": K}
	race := func(obj, path string, body func(k int) map[string]any, read func(map[string]any) any) {
		var wg sync.WaitGroup
		start := make(chan struct{})
		status := make([]int, K)
		for k := 0; k < K; k++ {
			wg.Add(1)
			go func(k int) {
				defer wg.Done()
				b, _ := json.Marshal(body(k))
				<-start
				st, _, _, err := a.do("PUT", path, map[string]string{"If-None-Match": "*"}, b)
				if err != nil {
					st = -1
				}
				status[k] = st
			}(k)
		}
		close(start)
		wg.Wait()
		run.Eval(int64(K))
		var winners []int
		for k, st := range status {
			if st == -1 {
				run.Inconclusive("create race: a request failed in transport")
				return
			}
			if ok2xx(st) {
				winners = append(winners, k)
			} else {
				run.Count(fmt.Sprintf("create_refused_status_%d", st), 1)
			}
		}
		switch {
		case len(winners) > 1:
			run.Violation("create-race-two-winners", fmt.Sprintf("%d creators of the same %s with If-None-Match: * were all acknowledged (statuses %v)", len(winners), obj, status), replay)
			return
		case len(winners) == 0:
			run.Violation("create-race-no-winner", fmt.Sprintf("none of %d creators of a %s that did not exist succeeded with If-None-Match: * (statuses %v)", K, obj, status), replay)
			return
		}
		st, _, b, err := a.do("GET", path, nil, nil)
		var m map[string]any
		if err != nil || st != 200 || json.Unmarshal(b, &m) != nil {
			run.Violation("acknowledged-update-lost", fmt.Sprintf("the %s whose creation was acknowledged cannot be read (%d)", obj, st), replay)
			return
		}
		if got, want := read(m), read(body(winners[0])); !reflect.DeepEqual(got, want) {
			run.Violation("acknowledged-update-lost", fmt.Sprintf("the %s holds %v, the only acknowledged creator wrote %v", obj, got, want), replay)
			return
		}
		run.Count("create_races_one_winner", 1)
		run.Distinct(fmt.Sprintf("create-race %s K=%d", obj, K))
	}
	race("group", apiRoot+g, func(k int) map[string]any {
		return map[string]any{"comment": fmt.Sprintf("creator-%d", k), "displayName": strings.Repeat("d", k+1)}
	}, func(m map[string]any) any { return m["comment"] })
	race("user", apiRoot+g+"/.users/newcomer", func(k int) map[string]any {
		return map[string]any{"permissions": []any{"present", fmt.Sprintf("creator-%d", k)}}
	}, func(m map[string]any) any { return m["permissions"] })
}

// ---- DELETE with a stale tag ------------------------------------------------------------------

func staleDelete(a api, batch uint64, idx int) {
	run := a.run
	g := fmt.Sprintf("d%d-%d", batch, idx)
	replay := map[string]any{"phase": "e2e", "batch": batch, "scenario": idx, "part": "stale-delete"}
	a.srv.WriteGroup(g, map[string]any{"comment": "c0", "users": map[string]any{
		"victim": map[string]any{"password": "v", "permissions": []any{"present"}},
		"other":  map[string]any{"password": "o", "permissions": "op"}}})
	one := func(obj, path string, edit func(map[string]any)) {
		st, hd, b, err := a.do("GET", path, nil, nil)
		var m map[string]any
		if err != nil || st != 200 || json.Unmarshal(b, &m) != nil {
			run.Inconclusive(fmt.Sprintf("stale delete: cannot read the %s (%d)", obj, st))
			return
		}
		t0 := hd.Get("ETag")
		edit(m)
		nb, _ := json.Marshal(m)
		if st, _, _, _ := a.do("PUT", path, map[string]string{"If-Match": t0}, nb); !ok2xx(st) {
			run.Inconclusive(fmt.Sprintf("stale delete: the preparatory update was refused (%d)", st))
			return
		}
		run.Eval(1)
		st, _, _, _ = a.do("DELETE", path, map[string]string{"If-Match": t0}, nil)
		st2, hd2, _, _ := a.do("GET", path, nil, nil)
		if ok2xx(st) || st2 != 200 {
			run.Violation("stale-delete-accepted", fmt.Sprintf("DELETE of a %s conditioned on a tag that predates an acknowledged update answered %d; the object then answers %d", obj, st, st2), replay)
			return
		}
		run.Count("stale_deletes_refused", 1)
		st, _, _, _ = a.do("DELETE", path, map[string]string{"If-Match": hd2.Get("ETag")}, nil)
		st2, _, _, _ = a.do("GET", path, nil, nil)
		if ok2xx(st) && st2 == 404 {
			run.Count("current_tag_deletes_accepted", 1)
		}
	}
	one("user", apiRoot+g+"/.users/victim", func(m map[string]any) {
		ps, _ := m["permissions"].([]any)
		m["permissions"] = append(ps, "edited")
	})
	one("group", apiRoot+g, func(m map[string]any) { m["comment"] = "c0 edited" })

	// a DELETE and a PUT holding the same tag, released together: at most one succeeds
	duel := func(obj, path string, create func(round int), edit func(map[string]any)) {
		for round := 0; round < 8; round++ {
			create(round)
			st, hd, b, err := a.do("GET", path, nil, nil)
			var m map[string]any
			if err != nil || st != 200 || json.Unmarshal(b, &m) != nil {
				run.Inconclusive(fmt.Sprintf("delete/update duel: cannot read the %s (%d)", obj, st))
				return
			}
			tag := hd.Get("ETag")
			edit(m)
			nb, _ := json.Marshal(m)
			var wg sync.WaitGroup
			var stPut, stDel int
			start := make(chan struct{})
			wg.Add(2)
			go func() {
				defer wg.Done()
				<-start
				stPut, _, _, _ = a.do("PUT", path, map[string]string{"If-Match": tag}, nb)
			}()
			go func() {
				defer wg.Done()
				<-start
				stDel, _, _, _ = a.do("DELETE", path, map[string]string{"If-Match": tag}, nil)
			}()
			close(start)
			wg.Wait()
			run.Eval(2)
			switch {
			case ok2xx(stPut) && ok2xx(stDel):
				run.Violation("two-writers-same-tag", fmt.Sprintf("a PUT (%d) and a DELETE (%d) of the same %s, both conditioned on tag %s, were both acknowledged", stPut, stDel, obj, tag), replay)
				return
			case ok2xx(stPut):
				run.Count("duels_won_by_update", 1)
			case ok2xx(stDel):
				run.Count("duels_won_by_delete", 1)
			}
		}
	}
	dg := g + "-duel"
	duel("group", apiRoot+dg, func(round int) {
		a.srv.WriteGroup(dg, map[string]any{"comment": "duel" + strings.Repeat("!", round)})
	}, func(m map[string]any) { m["comment"] = fmt.Sprint(m["comment"], " edited") })
	ug := g + "-duel2"
	a.srv.WriteGroup(ug, map[string]any{"comment": "c0", "users": map[string]any{"other": map[string]any{"password": "o", "permissions": "op"}}})
	duel("user", apiRoot+ug+"/.users/duellist", func(round int) {
		a.do("PUT", apiRoot+ug+"/.users/duellist", nil, []byte(fmt.Sprintf(`{"permissions":["present","r%s"]}`, strings.Repeat("!", round))))
	}, func(m map[string]any) {
		ps, _ := m["permissions"].([]any)
		m["permissions"] = append(ps, "edited")
	})
}

// ---- versions that differ in modification time only ------------------------------------------

// flipHTTP: K writers GET the group (body + tag) and PUT it back If-Match with the comment
// replaced by a unique value of the SAME width, so that all versions of the file have the
// same size and differ in modification time only (within the property's scope: "versions
// differing in size or modification time").  A version is only replaced when it is at
// least 25 ms old and the file did not change around the GET (new inodes are stamped from
// the kernel's coarse clock); a case in which a new version nevertheless shows the stamp
// of its predecessor is discarded.  Oracle: the acknowledged updates form one chain from
// the initial comment to the final one.
func flipHTTP(a api, batch uint64, idx int) {
	run := a.run
	r := run.Rand(7, batch, uint64(idx))
	g := fmt.Sprintf("f%d-%d", batch, idx)
	K := 2 + r.IntN(5)
	A := 8 + r.IntN(16)
	replay := map[string]any{"phase": "e2e", "batch": batch, "scenario": idx, "part": "constant-size", "writers": K}
	initial := "init-0000"
	if err := a.srv.WriteGroup(g, map[string]any{"comment": initial, "users": map[string]any{"keeper": map[string]any{"password": "k", "permissions": "op"}}}); err != nil {
		run.Inconclusive("cannot write the group: " + err.Error())
		return
	}
	// the group is LIVE in the server (a member is in it), so that the server works from its
	// cached copy of the definition and has to notice every rewrite
	if idx%2 == 0 {
		// (first let the server write the file itself once, so that the cached copy has the
		// size every later version will have)
		if st, hd, body, err := a.do("GET", apiRoot+g, nil, nil); err == nil && st == 200 {
			a.do("PUT", apiRoot+g, map[string]string{"If-Match": hd.Get("ETag")}, body)
		}
		if c, err := vclient.Dial(a.srv, fmt.Sprintf("flipmember-%d-%d", batch, idx)); err == nil {
			defer c.Close()
			if m, ok := c.Join(g, "keeper", "k"); ok && m.Str("kind") == "join" {
				run.Count("constant_size_cases_on_a_live_group", 1)
			}
		}
	}
	file := a.srv.GroupFile(g)
	type stamp struct{ ns, size int64 }
	stat := func() (stamp, bool) {
		fi, err := os.Stat(file)
		if err != nil {
			return stamp{}, false
		}
		return stamp{fi.ModTime().UnixNano(), fi.Size()}, true
	}
	type rec struct {
		read, wrote string
		acked       bool
	}
	var mu sync.Mutex
	var recs []rec
	var tooCoarse atomic.Bool
	var stale atomic.Value
	var wg sync.WaitGroup
	start := make(chan struct{})
	path := apiRoot + g
	for k := 0; k < K; k++ {
		wg.Add(1)
		go func(k int) {
			defer wg.Done()
			<-start
			for n := 0; n < A; n++ {
				s1, ok1 := stat()
				st, hd, body, err := a.do("GET", path, nil, nil)
				s2, ok2 := stat()
				if err != nil || st != 200 || !ok1 || !ok2 || s1 != s2 {
					continue
				}
				var cur map[string]any
				if json.Unmarshal(body, &cur) != nil {
					continue
				}
				read, _ := cur["comment"].(string)
				id := fmt.Sprintf("w%02d-%05d", k, n)
				cur["comment"] = id
				nb, _ := json.Marshal(cur)
				for time.Since(time.Unix(0, s2.ns)) < 25*time.Millisecond {
					time.Sleep(time.Millisecond)
				}
				run.Note(fmt.Sprintf("%s: PUT comment %s If-Match %s (read %s)", g, id, hd.Get("ETag"), read))
				st, _, _, err = a.do("PUT", path, map[string]string{"If-Match": hd.Get("ETag")}, nb)
				if err != nil {
					// outcome unknown: the chain cannot be judged
					tooCoarse.Store(true)
					continue
				}
				if s3, ok3 := stat(); ok2xx(st) && ok3 && s3 == s2 {
					tooCoarse.Store(true)
				}
				if ok2xx(st) {
					// read your write: the value this writer replaced was unique and is gone
					// for good; a GET after the acknowledgement must not bring it back
					if st2, _, b2, err2 := a.do("GET", path, nil, nil); err2 == nil && st2 == 200 {
						var after map[string]any
						if json.Unmarshal(b2, &after) == nil {
							if got, _ := after["comment"].(string); got == read {
								stale.Store(fmt.Sprintf("the PUT replacing comment %q by %q was acknowledged (%d); a GET afterwards still returns %q", read, id, st, got))
							} else {
								run.Count("reads_after_acknowledged_writes_fresh", 1)
							}
						}
					}
				}
				mu.Lock()
				recs = append(recs, rec{read, id, ok2xx(st)})
				mu.Unlock()
			}
		}(k)
	}
	close(start)
	wg.Wait()
	run.Eval(int64(len(recs)))
	if tooCoarse.Load() {
		run.Count("constant_size_cases_discarded", 1)
		return
	}
	if w, _ := stale.Load().(string); w != "" {
		run.Violation("stale-definition-served-after-acknowledged-write:constant-size", w+" (the versions have the same size and differ in modification time only)", replay)
		return
	}
	fin, present, rerr := rawRead(file)
	if rerr != nil || !present {
		run.Violation("reader-saw-partial", fmt.Sprintf("the group file cannot be decoded at the end: %v", rerr), replay)
		return
	}
	final, _ := fin["comment"].(string)
	next := map[string]string{}
	acked, refused := 0, 0
	for _, rc := range recs {
		if !rc.acked {
			refused++
			continue
		}
		acked++
		if o, dup := next[rc.read]; dup {
			run.Violation("two-writers-same-tag:constant-size", fmt.Sprintf("two PUT If-Match that had both read version %q were acknowledged (%s and %s); the versions of the file have the same size and differ in modification time only; the second silently overwrote the first", rc.read, o, rc.wrote), replay)
			return
		}
		next[rc.read] = rc.wrote
	}
	cur, steps := initial, 0
	for steps <= len(recs) {
		n, ok := next[cur]
		if !ok {
			break
		}
		cur = n
		steps++
	}
	if steps != acked || cur != final {
		run.Violation("acknowledged-update-lost:constant-size", fmt.Sprintf("%d conditional PUTs were acknowledged, but the chain of versions from %q reaches %q after %d steps and the file finally holds %q", acked, initial, cur, steps, final), replay)
		return
	}
	run.Count("constant_size_chains_verified", 1)
	run.Count("constant_size_acked_updates", int64(acked))
	run.Count("constant_size_refused_updates", int64(refused))
	if acked > 1 && refused > 0 {
		run.Distinct(fmt.Sprintf("constant-size K=%d", K))
	}
}
