package main

import (
	"bytes"
	"encoding/json"
	"errors"
	"fmt"
	"os"
	"os/exec"
	"path/filepath"
	"reflect"
	"sort"
	"strings"
	"sync"
	"time"

	"github.com/jech/galene/group"

	"verif/harness/vfs"
	"verif/harness/vk"
)

// Atomic replacement, part (b): crash enumeration.  A traced child pinned to its main
// thread calls ONE of galene's mutating library functions on a prepared groups directory;
// strace kills it on entry to every file-system syscall of the operation (and makes every
// one fail with EIO / ENOSPC).  Afterwards a fresh process ("descdump": group.
// GetDescription) and a plain reader (os.ReadFile + json.Unmarshal) must both see exactly
// the old or exactly the new definition.

type opArgs struct {
	Dir      string           `json:"dir"`  // group.Directory
	Data     string           `json:"data"` // group.DataDirectory
	Op       string           `json:"op"`
	Group    string           `json:"group"`
	User     string           `json:"user,omitempty"`
	Wildcard bool             `json:"wildcard,omitempty"`
	Desc     json.RawMessage  `json:"desc,omitempty"`     // sanitised description (UpdateDescription)
	UserDesc json.RawMessage  `json:"userdesc,omitempty"` // sanitised user (UpdateUser)
	Password json.RawMessage  `json:"password,omitempty"` // SetUserPassword
	Keys     []map[string]any `json:"keys,omitempty"`     // SetKeys (nil => delete)
}

// descView is what a process says about one group definition.
type descView struct {
	Exists bool            `json:"exists"`
	Err    string          `json:"err,omitempty"` // any error other than "does not exist"
	Desc   json.RawMessage `json:"desc,omitempty"`
	// Names: the groups a (re)started server finds in its groups directory
	Names []string `json:"names,omitempty"`
}

func takeDescView(name string) descView {
	d, err := group.GetDescription(name)
	switch {
	case err == nil:
		b, merr := json.Marshal(d)
		if merr != nil {
			return descView{Err: "marshal: " + merr.Error()}
		}
		return descView{Exists: true, Desc: canonJSON(b)}
	case errors.Is(err, os.ErrNotExist):
		return descView{}
	default:
		return descView{Err: err.Error()}
	}
}

// canonJSON re-encodes through a generic value: keys sorted, no insignificant space.
func canonJSON(b []byte) []byte {
	var v any
	if json.Unmarshal(b, &v) != nil {
		return b
	}
	out, _ := json.Marshal(v)
	return out
}

func (v descView) canon() string {
	v.Names = nil // the directory listing is judged separately
	b, _ := json.Marshal(v)
	return string(b)
}

type dumpArgs struct {
	Dir   string `json:"dir"`
	Data  string `json:"data"`
	Group string `json:"group"`
}

func descdumpMain() {
	var a dumpArgs
	if json.Unmarshal([]byte(os.Getenv("VERIF_CHILD_ARGS")), &a) != nil {
		os.Exit(4)
	}
	group.Directory, group.DataDirectory = a.Dir, a.Data
	v := takeDescView(a.Group)
	v.Names, _ = group.GetDescriptionNames()
	sort.Strings(v.Names)
	b, _ := json.Marshal(v)
	os.Stdout.Write(b)
	os.Exit(0)
}

type opOut struct {
	OK   bool     `json:"ok"`
	Err  string   `json:"err,omitempty"`
	View descView `json:"view"`
}

func crashopMain() {
	var a opArgs
	if json.Unmarshal([]byte(os.Getenv("VERIF_CHILD_ARGS")), &a) != nil {
		os.Exit(4)
	}
	group.Directory, group.DataDirectory = a.Dir, a.Data
	etag := ""
	var err error
	switch a.Op {
	case "desc-edit", "desc-delete":
		etag, err = group.GetDescriptionTag(a.Group)
	case "user-edit", "user-delete":
		etag, err = group.GetUserTag(a.Group, a.User, a.Wildcard)
	}
	if err != nil {
		fmt.Fprintln(os.Stderr, "crashop: cannot read the tag:", err)
		os.Exit(5)
	}
	var desc group.Description
	var user group.UserDescription
	var pw group.Password
	if a.Desc != nil && json.Unmarshal(a.Desc, &desc) != nil {
		os.Exit(4)
	}
	if a.UserDesc != nil && json.Unmarshal(a.UserDesc, &user) != nil {
		os.Exit(4)
	}
	if a.Password != nil && json.Unmarshal(a.Password, &pw) != nil {
		os.Exit(4)
	}
	vfs.Mark(vfs.MarkBegin)
	switch a.Op {
	case "desc-create", "desc-edit":
		err = group.UpdateDescription(a.Group, etag, &desc)
	case "desc-delete":
		err = group.DeleteDescription(a.Group, etag)
	case "user-create", "user-edit":
		err = group.UpdateUser(a.Group, a.User, a.Wildcard, etag, &user)
	case "user-delete":
		err = group.DeleteUser(a.Group, a.User, a.Wildcard, etag)
	case "password":
		err = group.SetUserPassword(a.Group, a.User, a.Wildcard, pw)
	case "keys":
		err = group.SetKeys(a.Group, a.Keys)
	default:
		os.Exit(4)
	}
	vfs.Mark(vfs.MarkEnd)
	out := opOut{OK: err == nil, View: takeDescView(a.Group)}
	if err != nil {
		out.Err = err.Error()
	}
	b, _ := json.Marshal(out)
	os.Stdout.Write(b)
	if err != nil {
		os.Exit(3)
	}
	os.Exit(0)
}

// childEnv: environment of a short-lived helper (a race-instrumented binary would
// otherwise sleep one second at exit).
func childEnv(mode, args string) []string {
	gorace := strings.TrimSpace(os.Getenv("GORACE") + " atexit_sleep_ms=0")
	return append(os.Environ(), "VERIF_CHILD="+mode, "VERIF_CHILD_ARGS="+args, "VERIF_CHILD_OUT=", "VERIF_RACE_CHILD=1", "GORACE="+gorace)
}

func tail(s string, n int) string {
	if len(s) > n {
		return s[len(s)-n:]
	}
	return s
}

func freshDesc(dir, data, name string) (descView, error) {
	var v descView
	ab, _ := json.Marshal(dumpArgs{Dir: dir, Data: data, Group: name})
	cmd := exec.Command(os.Args[0])
	cmd.Env = childEnv("descdump", string(ab))
	var so, se bytes.Buffer
	cmd.Stdout, cmd.Stderr = &so, &se
	if err := cmd.Run(); err != nil {
		return v, fmt.Errorf("descdump: %v: %s", err, tail(se.String(), 300))
	}
	if err := json.Unmarshal(so.Bytes(), &v); err != nil {
		return v, fmt.Errorf("descdump output: %v", err)
	}
	return v, nil
}

// ---- cases ------------------------------------------------------------------------------

type gcase struct {
	Op      string
	Variant int
	Group   string
	Old     map[string]any // nil: the group does not exist
	New     map[string]any // nil: the group does not exist afterwards
	Args    opArgs
	NoDir   bool // the group lives in a sub-directory that does not exist yet
}

func (c *gcase) id() string { return fmt.Sprintf("%s-v%d", c.Op, c.Variant) }

func clone(m map[string]any) map[string]any {
	b, _ := json.Marshal(m)
	var out map[string]any
	json.Unmarshal(b, &out)
	return out
}

func jsonOf(v any) json.RawMessage {
	b, _ := json.Marshal(v)
	return b
}

var groupOps = []string{"desc-create", "desc-create-subdir", "desc-edit", "desc-delete", "user-create", "user-edit", "user-edit-wildcard", "user-delete", "password", "keys-set", "keys-delete"}

func genGroupCase(run *vk.Run, opIdx int, op string, variant int) *gcase {
	r := run.Rand(3, uint64(opIdx), uint64(variant))
	c := &gcase{Op: op, Variant: variant, Group: fmt.Sprintf("g%d", variant)}
	word := func(n int) string {
		var sb strings.Builder
		for i := 0; i < n; i++ {
			sb.WriteByte(byte('a' + r.IntN(26)))
		}
		return sb.String()
	}
	users := map[string]any{}
	nu := 1 + r.IntN(4)
	for i := 0; i < nu; i++ {
		u := map[string]any{"password": "pw-" + word(6)}
		switch r.IntN(3) {
		case 0:
			u["permissions"] = "op"
		case 1:
			u["permissions"] = "present"
		default:
			u["permissions"] = []any{"present", "message"}
		}
		if r.IntN(4) == 0 {
			u["password"] = map[string]any{"type": "pbkdf2", "hash": "sha-256", "key": "0011" + word(4), "salt": "aabb", "iterations": float64(4096)}
		}
		users[fmt.Sprintf("user%d", i)] = u
	}
	old := map[string]any{"comment": "old " + word(5+r.IntN(40)), "displayName": "Group " + word(4), "users": users}
	if r.IntN(2) == 0 {
		old["max-clients"] = float64(2 + r.IntN(20))
	}
	if r.IntN(2) == 0 {
		old["wildcard-user"] = map[string]any{"password": map[string]any{"type": "wildcard"}, "permissions": "message"}
	}
	key := func(kid string) map[string]any {
		return map[string]any{"kty": "oct", "alg": "HS256", "k": "MDEyMzQ1Njc4OWFiY2RlZjAxMjM0NTY3ODlhYmNkZWY", "kid": kid}
	}
	if r.IntN(2) == 0 || op == "keys-delete" {
		old["authKeys"] = []any{key("old-" + word(3))}
	}
	c.Old = old
	c.Args = opArgs{Group: c.Group}
	someUser := fmt.Sprintf("user%d", r.IntN(nu))
	sanitised := func() map[string]any {
		d := map[string]any{"comment": "new " + word(5+r.IntN(60)), "displayName": "Group " + word(6)}
		if r.IntN(2) == 0 {
			d["description"] = "described " + word(10)
		}
		if r.IntN(3) == 0 {
			d["public"] = true
		}
		return d
	}
	switch op {
	case "desc-create", "desc-create-subdir":
		c.Old = nil
		if op == "desc-create-subdir" {
			c.Group = fmt.Sprintf("sub%d/deep/g%d", variant, variant)
			c.NoDir = true
		}
		d := sanitised()
		c.New = d
		c.Args = opArgs{Op: "desc-create", Group: c.Group, Desc: jsonOf(d)}
	case "desc-edit":
		d := sanitised()
		n := clone(d)
		for _, k := range []string{"users", "wildcard-user", "authKeys"} {
			if v, ok := old[k]; ok {
				n[k] = v
			}
		}
		c.New = clone(n)
		c.Args.Op, c.Args.Desc = "desc-edit", jsonOf(d)
	case "desc-delete":
		c.New = nil
		c.Args.Op = "desc-delete"
	case "user-create":
		n := clone(old)
		perms := []any{"present", "x-" + word(4)}
		n["users"].(map[string]any)["newcomer"] = map[string]any{"permissions": perms}
		c.New = n
		c.Args.Op, c.Args.User, c.Args.UserDesc = "user-create", "newcomer", jsonOf(map[string]any{"permissions": perms})
	case "user-edit":
		n := clone(old)
		perms := []any{"message", "y-" + word(8)}
		n["users"].(map[string]any)[someUser].(map[string]any)["permissions"] = perms
		c.New = n
		c.Args.Op, c.Args.User, c.Args.UserDesc = "user-edit", someUser, jsonOf(map[string]any{"permissions": perms})
	case "user-edit-wildcard":
		old["wildcard-user"] = map[string]any{"password": map[string]any{"type": "wildcard"}, "permissions": "message"}
		n := clone(old)
		n["wildcard-user"].(map[string]any)["permissions"] = "present"
		c.New = n
		c.Args.Op, c.Args.Wildcard, c.Args.UserDesc = "user-edit", true, jsonOf(map[string]any{"permissions": "present"})
	case "user-delete":
		n := clone(old)
		delete(n["users"].(map[string]any), someUser)
		if len(n["users"].(map[string]any)) == 0 {
			delete(n, "users")
		}
		c.New = n
		c.Args.Op, c.Args.User = "user-delete", someUser
	case "password":
		n := clone(old)
		pw := "changed-" + word(3+r.IntN(12))
		n["users"].(map[string]any)[someUser].(map[string]any)["password"] = pw
		c.New = n
		c.Args.Op, c.Args.User, c.Args.Password = "password", someUser, jsonOf(pw)
	case "keys-set":
		n := clone(old)
		ks := []map[string]any{key("new-" + word(4)), key("second-" + word(2))}
		n["authKeys"] = []any{ks[0], ks[1]}
		c.New = clone(n)
		c.Args.Op, c.Args.Keys = "keys", ks
	case "keys-delete":
		n := clone(old)
		delete(n, "authKeys")
		c.New = n
		c.Args.Op = "keys"
	}
	c.Args.Group = c.Group
	if c.Old != nil {
		c.Old = clone(c.Old)
	}
	return c
}

// prepareGroups builds <dir>/groups (+ the definition) and <dir>/data/config.json.
func prepareGroups(dir string, c *gcase, def map[string]any) (groups, data, file string, err error) {
	groups, data = filepath.Join(dir, "groups"), filepath.Join(dir, "data")
	file = filepath.Join(groups, filepath.FromSlash(c.Group)+".json")
	if err = os.MkdirAll(groups, 0o755); err != nil {
		return
	}
	if err = os.MkdirAll(data, 0o755); err != nil {
		return
	}
	if err = os.WriteFile(filepath.Join(data, "config.json"), []byte("{\"writableGroups\": true}\n"), 0o644); err != nil {
		return
	}
	if def == nil {
		if !c.NoDir {
			err = os.MkdirAll(filepath.Dir(file), 0o755)
		}
		return
	}
	if err = os.MkdirAll(filepath.Dir(file), 0o755); err != nil {
		return
	}
	b, _ := json.MarshalIndent(def, "", "  ")
	err = os.WriteFile(file, append(b, '\n'), 0o644)
	return
}

// rawRead is the plain reader: absent, or a complete JSON object.
func rawRead(file string) (map[string]any, bool, error) {
	b, err := os.ReadFile(file)
	if errors.Is(err, os.ErrNotExist) {
		return nil, false, nil
	}
	if err != nil {
		return nil, false, err
	}
	var m map[string]any
	if err := json.Unmarshal(b, &m); err != nil {
		return nil, true, fmt.Errorf("%v (%d bytes: %q)", err, len(b), tail(string(b), 60))
	}
	return m, true, nil
}

type crashEnv struct {
	run  *vk.Run
	root string
	sem  chan struct{}
	wg   sync.WaitGroup
}

type tracedRun struct {
	res                vfs.Result
	groups, data, file string
}

func (e *crashEnv) traced(c *gcase, sub string, inject []string) (tracedRun, error) {
	var t tracedRun
	dir := filepath.Join(e.root, c.id(), sub)
	var err error
	t.groups, t.data, t.file, err = prepareGroups(dir, c, c.Old)
	if err != nil {
		return t, err
	}
	a := c.Args
	a.Dir, a.Data = t.groups, t.data
	ab, _ := json.Marshal(a)
	t.res, err = vfs.Run(vfs.Options{Argv: []string{os.Args[0]}, Env: childEnv("crashop", string(ab)), Dir: dir, Inject: inject, LogPath: filepath.Join(dir, "strace.log"), Timeout: 90 * time.Second})
	return t, err
}

var errnoSet = []string{"EIO", "ENOSPC"}

func errTarget(name string) bool {
	switch name {
	case "write", "pwrite64", "fsync", "fdatasync", "rename", "renameat", "renameat2", "openat", "unlink", "unlinkat", "close", "mkdir", "mkdirat", "ftruncate":
		return true
	}
	return false
}

func (e *crashEnv) runCase(c *gcase) {
	run := e.run
	replay := func(mode string, p *vfs.Point, errno string) map[string]any {
		m := map[string]any{"phase": "crash", "op": c.Op, "variant": c.Variant, "mode": mode, "old": c.Old, "operation": c.Args}
		if p != nil {
			m["ordinal"], m["syscall"], m["syscall_args"] = p.Index, p.Name, p.Args
		}
		if errno != "" {
			m["errno"] = errno
		}
		return m
	}
	// what a fresh process sees of the OLD definition
	og, od, _, err := prepareGroups(filepath.Join(e.root, c.id(), "old"), c, c.Old)
	if err != nil {
		run.Inconclusive("cannot prepare " + c.id() + ": " + err.Error())
		return
	}
	oldV, err := freshDesc(og, od, c.Group)
	if err != nil || oldV.Err != "" || oldV.Exists != (c.Old != nil) {
		run.Inconclusive(fmt.Sprintf("crash case %s: the prepared OLD definition is not read back (%v, %+v)", c.id(), err, oldV.Err))
		return
	}
	// baseline: defines NEW (checked against what the harness computed from the operation)
	e.sem <- struct{}{}
	base, err := e.traced(c, "base", nil)
	<-e.sem
	if err != nil || base.res.TimedOut || base.res.Killed {
		run.Inconclusive(fmt.Sprintf("crash case %s: baseline run failed: %v", c.id(), err))
		return
	}
	var out opOut
	if json.Unmarshal(base.res.Stdout, &out) != nil || !out.OK {
		run.Inconclusive(fmt.Sprintf("crash case %s: the uninterrupted operation failed (exit %d): %s %s", c.id(), base.res.Exit, out.Err, tail(string(base.res.Stderr), 300)))
		return
	}
	run.Eval(1)
	newV, err := freshDesc(base.groups, base.data, c.Group)
	if err != nil || newV.Err != "" {
		run.Inconclusive(fmt.Sprintf("crash case %s: descdump after the baseline: %v %s", c.id(), err, newV.Err))
		return
	}
	newRaw, _, rerr := rawRead(base.file)
	if rerr != nil || !reflect.DeepEqual(newRaw, c.New) {
		nb, _ := json.Marshal(newRaw)
		cb, _ := json.Marshal(c.New)
		run.Inconclusive(fmt.Sprintf("crash case %s: the uninterrupted operation did not write the definition the harness computed: file=%s computed=%s (%v)", c.id(), nb, cb, rerr))
		return
	}
	if out.View.canon() != newV.canon() {
		run.Violation("live-differs-from-restart:"+c.Args.Op, fmt.Sprintf("after one uninterrupted %s the process that did it sees %s, a fresh one %s", c.Args.Op, out.View.canon(), newV.canon()), replay("baseline", nil, ""))
		return
	}
	oldC, newC := oldV.canon(), newV.canon()
	if oldC == newC {
		run.Inconclusive("crash case " + c.id() + ": OLD and NEW are indistinguishable")
		return
	}
	points, perr := vfs.Points(base.res.Trace, filepath.Join(e.root, c.id(), "base"))
	if perr != nil || len(points) == 0 {
		run.Inconclusive(fmt.Sprintf("crash case %s: %v (%d points)", c.id(), perr, len(points)))
		return
	}
	run.Count("baseline_window_syscalls", int64(len(points)))
	if c.Variant == 0 {
		var seq []string
		for _, p := range points {
			seq = append(seq, p.Name)
		}
		run.Set("window:"+c.Op, seq)
	}
	// judge: both observers must see exactly old or exactly new
	judge := func(t tracedRun) (state string, what string) {
		fresh, ferr := freshDesc(t.groups, t.data, c.Group)
		if ferr != nil {
			return "inconclusive", ferr.Error()
		}
		raw, present, rerr := rawRead(t.file)
		switch {
		case fresh.Err != "":
			return "unparsable", "a fresh process cannot load the definition: " + fresh.Err
		case rerr != nil:
			return "unparsable", "a plain reader cannot decode the file: " + rerr.Error()
		}
		// no group that exists neither before nor after the operation (a staging file that a
		// restarted server takes for a definition)
		allowed := map[string]bool{}
		for _, n := range append(append([]string{}, oldV.Names...), newV.Names...) {
			allowed[n] = true
		}
		for _, n := range fresh.Names {
			if !allowed[n] {
				return "partial", fmt.Sprintf("a restarted server finds a group %q in its directory that exists neither before nor after the operation (groups before %v, after %v)", n, oldV.Names, newV.Names)
			}
		}
		fc := fresh.canon()
		rawOld := present == (c.Old != nil) && reflect.DeepEqual(raw, c.Old)
		rawNew := present == (c.New != nil) && reflect.DeepEqual(raw, c.New)
		switch {
		case fc == oldC && rawOld:
			return "old", ""
		case fc == newC && rawNew:
			return "new", ""
		}
		rb, _ := json.Marshal(raw)
		return "partial", fmt.Sprintf("neither the old nor the new definition: fresh process sees %s; the file holds %s", tail(fc, 400), tail(string(rb), 400))
	}
	// control: a kill right after the operation (on entry to the END marker) must leave NEW
	if end, ok := base.res.Trace.Marker(vfs.MarkEnd); ok {
		e.wg.Add(1)
		go func() {
			defer e.wg.Done()
			e.sem <- struct{}{}
			defer func() { <-e.sem }()
			t, err := e.traced(c, "kend", []string{vfs.KillAt(end.Name, end.NameOrd)})
			if err != nil || t.res.TimedOut || !t.res.Killed {
				run.Count("kill_after_operation_missed", 1)
				return
			}
			run.Eval(1)
			switch st, what := judge(t); st {
			case "new":
				run.Count("crash_left_new", 1)
			case "inconclusive":
				run.Inconclusive(what)
			default:
				run.Violation("crash-partial-file:"+c.Op+":after-last-syscall", fmt.Sprintf("%s killed right after its last syscall: the completed operation is not what a restart sees (%s) %s", c.Op, st, what), replay("kill-after", nil, ""))
			}
		}()
	}
	for i := range points {
		p := points[i]
		e.wg.Add(1)
		go func() {
			defer e.wg.Done()
			e.sem <- struct{}{}
			defer func() { <-e.sem }()
			t, err := e.traced(c, fmt.Sprintf("k%d", p.Index), []string{vfs.KillAt(p.Name, p.NameOrd)})
			if err != nil || t.res.TimedOut {
				run.Inconclusive(fmt.Sprintf("crash case %s: injected run failed: %v", c.id(), err))
				return
			}
			run.Eval(1)
			hit, ok := t.res.Trace.HitAt(p.Name, p.NameOrd)
			_, began, complete := t.res.Trace.Window(vfs.MarkBegin, vfs.MarkEnd)
			if t.res.Killed && ok && began && !complete && hit.Tid == t.res.Trace.MainTid {
				run.Count("crash_points_hit", 1)
				run.Distinct(fmt.Sprintf("crash %s %s #%d", c.Op, p.Name, p.Index))
			} else {
				run.Count("kill_not_inside_operation", 1)
			}
			st, what := judge(t)
			run.Count("crash_runs_judged", 1)
			where := fmt.Sprintf("%s killed on entry to %s(%s) (syscall %d of the operation)", c.Op, p.Name, p.Args, p.Index)
			switch st {
			case "inconclusive":
				run.Inconclusive(what)
			case "old":
				run.Count("crash_left_old", 1)
			case "new":
				run.Count("crash_left_new", 1)
			default:
				run.Violation(fmt.Sprintf("crash-partial-file:%s:%s", c.Op, p.Name), where+": "+what, replay("kill", &p, ""))
			}
		}()
		if !errTarget(p.Name) {
			continue
		}
		for _, errno := range errnoSet {
			errno := errno
			e.wg.Add(1)
			go func() {
				defer e.wg.Done()
				e.sem <- struct{}{}
				defer func() { <-e.sem }()
				t, err := e.traced(c, fmt.Sprintf("e%d-%s", p.Index, errno), []string{vfs.FailAt(p.Name, errno, p.NameOrd)})
				if err != nil || t.res.TimedOut {
					run.Inconclusive(fmt.Sprintf("crash case %s: error-injected run failed: %v", c.id(), err))
					return
				}
				run.Eval(1)
				key := fmt.Sprintf("error-not-rolled-back:%s:%s:%s", c.Op, p.Name, errno)
				where := fmt.Sprintf("%s with %s(%s) (syscall %d of the operation) failing with %s", c.Op, p.Name, p.Args, p.Index, errno)
				var out opOut
				if t.res.Killed || json.Unmarshal(t.res.Stdout, &out) != nil {
					if sig, _ := vk.CrashSignature(string(t.res.Stderr)); sig != "" {
						run.Violation(key, where+" crashed the process: "+sig, replay("error", &p, errno))
					} else {
						run.Inconclusive(fmt.Sprintf("crash case %s: error-injected run gave no result: %s", c.id(), tail(string(t.res.Stderr), 300)))
					}
					return
				}
				applied := false
				for _, tc := range t.res.Trace.Tampered() {
					if tc.Tid == t.res.Trace.MainTid && tc.Name == p.Name && tc.NameOrd == p.NameOrd {
						applied = true
					}
				}
				if !applied {
					run.Count("error_injection_missed", 1)
					return
				}
				run.Count("error_injections_applied", 1)
				run.Distinct(fmt.Sprintf("error %s %s #%d %s", c.Op, p.Name, p.Index, errno))
				st, what := judge(t)
				fresh, _ := freshDesc(t.groups, t.data, c.Group)
				switch {
				case st == "inconclusive":
					run.Inconclusive(what)
				case st == "unparsable" || st == "partial":
					run.Violation(key, fmt.Sprintf("%s (operation reported ok=%v %s): %s", where, out.OK, out.Err, what), replay("error", &p, errno))
				case out.View.canon() != fresh.canon():
					run.Violation(key, fmt.Sprintf("%s: the process that did it sees %s afterwards, a fresh one %s", where, tail(out.View.canon(), 300), tail(fresh.canon(), 300)), replay("error", &p, errno))
				case !out.OK && st != "old":
					run.Violation(key, fmt.Sprintf("%s: the operation reported failure (%s) but the definition changed", where, out.Err), replay("error", &p, errno))
				case out.OK && st != "new":
					run.Violation(fmt.Sprintf("error-swallowed:%s:%s:%s", c.Op, p.Name, errno), fmt.Sprintf("%s: the operation reported success but the definition is unchanged", where), replay("error", &p, errno))
				case out.OK:
					run.Count("errors_tolerated_with_success", 1)
				default:
					run.Count("errors_reported_and_unchanged", 1)
				}
			}()
		}
	}
}

func crashPhase(run *vk.Run, variants int, onlyOp string, onlyVariant int) {
	if err := vfs.Available(); err != nil {
		run.Inconclusive("strace is not usable: " + err.Error())
		return
	}
	e := &crashEnv{run: run, root: filepath.Join(run.Scratch, "crash"), sem: make(chan struct{}, 14)}
	for oi, op := range groupOps {
		for v := 0; v < variants; v++ {
			if onlyOp != "" && (op != onlyOp || v != onlyVariant) {
				continue
			}
			c := genGroupCase(run, oi, op, v)
			e.wg.Add(1)
			go func() {
				defer e.wg.Done()
				e.runCase(c)
			}()
		}
	}
	e.wg.Wait()
}
