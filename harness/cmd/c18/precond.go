package main

import (
	"encoding/json"
	"fmt"
	"math/rand/v2"
	"strings"

	"github.com/jech/galene/webserver"
)

// Precondition parsing.  The generator builds If-Match / If-None-Match values from a
// structured list, so the harness knows what the value says without parsing it back.
//
// Reference reading of RFC 7232 section 3, restricted to what the property states:
//
//	value   = "*" / 1#entity-tag           (list elements separated by commas and optional
//	entity-tag = [ "W/" ] DQUOTE *etagc DQUOTE   white space; empty elements are allowed)
//
//	GET / HEAD with If-None-Match:
//	  well-formed list that contains the current tag verbatim (strong)      => 304
//	  "*" and the object exists                                              => 304
//	  no element can denote the current tag (its opaque text occurs nowhere
//	  in the value) and there is no "*"                                      => not 304
//	write (PUT / DELETE) with If-Match:
//	  no element can denote the current tag and there is no "*"              => refused
//	  "*" on an object that does not exist                                   => refused
//	  (the current tag in a well-formed list / "*" on an existing object: counted as
//	  positive observations; "succeeds only if" demands nothing there)
//	write with If-None-Match: "*" on an existing object                      => refused
//
// Weak tags W/"x" whose opaque text equals the current one are never generated in the
// asserted classes (RFC: weak comparison for If-None-Match, strong for If-Match; the
// property does not speak about them).

type hdrCase struct {
	Value      string `json:"value"`
	Class      string `json:"class"`      // generator class
	WellFormed bool   `json:"wellformed"` // the whole value follows the grammar
	HasCurrent bool   `json:"has_current"`
	HasStar    bool   `json:"has_star"`
}

var seps = []string{",", ", ", " ,", " , ", ",  ", ",\t", ",,", ", ,", " ,\t, "}

func otherTag(r *rand.Rand, cur string) string {
	inner := strings.Trim(cur, `"`)
	switch r.IntN(5) {
	case 0: // one character different
		if len(inner) > 0 {
			b := []byte(inner)
			i := r.IntN(len(b))
			if b[i] == '9' {
				b[i] = '8'
			} else if b[i] >= '0' && b[i] < '9' {
				b[i]++
			} else {
				b[i] = '0'
			}
			return `"` + string(b) + `"`
		}
	case 1: // a prefix / an extension
		if len(inner) > 1 && r.IntN(2) == 0 {
			return `"` + inner[:len(inner)-1] + `"`
		}
		return `"` + inner + `0"`
	case 2: // weak, other text
		return fmt.Sprintf(`W/"%d-%d"`, r.IntN(5000), r.Int64N(1e18))
	case 3:
		return `""`
	}
	return fmt.Sprintf(`"%d-%d"`, r.IntN(5000), r.Int64N(1e18))
}

// genHeader builds one value.  cur is the current tag (`"size-mtime"`), never empty.
func genHeader(r *rand.Rand, cur string) hdrCase {
	join := func(el []string) string {
		var sb strings.Builder
		if r.IntN(5) == 0 {
			sb.WriteString([]string{" ", "\t", ",", ", "}[r.IntN(4)])
		}
		for i, e := range el {
			if i > 0 {
				sb.WriteString(seps[r.IntN(len(seps))])
			}
			sb.WriteString(e)
		}
		if r.IntN(5) == 0 {
			sb.WriteString([]string{" ", "\t", ",", " ,"}[r.IntN(4)])
		}
		return sb.String()
	}
	others := func(n int) []string {
		var el []string
		for i := 0; i < n; i++ {
			el = append(el, otherTag(r, cur))
		}
		return el
	}
	switch x := r.IntN(100); {
	case x < 25: // the current tag at any position of a well-formed list
		el := others(r.IntN(5))
		pos := r.IntN(len(el) + 1)
		el = append(el[:pos], append([]string{cur}, el[pos:]...)...)
		return hdrCase{Value: join(el), Class: "current-in-list", WellFormed: true, HasCurrent: true}
	case x < 50:
		return hdrCase{Value: join(others(1 + r.IntN(5))), Class: "other-tags", WellFormed: true}
	case x < 58:
		return hdrCase{Value: []string{"*", " *", "* ", "*\t"}[r.IntN(4)], Class: "star", WellFormed: true, HasStar: true}
	case x < 64:
		return hdrCase{Value: cur, Class: "current-alone", WellFormed: true, HasCurrent: true}
	case x < 72: // unterminated quote somewhere, current tag absent
		el := others(r.IntN(3))
		bad := fmt.Sprintf(`"%d-%d`, r.IntN(5000), r.Int64N(1e18))
		pos := r.IntN(len(el) + 1)
		el = append(el[:pos], append([]string{bad}, el[pos:]...)...)
		return hdrCase{Value: join(el), Class: "unterminated-quote"}
	case x < 78:
		return hdrCase{Value: []string{",", ",,", " , ", ", ,\t,"}[r.IntN(4)], Class: "commas-only"}
	case x < 84: // bare words / unquoted current text: cannot denote a tag
		inner := strings.Trim(cur, `"`)
		return hdrCase{Value: []string{"abc", "W/", "W/abc", `'x'`, inner + "x", `W/"`}[r.IntN(6)], Class: "garbage"}
	case x < 90: // illegal character inside the quotes
		return hdrCase{Value: fmt.Sprintf(`"%d %d"`, r.IntN(100), r.IntN(100)), Class: "space-in-tag"}
	default: // long well-formed list without the current tag
		return hdrCase{Value: join(others(8 + r.IntN(20))), Class: "long-other-tags", WellFormed: true}
	}
}

// canDenoteCurrent: could any reading of the value name the current tag?  For a value
// the generator built according to the grammar the structure is known; for a malformed
// one the question is answered conservatively (the tag's text or a "*" occurs anywhere).
func canDenoteCurrent(h hdrCase, cur string) bool {
	if h.WellFormed {
		return h.HasCurrent || h.HasStar
	}
	return strings.Contains(h.Value, strings.Trim(cur, `"`)) || strings.Contains(h.Value, "*")
}

// preconditions drives one existing group and one of its users through the generator.
func preconditions(a api, batch uint64, idx int, n int) {
	run := a.run
	r := run.Rand(4, batch, uint64(idx))
	g := fmt.Sprintf("p%d-%d", batch, idx)
	a.srv.WriteGroup(g, map[string]any{"comment": "c", "users": map[string]any{
		"pu":    map[string]any{"password": "x", "permissions": []any{"present"}},
		"other": map[string]any{"password": "o", "permissions": "op"}}})
	ghost := fmt.Sprintf("ghost%d-%d", batch, idx) // never exists
	fail := func(class string, h hdrCase, what string) {
		run.Violation("precondition:"+class, what+fmt.Sprintf(" (header value %q, generator class %s)", h.Value, h.Class),
			map[string]any{"phase": "e2e", "batch": batch, "scenario": idx, "part": "preconditions", "header": h})
	}
	grow := 0
	for i := 0; i < n; i++ {
		obj, path := "group", apiRoot+g
		if r.IntN(2) == 0 {
			obj, path = "user", apiRoot+g+"/.users/pu"
		}
		st, hd, body, err := a.do("GET", path, nil, nil)
		cur := hd.Get("ETag")
		if err != nil || st != 200 || cur == "" {
			run.Inconclusive(fmt.Sprintf("preconditions: cannot read the %s (%d)", obj, st))
			return
		}
		h := genHeader(r, cur)
		run.Eval(1)
		run.Note(fmt.Sprintf("%s: header %q on %s", g, h.Value, obj))
		switch x := r.IntN(10); {
		case x < 4: // read with If-None-Match
			method := "GET"
			if r.IntN(4) == 0 {
				method = "HEAD"
			}
			st, _, _, err := a.do(method, path, map[string]string{"If-None-Match": h.Value}, nil)
			if err != nil {
				continue
			}
			switch {
			case h.WellFormed && (h.HasCurrent || h.HasStar):
				if st != 304 {
					fail("read-inm-current-not-304", h, fmt.Sprintf("%s of a %s with If-None-Match naming the current tag %s answered %d, not 304", method, obj, cur, st))
				} else {
					run.Count("reads_304_verified", 1)
				}
			case !canDenoteCurrent(h, cur):
				if st == 304 {
					fail("read-inm-stale-304", h, fmt.Sprintf("%s of a %s whose current tag is %s answered 304 to an If-None-Match that does not name it", method, obj, cur))
				} else if st == 200 {
					run.Count("reads_200_verified", 1)
				}
			}
		case x < 8: // write with If-Match
			var m map[string]any
			json.Unmarshal(body, &m)
			grow++
			if obj == "group" {
				m["comment"] = "c" + strings.Repeat("+", grow)
			} else {
				m["permissions"] = []any{"present", "v" + strings.Repeat("+", grow)}
			}
			nb, _ := json.Marshal(m)
			method := "PUT"
			if obj == "user" && r.IntN(6) == 0 {
				method, nb = "DELETE", nil
			}
			st, _, _, err := a.do(method, path, map[string]string{"If-Match": h.Value}, nb)
			if err != nil {
				continue
			}
			switch {
			case !canDenoteCurrent(h, cur):
				if ok2xx(st) {
					fail("write-if-match-stale-accepted", h, fmt.Sprintf("%s of a %s whose current tag is %s was acknowledged (%d) under an If-Match that does not name it", method, obj, cur, st))
				} else {
					run.Count("writes_refused_verified", 1)
					if st == 412 {
						run.Count("writes_refused_412", 1)
					}
				}
			case h.WellFormed && (h.HasCurrent || h.HasStar) && ok2xx(st):
				run.Count("writes_with_current_tag_accepted", 1)
			}
			if method == "DELETE" && ok2xx(st) { // put the user back for the next rounds
				a.do("PUT", path, nil, []byte(`{"permissions":["present"]}`))
			}
		case x < 9 && r.IntN(2) == 0:
			// both headers in one request, the If-Match one TRUE (the current tag or *): the
			// other one still decides.  A write with If-None-Match: * on an existing object
			// is refused; a read whose If-None-Match names the current tag answers 304.
			im := cur
			if r.IntN(3) == 0 {
				im = "*"
			}
			if r.IntN(2) == 0 {
				st, _, _, err := a.do("PUT", path, map[string]string{"If-Match": im, "If-None-Match": "*"}, body)
				if err != nil {
					continue
				}
				if ok2xx(st) {
					fail("write-inm-star-existing-accepted:with-true-if-match", hdrCase{Value: "*", Class: "star+if-match"}, fmt.Sprintf("PUT of an existing %s with If-Match: %s (true) and If-None-Match: * was acknowledged (%d)", obj, im, st))
				} else {
					run.Count("inm_star_existing_refused_with_true_if_match", 1)
				}
			} else {
				st, _, _, err := a.do("GET", path, map[string]string{"If-Match": im, "If-None-Match": cur}, nil)
				if err != nil {
					continue
				}
				if st != 304 {
					fail("read-inm-current-not-304:with-true-if-match", hdrCase{Value: cur, Class: "current+if-match"}, fmt.Sprintf("GET of a %s with If-Match: %s (true) and If-None-Match naming the current tag %s answered %d, not 304", obj, im, cur, st))
				} else {
					run.Count("reads_304_verified_with_true_if_match", 1)
				}
			}
		case x < 9: // write with If-None-Match: * on an existing object
			st, _, _, err := a.do("PUT", path, map[string]string{"If-None-Match": "*"}, body)
			if err != nil {
				continue
			}
			if ok2xx(st) {
				fail("write-inm-star-existing-accepted", hdrCase{Value: "*", Class: "star"}, fmt.Sprintf("PUT of an existing %s with If-None-Match: * was acknowledged (%d)", obj, st))
			} else {
				run.Count("inm_star_existing_refused", 1)
				if st == 412 {
					run.Count("writes_refused_412", 1)
				}
			}
		default: // If-Match: * on an object that does not exist
			gp := apiRoot + ghost
			b := []byte(`{"comment":"ghost"}`)
			if obj == "user" {
				gp, b = apiRoot+g+"/.users/"+ghost, []byte(`{"permissions":["present"]}`)
			}
			st, _, _, err := a.do("PUT", gp, map[string]string{"If-Match": "*"}, b)
			if err != nil {
				continue
			}
			st2, _, _, _ := a.do("GET", gp, nil, nil)
			if ok2xx(st) || st2 == 200 {
				fail("write-if-match-star-nonexistent-accepted", hdrCase{Value: "*", Class: "star"}, fmt.Sprintf("PUT of a %s that does not exist with If-Match: * answered %d and the object now answers %d", obj, st, st2))
				a.do("DELETE", gp, nil, nil)
			} else {
				run.Count("if_match_star_nonexistent_refused", 1)
			}
		}
		run.Distinct(fmt.Sprintf("precondition %s %s", h.Class, obj))
	}
}

// etagMatchDirect feeds the same generator to the matcher itself (export under the verif
// build tag), which is much cheaper than HTTP.
func etagMatchDirect(a api, batch uint64, n int) {
	run := a.run
	r := run.Rand(5, batch)
	for i := 0; i < n; i++ {
		cur := fmt.Sprintf(`"%d-%d"`, 1+r.IntN(9000), 1+r.Int64N(1e18))
		h := genHeader(r, cur)
		run.Eval(1)
		got := webserver.VerifEtagMatch(cur, h.Value)
		rep := map[string]any{"phase": "e2e", "batch": batch, "part": "etagmatch", "current": cur, "header": h}
		switch {
		case h.WellFormed && (h.HasCurrent || h.HasStar):
			if !got {
				run.Violation("precondition:matcher-misses-current", fmt.Sprintf("the matcher says %q does not match the current tag %s (class %s)", h.Value, cur, h.Class), rep)
			} else {
				run.Count("matcher_positive_verified", 1)
			}
		case !canDenoteCurrent(h, cur):
			if got {
				run.Violation("precondition:matcher-matches-stale", fmt.Sprintf("the matcher says %q matches the current tag %s (class %s)", h.Value, cur, h.Class), rep)
			} else {
				run.Count("matcher_negative_verified", 1)
			}
		}
		// a non-existent object (empty tag) is matched by nothing, "*" included
		if webserver.VerifEtagMatch("", h.Value) && h.Value != "" {
			run.Violation("precondition:matcher-matches-nonexistent", fmt.Sprintf("the matcher says %q matches an object that does not exist", h.Value), rep)
		}
	}
}
