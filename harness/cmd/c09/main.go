// C09 - a token authorises only its own group scope, validity window and
// permissions.
//
// Oracle by construction: the harness is the issuer.  It writes every stateful
// token (through token.Update or straight into the JSONL token file) and signs
// every JWT itself (own JWS code over crypto/hmac, crypto/ecdsa, crypto/rsa; the
// verifying library is never used on the issuing side), so for each case it
// knows whether the token is valid and, if not, which rule it breaks.  The
// expected verdict is computed from the property text only (component-wise
// path comparison, signed time offsets >= 120 s from now) and compared with
// what token.Parse(...).Check(host, group) and
// group.Description.GetPermission(group, credentials) answer.
package main

import (
	"crypto"
	"crypto/ecdsa"
	"crypto/elliptic"
	"crypto/hmac"
	crand "crypto/rand"
	"crypto/rsa"
	"crypto/sha256"
	"crypto/sha512"
	"crypto/x509"
	"encoding/base64"
	"encoding/json"
	"encoding/pem"
	"errors"
	"fmt"
	"hash"
	"math/rand/v2"
	"os"
	"path/filepath"
	"runtime"
	"sort"
	"strings"
	"sync"
	"sync/atomic"
	"time"

	"github.com/jech/galene/group"
	"github.com/jech/galene/token"

	"verif/harness/vk"
)

// ---------------------------------------------------------------------------
// group names and the scope oracle (written from the property text)

var comps = []string{"a", "b", "ab", "c", "bc", "abc", "a", "b"}
var letters = []string{"a", "b", "c", "bc"}
var fixedGroups = []string{"a", "b", "ab", "a/b", "a/bc", "a/b/c", "ab/c", "a/b/c/d", "b/a", "abc"}

func randGroup(r *rand.Rand, minDepth, maxDepth int) string {
	if minDepth <= 1 && r.IntN(5) == 0 {
		for {
			g := fixedGroups[r.IntN(len(fixedGroups))]
			d := strings.Count(g, "/") + 1
			if d >= minDepth && d <= maxDepth {
				return g
			}
		}
	}
	d := minDepth + r.IntN(maxDepth-minDepth+1)
	parts := make([]string, d)
	for i := range parts {
		parts[i] = comps[r.IntN(len(comps))]
	}
	return strings.Join(parts, "/")
}

func splitGroup(g string) []string {
	if g == "" {
		return nil
	}
	return strings.Split(g, "/")
}

func compPrefix(a, b []string) bool {
	if len(a) > len(b) {
		return false
	}
	for i := range a {
		if a[i] != b[i] {
			return false
		}
	}
	return true
}

// relation classifies how the group named by the token (t) relates to the
// group being joined (g), comparing whole path components.
func relation(t, g string) string {
	if t == g {
		return "same"
	}
	tc, gc := splitGroup(t), splitGroup(g)
	if compPrefix(tc, gc) {
		if t == "" {
			return "root"
		}
		return "ancestor"
	}
	if compPrefix(gc, tc) {
		return "descendant"
	}
	if strings.HasPrefix(g, t) || strings.HasPrefix(t, g) {
		return "string-prefix" // 'a' vs 'ab', 'a/b' vs 'a/bc'
	}
	return "unrelated"
}

// scopeOK: the token names that group, or names an ancestor and covers
// subgroups.  Group "" (the server-wide scope used for the global
// administrator check) is only covered by a root token that covers subgroups.
func scopeOK(t, g string, sub bool) bool {
	if g == "" {
		return t == "" && sub
	}
	switch relation(t, g) {
	case "same":
		return true
	case "root", "ancestor":
		return sub
	}
	return false
}

func genPair(r *rand.Rand, rel string) (t, g string) {
	switch rel {
	case "same":
		g = randGroup(r, 1, 3)
		return g, g
	case "ancestor":
		g = randGroup(r, 2, 4)
		gc := splitGroup(g)
		return strings.Join(gc[:1+r.IntN(len(gc)-1)], "/"), g
	case "root":
		return "", randGroup(r, 1, 3)
	case "descendant":
		t = randGroup(r, 2, 4)
		tc := splitGroup(t)
		return t, strings.Join(tc[:1+r.IntN(len(tc)-1)], "/")
	case "string-prefix":
		base := randGroup(r, 1, 3)
		other := base + letters[r.IntN(len(letters))]
		if r.IntN(3) == 0 {
			other += "/" + comps[r.IntN(len(comps))]
		}
		if r.IntN(3) > 0 {
			return base, other // the dangerous direction: 'a' presented for 'ab'
		}
		return other, base
	case "admin":
		if r.IntN(5) < 3 {
			return "", ""
		}
		return randGroup(r, 1, 2), ""
	default:
		for {
			t, g = randGroup(r, 1, 3), randGroup(r, 1, 3)
			if relation(t, g) == "unrelated" {
				return t, g
			}
		}
	}
}

// ---------------------------------------------------------------------------
// common verdict logic

var offsets = []time.Duration{120 * time.Second, time.Hour, 24 * time.Hour}

var allPerms = []string{"op", "present", "message", "caption", "token", "record", "admin"}

func randPerms(r *rand.Rand) []string {
	var p []string
	for _, x := range allPerms {
		if r.IntN(3) == 0 {
			p = append(p, x)
		}
	}
	r.Shuffle(len(p), func(i, j int) { p[i], p[j] = p[j], p[i] })
	return p
}

func samePerms(a, b []string) bool {
	x := append([]string(nil), a...)
	y := append([]string(nil), b...)
	sort.Strings(x)
	sort.Strings(y)
	if len(x) != len(y) {
		return false
	}
	for i := range x {
		if x[i] != y[i] {
			return false
		}
	}
	return true
}

var configuredUsers = []string{"alice", "bob", "carol@work"}
var tokenUsers = []string{"dave", "erin", "alice", "Frank c/o Bob", "j.doe@example.org"}

type outcome struct {
	ok    bool
	user  string
	perms []string
	err   error
}

func (o outcome) String() string {
	if o.ok {
		return fmt.Sprintf("accepted(username=%q permissions=%v)", o.user, o.perms)
	}
	return fmt.Sprintf("refused(%v)", o.err)
}

// tcase is what the verdict logic needs to know about a case.
type tcase struct {
	kind       string // "stateful" | "jwt"
	label      string // rule(s) broken, perturbation, or valid variant
	alg        string
	valid      bool
	stateful   bool
	tokenUser  *string
	tokenPerms []string
	clientUser *string
	users      []string
	base       time.Time
	replay     map[string]any
}

func strp(s string) *string { return &s }

func deref(s *string) string {
	if s == nil {
		return ""
	}
	return *s
}

func contains(a []string, s string) bool {
	for _, x := range a {
		if x == s {
			return true
		}
	}
	return false
}

// pickClient chooses the username the client sends.
func pickClient(r *rand.Rand, tokenUser *string, users []string) (*string, string) {
	switch x := r.IntN(10); {
	case x < 2:
		return nil, "client-none"
	case x < 5:
		return strp(fmt.Sprintf("guest-%d", r.IntN(1000))), "client-free"
	case x < 8 && len(users) > 0:
		return strp(users[r.IntN(len(users))]), "client-configured"
	case tokenUser != nil:
		return strp(*tokenUser), "client-same"
	default:
		return strp("visitor"), "client-free"
	}
}

// gpMode derives the expected behaviour of GetPermission from the username
// clauses of the property.
func gpMode(c *tcase) string {
	switch {
	case !c.valid:
		return "reject"
	case c.tokenUser != nil:
		return "as-token-user"
	case c.clientUser == nil:
		if c.stateful {
			return "username-required"
		}
		return "unspecified-username"
	case contains(c.users, *c.clientUser):
		return "refuse-configured"
	default:
		return "as-client-user"
	}
}

var discarded atomic.Int64

// usable tells whether the case was evaluated close enough to its time base
// for the >= 120 s offsets to be decisive; otherwise no verdict is given.
func usable(base time.Time) bool {
	now := time.Now()
	mono := now.Sub(base)
	wall := now.Round(0).Sub(base.Round(0))
	d := wall - mono
	if d < 0 {
		d = -d
	}
	if mono > 60*time.Second || d > 30*time.Second {
		discarded.Add(1)
		return false
	}
	return true
}

func judge(run *vk.Run, c *tcase, direct, gp outcome) {
	if !usable(c.base) {
		return
	}
	mode := gpMode(c)
	rep := c.replay
	rep["expect_accept"] = c.valid
	rep["expect_getpermission"] = mode
	rep["observed_check"] = direct.String()
	rep["observed_getpermission"] = gp.String()

	// Parse + Check
	switch {
	case direct.ok && !c.valid:
		run.Violation(c.kind+"-accepts:"+c.label,
			fmt.Sprintf("token.Parse+Check accepted a %s token that breaks rule %q: %v", c.kind, c.label, direct), rep)
	case !direct.ok && c.valid:
		run.Violation(c.kind+"-rejects-valid:"+c.label,
			fmt.Sprintf("token.Parse+Check refused a valid %s token (%s): %v", c.kind, c.label, direct.err), rep)
	case direct.ok:
		if direct.user != deref(c.tokenUser) {
			run.Violation("wrong-username:check-"+c.kind,
				fmt.Sprintf("Check returned username %q, the token says %q", direct.user, deref(c.tokenUser)), rep)
		}
		if !samePerms(direct.perms, c.tokenPerms) {
			run.Violation("wrong-perms:check-"+c.kind,
				fmt.Sprintf("Check returned permissions %v, the token says %v", direct.perms, c.tokenPerms), rep)
		}
	}

	// GetPermission
	switch mode {
	case "reject":
		if gp.ok {
			run.Violation(c.kind+"-accepts:"+c.label,
				fmt.Sprintf("GetPermission accepted a %s token that breaks rule %q: %v", c.kind, c.label, gp), rep)
		}
	case "as-token-user", "as-client-user":
		want := deref(c.tokenUser)
		key := "wrong-username:token-username-not-authoritative"
		if mode == "as-client-user" {
			want = *c.clientUser
			key = "wrong-username:free-client-username"
		}
		if !gp.ok {
			key := c.kind + "-rejects-valid:" + c.label
			if direct.ok { // Check accepts the token: the refusal comes from the username handling
				key = "getpermission-refuses-valid:" + mode + ":" + c.kind
			}
			run.Violation(key, fmt.Sprintf("GetPermission refused a valid %s token (%s, expected %s; token username %q, client sent %q): %v",
				c.kind, c.label, mode, deref(c.tokenUser), deref(c.clientUser), gp.err), rep)
			break
		}
		if gp.user != want {
			run.Violation(key, fmt.Sprintf("GetPermission returned username %q, want %q (token username %q, client sent %q)",
				gp.user, want, deref(c.tokenUser), deref(c.clientUser)), rep)
		}
		if mode == "as-token-user" {
			run.Count("username_token_overrides", 1)
			if c.clientUser != nil && contains(c.users, *c.clientUser) {
				run.Count("username_token_overrides_configured", 1)
			}
		} else {
			run.Count("username_free_accepted", 1)
		}
	case "refuse-configured":
		if gp.ok {
			run.Violation("username-shadows-configured-user:"+c.kind,
				fmt.Sprintf("token without username, client chose %q which is a configured user of the group, yet GetPermission answered %v", *c.clientUser, gp), rep)
		} else {
			run.Count("username_configured_refused", 1)
		}
	case "username-required":
		if gp.ok || !errors.Is(gp.err, group.ErrUsernameRequired) {
			run.Violation("username-required-not-enforced",
				fmt.Sprintf("stateful token without username and no client username: want ErrUsernameRequired, got %v", gp), rep)
		} else {
			run.Count("username_required", 1)
		}
	}
	if gp.ok && c.valid && !samePerms(gp.perms, c.tokenPerms) {
		run.Violation("wrong-perms:getpermission-"+c.kind,
			fmt.Sprintf("GetPermission returned permissions %v, the token says %v", gp.perms, c.tokenPerms), rep)
	}

	if c.valid && direct.ok {
		if c.kind == "jwt" {
			run.Count("accepted_"+c.alg, 1)
			run.Count("accepted_variant_"+c.label, 1)
		} else {
			run.Count("accepted_stateful", 1)
		}
	}
	if !c.valid && !direct.ok && !gp.ok {
		if c.kind == "jwt" {
			run.Count("rejected_"+c.label, 1)
		} else {
			run.Count("rejected_stateful", 1)
			for _, l := range strings.Split(c.label, "+") {
				if strings.HasPrefix(l, "scope-") {
					l = "scope"
				}
				run.Count("rejected_stateful_"+l, 1)
			}
		}
	}
}

func observeDirect(tok string, keys []map[string]any, host, g string) outcome {
	t, err := token.Parse(tok, keys)
	if err != nil {
		return outcome{err: err}
	}
	if t == nil {
		return outcome{err: errors.New("Parse returned no token")}
	}
	u, p, err := t.Check(host, g)
	if err != nil {
		return outcome{err: err}
	}
	return outcome{ok: true, user: u, perms: p}
}

func observeGP(desc *group.Description, g string, client *string, tok string) outcome {
	u, p, err := desc.GetPermission(g, group.ClientCredentials{Username: client, Password: "irrelevant", Token: tok})
	if err != nil {
		return outcome{err: err}
	}
	return outcome{ok: true, user: u, perms: p}
}

// ---------------------------------------------------------------------------
// descriptions

var descMu sync.Mutex
var descFailed atomic.Bool

func userMap(users []string) map[string]group.UserDescription {
	if len(users) == 0 {
		return nil
	}
	m := map[string]group.UserDescription{}
	for _, u := range users {
		m[u] = group.UserDescription{}
	}
	return m
}

// makeDesc returns the description of group g holding the users and keys:
// built directly, or (fromFile) written as a JSON group file - at g or, with
// auto-subgroups, at its top-level ancestor - and loaded by GetDescription.
func makeDesc(run *vk.Run, g string, users []string, keys []map[string]any, fromFile, atAncestor bool) *group.Description {
	direct := &group.Description{Users: userMap(users), AuthKeys: keys}
	if !fromFile || g == "" || descFailed.Load() {
		return direct
	}
	name := g
	doc := map[string]any{}
	if atAncestor && strings.Contains(g, "/") {
		name = splitGroup(g)[0]
		doc["auto-subgroups"] = true
	}
	if len(users) > 0 {
		um := map[string]any{}
		for i, u := range users {
			um[u] = map[string]any{"password": fmt.Sprintf("pw%d", i), "permissions": "present"}
		}
		doc["users"] = um
	}
	if len(keys) > 0 {
		doc["authKeys"] = keys
	}
	b, err := json.Marshal(doc)
	if err != nil {
		return direct
	}
	descMu.Lock()
	defer descMu.Unlock()
	path := filepath.Join(group.Directory, filepath.FromSlash(name)+".json")
	os.MkdirAll(filepath.Dir(path), 0o755)
	if err := os.WriteFile(path, b, 0o644); err != nil {
		if !descFailed.Swap(true) {
			run.Inconclusive("cannot write group file: " + err.Error())
		}
		return direct
	}
	d, err := group.GetDescription(g)
	os.Remove(path)
	if err != nil || d == nil || len(d.AuthKeys) != len(keys) || len(d.Users) != len(users) {
		if !descFailed.Swap(true) {
			run.Inconclusive(fmt.Sprintf("harness setup: GetDescription(%q) from %s did not give the description written: %v", g, path, err))
		}
		return direct
	}
	run.Count("descriptions_loaded_from_file", 1)
	return d
}

// ---------------------------------------------------------------------------
// stateful tokens

type stCase struct {
	Idx      uint64   `json:"index"`
	Name     string   `json:"token"`
	TGroup   string   `json:"token_group"`
	Sub      bool     `json:"include_subgroups"`
	Username *string  `json:"token_username"`
	Perms    []string `json:"token_permissions"`
	ExpOff   string   `json:"expires_offset"` // "absent" or signed duration
	NbfOff   string   `json:"not_before_offset"`
	Zone     int      `json:"zone_minutes"`
	Written  string   `json:"written_by"` // "update" | "file"
	Group    string   `json:"group"`
	Client   *string  `json:"client_username"`
	ClientK  string   `json:"client_kind"`
	Users    []string `json:"configured_users"`
	FromFile bool     `json:"description_from_file"`
	Label    string   `json:"rule_broken"`
	Rel      string   `json:"relation"`
	Valid    bool     `json:"valid"`

	exp, nbf *time.Time
}

// stFileLine is the harness's own rendering of a line of the token file.
type stFileLine struct {
	Token            string   `json:"token"`
	Group            string   `json:"group"`
	IncludeSubgroups bool     `json:"includeSubgroups,omitempty"`
	Username         *string  `json:"username,omitempty"`
	Permissions      []string `json:"permissions"`
	Expires          *string  `json:"expires,omitempty"`
	NotBefore        *string  `json:"not-before,omitempty"`
	IssuedBy         *string  `json:"issuedBy,omitempty"`
}

func signedOff(r *rand.Rand, future bool) time.Duration {
	d := offsets[r.IntN(len(offsets))]
	if r.IntN(4) == 0 {
		d += time.Duration(r.IntN(5000)) * time.Second
	}
	if !future {
		d = -d
	}
	return d
}

func genStateful(run *vk.Run, idx uint64, base time.Time) *stCase {
	r := run.Rand(1, idx)
	c := &stCase{Idx: idx}
	c.Name = fmt.Sprintf("st%d-%016x", idx, r.Uint64())
	expK, nbfK := "future", "absent" // absent | past | future
	if r.IntN(2) == 0 {
		nbfK = "past"
	}
	mode := r.IntN(100)
	switch {
	case mode < 4: // server-wide scope (global administrator check)
		c.TGroup, c.Group = genPair(r, "admin")
		c.Sub = r.IntN(3) > 0
		if r.IntN(4) == 0 {
			expK = []string{"absent", "past"}[r.IntN(2)]
		}
	case mode < 40: // valid
		switch r.IntN(4) {
		case 0, 1:
			c.TGroup, c.Group = genPair(r, "same")
			c.Sub = r.IntN(2) == 0
		case 2:
			c.TGroup, c.Group = genPair(r, "ancestor")
			c.Sub = true
		default:
			c.TGroup, c.Group = genPair(r, "root")
			c.Sub = true
		}
	case mode < 90: // exactly one rule broken
		which := r.IntN(10)
		okRel := []string{"same", "ancestor", "root"}[r.IntN(3)]
		switch {
		case which < 5:
			switch r.IntN(8) {
			case 0, 1, 2:
				c.TGroup, c.Group = genPair(r, "string-prefix")
				c.Sub = r.IntN(4) > 0
			case 3:
				c.TGroup, c.Group = genPair(r, "descendant")
				c.Sub = r.IntN(2) == 0
			case 4:
				c.TGroup, c.Group = genPair(r, "unrelated")
				c.Sub = r.IntN(2) == 0
			case 5, 6:
				c.TGroup, c.Group = genPair(r, "ancestor")
			default:
				c.TGroup, c.Group = genPair(r, "root")
			}
		case which < 7:
			c.TGroup, c.Group = genPair(r, okRel)
			c.Sub = true
			expK = "absent"
		case which < 9:
			c.TGroup, c.Group = genPair(r, okRel)
			c.Sub = true
			expK = "past"
		default:
			c.TGroup, c.Group = genPair(r, okRel)
			c.Sub = true
			nbfK = "future"
		}
	default: // anything
		rels := []string{"same", "ancestor", "root", "descendant", "string-prefix", "unrelated"}
		c.TGroup, c.Group = genPair(r, rels[r.IntN(len(rels))])
		c.Sub = r.IntN(2) == 0
		expK = []string{"absent", "past", "future", "future"}[r.IntN(4)]
		nbfK = []string{"absent", "past", "future"}[r.IntN(3)]
	}
	c.ExpOff, c.NbfOff = "absent", "absent"
	if expK != "absent" {
		d := signedOff(r, expK == "future")
		t := base.Add(d)
		c.exp, c.ExpOff = &t, d.String()
	}
	if nbfK != "absent" {
		d := signedOff(r, nbfK == "future")
		t := base.Add(d)
		c.nbf, c.NbfOff = &t, d.String()
	}
	c.Zone = []int{0, 0, 120, -330, 765}[r.IntN(5)]
	if r.IntN(5) < 3 {
		c.Username = strp(tokenUsers[r.IntN(len(tokenUsers))])
	}
	c.Perms = randPerms(r)
	if c.Group == "" && r.IntN(3) > 0 && !contains(c.Perms, "admin") {
		c.Perms = append(c.Perms, "admin")
	}
	c.Written = "update"
	if r.IntN(3) == 0 {
		c.Written = "file"
	}
	if r.IntN(4) > 0 {
		c.Users = configuredUsers[:1+r.IntN(len(configuredUsers))]
	}
	c.Client, c.ClientK = pickClient(r, c.Username, c.Users)
	c.FromFile = r.IntN(8) == 0

	// the oracle
	c.Rel = relation(c.TGroup, c.Group)
	var broken []string
	if !scopeOK(c.TGroup, c.Group, c.Sub) {
		l := "scope-" + c.Rel
		if c.Group == "" {
			l = "scope-server-wide-" + c.Rel
		}
		if c.Sub {
			l += "-subgroups"
		}
		broken = append(broken, l)
	}
	switch expK {
	case "absent":
		broken = append(broken, "no-expiry")
	case "past":
		broken = append(broken, "expired")
	}
	if nbfK == "future" {
		broken = append(broken, "not-before-future")
	}
	c.Valid = len(broken) == 0
	c.Label = strings.Join(broken, "+")
	if c.Valid {
		c.Label = "valid-" + c.Rel
		if c.Group == "" {
			c.Label = "valid-server-wide"
		}
	}
	return c
}

func (c *stCase) zone() *time.Location {
	if c.Zone == 0 {
		return time.UTC
	}
	return time.FixedZone("", c.Zone*60)
}

func (c *stCase) fileLine() []byte {
	l := stFileLine{Token: c.Name, Group: c.TGroup, IncludeSubgroups: c.Sub, Username: c.Username, Permissions: c.Perms}
	if c.exp != nil {
		l.Expires = strp(c.exp.In(c.zone()).Format(time.RFC3339Nano))
	}
	if c.nbf != nil {
		l.NotBefore = strp(c.nbf.In(c.zone()).Format(time.RFC3339Nano))
	}
	if c.Idx%5 == 0 {
		l.IssuedBy = strp("harness")
	}
	b, _ := json.Marshal(l)
	return append(b, '\n')
}

func (c *stCase) galeneToken() *token.Stateful {
	t := &token.Stateful{Token: c.Name, Group: c.TGroup, IncludeSubgroups: c.Sub, Username: c.Username,
		Permissions: append([]string(nil), c.Perms...)}
	if c.exp != nil {
		e := c.exp.In(c.zone())
		t.Expires = &e
	}
	if c.nbf != nil {
		n := c.nbf.In(c.zone())
		t.NotBefore = &n
	}
	return t
}

// writeStateful stores the tokens of a batch: the "file" ones appended to the
// JSONL file by the harness, the others through token.Update.
func writeStateful(run *vk.Run, file string, cases []*stCase) bool {
	var buf []byte
	for _, c := range cases {
		if c.Written == "file" {
			buf = append(buf, c.fileLine()...)
		}
	}
	if len(buf) > 0 {
		os.MkdirAll(filepath.Dir(file), 0o700)
		f, err := os.OpenFile(file, os.O_CREATE|os.O_WRONLY|os.O_APPEND, 0o600)
		if err == nil {
			_, err = f.Write(buf)
			if e := f.Close(); err == nil {
				err = e
			}
		}
		if err != nil {
			run.Inconclusive("cannot append to the token file: " + err.Error())
			return false
		}
	}
	for _, c := range cases {
		if c.Written != "update" {
			continue
		}
		if _, err := token.Update(c.galeneToken(), ""); err != nil {
			run.Inconclusive(fmt.Sprintf("harness setup: token.Update of a new token failed: %v", err))
			return false
		}
	}
	return true
}

func evalStateful(run *vk.Run, c *stCase, host string, phase int, base time.Time) {
	run.Eval(1)
	var keys []map[string]any
	if c.Idx%3 == 0 { // a stateful token is looked up whatever keys the group has
		k := &keyMat{alg: "HS256", secret: []byte("0123456789abcdef0123456789abcdef")}
		keys = []map[string]any{k.jwk()}
	}
	desc := makeDesc(run, c.Group, c.Users, keys, c.FromFile, c.Idx%2 == 0)
	direct := observeDirect(c.Name, keys, host, c.Group)
	gp := observeGP(desc, c.Group, c.Client, c.Name)
	tc := &tcase{kind: "stateful", label: c.Label, valid: c.Valid, stateful: true,
		tokenUser: c.Username, tokenPerms: c.Perms, clientUser: c.Client, users: c.Users, base: base,
		replay: map[string]any{"kind": "stateful", "index": c.Idx, "phase": phase, "canonical_host": host, "case": c}}
	judge(run, tc, direct, gp)
	um := "token-user"
	if c.Username == nil {
		um = "no-token-user"
	}
	run.Distinct(fmt.Sprintf("stateful|%s|%s|%s|sub=%v|%s|%s", c.Label, c.Written, c.Rel, c.Sub, um, c.ClientK))
	if c.Group == "" {
		run.Count("server_wide_cases", 1)
		if c.Valid && direct.ok && contains(direct.perms, "admin") {
			run.Count("server_wide_admin_accepted", 1)
		}
	}
	if c.Idx < 2 {
		run.Sample(map[string]any{"kind": "stateful", "case": c, "check": direct.String(), "getpermission": gp.String()})
	}
}

// ---------------------------------------------------------------------------
// keys and JWS (issuer side, independent of the verifying library)

type keyMat struct {
	alg    string // algorithm declared in the JWK
	secret []byte
	ec     *ecdsa.PrivateKey
	rsa    *rsa.PrivateKey
	kid    string
	extras bool
}

func b64(b []byte) string { return base64.RawURLEncoding.EncodeToString(b) }

func (k *keyMat) jwk() map[string]any {
	var m map[string]any
	switch {
	case k.secret != nil:
		m = map[string]any{"kty": "oct", "alg": k.alg, "k": b64(k.secret)}
	case k.ec != nil:
		x, y := make([]byte, 32), make([]byte, 32)
		k.ec.X.FillBytes(x)
		k.ec.Y.FillBytes(y)
		m = map[string]any{"kty": "EC", "alg": k.alg, "crv": "P-256", "x": b64(x), "y": b64(y)}
	default:
		m = map[string]any{"kty": "RSA", "alg": k.alg, "n": b64(k.rsa.N.Bytes()), "e": "AQAB"}
	}
	if k.kid != "" {
		m["kid"] = k.kid
	}
	if k.extras {
		m["use"] = "sig"
		m["key_ops"] = []any{"verify"}
	}
	return m
}

func hsLen(alg string) int {
	switch alg {
	case "HS256":
		return 32
	case "HS384":
		return 48
	}
	return 64
}

func hsHash(alg string) func() hash.Hash {
	switch alg {
	case "HS256":
		return sha256.New
	case "HS384":
		return sha512.New384
	}
	return sha512.New
}

func hmacSign(alg string, secret []byte, input string) []byte {
	h := hmac.New(hsHash(alg), secret)
	h.Write([]byte(input))
	return h.Sum(nil)
}

// jwsSign signs input under header algorithm alg with key k.
func jwsSign(alg string, k *keyMat, input string) ([]byte, error) {
	switch alg {
	case "HS256", "HS384", "HS512":
		return hmacSign(alg, k.secret, input), nil
	case "ES256":
		d := sha256.Sum256([]byte(input))
		r, s, err := ecdsa.Sign(crand.Reader, k.ec, d[:])
		if err != nil {
			return nil, err
		}
		out := make([]byte, 64)
		r.FillBytes(out[:32])
		s.FillBytes(out[32:])
		return out, nil
	case "RS256":
		d := sha256.Sum256([]byte(input))
		return rsa.SignPKCS1v15(crand.Reader, k.rsa, crypto.SHA256, d[:])
	}
	return nil, errors.New("cannot sign with " + alg)
}

var rsaPool []*rsa.PrivateKey

func genRSAPool(n int) error {
	rsaPool = make([]*rsa.PrivateKey, n)
	errs := make([]error, n)
	var wg sync.WaitGroup
	for i := range rsaPool {
		wg.Add(1)
		go func(i int) {
			defer wg.Done()
			rsaPool[i], errs[i] = rsa.GenerateKey(crand.Reader, 2048)
		}(i)
	}
	wg.Wait()
	return errors.Join(errs...)
}

var jwtAlgs = []string{"HS256", "HS384", "HS512", "ES256", "ES256", "RS256", "HS256", "ES256"}

// newKey makes fresh key material for alg; RSA keys come from the pool
// (avoid names the index of a pool key that must not be returned).
func newKey(r *rand.Rand, alg string, avoid *rsa.PrivateKey) (*keyMat, error) {
	k := &keyMat{alg: alg, extras: r.IntN(4) == 0}
	switch alg {
	case "HS256", "HS384", "HS512":
		k.secret = make([]byte, hsLen(alg))
		for i := range k.secret {
			k.secret[i] = byte(r.UintN(256))
		}
	case "ES256":
		p, err := ecdsa.GenerateKey(elliptic.P256(), crand.Reader)
		if err != nil {
			return nil, err
		}
		k.ec = p
	case "RS256":
		for {
			k.rsa = rsaPool[r.IntN(len(rsaPool))]
			if k.rsa != avoid {
				break
			}
		}
	}
	return k, nil
}

// ---------------------------------------------------------------------------
// JWT cases

var jwtPerts = []string{
	"valid", "wrong-key", "valid-ancestor-subgroups", "alg-mismatch", "other-host", "alg-none",
	"valid", "confusion-rsa", "confusion-ec", "kid-other", "no-keys", "alg-unknown",
	"valid-ancestor-subgroups", "no-exp", "expired", "nbf-future", "iat-future", "other-host",
	"valid", "aud-string-prefix", "aud-string-prefix", "aud-ancestor-no-subgroups", "aud-descendant", "aud-unrelated",
	"valid", "aud-no-trailing-slash", "aud-no-trailing-slash", "aud-bad-path", "tampered", "sig-corrupt",
	"aud-split-across-entries", "valid-second-aud-entry", "aud-split-across-entries",
}

// rejectedPerts are the perturbation kinds that must have been observed rejected.
var rejectedPerts = []string{"wrong-key", "alg-mismatch", "other-host", "alg-none", "confusion-rsa", "confusion-ec",
	"kid-other", "no-keys", "alg-unknown", "no-exp", "expired", "nbf-future", "iat-future", "aud-string-prefix",
	"aud-ancestor-no-subgroups", "aud-descendant", "aud-unrelated", "aud-no-trailing-slash", "aud-bad-path",
	"tampered", "sig-corrupt", "aud-split-across-entries"}

var validVariants = []string{"valid", "valid-ancestor-subgroups", "valid-other-host-no-canonical", "valid-second-aud-entry"}

type jwtCase struct {
	Idx       uint64           `json:"index"`
	Pert      string           `json:"perturbation"`
	Detail    string           `json:"detail,omitempty"`
	Alg       string           `json:"header_alg"`
	KeyAlg    string           `json:"signing_key_alg"`
	KidMode   string           `json:"kid_usage"`
	Keys      []map[string]any `json:"group_keys_jwk"`
	Header    map[string]any   `json:"header"`
	Claims    map[string]any   `json:"claims"`
	Token     string           `json:"token"`
	Host      string           `json:"canonical_host"`
	Group     string           `json:"group"`
	AudGroup  string           `json:"aud_group"`
	Rel       string           `json:"relation"`
	Client    *string          `json:"client_username"`
	ClientK   string           `json:"client_kind"`
	Users     []string         `json:"configured_users"`
	FromFile  bool             `json:"description_from_file"`
	Valid     bool             `json:"valid"`
	tokenUser *string
	perms     []string
}

var foreignHosts = []string{"other.example.com", "galene.example.org", "galene.example.org:8444", "conf.example.net:8443",
	"localhost:8443", "[::1]:8443", "192.0.2.7"}

func otherHost(r *rand.Rand, host string) string {
	for {
		var h string
		switch r.IntN(6) {
		case 0:
			h = "evil-" + host
		case 1:
			name, port, hasPort := strings.Cut(host, ":")
			h = name + ".evil.example"
			if hasPort {
				h += ":" + port
			}
		case 2:
			h = host + "@evil.example" // userinfo trick: the URL's host is evil.example
		case 3:
			h = "www." + host
		default:
			h = foreignHosts[r.IntN(len(foreignHosts))]
		}
		if !strings.EqualFold(h, host) {
			return h
		}
	}
}

func encodeJWS(header, claims map[string]any) (string, error) {
	h, err := json.Marshal(header)
	if err != nil {
		return "", err
	}
	c, err := json.Marshal(claims)
	if err != nil {
		return "", err
	}
	return b64(h) + "." + b64(c), nil
}

func genJWT(run *vk.Run, idx uint64, host string, base time.Time) (*jwtCase, error) {
	r := run.Rand(2, idx)
	c := &jwtCase{Idx: idx, Host: host}
	pert := jwtPerts[idx%uint64(len(jwtPerts))]
	if pert == "aud-split-across-entries" && host == "" {
		// without a canonical host any host is accepted, so "right group on another host"
		// alone would be valid: the case only exists when a canonical host is configured
		pert = "aud-unrelated"
	}
	if pert == "other-host" && host == "" {
		pert = "valid-other-host-no-canonical"
	}
	c.Pert = pert
	alg := jwtAlgs[r.IntN(len(jwtAlgs))]
	switch pert {
	case "alg-mismatch":
		alg = []string{"HS256", "HS384", "HS512"}[r.IntN(3)]
	case "confusion-rsa":
		alg = "RS256"
	case "confusion-ec":
		alg = "ES256"
	case "alg-unknown":
		alg = "HS256"
	}
	c.KeyAlg = alg // algorithm of the genuine group key
	c.Alg = alg    // header algorithm

	// ---- scope ------------------------------------------------------------
	c.Group = randGroup(r, 1, 3)
	c.AudGroup = c.Group
	inc := []string{"absent", "true", "false"}[r.IntN(3)]
	slash := true
	badPath := ""
	switch pert {
	case "valid-ancestor-subgroups":
		c.AudGroup, c.Group = genPair(r, "ancestor")
		inc = "true"
	case "aud-string-prefix":
		c.AudGroup, c.Group = genPair(r, "string-prefix")
		if r.IntN(4) > 0 {
			inc = "true"
		}
	case "aud-ancestor-no-subgroups":
		if r.IntN(3) == 0 {
			c.AudGroup, c.Group = genPair(r, "root")
		} else {
			c.AudGroup, c.Group = genPair(r, "ancestor")
		}
		inc = []string{"absent", "false"}[r.IntN(2)]
	case "aud-descendant":
		c.AudGroup, c.Group = genPair(r, "descendant")
	case "aud-unrelated":
		c.AudGroup, c.Group = genPair(r, "unrelated")
	case "aud-no-trailing-slash":
		slash = false
		if r.IntN(3) > 0 {
			inc = "true"
		}
		if r.IntN(3) == 0 {
			c.AudGroup, c.Group = genPair(r, "ancestor")
			inc = "true"
		}
	case "aud-bad-path":
		badPath = []string{"/", "/" + c.Group + "/", "/groups/" + c.Group + "/", "/recordings/" + c.Group + "/", "/public-groups/" + c.Group + "/"}[r.IntN(5)]
	}
	c.Rel = relation(c.AudGroup, c.Group)
	if inc == "true" {
		c.Rel += "-subgroups"
	}

	// ---- keys -------------------------------------------------------------
	signer, err := newKey(r, alg, nil)
	if err != nil {
		return nil, err
	}
	set := []*keyMat{signer} // the group's keys
	signWith := signer       // the key the token is really signed with
	nOther := r.IntN(4)
	switch pert {
	case "confusion-rsa", "confusion-ec":
		nOther = r.IntN(2)
	}
	for i := 0; i < nOther; i++ {
		a := jwtAlgs[r.IntN(len(jwtAlgs))]
		if strings.HasPrefix(pert, "confusion-") {
			a = alg
		}
		k, err := newKey(r, a, signer.rsa)
		if err != nil {
			return nil, err
		}
		if a == "RS256" { // pool keys: never the same key twice in a set
			dup := false
			for _, o := range set {
				if o.rsa == k.rsa {
					dup = true
				}
			}
			if dup {
				continue
			}
		}
		set = append(set, k)
	}
	kidMode := []string{"nokid", "kid", "keykid-only"}[r.IntN(3)]
	tokenKid := ""
	switch pert {
	case "kid-other":
		// two keys of the same algorithm, each with a kid; the token is
		// signed by one and names the other
		other, err := newKey(r, alg, signer.rsa)
		if err != nil {
			return nil, err
		}
		set = append(set, other)
		kidMode = "kid"
	case "wrong-key":
		// signed by a key the group does not have
		if r.IntN(10) < 3 {
			// the group has no key of that algorithm at all
			c.Detail = "no-key-of-that-alg"
			set = set[:0]
			for len(set) == 0 || r.IntN(2) == 0 {
				a := jwtAlgs[r.IntN(len(jwtAlgs))]
				if a == alg {
					continue
				}
				k, err := newKey(r, a, nil)
				if err != nil {
					return nil, err
				}
				set = append(set, k)
				if len(set) >= 3 {
					break
				}
			}
		} else {
			c.Detail = "other-key-same-alg"
			w, err := newKey(r, alg, signer.rsa)
			if err != nil {
				return nil, err
			}
			signWith = w
			if w.rsa != nil { // pool key: make sure the group does not hold it
				kept := set[:0]
				for _, k := range set {
					if k.rsa != w.rsa {
						kept = append(kept, k)
					}
				}
				set = kept
			}
		}
	}
	r.Shuffle(len(set), func(i, j int) { set[i], set[j] = set[j], set[i] })
	if kidMode != "nokid" {
		for i, k := range set {
			k.kid = fmt.Sprintf("key-%d-%d", idx, i)
		}
		if kidMode == "kid" {
			tokenKid = signer.kid // "" when the signer is not in the set (wrong-key/no-key-of-that-alg)
			if pert == "wrong-key" && c.Detail == "no-key-of-that-alg" {
				tokenKid = set[0].kid
			}
		}
	}
	if pert == "kid-other" {
		for _, k := range set {
			if k != signer && k.alg == alg {
				tokenKid = k.kid
			}
		}
	}
	c.KidMode = kidMode

	// ---- claims -----------------------------------------------------------
	now := base.Unix()
	off := func(future bool) int64 { return int64(signedOff(r, future) / time.Second) }
	claims := map[string]any{}
	if r.IntN(4) > 0 {
		c.tokenUser = strp(tokenUsers[r.IntN(len(tokenUsers))])
		claims["sub"] = *c.tokenUser
	}
	if r.IntN(8) > 0 {
		c.perms = randPerms(r)
		ps := make([]any, len(c.perms))
		for i, p := range c.perms {
			ps[i] = p
		}
		claims["permissions"] = ps
	}
	claims["exp"] = now + off(true)
	if r.IntN(2) == 0 {
		claims["iat"] = now + off(false)
	}
	if r.IntN(2) == 0 {
		claims["nbf"] = now + off(false)
	}
	if r.IntN(3) == 0 {
		claims["iss"] = "https://auth.example.org/"
	}
	switch pert {
	case "no-exp":
		delete(claims, "exp")
	case "expired":
		claims["exp"] = now + off(false)
	case "nbf-future":
		claims["nbf"] = now + off(true)
		claims["exp"] = now + 3*86400
	case "iat-future":
		claims["iat"] = now + off(true)
		claims["exp"] = now + 3*86400
	}
	switch inc {
	case "true":
		claims["include-subgroups"] = true
	case "false":
		claims["include-subgroups"] = false
	}
	audHost := host
	if host == "" {
		audHost = foreignHosts[r.IntN(len(foreignHosts))]
	}
	if pert == "other-host" || pert == "valid-other-host-no-canonical" {
		h := host
		if h == "" {
			h = "galene.example.org:8443"
		}
		audHost = otherHost(r, h)
	}
	path := "/group/" + c.AudGroup + "/"
	if c.AudGroup == "" {
		path = "/group/"
	}
	if !slash {
		path = strings.TrimSuffix(path, "/")
	}
	if badPath != "" {
		path = badPath
	}
	scheme := "https"
	if r.IntN(6) == 0 {
		scheme = "http"
	}
	aud := scheme + "://" + audHost + path
	if r.IntN(3) == 0 {
		claims["aud"] = []any{aud}
	} else {
		claims["aud"] = aud
	}
	switch pert {
	case "aud-split-across-entries":
		// no single entry names both this server and this group: one names this host with
		// another group, the other names the wanted group on another host
		other := "zzother" // first component outside the generator's alphabet: unrelated to the group
		if r.IntN(2) == 0 {
			other = "zzother/" + c.Group
		}
		e1 := scheme + "://" + host + "/group/" + other + "/"
		e2 := scheme + "://" + otherHost(r, host) + path
		if r.IntN(2) == 0 {
			e1, e2 = e2, e1
		}
		claims["aud"] = []any{e1, e2}
	case "valid-second-aud-entry":
		// several entries, one of which is fully right
		other := "zzother"
		wrong := scheme + "://" + audHost + "/group/" + other + "/"
		if r.IntN(2) == 0 {
			claims["aud"] = []any{wrong, aud}
		} else {
			claims["aud"] = []any{aud, wrong}
		}
	}

	// ---- header, signature --------------------------------------------------
	header := map[string]any{"alg": alg}
	if r.IntN(4) > 0 {
		header["typ"] = "JWT"
	}
	if tokenKid != "" {
		header["kid"] = tokenKid
	}
	var sig []byte
	var input string
	switch pert {
	case "alg-mismatch":
		// the group's key is declared for `alg`; the token says and uses another HMAC
		var halg string
		for {
			halg = []string{"HS256", "HS384", "HS512"}[r.IntN(3)]
			if halg != alg {
				break
			}
		}
		c.Alg = halg
		header["alg"] = halg
		if input, err = encodeJWS(header, claims); err != nil {
			return nil, err
		}
		sig = hmacSign(halg, signer.secret, input)
	case "alg-none":
		c.Alg = []string{"none", "none", "None", "NONE", "nOnE"}[r.IntN(5)]
		header["alg"] = c.Alg
		if input, err = encodeJWS(header, claims); err != nil {
			return nil, err
		}
		sig = nil
		if r.IntN(4) == 0 { // or a real signature left in place under the 'none' label
			c.Detail = "signature-kept"
			if sig, err = jwsSign(alg, signer, input); err != nil {
				return nil, err
			}
		}
	case "alg-unknown":
		choices := []string{"HS257", "PS256", "EdDSA", "hs256", "HS256 ", "", "<absent>", "<number>"}
		c.Alg = choices[r.IntN(len(choices))]
		switch c.Alg {
		case "<absent>":
			delete(header, "alg")
		case "<number>":
			header["alg"] = 256
		default:
			header["alg"] = c.Alg
		}
		if input, err = encodeJWS(header, claims); err != nil {
			return nil, err
		}
		sig = hmacSign("HS256", signer.secret, input)
	case "confusion-rsa", "confusion-ec":
		// HMAC keyed with the group's *public* key material
		var pub []byte
		var pk any
		if pert == "confusion-rsa" {
			pk = &signer.rsa.PublicKey
		} else {
			pk = &signer.ec.PublicKey
		}
		der, err := x509.MarshalPKIXPublicKey(pk)
		if err != nil {
			return nil, err
		}
		switch r.IntN(3) {
		case 0:
			c.Detail = "raw-public-bytes"
			if pert == "confusion-rsa" {
				pub = signer.rsa.N.Bytes()
			} else {
				pub = make([]byte, 64)
				signer.ec.X.FillBytes(pub[:32])
				signer.ec.Y.FillBytes(pub[32:])
			}
		case 1:
			c.Detail = "pkix-der"
			pub = der
		default:
			c.Detail = "pkix-pem"
			pub = pem.EncodeToMemory(&pem.Block{Type: "PUBLIC KEY", Bytes: der})
		}
		c.Alg = []string{"HS256", "HS256", "HS384", "HS512"}[r.IntN(4)]
		header["alg"] = c.Alg
		if input, err = encodeJWS(header, claims); err != nil {
			return nil, err
		}
		sig = hmacSign(c.Alg, pub, input)
	default:
		if input, err = encodeJWS(header, claims); err != nil {
			return nil, err
		}
		if sig, err = jwsSign(alg, signWith, input); err != nil {
			return nil, err
		}
	}
	switch pert {
	case "tampered":
		// change a claim after signing and keep the signature
		orig := input
		which := r.IntN(4)
		for input == orig {
			switch which {
			case 0:
				c.Detail = "permissions"
				claims["permissions"] = []any{"op", "present", "record", "admin", "token"}
				c.perms = []string{"op", "present", "record", "admin", "token"}
			case 1:
				c.Detail = "sub"
				claims["sub"] = "root"
				c.tokenUser = strp("root")
			case 2:
				c.Detail = "exp"
				claims["exp"] = now + 30*86400
			default:
				c.Detail = "include-subgroups"
				if inc == "true" {
					claims["include-subgroups"] = false
				} else {
					claims["include-subgroups"] = true
				}
			}
			if input, err = encodeJWS(header, claims); err != nil {
				return nil, err
			}
			which = (which + 1) % 4
		}
	case "sig-corrupt":
		if r.IntN(4) == 0 {
			c.Detail = "truncated"
			sig = sig[:len(sig)-1-r.IntN(len(sig)/2)]
		} else {
			c.Detail = "bit-flip"
			sig = append([]byte(nil), sig...)
			sig[r.IntN(len(sig))] ^= 1 << uint(r.IntN(8))
		}
	}
	c.Token = input + "." + b64(sig)
	c.Header, c.Claims = header, claims

	if pert != "no-keys" {
		for _, k := range set {
			c.Keys = append(c.Keys, k.jwk())
		}
	} else if r.IntN(2) == 0 {
		c.Keys = []map[string]any{}
	}

	if r.IntN(4) > 0 {
		c.Users = configuredUsers[:1+r.IntN(len(configuredUsers))]
	}
	c.Client, c.ClientK = pickClient(r, c.tokenUser, c.Users)
	c.FromFile = r.IntN(4) == 0
	c.Valid = contains(validVariants, pert)
	return c, nil
}

func evalJWT(run *vk.Run, idx uint64, host string, phase int) {
	run.Eval(1)
	base := time.Now()
	c, err := genJWT(run, idx, host, base)
	if err != nil {
		run.Inconclusive(fmt.Sprintf("harness could not build JWT case %d: %v", idx, err))
		return
	}
	desc := makeDesc(run, c.Group, c.Users, c.Keys, c.FromFile && len(c.Keys) > 0, idx%2 == 0)
	direct := observeDirect(c.Token, c.Keys, host, c.Group)
	gp := observeGP(desc, c.Group, c.Client, c.Token)
	tc := &tcase{kind: "jwt", label: c.Pert, alg: c.Alg, valid: c.Valid, stateful: false,
		tokenUser: c.tokenUser, tokenPerms: c.perms, clientUser: c.Client, users: c.Users, base: base,
		replay: map[string]any{"kind": "jwt", "index": idx, "phase": phase, "case": c}}
	judge(run, tc, direct, gp)
	run.Distinct(fmt.Sprintf("jwt|%s|%s|%s|%s|%s|%s", c.Pert, c.Detail, c.Alg, c.KeyAlg, c.KidMode, c.Rel))
	if len(c.Keys) > 1 {
		run.Count("jwt_multi_key_sets", 1)
	}
	if idx < 2 {
		run.Sample(map[string]any{"kind": "jwt", "case": c, "check": direct.String(), "getpermission": gp.String()})
	}
}

// ---------------------------------------------------------------------------
// phases (server configuration) and driver

type phase struct {
	host   string
	config string // "" => no config.json
}

// The phase without config.json comes first: once a configuration has been
// read, galene keeps it when the file disappears (outside this property).
var phases = []phase{
	{"", ""},
	{"galene.example.org:8443", `{"canonicalHost": "galene.example.org:8443"}`},
	{"", `{}`},
	{"conf.example.net", `{"canonicalHost": "conf.example.net", "writableGroups": true}`},
}

func setPhase(run *vk.Run, p phase) bool {
	path := filepath.Join(group.DataDirectory, "config.json")
	var err error
	if p.config == "" {
		err = os.Remove(path)
		if errors.Is(err, os.ErrNotExist) {
			err = nil
		}
	} else {
		err = os.WriteFile(path, []byte(p.config+"\n"), 0o644)
	}
	if err != nil {
		run.Inconclusive("cannot write config.json: " + err.Error())
		return false
	}
	conf, err := group.GetConfiguration()
	if err != nil || conf.CanonicalHost != p.host {
		run.Inconclusive(fmt.Sprintf("harness setup: GetConfiguration does not show canonicalHost %q (err %v)", p.host, err))
		return false
	}
	return true
}

// brokenConfigPhase: the last phase configured a canonical host; config.json is now replaced by
// something that does not load (a trailing comma, a half-written file, an unknown field, a
// directory permission).  A join may be refused for that reason, but no token that names
// another host, group or window than it may is accepted meanwhile.
func brokenConfigPhase(run *vk.Run, nJ uint64) {
	last := phases[len(phases)-1]
	path := filepath.Join(group.DataDirectory, "config.json")
	broken := []string{
		`{"canonicalHost": "` + last.host + `",}`,
		`{"canonicalHost": "` + last.host + `", "writableGroups": tr`,
		`{"canonicalHost": "` + last.host + `", "cannonicalHost": "x"}`,
		``,
	}
	n := uint64(run.Pick(400, 8000))
	for k, text := range broken {
		if err := os.WriteFile(path, []byte(text), 0o644); err != nil {
			run.Inconclusive("cannot write config.json: " + err.Error())
			return
		}
		if _, err := group.GetConfiguration(); err == nil {
			// this text loads after all (not every galene version rejects it): not a broken phase
			run.Count("broken_configurations_that_load", 1)
			continue
		}
		run.Count("broken_configurations_installed", 1)
		lo := nJ + uint64(k)*n
		parallel(int(n), func(i int) {
			idx := lo + uint64(i)
			run.Eval(1)
			c, err := genJWT(run, idx, last.host, time.Now())
			if err != nil {
				return
			}
			desc := makeDesc(run, c.Group, c.Users, c.Keys, c.FromFile && len(c.Keys) > 0, idx%2 == 0)
			gp := observeGP(desc, c.Group, c.Client, c.Token)
			switch {
			case gp.ok && !c.Valid:
				run.Violation("jwt-accepts:"+c.Pert+":configuration-unreadable",
					fmt.Sprintf("while config.json (canonicalHost %q before) does not load, GetPermission accepted a JWT with perturbation %s (%s) for group %q: %s", last.host, c.Pert, c.Detail, c.Group, gp),
					map[string]any{"kind": "jwt", "index": idx, "phase": len(phases) - 1, "broken_config": text, "case": c})
			case gp.ok:
				run.Count("accepted_while_configuration_unreadable", 1)
			default:
				run.Count("refused_while_configuration_unreadable", 1)
				if !c.Valid {
					run.Count("refused_while_configuration_unreadable:"+c.Pert, 1)
				}
			}
			run.Distinct(fmt.Sprintf("jwt-broken-config|%d|%s|%s", k, c.Pert, c.Alg))
		})
	}
	// leave a loadable configuration behind
	os.WriteFile(path, []byte(last.config+"\n"), 0o644)
	group.GetConfiguration()
}

func parallel(n int, f func(i int)) {
	workers := runtime.GOMAXPROCS(0)
	var next atomic.Int64
	var wg sync.WaitGroup
	for w := 0; w < workers; w++ {
		wg.Add(1)
		go func() {
			defer wg.Done()
			for {
				i := int(next.Add(1) - 1)
				if i >= n {
					return
				}
				f(i)
			}
		}()
	}
	wg.Wait()
}

var tokenFileN int

func newTokenFile() string {
	tokenFileN++
	f := filepath.Join(group.DataDirectory, "var", fmt.Sprintf("tokens-%d.jsonl", tokenFileN))
	token.SetStatefulFilename(f)
	return f
}

func statefulBlock(run *vk.Run, lo, hi uint64, ph int) {
	const batch = 500
	var file string
	nb := 0
	for s := lo; s < hi; s += batch {
		if nb%10 == 0 {
			file = newTokenFile()
		}
		nb++
		e := min(s+batch, hi)
		base := time.Now()
		cases := make([]*stCase, 0, e-s)
		for i := s; i < e; i++ {
			cases = append(cases, genStateful(run, i, base))
		}
		if !writeStateful(run, file, cases) {
			return
		}
		parallel(len(cases), func(i int) { evalStateful(run, cases[i], phases[ph].host, ph, base) })
	}
}

func main() {
	run := vk.Start("C09")
	group.DataDirectory = filepath.Join(run.Scratch, "data")
	group.Directory = filepath.Join(run.Scratch, "groups")
	for _, d := range []string{group.DataDirectory, group.Directory} {
		if err := os.MkdirAll(d, 0o755); err != nil {
			run.Inconclusive("cannot create " + d + ": " + err.Error())
			run.Finish("exploration", "setup failed")
		}
	}
	if err := genRSAPool(run.Pick(4, 8)); err != nil {
		run.Inconclusive("RSA key generation failed: " + err.Error())
		run.Finish("exploration", "setup failed")
	}

	if rep, ok := vk.ReplayInput(); ok {
		// The recorded case is regenerated from (seed, kind, index, phase) with
		// fresh keys and a fresh time base; the literal token in the file is for
		// reading, its absolute times are stale.
		if s, ok := rep["seed"].(float64); ok {
			run.Seed = int64(s)
		}
		if m, ok := rep["replay"].(map[string]any); ok {
			idx, _ := m["index"].(float64)
			ph, _ := m["phase"].(float64)
			p := int(ph) % len(phases)
			if setPhase(run, phases[p]) {
				// the recorded case, then the next 15 indices of the same kind
				// as context (the evidence schema wants more than one case)
				switch m["kind"] {
				case "stateful":
					statefulBlock(run, uint64(idx), uint64(idx)+16, p)
				case "jwt":
					for i := uint64(idx); i < uint64(idx)+16; i++ {
						evalJWT(run, i, phases[p].host, p)
					}
				}
			}
		}
		run.Finish("exploration", "replay: the recorded case regenerated from (seed, kind, index, phase) followed by the next 15 indices of the same kind")
	}

	nS := uint64(run.Pick(4000, 200000))
	nJ := uint64(run.Pick(1500, 75000))
	np := uint64(len(phases))
	for p := range phases {
		if !setPhase(run, phases[p]) {
			break
		}
		up := uint64(p)
		statefulBlock(run, up*nS/np, (up+1)*nS/np, p)
		lo, hi := up*nJ/np, (up+1)*nJ/np
		parallel(int(hi-lo), func(i int) { evalJWT(run, lo+uint64(i), phases[p].host, p) })
	}

	brokenConfigPhase(run, nJ)

	run.Set("stateful_cases", nS)
	run.Set("jwt_cases", nJ)
	run.Set("token_files", tokenFileN)
	if d := discarded.Load(); d > 0 {
		run.Count("cases_discarded_clock", d)
		run.Inconclusive(fmt.Sprintf("%d cases were evaluated more than 60 s after their time base (or the wall clock jumped); no verdict for them", d))
	}
	for _, a := range []string{"HS256", "HS384", "HS512", "ES256", "RS256"} {
		run.FloorCounter("accepted_"+a, 1)
	}
	for _, v := range validVariants {
		run.FloorCounter("accepted_variant_"+v, 1)
	}
	for _, p := range rejectedPerts {
		run.FloorCounter("rejected_"+p, 1)
	}
	run.FloorCounter("accepted_stateful", 100)
	run.FloorCounter("rejected_stateful", 100)
	for _, l := range []string{"scope", "no-expiry", "expired", "not-before-future"} {
		run.FloorCounter("rejected_stateful_"+l, 20)
	}
	run.FloorCounter("server_wide_admin_accepted", 1)
	run.FloorCounter("username_token_overrides", 50)
	run.FloorCounter("username_token_overrides_configured", 10)
	run.FloorCounter("username_free_accepted", 20)
	run.FloorCounter("username_configured_refused", 20)
	run.FloorCounter("username_required", 5)
	run.FloorCounter("descriptions_loaded_from_file", 50)
	run.FloorCounter("broken_configurations_installed", 2)
	run.FloorCounter("refused_while_configuration_unreadable:other-host", 5)

	run.Assume("the harness is the only issuer: stateful tokens are those it wrote (token.Update or JSONL lines), JWTs are signed by its own JWS code with keys it generated; a forged signature is not attempted beyond the listed perturbations")
	run.Assume("all validity-window offsets are >= 120 s from the time base of the case and every case is evaluated within 60 s of it, so the library's 5 s leeway and scheduling delays cannot change a verdict")
	run.Assume("checkGlobalAdminToken is unexported: its rule is covered as token.Parse(tok, nil).Check(host, \"\") - only a root token covering subgroups authorises the server-wide scope \"\"; with nil keys no JWT can verify (perturbation no-keys)")
	run.Assume("a JWT whose kid names another key of the set than the one that signed it is expected to be refused (DESIGN.md C09); an audience host differing only in letter case is never generated; a JWT for the root audience /group/ with include-subgroups is not demanded to be accepted")
	run.Finish("exploration", "cases generated from (seed,index). Stateful: (token group, joined group) drawn by relation class (same, ancestor, root, descendant, string-prefix such as a vs ab, unrelated, server-wide \"\") over components {a,b,ab,c,bc,abc}, includeSubgroups on/off, expires/not-before absent or at +-120 s/1 h/1 day, written through token.Update or as JSONL lines; 36% valid, 50% exactly one rule broken, rest random; expected = component-wise scope and signed offsets. JWT: one perturbation per case from a fixed rotation (valid variants, wrong key, declared-alg mismatch, alg none/unknown, RSA/EC public key used as HMAC secret, kid of another key, no keys, no exp, expired, nbf/iat in the future, other host with/without canonicalHost, sibling/ancestor/descendant/unrelated audience, missing trailing slash, wrong path, tampered payload, corrupted signature) over HS256/384/512, ES256, RS256 and key sets of 1-5 keys with/without kid; each case is observed through token.Parse+Check and Description.GetPermission (descriptions built directly or loaded from group files) under 4 server configurations; username clauses checked on every accepted case. distinct_nontrivial = distinct (kind, rule/perturbation+detail, header alg, key alg, kid usage, written-by, relation class, subgroups, username mode) tuples")
}
