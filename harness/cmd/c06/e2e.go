package main

// Receive-loop tier of C06: the REAL readLoop / nackWriter / sendUpRTCP over real
// PeerConnections.  A pion publisher sends an id-tagged VP8 stream with scripted loss,
// duplication and reordering; the three verif trace points in rtpconn give the server-side
// total order of "stored seqno" and "NACK sent" events of the up track, to which the same
// oracle as in the cache tier is applied.  The NACKs the publisher's PeerConnection really
// receives are cross-checked against the trace, so the hook cannot drift from the wire.

import (
	"fmt"
	"math/rand/v2"
	"os"
	"sort"
	"strings"
	"sync"
	"time"

	"github.com/pion/rtcp"

	"github.com/jech/galene/rtpconn"

	"verif/harness/vclient"
	"verif/harness/vk"
	"verif/harness/vrtc"
	"verif/harness/vsrv"
)

type e2eArgs struct {
	Index    uint64 `json:"index"`
	Sessions int    `json:"sessions"`
	Packets  int    `json:"packets"`
}

type traceEv struct {
	kind int
	a, b uint16
}

var traces struct {
	mu sync.Mutex
	m  map[uint32][]traceEv
}

func e2eChild() {
	run := vk.Start("C06")
	var a e2eArgs
	vk.ChildArgs(&a)
	traces.m = map[uint32][]traceEv{}
	rtpconn.VerifSetTraceHook(func(ssrc uint32, kind int, x, y uint16) {
		if kind != rtpconn.VerifTraceStored && kind != rtpconn.VerifTraceLoopNACK && kind != rtpconn.VerifTraceWriterNACK {
			return // trace points of other checks (down tracks)
		}
		traces.mu.Lock()
		traces.m[ssrc] = append(traces.m[ssrc], traceEv{kind, x, y})
		traces.mu.Unlock()
	})
	srv, err := vsrv.Start(vsrv.Config{Root: os.Getenv("VERIF_CHILD_DIR"), LogToFile: true})
	if err != nil {
		run.Inconclusive("server start: " + err.Error())
		os.Exit(0)
	}
	var wg sync.WaitGroup
	for s := 0; s < a.Sessions; s++ {
		wg.Add(1)
		go func(s int) {
			defer wg.Done()
			e2eSession(run, srv, a, s)
		}(s)
	}
	wg.Wait()
	os.Exit(0)
}

type sendStep struct {
	seq   uint16
	id    uint32
	delay bool // sent a few packets late
}

func e2eSession(run *vk.Run, srv *vsrv.Server, a e2eArgs, s int) {
	r := run.Rand(9, a.Index, uint64(s))
	steady := s%2 == 0
	ahead := s%4 == 1 // a subscriber NACKs numbers ahead of a paused stream
	g := fmt.Sprintf("e%d-%d", a.Index, s)
	srv.WriteGroup(g, map[string]any{"users": map[string]any{"pres1": map[string]any{"password": "pw", "permissions": "present"}}})
	fail := func(key, what string, extra map[string]any) {
		rep := map[string]any{"e2e_batch": a.Index, "session": s, "steady": steady}
		for k, v := range extra {
			rep[k] = v
		}
		run.Violation(key, what, rep)
	}
	pc, err := vclient.Dial(srv, fmt.Sprintf("pub-%d-%d", a.Index, s))
	if err != nil {
		run.Undecided("dial: " + err.Error())
		return
	}
	defer pc.Close()
	pub := vrtc.NewPeer(pc)
	defer pub.Shutdown()
	if m, ok := pc.Join(g, "pres1", "pw"); !ok || m.Str("kind") != "join" {
		run.Undecided("publisher join failed")
		return
	}
	sc, err := vclient.Dial(srv, fmt.Sprintf("sub-%d-%d", a.Index, s))
	if err != nil {
		run.Undecided("dial: " + err.Error())
		return
	}
	defer sc.Close()
	sub := vrtc.NewPeer(sc)
	defer sub.Shutdown()
	if m, ok := sc.Join(g, "pres1", "pw"); !ok || m.Str("kind") != "join" {
		run.Undecided("subscriber join failed")
		return
	}
	sc.Send(vclient.Msg{"type": "request", "request": map[string]any{"": []string{"video"}}})
	up, err := pub.Publish(fmt.Sprintf("st-%d-%d", a.Index, s), "camera", []vrtc.TrackSpec{{Kind: "video", ID: "v0"}}, "")
	if err != nil || up.Wait(20*time.Second) != "connected" {
		run.Undecided("publisher did not connect")
		return
	}
	tr := up.Track("v0")
	ssrc := uint32(tr.Sender.GetParameters().Encodings[0].SSRC)
	// script
	start := uint16(r.UintN(65536))
	if r.IntN(2) == 0 {
		start = uint16(65536 - 200 - r.IntN(800)) // wrap during the session
	}
	n := a.Packets
	lost := map[int]bool{}
	dup := map[int]bool{}
	late := map[int]int{}
	pos := 120
	for pos < n-200 {
		switch {
		case steady:
			c := 1 + r.IntN(6)
			for k := 0; k < c; k++ {
				lost[pos+k] = true
			}
			if r.IntN(3) == 0 {
				dup[pos+c+30] = true
			}
			pos += c + 70 + r.IntN(60)
		default:
			switch r.IntN(4) {
			case 0:
				c := 1 + r.IntN(20)
				for k := 0; k < c; k++ {
					lost[pos+k] = true
				}
				pos += c
			case 1:
				dup[pos] = true
			case 2:
				late[pos] = 1 + r.IntN(12)
			default:
			}
			pos += 1 + r.IntN(25)
		}
	}
	// a packet lost for good shortly before the end (after the last keyframe, which is what
	// the NACK writer still forwards): the subject of the total-loss interval below
	lastLost := n - 12
	if lastLost%100 == 0 {
		lastLost++
	}
	lost[lastLost] = true
	delete(late, lastLost)
	type queued struct {
		at  int
		idx int
	}
	var pending []queued
	sentOrder := []int{}
	send := func(i int) {
		tr.Local.WriteRTP(vrtc.VP8Packet(start+uint16(i), uint32(i)*90, uint16(i), 0, i%100 == 0, uint32(i), 30))
		sentOrder = append(sentOrder, i)
	}
	pauseAt := -1
	if ahead {
		pauseAt = n * 2 / 3
	}
	for i := 0; i < n; i++ {
		for len(pending) > 0 && pending[0].at <= i {
			send(pending[0].idx)
			pending = pending[1:]
		}
		if i == pauseAt {
			// pause the stream; the subscriber asks for numbers the server has not received yet
			time.Sleep(150 * time.Millisecond)
			dn := sub.Downs()
			for _, d := range dn {
				for _, t := range d.Tracks() {
					pk := t.Packets()
					if len(pk) == 0 {
						continue
					}
					lastOut := pk[len(pk)-1].SequenceNumber
					d.PC.WriteRTCP([]rtcp.Packet{&rtcp.TransportLayerNack{MediaSSRC: uint32(t.Remote.SSRC()), Nacks: []rtcp.NackPair{{PacketID: lastOut + 3, LostPackets: 0x3}}}})
					run.Count("e2e_subscriber_nacks_ahead_of_stream", 1)
				}
			}
			time.Sleep(300 * time.Millisecond)
		}
		if lost[i] {
			continue
		}
		if d, ok := late[i]; ok {
			pending = append(pending, queued{i + d, i})
			sort.SliceStable(pending, func(x, y int) bool { return pending[x].at < pending[y].at })
			continue
		}
		send(i)
		if dup[i] {
			send(i)
		}
		if i%4 == 0 {
			time.Sleep(time.Millisecond)
		}
	}
	// let the loop's and the writer's NACKs and at least one more receiver report come out
	time.Sleep(1300 * time.Millisecond)
	if s%2 == 0 {
		totalLossInterval(run, fail, tr, sub, ssrc, lastLost)
	}
	traces.mu.Lock()
	evs := append([]traceEv(nil), traces.m[ssrc]...)
	traces.mu.Unlock()
	if len(evs) < n/2 {
		run.Inconclusive(fmt.Sprintf("only %d trace events for %d packets sent (media did not flow?)", len(evs), n))
		return
	}
	// ---- oracle over the server-side trace ----
	stored := map[int]bool{} // extended index (relative to start) of stored packets
	named := map[int]int{}   // index -> how many times the receive loop named it
	wnamed := map[int]int{}  // index -> named by the nack writer
	newest := -1
	ext := func(seq uint16) int { // unwrap around the newest stored
		ref := newest
		if ref < 0 {
			ref = 0
		}
		d := int(int16(seq - (start + uint16(ref))))
		return ref + d
	}
	var lines []string
	logl := func(s string) {
		lines = append(lines, s)
		if len(lines) > 400 {
			lines = lines[200:]
		}
	}
	nacks, storedN := 0, 0
	for _, e := range evs {
		switch e.kind {
		case rtpconn.VerifTraceStored:
			i := ext(e.a)
			stored[i] = true
			storedN++
			if i > newest {
				newest = i
			}
			logl(fmt.Sprintf("stored #%d (seq %d)", i, e.a))
		case rtpconn.VerifTraceLoopNACK, rtpconn.VerifTraceWriterNACK:
			var list []uint16
			if e.kind == rtpconn.VerifTraceLoopNACK {
				list = (&rtcp.NackPair{PacketID: e.a, LostPackets: rtcp.PacketBitmap(e.b)}).PacketList()
				logl(fmt.Sprintf("loop NACK first=%d bitmap=%#x", e.a, e.b))
			} else {
				list = []uint16{e.a}
				logl(fmt.Sprintf("writer NACK %d", e.a))
			}
			nacks++
			for _, sq := range list {
				i := ext(sq)
				who := "loop"
				if e.kind == rtpconn.VerifTraceWriterNACK {
					who = "writer"
				}
				if stored[i] {
					fail("e2e:nack-names-received:"+who, fmt.Sprintf("the %s NACKed seqno %d (#%d) which the trace shows was stored before", who, sq, i), map[string]any{"trace_tail": lines[max(0, len(lines)-40):]})
					return
				}
				if i >= newest {
					fail("e2e:nack-at-or-beyond-newest:"+who, fmt.Sprintf("the %s NACKed seqno %d (#%d) while the newest packet stored is #%d", who, sq, i, newest), map[string]any{"trace_tail": lines[max(0, len(lines)-40):]})
					return
				}
				if e.kind == rtpconn.VerifTraceLoopNACK {
					named[i]++
					if named[i] > 1 {
						fail("e2e:nack-names-twice:loop", fmt.Sprintf("the receive loop NACKed seqno %d (#%d) twice", sq, i), map[string]any{"trace_tail": lines[max(0, len(lines)-40):]})
						return
					}
				} else {
					wnamed[i]++
				}
			}
		}
	}
	run.Eval(int64(len(evs)))
	run.Count("e2e_trace_events", int64(len(evs)))
	run.Count("e2e_stored", int64(storedN))
	run.Count("e2e_nacks", int64(nacks))
	// steady sessions: every scripted loss that the server could notice is requested
	if steady {
		for i := range lost {
			if i+60 < newest && !stored[i] {
				if named[i] == 0 {
					fail("e2e:lost-never-nacked", fmt.Sprintf("packet #%d was withheld from a steady stream, %d later packets arrived, and it was never requested", i, newest-i), nil)
					return
				}
				run.Count("e2e_steady_lost_nacked", 1)
			}
		}
	}
	// ---- cross-check with what the publisher's PeerConnection received ----
	wire := map[uint16]int{}
	var lastESeq uint32
	rrs := 0
	for _, e := range tr.RTCP() {
		switch p := e.P.(type) {
		case *rtcp.TransportLayerNack:
			if p.MediaSSRC != ssrc {
				continue
			}
			for _, np := range p.Nacks {
				for _, sq := range np.PacketList() {
					wire[sq]++
				}
			}
		case *rtcp.ReceiverReport:
			for _, rr := range p.Reports {
				if rr.SSRC != ssrc {
					continue
				}
				rrs++
				if rr.LastSequenceNumber < lastESeq {
					fail("e2e:rr-extended-seqno-decreased", fmt.Sprintf("receiver report extended highest seqno went from %d to %d without a restart", lastESeq, rr.LastSequenceNumber), nil)
					return
				}
				lastESeq = rr.LastSequenceNumber
			}
		}
	}
	traceNamed := map[uint16]int{}
	for i, c := range named {
		traceNamed[start+uint16(i)] += c
	}
	for i, c := range wnamed {
		traceNamed[start+uint16(i)] += c
	}
	for sq, c := range wire {
		if traceNamed[sq] < c {
			run.Inconclusive(fmt.Sprintf("session %d/%d: the publisher received %d NACK(s) for %d but the trace shows %d (hook drift?)", a.Index, s, c, sq, traceNamed[sq]))
			return
		}
	}
	wireTotal, traceTotal := 0, 0
	for _, c := range wire {
		wireTotal += c
	}
	for _, c := range traceNamed {
		traceTotal += c
	}
	run.Count("e2e_nacked_seqnos_on_the_wire", int64(wireTotal))
	run.Count("e2e_nacked_seqnos_in_trace", int64(traceTotal))
	run.Count("e2e_receiver_reports", int64(rrs))
	run.Count("e2e_sessions", 1)
	kind := "hostile"
	if steady {
		kind = "steady"
	}
	run.Distinct(fmt.Sprintf("e2e %s ahead%v wrap%v nacks%d", kind, ahead, int(start)+n > 65536, min(nacks/5, 8)))
	if a.Index == 0 && s == 0 {
		run.Sample(map[string]any{"tier": "receive-loop", "session": s, "packets": n, "scripted_losses": len(lost), "trace_tail": lines[max(0, len(lines)-15):]})
	}
	_ = strings.Join
	_ = rand.IntN
}

// e2eTier runs the receive-loop sessions in child processes.
func e2eTier(run *vk.Run) {
	batches := run.Pick(1, 12)
	sessions := run.Pick(8, 12)
	packets := run.Pick(2600, 6000)
	var wg sync.WaitGroup
	sem := make(chan struct{}, 3)
	for b := 0; b < batches; b++ {
		wg.Add(1)
		sem <- struct{}{}
		go func(b int) {
			defer wg.Done()
			defer func() { <-sem }()
			res := run.RunChild("e2e", e2eArgs{Index: uint64(b), Sessions: sessions, Packets: packets}, 10*time.Minute)
			switch {
			case strings.HasPrefix(res.Crash, "harness-crash:"):
				run.Inconclusive("e2e: harness crashed: " + res.Crash + "\n" + res.CrashText)
			case res.Crash != "":
				run.Violation("e2e:server-crashed:"+res.Crash, "the server died in the receive-loop tier: "+res.Crash, map[string]any{"e2e_batch": b, "crash": res.CrashText})
			case res.TimedOut:
				run.Inconclusive("e2e: watchdog fired")
			case res.ExitCode != 0:
				run.Inconclusive(fmt.Sprintf("e2e: child exited with %d", res.ExitCode))
			}
		}(b)
	}
	wg.Wait()
	run.FloorCounter("e2e_sessions", int64(batches*sessions*3/4))
	run.FloorCounter("e2e_nacks", 50)
	run.FloorCounter("e2e_steady_lost_nacked", 50)
	run.FloorCounter("e2e_nacked_seqnos_on_the_wire", 50)
	run.FloorCounter("e2e_receiver_reports", int64(batches*sessions))
	run.FloorCounter("e2e_total_loss_intervals_verified", 1)
	run.Assume("receive-loop tier: the server-side order of stored/NACK events comes from three verif trace points in rtpconn (one added line each); the NACKs the publisher's PeerConnection receives are cross-checked against it")
}

// totalLossInterval: the stream has stopped.  Once a receiver report has gone out (the
// interval counters start again), the subscriber asks again for a packet the server never
// received; the server forwards the request upstream and expects that packet.  Nothing
// arrives, so in the next reporting interval everything expected was lost: a report whose
// cumulative loss has grown although the publisher sent nothing in its interval must carry
// the maximal loss fraction 255, not a wrapped-around small one.
func totalLossInterval(run *vk.Run, fail func(string, string, map[string]any), tr *vrtc.UpTrack, sub *vrtc.Peer, ssrc uint32, lastLost int) {
	reports := func() []rtcp.ReceptionReport {
		var out []rtcp.ReceptionReport
		for _, e := range tr.RTCP() {
			if rr, ok := e.P.(*rtcp.ReceiverReport); ok {
				for _, rep := range rr.Reports {
					if rep.SSRC == ssrc {
						out = append(out, rep)
					}
				}
			}
		}
		return out
	}
	waitMore := func(n int) bool {
		for i := 0; i < 400; i++ {
			if len(reports()) > n {
				return true
			}
			time.Sleep(10 * time.Millisecond)
		}
		return false
	}
	// RR0: a report generated after the stream stopped
	n0 := len(reports())
	if !waitMore(n0) {
		run.Count("e2e_total_loss_interval_no_report", 1)
		return
	}
	base := len(reports())
	// the subscriber asks for the lost packet by the number it would carry
	asked := false
	for _, d := range sub.Downs() {
		for _, t := range d.Tracks() {
			for _, p := range t.Packets() {
				if id, ok := vrtc.IDOf("video", p.Payload); ok && int(id) == lastLost-1 {
					d.PC.WriteRTCP([]rtcp.Packet{&rtcp.TransportLayerNack{MediaSSRC: uint32(t.Remote.SSRC()), Nacks: []rtcp.NackPair{{PacketID: p.SequenceNumber + 1}}}})
					asked = true
				}
			}
		}
	}
	if !asked {
		run.Count("e2e_total_loss_interval_not_asked", 1)
		return
	}
	// the next reports: all their intervals lie inside the pause
	for k := 0; k < 3; k++ {
		if !waitMore(base + k) {
			break
		}
	}
	rs := reports()
	judged := false
	for k := base; k < len(rs); k++ {
		prev, cur := rs[k-1], rs[k]
		run.Eval(1)
		if cur.TotalLost > prev.TotalLost {
			judged = true
			if cur.FractionLost != 255 {
				fail("e2e:total-loss-interval-reported-as-partial", fmt.Sprintf("the publisher sent nothing between two receiver reports; the cumulative loss grew from %d to %d (a retransmission the server asked for never came), so everything expected in that interval was lost, yet the report carries loss fraction %d/256 instead of the maximum 255", prev.TotalLost, cur.TotalLost, cur.FractionLost), map[string]any{"reports": rs[max(0, k-2) : k+1]})
				return
			}
		}
	}
	if judged {
		run.Count("e2e_total_loss_intervals_verified", 1)
	} else {
		run.Count("e2e_total_loss_interval_not_reached", 1)
	}
}
