package main

import (
	"fmt"

	"github.com/jech/galene/packetcache"

	"verif/harness/vk"
)

// quiet delivers n consecutive numbers in order, starting at from.
func (h *hist) quiet(from int64, n int) {
	for i := 0; i < n && !h.failed; i++ {
		h.arrive(from + int64(i))
		h.aside()
	}
}

// runSteady: the family that carries clause (4).  In-order arrival; losses in
// clusters spanning <= 16 consecutive numbers (single, full burst, or an
// arbitrary subset with both ends lost); after every cluster and every restart
// at least 26+packets in-order arrivals.  The only other disturbance is a
// duplicate of the newest packet while no hole is pending, which leaves the
// window start one ahead of the newest packet and does not touch a precondition.
//
// One cluster in ten is "wide" (17..24 numbers).  The property text sets no
// bound on the burst; DESIGN.md restates liveness conservatively for gaps <= 16.
// With the window start at the first hole when the cluster begins, the first
// arrival after a cluster of span S finds the start at most S <= 24 < 32 behind,
// so nothing leaves the 32 packet window unreported and correct code names every
// hole within 2*(packets+1) <= 26+packets further arrivals.  Wide clusters are
// what makes a request window wider than the 17 numbers one NACK pair can carry
// observable.  Their violations carry their own key (.../span17-24).
func runSteady(run *vk.Run, idx uint64) *hist {
	h := newHist(run, famSteady, 1, idx)
	r := h.r
	total := h.length()
	guard := 26 + int(h.packets)
	h.arrive(int64(1)<<40 + int64(h.start))
	h.quiet(h.newest+1, r.IntN(30))
	for h.step < total && !h.failed {
		switch x := r.IntN(100); {
		case x < 84: // loss cluster
			base := h.newest + 1
			var span int
			var mask uint32 // bit i: base+i is lost
			switch y := r.IntN(20); {
			case y < 7:
				span, mask = 1, 1
				h.classes |= clSingle
			case y < 9: // wide cluster, 17..24 numbers: see the comment on runSteady
				span = 17 + r.IntN(8)
				mask = 1<<span - 1
				if r.IntN(2) == 0 {
					mask = r.Uint32()&(1<<span-1) | 1 | 1<<(span-1)
				}
				h.classes |= clWide
			case y < 14:
				span = 2 + r.IntN(15)
				if r.IntN(3) == 0 {
					span = []int{2, 15, 16}[r.IntN(3)]
				}
				mask = 1<<span - 1
				if span <= 4 {
					h.classes |= clBurstShort
				} else {
					h.classes |= clBurstLong
				}
			default:
				span = 3 + r.IntN(14)
				mask = r.Uint32()&(1<<span-1) | 1 | 1<<(span-1)
				h.classes |= clSubset
			}
			h.disturb("loss")
			for i := 0; i < span && !h.failed; i++ {
				if mask&(1<<i) != 0 {
					h.lost = append(h.lost, base+int64(i))
					h.lostWide = append(h.lostWide, span > 16)
				} else {
					h.arrive(base + int64(i))
				}
			}
			h.quiet(base+int64(span), guard+r.IntN(40))
		case x < 92: // duplicate of the newest packet, no hole pending
			h.classes |= clDup
			h.disturb("dup")
			h.arrive(h.newest)
			h.quiet(h.newest+1, r.IntN(3))
		default: // restart after a quiet period, then a quiet period
			h.restart(pickBack(r))
			h.quiet(h.newest+1, guard+r.IntN(40))
		}
	}
	h.endEpoch()
	h.finish()
	return h
}

// runHostile: clauses (1)-(3) and the statistics clauses under everything the
// quantifier allows: loss bursts of any length, duplicates, packets late by up
// to 256 (with the boundary values 255/256 forced), forward jumps < 32768,
// restarts at any moment.
func runHostile(run *vk.Run, idx uint64) *hist {
	h := newHist(run, famHostile, 2, idx)
	r := h.r
	total := h.length()
	// per-history disturbance rate, per mille of steps
	rate := []int{30, 120, 300, 600}[r.IntN(4)]
	h.arrive(int64(1)<<40 + int64(h.start))
	for h.step < total && !h.failed {
		h.aside()
		if r.IntN(1000) >= rate {
			h.arrive(h.newest + 1)
			continue
		}
		switch x := r.IntN(100); {
		case x < 30: // loss of k packets
			var k int
			switch y := r.IntN(100); {
			case y < 45:
				k = 1
				h.classes |= clSingle
			case y < 70:
				k = 2 + r.IntN(3)
				h.classes |= clBurstShort
			case y < 92:
				k = 5 + r.IntN(12)
				h.classes |= clBurstLong
			default:
				k = 17 + r.IntN(40)
				h.classes |= clBurstHuge
			}
			h.disturb("loss")
			h.arrive(h.newest + 1 + int64(k))
		case x < 52: // duplicate of a recent packet
			e := h.newest
			if r.IntN(10) >= 4 && h.nrecent > 0 {
				n := min(h.nrecent, len(h.recent))
				e = h.recent[r.IntN(n)]
			}
			if h.newest-e > 256 {
				e = h.newest // older than that would be a restart, not a duplicate
			}
			h.classes |= clDup
			h.disturb("dup")
			h.arrive(e)
		case x < 90: // a late packet (possibly one that already arrived)
			var l int
			switch y := r.IntN(100); {
			case y < 50:
				l = 1 + r.IntN(8)
			case y < 70:
				l = 1 + r.IntN(64)
			case y < 82:
				l = 1 + r.IntN(256)
			case y < 92:
				l = 256
			default:
				l = 250 + r.IntN(7)
			}
			h.classes |= clLate
			h.disturb("late")
			h.arrive(h.newest - int64(l))
		case x < 96: // forward jump, not a restart
			var f int
			switch y := r.IntN(10); {
			case y < 5:
				f = 58 + r.IntN(300)
			case y < 8:
				f = 300 + r.IntN(3000)
			case y < 9:
				f = 32767 - r.IntN(3)
			default:
				f = 3000 + r.IntN(29768)
			}
			h.classes |= clJump
			h.disturb("jump")
			h.arrive(h.newest + int64(f))
		default:
			h.restart(pickBack(r))
		}
	}
	h.endEpoch()
	h.finish()
	return h
}

func bucket(c int) int {
	b := 0
	for c > 1 {
		c >>= 1
		b++
	}
	return b
}

// finish takes a last statistics sample and books the history's coverage.
func (h *hist) finish() {
	h.sample(h.r.IntN(2) == 0)
	run := h.run
	run.Count("histories_"+h.family, 1)
	run.Count("nacks", int64(h.nacks))
	run.Count("seqnos_named", int64(h.namedCnt))
	run.Eval(int64(h.step))
	run.Count("stats_samples", int64(h.samples))
	run.Count("stats_samples_with_loss", int64(h.lossSamples))
	run.Count("eseqno_checked_across_wrap", int64(h.wrapChecks))
	if h.family == famSteady {
		run.Count("steady_lost_nacked", int64(h.lostNacked))
		run.Count("steady_wide_lost_nacked", int64(h.wideNacked))
	}
	if h.wraps > 0 {
		run.Count("histories_with_wrap", 1)
	}
	if h.wraps > 1 {
		run.Count("histories_with_two_wraps", 1)
	}
	if h.classes&clLate256 != 0 {
		run.Count("histories_with_late256", 1)
	}
	if h.classes&clRestart != 0 {
		run.Count("histories_with_restart", 1)
	}
	if h.nacks > 0 {
		run.Distinct(fmt.Sprintf("%s p%d w%v c%x cap%d n%d", h.family, h.packets, h.wraps > 0, h.classes, bucket(h.cap), bucket(len(h.log))))
	}
	if h.idx < 2 {
		n := min(len(h.log), 40)
		first := make([]string, 0, n)
		for _, e := range h.log[:n] {
			first = append(first, e.String())
		}
		run.Sample(map[string]any{"family": h.family, "history": h.idx, "packets": h.packets, "unnacked": h.unnacked, "cap": h.cap, "first_events": first})
	}
}

// checkToBitmap: iterating ToBitmap over a sorted list must reproduce the list.
func checkToBitmap(run *vk.Run, idx uint64, st *tbStats) {
	r := run.Rand(3, idx)
	st.evals++
	n := 1 + r.IntN(40)
	maxGap := []int{1, 2, 3, 15, 16, 17, 18, 40}[r.IntN(8)]
	cur := uint16(r.UintN(65536))
	if r.IntN(3) == 0 {
		cur = uint16(65536 - r.IntN(200)) // the list crosses 65535 -> 0
	}
	list := make([]uint16, n)
	wrap := false
	for i := range list {
		if i > 0 {
			nx := cur + uint16(1+r.IntN(maxGap))
			if nx < cur {
				wrap = true
			}
			cur = nx
		}
		list[i] = cur
	}
	fail := func(key, what string, got []uint16) {
		run.Violation(key, what, map[string]any{"tobitmap": idx, "list": list, "reconstructed": got})
	}
	var out []uint16
	rest := append([]uint16(nil), list...)
	pairs := 0
	for len(rest) > 0 {
		f, b, rem := packetcache.ToBitmap(rest)
		if len(rem) >= len(rest) || pairs > n {
			fail("tobitmap-no-progress", fmt.Sprintf("ToBitmap left %d of %d seqnos uncovered", len(rem), len(rest)), out)
			return
		}
		out = append(out, f)
		for i := uint16(0); i < 16; i++ {
			if b&(1<<i) != 0 {
				out = append(out, f+1+i)
			}
		}
		rest = rem
		pairs++
	}
	// every pair is (first, 16 bit mask): at most 17 numbers by construction of the
	// decoding above; what remains to check is that the decoding is the input.
	in := map[uint16]int{}
	for _, s := range list {
		in[s]++
	}
	for _, s := range out {
		if in[s] == 0 {
			fail("tobitmap-names-extra", fmt.Sprintf("pairs name %d which is not in the input (or name it twice)", s), out)
			return
		}
		in[s]--
	}
	for s, c := range in {
		if c != 0 {
			fail("tobitmap-drops-seqno", fmt.Sprintf("input seqno %d is covered by no pair", s), out)
			return
		}
	}
	for i := range list {
		if out[i] != list[i] {
			fail("tobitmap-order", fmt.Sprintf("pairs are not in input order at position %d: %d instead of %d", i, out[i], list[i]), out)
			return
		}
	}
	st.lists++
	st.pairs += int64(pairs)
	if pairs > 1 {
		st.multi++
	}
	if wrap {
		st.wrapping++
	}
}

// tbStats accumulates ToBitmap coverage for one chunk of lists.
type tbStats struct{ evals, lists, pairs, multi, wrapping int64 }

func (st *tbStats) book(run *vk.Run) {
	run.Eval(st.evals)
	run.Count("tobitmap_lists", st.lists)
	run.Count("tobitmap_pairs", st.pairs)
	run.Count("tobitmap_multi_pair_lists", st.multi)
	run.Count("tobitmap_wrapping_lists", st.wrapping)
}
