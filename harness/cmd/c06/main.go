// C06 (cache tier) - loss accounting and NACK generation never blame a packet
// that arrived; reception statistics are self-consistent.
//
// Monitor: the harness plays the receive loop of rtpconn/rtpreader.go against
// the real packetcache.Cache through its public API only (Store, BitmapGet,
// Expect, GetStats, ToBitmap): for every generated arrival it calls Store,
// applies the loop's own trigger rule (delta > packets => BitmapGet(seqno -
// unnacked); found => NACK and Expect(1+popcount)), and logs the total order of
// events.  The oracle is written from the property text over a ground truth
// that comes from the generator alone (extended 64-bit sequence numbers, the set
// of numbers handed to Store in the current epoch); nothing the cache returns
// feeds the expected values.
//
// What correct code legitimately does (read from packetcache.go, used only to
// decide which histories may carry the liveness clause, never as an oracle):
//   - the loss bitmap is a 32 packet window; set() drops whatever leaves the
//     window unreported and ignores an arrival older than the window start, so a
//     loss that is more than 31 behind the newest packet before the loop's
//     trigger fires is legitimately never requested;
//   - get() hands out at most 17 numbers per call and moves the window start
//     past them, which is what makes a request happen at most once;
//   - with in-order arrival the trigger (delta > packets, packets <= 24) fires
//     at the latest packets+1 arrivals after a hole, i.e. before the hole is 32
//     behind, PROVIDED the window start was not already lagging when the losses
//     began.  A hole that has been waiting for 24 arrivals followed by a fresh
//     burst of 16 is pushed out of the window by correct code.
//
// Hence clause (4) (a missing packet is requested) is asserted only in the
// "steady" family: strictly in-order arrival, losses confined to clusters that
// span at most 16 consecutive numbers, every cluster (and every restart)
// followed by at least 26+packets in-order arrivals before the next cluster,
// restart or end of history.  Inside a cluster the window start is at most 15
// behind, afterwards the lag grows by one per arrival until it exceeds packets
// (<= 24) and the trigger fires, so the lag never reaches 32 and correct code
// must name every lost number.  Clauses (1)-(3) and the statistics clauses are
// asserted in every history of both families.
package main

import (
	"fmt"
	"math/bits"
	"math/rand/v2"
	"os"
	"runtime"
	"sync"
	"sync/atomic"

	"github.com/jech/galene/packetcache"

	"verif/harness/vk"
)

const (
	famSteady  = "steady"
	famHostile = "hostile"
)

// class bits: abstract shape of what a history contained
const (
	clSingle = 1 << iota
	clBurstShort
	clBurstLong
	clBurstHuge
	clSubset
	clDup
	clLate
	clLate256
	clRestart
	clJump
	clExpect
	clShortRestart
	clWide
)

type evt struct {
	K byte // a arrival, n NACK, g GetStats(false), G GetStats(true), e Expect, R restart marker (generator annotation)
	S uint16
	B uint16
	N int32
}

func (e evt) String() string {
	switch e.K {
	case 'a':
		return fmt.Sprintf("a %d", e.S)
	case 'n':
		return fmt.Sprintf("n %d/%#04x", e.S, e.B)
	case 'e':
		return fmt.Sprintf("e %d", e.N)
	case 'R':
		return fmt.Sprintf("R back=%d", e.N)
	default:
		return string(rune(e.K))
	}
}

type hist struct {
	run      *vk.Run
	family   string
	idx      uint64
	r        *rand.Rand
	c        *packetcache.Cache
	cap      int
	packets  uint32
	unnacked uint16
	start    uint16
	long     bool

	// ground truth, derived from the generator only
	have     bool
	newest   int64 // largest extended number stored in this epoch
	recv     map[int64]struct{}
	named    map[int64]struct{}
	lost     []int64 // steady family: numbers withheld in this epoch
	lostWide []bool  // parallel to lost: withheld by a cluster spanning 17..24 numbers
	recent   [64]int64
	nrecent  int

	// statistics sampling
	restartSince bool
	wrapSince    bool
	havePrev     bool
	prevE        uint32

	// bookkeeping
	log         []evt
	step        int
	lastDist    string
	lastDistAt  int
	late256At   int
	shortFrom   int64 // where the previous epoch stopped, if this one began with a jump back of <= 288
	shortLive   bool
	shortAt     int
	classes     uint32
	wraps       int
	nacks       int
	namedCnt    int
	lostNacked  int
	samples     int
	lossSamples int
	wideNacked  int
	wrapChecks  int
	failed      bool
	buf         [48]byte
	ts          uint32
}

// ctx classifies, from what the generator did (never from what the cache
// answered), the circumstances of a violation; it is part of the violation key.
//   - after-short-restart: the epoch began with a backward jump of 257..288 and
//     the new stream has not yet passed the place where the old one stopped;
//   - after-late256: a packet exactly 256 behind the newest arrived at most 48
//     arrivals ago;
//   - otherwise the kind of the most recent disturbance, or quiet.
func (h *hist) ctx() string {
	if h.shortAt >= 0 && h.step-h.shortAt <= 48 {
		return "after-short-restart"
	}
	if h.late256At >= 0 && h.step-h.late256At <= 48 {
		return "after-late256"
	}
	if h.lastDistAt >= 0 && h.step-h.lastDistAt <= 48 {
		return "after-" + h.lastDist
	}
	return "quiet"
}

func (h *hist) disturb(kind string) {
	h.lastDist = kind
	h.lastDistAt = h.step
}

func (h *hist) fail(key, what string) {
	if h.failed {
		return
	}
	h.failed = true
	n := len(h.log)
	lo := 0
	keep := 160
	if os.Getenv("VERIF_REPLAY") != "" {
		keep = 6000 // a replay run records (almost) the whole history
	}
	if n > keep {
		lo = n - keep
	}
	tail := make([]string, 0, n-lo)
	for _, e := range h.log[lo:] {
		tail = append(tail, e.String())
	}
	h.run.Violation(key, what, map[string]any{
		"family": h.family, "history": h.idx, "cap": h.cap, "packets": h.packets,
		"unnacked": h.unnacked, "start": h.start, "events_total": n,
		"legend": "a s = arrival of seqno s; n f/bitmap = NACK; g/G = GetStats(false/true); e n = Expect(n); R = the next arrival is a restart (jump back > 256)",
		"tail":   tail,
	})
}

// arrive plays one iteration of the receive loop for extended number e.
func (h *hist) arrive(e int64) {
	if h.failed {
		return
	}
	s := uint16(e)
	h.step++
	if h.shortLive {
		if h.have && h.newest > h.shortFrom+40 {
			h.shortLive = false
		} else {
			h.shortAt = h.step
		}
	}
	h.log = append(h.log, evt{K: 'a', S: s})
	h.ts += 3000
	x := h.r.Uint32()
	first, _ := h.c.Store(s, h.ts, x&15 == 0, x&48 == 0, h.buf[:12+int(x>>8)%36])

	// ground truth
	if h.have && h.newest-e == 256 { // however the generator came to pick it
		h.late256At = h.step
		h.classes |= clLate256
	}
	h.recv[e] = struct{}{}
	if !h.have || e > h.newest {
		if h.have && s < uint16(h.newest) {
			h.wraps++
			h.wrapSince = true
		}
		h.newest = e
		h.have = true
		h.recent[h.nrecent%len(h.recent)] = e
		h.nrecent++
	}

	// rtpreader.go lines 96-126
	delta := s - first
	if delta&0x8000 != 0 {
		delta = 0
	}
	if uint32(delta) > h.packets {
		found, f, bm := h.c.BitmapGet(s - h.unnacked)
		if found {
			h.log = append(h.log, evt{K: 'n', S: f, B: bm})
			h.checkNack(f, bm)
			h.c.Expect(1 + bits.OnesCount16(bm)) // rtpUpTrack.sendNACK
		}
	}
}

// checkNack applies clauses (1)-(3) to one NACK pair.
func (h *hist) checkNack(f, bm uint16) {
	h.nacks++
	n16 := uint16(h.newest)
	check := func(x uint16) bool {
		d := n16 - x // how far behind the newest stored number
		if d == 0 || d >= 0x8000 {
			h.fail("nack-at-or-beyond-newest/"+h.family+"/"+h.ctx(),
				fmt.Sprintf("NACK (%d,%#04x) names %d which is not older than the newest stored seqno %d", f, bm, x, n16))
			return false
		}
		e := h.newest - int64(d)
		if _, ok := h.recv[e]; ok {
			h.fail("nack-names-received/"+h.family+"/"+h.ctx(),
				fmt.Sprintf("NACK (%d,%#04x) names %d which was stored earlier in this epoch (newest stored %d, %d behind)", f, bm, x, n16, d))
			return false
		}
		if _, ok := h.named[e]; ok {
			if d <= 256 {
				h.fail("nack-names-twice/"+h.family+"/"+h.ctx(),
					fmt.Sprintf("NACK (%d,%#04x) names %d a second time; the stream is only %d past it", f, bm, x, d))
				return false
			}
			h.run.Count("renamed_after_256_tolerated", 1)
		}
		h.named[e] = struct{}{}
		h.namedCnt++
		return true
	}
	if !check(f) {
		return
	}
	for i := uint16(0); i < 16; i++ {
		if bm&(1<<i) != 0 && !check(f+1+i) {
			return
		}
	}
}

// endEpoch asserts clause (4) where the generator guarantees its preconditions.
func (h *hist) endEpoch() {
	if h.failed {
		return
	}
	if h.family == famSteady {
		for i, e := range h.lost {
			if _, ok := h.named[e]; !ok {
				class, bound := "span<=16", 16
				if h.lostWide[i] {
					class, bound = "span17-24", 24
				}
				h.fail("lost-never-nacked/"+h.family+"/"+class,
					fmt.Sprintf("seqno %d went missing from an in-order stream (cluster span <= %d, >= %d in-order arrivals afterwards) and no NACK named it", uint16(e), bound, 26+h.packets))
				return
			}
			h.lostNacked++
			if h.lostWide[i] {
				h.wideNacked++
			}
		}
	}
	h.lost = h.lost[:0]
	h.lostWide = h.lostWide[:0]
}

// restart begins a new epoch: the stream jumps backwards by back (> 256, <= 32768;
// the same thing as a forward jump by 65536-back >= 32768).
func (h *hist) restart(back int64) {
	h.endEpoch()
	if h.failed {
		return
	}
	h.log = append(h.log, evt{K: 'R', N: int32(back)})
	e := h.newest - back
	clear(h.recv)
	clear(h.named)
	h.have = false
	h.nrecent = 0
	h.restartSince = true
	h.classes |= clRestart
	h.disturb("restart")
	h.shortLive = back <= 288
	h.shortFrom = e + back
	if h.shortLive {
		h.classes |= clShortRestart
	}
	h.arrive(e)
}

// sample reads the statistics the way sendUpRTCP does and checks them.
func (h *hist) sample(reset bool) {
	if h.failed {
		return
	}
	k := byte('g')
	if reset {
		k = 'G'
	}
	h.log = append(h.log, evt{K: k})
	st := h.c.GetStats(reset)
	h.samples++
	if st.Received > st.Expected {
		h.fail("stats-received-exceeds-expected/"+h.family,
			fmt.Sprintf("GetStats(%v): Received %d > Expected %d", reset, st.Received, st.Expected))
		return
	}
	if st.TotalReceived > st.TotalExpected {
		h.fail("stats-total-received-exceeds-expected/"+h.family,
			fmt.Sprintf("GetStats(%v): TotalReceived %d > TotalExpected %d", reset, st.TotalReceived, st.TotalExpected))
		return
	}
	var fraction uint32
	if st.Expected > st.Received {
		lost := st.Expected - st.Received
		fraction = lost * 256 / st.Expected
		if fraction >= 255 {
			fraction = 255
		}
	}
	if fraction > 255 {
		h.fail("stats-fraction-out-of-range/"+h.family, fmt.Sprintf("fraction lost %d from Expected %d Received %d", fraction, st.Expected, st.Received))
		return
	}
	if fraction > 0 {
		h.lossSamples++
	}
	if h.havePrev && !h.restartSince && st.ESeqno < h.prevE {
		w := "no-wrap"
		if h.wrapSince {
			w = "across-wrap"
		}
		h.fail("stats-eseqno-decreased/"+w,
			fmt.Sprintf("extended highest seqno went from %#x to %#x with no backward jump > 256 in between", h.prevE, st.ESeqno))
		return
	}
	if h.havePrev && h.wrapSince && !h.restartSince {
		h.wrapChecks++
	}
	h.prevE, h.havePrev = st.ESeqno, true
	h.restartSince, h.wrapSince = false, false
}

// aside performs, with small probability, the calls other goroutines make
// between two iterations of the loop: the RTCP sender's GetStats(true), a
// stats reader's GetStats(false), nackWriter's Expect(n).
func (h *hist) aside() {
	switch x := h.r.IntN(1000); {
	case x < 12:
		h.sample(true)
	case x < 22:
		h.sample(false)
	case x < 30:
		n := 1 + h.r.IntN(17)
		if h.r.IntN(10) == 0 {
			n = 1 + h.r.IntN(240)
		}
		if h.failed {
			return
		}
		h.log = append(h.log, evt{K: 'e', N: int32(n)})
		h.c.Expect(n)
		h.classes |= clExpect
		if h.r.IntN(2) == 0 {
			h.sample(h.r.IntN(2) == 0)
		}
	}
}

func pickBack(r *rand.Rand) int64 {
	switch x := r.IntN(100); {
	case x < 10:
		return 257
	case x < 40:
		return 257 + int64(r.IntN(34))
	case x < 50:
		return 32768
	case x < 60:
		return 32000 + int64(r.IntN(769))
	default:
		return 257 + int64(r.IntN(32768-257+1))
	}
}

func pickStart(r *rand.Rand) uint16 {
	switch x := r.IntN(10); {
	case x < 4:
		return uint16(r.UintN(65536))
	case x < 7:
		return uint16(65536 - r.IntN(300)) // wraps within the history
	default:
		b := []int{65535, 0, 32767, 32768}[r.IntN(4)]
		return uint16(b + r.IntN(81) - 40)
	}
}

func newHist(run *vk.Run, family string, stream, idx uint64) *hist {
	r := run.Rand(stream, idx)
	h := &hist{run: run, family: family, idx: idx, r: r, lastDistAt: -1, late256At: -1, shortAt: -1,
		recv: map[int64]struct{}{}, named: map[int64]struct{}{}}
	h.cap = 16 + r.IntN(497)
	h.c = packetcache.New(h.cap)
	h.packets = uint32(2 + r.IntN(23))
	if r.IntN(4) == 0 {
		h.packets = []uint32{2, 3, 4, 5, 24}[r.IntN(5)]
	}
	h.unnacked = 4
	if uint32(h.unnacked) > h.packets {
		h.unnacked = uint16(h.packets)
	}
	h.start = pickStart(r)
	h.long = idx%100 == 37
	if h.long {
		h.start = uint16(65536 - r.IntN(2000)) // 70000 arrivals from here wrap twice
	}
	for i := range h.buf {
		h.buf[i] = byte(r.Uint32())
	}
	return h
}

func (h *hist) length() int {
	if h.long {
		return 70000
	}
	if h.r.IntN(2) == 0 {
		return 50 + h.r.IntN(350)
	}
	return 400 + h.r.IntN(2601)
}

func main() {
	if _, ok := vk.InChild(); ok {
		e2eChild()
		return
	}
	run := vk.Start("C06")
	if rep, ok := vk.ReplayInput(); ok {
		if sd, ok := rep["seed"].(float64); ok {
			run.Seed = int64(sd) // histories are a function of (seed, family, index)
		}
		if m, ok := rep["replay"].(map[string]any); ok {
			if hi, ok := m["history"].(float64); ok {
				if fam, _ := m["family"].(string); fam == famSteady {
					runSteady(run, uint64(hi))
				} else {
					runHostile(run, uint64(hi))
				}
			}
			if ti, ok := m["tobitmap"].(float64); ok {
				var st tbStats
				checkToBitmap(run, uint64(ti), &st)
				st.book(run)
			}
		}
		run.Finish("exploration", "replay of one recorded case")
	}
	nSteady := run.Pick(1200, 120000)
	nHostile := run.Pick(1800, 180000)
	nLists := run.Pick(20000, 2000000)
	const chunk = 1000
	nChunks := (nLists + chunk - 1) / chunk
	totalJobs := uint64(nSteady + nHostile + nChunks)
	workers := runtime.GOMAXPROCS(0)
	var wg sync.WaitGroup
	var next atomic.Uint64
	for w := 0; w < workers; w++ {
		wg.Add(1)
		go func() {
			defer wg.Done()
			for {
				i := next.Add(1) - 1
				switch {
				case i >= totalJobs:
					return
				case i < uint64(nSteady):
					runSteady(run, i)
				case i < uint64(nSteady+nHostile):
					runHostile(run, i-uint64(nSteady))
				default:
					lo := (i - uint64(nSteady+nHostile)) * chunk
					var st tbStats
					for j := lo; j < lo+chunk && j < uint64(nLists); j++ {
						checkToBitmap(run, j, &st)
					}
					st.book(run)
				}
			}
		}()
	}
	wg.Wait()
	e2eTier(run)
	run.Set("histories", nSteady+nHostile)
	run.FloorCounter("nacks", 5000)
	run.FloorCounter("seqnos_named", 10000)
	run.FloorCounter("steady_lost_nacked", 2000)
	run.FloorCounter("steady_wide_lost_nacked", 500)
	run.FloorCounter("stats_samples", 5000)
	run.FloorCounter("stats_samples_with_loss", 500)
	run.FloorCounter("histories_with_wrap", 100)
	run.FloorCounter("histories_with_two_wraps", 5)
	run.FloorCounter("eseqno_checked_across_wrap", 50)
	run.FloorCounter("histories_with_restart", 100)
	run.FloorCounter("histories_with_late256", 100)
	run.FloorCounter("tobitmap_lists", 10000)
	run.FloorCounter("tobitmap_multi_pair_lists", 1000)
	run.FloorCounter("tobitmap_wrapping_lists", 500)
	run.Assume("the harness is the receive loop: it reproduces rtpreader.go's trigger rule (delta > packets, BitmapGet(seqno-unnacked), Expect on NACK) with packets in 2..24 drawn per history; the real loop, nackWriter and sendUpRTCP are covered by the receive-loop tier of C06")
	run.Assume("an epoch ends when the generator jumps back by 257..32768 (mod 2^16: forward by >= 32768); the ground-truth set of stored numbers and the named-once set are per epoch")
	run.Assume("clause (4) is asserted only in the steady family (in-order, loss clusters spanning <= 16 numbers and, one in ten, 17..24 numbers with their own violation key, >= 26+packets in-order arrivals after every cluster and restart); correct code legitimately drops holes that leave the 32 packet window")
	run.Assume("histories stay far below 2^32 expected packets and 2^16 cycles, so the 32 bit counters do not wrap")
	run.Finish("exploration", "arrival histories generated from (seed, family, index): start seqno uniform or forced near 65535/0/32767/32768, lengths 50..3000 and 1% of 70000 (two wraps), cache capacity 16..512, packets 2..24; steady = in-order + loss clusters <= 16 (10% 17..24) + duplicates of the newest + restarts, each followed by a guard of in-order arrivals; hostile = loss bursts 1..56, duplicates, late packets up to 256 (255/256 forced), forward jumps < 32768, restarts, at 3%-60% of steps; GetStats(reset true/false) and Expect(n) interleaved at random points; ToBitmap on sorted lists of 1..40 seqnos with gaps 1..40; distinct_nontrivial = distinct (family, packets, wrapped, disturbance-class set, log2 capacity, log2 length) among histories that produced at least one NACK")
}
