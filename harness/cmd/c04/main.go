// C04 - layers above the selection are withheld; switches occur only at legal points.
//
// After every Write the harness samples the receiver's packed layer word through the
// verif shim and records (flags of the packet as the generator built them and pion
// parses them, layer before, layer after, forwarded?), interleaved with feedback events
// (REMB through the real adjustLayer, receiver reports with any loss through the real
// updateRate, stale feedback, limitSid changes).  The oracle is the state machine of the
// property text.  A concurrent phase runs writer and feedback in separate goroutines and
// checks that the selected layers never move between two Writes.
package main

import (
	"fmt"
	"runtime"
	"sync"
	"sync/atomic"
	"time"

	"github.com/pion/rtcp"

	"github.com/jech/galene/rtpconn"
	"github.com/jech/galene/rtptime"

	"verif/harness/vdown"
	"verif/harness/vk"
)

type L = rtpconn.VerifLayer

func ls(l L) string {
	lim := ""
	if l.LimitSid {
		lim = " limit"
	}
	return fmt.Sprintf("s%d/w%d/m%d t%d/w%d/m%d%s", l.Sid, l.WantedSid, l.MaxSid, l.Tid, l.WantedTid, l.MaxTid, lim)
}

// legal decides clauses (2), (3) and (5) for one Write; it returns "" or the violated clause.
// One Write may first follow a new top layer (the eager exception) and then apply an
// ordinary switch to the same packet, so the transition is legal if it is legal from the
// state before the Write or from that state with the eager exception applied.
func legal(p *vdown.Pkt, a, b L, seenMaxTid, seenMaxSid uint8) (string, string) {
	if b.Tid > seenMaxTid || b.Sid > seenMaxSid {
		return "layer-above-seen", fmt.Sprintf("selected layers s%d t%d exceed the highest seen in the stream s%d t%d", b.Sid, b.Tid, seenMaxSid, seenMaxSid)
	}
	kfStart := p.Start && p.Key
	tidStarts := []uint8{a.Tid}
	if a.Tid == a.MaxTid && p.Tid > a.MaxTid {
		tidStarts = append(tidStarts, p.Tid)
	}
	sidStarts := []uint8{a.Sid}
	if a.Sid == a.MaxSid && p.Sid > a.MaxSid && !a.LimitSid {
		sidStarts = append(sidStarts, p.Sid)
	}
	sidOK := false
	for _, s0 := range sidStarts {
		if b.Sid == s0 || kfStart {
			sidOK = true
		}
	}
	if !sidOK {
		return "sid-changed-off-keyframe", fmt.Sprintf("spatial layer %d -> %d on a packet that is not the first of a keyframe", a.Sid, b.Sid)
	}
	wanted := max(a.WantedTid, b.WantedTid)
	why := ""
	for _, t0 := range tidStarts {
		switch {
		case b.Tid == t0:
			return "", ""
		case b.Tid < t0:
			if p.Start {
				return "", ""
			}
			why = "tid-fell-mid-frame"
		default:
			// an up-switch point of layer T allows a rise up to T (not beyond it)
			if kfStart || (p.UpSync && p.Tid <= wanted && b.Tid <= p.Tid) {
				return "", ""
			}
			why = "tid-rose-illegally"
		}
	}
	if why == "tid-fell-mid-frame" {
		return why, fmt.Sprintf("temporal layer %d -> %d on a packet that does not start a frame", a.Tid, b.Tid)
	}
	return why, fmt.Sprintf("temporal layer %d -> %d on a packet that is neither a keyframe start nor an up-switch point for a layer <= wanted %d (packet tid %d, up-switch flag %v)", a.Tid, b.Tid, wanted, p.Tid, p.UpSync)
}

func genStream(r interface {
	IntN(int) int
	UintN(uint) uint
	Uint64() uint64
	Float64() float64
}, idx uint64) *vdown.StreamCfg {
	codec := vdown.VP8
	if r.IntN(2) == 0 {
		codec = vdown.VP9
	}
	cfg := &vdown.StreamCfg{Codec: codec, PidBits: []int{0, 7, 15}[r.IntN(3)], StartPid: uint16(r.UintN(32768)), StartTS: uint32(r.Uint64()),
		UpSyncProb: []float64{0, 0.3, 0.7, 1}[r.IntN(4)], KeyEvery: []int{0, 12, 30, 70}[r.IntN(4)], KeyProb: []float64{0, 0.02}[r.IntN(2)],
		MaxPktsPerFrame: 1 + r.IntN(4), MaxFill: 30, Pictures: 80 + r.IntN(260)}
	if r.IntN(3) == 0 {
		cfg.TPattern = nil
		cfg.TMax = uint8(1 + r.IntN(3))
	} else {
		cfg.TPattern = vdown.TemporalPatterns[r.IntN(4)]
	}
	if codec == vdown.VP9 {
		cfg.SLayers = 1 + r.IntN(3)
		cfg.Flexible = r.IntN(2) == 0
		cfg.ZProb = []float64{0, 0.3}[r.IntN(2)]
	}
	// every residue class of the start seqno relative to the 8192 boundaries
	switch r.IntN(3) {
	case 0:
		cfg.StartSeq = uint16(idx%8)*8192 + uint16(r.IntN(8192))
	case 1:
		cfg.StartSeq = vdown.ForcedStarts[r.IntN(len(vdown.ForcedStarts))]
	default:
		cfg.StartSeq = uint16(r.UintN(65536))
	}
	return cfg
}

func runSequential(run *vk.Run, idx uint64) {
	r := run.Rand(1, idx)
	cfg := genStream(r, idx)
	codec := cfg.Codec
	src := vdown.Generate(cfg, r)
	for _, p := range src[:min(len(src), 10)] {
		if err := vdown.SelfCheck(codec, p); err != nil {
			run.Inconclusive("harness self-check: " + err.Error())
			return
		}
	}
	dl := vdown.DeliveryCfg{}
	if r.IntN(3) == 0 {
		dl = vdown.DeliveryCfg{LossProb: 0.02, DupProb: 0.03, ReorderProb: 0.05, MaxDelay: 6}
	}
	order := vdown.Schedule(len(src), dl, r)
	w := vdown.NewWorld(codec, 256)
	var trail []string
	fail := func(key, what string) bool {
		n := len(trail)
		return run.Violation(key, what, map[string]any{"sequential_index": idx, "codec": codec.Mime(), "start_seq": cfg.StartSeq, "trail": trail[max(0, n-60):]})
	}
	hi := -1
	var seenMaxTid, seenMaxSid uint8
	limitOn, steered := false, false
	prev := w.D.Layer()
	nextEvent := 5 + r.IntN(25)
	stats := struct{ withheldAbove, tidUp, tidDown, sidChange, eager, limitSteered, notInOrderFwd int }{}
	if r.IntN(6) == 0 { // low-quality request before the first packet
		w.D.SetLimitSid(true)
		limitOn = true
		trail = append(trail, "limitSid on (before first packet)")
		prev = w.D.Layer()
	}
	for k, i := range order {
		if k == nextEvent {
			nextEvent = k + 4 + r.IntN(40)
			before := w.D.Layer()
			ev := ""
			switch e := r.IntN(12); {
			case e < 4:
				w.SwitchDown()
				ev = "REMB low + adjustLayer"
			case e < 7:
				w.SwitchUp()
				ev = "REMB high + adjustLayer x2"
			case e < 8:
				w.D.SetREMB(uint64(1+r.IntN(1000000)), rtptime.Jiffies()-31*rtptime.JiffiesPerSec) // stale feedback
				w.D.AdjustLayer()
				ev = "stale REMB + adjustLayer"
			case e < 10:
				loss := uint8(r.UintN(256))
				w.D.HandleReport(rtcp.ReceptionReport{SSRC: vdown.BindSSRC, FractionLost: loss, Jitter: uint32(r.UintN(1000))}, rtptime.Jiffies())
				w.D.AdjustLayer()
				ev = fmt.Sprintf("RR loss=%d + adjustLayer", loss)
			case e < 11:
				if !limitOn {
					w.D.SetLimitSid(true)
					limitOn, steered = true, false
					ev = "limitSid on"
				} else {
					w.D.SetLimitSid(false)
					limitOn, steered = false, false
					ev = "limitSid off"
				}
			default:
				time.Sleep(1200 * time.Microsecond)
				w.D.AdjustLayer()
				ev = "adjustLayer"
			}
			after := w.D.Layer()
			trail = append(trail, fmt.Sprintf("feedback: %s: %s -> %s", ev, ls(before), ls(after)))
			run.Eval(1)
			// clause 4: feedback moves wanted layers (and the limit flag), never the selection
			if after.Sid != before.Sid || after.Tid != before.Tid || after.MaxSid != before.MaxSid || after.MaxTid != before.MaxTid {
				if fail("feedback-moved-selected-layer", fmt.Sprintf("%s changed the selected layers outside a Write: %s -> %s", ev, ls(before), ls(after))) {
					return
				}
			}
			prev = after
		}
		p := src[i]
		a := w.D.Layer()
		if a != prev {
			if fail("layer-changed-between-writes", fmt.Sprintf("layer word changed with no Write and no feedback: %s -> %s", ls(prev), ls(a))) {
				return
			}
		}
		outs, _, err := w.Deliver(p)
		b := w.D.Layer()
		prev = b
		run.Eval(1)
		if p.Tid > seenMaxTid {
			seenMaxTid = p.Tid
		}
		if p.Sid > seenMaxSid {
			seenMaxSid = p.Sid
		}
		isNew := i > hi
		inOrder := hi >= 0 && i == hi+1
		if isNew {
			hi = i
		}
		trail = append(trail, fmt.Sprintf("%v: %s -> %s, %d out", p, ls(a), ls(b), len(outs)))
		if err != nil {
			if fail("write-error", fmt.Sprintf("Write returned %v for %v", err, p)) {
				return
			}
			continue
		}
		if key, what := legal(p, a, b, seenMaxTid, seenMaxSid); key != "" {
			if fail(key, fmt.Sprintf("%v: %s (%s -> %s)", p, what, ls(a), ls(b))) {
				return
			}
		}
		if b.MaxTid != seenMaxTid || b.MaxSid != seenMaxSid {
			if fail("max-layer-tracking", fmt.Sprintf("%v: recorded maxima s%d t%d differ from the highest layers fed so far s%d t%d", p, b.MaxSid, b.MaxTid, seenMaxSid, seenMaxTid)) {
				return
			}
		}
		above := p.Tid > b.Tid || p.Sid > b.Sid
		// clause 1: an in-order packet above the selection is withheld
		if above && inOrder && len(outs) > 0 {
			if fail(fmt.Sprintf("above-layer-forwarded:start%d", cfg.StartSeq>>13), fmt.Sprintf("%v arrived in order above the selection %s and was forwarded", p, ls(b))) {
				return
			}
		}
		if above && inOrder && len(outs) == 0 {
			stats.withheldAbove++
		}
		if above && !inOrder && len(outs) > 0 {
			stats.notInOrderFwd++
		}
		// clause 1b: a new packet within the selection is forwarded (else the sub-stream is not decodable)
		if isNew && !above && !(p.Sid < b.Sid && p.NonRef) && len(outs) == 0 {
			if fail("within-layer-withheld", fmt.Sprintf("%v is within the selection %s and was withheld", p, ls(b))) {
				return
			}
		}
		if b.Tid > a.Tid {
			stats.tidUp++
		}
		if b.Tid < a.Tid {
			stats.tidDown++
		}
		if b.Sid != a.Sid {
			stats.sidChange++
		}
		if (a.Tid == a.MaxTid && p.Tid > a.MaxTid) || (a.Sid == a.MaxSid && p.Sid > a.MaxSid) {
			stats.eager++
		}
		// clause 6: low quality => lowest spatial layer from the next keyframe on
		if limitOn {
			if p.Start && p.Key {
				steered = true
			}
			if steered {
				if b.Sid != 0 {
					if fail("limit-sid-not-steered", fmt.Sprintf("%v: low quality requested and a keyframe has passed, yet spatial layer is %d", p, b.Sid)) {
						return
					}
				}
				stats.limitSteered++
			}
		}
	}
	run.Count("sequential_histories", 1)
	run.Count("withheld_above_layer_in_order", int64(stats.withheldAbove))
	run.Count("above_layer_out_of_order_forwarded", int64(stats.notInOrderFwd))
	run.Count("tid_rises", int64(stats.tidUp))
	run.Count("tid_falls", int64(stats.tidDown))
	run.Count("sid_changes", int64(stats.sidChange))
	run.Count("eager_follow", int64(stats.eager))
	run.Count("packets_under_limit_after_keyframe", int64(stats.limitSteered))
	if stats.withheldAbove > 0 && (stats.tidUp > 0 || stats.tidDown > 0 || stats.sidChange > 0) {
		run.Distinct(fmt.Sprintf("c%d sl%d pat%d/%d up%v key%d/%v z%v start%d u%d d%d s%d lim%v re%v", codec, cfg.SLayers, len(cfg.TPattern), cfg.TMax, cfg.UpSyncProb, cfg.KeyEvery, cfg.KeyProb, cfg.ZProb, cfg.StartSeq>>13, min(stats.tidUp, 3), min(stats.tidDown, 3), min(stats.sidChange, 3), stats.limitSteered > 0, dl.ReorderProb))
	}
	if idx < 2 {
		run.Sample(map[string]any{"mode": "sequential", "index": idx, "codec": codec.Mime(), "start_seq": cfg.StartSeq, "trail_head": trail[:min(len(trail), 25)]})
	}
}

// clause 7: the loss-based ceiling stays within [9600, 2^30] whatever reports arrive
func runRateClamp(run *vk.Run, idx uint64) {
	r := run.Rand(3, idx)
	cfg := &vdown.StreamCfg{Codec: vdown.VP8, PidBits: 15, TPattern: vdown.TemporalPatterns[0], MaxPktsPerFrame: 2, MaxFill: 1000, Pictures: 40}
	src := vdown.Generate(cfg, r)
	w := vdown.NewWorld(vdown.VP8, 64)
	mode := r.IntN(4)
	var trail []string
	// before any receiver report has arrived the ceiling must already be within bounds
	if rate, _, _ := w.D.GetMaxBitrate(); rate < 9600 || rate > 1<<30 {
		if run.Violation("loss-ceiling-out-of-bounds:before-first-report", fmt.Sprintf("before any receiver report the ceiling read through GetMaxBitrate is %d, outside [9600, 2^30] (process age %.1fs)", rate, float64(rtptime.Jiffies())/float64(rtptime.JiffiesPerSec)), map[string]any{"clamp_index": idx}) {
			return
		}
	}
	for k := 0; k < 1200; k++ {
		if k%10 == 0 {
			w.Deliver(src[(k/10)%len(src)])
		}
		var loss uint8
		switch mode {
		case 0:
			loss = uint8(r.UintN(5)) // always growing
		case 1:
			loss = uint8(200 + r.UintN(56)) // always shrinking
		case 2:
			loss = uint8(r.UintN(256))
		default:
			loss = []uint8{0, 4, 5, 25, 26, 255}[r.IntN(6)]
		}
		now := rtptime.Jiffies()
		if r.IntN(50) == 0 {
			now -= 40 * rtptime.JiffiesPerSec // a report that is already stale
		}
		w.D.UpdateRate(loss, now)
		run.Eval(1)
		rate, _, _ := w.D.GetMaxBitrate()
		trail = append(trail, fmt.Sprintf("loss=%d -> ceiling %d", loss, rate))
		if rate < 9600 || rate > 1<<30 {
			n := len(trail)
			if run.Violation("loss-ceiling-out-of-bounds", fmt.Sprintf("after updateRate(loss=%d) the ceiling read through GetMaxBitrate is %d, outside [9600, 2^30]", loss, rate), map[string]any{"clamp_index": idx, "trail": trail[max(0, n-30):]}) {
				return
			}
		}
		if rate == 9600 {
			run.Count("ceiling_at_lower_bound", 1)
		}
		if rate == 1<<30 {
			run.Count("ceiling_at_upper_bound", 1)
		}
	}
	run.Count("rate_sequences", 1)
}

// concurrent phase: writer and feedback in separate goroutines, as in the server
// (writer loop vs rtcpDownListener / replaceTracks).
func runConcurrent(run *vk.Run, idx uint64, pictures int) {
	r := run.Rand(2, idx)
	cfg := genStream(r, idx)
	cfg.Pictures = pictures
	cfg.KeyEvery = 10
	if cfg.TPattern == nil || len(cfg.TPattern) < 2 {
		cfg.TPattern = vdown.TemporalPatterns[2]
	}
	src := vdown.Generate(cfg, r)
	w := vdown.NewWorld(cfg.Codec, 256)
	var stop atomic.Bool
	var wg sync.WaitGroup
	wg.Add(1)
	var fbEvents atomic.Int64
	go func() {
		defer wg.Done()
		rr := run.Rand(4, idx)
		for !stop.Load() {
			switch rr.IntN(5) {
			case 0:
				w.D.SetREMB(1, rtptime.Jiffies())
				w.D.AdjustLayer()
			case 1:
				w.D.SetREMB(1<<40, rtptime.Jiffies())
				w.D.AdjustLayer()
			case 2:
				w.D.UpdateRate(uint8(rr.UintN(256)), rtptime.Jiffies())
				w.D.AdjustLayer()
			case 3:
				w.D.SetLimitSid(rr.IntN(2) == 0)
			default:
				w.D.AdjustLayer()
			}
			fbEvents.Add(1)
			if rr.IntN(4) == 0 {
				runtime.Gosched()
			}
		}
	}()
	var seenMaxTid, seenMaxSid uint8
	prev := w.D.Layer()
	var trail []string
	moved := 0
	for _, p := range src {
		a := w.D.Layer()
		if a.Sid != prev.Sid || a.Tid != prev.Tid || a.MaxSid != prev.MaxSid || a.MaxTid != prev.MaxTid {
			moved++
			what := "tid"
			if a.Sid != prev.Sid {
				what = "sid"
			} else if a.MaxSid != prev.MaxSid || a.MaxTid != prev.MaxTid {
				what = "max"
			}
			n := len(trail)
			if run.Violation("concurrent:selected-layer-moved-between-writes:"+what, fmt.Sprintf("with feedback running concurrently the selected layers moved between two Writes: %s -> %s (before %v)", ls(prev), ls(a), p), map[string]any{"concurrent_index": idx, "trail": trail[max(0, n-30):]}) {
				stop.Store(true)
				wg.Wait()
				return
			}
		}
		_, _, err := w.Deliver(p)
		b := w.D.Layer()
		prev = b
		run.Eval(1)
		if p.Tid > seenMaxTid {
			seenMaxTid = p.Tid
		}
		if p.Sid > seenMaxSid {
			seenMaxSid = p.Sid
		}
		trail = append(trail, fmt.Sprintf("%v: %s -> %s", p, ls(a), ls(b)))
		if len(trail) > 200 {
			trail = trail[100:]
		}
		if err != nil {
			continue
		}
		if b.Tid > seenMaxTid || b.Sid > seenMaxSid {
			n := len(trail)
			if run.Violation("concurrent:layer-above-seen", fmt.Sprintf("selected layers %s exceed the highest seen s%d t%d", ls(b), seenMaxSid, seenMaxTid), map[string]any{"concurrent_index": idx, "trail": trail[max(0, n-30):]}) {
				break
			}
		}
	}
	stop.Store(true)
	wg.Wait()
	run.Count("concurrent_histories", 1)
	run.Count("concurrent_feedback_events", fbEvents.Load())
	run.Count("concurrent_writes", int64(len(src)))
}

func main() {
	if _, ok := vk.InChild(); ok {
		e2eChild()
	}
	run := vk.Start("C04")
	if rep, ok := vk.ReplayInput(); ok {
		m, _ := rep["replay"].(map[string]any)
		if v, ok := m["sequential_index"].(float64); ok {
			runSequential(run, uint64(v))
		}
		if v, ok := m["clamp_index"].(float64); ok {
			runRateClamp(run, uint64(v))
		}
		if v, ok := m["concurrent_index"].(float64); ok {
			for i := 0; i < 20; i++ {
				runConcurrent(run, uint64(v), 4000)
			}
		}
		run.Finish("exploration", "replay of one recorded case (concurrent cases are re-run 20 times: schedule-dependent)")
	}
	nSeq := run.Pick(1500, 100000)
	nClamp := run.Pick(200, 8000)
	nConc := run.Pick(16, 400)
	var next atomic.Uint64
	var wg sync.WaitGroup
	for wk := 0; wk < runtime.GOMAXPROCS(0); wk++ {
		wg.Add(1)
		go func() {
			defer wg.Done()
			for {
				i := next.Add(1) - 1
				switch {
				case i < uint64(nSeq):
					runSequential(run, i)
				case i < uint64(nSeq+nClamp):
					runRateClamp(run, i-uint64(nSeq))
				default:
					return
				}
			}
		}()
	}
	wg.Wait()
	// concurrent histories: 4 at a time, each has 2 busy goroutines
	next.Store(0)
	for wk := 0; wk < 6; wk++ {
		wg.Add(1)
		go func() {
			defer wg.Done()
			for {
				i := next.Add(1) - 1
				if i >= uint64(nConc) {
					return
				}
				runConcurrent(run, i, run.Pick(3000, 20000))
			}
		}()
	}
	wg.Wait()
	e2eTier(run)
	run.FloorCounter("withheld_above_layer_in_order", 2000)
	run.FloorCounter("tid_rises", 300)
	run.FloorCounter("tid_falls", 300)
	run.FloorCounter("sid_changes", 50)
	run.FloorCounter("eager_follow", 300)
	run.FloorCounter("packets_under_limit_after_keyframe", 200)
	run.FloorCounter("ceiling_at_lower_bound", 10)
	run.FloorCounter("concurrent_feedback_events", 1000)
	run.Assume("'arrives in order' = successor of the highest packet seen so far (the first packet of a stream is exempt); flags are the generator's ground truth cross-checked with pion's depacketisers")
	run.Assume("limitSid is set through the shim's SetLimitSid, which repeats the five lines replaceTracks applies to every track (the real replaceTracks needs a PeerConnection)")
	run.Finish("exploration", "VP8/VP9 streams with every tid/sid/keyframe/up-switch pattern (4 libvpx patterns + random tids, 1-3 spatial layers, Z flags), start seqnos in every residue class of the 8192 boundaries, interleaved with REMB / receiver-report (loss 0..255) / stale-feedback / limitSid events, some with loss, duplication and reordering; every Write is judged by the property's state machine from the sampled layer word before and after; plus receiver-report sequences for the ceiling bounds and concurrent writer+feedback histories; distinct_nontrivial = distinct stream/feedback shapes among histories that withheld a packet and switched layers")
}
